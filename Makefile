# /verif/Makefile — builds the Coq development (full .vo), the extraction and
# the OCaml driver.  `make setup` is MANIFEST.setup_cmd.
SHELL := /bin/bash
COQ_TIMEOUT ?= 1800
J ?= 12

.PHONY: setup all coq extract driver clean

setup: all
all: coq driver

coq/Makefile.coq: coq/_CoqProject
	cd coq && coq_makefile -f _CoqProject -o Makefile.coq

coq: coq/Makefile.coq
	cd coq && timeout $(COQ_TIMEOUT) $(MAKE) -f Makefile.coq -j$(J)

extract: coq
	mkdir -p build/extract
	cp coq/extract/Extract.v build/extract/Extract.v
	cd build/extract && timeout 600 coqc -Q ../../coq/theories RV Extract.v

driver: extract
	cp coq/extract/driver.ml build/extract/driver.ml
	cd build/extract && timeout 600 ocamlfind ocamlopt -w -a -O2 -package str model.mli model.ml driver.ml -o ../model_driver 2>/dev/null || \
	 (cd build/extract && timeout 600 ocamlfind ocamlopt -w -a -package str model.mli model.ml driver.ml -o ../model_driver)

clean:
	-cd coq && $(MAKE) -f Makefile.coq clean
	rm -rf build coq/Makefile.coq coq/Makefile.coq.conf
