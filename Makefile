# /verif/Makefile — builds the Coq development (full .vo), the extraction and
# the OCaml driver.  `make setup` is MANIFEST.setup_cmd.
SHELL := /bin/bash
COQ_TIMEOUT ?= 1800
J ?= 12

.PHONY: setup all coq extract driver clean prectable coqchk static

setup: all
all: coq
	$(MAKE) driver

coq/Makefile.coq: coq/_CoqProject
	cd coq && coq_makefile -f _CoqProject -o Makefile.coq

# the precedence table of the parser model is regenerated from rtamt's generated ANTLR parser on every build
REPO ?= /repo
prectable:
	@python3 tools/gen_prectable.py $(REPO)/rtamt/antlr/parser/stl/StlParser.py build/PrecTable.v.new 2>/dev/null || (mkdir -p build && python3 tools/gen_prectable.py $(REPO)/rtamt/antlr/parser/stl/StlParser.py build/PrecTable.v.new)
	@cmp -s build/PrecTable.v.new coq/theories/PrecTable.v || cp build/PrecTable.v.new coq/theories/PrecTable.v

coq: prectable coq/Makefile.coq
	cd coq && timeout $(COQ_TIMEOUT) $(MAKE) -f Makefile.coq -j$(J)

# extraction and driver are rebuilt only when a compiled theory, Extract.v or driver.ml is newer (a check that runs while another one
# starts must not find the driver half written: it is linked under a temporary name and moved into place)
extract: build/extract/model.ml
build/extract/model.ml: coq/extract/Extract.v $(wildcard coq/theories/*.vo)
	mkdir -p build/extract
	cp coq/extract/Extract.v build/extract/Extract.v
	cd build/extract && timeout 600 coqc -Q ../../coq/theories RV Extract.v

driver: build/model_driver
build/model_driver: build/extract/model.ml coq/extract/driver.ml
	cp coq/extract/driver.ml build/extract/driver.ml
	cd build/extract && (timeout 600 ocamlfind ocamlopt -w -a -O2 -package str model.mli model.ml driver.ml -o ../model_driver.new 2>/dev/null || \
	 timeout 600 ocamlfind ocamlopt -w -a -package str model.mli model.ml driver.ml -o ../model_driver.new)
	mv -f build/model_driver.new build/model_driver

# independent re-check of every property file and everything it depends on, with the axioms they rely on
coqchk: coq
	cd coq && timeout 3000 coqchk -silent -o -Q theories RV $(foreach n,01 02 03 04 05 06 07 08 09 10 11 12 13 14 15 16 17 18 19 20,RV.Props.C$(n)) 2>&1 | tee COQCHK.txt | tail -15

# no Admitted/admit/Axiom/Parameter/Conjecture/kernel switches; no Variable/Hypothesis/Context outside a Section
static:
	python3 tools/static_check.py

clean:
	-cd coq && $(MAKE) -f Makefile.coq clean
	rm -rf build coq/Makefile.coq coq/Makefile.coq.conf
