# /verif/Makefile — builds the Coq development (full .vo), the extraction and
# the OCaml driver.  `make setup` is MANIFEST.setup_cmd.
SHELL := /bin/bash
COQ_TIMEOUT ?= 1800
J ?= 12

.PHONY: setup all gen coq extract driver clean prectable onlinegen offlinegen offlinegen-check offlinegen-mutants denseonlinegen denseonlinegen-check denseonlinegen-mutants pastifiergen pastifiergen-check pastifiergen-mutants explainergen explainergen-check explainergen-mutants denseofflinegen denseofflinegen-check denseofflinegen-mutants mergegen mergegen-check mergegen-mutants unitsgen unitsgen-check unitsgen-mutants parservisitorgen parservisitorgen-check parservisitorgen-mutants onlinevisitorgen onlinevisitorgen-check onlinevisitorgen-mutants shellgen shellgen-check shellgen-mutants denseonlinevisitorgen denseonlinevisitorgen-check denseonlinevisitorgen-mutants coqchk coqchk-float static

# `make all` never stops at the first failure: a source file of nickovic/rtamt that a translator refuses, or a proof that no longer
# checks against the regenerated text, must break the obligations of the properties that depend on it and of no other property.
# Every step records its outcome in build/status/<step> ("ok" or the tail of its log); `all` exits non-zero when any step failed.
# harness/common.py reads these files: a property is reported as broken only if its own Props file (with everything it imports)
# does not compile or a generator it depends on failed.
setup: all
all:
	@mkdir -p build/status
	@$(MAKE) -s gen
	@($(MAKE) coq > build/status/coq.log 2>&1 && echo ok > build/status/coq) || (tail -40 build/status/coq.log > build/status/coq; true)
	@($(MAKE) driver > build/status/driver.log 2>&1 && echo ok > build/status/driver) || (tail -40 build/status/driver.log > build/status/driver; true)
	@grep -v "^COQC\|^COQDEP\|Closed under the global context\|^make" build/status/coq.log | tail -5; true
	@for f in prectable offlinegen onlinegen denseonlinegen pastifiergen explainergen denseofflinegen mergegen unitsgen parservisitorgen onlinevisitorgen shellgen denseonlinevisitorgen coq driver; do if [ "`head -c 2 build/status/$$f`" != "ok" ]; then echo "make all: step $$f failed (build/status/$$f)"; fail=1; fi; done; test -z "$$fail"

coq/Makefile.coq: coq/_CoqProject
	cd coq && coq_makefile -f _CoqProject -o Makefile.coq

# (RTAMT_REPO points a check at another tree, e.g. a scratch worktree with a seeded change: the translators read the same tree)
REPO ?= $(or $(RTAMT_REPO),/repo)
# generated parts of the model, rewritten from the source tree on every build; a generator that fails leaves the checked-in file alone
gen:
	@mkdir -p build/status
	@($(MAKE) -s prectable > build/status/prectable.log 2>&1 && echo ok > build/status/prectable) || (tail -20 build/status/prectable.log > build/status/prectable; true)
	@($(MAKE) -s offlinegen > build/status/offlinegen.log 2>&1 && echo ok > build/status/offlinegen) || (tail -20 build/status/offlinegen.log > build/status/offlinegen; true)
	@($(MAKE) -s onlinegen > build/status/onlinegen.log 2>&1 && echo ok > build/status/onlinegen) || (tail -20 build/status/onlinegen.log > build/status/onlinegen; true)
	@($(MAKE) -s denseonlinegen > build/status/denseonlinegen.log 2>&1 && echo ok > build/status/denseonlinegen) || (tail -20 build/status/denseonlinegen.log > build/status/denseonlinegen; true)
	@($(MAKE) -s denseofflinegen > build/status/denseofflinegen.log 2>&1 && echo ok > build/status/denseofflinegen) || (tail -20 build/status/denseofflinegen.log > build/status/denseofflinegen; true)
	@($(MAKE) -s pastifiergen > build/status/pastifiergen.log 2>&1 && echo ok > build/status/pastifiergen) || (tail -20 build/status/pastifiergen.log > build/status/pastifiergen; true)
	@($(MAKE) -s explainergen > build/status/explainergen.log 2>&1 && echo ok > build/status/explainergen) || (tail -20 build/status/explainergen.log > build/status/explainergen; true)
	@($(MAKE) -s mergegen > build/status/mergegen.log 2>&1 && echo ok > build/status/mergegen) || (tail -20 build/status/mergegen.log > build/status/mergegen; true)
	@($(MAKE) -s unitsgen > build/status/unitsgen.log 2>&1 && echo ok > build/status/unitsgen) || (tail -20 build/status/unitsgen.log > build/status/unitsgen; true)
	@($(MAKE) -s parservisitorgen > build/status/parservisitorgen.log 2>&1 && echo ok > build/status/parservisitorgen) || (tail -20 build/status/parservisitorgen.log > build/status/parservisitorgen; true)
	@($(MAKE) -s onlinevisitorgen > build/status/onlinevisitorgen.log 2>&1 && echo ok > build/status/onlinevisitorgen) || (tail -20 build/status/onlinevisitorgen.log > build/status/onlinevisitorgen; true)
	@($(MAKE) -s shellgen > build/status/shellgen.log 2>&1 && echo ok > build/status/shellgen) || (tail -20 build/status/shellgen.log > build/status/shellgen; true)
	@($(MAKE) -s denseonlinevisitorgen > build/status/denseonlinevisitorgen.log 2>&1 && echo ok > build/status/denseonlinevisitorgen) || (tail -20 build/status/denseonlinevisitorgen.log > build/status/denseonlinevisitorgen; true)

# the AST-building methods of the parser visitors (rtamt/syntax/ast/parser/{ltl,stl}/parser_visitor.py: visitExprX, visitInterval, the two
# intervalTime methods, str_to_op_type) are re-translated on every build (tools/py2coq_parservisitor.py, fail-closed: an unsupported construct,
# a new / removed method, a changed pinned method, a grammar alternative the table does not know stops the translator: C14 and C15 are then
# reported as no longer shown); ElabGenCorrect.v re-proves, against the new text, that the generated visitors compute ParserDecl.visit_dump
parservisitorgen:
	@mkdir -p build
	python3 tools/py2coq_parservisitor.py $(REPO) build/ElabGen.v.new
	@cmp -s build/ElabGen.v.new coq/theories/ElabGen.v || cp build/ElabGen.v.new coq/theories/ElabGen.v

# differential check of the generated visitors against the Python classes on random specification texts (not part of `all`: ~30 s of vm_compute)
parservisitorgen-check: coq
	PYTHONDONTWRITEBYTECODE=1 PYTHONPATH=$(REPO) /venv/bin/python harness/parservisitorgen_check.py --n 4000 build/ElabGenCases.v
	cd coq && timeout 1800 coqc -Q theories RV ../build/ElabGenCases.v > ../build/ElabGenCases.out
	PYTHONDONTWRITEBYTECODE=1 PYTHONPATH=$(REPO) /venv/bin/python harness/parservisitorgen_check.py --n 4000 --judge build/ElabGenCases.out build/ElabGenCases.v

# semantic mutations + harmless rewrites of scratch copies of the two source files: translator verdict / first lemma that fails
parservisitorgen-mutants: coq
	python3 tools/parservisitorgen_mutants.py

# the glue of the discrete-time offline interpreter (AbstractDiscreteTimeOfflineInterpreter.evaluate, set_variable_to_ast_from_dataset,
# AbstractAstVisitor.visitAst) and get_value (AbstractAst, AbstractSpecification) are re-translated on every build (tools/py2coq_shell.py,
# fail-closed; exist_ast, gap, update_sampling_violation_counter, create_var_from_name, AbstractAstVisitor.visit are pinned by digest);
# ShellGenCorrect.v re-proves that the generated evaluate / get_value are Offline.evaluate / Offline.eval_off on the forest (C12_generated_get_offline)
shellgen:
	@mkdir -p build
	python3 tools/py2coq_shell.py $(REPO) build/ShellGen.v.new
	@cmp -s build/ShellGen.v.new coq/theories/ShellGen.v || cp build/ShellGen.v.new coq/theories/ShellGen.v

# differential check of the generated definitions against rtamt's public API on random modular specifications (not part of `all`: ~1 min)
shellgen-check: coq
	PYTHONDONTWRITEBYTECODE=1 PYTHONPATH=$(REPO) /venv/bin/python harness/shellgen_check.py --n 1500 build/ShellGenCases.v
	cd coq && timeout 1800 coqc -Q theories RV ../build/ShellGenCases.v

# semantic mutations + harmless rewrites of scratch copies of the sources: translator verdict / first lemma that fails
shellgen-mutants: coq
	python3 tools/shellgen_mutants.py

# the precedence table of the parser model is regenerated from rtamt's generated ANTLR parser on every build
prectable:
	@mkdir -p build
	python3 tools/gen_prectable.py $(REPO)/rtamt/antlr/parser/stl/StlParser.py build/PrecTable.v.new
	@cmp -s build/PrecTable.v.new coq/theories/PrecTable.v || cp build/PrecTable.v.new coq/theories/PrecTable.v

# the offline visitor is re-translated from the Python source on every build (fail-closed: an unsupported construct, a changed signature
# or method set stops the translator: C01 is then reported as no longer shown); OfflineGenCorrect.v re-proves, against the new text, that every
# generated method equals the hand model of Offline.v
offlinegen:
	@mkdir -p build
	python3 tools/py2coq_offline.py $(REPO) build/OfflineGen.v.new
	@cmp -s build/OfflineGen.v.new coq/theories/OfflineGen.v || cp build/OfflineGen.v.new coq/theories/OfflineGen.v

# the operation classes of the discrete-time online monitor (rtamt/semantics/{stl,iastl}/discrete_time/online/*_operation.py) are
# re-translated on every build (tools/py2coq_online.py, fail-closed); OnlineGenCorrect.v re-checks that what the code says now
# refines the hand model Online.v (C02_generated_operations)
onlinegen:
	@mkdir -p build
	python3 tools/py2coq_online.py $(REPO) build/OnlineGen.v.new
	@cmp -s build/OnlineGen.v.new coq/theories/OnlineGen.v || cp build/OnlineGen.v.new coq/theories/OnlineGen.v

# method-level differential check of the generated definitions against the Python methods (not part of `all`: ~2 min of vm_compute input)
offlinegen-check: coq
	PYTHONDONTWRITEBYTECODE=1 PYTHONPATH=$(REPO) /venv/bin/python harness/offlinegen_check.py build/OfflineGenCases.v
	cd coq && timeout 1800 coqc -Q theories RV ../build/OfflineGenCases.v

# 6 semantic mutations + 3 harmless rewrites of a scratch copy of the visitor: translator verdict / first lemma that fails
offlinegen-mutants: coq
	python3 tools/offlinegen_mutants.py

# the dense-time online operation classes are re-translated from the Python sources on every build (fail-closed: an unsupported construct,
# a new / removed class file or method, a changed pinned (hand-modelled) class or function stops the translator: C05 is then reported as
# no longer shown); DenseOnlineGenCorrect.v re-proves, against the new text, that every generated update equals the hand model of its class
denseonlinegen:
	@mkdir -p build
	python3 tools/py2coq_denseonline.py $(REPO) build/DenseOnlineGen.v.new
	@cmp -s build/DenseOnlineGen.v.new coq/theories/DenseOnlineGen.v || cp build/DenseOnlineGen.v.new coq/theories/DenseOnlineGen.v

# class-level differential check of the generated definitions against the Python classes (not part of `all`: ~2 min of vm_compute input)
denseonlinegen-check: coq
	PYTHONDONTWRITEBYTECODE=1 PYTHONPATH=$(REPO) /venv/bin/python harness/denseonlinegen_check.py build/DenseOnlineGenCases.v
	cd coq && timeout 1800 coqc -Q theories RV ../build/DenseOnlineGenCases.v

# 24 semantic mutations + 8 harmless rewrites + 8 fail-closed probes on scratch copies of the class files: translator verdict / first lemma that fails
denseonlinegen-mutants: coq
	python3 tools/denseonlinegen_mutants.py

# the dense-time offline visitor is re-translated from the Python source on every build (fail-closed, as above: C04 is then reported as no
# longer shown); DenseOfflineGenCorrect.v re-proves, against the new text, that every generated function equals its hand model
# (the four window loops: DenseOfflineGenWinCorrect.v; intersection(), visitVariable / visitConstant stay hand-modelled and are pinned by digest);
# the visitPredicate overrides of the IA-STL dense offline visitors are translated by tools/py2coq_denseoffline_ia.py (DenseOfflineIAGen.v,
# DenseOfflineIAGenCorrect.v: equal to DenseIA.ia_pred with the kind of the variant, C06)
denseofflinegen:
	@mkdir -p build
	python3 tools/py2coq_denseoffline.py $(REPO) build/DenseOfflineGen.v.new
	python3 tools/py2coq_denseoffline_ia.py $(REPO) build/DenseOfflineIAGen.v.new
	@cmp -s build/DenseOfflineGen.v.new coq/theories/DenseOfflineGen.v || cp build/DenseOfflineGen.v.new coq/theories/DenseOfflineGen.v
	@cmp -s build/DenseOfflineIAGen.v.new coq/theories/DenseOfflineIAGen.v || cp build/DenseOfflineIAGen.v.new coq/theories/DenseOfflineIAGen.v

# differential check of the translation (the four window loops included; --all is the default now) against the Python functions (not part of `all`)
denseofflinegen-check: coq
	@mkdir -p build/denseofflinegen_check
	python3 tools/py2coq_denseoffline.py $(REPO) build/denseofflinegen_check/DenseOfflineGenAll.v --all
	cd build/denseofflinegen_check && timeout 600 coqc -Q ../../coq/theories RV -Q . Chk DenseOfflineGenAll.v
	PYTHONDONTWRITEBYTECODE=1 PYTHONPATH=$(REPO) /venv/bin/python harness/denseofflinegen_check.py --gen build/denseofflinegen_check/DenseOfflineGenAll.v --module Chk.DenseOfflineGenAll build/denseofflinegen_check/Cases.v
	cd build/denseofflinegen_check && timeout 3600 coqc -Q ../../coq/theories RV -Q . Chk Cases.v
	PYTHONDONTWRITEBYTECODE=1 PYTHONPATH=$(REPO) /venv/bin/python harness/denseofflinegen_check.py --n 1000 --seed 20260927 --only '_timed_operation$$' --gen build/denseofflinegen_check/DenseOfflineGenAll.v --module Chk.DenseOfflineGenAll build/denseofflinegen_check/CasesWin.v
	cd build/denseofflinegen_check && timeout 3600 coqc -Q ../../coq/theories RV -Q . Chk CasesWin.v
	PYTHONDONTWRITEBYTECODE=1 PYTHONPATH=$(REPO) /venv/bin/python harness/denseofflinegen_ia_check.py build/denseofflinegen_check/CasesIA.v
	cd build/denseofflinegen_check && timeout 3600 coqc -Q ../../coq/theories RV -Q . Chk CasesIA.v

# semantic mutations + harmless rewrites of scratch copies of the visitor: translator verdict / first lemma that fails
denseofflinegen-mutants: coq
	python3 tools/denseofflinegen_mutants.py
	python3 tools/denseofflinegen_ia_mutants.py

# the three visitors of the discrete-time online interpreter (construction of online_operator_dict, update with the `visited` memo, reset:
# rtamt/semantics/abstract_online_interpreter.py, abstract_discrete_time_online_interpreter.py, stl/discrete_time/online/ast_visitor.py) are
# re-translated on every build, after onlinegen (the signatures of the operation classes are read from OnlineGen.v); fail-closed as above:
# C02 / C09 / C10 / C12 are then reported as no longer shown.  OnlineVisitorGenCorrect.v re-proves against the new text that every node class
# gets the operation class, update and reset that the hand model OnlineNamed.v assumes, and the same rejections (C02_generated_monitor)
onlinevisitorgen:
	@mkdir -p build
	python3 tools/py2coq_onlinevisitor.py $(REPO) build/OnlineVisitorGen.v.new coq/theories/OnlineGen.v
	@cmp -s build/OnlineVisitorGen.v.new coq/theories/OnlineVisitorGen.v || cp build/OnlineVisitorGen.v.new coq/theories/OnlineVisitorGen.v

# the construction visitor and the update visitor of the DENSE-time online interpreter (rtamt/semantics/stl/dense_time/online/ast_visitor.py,
# abstract_online_interpreter.py, abstract_dense_time_online_interpreter.py) are re-translated on every build, after denseonlinegen (the
# signatures of the operation classes are read from DenseOnlineGen.v); fail-closed as above: C05 is then reported as no longer shown.
# DenseOnlineVisitorGenCorrect.v re-proves against the new text that every node class gets the operation class and the update that the hand
# model DenseOnlineMon.v assumes (on its tz instance), and the rejections of Support.supported DenseOn (C05_generated_monitor)
denseonlinevisitorgen:
	@mkdir -p build
	python3 tools/py2coq_denseonlinevisitor.py $(REPO) build/DenseOnlineVisitorGen.v.new coq/theories/DenseOnlineGen.v
	@cmp -s build/DenseOnlineVisitorGen.v.new coq/theories/DenseOnlineVisitorGen.v || cp build/DenseOnlineVisitorGen.v.new coq/theories/DenseOnlineVisitorGen.v

# differential check of the generated dense-time visitors against the Python interpreter on random specifications and batches (not part of `all`: ~3 min)
denseonlinevisitorgen-check: coq
	PYTHONDONTWRITEBYTECODE=1 PYTHONPATH=$(REPO) /venv/bin/python harness/denseonlinevisitorgen_check.py --n 3000 build/DenseOnlineVisitorGenCases.v
	cd coq && timeout 3000 coqc -Q theories RV ../build/DenseOnlineVisitorGenCases.v

# semantic mutations + harmless rewrites + fail-closed probes on scratch copies of the three source files: translator verdict / first lemma that fails
denseonlinevisitorgen-mutants: coq
	python3 tools/denseonlinevisitorgen_mutants.py

# differential check of the generated visitors against the Python interpreter on random specifications and data (not part of `all`: ~3 min)
onlinevisitorgen-check: coq
	PYTHONDONTWRITEBYTECODE=1 PYTHONPATH=$(REPO) /venv/bin/python harness/onlinevisitorgen_check.py --n 3000 build/OnlineVisitorGenCases.v
	cd coq && timeout 3000 coqc -Q theories RV ../build/OnlineVisitorGenCases.v

# semantic mutations + harmless rewrites of scratch copies of the source files: translator verdict / first lemma that fails
onlinevisitorgen-mutants: coq
	python3 tools/onlinevisitorgen_mutants.py

# the pastifiers and the horizon visitors (rtamt/pastifier/{ltl,stl}/*.py) are re-translated on every build (fail-closed, as above: C03 is then
# reported as no longer shown); PastifyGenCorrect.v re-proves, against the new text, that the generated functions compute the hand model
# Pastify.v through the erasure of NodeName.v
pastifiergen:
	@mkdir -p build
	python3 tools/py2coq_pastifier.py $(REPO) build/PastifyGen.v.new
	@cmp -s build/PastifyGen.v.new coq/theories/PastifyGen.v || cp build/PastifyGen.v.new coq/theories/PastifyGen.v

# differential check of the generated functions against the Python classes on random specifications (not part of `all`: ~4 min of vm_compute)
pastifiergen-check: coq
	PYTHONDONTWRITEBYTECODE=1 PYTHONPATH=$(REPO) /venv/bin/python harness/pastifiergen_check.py build/PastifyGenCases.v
	cd coq && timeout 1800 coqc -Q theories RV ../build/PastifyGenCases.v

# semantic mutations + harmless rewrites of scratch copies of the four source files: translator verdict / first lemma that fails
pastifiergen-mutants: coq
	python3 tools/pastifiergen_mutants.py

# the explainers (rtamt/explanation/{ltl,stl}/discrete_time/explainer.py, the forwarding helpers of explanations.py) are re-translated on every
# build (fail-closed, as above: C20 is then reported as no longer shown); ExplainGenCorrect.v re-proves, against the new text, that the generated
# visitor computes the hand model Explain.expl / Explain.explain through the erasure of NodeName.v and the dict / table abstraction
explainergen:
	@mkdir -p build
	python3 tools/py2coq_explainer.py $(REPO) build/ExplainGen.v.new
	@cmp -s build/ExplainGen.v.new coq/theories/ExplainGen.v || cp build/ExplainGen.v.new coq/theories/ExplainGen.v

# differential check of the generated explainer against STLExplainer / LTLExplainer on random specifications and data (not part of `all`: ~11 min of coqc for 4000 cases)
explainergen-check: coq
	PYTHONDONTWRITEBYTECODE=1 PYTHONPATH=$(REPO) /venv/bin/python harness/explainergen_check.py --n 4000 build/ExplainGenCases.v
	cd coq && timeout 1800 coqc -Q theories RV ../build/ExplainGenCases.v

# semantic mutations + harmless rewrites of scratch copies of the four source files: translator verdict / first lemma that fails
explainergen-mutants: coq
	python3 tools/explainergen_mutants.py
# intersection() and _append() of the two dense-time intersection.py files (and the point-wise methods / split of the offline one) are
# re-translated on every build (tools/py2coq_merge.py, fail-closed: an unsupported construct, a changed signature, a new / removed function
# or a changed pinned function stops the translator: C04 and C05 are then reported as no longer shown); MergeGenCorrect.v re-proves, against
# the new text, that the generated functions are the hand models isect / isect_g / oisect_g and that the fuel of their loops suffices
mergegen:
	@mkdir -p build
	python3 tools/py2coq_merge.py $(REPO) build/MergeGen.v.new
	@cmp -s build/MergeGen.v.new coq/theories/MergeGen.v || cp build/MergeGen.v.new coq/theories/MergeGen.v

# function-level differential check of the generated definitions against the Python functions (not part of `all`: ~4 min of vm_compute)
mergegen-check: coq
	PYTHONDONTWRITEBYTECODE=1 PYTHONPATH=$(REPO) /venv/bin/python harness/mergegen_check.py build/MergeGenCases.v
	cd coq && timeout 1800 coqc -Q theories RV ../build/MergeGenCases.v

# semantic mutations + harmless rewrites of scratch copies of the two source files: translator verdict / first lemma that fails
mergegen-mutants: coq
	python3 tools/mergegen_mutants.py
# the unit conversion of both interpreters (time_unit_transformer, check_pastified_bounds), the unit dictionaries and the sampling-violation
# counter (gap, update_sampling_violation_counter, set_sampling_period, __init__, the counter statements of update() / reset() / evaluate())
# are re-translated on every build (tools/py2coq_units.py, fail-closed: C08 and C13 are then reported as no longer shown);
# UnitsGenCorrect.v re-proves, against the new text, that they compute to_samples_z / to_dense (UnitsLift.v) and jstep / jrun / joff (Jitter.v)
unitsgen:
	@mkdir -p build
	python3 tools/py2coq_units.py $(REPO) build/UnitsGen.v.new
	@cmp -s build/UnitsGen.v.new coq/theories/UnitsGen.v || cp build/UnitsGen.v.new coq/theories/UnitsGen.v

# differential check of the generated definitions against the Python methods and, for the counter statements, against the public API
# (not part of `all`: 5000 cases, ~3 min of vm_compute; harness/unitsgen_check.py --n 6000 gives the 15000 cases of the report)
unitsgen-check: coq
	PYTHONDONTWRITEBYTECODE=1 PYTHONPATH=$(REPO) /venv/bin/python harness/unitsgen_check.py --n 2000 build/UnitsGenCases.v
	cd coq && timeout 1800 coqc -w -abstract-large-number -Q theories RV ../build/UnitsGenCases.v

# semantic mutations + harmless rewrites of scratch copies of the source files: translator verdict / first lemma that fails
unitsgen-mutants: coq
	python3 tools/unitsgen_mutants.py

coq: coq/Makefile.coq
	cd coq && timeout $(COQ_TIMEOUT) $(MAKE) -k -f Makefile.coq -j$(J)

# extraction and driver are rebuilt only when a compiled theory, Extract.v or driver.ml is newer (a check that runs while another one
# starts must not find the driver half written: it is linked under a temporary name and moved into place)
extract: build/extract/model.ml
build/extract/model.ml: coq/extract/Extract.v $(wildcard coq/theories/*.vo)
	mkdir -p build/extract
	cp coq/extract/Extract.v build/extract/Extract.v
	cd build/extract && timeout 600 coqc -Q ../../coq/theories RV Extract.v

driver: build/model_driver
build/model_driver: build/extract/model.ml coq/extract/driver.ml
	cp coq/extract/driver.ml build/extract/driver.ml
	cd build/extract && (timeout 600 ocamlfind ocamlopt -w -a -O2 -package str model.mli model.ml driver.ml -o ../model_driver.new 2>/dev/null || \
	 timeout 600 ocamlfind ocamlopt -w -a -package str model.mli model.ml driver.ml -o ../model_driver.new)
	mv -f build/model_driver.new build/model_driver

# independent re-check of every property file and everything it depends on, with the axioms they rely on
coqchk: coq
	cd coq && timeout 3000 coqchk -silent -o -Q theories RV $(foreach n,01 02 03 04 05 06 07 08 09 10 11 12 13 14 15 16 17 18 19 20,RV.Props.C$(n)) 2>&1 | tee COQCHK.txt | tail -15

# the same for the float instance (Flocq: the four axioms of the standard library's real numbers, nothing else)
coqchk-float: coq
	cd coq && timeout 3000 coqchk -silent -o -Q theories RV RV.Props.FloatInstance 2>&1 | tee COQCHK_FLOAT.txt | tail -15

# no Admitted/admit/Axiom/Parameter/Conjecture/kernel switches; no Variable/Hypothesis/Context outside a Section
static:
	python3 tools/static_check.py

clean:
	-cd coq && $(MAKE) -f Makefile.coq clean
	rm -rf build coq/Makefile.coq coq/Makefile.coq.conf
