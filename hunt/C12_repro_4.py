"""C12 reproducer 4 (small oddities next to C12, one script):
 (i)  get_value(v) of a declared input variable that the formula does not use raises KeyError
      although update()/evaluate() accept data for it;
 (ii) spec.final_update() of the dense-time online specification calls a method that does not
      exist (the interpreter only has update_final);
 (iii) the discrete-time online ln() operator prints every sample to stdout.
Run:  cd /tmp/hunt/C12 && PYTHONPATH=/tmp/hunt/C12 /venv/bin/python /tmp/hunt/C12_repro_4.py
"""
import sys, io, logging, contextlib
logging.disable(logging.CRITICAL)
import rtamt
bad = False

s = rtamt.StlDiscreteTimeOnlineSpecification()
s.declare_var('a', 'float'); s.declare_var('b', 'float')
s.spec = 'out = a > 3'
s.parse()
s.update(0, [('a', 1.0), ('b', 2.0)])
try:
    print('(i) get_value(b): required 2.0, library', s.get_value('b'))
except KeyError as e:
    print('(i) get_value(b): required 2.0 (the supplied value), library raised KeyError', e); bad = True

s = rtamt.StlDenseTimeOnlineSpecification()
s.declare_var('a', 'float'); s.spec = 'out = once[0:1] a'; s.parse()
s.update(['a', [[0, 1], [1, 2]]])
try:
    print('(ii) final_update ->', s.final_update(['a', [[2, 1]]]))
except AttributeError as e:
    print('(ii) final_update raised AttributeError:', e); bad = True

s = rtamt.StlDiscreteTimeOnlineSpecification()
s.declare_var('a', 'float'); s.spec = 'out = ln(a)'; s.parse()
buf = io.StringIO()
with contextlib.redirect_stdout(buf):
    s.update(0, [('a', 2.0)])
if buf.getvalue():
    print('(iii) update() of ln(a) wrote to stdout:', repr(buf.getvalue())); bad = True
sys.exit(1 if bad else 0)
