# (b)-class oddity, not a C16 violation: a pastified bounded until/unless cannot be evaluated offline.
import sys, logging
logging.disable(logging.WARNING)
import rtamt

s = rtamt.StlDiscreteTimeSpecification()
s.declare_var('x', 'float'); s.declare_var('y', 'float')
s.spec = 'out = (x >= 0) until[1,2] (y >= 0);'
s.parse()
s.pastify()
d = {'time': [0, 1, 2, 3], 'x': [1, 1, 1, 1], 'y': [-1, -1, 1, -1]}
print('required: a pure-past trace of robustness values, one per sample (the result of the until delayed by 2 samples)')
try:
    print('observed:', s.evaluate(d))
    sys.exit(0)
except Exception as e:
    print('observed:', repr(e))
    sys.exit(1)
