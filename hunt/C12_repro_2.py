"""C12 reproducer 2 (oddity next to C12): an input signal called 'out' together with an
unnamed assertion.  The unnamed assertion is silently named 'out'; visitAssertion() then
(1) re-points get_value('out') from the variable to the formula and (2) removes 'out'
from free_vars, so the online monitors ignore every value supplied for the signal 'out'
(the dense-time monitors crash).  The discrete-time offline monitor still reads the data.
Run:  cd /tmp/hunt/C12 && PYTHONPATH=/tmp/hunt/C12 /venv/bin/python /tmp/hunt/C12_repro_2.py
"""
import sys, logging
logging.disable(logging.CRITICAL)
import rtamt

def build(cls, sig):
    s = cls()
    s.declare_var('inp', 'float')
    s.declare_var(sig, 'float')
    s.spec = 'inp > 3 implies %s > 3' % sig
    s.parse()
    return s

inp = [5, 5, 1]
outv = [4, 1, 1]
bad = False

# reference: the same formula with the signal called 'res' instead of 'out'
ref = build(rtamt.StlDiscreteTimeOnlineSpecification, 'res')
s = build(rtamt.StlDiscreteTimeOnlineSpecification, 'out')
for i in range(3):
    want = ref.update(i, [('inp', inp[i]), ('res', outv[i])])
    got = s.update(i, [('inp', inp[i]), ('out', outv[i])])
    print('discrete online t=%d  required robustness %s, library %s ; get_value(out): supplied %s, library %s'
          % (i, want, got, outv[i], s.get_value('out')))
    if want != got:
        bad = True

off = build(rtamt.StlDiscreteTimeOfflineSpecification, 'out')
print('discrete offline (reads the data):', off.evaluate({'time': [0, 1, 2], 'inp': inp, 'out': outv}))

for cls, call in ((rtamt.StlDenseTimeOfflineSpecification, 'evaluate'), (rtamt.StlDenseTimeOnlineSpecification, 'update')):
    s = build(cls, 'out')
    try:
        r = getattr(s, call)(['inp', [[0, 5], [1, 5], [2, 1]]], ['out', [[0, 4], [1, 1], [2, 1]]])
        print(cls.__name__, r)
    except Exception as e:
        print(cls.__name__, 'raised', type(e).__name__, e)
        bad = True
sys.exit(1 if bad else 0)
