"""C18 repro 3: the nesting law historically[a,b] historically[c,d] F == historically[a+c,b+d] F
(same for once / eventually / always) and the since / until expansion laws fail, with FINITE
but different results, when F contains iff / xor of two operands that are both -inf or
both +inf at the edge of the trace (prev, s_prev, next, once[a,b], ... at the first / last
samples).  -|inf - inf| is NaN, and Python's min / max keep or drop a NaN depending on its
position in the window, so differently nested windows give different numbers.
Standard STL semantics, discrete time, offline and online monitors.
"""
import sys
import rtamt

data = {'time': [0, 1, 2, 3], 'p': [1.0, 2.0, 3.0, 4.0], 'q': [1.0, 1.0, 1.0, 1.0]}
F = '((prev (p >= 0)) iff (prev (q >= 0)))'          # "p and q agreed one step ago"
bad = False


def offline(txt):
    s = rtamt.StlDiscreteTimeSpecification()
    s.declare_var('p', 'float'); s.declare_var('q', 'float'); s.declare_var('out', 'float')
    s.spec = txt
    s.parse()
    return s.evaluate(data)


def online(txt):
    s = rtamt.StlDiscreteTimeSpecification()
    s.declare_var('p', 'float'); s.declare_var('q', 'float'); s.declare_var('out', 'float')
    s.spec = txt
    s.parse()
    return [s.update(t, [('p', data['p'][i]), ('q', data['q'][i])]) for i, t in enumerate(data['time'])]


def same(a, b):
    return repr(a) == repr(b)


print('F =', F, '->', offline('out = ' + F + ';'), ' (F(0) = -|inf - inf| = nan)')
pairs = [
    ('out = historically[0,1] historically[1,2] %s;' % F, 'out = historically[1,3] %s;' % F),
    ('out = %s since (q >= 2);' % F, 'out = (q >= 2) or (%s and (s_prev (%s since (q >= 2))));' % (F, F)),
]
for lhs, rhs in pairs:
    for name, f in (('offline', offline), ('online', online)):
        a, b = f(lhs), f(rhs)
        print(name)
        print('  ', lhs, '->', a)
        print('  ', rhs, '->', b)
        print('   required: identical; observed:', 'identical' if same(a, b) else 'DIFFERENT')
        if not same(a, b):
            bad = True
print('(F since G)(0) = max(G(0), min(F(0), -inf)) = G(0) = -1 for any value of F(0), so the nan at t=0 is wrong.')
print('For any value v of F(0), historically[1,3] F at t=2 is min(v, F(1)) = min(v, 0) <= 0, so the +inf of the nested form is wrong whatever v is.')
sys.exit(1 if bad else 0)
