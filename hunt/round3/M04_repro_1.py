# C05 / C02: a signal named `inf` and an infinite literal share the key 'inf' in the online
# update visitor (visited[node.name]) and in online_operator_dict: the dense-time online monitor
# takes the samples of the signal for the constant.
import sys, logging
logging.disable(logging.CRITICAL)
import rtamt

def online(name):
    s = rtamt.StlDenseTimeOnlineSpecification()
    s.declare_var(name, 'float'); s.declare_var('y', 'float')
    s.spec = 'out = (%s >= 3) and (y <= 1e999 - 100)' % name
    s.parse()
    out = s.update([name, [[0, 5.0], [1, 2.0]]], ['y', [[0, 1.0], [1, 1.0]]])
    out += s.update([name, [[2, 4.0], [3, 4.0]]], ['y', [[2, 1.0], [3, 1.0]]])
    return out

def offline(name):
    s = rtamt.StlDenseTimeOfflineSpecification()
    s.declare_var(name, 'float'); s.declare_var('y', 'float')
    s.spec = 'out = (%s >= 3) and (y <= 1e999 - 100)' % name
    s.parse()
    return s.evaluate([name, [[0, 5.0], [1, 2.0], [2, 4.0], [3, 4.0]]], ['y', [[0, 1.0], [1, 1.0], [2, 1.0], [3, 1.0]]])

def at(sig, t):
    v = None
    for a, b in sig:
        if a <= t: v = b
    return v

# oracle: rho = min(w(t) - 3, inf - 100 - 1) = w(t) - 3
required = [[0, 2.0], [1, -1.0], [2, 1.0]]
obs = online('inf')
print('required (definition)      :', required)
print('offline, signal named inf  :', offline('inf'))
print('online,  signal named v    :', online('v'))
print('online,  signal named inf  :', obs)
bad = any(at(obs, t) != at(required, t) for t in (0, 1, 2))
sys.exit(1 if bad else 0)
