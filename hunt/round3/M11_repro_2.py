# C12: after evaluate()/update(), get_value(v) of an input variable returns the data supplied for it.
# A variable that is declared and supplied but not read by the formula (C17 allows that) has no entry in
# phi_name_to_node_dict, so get_value() raises KeyError instead of returning the data.
import sys, logging, rtamt
logging.disable(logging.CRITICAL)
data = {'time': [0, 1, 2], 'x': [1, -2, 3], 'y': [4, 5, 6]}
bad = False
s = rtamt.StlDiscreteTimeOfflineSpecification()
s.declare_var('x', 'float'); s.declare_var('y', 'float'); s.spec = 'out = once(x > 0)'; s.parse()
s.evaluate(data)
print("offline get_value('x') required", data['x'], 'observed', s.get_value('x'))
try:
    got = s.get_value('y')
except Exception as e:
    got = '%s: %s' % (type(e).__name__, e)
print("offline get_value('y') required", data['y'], 'observed', got)
bad |= got != data['y']
o = rtamt.StlDiscreteTimeOnlineSpecification()
o.declare_var('x', 'float'); o.declare_var('y', 'float'); o.spec = 'out = once(x > 0)'; o.parse()
o.update(0, [('x', 1), ('y', 4)])
try:
    got = o.get_value('y')
except Exception as e:
    got = '%s: %s' % (type(e).__name__, e)
print("online  get_value('y') required", 4, 'observed', got)
bad |= got != 4
print('DEFECT' if bad else 'ok')
sys.exit(1 if bad else 0)
