#!/venv/bin/python
# C03 (same input class as the recorded "past operator above a future operator", but NOT limited to
# the first samples): with an UNBOUNDED past operator above a future operator the pastified monitor
# is wrong at every i >= h, for ever.
#   out = historically(eventually[0,1](x)),  x = 0,5,5,5,...   horizon h = 1
# pastify() gives historically(once[0,1](x)); at update 0 the inner once[0,1](x) emits x0 = 0 for the
# non-existing sample -1 (StlPastifier.visitHistorically visits its child with the child's own horizon and
# feeds the warm-up output of the delayed child to the stateful operator), and historically keeps it.
import sys, logging
sys.path.insert(0, '/tmp/hunt3/M05')
logging.disable(logging.CRITICAL)
import rtamt

xs = [0.0] + [5.0] * 9
n = len(xs)
h = 1

def rho(t, m):   # definition, on the prefix of length m
    ev = lambda s: max(xs[s:min(s + 1, m - 1) + 1])
    return min(ev(s) for s in range(0, t + 1))

s = rtamt.StlDiscreteTimeSpecification()
s.declare_var('x', 'float')
s.spec = 'out = historically(eventually[0,1](x))'
s.parse(); s.pastify()
got = [s.update(i, [('x', xs[i])]) for i in range(n)]
req = [rho(i - h, i + 1) for i in range(h, n)]
print('required (updates 1..9):', req)
print('observed (updates 1..9):', got[h:])
bad = got[h:] != req
print('DEFECT' if bad else 'ok')
sys.exit(1 if bad else 0)
