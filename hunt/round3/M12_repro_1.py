# explain() on the combined discrete-time specification (rtamt.StlDiscreteTimeSpecification) crashes:
# AbstractOfflineOnlineSpecification.__init__ never passes an explainer (abstract_specification.py:370,
# spec/stl/discrete_time/specification.py:25), so self.explainer is None in explain() (line 281).
import sys, logging
import rtamt
logging.disable(logging.WARNING)

data = {'time': [0, 1, 2], 'x': [2, 0, 2]}

def run(ctor):
    s = ctor()
    s.declare_var('x', 'float')
    s.spec = 'out = always(x>1)'
    s.parse()
    rob = s.evaluate(data)
    s.explain()
    return rob, s.explainer.explanations['x']

ref = run(rtamt.StlDiscreteTimeOfflineSpecification)
print('required (as StlDiscreteTimeOfflineSpecification): rob(0) = %r, cause for x = %r' % (ref[0][0][1], ref[1]))
try:
    got = run(rtamt.StlDiscreteTimeSpecification)
    print('observed (StlDiscreteTimeSpecification): rob(0) = %r, cause for x = %r' % (got[0][0][1], got[1]))
    bad = got[1] != ref[1]
except rtamt.RTAMTException as e:
    print('observed: RTAMTException', e); bad = False
except Exception as e:
    print('observed (StlDiscreteTimeSpecification): %s: %s' % (type(e).__name__, e)); bad = True
sys.exit(1 if bad else 0)
