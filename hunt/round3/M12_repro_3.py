# get_value(v) of an input variable that is declared and supplied but does not occur in the formula raises KeyError
# (C12: get_value(v) of an input variable returns the data supplied for it; C17 allows such variables).
# AbstractSpecification.get_value (abstract_specification.py:66) forwards to AbstractAst.get_value, which only knows
# names that the parser met inside the formula (phi_name_to_node_dict) and values of visited nodes (results).
import sys, logging
import rtamt
logging.disable(logging.WARNING)
bad = False
def check(label, f, required):
    global bad
    try:
        got = f()
        ok = got == required
        print('%s: required %r, observed %r' % (label, required, got))
    except Exception as e:
        ok = False
        print('%s: required %r, observed %s: %s' % (label, required, type(e).__name__, e))
    bad = bad or not ok

def disc_off():
    s = rtamt.StlDiscreteTimeSpecification(); s.declare_var('x', 'float'); s.declare_var('y', 'float')
    s.spec = 'out = once[0,1](x>1)'; s.parse()
    s.evaluate({'time': [0, 1, 2], 'x': [2, 0, 2], 'y': [7, 8, 9]})
    assert s.get_value('x') == [2, 0, 2]
    return s.get_value('y')
def disc_on():
    s = rtamt.StlDiscreteTimeSpecification(); s.declare_var('x', 'float'); s.declare_var('y', 'float')
    s.spec = 'out = once[0,1](x>1)'; s.parse()
    s.update(0, [('x', 2), ('y', 7)])
    assert s.get_value('x') == 2
    return s.get_value('y')
def dense_off():
    s = rtamt.StlDenseTimeSpecification(); s.declare_var('x', 'float'); s.declare_var('y', 'float')
    s.spec = 'out = once[0,1](x>1)'; s.parse()
    s.evaluate(['x', [[0, 2], [1, 0], [2, 2]]], ['y', [[0, 7], [2, 9]]])
    assert s.get_value('x') == [[0, 2], [1, 0], [2, 2]]
    return s.get_value('y')
def dense_on():
    s = rtamt.StlDenseTimeSpecification(); s.declare_var('x', 'float'); s.declare_var('y', 'float')
    s.spec = 'out = once[0,1](x>1)'; s.parse()
    s.update(['x', [[0, 2], [1, 0], [2, 2]]], ['y', [[0, 7], [2, 9]]])
    assert s.get_value('x') == [[0, 2], [1, 0], [2, 2]]
    return s.get_value('y')
check('discrete offline get_value(y)', disc_off, [7, 8, 9])
check('discrete online  get_value(y)', disc_on, 7)
check('dense offline    get_value(y)', dense_off, [[0, 7], [2, 9]])
check('dense online     get_value(y)', dense_on, [[0, 7], [2, 9]])
sys.exit(1 if bad else 0)
