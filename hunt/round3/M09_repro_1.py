# A Constant node is named str(value); an infinite constant is therefore named 'inf', exactly like a
# signal called `inf`.  Online operators and the per-update memo are keyed by node NAME, so the predicate
# over the constant silently takes the value of the predicate over the signal.
import sys, logging
logging.disable(logging.CRITICAL)
sys.path.insert(0, '/tmp/hunt3/M09')
import rtamt

INF = float('inf')
xs = [1.0, 5.0, 2.0]
# oracle (definition): rho = max(inf(t) - 3, top - 3) with top = +inf  ->  +inf at every sample
required = [max(v - 3, INF - 3) for v in xs]

def build(cls):
    s = cls()
    s.declare_var('inf', 'float')            # a signal that happens to be called `inf`
    s.declare_const('top', 'float', 'inf')   # an infinite constant (the literal 1e999 behaves the same)
    s.spec = 'out = (inf >= 3) or (top >= 3)'
    s.parse()
    return s

off = build(rtamt.StlDiscreteTimeOfflineSpecification)
offline = [v for _, v in off.evaluate({'time': [0, 1, 2], 'inf': list(xs)})]
on = build(rtamt.StlDiscreteTimeOnlineSpecification)
online = [on.update(i, [('inf', v)]) for i, v in enumerate(xs)]
don = build(rtamt.StlDenseTimeOnlineSpecification)
dense_online = don.update(['inf', [[i, v] for i, v in enumerate(xs)]])

print('required (definition)      :', required)
print('discrete offline           :', offline)
print('discrete online            :', online)
print('dense online (step samples):', dense_online)
bad = online != required or any(v != INF for _, v in dense_online)
print('DEFECT' if bad else 'ok')
sys.exit(1 if bad else 0)
