# C02 (online == offline, also when the same sub-formula TEXT occurs twice) / C17:
# a literal that overflows to infinity (1e999, accepted "like 1e400") is a Constant node named 'inf';
# a signal called `inf` is a Variable node named 'inf' as well.  The online update visitor memoises by node NAME,
# so the second of  (x >= 1e999) / (x >= inf)  takes the value of the first.
import sys, logging, rtamt
logging.disable(logging.CRITICAL)
F = 'out = (x >= 1e999) or (x >= inf)'
xs, infs = [1.0, 2.0, 3.0], [0.0, 5.0, 1.0]

def mk(cls):
    s = cls(); s.declare_var('x', 'float'); s.declare_var('inf', 'float'); s.spec = F; s.parse(); return s

required = [max(x - float('inf'), x - v) for x, v in zip(xs, infs)]          # definition: [1, -3, 2]
off = [v for _, v in mk(rtamt.StlDiscreteTimeOfflineSpecification).evaluate({'time': [0, 1, 2], 'x': xs, 'inf': infs})]
o = mk(rtamt.StlDiscreteTimeOnlineSpecification)
onl = [o.update(i, [('x', xs[i]), ('inf', infs[i])]) for i in range(3)]
try:
    dense = mk(rtamt.StlDenseTimeOnlineSpecification).update(['x', [[i, v] for i, v in enumerate(xs)]],
                                                             ['inf', [[i, v] for i, v in enumerate(infs)]])
except rtamt.RTAMTException as e:
    dense = 'RTAMTException ' + str(e)
except Exception as e:
    dense = 'CRASH %s: %s' % (type(e).__name__, e)
print('formula            :', F)
print('required (oracle)  :', required)
print('discrete offline   :', off)
print('discrete online    :', onl)
print('dense online       :', dense)
bad = (onl != required) or (isinstance(dense, str) and dense.startswith('CRASH'))
print('DEFECT' if bad else 'ok')
sys.exit(1 if bad else 0)
