# get_value() of a declared and supplied input variable that the formula does not mention raises KeyError
# (AbstractAst.get_value looks only in phi_name_to_node_dict, filled by the parser for identifiers met in the formula).
import sys, logging
sys.path.insert(0, '/tmp/hunt3/M02')
logging.disable(logging.CRITICAL)
import rtamt
bad = False
s = rtamt.StlDiscreteTimeOnlineSpecification()
s.declare_var('x', 'float'); s.declare_var('y', 'float')
s.spec = 'out = once(x >= 1)'
s.parse()
s.update(0, [('x', 2.0), ('y', 7.0)])
print('online  get_value(x): required 2.0 observed', s.get_value('x'))
try:
    print('online  get_value(y): required 7.0 observed', s.get_value('y'))
except Exception as e:
    print('online  get_value(y): required 7.0 observed', type(e).__name__, e); bad = True
o = rtamt.StlDiscreteTimeOfflineSpecification()
o.declare_var('x', 'float'); o.declare_var('y', 'float')
o.spec = 'out = once(x >= 1)'
o.parse()
o.evaluate({'time': [0, 1], 'x': [2.0, 0.0], 'y': [7.0, 8.0]})
try:
    print('offline get_value(y): required [7.0, 8.0] (or time-stamped) observed', o.get_value('y'))
except Exception as e:
    print('offline get_value(y): required [7.0, 8.0] observed', type(e).__name__, e); bad = True
sys.exit(1 if bad else 0)
