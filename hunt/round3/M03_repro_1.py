# C02: discrete-time online monitor must equal offline evaluation at every step.
# A signal called `inf` and an infinite literal (1e400 -> Constant(inf)) both get the node name 'inf';
# the online update visitor caches values by node NAME, so the second predicate re-uses the first one's value.
import sys, logging
sys.path.insert(0, '/tmp/hunt3/M03')
logging.disable(logging.CRITICAL)
import rtamt

def mk():
    s = rtamt.StlDiscreteTimeSpecification()
    s.declare_var('inf', 'float')
    s.declare_var('out', 'float')
    s.spec = 'out = (inf >= 1) or (1e400 >= 1)'
    s.parse()
    return s

xs = [0.0, 5.0, -2.0]
# oracle from the definition: max(x - 1, +inf - 1) = +inf at every sample
required = [max(x - 1, float('inf') - 1) for x in xs]
offline = [r[1] for r in mk().evaluate({'time': [0, 1, 2], 'inf': list(xs)})]
s = mk()
online = [s.update(i, [['inf', xs[i]]]) for i in range(3)]
print('required:', required)
print('offline :', offline)
print('online  :', online)
sys.exit(1 if online != required else 0)
