# A signal called `inf` and a literal that overflows to +inf (1e999) get the same node name 'inf'
# (Constant.name = str(val)); the parser registers both under that name (visitExprLiteral overwrites the
# entry of the variable in phi_name_to_node_dict) and the dense-time online monitor, which keys its
# operators and its memo by node name, reads the constant as the signal.
import sys, logging
logging.disable(logging.CRITICAL)
import rtamt

TEXT = 'out = (inf >= 3) and (y <= 1e999)'
T = [0, 1, 2, 3]
INF = [1, 2, 3, 4]          # samples of the signal named inf
Y = [5, 6, 7, 8]
bad = False

# oracle: rho = min(inf(t) - 3, +inf - y(t)) = inf(t) - 3
required = [v - 3.0 for v in INF]

# --- C12: get_value of an input variable returns the data supplied for it (discrete offline)
s = rtamt.StlDiscreteTimeOfflineSpecification()
s.declare_var('inf', 'float'); s.declare_var('y', 'float')
s.spec = TEXT; s.parse()
rob = s.evaluate({'time': T, 'inf': INF, 'y': Y})
got = s.get_value('inf')
print('C12 required get_value(inf) =', INF, ' observed =', got)
if list(got) != INF:
    bad = True
print('    discrete offline robustness', [v for _, v in rob], '(required', required, ')')

# --- C05: dense online == dense offline
off = rtamt.StlDenseTimeOfflineSpecification()
off.declare_var('inf', 'float'); off.declare_var('y', 'float')
off.spec = TEXT; off.parse()
r_off = off.evaluate(['inf', [[t, v] for t, v in zip(T, INF)]], ['y', [[t, v] for t, v in zip(T, Y)]])

on = rtamt.StlDenseTimeOnlineSpecification()
on.declare_var('inf', 'float'); on.declare_var('y', 'float')
on.spec = TEXT; on.parse()
r_on = []
for t, a, b in zip(T, INF, Y):
    r_on += on.update(['inf', [[t, a]]], ['y', [[t, b]]])
print('C05 required (oracle)       ', [[t, v] for t, v in zip(T, required)])
print('    dense offline           ', r_off)
print('    dense online  (observed)', r_on)
def at(sig, t):
    v = None
    for a, b in sig:
        if a <= t: v = b
    return v
for t, v in r_on:
    if v != required[T.index(t)] if t in T else at(r_off, t) != v:
        bad = True
sys.exit(1 if bad else 0)
