# C17 / C02 / C08: offline evaluate() of a pastified bounded-until (or unless) specification is rejected,
# although the online monitor of the same pastified specification handles it (PrecedesTimedOperation).
import sys, logging
import rtamt
logging.disable(logging.CRITICAL)

x = [1.0, 2.0, -1.0, 1.0, 1.0, 1.0]
y = [-1.0, -2.0, 3.0, -1.0, -1.0, -1.0]
n = len(x)

def mk():
    s = rtamt.StlDiscreteTimeSpecification()
    s.declare_var('x', 'float'); s.declare_var('y', 'float'); s.declare_var('out', 'float')
    s.spec = 'out = (x>=0) until[1,2] (y>=0);'
    s.parse()
    s.pastify()
    return s

# oracle: original robustness at i-h on the prefix seen so far (h = 2)
def until(px, py, t, a, b):
    best = -float('inf')
    for tp in range(t + a, min(t + b, len(px) - 1) + 1):
        best = max(best, min([py[tp]] + px[t:tp]))
    return best
h = 2
required = [until(x[:i + 1], y[:i + 1], i - h, 1, 2) for i in range(h, n)]

online = mk()
on = [online.update(i, [('x', x[i]), ('y', y[i])]) for i in range(n)][h:]

try:
    off = [p[1] for p in mk().evaluate({'time': list(range(n)), 'x': x, 'y': y})][h:]
except Exception as e:
    off = '%s: %s' % (type(e).__name__, e)

print('required (samples %d..%d):' % (h, n - 1), required)
print('online  update()        :', on)
print('offline evaluate()      :', off)
sys.exit(0 if off == required and on == required else 1)
