# Addition.__init__ and Neg.__init__ call add_child() again after BinaryNode/UnaryNode.__init__ already did:
# children == [c1, c2, c1, c2] resp. [c, c].  Every visitor that walks node.children (building the online
# operators in the first update(), reset(), pastify()) visits each operand twice per level, i.e. 2^n times
# for a sum of n terms / n nested negations, whereas the twin nodes (Multiplication, Subtraction, ...) are linear.
# C17: a 40-term sum is well-formed, yet the first update() / reset() / pastify() never return.
import sys, time, logging
logging.disable(logging.CRITICAL)
sys.path.insert(0, '/tmp/hunt3/M14')
import rtamt

def first_update(text):
    s = rtamt.StlDiscreteTimeOnlineSpecification()
    s.declare_var('x', 'float')
    s.spec = text
    s.parse()
    t = time.time()
    r = s.update(0, [('x', 1.0)])
    t1 = time.time() - t
    t = time.time()
    s.reset()
    return r, t1, time.time() - t

bad = False
for n in (14, 16, 18):
    ra, ta, tra = first_update('out = ' + ' + '.join(['x'] * n) + ' > 0')
    rm, tm, trm = first_update('out = ' + ' * '.join(['x'] * n) + ' > 0')
    rn, tn, trn = first_update('out = ' + 'not ' * n + '(x > 0)')
    print('n=%2d  first update(): sum %.3fs  product %.3fs  nested not %.3fs | reset(): sum %.3fs product %.3fs not %.3fs'
          % (n, ta, tm, tn, tra, trm, trn))
    last = (ta, tm, tn)
print('required: cost linear in the size of the formula, as for the product (same shape of tree)')
print('observed: doubles with every further term (x4 per line above); 40 terms = 2^40 visits')
if last[0] > 50 * max(last[1], 1e-3) or last[2] > 50 * max(last[1], 1e-3):
    bad = True
    print('  -> DEFECT (C17): exponential walk caused by duplicated children in Addition / Neg')
sys.exit(1 if bad else 0)
