# A variable named `inf` and an infinite constant (1e400) get the same node name 'inf'; the discrete-time online
# monitor keys operators (ast_visitor.py: online_operator_dict[node.name]) and per-update results
# (AbstractOnlineUpdateVisitor.visited[node.name]) by node name, so `1e400 >= 0` takes the value of `inf >= 0`.
import sys, logging
sys.path.insert(0, '/tmp/hunt3/M02')
logging.disable(logging.CRITICAL)
import rtamt

TXT = 'out = (inf >= 0) and not(1e400 >= 0)'
DATA = [3.0, 2.0]

def mk(cls):
    s = cls()
    s.declare_var('inf', 'float')
    s.spec = TXT
    s.parse()
    return s

# oracle from the README definition: min(inf(t) - 0, -(+infinity - 0)) = -infinity at every sample
required = [min(v - 0.0, -(float('inf') - 0.0)) for v in DATA]

off = mk(rtamt.StlDiscreteTimeOfflineSpecification)
offline = [v for _, v in off.evaluate({'time': list(range(len(DATA))), 'inf': list(DATA)})]
on = mk(rtamt.StlDiscreteTimeOnlineSpecification)
online = [on.update(i, [('inf', v)]) for i, v in enumerate(DATA)]

print('spec     :', TXT, ' with variable inf =', DATA)
print('required :', required)
print('offline  :', offline)
print('online   :', online)
bad = online != required
print('DEFECT (C02: online != offline/oracle)' if bad else 'ok')
sys.exit(1 if bad else 0)
