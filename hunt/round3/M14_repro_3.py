# C12: get_value(v) of an input variable returns the data supplied for it.  For a declared input variable
# that the formula does not use (C17 allows such variables) get_value raises KeyError:
# AbstractAst.get_value indexes phi_name_to_node_dict, which is only filled for identifiers met in the formula.
import sys, logging
logging.disable(logging.CRITICAL)
sys.path.insert(0, '/tmp/hunt3/M14')
import rtamt

bad = False
off = rtamt.StlDiscreteTimeOfflineSpecification()
off.declare_var('x', 'float'); off.declare_var('y', 'float')
off.spec = 'out = once(x > 0)'
off.parse()
data = {'time': [0, 1, 2], 'x': [1.0, -1.0, 2.0], 'y': [4.0, 5.0, 6.0]}
off.evaluate(data)
print('offline: get_value("x") =', off.get_value('x'))
print('required get_value("y") =', data['y'])
try:
    print('observed get_value("y") =', off.get_value('y'))
except Exception as e:
    bad = True
    print('observed get_value("y") raises %s: %s' % (type(e).__name__, e))

on = rtamt.StlDiscreteTimeOnlineSpecification()
on.declare_var('x', 'float'); on.declare_var('y', 'float')
on.spec = 'out = once(x > 0)'
on.parse()
on.update(0, [('x', 1.0), ('y', 4.0)])
print('online : required get_value("y") = 4.0')
try:
    print('online : observed get_value("y") =', on.get_value('y'))
except Exception as e:
    bad = True
    print('online : observed get_value("y") raises %s: %s' % (type(e).__name__, e))
sys.exit(1 if bad else 0)
