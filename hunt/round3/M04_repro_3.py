# C12: get_value(v) of an input variable that is declared and supplied but not used by the formula
import sys, logging
logging.disable(logging.CRITICAL)
import rtamt
bad = False
s = rtamt.StlDiscreteTimeOnlineSpecification()
s.declare_var('x', 'float'); s.declare_var('y', 'float')
s.spec = 'out = x >= 1'
s.parse()
s.update(0, [['x', 2.0], ['y', 5.0]])
print('online  get_value(x) =', s.get_value('x'))
try:
    v = s.get_value('y'); print('online  get_value(y) =', v, '(required 5.0)'); bad |= v != 5.0
except Exception as e:
    print('online  get_value(y): required 5.0, observed', repr(e)); bad = True
o = rtamt.StlDiscreteTimeOfflineSpecification()
o.declare_var('x', 'float'); o.declare_var('y', 'float')
o.spec = 'out = x >= 1'
o.parse()
o.evaluate({'time': [0, 1], 'x': [2.0, 3.0], 'y': [5.0, 6.0]})
try:
    v = o.get_value('y'); print('offline get_value(y) =', v); bad |= v != [5.0, 6.0]
except Exception as e:
    print('offline get_value(y): required [5.0, 6.0], observed', repr(e)); bad = True
sys.exit(1 if bad else 0)
