# C12 (+C17): get_value(v) of an input variable that is declared and supplied but not used by the formula
# raises KeyError instead of returning the supplied data.
import sys, logging
import rtamt
logging.disable(logging.CRITICAL)

bad = False
def get(s, name):
    try:
        return s.get_value(name)
    except Exception as e:
        return '%s: %r' % (type(e).__name__, e)

def mk(cls):
    s = cls()
    s.declare_var('x', 'float'); s.declare_var('u', 'float'); s.declare_var('out', 'float')
    s.spec = 'out = once[0,1](x>=0);'
    s.parse()
    return s

s = mk(rtamt.StlDiscreteTimeSpecification)
s.update(0, [('x', 1.0), ('u', 7.0)])
obs = get(s, 'u'); print('discrete online : required 7.0, observed', obs); bad |= obs != 7.0

s = mk(rtamt.StlDiscreteTimeSpecification)
s.evaluate({'time': [0, 1], 'x': [1.0, 2.0], 'u': [7.0, 8.0]})
obs = get(s, 'u'); print('discrete offline: required [7.0, 8.0], observed', obs); bad |= obs != [7.0, 8.0]

s = mk(rtamt.StlDenseTimeSpecification)
s.evaluate(['x', [[0, 1.0], [1, 2.0]]], ['u', [[0, 7.0], [1, 8.0]]])
obs = get(s, 'u'); print('dense offline   : required [[0, 7.0], [1, 8.0]], observed', obs); bad |= obs != [[0, 7.0], [1, 8.0]]

sys.exit(1 if bad else 0)
