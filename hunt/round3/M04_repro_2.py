# C11: the discrete-time online update() writes the robustness into the object supplied by the caller
# when the assertion writes to a field of a variable that the formula also reads (m.r = ... m.x ...).
# (the dense-time twin guards this with `out_var not in free_vars`; the discrete one does not)
import sys, os, logging, tempfile
logging.disable(logging.CRITICAL)
d = tempfile.mkdtemp()
with open(os.path.join(d, 'm04msg.py'), 'w') as f:
    f.write('class Msg(object):\n    def __init__(self):\n        self.x = 0.0\n        self.r = 0.0\n')
sys.path.insert(0, d)
import rtamt
from m04msg import Msg

s = rtamt.StlDiscreteTimeOnlineSpecification()
s.spec = '''
from m04msg import Msg
input Msg m
m.r = once(m.x >= 1)
'''
s.parse()
a = Msg(); a.x = 3.0; a.r = 77.0
data = [['m', a]]
rob = s.update(0, data)
print('update() returned', rob)
print('required: caller object untouched, a.r == 77.0; observed a.r ==', a.r)
sys.exit(1 if a.r != 77.0 else 0)
