# a signal called "time": the offline data set cannot carry it, evaluate() dies with TypeError
import sys, logging
sys.path.insert(0, '/tmp/hunt3/M01')
import rtamt
logging.disable(logging.CRITICAL)
vals = [0, 1, 2, 3]
on = rtamt.StlDiscreteTimeOnlineSpecification()
on.declare_var('time', 'float'); on.spec = 'out = once(time > 1)'; on.parse()
required = [on.update(i, [('time', vals[i])]) for i in range(len(vals))]   # = max_{j<=i} vals[j]-1
assert required == [max(v - 1 for v in vals[:i + 1]) for i in range(len(vals))]
off = rtamt.StlDiscreteTimeOfflineSpecification()
off.declare_var('time', 'float'); off.spec = 'out = once(time > 1)'; off.parse()
try:
    observed = [v[1] for v in off.evaluate({'time': vals})]
except Exception as e:
    observed = '%s: %s' % (type(e).__name__, e)
print('required (= online, = definition):', required)
print('observed offline                 :', observed)
sys.exit(0 if observed == required else 1)
