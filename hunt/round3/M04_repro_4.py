# C13: period 100 ms, tolerance 10 %, time-stamps in s. Every gap (100 ms or 110 ms) lies on the closed
# interval [90 ms, 110 ms]; the gap is computed in floating point (0.52 - 0.41 = 0.11000000000000004) before it is
# compared with the exact bounds, so a gap on the boundary is counted.
import sys, logging
from fractions import Fraction
logging.disable(logging.CRITICAL)
import rtamt
ts = [0, 0.1, 0.2, 0.3, 0.41, 0.52]
P, tol = Fraction(1, 10), Fraction(1, 10)
required = sum(1 for a, b in zip(ts, ts[1:])
               if not (P * (1 - tol) <= Fraction(str(b)) - Fraction(str(a)) <= P * (1 + tol)))
def mk(kind):
    s = kind()
    s.declare_var('x', 'float')
    s.set_sampling_period(100, 'ms', 0.1)
    s.spec = 'out = x >= 1'
    s.parse()
    return s
on = mk(rtamt.StlDiscreteTimeOnlineSpecification)
for t in ts: on.update(t, [['x', 1.0]])
off = mk(rtamt.StlDiscreteTimeOfflineSpecification)
off.evaluate({'time': ts, 'x': [1.0] * len(ts)})
print('required', required, 'observed online', on.sampling_violation_counter, 'offline', off.sampling_violation_counter)
sys.exit(1 if (on.sampling_violation_counter != required or off.sampling_violation_counter != required) else 0)
