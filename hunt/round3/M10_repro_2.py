# An object variable o (field w is read, field v receives a result).  visitAssertion removes the
# variable that receives the result from free_vars unless *that* formula reads it; a formula of ANOTHER
# assertion that reads o.w is not looked at.  The online monitors then ignore the data supplied for o
# ("if data[0] in free_vars") and evaluate o.w on a default-constructed object.
import sys, types, logging
logging.disable(logging.CRITICAL)
import rtamt

m = types.ModuleType('m10mod')
class T(object):
    def __init__(self, v=0.0, w=0.0):
        self.v = v; self.w = w
m.T = T
sys.modules['m10mod'] = m

W = [1.0, -2.0, 3.0]
X = [5.0, 5.0, 5.0]

def online(text):
    s = rtamt.StlDiscreteTimeOnlineSpecification()
    s.import_module('m10mod', 'T')
    s.declare_var('o', 'T'); s.declare_var('x', 'float')
    s.spec = text; s.parse()
    return [s.update(i, [('o', T(0.0, w)), ('x', x)]) for i, (w, x) in enumerate(zip(W, X))], sorted(s.free_vars)

def offline(text):
    s = rtamt.StlDiscreteTimeOfflineSpecification()
    s.import_module('m10mod', 'T')
    s.declare_var('o', 'T'); s.declare_var('x', 'float')
    s.spec = text; s.parse()
    return [v for _, v in s.evaluate({'time': [0, 1, 2], 'o': [T(0.0, w) for w in W], 'x': X})]

modular = 'b = o.w > 0; o.v = x > 0; out = b'
inlined = 'out = (o.w > 0)'
required = [w - 0.0 for w in W]          # rho(o.w > 0) = o.w
r_mod, fv = online(modular)
r_inl, _ = online(inlined)
print('required (definition)            ', required)
print('online, inlined  ', inlined, '->', r_inl)
print('offline, modular ', modular, '->', offline(modular))
print('online, modular  ', modular, '->', r_mod, ' free_vars =', fv)
sys.exit(1 if r_mod != required else 0)
