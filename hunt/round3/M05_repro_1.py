#!/venv/bin/python
# C17 / C03: a well-formed bounded-future specification whose value is defined on every real trace
# crashes with ZeroDivisionError at the first update() after pastify(), in discrete and in dense time.
#   out = 1 / exp((next y) + x) >= 1        (exp(.) > 0 on every finite trace: offline evaluate() works)
# pastify() delays x by one period with once[1,1](x) (StlPastifier.visitVariable:
#   node = TimedOnce(node, Interval(horizon, horizon))); the delay emits -inf while it warms up, the
# stateless arithmetic above it computes exp(-inf) = 0.0 and DivisionOperation divides by it.
import sys, logging
sys.path.insert(0, '/tmp/hunt3/M05')
logging.disable(logging.CRITICAL)
import rtamt

bad = False

# ---------------- discrete time
TEXT = 'out = 1 / exp((next y) + x) >= 1'
xs = [0.0, 3.0, 1.0, 4.0]
ys = [2.0, 7.0, 1.0, 8.0]

def mk():
    s = rtamt.StlDiscreteTimeSpecification()
    s.declare_var('x', 'float'); s.declare_var('y', 'float')
    s.spec = TEXT
    s.parse()
    return s

import math
# oracle from the definition: rho at sample t of the prefix of length i+1, t = i-1 (horizon 1)
def rho(t):
    return 1.0 / math.exp(ys[t + 1] + xs[t]) - 1.0
required = [None] + [rho(i - 1) for i in range(1, len(xs))]
off = mk().evaluate({'time': list(range(len(xs))), 'x': list(xs), 'y': list(ys)})
print('discrete offline (works)      :', off)
print('required online, updates >= 1 :', required[1:])
s = mk(); s.pastify()
try:
    got = [s.update(i, [('x', xs[i]), ('y', ys[i])]) for i in range(len(xs))]
    print('observed online               :', got)
    if any(abs(got[i] - required[i]) > 1e-12 for i in range(1, len(xs))):
        bad = True
except Exception as e:
    print('observed online               : update() raises %s: %s' % (type(e).__name__, e))
    bad = True

# ---------------- dense time
TEXTD = 'out = 1 / exp((eventually[1,1] y) + x) >= 1'
x = [[0, 1.0], [2, 3.0], [5, 1.0]]
y = [[0, 2.0], [3, 0.0], [5, 1.0]]
def mkd():
    s = rtamt.StlDenseTimeSpecification()
    s.declare_var('x', 'float'); s.declare_var('y', 'float')
    s.spec = TEXTD
    s.parse()
    return s
print('dense offline (works)         :', mkd().evaluate(['x', [list(p) for p in x]], ['y', [list(p) for p in y]]))
s = mkd(); s.pastify()
try:
    print('observed dense online         :', s.update(['x', [list(p) for p in x]], ['y', [list(p) for p in y]]))
except Exception as e:
    print('observed dense online         : update() raises %s: %s' % (type(e).__name__, e))
    bad = True

print('DEFECT' if bad else 'ok')
sys.exit(1 if bad else 0)
