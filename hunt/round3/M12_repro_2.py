# set_sampling_period() checks the unit and the tolerance but not the period (abstract_specification.py:150-155):
# a period of 0 (or a negative one) is stored and the first evaluation fails with ZeroDivisionError / ValueError
# instead of an RTAMTException (C08: a bound that is no integer multiple of the period is rejected with RTAMTException).
import sys, logging
import rtamt
logging.disable(logging.WARNING)
bad = False
for period in (0, -1):
    for mode in ('offline', 'online'):
        try:
            s = rtamt.StlDiscreteTimeSpecification()
            s.declare_var('x', 'float')
            s.set_sampling_period(period, 's', 0.1)
            s.spec = 'out = once[0,2](x>1)'
            s.parse()
            if mode == 'offline':
                r = s.evaluate({'time': [0, 1, 2], 'x': [2, 0, 0]})
            else:
                r = s.update(0, [('x', 2)])
            print('period %r %s: required RTAMTException, observed value %r' % (period, mode, r)); bad = True
        except rtamt.RTAMTException as e:
            print('period %r %s: RTAMTException (ok)' % (period, mode))
        except Exception as e:
            print('period %r %s: required RTAMTException, observed %s: %s' % (period, mode, type(e).__name__, e)); bad = True
sys.exit(1 if bad else 0)
