# C04: a signal whose first sample is EARLIER than time 0, compared with a literal constant.
# visitConstant (dense_time/offline/ast_visitor.py line 577) gives every literal the domain [0, inf),
# so the intersection cuts the predicate at 0 and the past operator forgets what happened before 0.
import sys, logging
sys.path.insert(0, '/tmp/hunt3/M06')
logging.disable(logging.WARNING)
import rtamt

def run(text, *data):
    s = rtamt.StlDenseTimeOfflineSpecification()
    s.declare_var('x', 'float'); s.declare_var('c', 'float')
    s.spec = text
    s.parse()
    return s.evaluate(*data)

def at(lst, t):
    v = None
    for s in lst:
        if s[0] <= t: v = s[1]
    return v

x = [[-2, 1.0], [0, 5.0], [1, 5.0]]
c = [[-2, 3.0], [1, 3.0]]          # the constant 3 supplied as a signal on the same domain

lit = run('out = historically (x >= 3)', ['x', x])
ref = run('out = historically (x >= c)', ['x', x], ['c', c])

# oracle from the definition: rho(t) = min over t' in [-2, t] of x(t') - 3
def oracle(t):
    pts = [p for p in (-2, 0, 1) if p <= t]
    return min(at(x, p) - 3 for p in pts)

bad = False
print('literal :', lit)
print('signal c:', ref)
if lit[0][0] != -2:
    print('start of result: required -2 (start of the input domain), observed', lit[0][0]); bad = True
for t in (-2, -1, 0, 0.5, 1):
    req, obs = oracle(t), at(lit, t)
    print('t=%s required %s observed %s' % (t, req, obs))
    if req != obs: bad = True
sys.exit(1 if bad else 0)
