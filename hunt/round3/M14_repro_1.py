# Leaf-node names collide: Constant(float('inf')).name == 'inf' == Variable('inf').name.
# The online monitors key operators / the per-update memo / get_value by node.name, so the predicate
# (inf <= 3) over the SIGNAL inf and the predicate (1e999 <= 3) over the CONSTANT +inf are taken for
# the same sub-formula.  C02 (online == offline == rho) and C12 (get_value of an input variable).
import sys, logging
logging.disable(logging.CRITICAL)
sys.path.insert(0, '/tmp/hunt3/M14')
import rtamt

INF = float('inf')
data = [1.0, 5.0, 2.0]
text = 'out = (inf <= 3) and (1e999 <= 3)'
# oracle from the definition: rho(a <= b) = b - a, rho(and) = min
required = [min(3.0 - v, 3.0 - INF) for v in data]          # -inf everywhere

on = rtamt.StlDiscreteTimeOnlineSpecification()
on.declare_var('inf', 'float')
on.spec = text
on.parse()
online = [on.update(i, [('inf', v)]) for i, v in enumerate(data)]

off = rtamt.StlDiscreteTimeOfflineSpecification()
off.declare_var('inf', 'float')
off.spec = text
off.parse()
offline = [v for _, v in off.evaluate({'time': [0, 1, 2], 'inf': data})]
got = off.get_value('inf')

bad = False
print('formula :', text, ' signal inf =', data)
print('required robustness      :', required)
print('offline evaluate()       :', offline)
print('online update()          :', online)
if online != required:
    bad = True
    print('  -> DEFECT (C02): online differs from rho / offline')
print('required get_value("inf"):', data)
print('observed get_value("inf"):', got)
if got != data:
    bad = True
    print('  -> DEFECT (C12): get_value of the input variable returns the constant')
sys.exit(1 if bad else 0)
