# get_value() of an input variable that is declared and supplied but not used by the formula
import sys, logging
sys.path.insert(0, '/tmp/hunt3/M01')
import rtamt
logging.disable(logging.CRITICAL)
s = rtamt.StlDiscreteTimeOfflineSpecification()
s.declare_var('x', 'float'); s.declare_var('y', 'float')
s.spec = 'out = x > 1'; s.parse()
d = {'time': [0, 1, 2], 'x': [0, 1, 2], 'y': [5, 6, 7]}
s.evaluate(d)
assert s.get_value('x') == d['x']
required = d['y']
try:
    observed = s.get_value('y')
except Exception as e:
    observed = '%s: %s' % (type(e).__name__, e)
print('required get_value(y):', required)
print('observed get_value(y):', observed)
sys.exit(0 if observed == required else 1)
