# pastify() + offline evaluate() of a bounded until: the offline visitor has no TimedPrecedes case
import sys, logging
sys.path.insert(0, '/tmp/hunt3/M01')
import rtamt
logging.disable(logging.CRITICAL)
INF = float('inf')

def mk(pastify):
    s = rtamt.StlDiscreteTimeSpecification()
    s.declare_var('x', 'float'); s.declare_var('y', 'float')
    s.spec = 'out = (x>1) until[1,2] (y>0)'
    s.parse()
    if pastify:
        s.pastify()
    return s

x = [1, 2, 3, 0, 5, 4]; y = [-1, -2, 3, -1, -1, 2]
n = len(x); a, b = 1, 2
d = {'time': list(range(n)), 'x': x, 'y': y}
# oracle from the README definition
def until(t):
    best = -INF
    for u in range(t + a, t + b + 1):
        if u < n:
            best = max(best, min([y[u]] + [x[v] - 1 for v in range(t, u)]))
    return best
orig = [until(t) for t in range(n)]
required = orig[:n - b]                      # value at sample i >= h is orig at i-h (h = 2)
assert [v[1] for v in mk(False).evaluate(d)] == orig
on = mk(True)
online = [on.update(i, [('x', x[i]), ('y', y[i])]) for i in range(n)]
assert online[b:] == required
try:
    observed = [v[1] for v in mk(True).evaluate(d)][b:]
except Exception as e:
    observed = '%s: %s' % (type(e).__name__, e)
print('required (samples %d..): %s' % (b, required))
print('online   (samples %d..): %s' % (b, online[b:]))
print('offline after pastify  : %s' % (observed,))
sys.exit(0 if observed == required else 1)
