#!/usr/bin/env python
# C04 reproducer 1: dense-time offline evaluate() raises
#   "Dense time offline evaluation: Unexpected case in the intersection."
# for ordinary nested bounded specifications when the time stamps are ordinary
# decimal floats such as i*0.1 (what numpy.arange / a 10 Hz logger produce).
#
# Run:  cd /tmp/hunt/C04 && PYTHONPATH=/tmp/hunt/C04 /venv/bin/python /tmp/hunt/C04_repro_1.py
import sys
import logging
logging.disable(logging.CRITICAL)
import rtamt

bad = 0


def evaluate(text, data):
    spec = rtamt.StlDenseTimeSpecification()
    for v in data:
        spec.declare_var(v, 'float')
    spec.declare_var('out', 'float')
    spec.spec = text
    spec.parse()
    return spec.evaluate(*[[v, data[v]] for v in data])


def value_at(samples, t):
    val = None
    for s in samples:
        if s[0] <= t:
            val = s[1]
    return val


# ---------------------------------------------------------------- case A
# Hand-checkable.  Common input domain is [0, 0.5] (x ends at 0.5).
#   x = -2 on [0,0.4), 0 on [0.4,0.5), -1 at 0.5 ;  z = 2 on the whole domain.
#   inner = z since[0,0.1] x  = max of x over [t-0.1,t]   (z is 2 > x everywhere)
#         = -2 on [0,0.4), 0 on [0.4,0.5]
#   out   = x since[0,0.5] inner  <= x(t), and t'=t gives min(inner(t),x(t)) = x(t)
#         = x(t) on the domain  ->  [[0,-2],[0.4,0],[0.5,-1]]
# The only "odd" time stamp, 6*0.1 = 0.6000000000000001, lies OUTSIDE the domain.
x = [[0.0, -2], [0.4, 0], [0.5, -1]]
z = [[0.0, 2], [6 * 0.1, -2]]
required = [[0.0, -2], [0.4, 0], [0.5, -1]]
text = 'out = x since[0,0.5] (z since[0,0.1] x)'
print('A: spec      :', text)
print('A: x =', x, ' z =', z)
print('A: required  :', required, '(as a step function on [0,0.5])')
try:
    got = evaluate(text, {'x': x, 'z': z})
    print('A: library   :', got)
    for t in [0.0, 0.2, 0.39, 0.4, 0.45, 0.5]:
        if value_at(got, t) != value_at(required, t):
            print('A: MISMATCH at t=%s: required %s, library %s' % (t, value_at(required, t), value_at(got, t)))
            bad = 1
except Exception as e:
    print('A: library   : raised %s: %s' % (type(e).__name__, e))
    bad = 1

# ---------------------------------------------------------------- case B
# A request/grant style specification on two signals sampled every 0.1 time
# units (time stamps i*0.1).  Whatever the exact values, evaluate() must return
# a sample list; it raises instead.
req = [[i * 0.1, v] for i, v in enumerate([6, 1, 3, 0, 0, 5])]
gnt = [[i * 0.1, v] for i, v in enumerate([5, 0, 0, 1, 3, 4])]
text = 'out = (once[0.3,0.8] (req >= 3)) since[0.2,0.7] (gnt >= 3)'
print()
print('B: spec      :', text)
print('B: req =', req)
print('B: gnt =', gnt)
print('B: required  : a sample list starting at t=0 (robustness as step function)')
try:
    got = evaluate(text, {'req': req, 'gnt': gnt})
    print('B: library   :', got)
except Exception as e:
    print('B: library   : raised %s: %s' % (type(e).__name__, e))
    bad = 1

# ---------------------------------------------------------------- case C: how often
import random
rng = random.Random(3)
cnt = 0
total = 200
for trial in range(total):
    d = {'req': [[i * 0.1, rng.randrange(7)] for i in range(31)],
         'gnt': [[i * 0.1, rng.randrange(7)] for i in range(31)]}
    try:
        evaluate('out = (req >= 3) implies (eventually[0.1,0.1] always[0.1,0.3] (gnt >= 3))', d)
    except Exception:
        cnt += 1
print()
print('C: "(req >= 3) implies (eventually[0.1,0.1] always[0.1,0.3] (gnt >= 3))" on random 31-sample')
print('   signals stamped i*0.1: evaluate() raised in %d of %d runs (required: 0)' % (cnt, total))
if cnt:
    bad = 1

print()
print('VIOLATION' if bad else 'ok')
sys.exit(1 if bad else 0)
