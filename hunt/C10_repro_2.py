# C10 reproducer 2 (oddity, outside the letter of the property): get_value() still reports
# pre-reset results after reset() (discrete time), where a fresh monitor has no value yet.
import sys, logging
import rtamt
logging.disable(logging.CRITICAL)


def make():
    spec = rtamt.StlDiscreteTimeOnlineSpecification()
    spec.declare_var('a', 'float')
    spec.spec = 'out = once(a >= 1)'
    spec.parse()
    return spec


def gv(spec):
    try:
        return spec.get_value('out')
    except Exception as e:
        return 'raises %s' % type(e).__name__


fresh = make()
mon = make()
mon.update(0, [['a', 5.0]])
mon.reset()
print('required (fresh monitor, no update yet):', gv(fresh))
print('observed (after update + reset)        :', gv(mon))
sys.exit(1 if gv(fresh) != gv(mon) else 0)
