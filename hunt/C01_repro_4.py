# The one-letter operator aliases (X, Y, G, F, O, H, U, S, W) are accepted as variable names by
# declare_var() without any warning, but in the text they are always operators:
# "X - 3 > 0" is parsed as  next( -(3) > 0 )  and evaluated without complaint.
# Run: cd /tmp/hunt/C01 && PYTHONPATH=/tmp/hunt/C01 /venv/bin/python /tmp/hunt/C01_repro_4.py
import logging, sys
logging.disable(logging.CRITICAL)
import rtamt

data = {'time': [0, 1, 2], 'X': [5.0, 1.0, 4.0]}
s = rtamt.StlDiscreteTimeOfflineSpecification()
s.declare_var('X', 'float')
s.spec = 'out = X - 3 > 0'
s.parse()
got = [v for _, v in s.evaluate(data)]
required = [v - 3.0 for v in data['X']]
print('required (rho(X - 3 > 0) = X - 3):', required)
print('library                          :', got, '  parsed as', s.spec_print().strip())
sys.exit(0 if got == required else 1)
