# C14 repro 2: an undeclared identifier that ends with '.' makes parse() raise KeyError.
# Property: an undeclared identifier is implicitly declared as float signal or rejected with RTAMTException.
import sys, logging
import rtamt
logging.disable(logging.CRITICAL)

bad = 0
for mk in (rtamt.StlDiscreteTimeSpecification, rtamt.StlDenseTimeSpecification):
    spec = mk()
    spec.spec = 'out = x. > 1'      # 'x.' is one Identifier token of the grammar
    print('spec: %r' % spec.spec)
    print('  required: success (implicit float signal) or RTAMTException')
    try:
        spec.parse()
        print('  observed: parsed')
    except rtamt.RTAMTException as e:
        print('  observed: RTAMTException', e)
    except Exception as e:
        print('  observed: %s: %s' % (type(e).__name__, e))
        bad = 1
sys.exit(bad)
