# C13: the offline sampling_violation_counter is never cleared between evaluate()
# calls (and an offline specification has no reset()), so after evaluating a second,
# independent data set the counter is NOT the number of out-of-tolerance gaps of the
# time column that was supplied; it is the running sum over all data sets ever evaluated.
import sys
import rtamt


def bad_gaps(ts, period=1.0, tol=0.1):
    return sum(1 for a, b in zip(ts, ts[1:])
               if (b - a) < period * (1 - tol) or (b - a) > period * (1 + tol))


spec = rtamt.StlDiscreteTimeOfflineSpecification()
spec.declare_var('x', 'float')
spec.declare_var('out', 'float')
spec.spec = 'out = x >= 1'
spec.parse()

trace1 = {'time': [0, 1, 3, 4], 'x': [1.0, 2.0, 3.0, 4.0]}   # one bad gap (2s)
trace2 = {'time': [0, 1, 2, 3], 'x': [1.0, 2.0, 3.0, 4.0]}   # perfectly periodic

fail = False
for name, d in (('trace1', trace1), ('trace2', trace2), ('trace1 again', trace1)):
    rob = spec.evaluate(d)
    req = bad_gaps(d['time'])
    got = spec.sampling_violation_counter
    print('%-13s robustness (independent of earlier calls): %s' % (name, rob))
    print('%-13s required counter = %d   library counter = %d' % (name, req, got))
    if req != got:
        fail = True

print('has reset():', hasattr(spec, 'reset'))
sys.exit(1 if fail else 0)
