# (b) oddity, not a value mismatch: one StlDiscreteTimeSpecification object offers both evaluate()
# and update() (README: "Both classes implement online and offline monitors"), but comparing
# batch and incremental monitoring on the SAME object is impossible: whichever is called second
# dies with AttributeError, because both share one set_ast_flag (rtamt/spec/abstract_specification.py).
import sys, logging
import rtamt
logging.disable(logging.CRITICAL)
spec = rtamt.StlDiscreteTimeSpecification()
spec.declare_var('x', 'float')
spec.spec = 'out = once[0,1](x >= 2)'
spec.parse()
X = [1.0, 3.0, 0.0]
offline = [r[1] for r in spec.evaluate({'time': [0, 1, 2], 'x': X})]
print('required: update() number i returns', offline)
try:
    online = [spec.update(i, [('x', X[i])]) for i in range(3)]
    print('observed:', online)
    sys.exit(0 if online == offline else 1)
except AttributeError as e:
    print('observed: update() after evaluate() raises AttributeError:', e)
    sys.exit(1)
