# C06 repro 3: input/output assignments that the library silently ignores.
#  (i)  set_var_io_type() called after parse() has no effect (the io type is copied into the Variable
#       nodes while parsing) - no warning, the monitor behaves as if every variable were an output.
#  (ii) the exported enum rtamt.StlIOType (IN/OUT) is accepted by set_var_io_type() without complaint
#       but is mapped to 'undefined', which the Variable node then files under OUTPUT variables.
# In both cases OUTPUT_ROBUSTNESS returns the STANDARD robustness for a predicate over the input 'req'.
import sys, logging, rtamt
logging.disable(logging.CRITICAL)
inf = float('inf')
req = [100, -1, -2, 5, -1]; gnt = [20, -2, 10, 4, -1]
required = [20, inf, inf, 4, inf]      # (req>=3) implies (gnt>=0), req input, gnt output, output robustness
data = {'time': [0, 1, 2, 3, 4], 'req': req, 'gnt': gnt}

def make(variant):
    s = rtamt.StlDiscreteTimeSpecification(semantics=rtamt.Semantics.OUTPUT_ROBUSTNESS)
    s.declare_var('req', 'float'); s.declare_var('gnt', 'float')
    s.spec = 'out = (req >= 3) implies (gnt >= 0)'
    if variant == 'before parse (README order)':
        s.set_var_io_type('req', 'input'); s.set_var_io_type('gnt', 'output'); s.parse()
    elif variant == 'after parse':
        s.parse(); s.set_var_io_type('req', 'input'); s.set_var_io_type('gnt', 'output')
    elif variant == 'enum StlIOType':
        s.set_var_io_type('req', rtamt.StlIOType.IN); s.set_var_io_type('gnt', rtamt.StlIOType.OUT); s.parse()
    return s

bad = False
for variant in ['before parse (README order)', 'after parse', 'enum StlIOType']:
    got = [v for _, v in make(variant).evaluate(data)]
    ok = got == required
    bad |= not ok
    print('%-28s required %s  library %s  %s' % (variant, required, got, 'ok' if ok else 'VIOLATION (io assignment ignored)'))
sys.exit(1 if bad else 0)
