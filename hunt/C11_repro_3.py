# C11 (b)-class / aliasing: the dense-time online operators keep the caller's own [t, v] pair objects in
# their buffers between updates (sample_left_buf / sample_right_buf hold the unconsumed input pairs).
# A caller that re-uses one mutable [t, v] object per signal (fills it in, calls update, fills it in
# again ...) silently gets other results / an exception, although every single update() call receives
# exactly the same values as in the reference run.
# Required: update() takes what it needs from its arguments; what the caller does with his own lists
# after the call returned must not matter.
# Run: cd /tmp/hunt/C11 && PYTHONPATH=/tmp/hunt/C11 /venv/bin/python /tmp/hunt/C11_repro_3.py
import sys, copy, logging
logging.disable(logging.CRITICAL)
import rtamt

def mk():
    s = rtamt.StlDenseTimeSpecification()
    s.declare_var('a', 'float'); s.declare_var('b', 'float')
    s.spec = 'out = (a + b >= 1)'
    s.parse()
    return s

# signal b is sampled half as often as signal a
stream = [(0, 4.0, 6.0), (1, 5.0, None), (2, 3.0, 8.0), (3, 0.0, None), (4, 1.0, -3.0)]

ref = mk()
required = []
for t, va, vb in stream:                       # fresh lists for every call
    required.append(copy.deepcopy(ref.update(['a', [[t, va]]], ['b', [[t, vb]]] if vb is not None else ['b', []])))

s = mk()
sa = [0, 0.0]; sb = [0, 0.0]                   # one re-used sample object per signal
observed = []
try:
    for t, va, vb in stream:
        sa[0] = t; sa[1] = va
        if vb is not None:
            sb[0] = t; sb[1] = vb
        observed.append(copy.deepcopy(s.update(['a', [sa]], ['b', [sb]] if vb is not None else ['b', []])))
except Exception as e:
    observed.append('EXCEPTION %r' % e)

print('required (fresh argument lists)      :', required)
print('observed (caller re-uses his samples):', observed)
if required != observed:
    print('VIOLATION: the monitor kept references to the caller\'s sample objects; re-using them changed the results')
    sys.exit(1)
print('no difference')
