#!/usr/bin/env python
# C04 reproducer 4 (oddity): on an StlDenseTimeSpecification, pastify() followed by the
# offline evaluate() fails for every specification that contains a bounded until:
# the pastifier rewrites until[a,b] into a TimedPrecedes node, which the dense-time OFFLINE
# visitor does not implement (rtamt/semantics/stl/dense_time/offline/ast_visitor.py,
# visitTimedPrecedes raises).  Other pastified formulas evaluate fine offline
# (result = original result delayed by the horizon).
#
# Run:  cd /tmp/hunt/C04 && PYTHONPATH=/tmp/hunt/C04 /venv/bin/python /tmp/hunt/C04_repro_4.py
import sys
import logging
logging.disable(logging.CRITICAL)
import rtamt

x = [[0, 1], [1, 3], [2, -1], [4, 0], [6, 2], [10, 5]]
y = [[0, 2], [3, 1], [5, 4], [10, 1]]
spec = rtamt.StlDenseTimeSpecification()
spec.declare_var('x', 'float')
spec.declare_var('y', 'float')
spec.declare_var('out', 'float')
spec.spec = 'out = x until[1,2] y'
spec.parse()
orig = spec.evaluate(['x', x], ['y', y])
print('original  x until[1,2] y           :', orig)
print('required after pastify() (horizon 2): the same step function delayed by 2 for t >= 2, i.e.',
      [[s[0] + 2, s[1]] for s in orig])
spec.pastify()
try:
    got = spec.evaluate(['x', x], ['y', y])
    print('library after pastify()            :', got)
    sys.exit(0)
except Exception as e:
    print('library after pastify()            : raised %s: %s' % (type(e).__name__, e))
    print('VIOLATION')
    sys.exit(1)
