# C10 reproducer 1: the dense-time online reset() does not re-initialise the table of input
# values (ast.var_object_dict).  A monitor that was reset therefore does not behave like a
# fresh one when an update() does not mention every variable, and input samples supplied
# BEFORE the reset can be evaluated AFTER it.
import sys, logging
import rtamt
logging.disable(logging.CRITICAL)


def make(text):
    spec = rtamt.StlDenseTimeOnlineSpecification()
    spec.declare_var('a', 'float')
    spec.declare_var('b', 'float')
    spec.spec = text
    spec.parse()
    return spec


def upd(spec, *args):
    try:
        return spec.update(*args)
    except Exception as e:
        return 'raises %s: %s' % (type(e).__name__, e)


bad = False

# ---- variant A: ordinary history, then an update that only carries 'a' -----------------
text = 'out = ((a >= 1) or (b >= 1))'
post = [['a', [[0, 1], [1, 2]]]]                      # 'b' is not mentioned in this update

fresh = make(text)
required = upd(fresh, *post)

mon = make(text)
mon.update(['a', [[0, 3], [1, 3]]], ['b', [[0, 4], [1, 4]]])
mon.reset()
observed = upd(mon, *post)

print('variant A  spec:', text, '  post-reset update:', post)
print('  required (= fresh monitor)  :', required)
print('  observed (monitor + reset)  :', observed)
if required != observed:
    bad = True

# ---- variant B: the last pre-reset update failed; its inputs survive the reset ---------
text = 'out = (sqrt(a) >= b)'
post = [['a', [[0, 4], [5, 4]]]]                      # 'b' is not mentioned in this update

fresh = make(text)
required = upd(fresh, *post)

mon1 = make(text)                                     # history 1: a successful update
mon1.update(['a', [[0, 9], [5, 9]]], ['b', [[0, 100], [5, 100]]])
mon1.reset()
observed1 = upd(mon1, *post)

mon2 = make(text)                                     # history 2: an update that raises
h2 = upd(mon2, ['a', [[0, -4], [5, -4]]], ['b', [[0, 100], [5, 100]]])
mon2.reset()
observed2 = upd(mon2, *post)

print('variant B  spec:', text, '  post-reset update:', post)
print('  required (= fresh monitor)            :', required)
print('  observed, history 1 (ok update)+reset :', observed1)
print('  (history 2: the pre-reset update', h2 + ')')
print('  observed, history 2 (failed upd)+reset:', observed2,
      ' <- 2 - 100: b = 100 was supplied BEFORE the reset')
if not (required == observed1 == observed2):
    bad = True

sys.exit(1 if bad else 0)
