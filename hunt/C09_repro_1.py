# C09 repro 1: a constant / sub-specification name directly followed by '/' is not substituted.
# 'limit/2' (no blanks) is lexed as ONE identifier (LtlLexer.g4: IdentifierPart contains '/'),
# visitExprId then silently declares a fresh variable 'limit/2' (value 0.0 in the online monitor).
# The inlined text '6/2' / '(x * 3)/2' is parsed as a division, as the user means.
import sys, logging
import rtamt
logging.disable(logging.CRITICAL)

xs = [1.0, 2.0, 4.0]

def online(setup, text):
    s = rtamt.StlDiscreteTimeOnlineSpecification()
    s.declare_var('x', 'float')
    setup(s)
    s.spec = text
    s.parse()
    return [s.update(i, [['x', v]]) for i, v in enumerate(xs)]

def offline(setup, text):
    s = rtamt.StlDiscreteTimeOfflineSpecification()
    s.declare_var('x', 'float')
    setup(s)
    s.spec = text
    s.parse()
    try:
        return s.evaluate({'time': [0, 1, 2], 'x': xs})
    except Exception as e:
        return 'EXCEPTION %s: %s' % (type(e).__name__, e)

bad = False
# (i) constant
req = online(lambda s: None, 'out = historically(x <= 6/2)')
got = online(lambda s: s.declare_const('limit', 'float', '6'), 'out = historically(x <= limit/2)')
print('const, online : required', req, 'library', got)
bad |= req != got
# (ii) sub-specification
req = online(lambda s: None, 'out = historically((x * 3)/2 <= 4)')
got = online(lambda s: s.add_sub_spec('p = x * 3;'), 'out = historically(p/2 <= 4)')
print('sub,   online : required', req, 'library', got)
bad |= req != got
# (iii) offline: crash instead of values
req = offline(lambda s: None, 'out = always(x <= 6/2)')
got = offline(lambda s: s.declare_const('limit', 'float', '6'), 'out = always(x <= limit/2)')
print('const, offline: required', req, 'library', got)
bad |= req != got
sys.exit(1 if bad else 0)
