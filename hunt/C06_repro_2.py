# C06 repro 2: NaN sample and the predicate '!=='.  nan !== 3 holds (IEEE), and three of the four
# IA-STL monitors contribute +inf for it; the dense-time OFFLINE visitor uses abs(left-right) > 0,
# which is False for nan, and contributes -inf.
import sys, logging, rtamt
logging.disable(logging.CRITICAL)
inf = float('inf'); nan = float('nan')
xs = [1.0, nan, 3.0, 4.0]
required = [inf, inf, -inf, inf]
bad = False
for dense in (False, True):
    for mode in ('offline', 'online'):
        cls = rtamt.StlDenseTimeSpecification if dense else rtamt.StlDiscreteTimeSpecification
        s = cls(semantics=rtamt.Semantics.OUTPUT_ROBUSTNESS)
        s.declare_var('x', 'float'); s.set_var_io_type('x', 'input')
        s.spec = 'out = (x !== 3)'; s.parse()
        n = len(xs)
        if dense:
            X = ['x', [[i, xs[i]] for i in range(n)]]
            r = s.evaluate(X) if mode == 'offline' else s.update(X)
            d = dict((t, v) for t, v in r); got = []; last = None
            for i in range(n):
                last = d.get(i, last); got.append(last)
        elif mode == 'offline':
            got = [v for _, v in s.evaluate({'time': list(range(n)), 'x': xs})]
        else:
            got = [s.update(i, [('x', xs[i])]) for i in range(n)]
        ok = got == required
        bad |= not ok
        print('%-8s %-7s required %s  library %s  %s' % ('dense' if dense else 'discrete', mode, required, got, 'ok' if ok else 'VIOLATION'))
sys.exit(1 if bad else 0)
