# C11 (b)-class / aliasing: dense-time online update() keeps a reference to the last [t, v] pair of the
# list it RETURNS (self.last_output = result[-1]) and compares it with the next output to drop the
# repeated boundary sample.  A caller who post-processes the returned list in place (here: clips the
# robustness to [-1, 1]) therefore changes what the following update() returns.
# Required: the returned list belongs to the caller; later results must be the same whether or not the
# caller touches it.  Run: cd /tmp/hunt/C11 && PYTHONPATH=/tmp/hunt/C11 /venv/bin/python /tmp/hunt/C11_repro_2.py
import sys, copy, logging
logging.disable(logging.CRITICAL)
import rtamt

def mk():
    s = rtamt.StlDenseTimeSpecification()
    s.declare_var('a', 'float'); s.declare_var('b', 'float')
    s.spec = 'out = (a >= 1) and (b >= 1)'
    s.parse()
    return s

batches = [
    (['a', [[0, 4.0], [1, 5.0]]], ['b', [[0, 6.0], [1, 7.0]]]),
    (['a', [[1, 5.0], [2, 3.0]]], ['b', [[1, 7.0], [2, 8.0]]]),   # starts at the time stamp the first batch ended with
]

ref = mk()
required = [copy.deepcopy(ref.update(*copy.deepcopy(b))) for b in batches]

s = mk()
observed = []
for b in batches:
    rob = s.update(*copy.deepcopy(b))
    observed.append(copy.deepcopy(rob))
    for p in rob:                      # caller clips its own copy of the result, in place
        p[1] = max(-1.0, min(1.0, p[1]))

print('required (caller leaves the results alone):', required)
print('observed (caller clips the returned lists)  :', observed)
if required != observed:
    print('VIOLATION: modifying the list returned by update() changed the result of the next update()')
    sys.exit(1)
print('no difference')
