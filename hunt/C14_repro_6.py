# C14 repro 6: 'from M import T' followed by a declaration 'T p' where T is missing in M or is not a class:
# parse() raises AttributeError / TypeError / even SystemExit instead of RTAMTException.
import sys, logging
import rtamt
logging.disable(logging.CRITICAL)

bad = 0
for text in ('from os import foo\nfoo p\nout = p > 1',        # typo in the type name
             'from os import path\npath p\nout = p > 1',      # a module, not a class
             'from math import pi\npi p\nout = p > 1',        # a float
             'from sys import exit\nexit p\nout = p > 1'):    # any callable is called
    spec = rtamt.StlDiscreteTimeSpecification()
    spec.spec = text
    print('spec: %r' % text)
    print('  required: RTAMTException (or success)')
    try:
        spec.parse()
        print('  observed: parsed')
    except rtamt.RTAMTException as e:
        print('  observed: RTAMTException', e)
    except BaseException as e:
        print('  observed: %s: %s' % (type(e).__name__, e))
        bad = 1
sys.exit(bad)
