# C02 violation: bounded once/historically treat an undefined (NaN) operand value
# differently online and offline, so update() number i != evaluate()[i].
#   online : folds the window starting from -inf/+inf  -> NaN is skipped
#   offline: max()/min() of the window slice            -> NaN wins when it is the oldest sample
# NaN operand values arise without any NaN in the data, e.g. (prev a) iff (prev b) at the
# first sample (inf - inf), or iff/xor of two +-inf predicates under IA-STL semantics.
import sys, math, logging
import rtamt
logging.disable(logging.CRITICAL)

def same(p, q):
    return p == q or (isinstance(p, float) and isinstance(q, float) and math.isnan(p) and math.isnan(q))

def run(title, text, data, semantics=rtamt.Semantics.STANDARD, inputs=()):
    def mk():
        spec = rtamt.StlDiscreteTimeSpecification(semantics=semantics)
        for v in data:
            spec.declare_var(v, 'float')
            spec.set_var_io_type(v, 'input' if v in inputs else 'output')
        spec.spec = text
        spec.parse()
        return spec
    n = len(next(iter(data.values())))
    on_spec = mk()
    online = [on_spec.update(i, [(v, data[v][i]) for v in data]) for i in range(n)]
    d = {'time': list(range(n))}
    d.update(data)
    offline = [r[1] for r in mk().evaluate(d)]
    bad = [i for i in range(n) if not same(online[i], offline[i])]
    print(title)
    print('  spec                         :', text)
    print('  data                         :', data)
    print('  required (offline evaluate)  :', offline)
    print('  observed (online update)     :', online)
    print('  differing samples            :', bad)
    return bool(bad)

fail = False
# 1. plain STL, finite data: "the two signals were equivalent one step ago", over the last 2 samples
fail |= run('case 1: standard semantics, finite data',
            'out = historically[0,1]((prev a) iff (prev b))',
            {'a': [1.0, 5.0, 2.0], 'b': [4.0, 0.0, 3.0]})
# 2. IA-STL output robustness, both predicates over input variables only (each is +-inf)
fail |= run('case 2: IA-STL output robustness, finite data',
            'out = once[0,1]((a >= 2) iff (b >= 2))',
            {'a': [3.0, 1.0, 3.0, 3.0], 'b': [3.0, 3.0, 1.0, 3.0]},
            semantics=rtamt.Semantics.OUTPUT_ROBUSTNESS, inputs=('a', 'b'))
# 3. a missing measurement (NaN) in the data
fail |= run('case 3: a NaN sample in the trace',
            'out = once[0,1](a >= 3)',
            {'a': [5.0, float('nan'), 1.0, 4.0]})
sys.exit(1 if fail else 0)
