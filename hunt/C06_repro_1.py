# C06 repro 1: dense-time IA-STL decides "predicate holds" from the sign of left-right.
# With equal infinite operands left-right is nan, so a predicate that HOLDS (inf <= inf, inf == inf)
# contributes -inf in the two dense-time monitors, while the two discrete-time monitors give +inf.
import sys, logging, rtamt
logging.disable(logging.CRITICAL)
inf = float('inf')
xs = [1.0, inf, 3.0]      # x: input
ys = [5.0, inf, 0.0]      # y: input (e.g. "no limit" encoded as +inf)
required = [inf, inf, -inf]   # x <= y holds at t=0,1 and fails at t=2; no output variable -> +-inf
bad = False
for text in ['out = (x <= y)']:
    for dense in (False, True):
        for mode in ('offline', 'online'):
            cls = rtamt.StlDenseTimeSpecification if dense else rtamt.StlDiscreteTimeSpecification
            s = cls(semantics=rtamt.Semantics.OUTPUT_ROBUSTNESS)
            s.declare_var('x', 'float'); s.declare_var('y', 'float')
            s.set_var_io_type('x', 'input'); s.set_var_io_type('y', 'input')
            s.spec = text; s.parse()
            n = len(xs)
            if dense:
                X = ['x', [[i, xs[i]] for i in range(n)]]; Y = ['y', [[i, ys[i]] for i in range(n)]]
                r = s.evaluate(X, Y) if mode == 'offline' else s.update(X, Y)
                d = dict((t, v) for t, v in r); got = []; last = None
                for i in range(n):
                    last = d.get(i, last); got.append(last)
            elif mode == 'offline':
                got = [v for _, v in s.evaluate({'time': list(range(n)), 'x': xs, 'y': ys})]
            else:
                got = [s.update(i, [('x', xs[i]), ('y', ys[i])]) for i in range(n)]
            ok = got == required
            bad |= not ok
            print('%-8s %-7s %s  required %s  library %s  %s' % ('dense' if dense else 'discrete', mode, text, required, got, 'ok' if ok else 'VIOLATION'))
sys.exit(1 if bad else 0)
