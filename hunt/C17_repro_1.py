#!/usr/bin/env python
# C17 reproducer 1: a division written without blanks ("a/b", "a/2") is lexed as ONE identifier,
# silently declared as a new float signal, and the monitors then crash with TypeError (offline and
# dense-time monitors) or silently use 0.0 for it (discrete-time online monitor).
#
# run:  cd /tmp/hunt/C17 && PYTHONPATH=/tmp/hunt/C17 /venv/bin/python /tmp/hunt/C17_repro_1.py
import sys
import logging
import rtamt

logging.disable(logging.CRITICAL)

SPEC = 'out = a/b >= 1'
A = [3.0, 1.0, 4.0]
B = [1.5, 2.0, 2.0]
# required: (a/b) - 1 at every sample, or a clean RTAMTException if the text is not accepted
REQUIRED = [x / y - 1 for x, y in zip(A, B)]

bad = False


def run(name, fn, project):
    global bad
    try:
        out = fn()
        got = project(out)
        ok = got == REQUIRED
        print('%-26s returned %s -> %s' % (name, got, 'ok' if ok else 'WRONG VALUE (a/b was read as an unknown signal worth 0.0)'))
        bad = bad or not ok
    except rtamt.RTAMTException as e:
        print('%-26s clean rejection: %s' % (name, e))
    except Exception as e:
        print('%-26s CRASH %s: %s' % (name, type(e).__name__, e))
        bad = True


def mk(cls):
    s = cls()
    s.declare_var('a', 'float')
    s.declare_var('b', 'float')
    s.spec = SPEC
    s.parse()
    return s


def doff():
    s = mk(rtamt.StlDiscreteTimeOfflineSpecification)
    return s.evaluate({'time': [0, 1, 2], 'a': A, 'b': B})


def don():
    s = mk(rtamt.StlDiscreteTimeOnlineSpecification)
    return [s.update(i, [('a', A[i]), ('b', B[i])]) for i in range(3)]


def coff():
    s = mk(rtamt.StlDenseTimeOfflineSpecification)
    return s.evaluate(['a', [[i, A[i]] for i in range(3)]], ['b', [[i, B[i]] for i in range(3)]])


def con():
    s = mk(rtamt.StlDenseTimeOnlineSpecification)
    return s.update(['a', [[i, A[i]] for i in range(3)]], ['b', [[i, B[i]] for i in range(3)]])


print('specification: %r, a=%s, b=%s (both supplied)' % (SPEC, A, B))
print('required: robustness %s at samples 0,1,2 (or an RTAMTException)' % REQUIRED)
run('discrete-time offline', doff, lambda o: [v for _, v in o])
run('discrete-time online', don, lambda o: o)
run('dense-time offline', coff, lambda o: [v for _, v in o])
run('dense-time online', con, lambda o: [v for _, v in o])

# the same text with blanks around '/' is fine
s = rtamt.StlDiscreteTimeOfflineSpecification()
s.declare_var('a', 'float')
s.declare_var('b', 'float')
s.spec = 'out = a / b >= 1'
s.parse()
print("control 'a / b >= 1' (discrete offline):", s.evaluate({'time': [0, 1, 2], 'a': A, 'b': B}))

sys.exit(1 if bad else 0)
