#!/usr/bin/env python
# C17 reproducer 4 (borderline: is a batch in which one signal has no sample yet "well-formed"?):
# dense-time monitors accept a call in which a variable of the formula is not listed - it is treated
# like an empty sample list - EXCEPT in the very first update()/evaluate() of the object, where the
# same call crashes with TypeError (not RTAMTException).
#
# run:  cd /tmp/hunt/C17 && PYTHONPATH=/tmp/hunt/C17 /venv/bin/python /tmp/hunt/C17_repro_4.py
import sys
import logging
import rtamt

logging.disable(logging.CRITICAL)
bad = False


def attempt(name, fn):
    global bad
    try:
        print('%-58s returned %s' % (name, fn()))
    except rtamt.RTAMTException as e:
        print('%-58s clean rejection: %s' % (name, e))
    except Exception as e:
        print('%-58s CRASH %s: %s' % (name, type(e).__name__, e))
        bad = True


def online():
    s = rtamt.StlDenseTimeOnlineSpecification()
    s.declare_var('a', 'float')
    s.declare_var('b', 'float')
    s.spec = 'out = (a>=2) and (b>=1)'
    s.parse()
    return s


print('required: the same kind of call behaves the same way every time: it returns (b simply has no')
print('          samples yet, like [\'b\', []]) or it is rejected with an RTAMTException')

s = online()
attempt("online #1 update(['a',..],['b',[]])  (b listed, empty)", lambda: s.update(['a', [[0, 3.0], [1, 3.0]]], ['b', []]))
attempt("online #2 update(['a',..])            (b not listed)", lambda: s.update(['a', [[2, 3.0]]]))

s = online()
attempt("online #1 update(['a',..])            (b not listed)", lambda: s.update(['a', [[0, 3.0], [1, 3.0]]]))

s = rtamt.StlDenseTimeOfflineSpecification()
s.declare_var('a', 'float')
s.declare_var('b', 'float')
s.spec = 'out = (a>=2) and (b>=1)'
s.parse()
attempt("offline #1 evaluate(['a',..],['b',..])", lambda: s.evaluate(['a', [[0, 3.0], [1, 3.0]]], ['b', [[0, 3.0], [1, 3.0]]]))
attempt("offline #2 evaluate(['a',..])         (b not listed)", lambda: s.evaluate(['a', [[0, 3.0], [1, 3.0]]]))
s = rtamt.StlDenseTimeOfflineSpecification()
s.declare_var('a', 'float')
s.declare_var('b', 'float')
s.spec = 'out = (a>=2) and (b>=1)'
s.parse()
attempt("offline #1 evaluate(['a',..])         (b not listed)", lambda: s.evaluate(['a', [[0, 3.0], [1, 3.0]]]))

sys.exit(1 if bad else 0)
