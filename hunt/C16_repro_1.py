# (b)-class oddity, borderline for C16: extending a dense-time trace turns a result into an internal error.
# x is time-stamped by accumulating 0.1 (0.1+0.2 -> 0.30000000000000004), y is time-stamped with typed decimals (0.3).
# The pure-past spec (horizon 0) evaluates fine on the prefix w1; on the extension w2 the two stamps, one ulp
# apart, are shifted by the bound 2 and collapse into the same float 2.3, and the next binary operator raises.
import sys, logging
logging.disable(logging.WARNING)
import rtamt

def evaluate(x, y):
    s = rtamt.StlDenseTimeSpecification()
    s.declare_var('x', 'float'); s.declare_var('y', 'float')
    s.spec = 'out = (historically[0,2](x > y)) and (y <= 5);'
    s.parse()
    return s.evaluate(['x', x], ['y', y])

t1 = 0.1; t2 = t1 + 0.2                      # 0.30000000000000004
x2 = [[0.0, 1], [t1, 0], [t2, 1], [0.8, 1]]
y2 = [[0.0, 1], [0.3, 0], [0.8, 0]]
x1 = [[0.0, 1], [t1, 0], [0.2, 0]]           # w1: both signals cut at 0.2
y1 = [[0.0, 1], [0.2, 1]]

o1 = evaluate(x1, y1)
print('w1 (ends at 0.2) :', o1)
print('required          : evaluation of the extension w2 returns the same values for every t < 0.2 (pure past, h = 0)')
try:
    o2 = evaluate(x2, y2)
    print('w2               :', o2)
    sys.exit(0)
except Exception as e:
    print('w2 raises        :', repr(e))
    sys.exit(1)
