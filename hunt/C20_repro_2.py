# C20 repro 2: a temporal operator used as a sliding min/max inside a comparison
# (accepted by parser, evaluator and explainer without complaint) is explained by the
# SIGN of the signal, so the samples that cause the violation are not reported.
import sys, logging
logging.disable(logging.CRITICAL)
import rtamt

def build(text):
    s = rtamt.StlDiscreteTimeOfflineSpecification()
    s.declare_var('x', 'float')
    s.spec = text
    s.parse()
    return s

def positions(intervals):
    return sorted({i for b, e in intervals for i in range(b, e + 1)})

bad = False
for text, x, x_other in [
    # the minimum of x over the next 3 samples must be at least 1
    ('out = (always[0,2] x) >= 1',        [2, 0.5, 2], [2, 5, 2]),
    # x must not be more than 1 above its minimum over the next 3 samples
    ('out = x - (always[0,2] x) <= 1',    [5, 1, 3],   [5, 5, 5]),
]:
    s = build(text)
    data = {'time': [0, 1, 2], 'x': x}
    rob = s.evaluate(data)[0][1]
    s.explain()
    rep = positions(s.explainer.explanations.get('x', []))
    # a trace that agrees with the original one on every reported sample of x
    x2 = [x[i] if i in rep else x_other[i] for i in range(3)]
    rob2 = build(text).evaluate({'time': [0, 1, 2], 'x': x2})[0][1]
    print(text)
    print('  original x =', x, ' robustness at 0 =', rob, '(violated)')
    print('  reported samples of x   :', rep)
    print('  trace agreeing on them  :', x2, ' robustness at 0 =', rob2)
    print('  required: < 0 (sufficient cause);  observed:', 'satisfied' if rob2 >= 0 else 'violated')
    if rob < 0 and rob2 >= 0:
        bad = True
if bad:
    print('VIOLATION: the reported samples are not a sufficient cause')
    sys.exit(1)
print('ok')
