# C14 repro 3: long (machine generated) formulas make parse() / the first evaluate() raise RecursionError.
# Property: parse() succeeds or raises RTAMTException, never another exception type.
import sys, logging
import rtamt
logging.disable(logging.CRITICAL)

bad = 0
for n in (200, 400):
    text = 'out = ' + ' and '.join('(x > %d)' % i for i in range(n))   # flat conjunction of n predicates
    spec = rtamt.StlDiscreteTimeSpecification()
    spec.declare_var('x', 'float')
    spec.spec = text
    print('conjunction of %d predicates (%d characters)' % (n, len(text)))
    print('  required: parse()/evaluate() succeed or raise RTAMTException')
    try:
        spec.parse()
        print('  observed: parse ok')
        try:
            spec.evaluate({'time': [0, 1], 'x': [1., 2.]})
            print('  observed: evaluate ok')
        except rtamt.RTAMTException as e:
            print('  observed: evaluate RTAMTException', e)
        except RecursionError as e:
            print('  observed: evaluate() raised RecursionError:', e)
            bad = 1
    except rtamt.RTAMTException as e:
        print('  observed: RTAMTException', str(e)[:80])
    except RecursionError as e:
        print('  observed: parse() raised RecursionError:', e)
        bad = 1
sys.exit(bad)
