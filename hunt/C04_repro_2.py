#!/usr/bin/env python
# C04 reproducer 2: arithmetic is evaluated OUTSIDE the common input domain and
# an error there aborts evaluate(), although rho is well defined at every time
# of the common domain.
#
# x is sampled on [0,5], y on [0,8].  Common domain = [0,5].  On [0,5] y is 2 or 1,
# so x / y >= 1 has a perfectly defined robustness there.  y becomes 0 only at t=7,
# after x has ended; the library extends x by its last value to +inf, divides by
# the y-samples that lie beyond the common domain and raises ZeroDivisionError.
# The same happens with sqrt / ln / log / pow and values that are only illegal
# after the end of the common domain.
#
# Run:  cd /tmp/hunt/C04 && PYTHONPATH=/tmp/hunt/C04 /venv/bin/python /tmp/hunt/C04_repro_2.py
import sys
import logging
logging.disable(logging.CRITICAL)
import rtamt

bad = 0


def evaluate(text, data):
    spec = rtamt.StlDenseTimeSpecification()
    for v in data:
        spec.declare_var(v, 'float')
    spec.declare_var('out', 'float')
    spec.spec = text
    spec.parse()
    return spec.evaluate(*[[v, data[v]] for v in data])


def value_at(samples, t):
    val = None
    for s in samples:
        if s[0] <= t:
            val = s[1]
    return val


x = [[0, 4], [5, 2]]
y = [[0, 2], [3, 1], [7, 0], [8, 1]]
cases = [
    # text, required step function on the common domain [0,5]
    ('out = x / y >= 1', [[0, 1.0], [3, 3.0], [5, 1.0]]),             # 4/2-1, 4/1-1, 2/1-1
    ('out = sqrt(y - 1) <= x', [[0, 3.0], [3, 4.0], [5, 2.0]]),       # 4-sqrt(1), 4-sqrt(0), 2-sqrt(0)
]
for text, required in cases:
    print('spec     :', text)
    print('x =', x, ' y =', y, ' common domain = [0,5]')
    print('required :', required, '(step function on [0,5])')
    try:
        got = evaluate(text, {'x': x, 'y': y})
        print('library  :', got)
        for t in [0, 1.5, 3, 4, 5]:
            if value_at(got, t) != value_at(required, t):
                print('MISMATCH at t=%s: required %s, library %s' % (t, value_at(required, t), value_at(got, t)))
                bad = 1
    except Exception as e:
        print('library  : raised %s: %s' % (type(e).__name__, e))
        bad = 1
    print()

print('VIOLATION' if bad else 'ok')
sys.exit(1 if bad else 0)
