"""C12 reproducer 3 (oddity next to C12): dense-time online monitor whose assertion writes a
field of an object variable ('o.value = ...').  The first update() works; update() then
replaces every entry of var_object_dict by [] (dict.fromkeys(..., [])), so the second
update() does setattr([], 'value', rob) and raises - the named values can be read back
for the first batch only.
Run:  cd /tmp/hunt/C12 && PYTHONPATH=/tmp/hunt/C12 /venv/bin/python /tmp/hunt/C12_repro_3.py
"""
import sys, types, logging
logging.disable(logging.CRITICAL)
import rtamt

mod = types.ModuleType('c12msgs')
class Msg(object):
    def __init__(self, value=0.0):
        self.value = float(value)
mod.Msg = Msg
sys.modules['c12msgs'] = mod

s = rtamt.StlDenseTimeOnlineSpecification()
s.import_module('c12msgs', 'Msg')
s.declare_var('m', 'Msg')
s.declare_var('o', 'Msg')
s.spec = 'o.value = m.value > 2'
s.parse()
# reference: the same formula over plain float signals
ref = rtamt.StlDenseTimeOnlineSpecification()
ref.declare_var('a', 'float')
ref.spec = 'out = a > 2'
ref.parse()
want1 = ref.update(['a', [[0.0, 1.0], [1.0, 3.0]]])
want2 = ref.update(['a', [[2.0, 1.0], [3.0, 3.0]]])
print('required (float reference): batch 1', want1, ' batch 2', want2)
print('batch 1:', s.update(['m', [[0.0, Msg(1)], [1.0, Msg(3)]]]), 'get_value(o.value) =', s.get_value('o.value'))
try:
    print('batch 2:', s.update(['m', [[2.0, Msg(1)], [3.0, Msg(3)]]]), 'get_value(o.value) =', s.get_value('o.value'))
except Exception as e:
    print('batch 2: required', want2, ', library raised', type(e).__name__, ':', e)
    sys.exit(1)
sys.exit(0)
