# C14 repro 7: characters that belong to no token are silently dropped at the end of the text
# (str.rstrip() removes every Unicode space before the lexer sees it); the same characters are
# rejected anywhere else in the text.
import sys, logging
import rtamt
logging.disable(logging.CRITICAL)

bad = 0
for ch in ('\x0b', '\x1c', '\x85', '\xa0', ' ', '　'):
    res = []
    for text in ('out = x > 1' + ch, 'out = x > 1;' + ch, 'out = x >' + ch + ' 1'):
        spec = rtamt.StlDiscreteTimeSpecification()
        spec.spec = text
        try:
            spec.parse(); res.append('accepted')
        except rtamt.RTAMTException:
            res.append('RTAMTException')
    print('char %r: required RTAMTException (token recognition error) in all three positions; '
          'observed: at end -> %s, after the final ";" -> %s, in the middle -> %s' % (ch, res[0], res[1], res[2]))
    if res[0] == 'accepted' or res[1] == 'accepted':
        bad = 1
sys.exit(bad)
