# C11: evaluate() of a discrete-time offline specification is not independent of the object's history.
# AbstractDiscreteTimeOfflineInterpreter.set_variable_to_ast_from_dataset() only overwrites the
# variables that occur in the data set and never clears ast.var_object_dict, so the signal of an
# earlier evaluate() call silently stands in for a variable that the current data set does not contain.
# Required: evaluate(D) gives the same outcome on a used object as on a fresh one (here: the fresh
# object rejects D, because signal b is missing).  Observed: the used object returns robustness values
# computed from the PREVIOUS trace's b - even with a different number of samples than D has.
# Run: cd /tmp/hunt/C11 && PYTHONPATH=/tmp/hunt/C11 /venv/bin/python /tmp/hunt/C11_repro_1.py
import sys, logging
logging.disable(logging.CRITICAL)
import rtamt

def mk():
    s = rtamt.StlDiscreteTimeSpecification()
    s.declare_var('a', 'float'); s.declare_var('b', 'float')
    s.spec = 'out = always((a >= 1) and (b >= 1))'
    s.parse()
    return s

trace1 = {'time': [0, 1, 2],       'a': [2, 2, 2],       'b': [5, 5, 5]}
trace2 = {'time': [0, 1, 2, 3, 4], 'a': [2, 2, 2, 2, 2]}            # e.g. a log file in which column b is missing

def outcome(spec, d):
    try:
        return spec.evaluate(d)
    except Exception as e:
        return 'rejected (%s)' % type(e).__name__

fresh = outcome(mk(), trace2)
used_spec = mk()
used_spec.evaluate(trace1)
used = outcome(used_spec, trace2)

print('required (fresh object, trace2)       :', fresh)
print('observed (after evaluate(trace1))     :', used)
bad = fresh != used
if bad:
    print('VIOLATION: the result of evaluate(trace2) depends on the data of an earlier evaluate() call')

# dense-time variant of the same thing (abstract_dense_time_offline_interpreter.py: after every evaluate()
# all variables are reset to [] instead of to their initial state): fresh object rejects, used object returns []
def mkd():
    s = rtamt.StlDenseTimeSpecification()
    s.declare_var('a', 'float'); s.declare_var('b', 'float')
    s.spec = 'out = always((a >= 1) or (b >= 1))'
    s.parse()
    return s
def outcome_d(spec, *d):
    try:
        return spec.evaluate(*d)
    except Exception as e:
        return 'rejected (%s)' % type(e).__name__
a = [[0, 2.0], [5, 0.0]]; b = [[0, 3.0], [5, 3.0]]
fresh_d = outcome_d(mkd(), ['a', a])
u = mkd(); u.evaluate(['a', a], ['b', b])
used_d = outcome_d(u, ['a', a])
print('dense, required (fresh object, b missing):', fresh_d)
print('dense, observed (used object, b missing) :', used_d)
if fresh_d != used_d:
    bad = True
    print('VIOLATION (dense): outcome of evaluate() depends on whether the object was used before')
if bad:
    sys.exit(1)
print('no difference')
