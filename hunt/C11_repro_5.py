# C11 (b)-class: sampling_violation_counter of an offline specification is cumulative over evaluate() calls
# (AbstractDiscreteTimeOfflineInterpreter.evaluate only ever increments it; an offline specification has no
# reset()).  Evaluating the same object again on the same data therefore reports another count.
# Required (repeatable evaluation): what evaluate() reports for a trace does not depend on earlier calls:
# the count for this trace is 1 (one gap of 4 s with a 1 s period).
# Run: cd /tmp/hunt/C11 && PYTHONPATH=/tmp/hunt/C11 /venv/bin/python /tmp/hunt/C11_repro_5.py
import sys, logging
logging.disable(logging.CRITICAL)
import rtamt
s = rtamt.StlDiscreteTimeOfflineSpecification()
s.declare_var('a', 'float')
s.spec = 'out = always(a >= 1)'
s.parse()
d = {'time': [0, 1, 5, 6], 'a': [2, 2, 2, 2]}
counts = []
for i in range(3):
    s.evaluate(d)
    counts.append(s.sampling_violation_counter)
print('required after each of three identical evaluate() calls: [1, 1, 1]')
print('observed                                              :', counts)
sys.exit(0 if counts == [1, 1, 1] else 1)
