# C15 repro 2: an omitted trailing ';' is only harmless if the text does not end
# with a line comment: the ';' that parse() appends lands inside the comment.
import sys, logging
import rtamt
logging.disable(logging.CRITICAL)

data = {'time': [0, 1, 2], 'x': [1.0, -2.0, 3.0]}

def run(text):
    spec = rtamt.StlDiscreteTimeOfflineSpecification()
    spec.declare_var('x', 'float')
    spec.spec = text
    try:
        spec.parse()
        return spec.evaluate(data)
    except Exception as e:
        return 'EXCEPTION: %s' % e

with_semi = run('out = always(x >= 0); // safety requirement')
without_semi = run('out = always(x >= 0) // safety requirement')
print('required: both spellings give', [[0, -2.0], [1, -2.0], [2, 3.0]])
print("with ';'    :", with_semi)
print("without ';' :", without_semi)
if with_semi != without_semi:
    print("VIOLATION: omitting the trailing ';' changed the outcome")
    sys.exit(1)
print('ok')
