# C19 (minor, arithmetic applied to a bounded future operator): the discrete-time offline monitor pads the
# last `begin` samples of eventually[begin,end] with -inf (always: +inf).  sqrt / ln / log of that padding
# raises "math domain error" for the WHOLE trace, although every sample t with t + horizon < length has a
# perfectly defined value; the dense-time monitor returns those values.
import sys, math
import rtamt

x = [1.0, 4.0, 9.0, 16.0, 25.0, 36.0]
text = 'out = sqrt(eventually[1,1](x)) >= 2'
required = [math.sqrt(x[k + 1]) - 2 for k in range(len(x) - 1)]     # samples 0..4 (t + 1 < 6)

d = rtamt.StlDenseTimeSpecification()
d.declare_var('x', 'float'); d.declare_var('out', 'float')
d.spec = text; d.parse()
rd = d.evaluate(['x', [[k, v] for k, v in enumerate(x)]])
def at(sig, t):
    v = None
    for s in sig:
        if s[0] <= t:
            v = s[1]
    return v
print('required (samples 0..4):', required)
print('dense-time             :', [at(rd, k) for k in range(len(x) - 1)])

s = rtamt.StlDiscreteTimeSpecification()
s.declare_var('x', 'float'); s.declare_var('out', 'float')
s.spec = text; s.parse()
try:
    rx = s.evaluate({'time': list(range(len(x))), 'x': x})
    print('discrete-time          :', [v[1] for v in rx][:len(x) - 1])
    sys.exit(0 if [v[1] for v in rx][:len(x) - 1] == required else 1)
except Exception as e:
    print('discrete-time          : raises', repr(e))
    sys.exit(1)
