# C08 repro 2: the same sampling period given as a float in one unit or as an integer in a
# smaller unit gives different outcomes: 33.3 ms is refused, 33300 us is accepted.
import sys
import rtamt

def run(period, punit):
    spec = rtamt.StlDiscreteTimeSpecification()
    spec.declare_var('x', 'float')
    spec.declare_var('out', 'float')
    spec.unit = 'ms'
    spec.set_sampling_period(period, punit, 0.1)
    spec.spec = 'out = always[0:66.6ms](x>=1)'      # exactly 2 sampling periods of 33.3 ms
    spec.parse()
    xs = [0, 1, 5, 2, 0, 0, 3, 1]
    try:
        return [v for _, v in spec.evaluate({'time': [33.3 * i for i in range(len(xs))], 'x': xs})]
    except rtamt.RTAMTException as e:
        return 'RTAMTException: %s' % e

a = run(33300, 'us')
b = run(33.3, 'ms')
c = run(0.0333, 's')
print('required: identical results for sampling period 33300us, 33.3ms, 0.0333s (always[0:66.6ms] = 2 periods)')
print('33300 us :', a)
print('33.3 ms  :', b)
print('0.0333 s :', c)
sys.exit(0 if a == b == c else 1)
