# C14 repro 1: negative interval bounds are accepted when they come from a declared constant.
# Property: parse() succeeds only if every interval has 0 <= begin <= end; otherwise RTAMTException.
import sys, logging
import rtamt
logging.disable(logging.CRITICAL)

bad = 0
for text, consts in [('out = always[c,0] (x > 1)', [('c', 'float', '-1')]),
                     ('out = once[a,b] (x > 1)', [('a', 'float', '-2'), ('b', 'float', '-1')])]:
    spec = rtamt.StlDiscreteTimeSpecification()
    spec.declare_var('x', 'float')
    for n, t, v in consts:
        spec.declare_const(n, t, v)
    spec.spec = text
    print('spec:', text, 'consts:', consts)
    print('  required: parse() raises RTAMTException (negative lower bound)')
    try:
        spec.parse()
        print('  observed: parse() succeeded ->', spec.spec_print().strip())
        bad = 1
        try:
            print('  evaluate ->', spec.evaluate({'time': [0, 1, 2], 'x': [1., 2., 3.]}))
        except rtamt.RTAMTException as e:
            print('  evaluate -> RTAMTException', e)
        except Exception as e:
            print('  evaluate -> %s: %s (not an RTAMTException either)' % (type(e).__name__, e))
    except rtamt.RTAMTException as e:
        print('  observed: RTAMTException', e)
sys.exit(bad)
