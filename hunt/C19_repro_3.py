# C19 (border): with a sampling period given as a float, the discrete-time monitor rejects bounds that ARE
# exact multiples of the period ("The operator bound must be a multiple of the sampling period"), while the
# dense-time monitor evaluates the same specification on the same grid-aligned step signal.
# Cause: discrete_time_interpreter.time_unit_transformer builds Fraction(sampling_period * U[unit]) from a
# float product (4.1 * 1000000 = 4099999.9999999995, 0.067 * 1e9 = 67000000.00000001), the bound is an exact Fraction.
import sys
import rtamt

bad = False
for period, unit, bound in [(4.1, 'ms', '[0ms,4.1ms]'), (0.067, 's', '[0,0.067]'), (1.001, 's', '[1.001,2.002]')]:
    x = [1.0, -2.0, 3.0, 0.5]
    times = [k * period for k in range(len(x))]
    text = 'out = once%s(x>=0)' % bound

    d = rtamt.StlDenseTimeSpecification()
    d.declare_var('x', 'float'); d.declare_var('out', 'float')
    d.unit = unit
    d.spec = text
    d.parse()
    rd = d.evaluate(['x', [[t, v] for t, v in zip(times, x)]])

    s = rtamt.StlDiscreteTimeSpecification()
    s.declare_var('x', 'float'); s.declare_var('out', 'float')
    s.unit = unit
    s.set_sampling_period(period, unit, 0.1)
    s.spec = text
    s.parse()
    print('period %s%s, %s' % (period, unit, text))
    print('    dense-time   :', rd)
    try:
        rx = s.evaluate({'time': times, 'x': x})
        print('    discrete-time:', rx)
    except Exception as e:
        bad = True
        print('    discrete-time: raises', repr(e), '-- required: a robustness value for every sample, equal to the dense-time one')
sys.exit(1 if bad else 0)
