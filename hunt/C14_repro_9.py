# C14 repro 9: the value of declare_const() is not validated; parse() raises ValueError /
# decimal.InvalidOperation / OverflowError when the constant is used. In the text the same
# values are handled (hexadecimal) or impossible.
import sys, logging
import rtamt
logging.disable(logging.CRITICAL)

bad = 0
for text, val in (('out = x > c', '0x10'), ('out = always[0,c] (x > 1)', '0x10'),
                  ('out = x > c', 'abc'), ('out = always[0,c] (x > 1)', 'inf'), ('out = always[0,c] (x > 1)', 'nan')):
    spec = rtamt.StlDiscreteTimeSpecification()
    spec.declare_var('x', 'float')
    spec.declare_const('c', 'int', val)
    spec.spec = text
    print('declare_const("c", "int", %r); spec = %r' % (val, text))
    print('  required: success or RTAMTException')
    try:
        spec.parse()
        print('  observed: parsed ->', spec.spec_print().strip())
    except rtamt.RTAMTException as e:
        print('  observed: RTAMTException', e)
    except Exception as e:
        print('  observed: %s: %s' % (type(e).__name__, e))
        bad = 1
# comparison: in the text, 0x10 is fine
spec = rtamt.StlDiscreteTimeSpecification(); spec.spec = 'const int c = 0x10\nout = always[0,c] (x > c)'; spec.parse()
print('comparison (constant declared in the text):', spec.spec_print().strip())
sys.exit(bad)
