# C14 repro 8: an unknown default unit makes parse() raise KeyError as soon as the text has an interval.
import sys, logging
import rtamt
logging.disable(logging.CRITICAL)

bad = 0
for unit in ('sec', 'ps', 'm'):
    spec = rtamt.StlDiscreteTimeSpecification()
    spec.unit = unit
    spec.spec = 'out = always[0,1] (x > 1)'
    print('unit = %r, spec = %r' % (unit, spec.spec))
    print('  required: RTAMTException (unknown unit) or success')
    try:
        spec.parse()
        print('  observed: parsed')
    except rtamt.RTAMTException as e:
        print('  observed: RTAMTException', e)
    except Exception as e:
        print('  observed: %s: %s' % (type(e).__name__, e))
        bad = 1
sys.exit(bad)
