#!/usr/bin/env python
# C17 reproducer 7: a flat conjunction of about 190 or more predicates (a machine-generated requirement
# list) parses, but evaluate()/update() die with RecursionError: the left-recursive grammar produces a
# tree as deep as the number of operands and every visitor is recursive (about 5 Python frames per level).
#
# run:  cd /tmp/hunt/C17 && PYTHONPATH=/tmp/hunt/C17 /venv/bin/python /tmp/hunt/C17_repro_7.py
import sys
import logging
import rtamt

logging.disable(logging.CRITICAL)
bad = False
for n in (100, 250):
    text = 'out = ' + ' and '.join('(a > %d)' % i for i in range(n))
    for name, cls, run in [
            ('discrete offline', rtamt.StlDiscreteTimeOfflineSpecification, lambda s: s.evaluate({'time': [0], 'a': [1000.0]})),
            ('discrete online', rtamt.StlDiscreteTimeOnlineSpecification, lambda s: s.update(0, [('a', 1000.0)])),
            ('dense offline', rtamt.StlDenseTimeOfflineSpecification, lambda s: s.evaluate(['a', [[0, 1000.0], [1, 1000.0]]]))]:
        s = cls()
        s.declare_var('a', 'float')
        s.spec = text
        s.parse()
        required = 1000.0 - (n - 1)
        try:
            print('%d conjuncts, %s: required robustness %s, returned %s' % (n, name, required, run(s)))
        except rtamt.RTAMTException as e:
            print('%d conjuncts, %s: clean rejection %s' % (n, name, e))
        except RecursionError as e:
            print('%d conjuncts, %s: required robustness %s, CRASH RecursionError: %s' % (n, name, required, e))
            bad = True
sys.exit(1 if bad else 0)
