# C15 repro 1: omitting the assertion head changes the result when the formula
# reads a signal that happens to be called "out" (the hidden default head name).
import sys, logging
import rtamt
logging.disable(logging.CRITICAL)

samples = [(0, 1.0), (1, -2.0), (2, 3.0), (3, 4.0)]

def online(text):
    spec = rtamt.StlDiscreteTimeSpecification()
    spec.declare_var('out', 'float')          # a monitored signal named "out"
    spec.spec = text
    spec.parse()
    return [spec.update(t, [('out', v)]) for t, v in samples]

required = [v - 0.0 for _, v in samples]      # rho(out >= 0, w, t) = w_out(t) - 0
with_head = online('res = (out >= 0);')
without_head = online('out >= 0')

print('required (rho(out>=0) = out - 0):', required)
print("with head    'res = (out >= 0);' :", with_head)
print("without head 'out >= 0'          :", without_head)

bad = (without_head != required) or (with_head != without_head)

# dense time: the same pair of spellings; the head-less one does not even evaluate
def dense(text):
    spec = rtamt.StlDenseTimeSpecification()
    spec.declare_var('out', 'float')
    spec.spec = text
    spec.parse()
    return spec.evaluate(['out', [[t, v] for t, v in samples]])
try:
    d1 = dense('res = (out >= 0);')
except Exception as e:
    d1 = 'EXCEPTION %r' % (e,)
try:
    d2 = dense('out >= 0')
except Exception as e:
    d2 = 'EXCEPTION %r' % (e,)
print("dense with head    :", d1)
print("dense without head :", d2)
bad = bad or (d1 != d2)

if bad:
    print('VIOLATION: omitting the assertion head changed the result')
    sys.exit(1)
print('ok')
