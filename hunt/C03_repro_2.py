# C03 reproducer 2
# pastify() turns next / s_next into a delay of "one sampling period" of its siblings, but it
# writes that delay as a duration (once[1,1] in the default unit), computed from the sampling
# period that is configured AT THE MOMENT pastify() is called.  The sampling period is otherwise
# only read at the first update() (bounds are converted to samples there), so
#     parse(); pastify(); set_sampling_period(500, 'ms'); update()...
# is accepted silently, and the sibling of next is delayed by 2 samples instead of 1.
# (The same calls with set_sampling_period before pastify(), or without pastify() for a
#  past-only formula, work.)
import sys
import logging
logging.disable(logging.CRITICAL)
import rtamt

TEXT = 'out = next(x>=0) and (y>=0)'      # horizon: 1 sample
H = 1
X = [3.0, -1.0, 4.0, -2.0, 5.0, 1.0, -3.0, 2.0]
Y = [1.0, 6.0, -2.0, 3.0, -4.0, 2.0, 5.0, -1.0]
T = [0.5 * i for i in range(len(X))]       # sampled every 500 ms


def make(cls):
    s = cls()
    s.declare_var('x', 'float')
    s.declare_var('y', 'float')
    s.spec = TEXT
    return s


# required: offline robustness of the original spec at sample i-1 on the trace 0..i
required = {}
for i in range(H, len(X)):
    off = make(rtamt.StlDiscreteTimeOfflineSpecification)
    off.set_sampling_period(500, 'ms')
    off.parse()
    r = off.evaluate({'time': T[:i + 1], 'x': X[:i + 1], 'y': Y[:i + 1]})
    required[i] = r[i - H][1]
# by hand: min(x[i]-0, y[i-1]-0)
assert all(required[i] == min(X[i], Y[i - 1]) for i in required)

on = make(rtamt.StlDiscreteTimeOnlineSpecification)
on.parse()
on.pastify()
on.set_sampling_period(500, 'ms')          # configured after pastify(), before the first update()
got = {}
for i in range(len(X)):
    got[i] = on.update(T[i], [('x', X[i]), ('y', Y[i])])

# control: same thing, period configured before pastify()
ctl = make(rtamt.StlDiscreteTimeOnlineSpecification)
ctl.set_sampling_period(500, 'ms')
ctl.parse()
ctl.pastify()
control = {}
for i in range(len(X)):
    control[i] = ctl.update(T[i], [('x', X[i]), ('y', Y[i])])

print('spec               :', TEXT, ' sampling period 500 ms, h = 1 sample')
print('pastified          :', on.spec_print().strip())
print('required (i>=1)    :', [required[i] for i in sorted(required)])
print('library            :', [got[i] for i in sorted(required)])
print('control (period set before pastify):', [control[i] for i in sorted(required)])

if any(got[i] != required[i] for i in required):
    print('VIOLATION: the sibling of next is delayed by 2 samples instead of 1')
    sys.exit(1)
print('no violation')
