#!/usr/bin/env python
# C17 reproducer 3: the two classes the README documents ("StlDiscreteTimeSpecification /
# StlDenseTimeSpecification ... Both classes implement online and offline monitors: update / evaluate")
# crash with AttributeError as soon as ONE object is used both ways:
#   evaluate() then update()/reset(), or update() then evaluate().
# Cause: a single flag `set_ast_flag` is shared by the offline and the online interpreter, so the
# second interpreter never receives the AST.
#
# run:  cd /tmp/hunt/C17 && PYTHONPATH=/tmp/hunt/C17 /venv/bin/python /tmp/hunt/C17_repro_3.py
import sys
import logging
import rtamt

logging.disable(logging.CRITICAL)
bad = False


def attempt(name, fn):
    global bad
    try:
        print('%-46s returned %s' % (name, fn()))
    except rtamt.RTAMTException as e:
        print('%-46s clean rejection: %s' % (name, e))
    except Exception as e:
        print('%-46s CRASH %s: %s' % (name, type(e).__name__, e))
        bad = True


def disc():
    s = rtamt.StlDiscreteTimeSpecification()
    s.declare_var('a', 'float')
    s.spec = 'out = once[0,1](a>=2)'
    s.parse()
    return s


def dense():
    s = rtamt.StlDenseTimeSpecification()
    s.declare_var('a', 'float')
    s.spec = 'out = once[0,1](a>=2)'
    s.parse()
    return s


print('required: every call returns normally (offline: [[0,-1],[1,1]]; online first sample: -1)')

s = disc()
attempt('discrete: evaluate()', lambda: s.evaluate({'time': [0, 1], 'a': [1.0, 3.0]}))
attempt('discrete: then update() on the same object', lambda: s.update(0, [('a', 1.0)]))
attempt('discrete: then reset() on the same object', lambda: s.reset())

s = disc()
attempt('discrete: update()', lambda: s.update(0, [('a', 1.0)]))
attempt('discrete: then evaluate() on the same object', lambda: s.evaluate({'time': [0, 1], 'a': [1.0, 3.0]}))

s = dense()
attempt('dense: evaluate()', lambda: s.evaluate(['a', [[0, 1.0], [1, 3.0]]]))
attempt('dense: then update() on the same object', lambda: s.update(['a', [[0, 1.0], [1, 3.0]]]))

s = dense()
attempt('dense: update()', lambda: s.update(['a', [[0, 1.0], [1, 3.0]]]))
attempt('dense: then evaluate() on the same object', lambda: s.evaluate(['a', [[0, 1.0], [1, 3.0]]]))

sys.exit(1 if bad else 0)
