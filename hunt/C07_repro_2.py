# C07 repro 2: dense-time offline, bounded future operator whose window lies beyond the end of the signal.
# README:  rho(eventually[a,b] phi, w, t) = -inf  if t+a >= |w|     (nothing in the window: violated)
#          rho(always[a,b] phi, w, t)     = +inf  if t+a >= |w|     (nothing in the window: satisfied)
#          rho(phi until[a,b] psi, w, t)  = -inf  if t+a >= |w|
# The discrete-time monitor follows this.  The dense-time monitor silently prolongs the last sample
# for ever and reports a finite value of the opposite sign.
import sys, logging
logging.disable(logging.CRITICAL)
import rtamt

T = list(range(11))
X = [-1.0] * 8 + [1.0, 1.0, 2.0]          # signal defined on [0, 10]
xs = [[t, v] for t, v in zip(T, X)]

def mk(cls, formula):
    s = cls()
    s.declare_var('x', 'float')
    s.spec = 'out = ' + formula
    s.parse()
    return s

cases = [('eventually[20,30] (x >= 0)', -float('inf')),
         ('always[20,30] (x <= 0)', float('inf')),
         ('(x <= 5) until[20,30] (x >= 0)', -float('inf'))]
bad = False
for formula, required in cases:
    d = mk(rtamt.StlDiscreteTimeSpecification, formula).evaluate({'time': T, 'x': X})[0][1]
    e = mk(rtamt.StlDenseTimeSpecification, formula).evaluate(['x', xs])
    print(formula, ' (signal ends at t = 10, window at t = 0 is [20,30])')
    print('   required at t=0 (README):', required)
    print('   discrete-time offline at t=0 :', d)
    print('   dense-time offline           :', e)
    v = e[0][1]
    if (required > 0) != (v > 0):
        bad = True
if bad:
    print('VIOLATION: sign of the dense-time value contradicts the README verdict (and the discrete-time monitor)')
    sys.exit(1)
