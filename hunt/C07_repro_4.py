# C07 repro 4 (probably the same family as the known "past operator above a future operator"):
# rise / fall above a bounded-future operator, discrete-time online monitor after pastify().
# README: rho(rise(phi), w, 0) = rho(phi, w, 0).   With x = 1 everywhere, always[0,1](x>=0) has rho 1 at t=0,
# so rise(always[0,1](x >= 0)) is satisfied at t = 0 with rho = 1 (the offline monitor says so).
# The online monitor (delay 1) reports -1 for t = 0: rise compares with the warm-up output of step 0.
import sys, logging
logging.disable(logging.CRITICAL)
import rtamt

def mk():
    s = rtamt.StlDiscreteTimeSpecification()
    s.declare_var('x', 'float')
    s.spec = 'out = rise(always[0,1] (x >= 0))'
    s.parse()
    return s

X = [1.0, 1.0, 1.0, 1.0]
off = mk().evaluate({'time': [0, 1, 2, 3], 'x': X})
m = mk(); m.pastify()
on = [m.update(t, [('x', X[t])]) for t in range(4)]
print('rise(always[0,1] (x >= 0)), x = 1 everywhere; the online output of step i is the verdict for t = i-1')
print('   required at t=0 (README): +1.0 (satisfied)')
print('   offline            :', off)
print('   online (pastified) :', on, ' -> verdict for t=0 is', on[1])
if on[1] < 0 < off[0][1]:
    print('VIOLATION: online monitor reports a strictly negative value for t=0 although the formula is satisfied')
    sys.exit(1)
