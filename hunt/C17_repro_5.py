#!/usr/bin/env python
# C17 reproducer 5: the public method final_update() of every online specification object always
# crashes with AttributeError - the specification forwards to `online_interpreter.final_update`, but the
# dense-time interpreter calls its method `update_final` and the discrete-time one has none.
#
# run:  cd /tmp/hunt/C17 && PYTHONPATH=/tmp/hunt/C17 /venv/bin/python /tmp/hunt/C17_repro_5.py
import sys
import logging
import rtamt

logging.disable(logging.CRITICAL)
bad = False
print('required: final_update() returns the last piece of the robustness signal, or an RTAMTException')
for name, cls, first, last in [
        ('dense-time online', rtamt.StlDenseTimeOnlineSpecification,
         lambda s: s.update(['a', [[0, 1.0], [1, 3.0]]]), lambda s: s.final_update(['a', [[2, 3.0], [3, 0.0]]])),
        ('discrete-time online', rtamt.StlDiscreteTimeOnlineSpecification,
         lambda s: s.update(0, [('a', 1.0)]), lambda s: s.final_update(1, [('a', 3.0)]))]:
    s = cls()
    s.declare_var('a', 'float')
    s.spec = 'out = historically[0,1](a>=2)'
    s.parse()
    print(name, 'update() returned', first(s))
    try:
        print(name, 'final_update() returned', last(s))
    except rtamt.RTAMTException as e:
        print(name, 'final_update() clean rejection:', e)
    except Exception as e:
        print(name, 'final_update() CRASH %s: %s' % (type(e).__name__, e))
        bad = True
sys.exit(1 if bad else 0)
