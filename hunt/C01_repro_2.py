# iff / xor / == (and arithmetic) over two operands that are both +inf or both -inf
# (bounded future operators whose window lies after the trace, weak prev/next at the
# boundary) give NaN, and NaN then travels through min/max in an order-dependent way.
# Run: cd /tmp/hunt/C01 && PYTHONPATH=/tmp/hunt/C01 /venv/bin/python /tmp/hunt/C01_repro_2.py
import logging, sys, math
logging.disable(logging.CRITICAL)
import rtamt

data = {'time': [0, 1, 2, 3], 'x': [1.0, -2.0, 3.0, 0.5], 'y': [0.5, 1.0, -1.0, 2.0]}

def run(text):
    s = rtamt.StlDiscreteTimeOfflineSpecification()
    s.declare_var('x', 'float'); s.declare_var('y', 'float')
    s.spec = text; s.parse()
    return [v for _, v in s.evaluate(data)]

bad = False
for text, why in [
    ('out = (eventually[1,2](x>0)) <-> (eventually[1,2](y>0))', 'last sample: both operands are -inf (t+a >= |w|)'),
    ('out = (always[1,2](x>0)) xor (always[1,2](y>0))',         'last sample: both operands are +inf'),
    ('out = (prev (x>0)) <-> (prev (y>0))',                     'first sample: both operands are +inf (weak prev)'),
    ('out = always((prev (x>0)) <-> (prev (y>0)))',             'NaN of sample 0 reaches the result of always ...'),
    ('out = historically((prev (x>0)) <-> (prev (y>0)))',       '... but is dropped by historically after sample 0'),
]:
    r = run(text)
    print(text); print('   ', why); print('    library:', r)
    if any(math.isnan(v) for v in r):
        bad = True
print('required: every value is an element of the reals extended with +inf/-inf (README); NaN is none of them')
sys.exit(1 if bad else 0)
