# C19 violation: sampling period 100 ms with the default unit 's' (time stamps 0.0, 0.1, 0.2, ...).
# Bounds are exact multiples of the period, the signal is a step signal on the grid, and yet the
# dense-time monitor disagrees with the discrete-time monitor at sampling instants, because the
# dense-time algorithms add/subtract the (float) bounds to/from the (float) time stamps and compare
# the results exactly (0.4 - 0.1 = 0.30000000000000004 > 0.3, 0.1 + 0.2 = 0.30000000000000004 > 0.3 ...).
import sys
import rtamt

x = [0.0, 1.0, 2.0, 3.0, 4.0, 5.0, 6.0, 7.0, 8.0, 9.0]
times = [k / 10 for k in range(len(x))]          # 0.0, 0.1, ..., 0.9 as a user would type them / read from CSV

def dense(text):
    spec = rtamt.StlDenseTimeSpecification()
    spec.declare_var('x', 'float')
    spec.declare_var('out', 'float')
    spec.unit = 's'
    spec.spec = text
    spec.parse()
    return spec.evaluate(['x', [[t, v] for t, v in zip(times, x)]])

def discrete(text):
    spec = rtamt.StlDiscreteTimeSpecification()
    spec.declare_var('x', 'float')
    spec.declare_var('out', 'float')
    spec.unit = 's'
    spec.set_sampling_period(100, 'ms', 0.1)
    spec.spec = text
    spec.parse()
    return spec.evaluate({'time': times, 'x': x})

def at(sig, t):
    v = None
    for s in sig:
        if s[0] <= t:
            v = s[1]
    return v

bad = False
# (text, horizon in samples, brute-force definition on samples)
cases = [
    ('out = always[0.1,0.1](x)',        1, lambda k: x[k + 1]),
    ('out = eventually[100ms,100ms](x)', 1, lambda k: x[k + 1]),
    ('out = once[0.1,0.1](x)',          0, lambda k: x[k - 1] if k >= 1 else -float('inf')),
    ('out = historically[0.2,0.2](x)',  0, lambda k: x[k - 2] if k >= 2 else float('inf')),
    ('out = eventually[0.1,0.3](x)',    3, lambda k: max(x[k + 1:k + 4])),
]
for text, h, ref in cases:
    rd = dense(text)
    rx = discrete(text)
    for k in range(len(x)):
        if k + h < len(x):
            required = ref(k)
            assert rx[k][1] == required          # the discrete-time monitor follows the definition
            got = at(rd, times[k])
            if got != required:
                bad = True
                print('%-36s t=%.1f  required (= discrete-time) %r   dense-time returns %r' % (text, times[k], required, got))
    print('    dense output:', rd)
sys.exit(1 if bad else 0)
