# C07 repro 1: dense-time until / since demand phi at the witness point.
# README:  rho(phi until psi, w, t) = max_{t' >= t} min(rho(psi,t'), min_{t'' in [t,t')} rho(phi,t''))
#          rho(phi since psi, w, t) = max_{t' <= t} min(rho(psi,t'), min_{t'' in (t',t]} rho(phi,t''))
# With psi true and phi false at t, t' = t is a witness (the phi-range is empty):
# the formula is SATISFIED at t and the robustness is rho(psi,t) > 0.
# The discrete-time monitors agree with the README; the dense-time monitors report a negative value.
import sys, logging
logging.disable(logging.CRITICAL)
import rtamt

T = [0, 1, 2, 3]
X = [-1.0, -1.0, -1.0, -1.0]   # phi = (x >= 0) is false everywhere, rho = -1
Y = [1.0, 1.0, 1.0, 1.0]       # psi = (y >= 0) is true everywhere,  rho = +1
xs = [[t, v] for t, v in zip(T, X)]
ys = [[t, v] for t, v in zip(T, Y)]

def dense(formula):
    s = rtamt.StlDenseTimeSpecification()
    s.declare_var('x', 'float'); s.declare_var('y', 'float')
    s.spec = 'out = ' + formula
    s.parse()
    return s

def discrete(formula):
    s = rtamt.StlDiscreteTimeSpecification()
    s.declare_var('x', 'float'); s.declare_var('y', 'float')
    s.spec = 'out = ' + formula
    s.parse()
    return s

bad = False
for formula in ['(x >= 0) until (y >= 0)', '(x >= 0) until[0,1] (y >= 0)',
                '(x >= 0) since (y >= 0)', '(x >= 0) since[0,1] (y >= 0)']:
    required = 1.0   # README value at t = 0 (until) / at every t (since); formula satisfied
    d_off = discrete(formula).evaluate({'time': T, 'x': X, 'y': Y})
    e_off = dense(formula).evaluate(['x', xs], ['y', ys])
    print(formula)
    print('   required at t=0 (README, Boolean: satisfied): rho = +1.0')
    print('   discrete-time offline :', d_off)
    print('   dense-time    offline :', e_off)
    if e_off[0][1] < 0:
        bad = True
    if 'since' in formula:
        m = dense(formula)
        e_on = [m.update(['x', xs[:2]], ['y', ys[:2]]), m.update(['x', xs[2:]], ['y', ys[2:]])]
        m = discrete(formula)
        d_on = [m.update(t, [('x', X[t]), ('y', Y[t])]) for t in T]
        print('   discrete-time online  :', d_on)
        print('   dense-time    online  :', e_on)
        if e_on[0] and e_on[0][0][1] < 0:
            bad = True
if bad:
    print('VIOLATION: dense-time monitor reports a strictly negative value although the formula is satisfied')
    sys.exit(1)
