# (b) / C17: the public final_update() of every online monitor crashes with AttributeError (the specification calls
# online_interpreter.final_update, the dense interpreter defines update_final; the discrete one has neither); calling the
# interpreter method directly fails too: PredicateOperation.update_final(node, l, r) is called with (l, r).
import sys, logging, rtamt
logging.disable(logging.CRITICAL)
from rtamt.semantics.enumerations.options import Semantics
bad = 0
for sem in (Semantics.STANDARD, Semantics.OUTPUT_ROBUSTNESS):
    s = rtamt.StlDenseTimeSpecification(semantics=sem)
    s.declare_var('a', 'float'); s.set_var_io_type('a', 'input'); s.spec = 'out = once[0,1](a >= 1)'; s.parse()
    s.update(['a', [[0, 3], [1, 0], [2, 0]]])
    for what, call in (('spec.final_update', lambda: s.final_update(['a', [[3, 3], [4, 0]]])),
                       ('interpreter.update_final', lambda: s.online_interpreter.update_final([['a', [[3, 3], [4, 0]]]]))):
        try:
            print(sem, what, 'required: a result or RTAMTException | observed:', call())
        except rtamt.RTAMTException as e:
            print(sem, what, 'rejected cleanly')
        except Exception as e:
            bad = 1; print(sem, what, 'required: a result or RTAMTException | observed:', type(e).__name__, e)
sys.exit(bad)
