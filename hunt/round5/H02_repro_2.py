# C17/C05 (borderline): a dense-time online update() that carries no samples for one variable is accepted
# (the variable simply gets no new samples) - except in the FIRST update after construction or reset(),
# where the variable still holds its declaration default float() and update() dies with TypeError.
import sys, logging, rtamt
logging.disable(logging.CRITICAL)
def mk():
    s = rtamt.StlDenseTimeOnlineSpecification()
    s.declare_var('x', 'float'); s.declare_var('y', 'float')
    s.spec = 'out = once[0,1](x > 0) or (y > 0)'; s.parse(); return s
ref = mk()
required = [ref.update(['x', [[0, 1], [1, -2]]], ['y', []]), ref.update(['y', [[0, -5], [1, 4]]])]
s = mk(); bad = 0
try:
    observed = [s.update(['x', [[0, 1], [1, -2]]]), s.update(['y', [[0, -5], [1, 4]]])]
except Exception as e:
    observed = repr(e); bad = 1
print('required', required); print('observed', observed)
s = mk(); s.update(['x', [[0, 1]]], ['y', [[0, 1]]]); s.update(['x', [[1, 1]]])   # later updates may omit y
s.reset()
try: s.update(['x', [[0, 1]]]); print('after reset: ok')
except TypeError as e: print('after reset: TypeError', e); bad = 1
sys.exit(bad)
