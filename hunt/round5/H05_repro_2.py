# (b) borderline: a strict predicate at robustness 0 is violated under the Boolean semantics, but explain() only explains
# rho < 0 (rtamt/explanation/stl/discrete_time/explainer.py:24 `if top_signal[0] < 0`), so nothing is reported and the
# empty explanation is not a sufficient cause (x=[5] coincides on all reported positions and satisfies the spec).
import logging, sys; logging.disable(logging.CRITICAL)
import rtamt
s = rtamt.StlDiscreteTimeOfflineSpecification()
s.declare_var('x', 'float'); s.spec = 'always(x > 0)'; s.parse()
out = s.evaluate({'time': [0, 1], 'x': [3, 0]})
s.explain()
ex = s.explainer.explanations.get('x', [])
print('rho(0) =', out[0][1], ' Boolean verdict: violated (x(1)=0 is not > 0)')
print('required: x reported at sample 1; observed:', ex)
sys.exit(0 if ex == [[1, 1]] else 1)
