# (b) / C17: the IA-STL factory rtamt.spec.iastl.discrete_time.specification.IASTLDiscreteTimeSpecification crashes for
# every non-standard semantics (TypeError / UnboundLocalError) instead of returning a monitor or raising RTAMTException.
import sys, logging, rtamt
logging.disable(logging.CRITICAL)
from rtamt.semantics.enumerations.options import Semantics
from rtamt.spec.iastl.discrete_time.specification import IASTLDiscreteTimeSpecification
bad = 0
for sem in Semantics:
    try:
        s = IASTLDiscreteTimeSpecification(semantics=sem)
        s.declare_var('a', 'float'); s.set_var_io_type('a', 'input'); s.spec = 'out = (a >= 1)'; s.parse()
        print(sem, 'required: a monitor or RTAMTException | observed: update ->', s.update(0, [('a', 3)]))
    except rtamt.RTAMTException as e:
        print(sem, 'rejected cleanly')
    except Exception as e:
        bad = 1
        print(sem, 'required: a monitor or RTAMTException | observed:', type(e).__name__, e)
sys.exit(bad)
