# (b) C11, low priority: for a specification that is a bare variable the dense-time offline evaluate()
# returns the caller's own list object (and get_value() of both monitors hands out the caller's lists):
# a result obtained earlier changes when the caller later edits its input data.
import sys, copy, logging, rtamt
logging.disable(logging.CRITICAL)
s = rtamt.StlDenseTimeOfflineSpecification()
s.declare_var('a', 'float')
s.spec = 'out = a'
s.parse()
a = [[0, 1.0], [1, -2.0], [2, 3.0]]
res = s.evaluate(['a', a])
required = copy.deepcopy(res)
a[1][1] = 99.0; a.append([3, 7.0])          # the caller goes on using its own list
print('required (result as returned):', required)
print('observed (same result later) :', res, '| result is the input object:', res is a)
sys.exit(1 if res != required else 0)
