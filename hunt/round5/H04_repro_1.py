# C06 / C07 / C19: dense-time IA-STL monitors take the satisfaction of an insensitive predicate from the sign of the
# float difference left-right instead of comparing the operands: inf-inf = nan (and 2**53+1 - 2.0**53 = 0.0) => "violated".
import sys, logging, rtamt
logging.disable(logging.CRITICAL)
from rtamt.semantics.enumerations.options import Semantics
INF = float('inf')
def mk(cls, text):
    s = cls(semantics=Semantics.OUTPUT_ROBUSTNESS)
    for v in 'ab': s.declare_var(v, 'float'); s.set_var_io_type(v, 'input')
    s.spec = text; s.parse(); return s
bad = 0
for text, A, B in [('out = (a >= b)', [INF, 1.0, 1.0], [INF, 0.0, 0.0]),          # inf >= inf holds
                   ('out = (a <= b)', [-INF, 1.0, 1.0], [-INF, 2.0, 2.0]),
                   ('out = (a > b)', [2**53 + 1, 1, 1], [2.0**53, 0.0, 0.0]),      # 2**53+1 > 2.0**53 holds (exact in Python)
                   ('out = ((a >= 0) >= (b >= 0))', [1.0, 1.0, 1.0], [1.0, 1.0, 1.0])]:  # no infinite data needed
    required = INF   # predicate mentions no output variable and holds at time 0  =>  +inf (C06); sign must be sound (C07)
    disc = mk(rtamt.StlDiscreteTimeSpecification, text).evaluate({'time': [0, 1, 2], 'a': list(A), 'b': list(B)})[0][1]
    sig = lambda X: [[float(t), X[t]] for t in range(3)]
    doff = mk(rtamt.StlDenseTimeSpecification, text).evaluate(['a', sig(A)], ['b', sig(B)])[0][1]
    don = mk(rtamt.StlDenseTimeSpecification, text).update(['a', sig(A)], ['b', sig(B)])[0][1]
    print('%-32s required %s | discrete %s | dense offline %s | dense online %s' % (text, required, disc, doff, don))
    bad |= (doff != required or don != required)
sys.exit(1 if bad else 0)
