# C10 / C08 (same cause as repro_2, silent): on the combined class an evaluate() between set_sampling_period() and
# the next update() consumes the "build the operators again" flag: the online monitor keeps the operators of the old period
import rtamt, logging, sys
logging.disable(logging.CRITICAL)
A = [5, 0, 0, 0, 0, 0, 0, 0]
def fresh(p):
    s = rtamt.StlDiscreteTimeSpecification(); s.set_sampling_period(p, 's')
    s.spec = 'out = once[0,4](a>=2)'; s.parse(); return s
def run(s): return [s.update(2 * i, [('a', v)]) for i, v in enumerate(A)]
required = run(fresh(2))                       # period 2 s: the window is 2 samples
s = fresh(1)
s.update(0, [('a', 0)])                        # operators built for period 1 s (window 4 samples)
s.set_sampling_period(2, 's')                  # promises to build them again
s.evaluate({'time': [0, 2], 'a': [1, 1]})      # ... but evaluate() sets set_ast_flag for the offline interpreter only
s.reset()
observed = run(s)
print('required:', required)
print('observed:', observed)
sys.exit(0 if observed == required else 1)
