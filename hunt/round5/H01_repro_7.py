# C10 / C13: combined class: sampling_violation_counter is the SUM of the offline and the online counter, and reset()
# restarts only the online one: after an evaluate() of jittery data the counter never returns to 0
import rtamt, logging, sys
logging.disable(logging.CRITICAL)
s = rtamt.StlDiscreteTimeSpecification(); s.spec = 'out = once[0,2](a>=2)'; s.parse()
s.evaluate({'time': [0, 1, 5, 6], 'a': [1, 1, 1, 1]})          # one gap out of tolerance
s.set_sampling_period(1, 's', 0.1)                             # (lets update() build the online operators, see repro_2)
s.reset()
after_reset = s.sampling_violation_counter
for i in range(3):
    s.update(i, [('a', 1)])                                    # perfectly periodic
observed = s.sampling_violation_counter
print('required: 0 after reset() and 0 after three periodic updates')
print('observed:', after_reset, 'after reset(),', observed, 'after the updates')
sys.exit(0 if (after_reset, observed) == (0, 0) else 1)
