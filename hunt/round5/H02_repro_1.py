# C12/C11: get_value(v) of a declared variable that no formula reads must be the data supplied in THIS
# evaluate()/update(); a call that supplies none must behave like a fresh specification (KeyError),
# not return the data of an earlier call (3 values for a 2-sample evaluation).
import sys, logging, rtamt
logging.disable(logging.CRITICAL)
def mk(cls):
    s = cls(); s.declare_var('x', 'float'); s.declare_var('z', 'float')
    s.spec = 'out = once(x > 0)'; s.parse(); return s
def gv(s):
    try: return s.get_value('z')
    except KeyError: return 'KeyError'
bad = 0
s = mk(rtamt.StlDiscreteTimeOfflineSpecification)
s.evaluate({'time': [0, 1, 2], 'x': [1, 2, 3], 'z': [7, 8, 9]})
s.evaluate({'time': [0, 1], 'x': [1, 2]})                       # z is not read: it may be left out (C17)
f = mk(rtamt.StlDiscreteTimeOfflineSpecification); f.evaluate({'time': [0, 1], 'x': [1, 2]})
print('discrete offline: required', gv(f), 'observed', gv(s)); bad += gv(s) != gv(f)
s = mk(rtamt.StlDenseTimeOfflineSpecification)
s.evaluate(['x', [[0, 1], [2, 3]]], ['z', [[0, 7], [2, 9]]]); s.evaluate(['x', [[0, 1], [1, 2]]])
f = mk(rtamt.StlDenseTimeOfflineSpecification); f.evaluate(['x', [[0, 1], [1, 2]]])
print('dense offline:    required', gv(f), 'observed', gv(s)); bad += gv(s) != gv(f)
s = mk(rtamt.StlDenseTimeOnlineSpecification)
s.update(['x', [[0, 1], [1, 3]]], ['z', [[0, 7], [1, 9]]]); s.update(['x', [[2, 1]]])
print('dense online:     required [] (as get_value(x) gives for a read variable that got no samples) observed', gv(s))
bad += gv(s) != []
sys.exit(1 if bad else 0)
