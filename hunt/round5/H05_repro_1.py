# (b) combined class rtamt.StlDiscreteTimeSpecification: reset() (or update()) before evaluate(), or evaluate() before
# update()/reset(), crashes with AttributeError: offline and online interpreter share one set_ast_flag
# (rtamt/spec/abstract_specification.py:290-292 and :326-328/:362-364), so the second interpreter never gets its ast.
import logging, sys; logging.disable(logging.CRITICAL)
import rtamt
def mk():
    s = rtamt.StlDiscreteTimeSpecification()
    s.declare_var('x', 'float'); s.spec = 'historically(x>0)'; s.parse(); return s
d = {'time': [0, 1, 2], 'x': [1, -1, 2]}
bad = 0
for name, f in [('reset() then evaluate()', lambda s: (s.reset(), s.evaluate(d))[1]),
                ('evaluate() then explain() then update()', lambda s: (s.evaluate(d), s.explain(), s.update(0, [('x', 1)]))[2])]:
    try:
        print(name, 'required: a result (C10: reset before first use is harmless; C17: no crash) observed:', f(mk()))
    except rtamt.RTAMTException as e:
        print(name, 'clean rejection:', e)
    except Exception as e:
        bad = 1; print(name, 'required: result or RTAMTException; observed:', type(e).__name__, e)
sys.exit(bad)
