# C09: add_sub_spec() cannot be combined with a specification text that starts with declarations (or a name):
# parse() puts the sub-specifications IN FRONT of the text, and the grammar wants declarations before assertions
import rtamt, logging, sys
logging.disable(logging.CRITICAL)
data = {'time': [0, 1, 2], 'a': [1, 5, 2]}
inl = rtamt.StlDiscreteTimeSpecification()
inl.spec = 'const float k = 3  float a  out = (a>=1) and a<=k'          # inlined form: accepted
inl.parse()
required = inl.evaluate(data)
s = rtamt.StlDiscreteTimeSpecification()
s.add_sub_spec('p = a>=1;')
s.spec = 'const float k = 3  float a  out = p and a<=k'
try:
    s.parse()
    observed = s.evaluate(data)
except Exception as e:
    observed = repr(e)
print('required:', required)
print('observed:', observed)
sys.exit(0 if observed == required else 1)
