# (b) low priority: discrete-time ONLINE ln() writes every result to stdout (stray debug print)
import sys, io, logging, contextlib
sys.path.insert(0, '/tmp/hunt5/H08')
import rtamt
logging.disable(logging.CRITICAL)
s = rtamt.StlDiscreteTimeSpecification()
s.declare_var('a', 'float')
s.spec = 'out = ln(a) >= 0'
s.parse()
buf = io.StringIO()
with contextlib.redirect_stdout(buf):
    r = [s.update(t, [('a', v)]) for t, v in enumerate([1.0, 2.0, 4.0])]
print('results :', r)
print('required: update() writes nothing to stdout')
print('observed: %r' % buf.getvalue())
sys.exit(1 if buf.getvalue() else 0)
