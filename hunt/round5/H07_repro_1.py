# C03/C08: pastify() must not change the meaning of a past specification, and bounds written with explicit
# units must not depend on the default unit.  After pastify() they do: pastify() rewrites [0ms,2000ms] as the
# unit-less [0,2] of the default unit in force (s); a later spec.unit = 'ms' turns it into 2 ms.
import sys, logging, rtamt
logging.disable(logging.CRITICAL)
def run(pastify):
    s = rtamt.StlDiscreteTimeSpecification()
    s.declare_var('a', 'float')
    s.set_sampling_period(1, 'ms', 0.1)
    s.spec = 'out = once[0ms,2000ms] (a >= 0)'           # explicit units: the last 2001 samples
    s.parse()
    if pastify: s.pastify()
    s.unit = 'ms'                                        # the time stamps below are milliseconds
    out = [s.update(i, [('a', v)]) for i, v in enumerate([9, 1, 1, 1, 1])]
    return out, s.sampling_violation_counter
required = run(False)
observed = run(True)
print('required (no pastify; rho = 9 everywhere):', required)
print('observed (pastify, then spec.unit = ms)  :', observed)
sys.exit(1 if required != observed else 0)
