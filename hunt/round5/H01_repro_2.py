# C17: combined specification class (rtamt.StlDiscreteTimeSpecification / StlDenseTimeSpecification):
# evaluate() and update() share one "interpreter has the ast" flag, so the second kind of call finds no ast
import rtamt, logging, sys
logging.disable(logging.CRITICAL)
def fresh():
    s = rtamt.StlDiscreteTimeSpecification(); s.spec = 'out = once[0,1](a>=2)'; s.parse(); return s
A = [1, 3, 0, 0]
data = {'time': [0, 1, 2, 3], 'a': A}
req_off = fresh().evaluate(data)
f = fresh(); req_on = [f.update(i, [('a', v)]) for i, v in enumerate(A)]
bad = 0
s = fresh()
try:
    obs_off = s.evaluate(data); obs_on = [s.update(i, [('a', v)]) for i, v in enumerate(A)]
except Exception as e:
    obs_on = repr(e); bad = 1
print('evaluate() then update(): required', req_on, 'observed', obs_on)
s = fresh()
try:
    obs_on = [s.update(i, [('a', v)]) for i, v in enumerate(A)]; obs_off = s.evaluate(data)
except Exception as e:
    obs_off = repr(e); bad = 1
print('update() then evaluate(): required', req_off, 'observed', obs_off)
sys.exit(bad)
