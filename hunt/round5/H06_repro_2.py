# C01/C07: int samples INSIDE the float range (10**200 < 1.8e308): exp(-(x*x)) <= 1 holds (e^-1e400 = 0),
# the float sample 1e200 gives rho = 1.0, the equal int sample gives -inf (strictly negative although satisfied).
import sys, logging; logging.disable(logging.CRITICAL)
import rtamt
def run(xv, kind):
    s = rtamt.StlDiscreteTimeOfflineSpecification() if kind == 'off' else rtamt.StlDiscreteTimeOnlineSpecification()
    s.declare_var('x', 'int'); s.spec = 'out = exp(-(x * x)) <= 1'; s.parse()
    if kind == 'off': return s.evaluate({'time': [0], 'x': [xv]})[0][1]
    return s.update(0, [('x', xv)])
bad = False
for kind in ('off', 'on'):
    req, got = run(1e200, kind), run(10**200, kind)
    print(kind, 'required (float sample 1e200):', req, ' observed (int sample 10**200):', got)
    bad |= (got != req)
sys.exit(1 if bad else 0)
