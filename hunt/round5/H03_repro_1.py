# C11/C05: the dense-time online monitor keeps references to the caller's [t, v] pairs between updates.
# A caller that refills a preallocated buffer for every update() gets other results than with fresh lists.
import sys, copy, logging, rtamt
logging.disable(logging.CRITICAL)
def mk():
    s = rtamt.StlDenseTimeOnlineSpecification()
    s.declare_var('b', 'float')
    s.spec = 'out = (b >= 2)'
    s.parse()
    return s
chunks = [[[0, -3.0], [1, -2.0]], [[3, -2.0], [4, 1.0]], [[6, -3.0], [8, 0.0]]]
fresh, reused = [], []
S1, S2 = mk(), mk()
buf = [[0, 0.0], [0, 0.0]]                      # the caller's preallocated buffer
for ch in chunks:
    fresh.append(S1.update(['b', copy.deepcopy(ch)]))
    for p, q in zip(buf, ch):
        p[0], p[1] = q                          # refill the buffer in place
    try:
        reused.append(copy.deepcopy(S2.update(['b', buf])))
    except Exception as e:
        reused.append('%s: %s' % (type(e).__name__, e))
print('required (fresh lists)  :', fresh)
print('observed (buffer reused):', reused)
sys.exit(1 if fresh != reused else 0)
