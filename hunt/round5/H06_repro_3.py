# C17: int samples inside the float range whose exact product leaves it: the predicate subtracts a float constant
# from the exact int and raises OverflowError; the equal float sample gives +inf (saturation of D72 not reached).
import sys, logging; logging.disable(logging.CRITICAL)
import rtamt
def run(xv, kind):
    s = rtamt.StlDiscreteTimeOfflineSpecification() if kind == 'off' else rtamt.StlDiscreteTimeOnlineSpecification()
    s.declare_var('x', 'int'); s.spec = 'out = x * x >= 1'; s.parse()
    try:
        if kind == 'off': return s.evaluate({'time': [0], 'x': [xv]})[0][1]
        return s.update(0, [('x', xv)])
    except Exception as e: return '%s: %s' % (type(e).__name__, e)
bad = False
for kind in ('off', 'on'):
    req, got = run(1e200, kind), run(10**200, kind)
    print(kind, 'required (as for the float sample 1e200):', req, ' observed (int sample 10**200):', got)
    bad |= isinstance(got, str)
sys.exit(1 if bad else 0)
