# C17 (C11): one specification object, spec text changed and parsed again -> the former assertion is still evaluated
import rtamt, logging, sys
logging.disable(logging.CRITICAL)
def fresh(text):
    s = rtamt.StlDiscreteTimeSpecification(); s.spec = text; s.parse(); return s
data = {'time': [0, 1, 2], 'b': [1, 2, 3]}
required = fresh('out = b>=2').evaluate(data)
s = fresh('out = a>=2')
s.spec = 'out = b>=2'
s.parse()                       # ast.specs is now [a>=2, b>=2]; nothing of the first parse is forgotten
try:
    observed = s.evaluate(data)
except Exception as e:
    observed = repr(e)
print('required:', required)
print('observed:', observed, '| assertions kept:', s.spec_print().split())
# the same after an update(): the operators of the first text are kept (set_ast_flag stays True)
o = fresh('out = once[0,1](a>=2)'); o.update(0, [('a', 1)])
o.spec = 'out = once[0,1](b>=2)'; o.parse()
try:
    observed2 = o.update(1, [('b', 3)])
except Exception as e:
    observed2 = repr(e)
print('online required: a number; observed:', observed2)
sys.exit(1 if observed != required or not isinstance(observed2, float) else 0)
