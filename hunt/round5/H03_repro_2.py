# C17/C05: dense-time online: a variable that gets no samples in an update() may simply be left out of
# the call - except in the FIRST update (and the first after reset()), where the call raises TypeError.
import sys, logging, rtamt
logging.disable(logging.CRITICAL)
def mk():
    s = rtamt.StlDenseTimeOnlineSpecification()
    s.declare_var('a', 'float'); s.declare_var('b', 'float')
    s.spec = 'out = (a >= 0) and (b >= 0)'
    s.parse()
    return s
def feed(s, calls):
    out = []
    for c in calls:
        try:
            out.append(s.update(*c))
        except Exception as e:
            out.append('%s: %s' % (type(e).__name__, e))
    return out
explicit = feed(mk(), [(['a', [[0, 1.0]]], ['b', []]), (['a', []], ['b', [[0, 2.0]]]), (['a', [[1, 3.0]]], ['b', []]), (['a', []], ['b', [[1, 4.0]]])])
omitted  = feed(mk(), [(['a', [[0, 1.0]]],),           (['b', [[0, 2.0]]],),           (['a', [[1, 3.0]]],),           (['b', [[1, 4.0]]],)])
print('required (b passed as []) :', explicit)
print('observed (b left out)     :', omitted)
sys.exit(1 if explicit != omitted else 0)
