# C17 (C02): one StlDiscreteTimeSpecification object offers evaluate() and update() (README: "Both classes
# implement online and offline monitors"); using both on one object crashes with AttributeError.
import sys, logging, rtamt
logging.disable(logging.CRITICAL)
def mk():
    s = rtamt.StlDiscreteTimeSpecification()
    s.declare_var('a', 'float')
    s.spec = 'out = once[0,1] (a >= 2)'
    s.parse()
    return s
data = {'time': [0, 1, 2], 'a': [1, 5, 2]}
bad = 0
for order in ('evaluate-then-update', 'update-then-evaluate'):
    s = mk()
    try:
        if order.startswith('evaluate'):
            off = [v for _, v in s.evaluate(data)]; on = [s.update(t, [('a', v)]) for t, v in zip(data['time'], data['a'])]
        else:
            on = [s.update(t, [('a', v)]) for t, v in zip(data['time'], data['a'])]; off = [v for _, v in s.evaluate(data)]
        print(order, ': required [-1, 3, 3] twice; observed', off, on); bad += (off != on)
    except Exception as e:
        print(order, ': required [-1, 3, 3] twice; observed', type(e).__name__, e); bad += 1
sys.exit(1 if bad else 0)
