# (b) low priority: iff / xor of two operands that are both -inf (bounded past operators before their
# window opens) is NaN on finite, well-formed input: -abs((-inf) - (-inf)); same in all four monitors.
import sys, math, logging
sys.path.insert(0, '/tmp/hunt5/H08')
import rtamt
logging.disable(logging.CRITICAL)
s = rtamt.StlDenseTimeSpecification()
s.declare_var('a', 'float'); s.declare_var('b', 'float')
s.spec = 'out = (once[0.5,1](a>=0)) <-> (once[0.5,1](b>=0))'
s.parse()
r = s.evaluate(['a', [[0, 1.0], [1, 1.0], [2, 1.0]]], ['b', [[0, 2.0], [1, 2.0], [2, 2.0]]])
print('required: a robustness value in [-inf, 0] on [0, 0.5) (both sides are equal: -inf), never NaN')
print('observed:', r)
sys.exit(1 if any(math.isnan(v) for _, v in r) else 0)
