# C17: parse() called twice on the SAME text fails when the text declares a constant
import rtamt, logging, sys
logging.disable(logging.CRITICAL)
text = 'const float k = 3  float a  out = a>=k'
data = {'time': [0, 1], 'a': [1, 5]}
s = rtamt.StlDiscreteTimeSpecification(); s.spec = text; s.parse()
required = s.evaluate(data)
t = rtamt.StlDiscreteTimeSpecification(); t.spec = text; t.parse()
try:
    t.parse()
    observed = t.evaluate(data)
except Exception as e:
    observed = repr(e)
print('required:', required)
print('observed:', observed)
sys.exit(0 if observed == required else 1)
