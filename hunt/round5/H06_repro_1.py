# C17 (and C01/C02): finite float samples, a total real expression: exp underflows to 0.0 and the division raises
# ZeroDivisionError, offline and online; the equivalent exp(0 - x) saturates at +inf (repair d15eab7 covers overflow only).
import sys, logging; logging.disable(logging.CRITICAL)
import rtamt
def run(text, kind):
    s = rtamt.StlDiscreteTimeOfflineSpecification() if kind == 'off' else rtamt.StlDiscreteTimeOnlineSpecification()
    s.declare_var('x', 'float'); s.spec = text; s.parse()
    try:
        if kind == 'off': return [v for t, v in s.evaluate({'time': [0, 1], 'x': [-800.0, 0.0]})]
        return [s.update(0, [('x', -800.0)]), s.update(1, [('x', 0.0)])]
    except Exception as e: return '%s: %s' % (type(e).__name__, e)
bad = False
for kind in ('off', 'on'):
    ref = run('out = exp(0 - x) >= 1', kind)          # e^800 >= 1: saturates, [inf, 0.0]
    got = run('out = (1 / exp(x)) >= 1', kind)        # the same real function 1/e^x = e^-x
    got2 = run('out = ln(exp(x)) <= 0', kind)         # ln(e^x) = x = -800 <= 0: rho 800
    print(kind, 'required: values like', ref, '| observed 1/exp(x):', got, '| ln(exp(x)):', got2)
    bad |= isinstance(got, str) or isinstance(got2, str)
sys.exit(1 if bad else 0)
