# C08 / C03: spec.unit set after pastify(): pastify() has rewritten every bound in the former default unit and
# dropped its unit, so a bound written with an explicit unit (2s) is now read in the new default unit (2ms)
import rtamt, logging, sys
logging.disable(logging.CRITICAL)
text = 'out = once[0,2s](a>=2)'          # no future operator: pastify() must not change the meaning
A = [5, 0, 0, 0, 0, 0]
def run(s): return [s.update(i, [('a', v)]) for i, v in enumerate(A)]
f = rtamt.StlDiscreteTimeSpecification(); f.unit = 'ms'; f.set_sampling_period(1, 'ms')
f.spec = text; f.parse(); f.pastify()
required = run(f)                        # window of 2000 samples
s = rtamt.StlDiscreteTimeSpecification(); s.spec = text; s.parse(); s.pastify()
s.unit = 'ms'; s.set_sampling_period(1, 'ms')
observed = run(s)                        # window of 2 samples
n = rtamt.StlDiscreteTimeSpecification(); n.spec = text; n.parse()
n.unit = 'ms'; n.set_sampling_period(1, 'ms')
print('required            :', required)
print('same, no pastify()  :', run(n))
print('observed            :', observed)
sys.exit(0 if observed == required else 1)
