# C09 repro 4 (oddity, outside the letter of the property): a sub-specification that is referenced
# BEFORE the add_sub_spec() that defines it is silently read as a free variable with value 0.0 by the
# discrete-time online monitor (no exception; no warning either when the name was declared with
# declare_var, as the README does for sub-specification names). visitAssertion later removes the name
# from free_vars, so the data set cannot even supply it.
import sys
import rtamt

def online(order):
    s = rtamt.StlDiscreteTimeOnlineSpecification()
    for v in ('x', 'y', 'a', 'b', 'out'):
        s.declare_var(v, 'float')
    subs = {'a': 'a = (x >= 1);', 'b': 'b = a and (y >= 1);'}
    for k in order:
        s.add_sub_spec(subs[k])
    s.spec = 'out = historically(b);'
    s.parse()
    return [s.update(i, [['x', xv], ['y', yv]]) for i, (xv, yv) in enumerate([(3., 5.), (4., 6.), (2., 7.)])]

req = online('ab')      # = historically((x>=1) and (y>=1))
got = online('ba')
print('required (or an error)', req, 'library', got)
sys.exit(1 if req != got else 0)
