"""C18 repro 1: 'p implies q' vs '(not p) or q' differ in pastified online monitors
(discrete-time and dense-time) during the first h outputs (h = horizon of the spec).

The pastifier delays the left operand with once[h,h], which yields -inf until h time
units have passed.  Implies negates AFTER the delay (-(-inf) = +inf, the result is +inf
whatever the right operand is), '(not p) or q' negates BEFORE the delay (-inf, the result
is the right operand).  The property requires identical outputs from the same monitor.
"""
import sys
import rtamt

P = [1.0, -2.0, 3.0, -1.0, 2.0]
Q = [-5.0, 4.0, -3.0, 2.0, -1.0]
LHS = 'out = (p >= 0) implies (eventually[2,2] (q >= 0));'
RHS = 'out = (not (p >= 0)) or (eventually[2,2] (q >= 0));'
bad = False


def disc(txt):
    s = rtamt.StlDiscreteTimeSpecification()
    s.declare_var('p', 'float'); s.declare_var('q', 'float'); s.declare_var('out', 'float')
    s.spec = txt
    s.parse(); s.pastify()
    return [s.update(i, [('p', P[i]), ('q', Q[i])]) for i in range(len(P))]


def dense(txt):
    s = rtamt.StlDenseTimeSpecification()
    s.declare_var('p', 'float'); s.declare_var('q', 'float'); s.declare_var('out', 'float')
    s.spec = txt
    s.parse(); s.pastify()
    p = [[float(i), P[i]] for i in range(len(P))]
    q = [[float(i), Q[i]] for i in range(len(Q))]
    return s.update(['p', p], ['q', q])


for name, f in (('discrete-time online', disc), ('dense-time online', dense)):
    a, b = f(LHS), f(RHS)
    print(name)
    print('  ', LHS, '->', a)
    print('  ', RHS, '->', b)
    print('   required: identical outputs; observed:', 'identical' if a == b else 'DIFFERENT')
    if a != b:
        bad = True
sys.exit(1 if bad else 0)
