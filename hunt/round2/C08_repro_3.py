# The unit suffixes s, ms, us, ns (and ps, which is not even a usable unit) are reserved words:
# a declared signal with such a name cannot be referred to.
import sys, logging
sys.path.insert(0, '/tmp/hunt2/C08')
import rtamt
bad = 0
for name in ('s', 'ms', 'us', 'ns', 'ps'):
    s = rtamt.StlDiscreteTimeOfflineSpecification()
    s.declare_var(name, 'float'); s.declare_var('out', 'float')
    s.spec = 'out = once[0,1s](%s);' % name
    try:
        s.parse()
        print(name, 'ok', s.evaluate({'time': [0, 1, 2], name: [1, 2, 3]}))
    except rtamt.RTAMTException as e:
        print(name, 'required [[0,1],[1,2],[2,3]], observed', str(e)[:80]); bad = 1
sys.exit(bad)
