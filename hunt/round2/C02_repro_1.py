# Oddity: the windows of the bounded operators of a discrete-time online monitor are fixed at the
# first update(); set_sampling_period() afterwards (even followed by reset()) is silently ignored
# by the online monitor, while offline evaluation of the same object configuration honours it.
import sys, logging
sys.path.insert(0, '/tmp/hunt2/C02')
logging.disable(logging.CRITICAL)
import rtamt

X = [1., 3., 2., 0., 5., 1., 1., 0., 2., 2., 7., 1.]
TEXT = 'out = once[0:2s](x)'

on = rtamt.StlDiscreteTimeOnlineSpecification()
on.declare_var('x', 'float')
on.spec = TEXT
on.parse()
on.update(0, [('x', 0.0)])              # one sample with the default period of 1 s
on.set_sampling_period(500, 'ms')       # now sample twice as fast ...
on.reset()                              # ... and start a new run
observed = [on.update(i * 0.5, [('x', X[i])]) for i in range(len(X))]

off = rtamt.StlDiscreteTimeOfflineSpecification()
off.declare_var('x', 'float')
off.spec = TEXT
off.parse()
off.set_sampling_period(500, 'ms')
required = [p[1] for p in off.evaluate({'time': [i * 0.5 for i in range(len(X))], 'x': X})]

print('required (offline, period 500 ms, window of 5 samples):', required)
print('observed (online after set_sampling_period + reset)    :', observed)
print('sampling violations counted online (period really changed for the counter):', on.sampling_violation_counter)
sys.exit(1 if observed != required else 0)
