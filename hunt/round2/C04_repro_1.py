#!/venv/bin/python
# C04 / 1: dense-time offline evaluate() of an assertion that writes to a field of an object-typed variable
# whose other fields the formula reads:  r.verdict = always[0,1](r.a >= 1)
# The parser removes the whole variable 'r' from free_vars (ltl/parser_visitor.py visitAssertion:
# free_vars.discard(id_head)), DenseTimeInterpreter.set_variable_to_ast_from_dataset() then silently drops
# the data supplied for 'r', and visitVariable iterates over the default Obj() instance -> TypeError.
# The discrete-time offline monitor evaluates the same specification.
import sys, os, types, logging
logging.disable(logging.CRITICAL)
sys.path.insert(0, os.environ.get('RTAMT_PATH', '/tmp/hunt2/C04'))
import rtamt

mod = types.ModuleType('c04_objmod')
class Obj(object):
    def __init__(self, a=0.0, verdict=0.0):
        self.a = a
        self.verdict = verdict
mod.Obj = Obj
sys.modules['c04_objmod'] = mod

data = [[0, Obj(1.0)], [2, Obj(3.0)], [5, Obj(0.0)]]
# r.a = 1 on [0,2), 3 on [2,5), 0 from 5 ; always[0,1](r.a >= 1):
required = [(0, 0.0), (0.5, 0.0), (1, 0.0), (1.5, 0.0), (2, 2.0), (3, 2.0), (3.9, 2.0), (4, -1.0), (4.5, -1.0), (5, -1.0)]

def val(samples, t):
    v = None
    for s in samples:
        if s[0] <= t:
            v = s[1]
    return v

def run(text):
    spec = rtamt.StlDenseTimeSpecification()
    spec.import_module('c04_objmod', 'Obj')
    spec.declare_var('r', 'Obj')
    spec.spec = text
    spec.parse()
    return spec.evaluate(['r', data])

bad = False
ref = run('out = always[0,1](r.a >= 1)')          # control: the same formula under a plain name works
print('control  out = always[0,1](r.a >= 1)      ->', ref)
try:
    out = run('r.verdict = always[0,1](r.a >= 1)')
    print('observed r.verdict = always[0,1](r.a >= 1) ->', out)
    for t, e in required:
        if val(out, t) != e:
            print('  at t=%r required %r observed %r' % (t, e, val(out, t)))
            bad = True
except Exception as e:
    print('required: the step function', required)
    print('observed: evaluate() raises', repr(e))
    bad = True
sys.exit(1 if bad else 0)
