#!/venv/bin/python
# C04 / 3: a bound between 1e309 and 1e1000 passes the parser's magnitude check (parser_visitor.py time_bound:
# abs(d.adjusted()) > 1000) and dense-time evaluate() then dies in time_unit_transformer
# (dense_time_interpreter.py:44-45, float(Fraction)) with a bare OverflowError instead of an RTAMTException
# at parse time.  A bound of 1e300 is evaluated correctly.
import sys, os, logging
logging.disable(logging.CRITICAL)
sys.path.insert(0, os.environ.get('RTAMT_PATH', '/tmp/hunt2/C04'))
import rtamt
x = [[0, 1], [1, 4], [3, 9], [5, 2]]
def run(text):
    spec = rtamt.StlDenseTimeSpecification()
    spec.declare_var('x', 'float')
    spec.spec = text
    spec.parse()
    return spec.evaluate(['x', x])
print('control: always[0,1e300] x ->', run('out = always[0,1e300] x'), ' (required [[0,1],[1,2]])')
bad = False
try:
    out = run('out = always[0,1e400] x')
    print('always[0,1e400] x ->', out)
    bad = not (out[0] == [0, 1] and out[-1][1] == 2)
except rtamt.RTAMTException as e:
    print('rejected with RTAMTException (fine):', e)
except Exception as e:
    print('always[0,1e400] x: required [[0,1],[1,2]] or an RTAMTException at parse(); observed', repr(e), 'from evaluate()')
    bad = True
sys.exit(1 if bad else 0)
