# set_sampling_period() accepts a zero or negative period; the first evaluation then raises
# ZeroDivisionError / ValueError instead of RTAMTException, or (pastified) silently returns -inf.
import sys
sys.path.insert(0, '/tmp/hunt2/C08')
import rtamt
xs = [5, 1, 1, 1, 1, 1]
bad = 0
for period in (0, -1):
    for kind in ('offline', 'online', 'pastified'):
        s = rtamt.StlDiscreteTimeOfflineSpecification() if kind == 'offline' else rtamt.StlDiscreteTimeOnlineSpecification()
        s.declare_var('x', 'float'); s.declare_var('out', 'float')
        s.spec = 'out = eventually[1s,2s](x);' if kind == 'pastified' else 'out = once[1s,2s](x);'
        try:
            s.set_sampling_period(period, 's')
            s.parse()
            if kind == 'pastified':
                s.pastify()
            if kind == 'offline':
                r = s.evaluate({'time': list(range(len(xs))), 'x': xs})
            else:
                r = [s.update(i, [('x', v)]) for i, v in enumerate(xs)]
            print(period, kind, 'required RTAMTException, observed result', r); bad = 1
        except rtamt.RTAMTException as e:
            print(period, kind, 'ok, rejected:', e)
        except Exception as e:
            print(period, kind, 'required RTAMTException, observed', type(e).__name__, e); bad = 1
sys.exit(bad)
