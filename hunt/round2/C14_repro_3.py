# C14 defect 3: parse() needs time and memory exponential in the length of the text when a named
# sub-specification is used twice by the next one (node names and in_vars/out_vars lists are concatenated
# copies of the children's): ~30 short lines never finish / raise MemoryError.
import sys, logging, time, resource
sys.path.insert(0, '/tmp/hunt2/C14')
logging.disable(logging.CRITICAL)
import rtamt
from rtamt.exception.exception import RTAMTException

def text(n):
    return 'a0 = x;\n' + ''.join('a%d = a%d and a%d;\n' % (i + 1, i, i) for i in range(n))

bad = 0
prev = None
for n in (14, 16, 18, 20, 22):
    spec = rtamt.StlDiscreteTimeSpecification()
    spec.spec = text(n)
    t0 = time.time()
    spec.parse()
    dt = time.time() - t0
    ln = len(spec.ast.specs[-1].name)
    print('%2d lines (%3d characters): parse() %.2fs, length of the name of the last node %d' % (n + 1, len(spec.spec), dt, ln))
    if prev and ln > 3.5 * prev: bad = 1
    prev = ln
print('required: parse() terminates in time polynomial in the text; observed: x4 for every two more lines')
# with an address-space limit the 31-line text ends with MemoryError (without a limit it thrashes the machine)
resource.setrlimit(resource.RLIMIT_AS, (2 * 2**30, 2 * 2**30))
spec = rtamt.StlDiscreteTimeSpecification()
spec.spec = text(30)
try:
    spec.parse(); o = 'success'
except RTAMTException: o = 'RTAMTException'
except BaseException as e: o = type(e).__name__
print('31 lines (%d characters) under a 2 GiB limit: required success or RTAMTException, observed %s' % (len(spec.spec), o))
if o not in ('success', 'RTAMTException'): bad = 1
sys.exit(bad)
