"""A constant silently shadows a variable (or a named sub-specification) of the same name that is declared LATER:
the data of the variable are ignored.  (Declaring them in the other order raises 'Constant x already declared'.)
LtlAstParserVisitor.visitExprId looks the identifier up in const_val_dict first; declare_var() does not check it."""
import sys, logging
sys.path.insert(0, '/tmp/hunt2/C01')
logging.disable(logging.CRITICAL)
import rtamt
bad = False

spec = rtamt.StlDiscreteTimeSpecification()
spec.declare_const('x', 'float', 10)
try:
    spec.declare_var('x', 'float')
    spec.spec = 'out = x + 1'
    spec.parse()
    got = spec.evaluate({'time': [0, 1, 2], 'x': [1.0, 2.0, 3.0]})
    print('required: an exception for the name clash, or [[0, 2.0], [1, 3.0], [2, 4.0]]')
    print('observed:', got)
    bad = bad or [g[1] for g in got] != [2.0, 3.0, 4.0]
except rtamt.RTAMTException as e:
    print('rejected:', e)

spec = rtamt.StlDiscreteTimeSpecification()
spec.declare_var('x', 'float')
spec.declare_const('c', 'float', 10)
try:
    spec.spec = 'c = x + 1; out = c'
    spec.parse()
    got = spec.evaluate({'time': [0, 1, 2], 'x': [1.0, 2.0, 3.0]})
    print('required: an exception for the name clash, or [[0, 2.0], [1, 3.0], [2, 4.0]]')
    print('observed:', got)
    bad = bad or [g[1] for g in got] != [2.0, 3.0, 4.0]
except rtamt.RTAMTException as e:
    print('rejected:', e)
sys.exit(1 if bad else 0)
