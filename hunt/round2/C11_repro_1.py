# Discrete-time offline evaluate() keeps the signals of EARLIER data sets:
# a data set that lacks a formula variable is silently evaluated with the
# values another data set supplied before, so evaluate(D) on one object is
# not a function of D (and differs from what a fresh object does with D).
import sys, logging
sys.path.insert(0, '/tmp/hunt2/C11')
import rtamt
logging.disable(logging.CRITICAL)

def mk():
    s = rtamt.StlDiscreteTimeOfflineSpecification()
    s.declare_var('x', 'float')
    s.declare_var('y', 'float')
    s.spec = 'out = always(x >= y)'
    s.parse()
    return s

def ev(s, d):
    try:
        return s.evaluate(d)
    except Exception as e:
        return 'raises ' + type(e).__name__

D  = {'time': [0, 1, 2], 'x': [5, 5, 5]}                    # no 'y'
D1 = {'time': [0, 1, 2], 'x': [5, 5, 5], 'y': [9, 9, 9]}
D3 = {'time': [0, 1, 2], 'x': [5, 5, 5], 'y': [1, 1, 1]}

fresh = ev(mk(), D)
s = mk()
ev(s, D1)
after_d1 = ev(s, D)
ev(s, D3)
after_d3 = ev(s, D)

print('required: evaluate(D) gives the same outcome every time (a fresh object:', fresh, ')')
print('observed: after D1:', after_d1)
print('          after D3:', after_d3)
bad = not (repr(fresh) == repr(after_d1) == repr(after_d3))
print('DEFECT' if bad else 'ok')
sys.exit(1 if bad else 0)
