"""C15: the trailing ';' of a sub-specification (add_sub_spec) may NOT be omitted, although the trailing ';'
of spec.spec may: the ';' is appended once, after modular_spec + spec.  Depending on what follows, the text
is rejected, or -- with the assertion head omitted as well -- silently parsed as ONE different assertion."""
import sys, logging
sys.path.insert(0, '/tmp/hunt2/C15')
logging.disable(logging.CRITICAL)
import rtamt

data = {'time': [0, 1, 2], 'x': [5.0, 1.0, -4.0], 'y': [1.0, -2.0, 3.0]}

def run(sub, text):
    s = rtamt.StlDiscreteTimeOfflineSpecification()
    s.declare_var('x', 'float')
    s.declare_var('y', 'float')
    s.add_sub_spec(sub)
    s.spec = text
    try:
        s.parse()
        return s.evaluate(data)
    except rtamt.RTAMTException as e:
        return 'RTAMTException: ' + str(e)

bad = 0
# (1) silent change of the monitor
req = run('r = x;', 'out = -y > 0;')
obs = run('r = x', '-y > 0')          # both the sub-spec ';' , the final ';' and the head 'out =' omitted
print('required', req)
print('observed', obs, ' (= x - y > 0)')
bad += req != obs
# (2) rejection
req = run('r = x >= 1;', 'out = r and y >= 0;')
obs = run('r = x >= 1', 'out = r and y >= 0')
print('required', req)
print('observed', obs)
bad += req != obs
sys.exit(1 if bad else 0)
