# C12: get_value(v) of an input variable must return the data supplied for it.
# It raises KeyError when the declared and supplied variable does not occur in a formula, and for an
# object-typed variable that is only read through its fields (only 'm.a' is a key, 'm' is not).
import sys, logging, types
logging.disable(logging.CRITICAL)
import rtamt

mod = types.ModuleType('c12_msgs')
class Msg(object):
    def __init__(self, a=0.0):
        self.a = a
mod.Msg = Msg
sys.modules['c12_msgs'] = mod

bad = False
s = rtamt.StlDiscreteTimeOfflineSpecification()
s.import_module('c12_msgs', 'Msg')
s.declare_var('x', 'float'); s.declare_var('y', 'float'); s.declare_var('m', 'Msg')
s.spec = 'out = (x > 1) and (m.a > 0)'
s.parse()
ms = [Msg(1.0), Msg(-1.0)]
data = {'time': [0, 1], 'x': [2.0, 0.0], 'y': [5.0, 6.0], 'm': ms}
print('evaluate ->', s.evaluate(data), ' x ->', s.get_value('x'), ' m.a ->', s.get_value('m.a'))
for v in ('y', 'm'):
    try:
        got = s.get_value(v)
        print('get_value(%r): required %r observed %r' % (v, data[v], got))
        bad = bad or got != data[v]
    except KeyError as e:
        print('get_value(%r): required %r observed KeyError(%s)' % (v, data[v], e))
        bad = True

o = rtamt.StlDiscreteTimeOnlineSpecification()
o.declare_var('x', 'float'); o.declare_var('y', 'float')
o.spec = 'out = once[0,1](x > 1)'
o.parse(); o.pastify()
o.update(0, [('x', 2.0), ('y', 5.0)])
try:
    got = o.get_value('y')
    print('online get_value(y): required 5.0 observed', got)
    bad = bad or got != 5.0
except KeyError as e:
    print('online get_value(y): required 5.0 observed KeyError(%s)' % e)
    bad = True
sys.exit(1 if bad else 0)
