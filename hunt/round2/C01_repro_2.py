"""Named sub-specifications that are used twice are re-evaluated at every use: evaluate() is exponential in the
length of a chain a_i = a_(i-1) and next a_(i-1)  (the offline visitor has no memo table although it stores
ast.results[node]).  Required: cost linear in the number of nodes.  Observed: doubles with every link."""
import sys, time, logging
sys.path.insert(0, '/tmp/hunt2/C01')
logging.disable(logging.CRITICAL)
import rtamt

def run(k):
    spec = rtamt.StlDiscreteTimeSpecification()
    spec.declare_var('x', 'float')
    spec.spec = '\n'.join(['a0 = x;'] + ['a%d = a%d and next a%d;' % (i, i - 1, i - 1) for i in range(1, k + 1)])
    spec.parse()
    t0 = time.time()
    r = spec.evaluate({'time': [0, 1, 2], 'x': [1.0, 2.0, 3.0]})
    return time.time() - t0, r

t1, r1 = run(10)
t2, r2 = run(16)
print('result', r2)
print('required: time(16 links) / time(10 links) ~ 1.6 ; observed %.3f s / %.3f s = %.1f' % (t2, t1, t2 / t1))
sys.exit(1 if t2 / t1 > 15 else 0)
