#!/usr/bin/env python
# Dense-time `until` / `since` need phi AT the witness (phi and (psi or carried)):
# "phi until psi" / "phi since psi" are reported VIOLATED at a time where psi holds and phi does not,
# although README (max over t' in [t,..] of min(psi(t'), min_{t'' in [t,t')} phi(t''))) and the
# discrete-time monitors say SATISFIED (witness t' = t, empty range for phi).
import sys, logging
logging.disable(logging.CRITICAL)
import rtamt

x = [[0, -1.0], [1, -1.0], [2, -1.0]]     # phi = (x >= 0) is false everywhere
y = [[0, 1.0], [1, 1.0], [2, 1.0]]        # psi = (y >= 0) is true everywhere


def mk(ctor, text):
    s = ctor()
    s.declare_var('x', 'float')
    s.declare_var('y', 'float')
    s.spec = text
    s.parse()
    return s


bad = 0
for text in ['out = (x >= 0) until (y >= 0);', 'out = (x >= 0) until[0,1] (y >= 0);',
             'out = (x >= 0) since (y >= 0);', 'out = (x >= 0) since[0,1] (y >= 0);']:
    d = mk(rtamt.StlDiscreteTimeSpecification, text).evaluate(
        {'time': [0, 1, 2], 'x': [-1.0, -1.0, -1.0], 'y': [1.0, 1.0, 1.0]})
    outs = [('dense offline', mk(rtamt.StlDenseTimeSpecification, text).evaluate(['x', x], ['y', y]))]
    if 'since' in text:
        outs.append(('dense online ', mk(rtamt.StlDenseTimeSpecification, text).update(['x', x], ['y', y])))
    print(text)
    print('  required (README, psi holds at t): value >= 0 at t = 0; discrete-time evaluate():', d)
    for name, o in outs:
        print('  observed', name, ':', o)
        if o and o[0][1] < 0:
            bad = 1
print('DEFECT' if bad else 'ok')
sys.exit(bad)
