"""Oddity (outside the property unless the dense result is read literally as a signal on [first, last time stamp]):
the dense-time offline result loses the end of its domain.  The input ends at t=3 (README convention: the last
sample marks the end of the signal), the discrete-time result has a value for samples 0..3, the dense-time
result of the same specification on the same step signal stops at its last value change."""
import sys, logging
logging.disable(logging.CRITICAL)
import rtamt

xs = [1, 3, 3, 3]

d = rtamt.StlDenseTimeSpecification()
d.declare_var('x', 'float')
d.spec = 'out = (x >= 2)'
d.parse()
dense = d.evaluate(['x', [[i, v] for i, v in enumerate(xs)]])

c = rtamt.StlDiscreteTimeSpecification()
c.declare_var('x', 'float')
c.spec = 'out = (x >= 2)'
c.parse()
disc = c.evaluate({'time': list(range(len(xs))), 'x': xs})

print('discrete result          :', disc)
print('dense result             :', dense)
print('required: the dense result covers [0, 3] like its input (e.g. [[0, -1.0], [1, 1.0], [3, 1.0]])')
last = dense[-1][0]
print('observed: the dense result ends at t =', last)
sys.exit(1 if last < len(xs) - 1 else 0)
