#!/usr/bin/env python
"""Oddity: the dense-time online binary operators keep REFERENCES to the caller's [t, v] sample
lists in their carry-over buffers.  A caller that re-uses one sample object for the next update
(a common streaming idiom) silently changes samples that are still buffered, so the output depends
on how the signal was chunked / on object identity, not only on the data."""
import sys
sys.path.insert(0, '/tmp/hunt2/C05')
import rtamt


def mk():
    s = rtamt.StlDenseTimeOnlineSpecification()
    s.declare_var('x', 'float')
    s.declare_var('y', 'float')
    s.spec = 'out = x and y'
    s.parse()
    return s

xs = [[0, 5], [1, 1], [2, 5], [3, 1]]
ys = [[0, 3], [3, 3]]

# reference: fresh sample objects, x one sample per update, y arrives at the end
ref = mk()
required = []
for i, smp in enumerate(xs):
    required += ref.update(['x', [list(smp)]], ['y', [list(ys[0])] if i == 0 else []])
required += ref.update(['x', []], ['y', [list(ys[1])]])

# same data, same chunking, but the caller re-uses one [t, v] object for x
mon = mk()
observed = []
cell = [0, 0]
for i, smp in enumerate(xs):
    cell[0], cell[1] = smp
    observed += mon.update(['x', [cell]], ['y', [list(ys[0])] if i == 0 else []])
observed += mon.update(['x', []], ['y', [list(ys[1])]])
observed = [list(s) for s in observed]

print('required:', required)
print('observed:', observed)
sys.exit(1 if observed != required else 0)
