# reset() before the first update() is not harmless: it binds the interpreter to the
# specification as it is at that moment (AbstractOnlineSpecification.reset sets set_ast_flag).
#  (i)  parse(); reset(); set_sampling_period(500 ms): the bounds stay counted in 1 s periods
#  (ii) reset(); parse(): every later update() raises KeyError
import sys, logging
sys.path.insert(0, '/tmp/hunt2/C10')
logging.disable(logging.CRITICAL)
import rtamt

def make(order):
    s = rtamt.StlDiscreteTimeOnlineSpecification()
    s.declare_var('x', 'float')
    s.spec = 'out = once[0,2s] (x >= 1)'
    for o in order:
        {'parse': s.parse, 'reset': s.reset,
         'period': lambda: s.set_sampling_period(500, 'ms', 0.1)}[o]()
    return s

def run(s):
    try:
        return [s.update(0.5 * t, [['x', v]]) for t, v in enumerate([5, -3, -3, -3, -3, -3])]
    except Exception as e:
        return '%s: %s' % (type(e).__name__, e)

bad = 0
required = run(make(['parse', 'period']))
observed = run(make(['parse', 'reset', 'period']))
print('(i)  required (no reset)            :', required)
print('     observed (reset before period) :', observed)
bad |= observed != required
required = run(make(['parse']))
observed = run(make(['reset', 'parse']))
print('(ii) required (no reset)            :', required)
print('     observed (reset before parse)  :', observed)
bad |= observed != required
sys.exit(1 if bad else 0)
