#!/venv/bin/python
# C04 / 4: a zero-length piece (two samples with the same time stamp, the later one wins under the
# right-continuous reading).  Unary operators accept it; every binary operator goes through intersection()
# whose 13 cases all require prev < current strictly (intersection.py:92-186) and raises 'Unexpected case'.
import sys, os, logging
logging.disable(logging.CRITICAL)
sys.path.insert(0, os.environ.get('RTAMT_PATH', '/tmp/hunt2/C04'))
import rtamt
x = [[0, 1], [2, 3], [2, 5], [4, 0]]
y = [[0, 2], [4, 0]]
def run(text):
    spec = rtamt.StlDenseTimeSpecification()
    spec.declare_var('x', 'float'); spec.declare_var('y', 'float')
    spec.spec = text
    spec.parse()
    return spec.evaluate(['x', x], ['y', y])
print('control: always[0,1] x ->', run('out = always[0,1] x'))
bad = False
try:
    out = run('out = x and y')
    print('x and y ->', out)
except Exception as e:
    print('x and y: required the step function 1 on [0,2), 2 on [2,4), 0 at 4; observed', repr(e)); bad = True
sys.exit(1 if bad else 0)
