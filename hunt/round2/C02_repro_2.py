# Oddity: update() is not atomic. When one operator raises (here a division by zero in the right
# operand), the operators visited before it have already consumed the sample. The rejected sample
# stays in the monitor state although update() never returned a value for it.
import sys, logging
sys.path.insert(0, '/tmp/hunt2/C02')
logging.disable(logging.CRITICAL)
import rtamt

TEXT = 'out = (historically (x > 0)) and ((1 / y) > 0)'
samples = [(1.0, 1.0), (2.0, 1.0), (-5.0, 0.0), (3.0, 1.0), (4.0, 1.0)]   # third sample is rejected

on = rtamt.StlDiscreteTimeOnlineSpecification()
on.declare_var('x', 'float'); on.declare_var('y', 'float')
on.spec = TEXT
on.parse()
accepted, observed = [], []
for i, (x, y) in enumerate(samples):
    try:
        observed.append(on.update(i, [('x', x), ('y', y)]))
        accepted.append((x, y))
    except ZeroDivisionError:
        pass                                   # the sample was refused: update() returned nothing

off = rtamt.StlDiscreteTimeOfflineSpecification()
off.declare_var('x', 'float'); off.declare_var('y', 'float')
off.spec = TEXT
off.parse()
required = [p[1] for p in off.evaluate({'time': list(range(len(accepted))),
                                        'x': [a[0] for a in accepted], 'y': [a[1] for a in accepted]})]
print('samples accepted by update():', accepted)
print('required (offline on the accepted samples):', required)
print('observed (online)                         :', observed)
sys.exit(1 if observed != required else 0)
