# set_var_io_type() after parse() is accepted silently and changes spec.ast.in_vars/out_vars, but the monitor keeps
# the io types that were frozen into the Variable nodes while parsing (rtamt/syntax/ast/parser/ltl/parser_visitor.py:97-98),
# so the semantics does not follow the declared interface. pastify() copies the stale node.io_type as well.
import sys, logging
import rtamt
from rtamt import Semantics
logging.disable(logging.CRITICAL)
INF = float('inf')

def mon(late):
    s = rtamt.StlDiscreteTimeSpecification(semantics=Semantics.INPUT_VACUITY)
    s.declare_var('x', 'float'); s.declare_var('y', 'float')
    if not late:
        s.set_var_io_type('x', 'input'); s.set_var_io_type('y', 'output')
    s.spec = 'out = always[0,1]((x >= 3) and (y >= 1))'
    s.parse()
    if late:
        s.set_var_io_type('x', 'input'); s.set_var_io_type('y', 'output')
    s.pastify()
    r = [s.update(i, [('x', a), ('y', b)]) for i, (a, b) in enumerate(zip([1, 4, 5, 2], [2, 2, 0, 3]))]
    return r, sorted(s.ast.in_vars), sorted(s.ast.out_vars)

a, ia, oa = mon(False)
b, ib, ob = mon(True)
print('io set before parse: in_vars=%s out_vars=%s result %s' % (ia, oa, a))
print('io set after  parse: in_vars=%s out_vars=%s result %s   (required: the same result)' % (ib, ob, b))
sys.exit(1 if a != b else 0)
