# a signal called `time` cannot be monitored by the discrete-time offline monitor:
# the data-set key 'time' is consumed as the time-stamp column and never reaches the variable
import sys, logging
sys.path.insert(0, '/tmp/hunt2/C17')
logging.disable(logging.CRITICAL)
import rtamt

data = {'time': [0, 1, 2], 'x': [5.0, 6.0, 7.0]}

on = rtamt.StlDiscreteTimeOnlineSpecification()
on.declare_var('time', 'float'); on.declare_var('x', 'float')
on.spec = 'out = (x > 1) and (time < 2)'
on.parse()
online = [on.update(i, [('time', float(data['time'][i])), ('x', data['x'][i])]) for i in range(3)]
print('online monitor, same specification and data :', online)

off = rtamt.StlDiscreteTimeOfflineSpecification()
off.declare_var('time', 'float'); off.declare_var('x', 'float')
off.spec = 'out = (x > 1) and (time < 2)'
off.parse()
print('required: evaluate() returns [[0, 2.0], [1, 1.0], [2, 0.0]] (or rejects the name with an RTAMTException)')
try:
    res = off.evaluate(data)
    print('observed:', res)
    sys.exit(0 if [r[1] for r in res] == online else 1)
except rtamt.RTAMTException as e:
    print('observed: RTAMTException', e)
    sys.exit(0)
except Exception as e:
    print('observed:', type(e).__name__, e)
    sys.exit(1)
