# C14 defect 6: 'from M import T' and 'T v' only guard against ImportError / TypeError: a module that fails
# differently when imported, or a type whose constructor fails differently, escapes parse() as is (even SystemExit).
import sys, logging, io, contextlib
sys.path.insert(0, '/tmp/hunt2/C14')
logging.disable(logging.CRITICAL)
import rtamt
from rtamt.exception.exception import RTAMTException
bad = 0
for text in ('from unittest.__main__ import T\nout = x', 'from builtins import super\nsuper v\nout = x',
             'from nosuchmodule import T\nout = x', 'from math import pi\npi v\nout = x'):
    spec = rtamt.StlDiscreteTimeSpecification()
    spec.spec = text
    try:
        with contextlib.redirect_stderr(io.StringIO()), contextlib.redirect_stdout(io.StringIO()):
            spec.parse()
        o = 'success'
    except RTAMTException: o = 'RTAMTException'
    except BaseException as e:
        o = type(e).__name__ + ': ' + str(e)[:50]; bad = 1
    print('%-50r required: success or RTAMTException   observed: %s' % (text, o))
sys.exit(bad)
