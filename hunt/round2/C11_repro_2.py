# Results alias the caller's data: the list returned by a dense-time offline
# evaluate() of 'out = x' (and by get_value('x') of every offline monitor) IS the
# caller's input list, so post-processing the result in place rewrites the input
# and changes the next evaluation on "the same data".
import sys, logging, copy
sys.path.insert(0, '/tmp/hunt2/C11')
import rtamt
logging.disable(logging.CRITICAL)

s = rtamt.StlDenseTimeOfflineSpecification()
s.declare_var('x', 'float')
s.spec = 'out = x'
s.parse()
xs = [[0, 1.0], [1, -2.0], [2, 3.0]]
before = copy.deepcopy(xs)
r = s.evaluate(['x', xs])
alias1 = r is xs
r.reverse()                       # the caller touches only the RESULT
changed1 = xs != before

d = rtamt.StlDiscreteTimeOfflineSpecification()
d.declare_var('x', 'float')
d.spec = 'out = always(x >= 0)'
d.parse()
data = {'time': [0, 1, 2], 'x': [1.0, -2.0, 3.0]}
d.evaluate(data)
alias2 = d.get_value('x') is data['x']

print('required: results are fresh objects, independent of the caller data')
print('observed: dense evaluate() result is the input list:', alias1, '; input changed by editing the result:', changed1)
print('          discrete get_value("x") is dataset["x"]:', alias2)
bad = alias1 or changed1 or alias2
print('DEFECT' if bad else 'ok')
sys.exit(1 if bad else 0)
