# C09 oddity 3: every named assertion is evaluated as a top-level specification, also one that the
# final assertion never refers to.  An unused sub-specification that cannot be evaluated (here x / y
# with y = 0; likewise a bounded until, which the offline monitors reject after pastify()) makes the
# whole evaluation fail, although the inlined specification (which does not contain it) is fine.
import sys, logging
logging.disable(logging.CRITICAL)
import rtamt

data = {'time': [0, 1, 2], 'x': [1., 2., 3.], 'y': [0., 1., 2.]}

def run(subs, text):
    s = rtamt.StlDiscreteTimeSpecification()
    s.declare_var('x', 'float')
    s.declare_var('y', 'float')
    for t in subs:
        s.add_sub_spec(t)
    s.spec = text
    s.parse()
    return s.evaluate(data)

required = run([], 'out = (once(x > 1)) and (y >= 0)')
try:
    observed = run(['s0 = once(x > 1);', 'ratio = x / y;'], 'out = s0 and (y >= 0)')
except Exception as e:
    observed = '%s: %s' % (type(e).__name__, e)
print('required (inlined) :', required)
print('observed (modular) :', observed)
sys.exit(0 if observed == required else 1)
