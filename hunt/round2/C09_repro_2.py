# C09 defect 2: after pastify() a declared constant with a negative value is not equivalent to the
# number written in the text.  The constant becomes Constant(-1.0), which the pastifier never delays;
# the text "-1" becomes Negate(Constant(1.0)), which is delayed by once[h,h] and so is -inf for the
# first h samples (with historically(...) around the formula the difference lasts for ever).
import sys, logging
logging.disable(logging.CRITICAL)
import rtamt

xs = [5., 4., 3., 2., 6., 7.]

def run(text, const):
    s = rtamt.StlDiscreteTimeSpecification()
    s.declare_var('x', 'float')
    if const:
        s.declare_const('c', 'float', -1)
    s.spec = text
    s.parse()
    s.pastify()
    return [s.update(i, [('x', xs[i])]) for i in range(len(xs))]

observed = run('out = (eventually[0,1](x >= 0)) and (c)', True)
required = run('out = (eventually[0,1](x >= 0)) and (-1)', False)
print('required (literal -1)     :', required)
print('observed (const c = -1)   :', observed)
sys.exit(0 if observed == required else 1)
