# C13: a gap lying exactly ON the tolerance boundary is counted as a violation when the period
# is written in a larger unit than the time-stamps (float rounding in period - period*tolerance).
import sys, logging
logging.disable(logging.CRITICAL)
from fractions import Fraction as F
import rtamt

def run(kind, period, punit, tol, unit, ts):
    s = rtamt.StlDiscreteTimeOnlineSpecification() if kind == 'online' else rtamt.StlDiscreteTimeOfflineSpecification()
    s.declare_var('x', 'float')
    s.unit = unit
    if tol is None:
        s.set_sampling_period(period, punit)          # default tolerance 10%
    else:
        s.set_sampling_period(period, punit, tol)
    s.spec = 'out = historically(x >= 0)'
    s.parse()
    if kind == 'online':
        for t in ts:
            s.update(t, [('x', 1.0)])
    else:
        s.evaluate({'time': ts, 'x': [1.0] * len(ts)})
    return s.sampling_violation_counter

def required(period, punit, tol, unit, ts):
    U = {'s': 10**9, 'ms': 10**6, 'us': 10**3, 'ns': 1}
    P = F(str(period)) * U[punit] / U[unit]
    tol = F(0.1 if tol is None else tol)              # the float that is really passed
    return sum(1 for a, b in zip(ts, ts[1:]) if b - a < P * (1 - tol) or b - a > P * (1 + tol))

bad = 0
cases = [
    # period 0.01 s = 10 ms, default tolerance: accepted gaps are [9 ms, 11 ms]; integer ms time-stamps
    (0.01, 's', None, 'ms', [0, 9, 18, 27]),
    (10,   'ms', None, 'ms', [0, 9, 18, 27]),          # the same period written in ms: correct
    (7,    's', 0.9,  'ms', [0, 700, 1400]),          # accepted gaps [700 ms, 13300 ms]
    (3,    's', 0.78, 'ms', [0, 660]),                # accepted gaps [660 ms, 5340 ms]
]
for period, punit, tol, unit, ts in cases:
    req = required(period, punit, tol, unit, ts)
    for kind in ('online', 'offline'):
        obs = run(kind, period, punit, tol, unit, ts)
        flag = '' if obs == req else '   <-- DEFECT'
        print('%-7s period=%s %s tol=%s unit=%s ts=%s : required %d observed %d%s' % (kind, period, punit, tol, unit, ts, req, obs, flag))
        if obs != req:
            bad = 1
sys.exit(bad)
