#!/usr/bin/env python
# README: rho(prev phi, w, t) = -inf if t <= 0. The monitors return +inf for `prev` at the first sample
# (only `s_prev` gives -inf): "prev (x >= 0)" is reported SATISFIED at t = 0 where the README semantics
# says VIOLATED.
import sys, logging
logging.disable(logging.CRITICAL)
import rtamt


def mk():
    s = rtamt.StlDiscreteTimeSpecification()
    s.declare_var('x', 'float')
    s.spec = 'out = prev (x >= 0);'
    s.parse()
    return s


off = mk().evaluate({'time': [0, 1], 'x': [-1.0, -1.0]})
on = mk().update(0, [('x', -1.0)])
print('required (README): -inf at t = 0')
print('observed evaluate():', off, ' update():', on)
bad = 1 if off[0][1] > 0 or on > 0 else 0
print('DEFECT' if bad else 'ok')
sys.exit(bad)
