# an assertion that writes its result to a NESTED field of an output object (o.inner.v = ...):
# parse() validates the dotted path and variables are READ through dotted paths (operator.attrgetter),
# but the online monitors write with setattr(out, 'inner.v', rob): the result never reaches o.inner.v,
# and for a class with __slots__ (e.g. ROS messages) update() dies with AttributeError
import sys, types, logging
sys.path.insert(0, '/tmp/hunt2/C17')
logging.disable(logging.CRITICAL)
import rtamt

mod = types.ModuleType('c17_msgs')
class Inner(object):
    __slots__ = ['v']
    def __init__(self): self.v = 0.0
class Msg(object):
    def __init__(self): self.value = 0.0; self.inner = Inner()
class SlotMsg(object):
    __slots__ = ['value', 'inner']
    def __init__(self): self.value = 0.0; self.inner = Inner()
mod.Inner, mod.Msg, mod.SlotMsg = Inner, Msg, SlotMsg
sys.modules['c17_msgs'] = mod

bad = 0
for typ in ['Msg', 'SlotMsg']:
    for cls in [rtamt.StlDiscreteTimeOnlineSpecification, rtamt.StlDenseTimeOnlineSpecification]:
        s = cls()
        s.import_module('c17_msgs', typ)
        s.declare_var('m', typ); s.declare_var('o', typ)
        s.spec = 'o.inner.v = (m.inner.v > 1)'
        s.parse()
        m = getattr(mod, typ)(); m.inner.v = 5.0
        label = '%s / %s' % (cls.__name__, typ)
        try:
            if 'Discrete' in cls.__name__:
                rob = s.update(0, [('m', m)]); want = 4.0
            else:
                rob = s.update(['m', [[0, m]]]); want = [[0, 4.0]]
            got = s.var_object_dict['o'].inner.v
            print(label, ': update() returned', rob, '; required o.inner.v ==', want, '; observed o.inner.v ==', got)
            if got != want: bad += 1
        except rtamt.RTAMTException as e:
            print(label, ': RTAMTException', e)
        except Exception as e:
            bad += 1
            print(label, ': required update() to return and o.inner.v to hold the result; observed', type(e).__name__, e)
sys.exit(1 if bad else 0)
