# Dense time: the same (very long) bound is accepted with default unit s and raises OverflowError
# (not RTAMTException) with default unit ns, because the bound is converted to a float of default units.
import sys
sys.path.insert(0, '/tmp/hunt2/C08')
import rtamt
bad = 0
res = {}
for unit, k in (('s', 1), ('ns', 10**9)):
    s = rtamt.StlDenseTimeOfflineSpecification()
    s.declare_var('x', 'float'); s.declare_var('out', 'float')
    s.unit = unit
    s.spec = 'out = once[0,1e300s](x);'
    try:
        s.parse()
        r = s.evaluate(['x', [[0 * k, 1.0], [1 * k, 2.0], [5 * k, 0.0]]])
        res[unit] = [[t / k, v] for t, v in r]
    except rtamt.RTAMTException as e:
        res[unit] = 'RTAMTException'
    except Exception as e:
        res[unit] = type(e).__name__ + ': ' + str(e)
    print('unit', unit, '->', res[unit])
print('required: identical results (or RTAMTException in both)')
sys.exit(0 if res['s'] == res['ns'] else 1)
