#!/usr/bin/env python
# C18 reproducer 2: dense-time ONLINE monitor after pastify():
# p implies q and (not p) or q return different signals on [0, H) (H = future horizon).
# Run with PYTHONPATH=/tmp/hunt2/C18
import sys
import rtamt


def online(text, x, y):
    spec = rtamt.StlDenseTimeSpecification()
    spec.declare_var('x', 'float')
    spec.declare_var('y', 'float')
    spec.declare_var('out', 'float')
    spec.spec = text
    spec.parse()
    spec.pastify()
    return spec.update(['x', x], ['y', y])


def value_at(sig, t):
    v = None
    for s in sig:
        if s[0] <= t:
            v = s[1]
    return v


x = [[0, 1.0], [1, -2.0], [2, 3.0], [3, 0.0], [4, 5.0], [5, 5.0]]
y = [[0, 0.0], [1, 1.0], [2, -1.0], [3, 2.0], [4, -3.0], [5, -3.0]]
lhs = 'out = (x >= 0) implies (eventually[0:2] (y >= 0));'
rhs = 'out = (not (x >= 0)) or (eventually[0:2] (y >= 0));'
a = online(lhs, [list(s) for s in x], [list(s) for s in y])
b = online(rhs, [list(s) for s in x], [list(s) for s in y])
print('lhs:', lhs)
print('rhs:', rhs)
print('required: identical signals')
print('lhs out :', a)
print('rhs out :', b)
diff = [t for t in (0, 0.5, 1, 1.5, 2, 2.5, 3, 4, 5) if value_at(a, t) != value_at(b, t)]
print('times at which the two signals differ:', diff)
sys.exit(1 if diff else 0)
