# a bound of 2**63 sampling periods or more is accepted by parse() (bounds up to 1e1000 are) but the
# discrete-time online monitor then dies with OverflowError in the first update(); dense time copes
import sys, logging
sys.path.insert(0, '/tmp/hunt2/C17')
logging.disable(logging.CRITICAL)
import rtamt

bad = 0
for text, past in [('out = once[0,1e19](x > 1)', False), ('out = (x > 1) since[0,1e19] (x > 0)', False), ('out = always[0,1e19](x > 1)', True)]:
    s = rtamt.StlDiscreteTimeOnlineSpecification()
    s.declare_var('x', 'float')
    s.spec = text
    try:
        s.parse()
        if past: s.pastify()
        print(text, ': update() returned', s.update(0, [('x', 2.0)]))
    except rtamt.RTAMTException as e:
        print(text, ': RTAMTException', e)
    except Exception as e:
        bad += 1
        print(text, ': required a value (1.0) or a clean RTAMTException; observed', type(e).__name__, e)
d = rtamt.StlDenseTimeOnlineSpecification()
d.declare_var('x', 'float'); d.spec = 'out = once[0,1e19](x > 1)'; d.parse()
print('dense-time online, same formula:', d.update(['x', [[0, 2.0]]]))
sys.exit(1 if bad else 0)
