# and/or/implies BELOW a comparison or arithmetic operator: the explainer prunes by polarity although
# the value of the connective, not its sign, decides -> nothing is reported for a violated specification.
import sys, logging
sys.path.insert(0, '/tmp/hunt2/C20')
logging.disable(logging.CRITICAL)
import rtamt

def run(text, data):
    spec = rtamt.StlDiscreteTimeOfflineSpecification()
    spec.declare_var('x', 'float'); spec.declare_var('y', 'float')
    spec.spec = text
    spec.parse()
    rob = spec.evaluate(data)
    spec.explain()
    return rob[0][1], {v: spec.explainer.explanations.get(v, []) for v in ('x', 'y')}

bad = 0
cases = [
    ('out = (x and y) >= 1',        {'time': [0], 'x': [5.0], 'y': [0.5]},   {'time': [0], 'x': [5.0], 'y': [7.0]}),
    ('out = -(x and y)',            {'time': [0], 'x': [5.0], 'y': [3.0]},   {'time': [0], 'x': [-9.0], 'y': [3.0]}),
    ('out = not((x or y) >= -2)',   {'time': [0], 'x': [-1.0], 'y': [-1.5]}, {'time': [0], 'x': [-9.0], 'y': [-9.0]}),
    ('out = always((x and y) >= 1)', {'time': [0, 1], 'x': [5.0, 5.0], 'y': [3.0, 0.5]}, {'time': [0, 1], 'x': [5.0, 5.0], 'y': [3.0, 7.0]}),
]
for text, data, other in cases:
    r0, expl = run(text, data)
    # 'other' differs from 'data' only at positions that are NOT reported
    differs = [(v, i) for v in ('x', 'y') for i in range(len(data['time'])) if data[v][i] != other[v][i]]
    unreported = all(not any(b <= i <= e for b, e in expl[v]) for v, i in differs)
    r1, _ = run(text, other)
    print(text)
    print('  trace', {k: data[k] for k in 'xy'}, 'rob[0] =', r0, ' explanation', expl)
    print('  required: a trace equal on all reported samples is violated too')
    print('  observed: trace', {k: other[k] for k in 'xy'}, '(changes only unreported samples: %s) has rob[0] =' % unreported, r1)
    if r0 < 0 and unreported and not (r1 < 0):
        bad = 1
print('DEFECT' if bad else 'ok')
sys.exit(1 if bad else 0)
