# C14 defect 2: a @topic annotation that names a declared constant makes parse() raise KeyError.
import sys, logging
sys.path.insert(0, '/tmp/hunt2/C14')
logging.disable(logging.CRITICAL)
import rtamt
from rtamt.exception.exception import RTAMTException

def outcome(text, pre=None):
    spec = rtamt.StlDiscreteTimeSpecification()
    if pre: pre(spec)
    spec.spec = text
    try:
        spec.parse()
        return 'success'
    except RTAMTException as e:
        return 'RTAMTException'
    except BaseException as e:
        return type(e).__name__ + ': ' + str(e)[:70]

bad = 0
for what, text, pre in [
    ('constant declared in the text', 'const float c = 1\n@topic(c, t)\nout = x > c', None),
    ('constant declared with declare_const()', '@topic(c, t)\nout = x > c', lambda s: s.declare_const('c', 'float', 1)),
    ('control: topic of a declared variable', 'float x\n@topic(x, t)\nout = x > 1', None),
    ('control: topic of an unknown name (ignored with a warning)', '@topic(q, t)\nout = x > 1', None),
]:
    o = outcome(text, pre)
    print('%-60s required: success or RTAMTException   observed: %s' % (what, o))
    if o not in ('success', 'RTAMTException'): bad = 1
sys.exit(bad)
