# C14 defect 5: an assertion whose (undeclared) name ends with a dot is accepted by parse() and implicitly
# declared under the name 'a.', while the output variable is recorded as 'a': the first update() of the
# online monitors raises KeyError.
import sys, logging
sys.path.insert(0, '/tmp/hunt2/C14')
logging.disable(logging.CRITICAL)
import rtamt
from rtamt.exception.exception import RTAMTException
bad = 0
for name, kind in (('discrete online', rtamt.StlDiscreteTimeOnlineSpecification), ('dense online', rtamt.StlDenseTimeOnlineSpecification),
                   ('discrete offline', rtamt.StlDiscreteTimeOfflineSpecification)):
    spec = kind()
    spec.spec = 'a. = x'
    try:
        spec.parse()
        o = 'parse ok (out_var %r, declared %r)' % (spec.ast.out_var, sorted(spec.ast.var_object_dict))
        try:
            if name == 'discrete online': spec.update(0, [('x', 1.0)])
            elif name == 'dense online': spec.update(['x', [[0.0, 1.0], [1.0, 2.0]]])
            else: spec.evaluate({'time': [0, 1], 'x': [1.0, 2.0]})
            o += ', first update/evaluate ok'
        except RTAMTException: o += ', then RTAMTException'
        except BaseException as e:
            o += ', then %s: %s' % (type(e).__name__, e); bad = 1
    except RTAMTException:
        o = 'RTAMTException'
    print("%-17s 'a. = x'  required: rejected with RTAMTException, or a working float signal   observed: %s" % (name, o))
sys.exit(bad)
