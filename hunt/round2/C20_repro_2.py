# explain() is offered by every offline specification class but only StlDiscreteTimeOfflineSpecification owns an
# explainer: the documented main class StlDiscreteTimeSpecification (any semantics=) and the dense-time classes
# die with AttributeError instead of an explanation or an RTAMTException.
import sys, logging
sys.path.insert(0, '/tmp/hunt2/C20')
logging.disable(logging.CRITICAL)
import rtamt
bad = 0
for make, data in [(rtamt.StlDiscreteTimeSpecification, {'time': [0, 1], 'x': [1.0, -1.0]}),
                   (lambda: rtamt.StlDiscreteTimeSpecification(semantics=rtamt.Semantics.OUTPUT_ROBUSTNESS), {'time': [0, 1], 'x': [1.0, -1.0]}),
                   (rtamt.StlDenseTimeOfflineSpecification, ['x', [[0, 1.0], [1, -1.0]]])]:
    spec = make()
    spec.declare_var('x', 'float')
    spec.spec = 'out = always(x >= 0)'
    spec.parse()
    rob = spec.evaluate(data)
    try:
        spec.explain()
        print('explain() worked:', spec.explainer.explanations.get('x'))
    except rtamt.RTAMTException as e:
        print('RTAMTException (acceptable):', e)
    except Exception as e:
        print('required: explanation {x: [[1,1]]} or an RTAMTException; observed:', type(e).__name__, e)
        bad = 1
sys.exit(1 if bad else 0)
