#!/venv/bin/python
# C04 / 2: signals whose domain starts BEFORE time 0 (negative time stamps).  The bounded operators assume the
# time origin 0: always/eventually drop everything before 0 (ast_visitor.py:199-203, 247-251), so the output does
# not start at the beginning of the input domain; once/historically with a positive lower bound pad
# (0, first+begin) (ast_visitor.py:52-53, 106-107), an inverted interval, and raise IndexError.
# Untimed and Boolean operators handle the same data correctly.
import sys, os, logging
logging.disable(logging.CRITICAL)
sys.path.insert(0, os.environ.get('RTAMT_PATH', '/tmp/hunt2/C04'))
import rtamt

x = [[-4, 1], [-2, 0], [0, 2], [3, 4]]

def val(samples, t):
    v = None
    for s in samples:
        if s[0] <= t:
            v = s[1]
    return v

def run(text):
    spec = rtamt.StlDenseTimeSpecification()
    spec.declare_var('x', 'float')
    spec.spec = text
    spec.parse()
    return spec.evaluate(['x', [list(s) for s in x]])

bad = False
print('control: out = always x ->', run('out = always x'))
# always[0,1] x : 1 on [-4,-3), 0 on [-3,0), 2 on [0,2), ... (window [t,t+1])
req = [(-4, 1), (-3.5, 1), (-3, 0), (-1, 0), (0, 2), (1, 2), (3, 4)]
out = run('out = always[0,1] x')
print('out = always[0,1] x ->', out)
if out[0][0] != -4:
    print('  required: first sample at -4 (start of the input domain); observed: first sample at', out[0][0]); bad = True
for t, e in req:
    if val(out, t) != e:
        print('  t=%r required %r observed %r' % (t, e, val(out, t))); bad = True
# once[1,2] x : -inf on [-4,-3), 1 on [-3,0), ...
try:
    out = run('out = once[1,2] x')
    print('out = once[1,2] x ->', out)
    for t, e in [(-4, -float('inf')), (-3, 1), (-1, 1), (0, 1), (1, 2)]:
        if val(out, t) != e:
            print('  t=%r required %r observed %r' % (t, e, val(out, t))); bad = True
except Exception as e:
    print('out = once[1,2] x -> required a sample list from -4 on; observed', repr(e)); bad = True
sys.exit(1 if bad else 0)
