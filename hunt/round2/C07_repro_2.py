#!/usr/bin/env python
# Dense-time offline evaluation of a bounded future operator whose window lies beyond the end of the
# signal holds the last sample for ever: eventually[2,3](x>=0) is reported SATISFIED (+1) at t = 0 on a
# signal that ends at time 1 (and is negative at time 0). README: rho = -inf (violated) when the window
# starts after the end of w; the discrete-time monitor returns -inf. Dually always[2,3] is reported violated.
import sys, logging
logging.disable(logging.CRITICAL)
import rtamt


def mk(ctor, text):
    s = ctor()
    s.declare_var('x', 'float')
    s.spec = text
    s.parse()
    return s


bad = 0
for text, xs, want in [('out = eventually[2,3] (x >= 0);', [-1.0, 1.0], 'negative (-inf): no sample of the trace lies in [2,3]'),
                       ('out = always[2,3] (x >= 0);', [1.0, -1.0], 'positive (+inf): vacuous')]:
    disc = mk(rtamt.StlDiscreteTimeSpecification, text).evaluate({'time': [0, 1], 'x': xs})
    dense = mk(rtamt.StlDenseTimeSpecification, text).evaluate(['x', [[0, xs[0]], [1, xs[1]]]])
    print(text, ' x =', [[0, xs[0]], [1, xs[1]]])
    print('  required at t=0:', want, '; discrete-time evaluate():', disc)
    print('  observed dense-time evaluate():', dense)
    if dense and dense[0][1] * disc[0][1] < 0:
        bad = 1
# same mechanism across signals of different length: x ends at 3, y goes on to 10 and turns negative at 5
s = rtamt.StlDenseTimeSpecification()
s.declare_var('x', 'float'); s.declare_var('y', 'float')
s.spec = 'out = always ((x >= 0) and (y >= 0));'
s.parse()
o = s.evaluate(['x', [[0, 1.0], [3, 1.0]]], ['y', [[0, 1.0], [5, -1.0], [10, -1.0]]])
print(s.spec, ' x ends at 3, y < 0 from 5 on')
print('  required at t=0: positive (both hold on the common domain [0,3]); observed:', o)
if o and o[0][1] < 0:
    bad = 1
print('DEFECT' if bad else 'ok')
sys.exit(bad)
