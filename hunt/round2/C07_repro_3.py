#!/usr/bin/env python
# Dense-time offline: the output of a bounded PAST operator (once[a,b], historically[a,b], since[a,b]) runs on
# after the last input sample (to t_last + b, computed from the held last value); an unbounded always /
# eventually / until above it quantifies over that extension. always(once[0,1](x>=0)) on x = 1 at 0, -1 at 1
# is SATISFIED at t = 0 on the trace [0,1] (once[0,1] sees x(0)=1 at both t=0 and t=1), the discrete-time
# monitor returns +1, the dense-time monitor returns -1 (it uses once[0,1] at t = 2, outside the trace).
import sys, logging
logging.disable(logging.CRITICAL)
import rtamt


def mk(ctor, text):
    s = ctor()
    s.declare_var('x', 'float')
    s.spec = text
    s.parse()
    return s


bad = 0
for text, xs in [('out = always (once[0,1] (x >= 0));', [1.0, -1.0]),
                 ('out = eventually (historically[0,1] (x >= 0));', [-1.0, 1.0])]:
    disc = mk(rtamt.StlDiscreteTimeSpecification, text).evaluate({'time': [0, 1], 'x': xs})
    sig = [[0, xs[0]], [1, xs[1]]]
    dense = mk(rtamt.StlDenseTimeSpecification, text).evaluate(['x', sig])
    inner = mk(rtamt.StlDenseTimeSpecification, 'out = ' + text[text.index('(') + 1:text.rindex(')')] + ';').evaluate(['x', sig])
    print(text, ' x =', sig)
    print('  required at t=0: the sign of the discrete-time evaluate():', disc)
    print('  observed dense-time evaluate():', dense, '  (operand as evaluated:', inner, ')')
    if dense and dense[0][1] * disc[0][1] < 0:
        bad = 1
print('DEFECT' if bad else 'ok')
sys.exit(bad)
