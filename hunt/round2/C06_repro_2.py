# The io type assigned with set_var_io_type() is lost when the specification text declares the variable again
# without an io keyword ("float x"): visitVariableDeclaration -> declare_var resets var_io_dict[x] to 'output'
# (rtamt/syntax/ast/parser/ltl/parser_visitor.py:110, abstract_ast_parser.py:272), while spec.ast.in_vars still lists x.
# All four monitor kinds; shown for dense-time offline and discrete-time online.
import sys, logging
import rtamt
from rtamt import Semantics
logging.disable(logging.CRITICAL)
INF = float('inf')

def build(cls, text):
    s = cls(semantics=Semantics.OUTPUT_ROBUSTNESS)
    s.declare_var('x', 'float'); s.declare_var('y', 'float')
    s.set_var_io_type('x', 'input'); s.set_var_io_type('y', 'output')
    s.spec = text
    s.parse()
    return s

bad = False
for decl in ['', 'float x\nfloat y\n']:
    text = decl + 'out = (x >= 3) and (y >= 1)'
    s = build(rtamt.StlDenseTimeSpecification, text)
    dense = s.evaluate(['x', [[0, 1], [1, 4], [2, 5], [3, 5]]], ['y', [[0, 2], [2, 0], [3, 0]]])
    s = build(rtamt.StlDiscreteTimeSpecification, text)
    disc = [s.update(i, [('x', a), ('y', b)]) for i, (a, b) in enumerate(zip([1, 4, 5], [2, 2, 0]))]
    print('declarations in text: %r   in_vars=%s' % (decl, sorted(s.ast.in_vars)))
    print('   dense offline   required [[0,-inf],[1,1.0],[2,-1.0]...]  observed', dense)
    print('   discrete online required [-inf, 1.0, -1.0]               observed', disc)
    bad = bad or disc != [-INF, 1.0, -1.0] or dense[0][1] != -INF
sys.exit(1 if bad else 0)
