#!/usr/bin/env python
# C18 reproducer 3 (oddity): dense-time OFFLINE monitor, once[a,b] once[c,d] p versus once[a+c,b+d] p
# when p is constantly -inf (here: input-robustness semantics, predicate without input variable that is false).
# The values agree everywhere, but the time stamp of the last returned sample differs.
# Run with PYTHONPATH=/tmp/hunt2/C18
import sys
import rtamt


def offline(text, x):
    spec = rtamt.StlDenseTimeSpecification(semantics=rtamt.Semantics.INPUT_ROBUSTNESS)
    spec.declare_var('x', 'float')
    spec.declare_var('out', 'float')
    spec.spec = text
    spec.parse()
    return spec.evaluate(['x', x])


x = [[0, 1.0], [7, 1.0], [8, 1.0]]
a = offline('out = once[1:4] (once[3:3] (x >= 2));', [list(s) for s in x])
b = offline('out = once[4:7] (x >= 2);', [list(s) for s in x])
print('required: identical signals')
print('once[1:4] once[3:3] (x >= 2):', a)
print('once[4:7] (x >= 2)          :', b)
sys.exit(1 if a != b else 0)
