# C14 defect 4: parse() accepts interval bounds up to 10**1000 although no monitor can hold them: the first
# evaluate()/update() raises OverflowError or MemoryError (not RTAMTException), or does not return
# (offline once/historically/since and online monitors allocate / loop over 'end' padding samples whatever the trace length).
import sys, logging, subprocess
sys.path.insert(0, '/tmp/hunt2/C14')
logging.disable(logging.CRITICAL)
import rtamt
from rtamt.exception.exception import RTAMTException

def first(mode, text):
    kinds = {'discrete offline': rtamt.StlDiscreteTimeOfflineSpecification, 'discrete online': rtamt.StlDiscreteTimeOnlineSpecification,
             'dense offline': rtamt.StlDenseTimeOfflineSpecification, 'dense online': rtamt.StlDenseTimeOnlineSpecification}
    spec = kinds[mode]()
    spec.spec = text
    try:
        spec.parse()
    except RTAMTException as e:
        return 'parse: RTAMTException'
    try:
        if mode == 'discrete offline': spec.evaluate({'time': [0, 1, 2], 'x': [1.0, 2.0, 3.0]})
        elif mode == 'discrete online': spec.update(0, [('x', 1.0)])
        elif mode == 'dense offline': spec.evaluate(['x', [[0.0, 1.0], [1.0, 2.0], [2.0, 3.0]]])
        else: spec.update(['x', [[0.0, 1.0], [1.0, 2.0], [2.0, 3.0]]])
        return 'parse ok, success'
    except RTAMTException:
        return 'parse ok, then RTAMTException'
    except BaseException as e:
        return 'parse ok, then ' + type(e).__name__ + ': ' + str(e)[:60]

if len(sys.argv) == 3:
    print(first(sys.argv[1], sys.argv[2])); sys.exit(0)

bad = 0
for text in ('out = always[0,1e400] x', 'out = historically[0,1e400] x'):
    for mode in ('discrete offline', 'discrete online', 'dense offline', 'dense online'):
        if mode == 'discrete offline' and 'historically' in text: continue   # that one does not return, see below
        o = first(mode, text)
        print('%-32s %-17s required: RTAMTException (at parse or later) or a result   observed: %s' % (text, mode, o))
        if 'RTAMTException' not in o and 'success' not in o: bad = 1
# a bound that a time stamp can hold, three samples of data: never returns / exhausts the memory
for text, mode in (('out = once[0,1e9] x', 'discrete offline'), ('out = always[0,1e12] x', 'discrete offline'), ('out = always[0,1e12] x', 'discrete online')):
    try:
        p = subprocess.run([sys.executable, __file__, mode, text], capture_output=True, text=True, timeout=20)
        o = p.stdout.strip() or 'killed (rc %d)' % p.returncode
    except subprocess.TimeoutExpired:
        o = 'no answer within 20 s'
    print('%-32s %-17s required: a result or RTAMTException   observed: %s' % (text, mode, o))
    if 'RTAMTException' not in o and 'success' not in o: bad = 1
sys.exit(bad)
