# C09 defect 1: add_sub_spec() cannot be combined with a specification text that starts with a
# header / declarations (the documented spec-file layout): the sub-specification assertions are
# pasted IN FRONT of the text, and the grammar wants header and declarations before every assertion.
import sys, logging
logging.disable(logging.CRITICAL)
import rtamt

data = {'time': [0, 1, 2, 3], 'x': [0., 2., 3., 1.], 'y': [1., 1., -1., 2.]}

inl = rtamt.StlDiscreteTimeSpecification()
inl.spec = 'specification Spec1\ninput float x\noutput float y\nconst float c = 1\nout = (once(x > c)) and y'
inl.parse()
required = inl.evaluate(data)

try:
    mod = rtamt.StlDiscreteTimeSpecification()
    mod.add_sub_spec('s0 = once(x > c);')
    mod.spec = 'specification Spec1\ninput float x\noutput float y\nconst float c = 1\nout = s0 and y'
    mod.parse()
    observed = mod.evaluate(data)
except Exception as e:
    observed = '%s: %s' % (type(e).__name__, e)

print('required (inlined) :', required)
print('observed (modular) :', observed)
sys.exit(0 if observed == required else 1)
