# exp() / pow() of finite, well-formed samples raise OverflowError in every monitor
# (x * x * ... overflows silently to inf, exp(inf) returns inf, but exp(1000.0) crashes)
import sys, logging
sys.path.insert(0, '/tmp/hunt2/C17')
logging.disable(logging.CRITICAL)
import rtamt

def run(kind, text):
    s = {'dto': rtamt.StlDiscreteTimeOfflineSpecification, 'dtn': rtamt.StlDiscreteTimeOnlineSpecification,
         'dno': rtamt.StlDenseTimeOfflineSpecification, 'dnn': rtamt.StlDenseTimeOnlineSpecification}[kind]()
    s.declare_var('x', 'float')
    s.spec = text
    s.parse()
    if kind == 'dto': return s.evaluate({'time': [0, 1], 'x': [1.0, 1000.0]})
    if kind == 'dtn': return [s.update(0, [('x', 1.0)]), s.update(1, [('x', 1000.0)])]
    if kind == 'dno': return s.evaluate(['x', [[0, 1.0], [1, 1000.0]]])
    if kind == 'dnn': return [s.update(['x', [[0, 1.0]]]), s.update(['x', [[1, 1000.0]]])]

bad = 0
for text in ['out = exp(x) > 1', 'out = pow(x, 200) > 1']:
    for kind in ['dto', 'dtn', 'dno', 'dnn']:
        try:
            res = run(kind, text)
            print(kind, text, ': returned', res)
        except rtamt.RTAMTException as e:
            print(kind, text, ': RTAMTException', e)
        except Exception as e:
            bad += 1
            print(kind, text, ': required a normal return (robustness +inf / huge) for the finite sample x=1000.0; observed',
                  type(e).__name__, e)
sys.exit(1 if bad else 0)
