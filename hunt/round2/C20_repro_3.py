# explain() re-reads the sampling period: changed between evaluate() and explain(), the bounds are scaled
# differently from the evaluation that is being explained and the cause is missed.
import sys, logging
sys.path.insert(0, '/tmp/hunt2/C20')
logging.disable(logging.CRITICAL)
import rtamt
spec = rtamt.StlDiscreteTimeOfflineSpecification()
spec.declare_var('x', 'float')
spec.spec = 'out = always[0,2](x >= 0)'
spec.parse()
rob = spec.evaluate({'time': [0, 1, 2], 'x': [1.0, 1.0, -1.0]})
spec.set_sampling_period(2, 's', 0.1)
spec.explain()
e = spec.explainer.explanations.get('x', [])
print('rob[0] =', rob[0][1], ' required explanation x: [[2, 2]]  observed:', e)
sys.exit(0 if e == [[2, 2]] else 1)
