# C14 defect 1: a hexadecimal / binary integer literal >= 2**1024 makes parse() raise OverflowError (and, in a
# constant declaration, ValueError for >= ~3572 hex digits) instead of RTAMTException or success.
import sys, logging
sys.path.insert(0, '/tmp/hunt2/C14')
logging.disable(logging.CRITICAL)
import rtamt
from rtamt.exception.exception import RTAMTException

def outcome(text):
    spec = rtamt.StlDiscreteTimeSpecification()
    spec.spec = text
    try:
        spec.parse()
        return 'success'
    except RTAMTException as e:
        return 'RTAMTException'
    except BaseException as e:
        return type(e).__name__ + ': ' + str(e)[:70]

cases = [
    ('out = x > 0x1' + '0' * 256, 'hex literal 2**1024 in an expression'),
    ('out = x > 0b1' + '0' * 1024, 'binary literal 2**1024 in an expression'),
    ('out = x > 1' + '0' * 400, 'control: decimal literal 1e400 (accepted, value inf)'),
    ('const float c = 0x1' + '0' * 3600 + ' out = x > c', 'hex literal of 3601 digits in a constant declaration'),
]
bad = 0
for text, what in cases:
    o = outcome(text)
    print('%-60s required: success or RTAMTException   observed: %s' % (what, o))
    if o not in ('success', 'RTAMTException'):
        bad = 1
sys.exit(bad)
