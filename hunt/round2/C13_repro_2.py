# Oddity: set_sampling_period() with a tolerance outside [0,1] raises, but the period of the call is
# already (partly) installed: ast + online interpreter get it, the offline interpreter does not,
# the old tolerance stays.  The rejected call therefore changes what the counter counts.
import sys, logging
logging.disable(logging.CRITICAL)
import rtamt

def mk():
    s = rtamt.StlDiscreteTimeSpecification()
    s.declare_var('x', 'float')
    s.spec = 'out = historically(x >= 0)'
    s.parse()
    return s

ts = [0, 1, 2, 3]            # perfectly periodic for the configured period 1 s -> 0 violations required
bad = 0
for kind in ('online', 'offline'):
    s = mk()
    try:
        s.set_sampling_period(5, 'ms', 2.0)      # rejected: 'Tolerance must be in [0,1]'
        print('call accepted?!')
    except Exception as e:
        pass
    if kind == 'online':
        for t in ts:
            s.update(t, [('x', 1.0)])
    else:
        s.evaluate({'time': ts, 'x': [1.0] * len(ts)})
    obs = s.sampling_violation_counter
    print('%-7s after a REJECTED set_sampling_period(5,"ms",2.0): required 0 (period still 1 s), observed %d; '
          'online period=%s%s offline period=%s%s' % (kind, obs,
          s.online_interpreter.sampling_period, s.online_interpreter.sampling_period_unit,
          s.offline_interpreter.sampling_period, s.offline_interpreter.sampling_period_unit))
    if obs != 0:
        bad = 1
sys.exit(bad)
