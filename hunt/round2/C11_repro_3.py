# Dense-time offline evaluate() forgets its inputs only when it returns normally:
# after a call that raised, a later data set that omits a variable is evaluated
# with the samples of the failed call (a clean object gives the empty result).
import sys, logging
sys.path.insert(0, '/tmp/hunt2/C11')
import rtamt
logging.disable(logging.CRITICAL)

def mk():
    s = rtamt.StlDenseTimeOfflineSpecification()
    for v in 'xyz':
        s.declare_var(v, 'float')
    s.spec = 'out = ((x >= y) and ((1/z) > 0))'
    s.parse()
    return s

X  = ['x', [[0, 5.0], [3, 5.0]]]
Y  = ['y', [[0, 9.0], [3, 9.0]]]
Z1 = ['z', [[0, 1.0], [3, 1.0]]]
Z0 = ['z', [[0, 0.0], [3, 0.0]]]

s = mk()
s.evaluate(X, Y, Z1)
clean = s.evaluate(X, Z1)            # y omitted: empty signal, empty result
try:
    s.evaluate(X, Y, Z0)             # 1/0
except ZeroDivisionError:
    pass
after_failure = s.evaluate(X, Z1)    # same object, same data as 'clean'

print('required: evaluate(X, Z1) repeats its result :', clean)
print('observed after an evaluate() that raised      :', after_failure)
bad = repr(clean) != repr(after_failure)
print('DEFECT' if bad else 'ok')
sys.exit(1 if bad else 0)
