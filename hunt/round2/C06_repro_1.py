# An io type that is not exactly the string 'input' or 'output' (the exported enum rtamt.StlIOType.IN, 'Input', ...)
# is silently stored as 'undefined'; the variable is then in neither spec.ast.in_vars nor spec.ast.out_vars,
# but rtamt/syntax/node/ltl/variable.py:21-24 counts every non-'input' variable as an OUTPUT variable.
# So under OUTPUT_ROBUSTNESS a predicate over x only (x "is no output variable") keeps its numeric robustness.
import sys, logging
import rtamt
from rtamt import Semantics
logging.disable(logging.CRITICAL)
INF = float('inf')

def mon(io_x):
    s = rtamt.StlDiscreteTimeSpecification(semantics=Semantics.OUTPUT_ROBUSTNESS)
    s.declare_var('x', 'float'); s.declare_var('y', 'float')
    s.set_var_io_type('x', io_x); s.set_var_io_type('y', 'output')
    s.spec = 'out = (x >= 3) and (y >= 1)'
    s.parse()
    r = s.evaluate({'time': [0, 1, 2], 'x': [1, 4, 5], 'y': [2, 2, 0]})
    return [v for t, v in r], sorted(s.ast.in_vars), sorted(s.ast.out_vars)

required = [-INF, 1.0, -1.0]          # x>=3 contributes -inf/+inf, y>=1 its robustness
bad = False
for io in ['input', rtamt.StlIOType.IN, 'Input']:
    got, ins, outs = mon(io)
    print('io type of x = %-16r in_vars=%s out_vars=%s  required %s  observed %s' % (io, ins, outs, required, got))
    bad = bad or got != required
sys.exit(1 if bad else 0)
