#!/usr/bin/env python
# C18 reproducer 1: discrete-time ONLINE monitor after pastify():
# the first H outputs (H = future horizon of the specification) of the two sides of
#   p implies q  ==  (not p) or q            and of
#   C[not eventually[a,b] p]  ==  C[always[a,b] not p]
# differ, although the formulas contain no past-time operator at all.
# Run with PYTHONPATH=/tmp/hunt2/C18
import sys
import rtamt


def online(text, xs, ys):
    spec = rtamt.StlDiscreteTimeSpecification()
    spec.declare_var('x', 'float')
    spec.declare_var('y', 'float')
    spec.declare_var('out', 'float')
    spec.spec = text
    spec.parse()
    spec.pastify()
    return [spec.update(i, [('x', xs[i]), ('y', ys[i])]) for i in range(len(xs))], spec.spec_print().strip()


xs = [1.0, -2.0, 3.0, 0.0, 5.0, 1.0]
ys = [2.0, 1.0, -1.0, 2.0, -3.0, 4.0]

pairs = [
    ('implication',
     'out = (x >= 0) implies (eventually[0:1] (y >= 0));',
     'out = (not (x >= 0)) or (eventually[0:1] (y >= 0));'),
    ('duality below a conjunction',
     'out = (not (eventually[0:1] (x >= 0))) and (always[0:3] (y >= 0));',
     'out = (always[0:1] (not (x >= 0))) and (always[0:3] (y >= 0));'),
]

bad = False
for name, lhs, rhs in pairs:
    a, pa = online(lhs, xs, ys)
    b, pb = online(rhs, xs, ys)
    print(name)
    print('  lhs     :', lhs)
    print('  pastified:', pa)
    print('  rhs     :', rhs)
    print('  pastified:', pb)
    print('  required : the two monitors return the same value at every update')
    print('  lhs out  :', a)
    print('  rhs out  :', b)
    diff = [i for i in range(len(a)) if a[i] != b[i]]
    print('  updates that differ:', diff)
    if diff:
        bad = True

sys.exit(1 if bad else 0)
