# The IA-STL container of README_extensions.md (rtamt/spec/iastl/discrete_time/specification.py, not exported by
# rtamt/__init__.py) cannot be built for any interface-aware semantics: OUTPUT_ROBUSTNESS passes an argument to a
# zero-argument factory (line 25, and would use the STANDARD offline interpreter), the other three leave 'spec' unbound.
import sys
from rtamt import Semantics
from rtamt.spec.iastl.discrete_time.specification import IASTLDiscreteTimeSpecification
bad = False
for sem in Semantics:
    try:
        IASTLDiscreteTimeSpecification(semantics=sem)
        print(sem, 'required: a specification object   observed: ok')
    except Exception as e:
        bad = True
        print(sem, 'required: a specification object   observed: %s: %s' % (type(e).__name__, e))
sys.exit(1 if bad else 0)
