#!/usr/bin/env python
# Second half of the property under the interface-aware semantics (semantics=Semantics.OUTPUT_ROBUSTNESS,
# likewise INPUT_ROBUSTNESS): predicates over input variables are mapped to +-inf, so the reported |rho|
# is NOT a bound on the perturbations that keep the verdict. (req >= 3) and (gnt >= 3) with req = 3.1 (input),
# gnt = 10 (output) reports rho = 7; moving req by 0.2 < 7 flips the verdict.
import sys, logging
logging.disable(logging.CRITICAL)
import rtamt
from rtamt import Semantics


def run(kind, req, gnt):
    s = rtamt.StlDenseTimeSpecification(semantics=Semantics.OUTPUT_ROBUSTNESS) if kind.startswith('dense') \
        else rtamt.StlDiscreteTimeSpecification(semantics=Semantics.OUTPUT_ROBUSTNESS)
    s.declare_var('req', 'float')
    s.declare_var('gnt', 'float')
    s.set_var_io_type('req', 'input')
    s.set_var_io_type('gnt', 'output')
    s.spec = 'out = (req >= 3) and (gnt >= 3);'
    s.parse()
    if kind == 'discrete offline':
        return s.evaluate({'time': [0, 1], 'req': [req, req], 'gnt': [gnt, gnt]})[0][1]
    if kind == 'discrete online':
        return s.update(0, [('req', req), ('gnt', gnt)])
    sig = [['req', [[0, req], [1, req]]], ['gnt', [[0, gnt], [1, gnt]]]]
    if kind == 'dense offline':
        return s.evaluate(*sig)[0][1]
    return s.update(*sig)[0][1]


bad = 0
for kind in ['discrete offline', 'discrete online', 'dense offline', 'dense online']:
    rho = run(kind, 3.1, 10.0)
    rho2 = run(kind, 2.9, 10.0)      # req moved by 0.2
    print(kind, ': rho =', rho, '; required: every trace closer than', abs(rho), 'keeps the verdict;',
          'observed after moving req by 0.2: rho =', rho2)
    if rho > 0.2 and rho2 < 0:
        bad = 1
print('DEFECT' if bad else 'ok')
sys.exit(bad)
