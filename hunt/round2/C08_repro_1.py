# Online discrete-time monitor: the sampling period / default unit configured after the operator
# objects exist (after reset() or after the first update()) is silently ignored, offline honours it.
import sys
sys.path.insert(0, '/tmp/hunt2/C08')
import rtamt

xs = [5, 1, 1, 1, 1, 1, 1]

def make(cls):
    s = cls()
    s.declare_var('x', 'float'); s.declare_var('out', 'float')
    s.spec = 'out = once[0,2s](x);'
    s.parse()
    return s

bad = 0
# (A) parse, reset, THEN configure a 500 ms period: once[0,2s] must look back 4 samples
on = make(rtamt.StlDiscreteTimeOnlineSpecification)
on.reset()
on.set_sampling_period(500, 'ms')
got_on = [on.update(0.5 * i, [('x', v)]) for i, v in enumerate(xs)]
off = make(rtamt.StlDiscreteTimeOfflineSpecification)
off.set_sampling_period(500, 'ms')
got_off = [v for _, v in off.evaluate({'time': [0.5 * i for i in range(len(xs))], 'x': xs})]
required = [5, 5, 5, 5, 5, 1, 1]
print('A required', required)
print('A offline ', got_off)
print('A online  ', got_on)
if got_on != required:
    bad = 1

# (B) same sequence with a period the bound 2 s is not a multiple of: must be rejected
on = make(rtamt.StlDiscreteTimeOnlineSpecification)
on.reset()
on.set_sampling_period(1500, 'ms')
try:
    r = [on.update(1.5 * i, [('x', v)]) for i, v in enumerate(xs)]
    print('B required RTAMTException, observed', r)
    bad = 1
except rtamt.RTAMTException as e:
    print('B rejected:', e)
off = make(rtamt.StlDiscreteTimeOfflineSpecification)
off.set_sampling_period(1500, 'ms')
try:
    off.evaluate({'time': [1.5 * i for i in range(len(xs))], 'x': xs})
    print('B offline accepted')
except rtamt.RTAMTException as e:
    print('B offline rejects:', e)
sys.exit(bad)
