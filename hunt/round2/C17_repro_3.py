# explain() exists on every offline-capable specification class, but only StlDiscreteTimeOfflineSpecification
# has an explainer: on the others it raises AttributeError instead of explaining or of an RTAMTException
import sys, logging
sys.path.insert(0, '/tmp/hunt2/C17')
logging.disable(logging.CRITICAL)
import rtamt

bad = 0
for name, cls in [('StlDiscreteTimeOfflineSpecification', rtamt.StlDiscreteTimeOfflineSpecification),
                  ('StlDiscreteTimeSpecification', rtamt.StlDiscreteTimeSpecification),
                  ('StlDenseTimeOfflineSpecification', rtamt.StlDenseTimeOfflineSpecification),
                  ('StlDenseTimeSpecification', rtamt.StlDenseTimeSpecification)]:
    s = cls()
    s.declare_var('x', 'float')
    s.spec = 'out = always(x > 1)'
    s.parse()
    if 'Discrete' in name:
        s.evaluate({'time': [0, 1, 2], 'x': [2.0, 0.0, 3.0]})
    else:
        s.evaluate(['x', [[0, 2.0], [1, 0.0], [2, 3.0]]])
    try:
        s.explain()
        print(name, ': explain() returned,', s.explainer.explanations)
    except rtamt.RTAMTException as e:
        print(name, ': RTAMTException', e)
    except Exception as e:
        bad += 1
        print(name, ': required an explanation or an RTAMTException; observed', type(e).__name__, e)
sys.exit(1 if bad else 0)
