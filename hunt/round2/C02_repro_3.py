# Oddity: a signal called 'time' can be monitored online, but offline evaluate() reserves the key
# 'time' of the data set for the time stamps and never hands it to the variable.
import sys, logging
sys.path.insert(0, '/tmp/hunt2/C02')
logging.disable(logging.CRITICAL)
import rtamt

TEXT = 'out = once[0:1](time > 2)'
on = rtamt.StlDiscreteTimeOnlineSpecification()
on.declare_var('time', 'float'); on.spec = TEXT; on.parse()
observed_online = [on.update(i, [('time', float(i))]) for i in range(5)]
off = rtamt.StlDiscreteTimeOfflineSpecification()
off.declare_var('time', 'float'); off.spec = TEXT; off.parse()
try:
    observed_offline = [p[1] for p in off.evaluate({'time': [0., 1., 2., 3., 4.]})]
except Exception as e:
    observed_offline = 'raises %r' % e
print('required (both):', [-2.0, -1.0, 0.0, 1.0, 2.0])
print('online         :', observed_online)
print('offline        :', observed_offline)
sys.exit(1 if observed_online != observed_offline else 0)
