# C12 oddity: cost of a modular specification is exponential in the number of chained sub-specifications.
# p_i = p_{i-1} and once(p_{i-1}) : every reference re-evaluates the shared node (offline: no memo;
# online: reuse() walks the whole shared subtree) and node.name doubles in length at every level.
import sys, time, logging
logging.disable(logging.CRITICAL)
import rtamt

def run(n, online):
    s = rtamt.StlDiscreteTimeOnlineSpecification() if online else rtamt.StlDiscreteTimeOfflineSpecification()
    s.declare_var('x', 'float')
    s.add_sub_spec('p0 = x > 0;')
    for i in range(1, n):
        s.add_sub_spec('p%d = p%d and once(p%d);' % (i, i - 1, i - 1))
    s.spec = 'res = p%d' % (n - 1)
    s.parse()
    t = time.time()
    if online:
        for k in range(3):
            s.update(k, [('x', 1.0)])
    else:
        s.evaluate({'time': [0, 1, 2], 'x': [1.0, -1.0, 2.0]})
    return time.time() - t, len(s.ast.specs[-1].name)

bad = False
for online in (False, True):
    t8, l8 = run(8, online)
    t16, l16 = run(16, online)
    print('%s: 8 sub-specs %.3fs (name %d chars), 16 sub-specs %.3fs (name %d chars)' %
          ('online ' if online else 'offline', t8, l8, t16, l16))
    print('   required: cost about doubles (16 formulas of constant size, each value computed once)')
    print('   observed: time x%.0f, name length x%.0f' % (t16 / max(t8, 1e-6), l16 / l8))
    if t16 > 20 * max(t8, 1e-3) or l16 > 20 * l8:
        bad = True
sys.exit(1 if bad else 0)
