"""(i) A second evaluate() whose data set omits a variable silently re-uses the samples of the previous data set
(set_variable_to_ast_from_dataset only overwrites the keys that are present), instead of raising as the first call does.
(ii) The initialiser of an in-text declaration 'float y = x + 1' is parsed and silently dropped
(visitVariableDeclaration only visits it)."""
import sys, logging
sys.path.insert(0, '/tmp/hunt2/C01')
logging.disable(logging.CRITICAL)
import rtamt
bad = False

spec = rtamt.StlDiscreteTimeSpecification()
spec.declare_var('x', 'float'); spec.declare_var('y', 'float')
spec.spec = 'out = x + y'
spec.parse()
spec.evaluate({'time': [0, 1], 'x': [1.0, 2.0], 'y': [100.0, 200.0]})
try:
    got = spec.evaluate({'time': [0, 1], 'x': [5.0, 6.0]})
    print('(i) required: an exception (y has no samples); observed:', got)
    bad = True
except Exception as e:
    print('(i) rejected:', type(e).__name__, e)

spec = rtamt.StlDiscreteTimeSpecification()
spec.spec = 'float x \n float y = x + 1 \n out = y'
spec.parse()
got = spec.evaluate({'time': [0, 1], 'x': [1.0, 2.0], 'y': [50.0, 60.0]})
print('(ii) required: [[0, 2.0], [1, 3.0]] or a syntax error; observed:', got)
bad = bad or [g[1] for g in got] != [2.0, 3.0]
sys.exit(1 if bad else 0)
