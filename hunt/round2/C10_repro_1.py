# reset() does not restore the object that receives the verdict: a formula that reads the
# field it writes (o.value = ... o.value ...) still sees the pre-reset verdict after reset().
import sys, os, logging, tempfile
sys.path.insert(0, '/tmp/hunt2/C10')
logging.disable(logging.CRITICAL)
d = tempfile.mkdtemp()
with open(os.path.join(d, 'c10msgmod.py'), 'w') as f:
    f.write('class Msg(object):\n    def __init__(self):\n        self.value = 0.0\n')
sys.path.insert(0, d)
import rtamt

def make():
    s = rtamt.StlDiscreteTimeOnlineSpecification()
    s.import_module('c10msgmod', 'Msg')
    s.declare_var('o', 'Msg')
    s.declare_var('x', 'float')
    s.spec = 'o.value = (x >= 1) or (o.value >= 1)'
    s.parse()
    return s

post = [0.0, 0.5, 0.0]
a = make()
a.update(0, [['x', 5.0]])          # history: verdict 4.0 is written to o.value
a.reset()
observed = [a.update(t, [['x', v]]) for t, v in enumerate(post)]
b = make()
required = [b.update(t, [['x', v]]) for t, v in enumerate(post)]
print('required (fresh monitor)   :', required)
print('observed (after reset())   :', observed)
sys.exit(1 if observed != required else 0)
