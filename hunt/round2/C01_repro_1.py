"""Bounded always / eventually: cost (and memory) grow with the SQUARE of the bound, whatever the trace length.
A one-sample trace with always[0:b] needs b*b/2 comparisons (visitTimedAlways/visitTimedEventually pad the
sample list to b+1 entries and compute b+1 windows of b+1 entries before cutting the result back to one entry).
Required: cost O(trace length) (the value is just x[0]).  Observed: time ratio ~ (b2/b1)**2."""
import sys, time, logging
sys.path.insert(0, '/tmp/hunt2/C01')
logging.disable(logging.CRITICAL)
import rtamt

def run(b):
    spec = rtamt.StlDiscreteTimeSpecification()
    spec.declare_var('x', 'float')
    spec.spec = 'out = always[0:%d] x' % b
    spec.parse()
    t0 = time.time()
    r = spec.evaluate({'time': [0], 'x': [1.0]})
    return time.time() - t0, r

run(10)
t1, r1 = run(2000)
t2, r2 = run(16000)
print('result', r2, '(correct value)')
print('required: cost independent of the bound for a 1-sample trace (ratio ~1, at most ~8 if linear)')
print('observed: bound 2000 -> %.3f s, bound 16000 -> %.3f s, ratio %.1f' % (t1, t2, t2 / t1))
sys.exit(1 if t2 / t1 > 20 else 0)
