#!/usr/bin/env python
# C17 reproducer 6: an online specification object whose text is changed and parsed again after it
# has been updated once keeps the operators of the OLD formula (set_ast_flag is never cleared by parse()):
# the next update() crashes with KeyError (discrete time).  The offline objects accept the same sequence.
#
# run:  cd /tmp/hunt/C17 && PYTHONPATH=/tmp/hunt/C17 /venv/bin/python /tmp/hunt/C17_repro_6.py
import sys
import logging
import rtamt

logging.disable(logging.CRITICAL)
bad = False

s = rtamt.StlDiscreteTimeOfflineSpecification()
s.declare_var('a', 'float'); s.declare_var('b', 'float')
s.spec = 'out = a>=2'; s.parse()
r1 = s.evaluate({'time': [0], 'a': [1.0], 'b': [5.0]})
s.spec = 'out = b>=2'; s.parse()
print('offline control: a>=2 ->', r1, ' then re-parsed b>=2 ->', s.evaluate({'time': [0], 'a': [1.0], 'b': [5.0]}))

print('required: after spec.spec = "out = b>=2"; parse() the online monitor returns 3.0 (b - 2), or an RTAMTException')
s = rtamt.StlDiscreteTimeOnlineSpecification()
s.declare_var('a', 'float'); s.declare_var('b', 'float')
s.spec = 'out = a>=2'; s.parse()
print('online: a>=2 ->', s.update(0, [('a', 1.0), ('b', 5.0)]))
s.spec = 'out = b>=2'; s.parse()
try:
    print('online: re-parsed b>=2 ->', s.update(1, [('a', 1.0), ('b', 5.0)]))
except rtamt.RTAMTException as e:
    print('online: clean rejection:', e)
except Exception as e:
    print('online: CRASH %s: %s' % (type(e).__name__, e))
    bad = True
sys.exit(1 if bad else 0)
