# C06 repro 4: one specification object, io assignment changed and parse() called again.
# The offline monitors and the dense-time online monitor follow the new assignment; the discrete-time
# online monitor keeps the PredicateOperation objects (with the old in_vars/out_vars) that were built
# at the first update(), even after reset().
import sys, logging, rtamt
logging.disable(logging.CRITICAL)
inf = float('inf')
xs = [100, -1, -2, 5, -1]; ys = [20, -2, 10, 4, -1]; n = 5
required2 = [inf, 4, inf, inf, 4]   # after the change: x output, y input, output robustness
bad = False
for dense in (False, True):
    for mode in ('offline', 'online'):
        cls = rtamt.StlDenseTimeSpecification if dense else rtamt.StlDiscreteTimeSpecification
        s = cls(semantics=rtamt.Semantics.OUTPUT_ROBUSTNESS)
        s.declare_var('x', 'float'); s.declare_var('y', 'float')
        s.set_var_io_type('x', 'input'); s.set_var_io_type('y', 'output')
        s.spec = 'out = (x >= 3) implies (y >= 0)'; s.parse()
        def run():
            if dense:
                X = ['x', [[i, xs[i]] for i in range(n)]]; Y = ['y', [[i, ys[i]] for i in range(n)]]
                r = s.evaluate(X, Y) if mode == 'offline' else s.update(X, Y)
                d = dict((t, v) for t, v in r); got = []; last = None
                for i in range(n):
                    last = d.get(i, last); got.append(last)
                return got
            if mode == 'offline':
                return [v for _, v in s.evaluate({'time': list(range(n)), 'x': xs, 'y': ys})]
            return [s.update(i, [('x', xs[i]), ('y', ys[i])]) for i in range(n)]
        run()
        s.set_var_io_type('x', 'output'); s.set_var_io_type('y', 'input')
        s.parse()
        if mode == 'online':
            s.reset()
        got = run()
        ok = got == required2
        bad |= not ok
        print('%-8s %-7s second run: required %s  library %s  %s' % ('dense' if dense else 'discrete', mode, required2, got, 'ok' if ok else 'VIOLATION (old io assignment)'))
sys.exit(1 if bad else 0)
