# C05 repro 3 (oddity): a chunking in which the FIRST update() call carries samples of only one of the
# variables fails with a TypeError, unless the other variable is passed explicitly with an empty list.
# (In later calls a variable may be left out.)
import sys
import rtamt

x = [[0, 1], [1, 3], [2, 2]]
y = [[0, 2], [1.5, 1], [2, 4]]

def mk():
    spec = rtamt.StlDenseTimeSpecification()
    spec.declare_var('x', 'float')
    spec.declare_var('y', 'float')
    spec.declare_var('out', 'float')
    spec.spec = 'out = x and y'
    spec.parse()
    return spec

s = mk()
ref = [s.update(['x', x], ['y', []]), s.update(['x', []], ['y', y])]
print("update(['x',x],['y',[]]); update(['x',[]],['y',y]) ->", ref)
print('required: the same when the empty batches are simply left out')
s = mk()
try:
    got = [s.update(['x', x]), s.update(['y', y])]
    print("update(['x',x]); update(['y',y])                 ->", got)
    sys.exit(0 if got == ref else 1)
except Exception as e:
    print("update(['x',x]) raises", repr(e))
    sys.exit(1)
