# C09 repro 3 (constant vs literal): declare_const() with the value given as a Python float, or as a
# hexadecimal string, does not behave like the literal.
#  - float 0.3 used as a temporal bound: visitConstantTimeLiteral does Fraction(Decimal(0.3)) (binary
#    expansion of the float, not 3/10) -> "bound must be a multiple of the sampling period".
#  - '0x2': visitExprId does float('0x2') -> ValueError; the literal 0x2 and an in-text
#    'const int c = 0x2' are accepted (visitConstantDeclaration / visitExprLiteral normalise them).
import sys, logging
import rtamt
logging.disable(logging.CRITICAL)

d = {'time': [0, 0.1, 0.2, 0.3, 0.4, 0.5], 'x': [1., 2., 3., 0., 5., 1.]}
def run(setup, text):
    s = rtamt.StlDiscreteTimeSpecification()
    s.declare_var('x', 'float')
    s.set_sampling_period(100, 'ms', 0.1)
    setup(s)
    s.spec = text
    try:
        s.parse()
        return s.evaluate(d)
    except Exception as e:
        return 'EXCEPTION %s: %s' % (type(e).__name__, e)
bad = False
req = run(lambda s: None, 'out = always[0:0.3](x >= 1)')
got = run(lambda s: s.declare_const('T', 'float', 0.3), 'out = always[0:T](x >= 1)')
print('float bound: required', req, '\n             library ', got); bad |= req != got
req = run(lambda s: None, 'out = (x >= 0x2)')
got = run(lambda s: s.declare_const('c', 'int', '0x2'), 'out = (x >= c)')
print('hex const  : required', req, '\n             library ', got); bad |= req != got
sys.exit(1 if bad else 0)
