# C01 / C07: an int (or Fraction) sample that meets a float literal is rounded to float first, so an exact input gives
# a verdict with the wrong sign.  x = 2**53+1 (int), spec  x - 9007199254740992 <= 0.5 :
# mathematically x - 2**53 = 1 > 0.5, robustness -0.5 (violated); all four monitors report +0.5 (satisfied).
import sys, logging
sys.path.insert(0, '/tmp/hunt4/T01')
from fractions import Fraction
import rtamt
logging.disable(logging.WARNING)
X = 2 ** 53 + 1
text = 'out = x - 9007199254740992 <= 0.5'
required = Fraction(1, 2) - (X - 2 ** 53)
def mk(cls):
    s = cls(); s.declare_var('x', 'float'); s.spec = text; s.parse(); return s
res = {
 'discrete offline': mk(rtamt.StlDiscreteTimeOfflineSpecification).evaluate({'time': [0], 'x': [X]})[0][1],
 'discrete online': mk(rtamt.StlDiscreteTimeOnlineSpecification).update(0, [('x', X)]),
 'dense offline': mk(rtamt.StlDenseTimeOfflineSpecification).evaluate(['x', [[0, X], [1, X]]])[0][1],
 'dense online': mk(rtamt.StlDenseTimeOnlineSpecification).update(['x', [[0, X], [1, X]]])[0][1],
}
bad = 0
for k, v in res.items():
    print('%-17s required %s (violated)  observed %s' % (k, float(required), v))
    if not v < 0: bad = 1
print('DEFECT' if bad else 'ok')
sys.exit(bad)
