# A pastify() that FAILS (RTAMTException: unbounded always) has already rewritten every bound into the
# default unit: the specification the caller keeps using offline is no longer the one that was parsed,
# which shows as soon as the default unit is changed (variant of the known "unit changed after pastify()").
import sys, logging
logging.disable(logging.CRITICAL)
import rtamt
d = {'time': [0, 1, 2, 3, 4], 'x': [10, 50, 20, 70, 10], 'y': [3, 0, 0, 0, 4]}
text = 'out = (always(x>=1)) and once[0,2s](y>=1)'
def run(try_pastify):
    s = rtamt.StlDiscreteTimeSpecification(); s.spec = text; s.parse()
    if try_pastify:
        try: s.pastify()
        except rtamt.RTAMTException as e: print('pastify():', e)
    s.unit = 'ms'; s.set_sampling_period(1, 'ms')     # 2s = 2000 samples
    return s.evaluate(d)
required = run(False); observed = run(True)
print('required:', required); print('observed:', observed)
sys.exit(1 if observed != required else 0)
