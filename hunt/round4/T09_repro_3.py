# The dense-time online monitor keeps references to the caller's [t, v] sample lists (and hands out
# its own): a caller that recycles its sample objects between two update() calls changes the result.
import sys, copy, logging
logging.disable(logging.CRITICAL)
import rtamt
chunks = [[[0, 4], [3, 0], [6, 1]], [[9, 6], [11, 4]], [[14, 2], [15, 2]]]
def run(recycle):
    s = rtamt.StlDenseTimeOnlineSpecification(); s.spec = 'out = (y >= 6)'; s.parse()
    pool = [[0, 0] for _ in range(3)]; out = []
    for c in chunks:
        if recycle:
            buf = pool[:len(c)]
            for q, p in zip(buf, c): q[0], q[1] = p      # same pair objects, new contents
        else:
            buf = [list(p) for p in c]
        try:
            out.append(copy.deepcopy(s.update(['y', buf])))
        except Exception as e:
            out.append('%s: %s' % (type(e).__name__, e)); break
    return out
required = run(False); observed = run(True)
print('required (fresh sample lists)   :', required)
print('observed (recycled sample lists):', observed)
sys.exit(1 if observed != required else 0)
