#!/usr/bin/env python
# Oddity (outside C05 as stated): a batch whose first sample REPEATS the time of the last sample
# seen so far but carries a DIFFERENT value is resolved differently by different operators of
# the dense-time online monitor (and differently from the same samples sent in one batch).
#
#   once[0,10] x  ==  once x   for every signal shorter than 10 time units, whatever reading
#   of the doubled sample is taken (old value wins / new value wins).
#
# run: PYTHONPATH=/tmp/hunt4/T07 /venv/bin/python /tmp/hunt4/T07_repro_1.py
import sys
import rtamt


def monitor(formula):
    spec = rtamt.StlDenseTimeSpecification()
    spec.declare_var('x', 'float')
    spec.declare_var('out', 'float')
    spec.spec = 'out = ' + formula
    spec.parse()
    return spec


def value_at(samples, t):
    val = None
    for ts, v in samples:
        if ts <= t:
            val = v
    return val


batch1 = [[0, 1], [2, 3]]
batch2 = [[2, 5], [4, 0], [6, 2]]       # repeats time 2 with another value

results = {}
for formula in ['once[0,10] x', 'once x']:
    m = monitor(formula)
    split = m.update(['x', [list(s) for s in batch1]]) + m.update(['x', [list(s) for s in batch2]])
    m = monitor(formula)
    try:
        whole = m.update(['x', [list(s) for s in batch1 + batch2]])
    except Exception as e:  # binary operators raise here
        whole = 'raised %s' % type(e).__name__
    results[formula] = (split, whole)
    print('%-13s two batches: %s' % (formula, split))
    print('%-13s one batch  : %s' % ('', whole))

a_split, a_whole = results['once[0,10] x']
b_split, b_whole = results['once x']
bad = False
for t in [2, 3, 5, 6]:
    va, vb, vw = value_at(a_split, t), value_at(b_split, t), value_at(a_whole, t)
    print('t=%s  required: once[0,10] x == once x, and the same for both chunkings | observed: '
          'once[0,10] x (two batches) = %s, once x (two batches) = %s, once[0,10] x (one batch) = %s' % (t, va, vb, vw))
    if va != vb or va != vw:
        bad = True

sys.exit(1 if bad else 0)
