# oddity: set_sampling_period() between evaluate() and explain(): the windows of the explanation are
# computed with the new period although the results are those of the old one
import sys, logging
sys.path.insert(0, '/tmp/hunt4/T10')
logging.disable(logging.CRITICAL)
import rtamt
def build():
    s = rtamt.StlDiscreteTimeOfflineSpecification()
    s.declare_var('x', 'float')
    s.spec = 'out = always[0,2](x > 0)'
    s.parse()
    return s
d = {'time': [0, 1, 2], 'x': [1, 2, -3]}
s = build()
r = s.evaluate(d)
s.set_sampling_period(2, 's', 0.1)
s.explain()
rep = s.explainer.explanations.get('x')
print('robustness at 0:', r[0][1], ' reported for x:', rep)
print('required : x sample 2 reported (or RTAMTException)')
bad = r[0][1] < 0 and [2, 2] not in (rep or [])
print('observed :', 'sample 2 (the only cause) is not reported (defect)' if bad else 'ok')
sys.exit(1 if bad else 0)
