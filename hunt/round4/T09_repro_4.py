# Calls made too early raise IndexError / KeyError / AttributeError instead of RTAMTException.
import sys, logging
logging.disable(logging.CRITICAL)
import rtamt
bad = False
def check(label, f):
    global bad
    try:
        f(); print(label, '-> returned')
    except rtamt.RTAMTException as e:
        print(label, '-> RTAMTException (as required)')
    except Exception as e:
        bad = True
        print(label, '-> required RTAMTException, observed %s: %s' % (type(e).__name__, e))
s = rtamt.StlDiscreteTimeOnlineSpecification(); s.spec = 'out = x>=1'
check('update() before parse()        ', lambda: s.update(0, [['x', 1]]))
s = rtamt.StlDenseTimeOfflineSpecification(); s.spec = 'out = x>=1'
check('evaluate() before parse()      ', lambda: s.evaluate(['x', [[0, 1], [1, 2]]]))
s = rtamt.StlDiscreteTimeOfflineSpecification(); s.spec = 'out = x>=1'; s.parse()
check('get_value() before evaluate()  ', lambda: s.get_value('out'))
check('explain() before evaluate()    ', lambda: s.explain())
check('get_value() of an unknown name ', lambda: s.get_value('nope'))
s = rtamt.StlDiscreteTimeSpecification(); s.spec = 'out = x>=1'; s.parse()
s.reset()   # "harmless"
check('combined class: reset() then evaluate()', lambda: s.evaluate({'time': [0, 1], 'x': [1, 2]}))
sys.exit(1 if bad else 0)
