# set_var_io_type() called after parse() is silently ignored by the interface-aware semantics (C06).
import sys, logging
logging.disable(logging.CRITICAL)
import rtamt
from rtamt import Semantics
data = {'time': [0, 1, 2], 'a': [1, 5, 2], 'b': [4, 1, 3]}
def mk(late):
    s = rtamt.StlDiscreteTimeSpecification(semantics=Semantics.OUTPUT_ROBUSTNESS)
    s.declare_var('a', 'float'); s.declare_var('b', 'float')
    if not late:
        s.set_var_io_type('a', 'input'); s.set_var_io_type('b', 'output')
    s.spec = 'out = (a>=2) or (b>=2)'
    s.parse()
    if late:
        s.set_var_io_type('a', 'input'); s.set_var_io_type('b', 'output')
    return s
required = mk(False).evaluate(data)     # a>=2 mentions no output variable: +-inf
s = mk(True)
observed = s.evaluate(data)
print('io types the object holds:', s.ast.var_io_dict)
print('required (a is an input) :', required)
print('observed                 :', observed)
sys.exit(1 if observed != required else 0)
