# Oddity: an assertion may take the name of a declared constant; a later reference to the name reads the
# constant, while get_value(name) returns the assertion (inlining the sub-specification gives another result).
import sys, logging
logging.disable(logging.CRITICAL)
sys.path.insert(0, '/tmp/hunt4/T08')
import rtamt

data = {'time': [0, 1, 2], 'x': [0.0, 2.0, 3.0]}
s = rtamt.StlDiscreteTimeOfflineSpecification()
s.spec = 'const float c = 7  c = x > 1;  out = c'
s.parse()
got = [v for _, v in s.evaluate(dict(data))]
named = list(s.get_value('c'))
i = rtamt.StlDiscreteTimeOfflineSpecification()
i.spec = 'out = (x > 1)'
i.parse()
inl = [v for _, v in i.evaluate(dict(data))]
print('text                       :', s.spec)
print('required (c = sub-spec)    :', inl, ' or RTAMTException "Constant c already declared"')
print('observed out               :', got)
print('observed get_value("c")    :', named)
sys.exit(1 if got != inl else 0)
