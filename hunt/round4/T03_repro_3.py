# a variable read only by a sub-specification the reported formula does not use must still be supplied:
# discrete offline raises TypeError (the inlined specification evaluates; the discrete online monitor evaluates too)
import sys, logging
import rtamt
from rtamt.exception.exception import RTAMTException
logging.disable(logging.CRITICAL)

data = {'time': [0, 1, 2], 'x': [1.0, -2.0, 3.0]}
inl = rtamt.StlDiscreteTimeOfflineSpecification()
inl.declare_var('x', 'float'); inl.declare_var('z', 'float')
inl.spec = 'out = x > 0'; inl.parse()
required = inl.evaluate(dict(data))

s = rtamt.StlDiscreteTimeOfflineSpecification()
s.declare_var('x', 'float'); s.declare_var('z', 'float')
s.add_sub_spec('p0 = z > 0')          # never referenced by out
s.spec = 'out = x > 0'; s.parse()
try:
    observed = s.evaluate(dict(data))
except RTAMTException as e:
    print('rejected cleanly:', e); sys.exit(0)
except Exception as e:
    observed = '%s: %s' % (type(e).__name__, e)
print('required (inlined form, or an RTAMTException):', required)
print('observed:', observed)
sys.exit(1 if observed != required else 0)
