# Oddity: a name declared first as a constant and then as a variable stays a constant, although the
# library logs "Variable c was already declared. It is now overriden with the new declaration";
# the opposite order (variable, then constant) is rejected with RTAMTException.
import sys, logging
logging.disable(logging.CRITICAL)
sys.path.insert(0, '/tmp/hunt4/T08')
import rtamt

s = rtamt.StlDiscreteTimeOfflineSpecification()
s.spec = 'const float c = 5  float c  out = c > 1'
s.parse()
got = [v for _, v in s.evaluate({'time': [0, 1, 2], 'c': [0.0, 0.0, 0.0]})]
required = [-1.0, -1.0, -1.0]   # c is the float signal of the later declaration (or the redeclaration is rejected)
print('text     :', s.spec)
print('required :', required, '(or RTAMTException, as for "float c const float c = 5")')
print('observed :', got, ' AST:', s.spec_print().strip())
s2 = rtamt.StlDiscreteTimeOfflineSpecification()
s2.spec = 'float c  const float c = 5  out = c > 1'
try:
    s2.parse(); print('reverse order: accepted')
except rtamt.RTAMTException as e:
    print('reverse order: rejected -', e)
sys.exit(1 if got != required else 0)
