# The unit keywords are reserved words of the lexer: a declared signal called s, ms, us, ns -- or ps,
# which is not even a unit the interval grammar accepts -- cannot be used in a formula.
import sys, logging
logging.disable(logging.CRITICAL)
import rtamt
from rtamt.exception.exception import RTAMTException
bad = False
for v in ('s', 'ms', 'us', 'ns', 'ps'):
    s = rtamt.StlDiscreteTimeOfflineSpecification(); s.declare_var(v, 'float'); s.spec = 'out = %s >= 1' % v
    try:
        s.parse(); print(v, 'parsed')
    except RTAMTException as e:
        bad = True; print('signal', v, ': required: usable like any identifier; observed', str(e)[:60])
sys.exit(1 if bad else 0)
