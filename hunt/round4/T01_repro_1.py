# C06 (and C19): dense-time interface-aware semantics decide "the predicate holds" from the ROUNDED float
# difference left - right, the discrete-time monitors compare left and right exactly.
# x (input) = 1/3 as a Fraction, predicate x > 0.3333333333333333 (the float just below 1/3) holds;
# x = 2**53+1 as an int, predicate x <= 9007199254740992 does not hold.
import sys, logging
sys.path.insert(0, '/tmp/hunt4/T01')
from fractions import Fraction
import rtamt
logging.disable(logging.WARNING)

def mk(cls, text):
    s = cls(semantics=rtamt.Semantics.OUTPUT_ROBUSTNESS)
    s.declare_var('x', 'float'); s.declare_var('o', 'float')
    s.set_var_io_type('x', 'input'); s.set_var_io_type('o', 'output')
    s.spec = text; s.parse()
    return s

inf = float('inf')
bad = 0
for text, v, required in [('out = x > 0.3333333333333333', Fraction(1, 3), inf),
                          ('out = x <= 9007199254740992', 2 ** 53 + 1, -inf)]:
    d_off = mk(rtamt.StlDiscreteTimeSpecification, text).evaluate({'time': [0, 1], 'x': [v, v], 'o': [0, 0]})[0][1]
    d_onl = mk(rtamt.StlDiscreteTimeSpecification, text).update(0, [('x', v), ('o', 0)])
    e_off = mk(rtamt.StlDenseTimeSpecification, text).evaluate(['x', [[0, v], [1, v]]], ['o', [[0, 0], [1, 0]]])[0][1]
    e_onl = mk(rtamt.StlDenseTimeSpecification, text).update(['x', [[0, v], [1, v]]], ['o', [[0, 0], [1, 0]]])[0][1]
    print('%-32s x=%-18r required %-5s | discrete offline %s online %s | dense offline %s online %s'
          % (text, v, required, d_off, d_onl, e_off, e_onl))
    if not (d_off == d_onl == e_off == e_onl == required):
        bad = 1
print('DEFECT' if bad else 'ok')
sys.exit(bad)
