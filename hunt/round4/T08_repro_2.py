# Oddity: a variable declared with a dotted name (the lexer allows '.' inside identifiers, and the
# declaration is accepted) cannot be referenced: the reference is rejected as "undeclared".
import sys, logging
logging.disable(logging.CRITICAL)
sys.path.insert(0, '/tmp/hunt4/T08')
import rtamt

s = rtamt.StlDiscreteTimeOfflineSpecification()
s.spec = 'float x.y  out = x.y > 1'
print('text     :', s.spec)
print('required : accepted (x.y is declared two tokens earlier) or the declaration itself rejected')
try:
    s.parse()
    print('observed : accepted', s.spec_print().strip())
    sys.exit(0)
except rtamt.RTAMTException as e:
    print('observed : declaration accepted, reference rejected -', e)
    sys.exit(1)
