# reset() (or an update()) BEFORE pastify() makes every later update()/reset() raise KeyError,
# as soon as pastify() rewrites a bound (here 2000ms -> 2 in the default unit s).
# C10: "calling reset() before the first update is harmless"; C03: pastify() does not change the meaning
# of a specification without future operators; C17: no crash.
import sys, logging
logging.disable(logging.CRITICAL)
import rtamt

xs = [1, 5, 2, 7, 3, 0]
bad = False

def fresh(cls, text):
    s = cls(); s.spec = text; s.parse(); s.pastify(); return s

# discrete time
text = 'out = once[0,2000ms] (x>=3)'
f = fresh(rtamt.StlDiscreteTimeOnlineSpecification, text)
ref = [f.update(i, [['x', v]]) for i, v in enumerate(xs)]
s = rtamt.StlDiscreteTimeOnlineSpecification(); s.spec = text; s.parse()
s.reset()            # harmless by C10
s.pastify()
try:
    got = [s.update(i, [['x', v]]) for i, v in enumerate(xs)]
except Exception as e:
    got = '%s: %s' % (type(e).__name__, e)
print('discrete parse/reset/pastify/update  required:', ref)
print('                                     observed:', got)
bad |= got != ref

# dense time
f = fresh(rtamt.StlDenseTimeOnlineSpecification, text)
ref = f.update(['x', [[i, v] for i, v in enumerate(xs)]])
s = rtamt.StlDenseTimeOnlineSpecification(); s.spec = text; s.parse()
s.reset()
s.pastify()
try:
    got = s.update(['x', [[i, v] for i, v in enumerate(xs)]])
except Exception as e:
    got = '%s: %s' % (type(e).__name__, e)
print('dense    parse/reset/pastify/update  required:', ref)
print('                                     observed:', got)
bad |= got != ref
sys.exit(1 if bad else 0)
