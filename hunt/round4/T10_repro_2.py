# oddity: explain() before any evaluate() raises KeyError, not RTAMTException
import sys, logging
sys.path.insert(0, '/tmp/hunt4/T10')
logging.disable(logging.CRITICAL)
import rtamt
from rtamt.exception.exception import RTAMTException
s = rtamt.StlDiscreteTimeOfflineSpecification()
s.declare_var('x', 'float')
s.spec = 'out = always(x > 0)'
s.parse()
print('required : explain() before evaluate() returns normally or raises RTAMTException')
try:
    s.explain()
    print('observed : returned normally'); sys.exit(0)
except RTAMTException as e:
    print('observed : RTAMTException', e); sys.exit(0)
except Exception as e:
    print('observed :', type(e).__name__, repr(e), '(defect)'); sys.exit(1)
