# Dense time, unit ns, INTEGER time-stamps (no decimal anywhere): nanoseconds since the epoch.
# The bounded operators add float(bound) to the stamps, so integers above 2**53 are rounded and
# whole segments of the result disappear.  Shifting all stamps by a constant must shift the result.
import sys, logging
logging.disable(logging.CRITICAL)
import rtamt

def monitor(T0, online):
    cls = rtamt.StlDenseTimeOnlineSpecification if online else rtamt.StlDenseTimeOfflineSpecification
    s = cls(); s.declare_var('x', 'float'); s.unit = 'ns'
    s.spec = 'out = once[0,2] x'; s.parse()
    x = [[0, 1], [T0 + 5, -1], [T0 + 10, 1], [T0 + 20, 1]]     # first sample at 0: no late start
    return s.update(['x', x]) if online else s.evaluate(['x', x])

def at(out, t):          # right-continuous step function
    v = None
    for ts, val in out:
        if ts <= t: v = val
    return v

bad = False
for online in (False, True):
    small = monitor(1000, online)
    big = monitor(1700000000000000000, online)
    req = at(small, 1000 + 8)                       # x = -1 on [T0+5,T0+10): once[0,2] x is -1 on [T0+7,T0+10)
    obs = at(big, 1700000000000000000 + 8)
    print('online' if online else 'offline', 'once[0,2] x at T0+8: required', req, '(= -1), observed', obs, ' output:', big)
    if req != -1 or obs != req: bad = True
sys.exit(1 if bad else 0)
