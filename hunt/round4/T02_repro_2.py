# Long-run aggravation of the known "past operator above a future operator after pastify()" defect:
# when the past operator is UNBOUNDED (historically / once / since) it latches the +-inf padding that
# pastify()'s delay (once[h,h]) produces during the first h updates, so the online value is wrong at
# EVERY update of an arbitrarily long run, not only for the first samples.  (C03)
import sys, logging
sys.path.insert(0, '/tmp/hunt4/T02')
logging.disable(logging.WARNING)
import rtamt

N = 5000
x = [5.0] * N                       # x >= 0 and x >= 3 hold everywhere with margins 5 and 2
text = 'out = historically((x>=0) and eventually[1,2](x>=3))'
h = 2

off = rtamt.StlDiscreteTimeOfflineSpecification(); off.declare_var('x', 'float'); off.spec = text; off.parse()
ref = [v for _, v in off.evaluate({'time': list(range(N)), 'x': x})]

on = rtamt.StlDiscreteTimeOnlineSpecification(); on.declare_var('x', 'float'); on.spec = text; on.parse(); on.pastify()
got = [on.update(i, [('x', x[i])]) for i in range(N)]
bad = [i for i in range(h, N) if got[i] != ref[i - h]]

d = rtamt.StlDenseTimeOnlineSpecification(); d.declare_var('x', 'float'); d.spec = text; d.parse(); d.pastify()
dout = []
for i in range(200):
    dout += d.update(['x', [[i, 5.0]]])

print('spec:', text, ' horizon h =', h, ' x = 5 for', N, 'samples')
print('required: update i >= h returns rho(i-h) = 2.0   (offline:', ref[0], '...', ref[N - h - 1], ')')
print('observed discrete online: update 2 ->', got[2], ', update', N - 1, '->', got[N - 1], '; wrong at', len(bad), 'of', N - h, 'updates')
print('observed dense online (after 200 updates): last samples', dout[-2:])
sys.exit(1 if bad else 0)
