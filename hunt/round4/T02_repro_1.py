# Dense-time online monitor: "p since[a,b] q" keeps EVERY input sample it was ever given
# (SinceTimedOperation.sample_left_buf / sample_right_buf are appended to and never read or trimmed),
# so memory grows linearly with the number of updates and each update copies the whole history
# (O(n) per update, O(n^2) per run).  once[a,b] / historically[a,b] / unbounded since keep bounded state.
import sys, time, tracemalloc, logging
sys.path.insert(0, '/tmp/hunt4/T02')
logging.disable(logging.WARNING)
import rtamt

def run(text, n):
    s = rtamt.StlDenseTimeOnlineSpecification()
    s.declare_var('x', 'float'); s.declare_var('y', 'float')
    s.spec = text
    s.parse()
    tracemalloc.start()
    marks = []
    t0 = time.time()
    for i in range(n):
        s.update(['x', [[i, float(i % 7)]]], ['y', [[i, float(i % 5)]]])
        if (i + 1) % (n // 4) == 0:
            marks.append((i + 1, tracemalloc.get_traced_memory()[0] // 1024, round(time.time() - t0, 2)))
            t0 = time.time()
    tracemalloc.stop()
    op = [o for o in s.online_interpreter.online_operator_dict.values() if hasattr(o, 'sample_left_buf') and hasattr(o, 'since')]
    held = len(op[0].sample_left_buf) if op else None
    return marks, held

N = 20000
ref, _ = run('out = once[2,10]((x>=3) since (y>=3))', N)
obs, held = run('out = (x>=3) since[2,10] (y>=3)', N)
print('required: state of a bounded-past operator is bounded by its window (cf. once[2,10] of an unbounded since):')
print('   (updates, KiB held, seconds for the quarter):', ref)
print('observed for  (x>=3) since[2,10] (y>=3):')
print('   (updates, KiB held, seconds for the quarter):', obs)
print('   samples of x still stored in the operator after %d updates: %s' % (N, held))
bad = obs[-1][1] > 4 * obs[0][1] * 0.9 and obs[-1][1] > 20 * ref[-1][1]
print('DEFECT: buffer grows without bound' if bad else 'ok')
sys.exit(1 if bad else 0)
