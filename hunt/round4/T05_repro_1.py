"""C06 (and the sign soundness of C07) in the dense-time interface-aware monitors.

Under output-robustness a predicate without output variables contributes +inf where it HOLDS.
The discrete-time IA monitors decide 'holds' by comparing the two operands (x > c); the dense-time
IA monitors decide it from the sign of the rounded difference x - c.  For an int sample above 2**53
the difference rounds to 0.0 although x > c, so the dense-time monitors treat a predicate that holds
as violated: the whole formula gets a strictly negative value although it is satisfied.
"""
import sys, logging
sys.path.insert(0, '/tmp/hunt4/T05')
logging.disable(logging.CRITICAL)
import rtamt

big = 10 ** 16 + 1            # an int sample; 10**16 + 1 > 1e16 holds (Python compares int and float exactly)
text = 'input int x\noutput float u\nout = (x > 10000000000000000) or (u >= 5)'
x = [[0, big], [1, big]]
u = [[0, 1.0], [1, 2.0]]
inf = float('inf')


def disc_off(sem):
    s = rtamt.StlDiscreteTimeSpecification(semantics=sem); s.spec = text; s.parse()
    return [p[1] for p in s.evaluate({'time': [0, 1], 'x': [big, big], 'u': [1.0, 2.0]})]


def disc_on(sem):
    s = rtamt.StlDiscreteTimeSpecification(semantics=sem); s.spec = text; s.parse()
    return [s.update(i, [('x', big), ('u', 1.0 + i)]) for i in range(2)]


def dense_off(sem):
    s = rtamt.StlDenseTimeSpecification(semantics=sem); s.spec = text; s.parse()
    return s.evaluate(['x', x], ['u', u])


def dense_on(sem):
    s = rtamt.StlDenseTimeSpecification(semantics=sem); s.spec = text; s.parse()
    return s.update(['x', x], ['u', u])


sem = rtamt.Semantics.OUTPUT_ROBUSTNESS
required = [inf, inf]          # x > 1e16 holds at both samples -> +inf; max(+inf, u - 5) = +inf
print('x > 1e16 holds          :', big > 1e16)
print('required (C06)          :', required)
bad = False
for name, f in (('discrete offline', disc_off), ('discrete online', disc_on), ('dense offline', dense_off), ('dense online', dense_on)):
    got = f(sem)
    vals = [p[1] for p in got] if got and isinstance(got[0], list) else got
    ok = all(v == inf for v in vals)
    print('%-24s: %s %s' % (name, got, '' if ok else '   <-- the predicate that holds contributes -inf'))
    bad = bad or not ok
sys.exit(1 if bad else 0)
