# oddity: combined class, explain() after update() calls only -> TypeError, not RTAMTException
import sys, logging
sys.path.insert(0, '/tmp/hunt4/T10')
logging.disable(logging.CRITICAL)
import rtamt
from rtamt.exception.exception import RTAMTException
s = rtamt.StlDiscreteTimeSpecification()
s.declare_var('x', 'float')
s.spec = 'out = historically[0,2](x > 0)'
s.parse()
for i, v in enumerate([-1, 2, 3]):
    s.update(i, [('x', v)])
print('required : explain() returns normally or raises RTAMTException (there is no offline result to explain)')
try:
    s.explain()
    print('observed : returned normally', s.explainer.explanations); sys.exit(0)
except RTAMTException as e:
    print('observed : RTAMTException', e); sys.exit(0)
except Exception as e:
    print('observed :', type(e).__name__, repr(e), '(defect)'); sys.exit(1)
