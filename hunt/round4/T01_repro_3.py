# C13 / C17: a bool time stamp (False = 0, True = 1), sampling period (True = 1 s) or tolerance makes the
# discrete-time monitors raise ValueError: the gap is computed as Fraction(str(stamp)), and str(True) is 'True'.
# (int, float, Fraction and Decimal stamps work; the dense-time monitors accept bool stamps; declare_const rejects bool cleanly.)
import sys, logging
sys.path.insert(0, '/tmp/hunt4/T01')
import rtamt
logging.disable(logging.WARNING)

def mk(cls, period=None):
    s = cls(); s.declare_var('x', 'float')
    if period: s.set_sampling_period(*period)
    s.spec = 'out = x >= 1'; s.parse(); return s

def off(ts, period=None):
    s = mk(rtamt.StlDiscreteTimeOfflineSpecification, period)
    return s.evaluate({'time': ts, 'x': [2] * len(ts)}), s.sampling_violation_counter
def onl(ts, period=None):
    s = mk(rtamt.StlDiscreteTimeOnlineSpecification, period)
    return [s.update(t, [('x', 2)]) for t in ts], s.sampling_violation_counter

bad = 0
for name, f in [('offline, time [False, True]', lambda: off([False, True])),
                ('online,  time False, True', lambda: onl([False, True])),
                ('offline, period True s', lambda: off([0, 1], (True, 's', 0.1))),
                ('online,  tolerance True', lambda: onl([0, 1], (1, 's', True)))]:
    try:
        print(name, '-> required robustness 1, 1 and counter 0 (or RTAMTException); observed', f())
    except rtamt.RTAMTException as e:
        print(name, '-> clean RTAMTException', e)
    except Exception as e:
        print(name, '-> required robustness 1, 1 and counter 0 (or RTAMTException); observed %s: %s' % (type(e).__name__, e)); bad = 1
print('DEFECT' if bad else 'ok')
sys.exit(bad)
