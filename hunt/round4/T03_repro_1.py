# reset() before pastify() makes every later update() raise KeyError (C10 / C17 / C03)
import sys, logging
import rtamt
logging.disable(logging.CRITICAL)

def make(cls):
    s = cls()
    s.declare_var('x', 'float')
    s.add_sub_spec('p0 = once[0,2s](x > 0)')
    s.spec = 'out = historically[0,1](p0)'
    s.parse()
    return s

def feed(s, dense):
    if dense:
        return [s.update(['x', [[float(i), float(i - 2)]]]) for i in range(5)]
    return [s.update(i, [['x', float(i - 2)]]) for i in range(5)]

bad = False
for cls, dense in ((rtamt.StlDiscreteTimeOnlineSpecification, False), (rtamt.StlDenseTimeOnlineSpecification, True)):
    ref = make(cls); ref.pastify(); required = feed(ref, dense)
    s = make(cls)
    s.reset()        # C10: harmless before the first update
    s.pastify()      # C03: no future operator, meaning unchanged
    try:
        observed = feed(s, dense)
    except Exception as e:
        observed = '%s: %s' % (type(e).__name__, e)
    print(cls.__name__)
    print('  required (parse, pastify, update)       :', required)
    print('  observed (parse, reset, pastify, update):', observed)
    if observed != required:
        bad = True
sys.exit(1 if bad else 0)
