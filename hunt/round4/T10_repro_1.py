# C20: Boolean connective below a comparison -> violated specification, nothing reported for the variables
import sys, logging
sys.path.insert(0, '/tmp/hunt4/T10')
logging.disable(logging.CRITICAL)
import rtamt

def build():
    s = rtamt.StlDiscreteTimeOfflineSpecification()
    s.declare_var('req', 'float'); s.declare_var('gnt', 'float')
    s.spec = 'out = always((req and gnt) <= 0.5)'     # "req and gnt are never both 1"
    s.parse()
    return s

orig = {'time': [0, 1, 2], 'req': [0, 1, 0], 'gnt': [1, 1, 0]}
s = build()
r = s.evaluate(orig)
s.explain()
rep = {v: s.explainer.explanations.get(v, []) for v in ('req', 'gnt')}
print('robustness at 0 on the original trace:', r[0][1], '(violated)')
print('reported intervals:', rep)

# re-assign only samples that were NOT reported
alt = {'time': [0, 1, 2], 'req': [0, 0, 0], 'gnt': [1, 1, 0]}     # req[1] changed
changed = [('req', 1)]
reported = {(v, i) for v in rep for b, e in rep[v] for i in range(b, e + 1)}
assert not (set(changed) & reported)
r2 = build().evaluate(alt)
print('robustness at 0 after changing unreported sample req[1] to 0:', r2[0][1])
print('required : still violated (< 0), the reported positions being a sufficient cause')
bad = r[0][1] < 0 and r2[0][1] >= 0
print('observed :', 'SATISFIED -> explanation is not a sufficient cause (defect)' if bad else 'still violated')
sys.exit(1 if bad else 0)
