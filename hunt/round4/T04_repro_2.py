# set_sampling_period accepts a period of +inf (and True, and a tolerance of nan); the first
# evaluate()/update() then dies with ValueError instead of RTAMTException.
import sys, logging
logging.disable(logging.CRITICAL)
import rtamt
from rtamt.exception.exception import RTAMTException
bad = False
for args in ((float('inf'), 's'), (True, 's'), (1, 's', float('nan'))):
    s = rtamt.StlDiscreteTimeOfflineSpecification(); s.declare_var('x', 'float')
    try:
        s.set_sampling_period(*args)
        s.spec = 'out = always[0,1] x'; s.parse()
        r = s.evaluate({'time': [0, 1, 2], 'x': [1, 2, 3]})
        print(args, 'required: RTAMTException or a result; observed result', r)
    except RTAMTException as e:
        print(args, 'rejected cleanly:', e)
    except Exception as e:
        bad = True
        print(args, 'required: RTAMTException (when the period is set); observed', type(e).__name__, e)
sys.exit(1 if bad else 0)
