# C17 / theme: an int sample beyond the float range (2**1100) meets a float literal: OverflowError in all four monitors
# (exp / pow overflow saturates at inf since the last repair; int -> float conversion does not).
# Required: +inf (saturation) or the exact 2**1100 - 1, or an RTAMTException.
import sys, logging
sys.path.insert(0, '/tmp/hunt4/T01')
import rtamt
logging.disable(logging.WARNING)
X = 2 ** 1100
def mk(cls):
    s = cls(); s.declare_var('x', 'float'); s.spec = 'out = x >= 1'; s.parse(); return s
bad = 0
for name, f in [('discrete offline', lambda: mk(rtamt.StlDiscreteTimeOfflineSpecification).evaluate({'time': [0], 'x': [X]})),
                ('discrete online', lambda: mk(rtamt.StlDiscreteTimeOnlineSpecification).update(0, [('x', X)])),
                ('dense offline', lambda: mk(rtamt.StlDenseTimeOfflineSpecification).evaluate(['x', [[0, X], [1, X]]])),
                ('dense online', lambda: mk(rtamt.StlDenseTimeOnlineSpecification).update(['x', [[0, X], [1, X]]]))]:
    try:
        print(name, '-> returned', str(f())[:60])
    except rtamt.RTAMTException as e:
        print(name, '-> clean RTAMTException', e)
    except Exception as e:
        print(name, '-> required a positive value or RTAMTException, observed %s: %s' % (type(e).__name__, e)); bad = 1
# saturating.power() takes the OverflowError of the int -> float CONVERSION for an overflow of the RESULT:
s = rtamt.StlDiscreteTimeOfflineSpecification(); s.declare_var('x', 'float'); s.spec = 'out = pow(2, x) <= 2'; s.parse()
r = s.evaluate({'time': [0], 'x': [-X]})[0][1]
print('pow(2, -2**1100) <= 2: required 2 (2**-huge is 0), observed', r)
if not r > 0: bad = 1
print('DEFECT' if bad else 'ok')
sys.exit(bad)
