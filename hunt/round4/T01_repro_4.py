# C04 / C05: integer time stamps above 2**53 (e.g. nanosecond counters) are silently rounded by the dense-time
# bounded operators, which compute `stamp + float(bound)`; comparisons and unbounded operators keep them exact.
# x = 1 on [0,T), 5 on [T,T+1), 1 from T+1 on, with T = 2**53.  once[0,1](x >= 3) must be 2 on [T, T+2) and -2 from T+2 on.
import sys, logging
sys.path.insert(0, '/tmp/hunt4/T01')
import rtamt
logging.disable(logging.WARNING)
T = 2 ** 53
x = [[0, 1], [T, 5], [T + 1, 1], [T + 3, 1], [T + 4, 1]]

def mk(cls):
    s = cls(); s.declare_var('x', 'float'); s.spec = 'out = once[0,1](x >= 3)'; s.parse(); return s
def at(sig, t):
    v = None
    for p, val in sig:
        if p <= t: v = val
    return v

off = mk(rtamt.StlDenseTimeOfflineSpecification).evaluate(['x', x])
onl = mk(rtamt.StlDenseTimeOnlineSpecification).update(['x', x])
plain = mk(rtamt.StlDenseTimeOfflineSpecification); plain.spec = 'out = x >= 3'; plain.parse()
print('x >= 3 (exact)      :', plain.evaluate(['x', x]))
print('offline once[0,1]   :', off)
print('online  once[0,1]   :', onl)
bad = 0
for t, required in [(T, 2), (T + 1, 2), (T + 2, -2), (T + 3, -2)]:
    o, n = at(off, t), at(onl, t)
    print('t = 2**53+%d  required %s  offline %s  online %s' % (t - T, required, o, n))
    if o != required or n != required: bad = 1
print('DEFECT' if bad else 'ok')
sys.exit(bad)
