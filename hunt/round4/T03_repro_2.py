# a sub-specification named like a declared constant: the reference silently denotes the constant,
# while get_value() of the same name returns the sub-specification (C09 / C12 oddity, no RTAMTException)
import sys, logging
import rtamt
from rtamt.exception.exception import RTAMTException
logging.disable(logging.CRITICAL)

data = {'time': [0, 1, 2], 'x': [1.0, -2.0, 3.0]}
s = rtamt.StlDiscreteTimeOfflineSpecification()
s.declare_const('a', 'float', 5)
s.declare_var('x', 'float')
try:
    s.add_sub_spec('a = x > 0')
    s.spec = 'out = a'
    s.parse()
    out = [v for _, v in s.evaluate(dict(data))]
    named = list(s.get_value('a'))
except RTAMTException as e:
    print('rejected cleanly:', e)
    sys.exit(0)
print('required: RTAMTException for the clash, or out == get_value("a") (sub-specification inlined: [1.0, -2.0, 3.0])')
print('observed: out =', out, ' get_value("a") =', named)
sys.exit(1 if out != named else 0)
