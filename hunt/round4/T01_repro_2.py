# C17 / theme: decimal.Decimal sample values (and Decimal time stamps below a dense-time bounded operator) end in a
# TypeError, because literals, the +-inf padding and the bounds are floats and Decimal refuses float arithmetic.
# Required: the robustness of the mathematical values (x - 0.5 = 0.5) or an RTAMTException.
import sys, logging
sys.path.insert(0, '/tmp/hunt4/T01')
from decimal import Decimal as D
import rtamt
logging.disable(logging.WARNING)

def mk(cls, text):
    s = cls(); s.declare_var('x', 'float'); s.spec = text; s.parse(); return s

runs = [
 ('discrete offline, Decimal value', lambda: mk(rtamt.StlDiscreteTimeOfflineSpecification, 'out = x >= 0.5').evaluate({'time': [0, 1], 'x': [D('1'), D('1')]})),
 ('discrete online,  Decimal value', lambda: mk(rtamt.StlDiscreteTimeOnlineSpecification, 'out = x >= 0.5').update(0, [('x', D('1'))])),
 ('dense offline,    Decimal value', lambda: mk(rtamt.StlDenseTimeOfflineSpecification, 'out = x >= 0.5').evaluate(['x', [[0, D('1')], [1, D('1')]]])),
 ('dense online,     Decimal value', lambda: mk(rtamt.StlDenseTimeOnlineSpecification, 'out = x >= 0.5').update(['x', [[0, D('1')], [1, D('1')]]])),
 ('dense offline,    Decimal time stamp', lambda: mk(rtamt.StlDenseTimeOfflineSpecification, 'out = once[0,1](x >= 0.5)').evaluate(['x', [[D('0'), 1.0], [D('1'), 1.0]]])),
 ('dense online,     Decimal time stamp', lambda: mk(rtamt.StlDenseTimeOnlineSpecification, 'out = once[0,1](x >= 0.5)').update(['x', [[D('0'), 1.0], [D('1'), 1.0]]])),
]
bad = 0
for name, f in runs:
    try:
        print(name, '-> returned', f())
    except rtamt.RTAMTException as e:
        print(name, '-> clean RTAMTException', e)
    except Exception as e:
        print(name, '-> required 0.5 or RTAMTException, observed %s: %s' % (type(e).__name__, e)); bad = 1
print('DEFECT' if bad else 'ok')
sys.exit(bad)
