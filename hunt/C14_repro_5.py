# C14 repro 5: very large interval bounds: parse() raises ValueError (>= 4301 digits) or does not terminate
# (1e99999999); smaller ones (1e40) pass parse() and the first evaluate() raises OverflowError.
import sys, logging, subprocess
import rtamt
logging.disable(logging.CRITICAL)

bad = 0
def attempt(text, evaluate=False):
    global bad
    spec = rtamt.StlDiscreteTimeSpecification()
    spec.declare_var('x', 'float')
    spec.spec = text
    print('spec: %r' % (text if len(text) < 60 else text[:40] + '...'))
    print('  required: parse()/evaluate() terminate with success or RTAMTException')
    try:
        spec.parse()
        print('  observed: parse ok')
        if evaluate:
            spec.evaluate({'time': [0, 1, 2], 'x': [1., 2., 3.]})
            print('  observed: evaluate ok')
    except rtamt.RTAMTException as e:
        print('  observed: RTAMTException', str(e)[:80])
    except Exception as e:
        print('  observed: %s: %s' % (type(e).__name__, str(e)[:80]))
        bad = 1

attempt('out = always[0,1e4300] (x > 1)')
attempt('out = always[0,' + '9' * 4301 + '] (x > 1)')
attempt('out = always[0,1e40] (x > 1)', evaluate=True)

code = ("import rtamt, logging; logging.disable(50); s = rtamt.StlDiscreteTimeSpecification(); "
        "s.spec = 'out = always[0,1e99999999] (x > 1)'; s.parse()")
print("spec: 'out = always[0,1e99999999] (x > 1)' (in a child process, 20 s limit)")
try:
    subprocess.run([sys.executable, '-c', code], timeout=20, capture_output=True)
    print('  observed: parse() returned')
except subprocess.TimeoutExpired:
    print('  observed: parse() still running after 20 s (Fraction(Decimal("1e99999999")) builds 10**99999999)')
    bad = 1
sys.exit(bad)
