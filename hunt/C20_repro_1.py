# C20 repro 1: a specification that is SATISFIED at time 0 still gets explanations,
# because explain() walks over every named sub-specification, not only the
# specification that evaluate() reports.
import sys, logging
logging.disable(logging.CRITICAL)
import rtamt

spec = rtamt.StlDiscreteTimeOfflineSpecification()
spec.declare_var('x', 'float')
spec.spec = 'a = (x > 3); out = eventually a'      # same with spec.add_sub_spec('a = (x > 3);')
spec.parse()
data = {'time': [0, 1, 2], 'x': [0, 5, 5]}
rob = spec.evaluate(data)
spec.explain()
reported = {k: v for k, v in spec.explainer.explanations.items() if k == 'x'}

print('robustness at time 0      :', rob[0][1], '(>= 0, the specification is satisfied)')
print('required explanation of x : nothing (no entry / empty list)')
print('library explanation of x  :', reported.get('x'))
if rob[0][1] >= 0 and reported.get('x'):
    print('VIOLATION: satisfied specification, yet x is reported')
    sys.exit(1)
print('ok')
