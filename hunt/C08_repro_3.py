# C08 repro 3: dense time, the same signal and the same bounds once in seconds and once in
# milliseconds: the robustness differs on a 0.9 s long segment (0.0 instead of 1.0).
import sys
import rtamt

def run(unit, text, data):
    spec = rtamt.StlDenseTimeSpecification()
    spec.declare_var('x', 'float')
    spec.declare_var('out', 'float')
    spec.unit = unit
    spec.spec = 'out = ' + text
    spec.parse()
    return spec.evaluate(['x', data])

r_s = run('s', 'historically[0.3:1.2](once[0:0.6](x))', [[0, 2.0], [0.3, 0.0], [0.9, 1.0], [2.5, 1.0]])
r_ms = run('ms', 'historically[300:1200](once[0:600](x))', [[0, 2.0], [300, 0.0], [900, 1.0], [2500, 1.0]])

def at(sig, t):
    v = None
    for tt, vv in sig:
        if tt <= t:
            v = vv
    return v

# brute force: once[0,0.6] x is 2 on [0,0.9) and 1 from 0.9 on (x is 2 on [0,0.3), 0 on [0.3,0.9), 1 after),
# so historically[0.3,1.2] at t = 1.5 s is min over [0.3, 1.2] of that = 1
print('required value at t = 1.5 s (1500 ms): 1.0 in both notations')
print('unit s  :', r_s, '-> value at 1.5 s   =', at(r_s, 1.5))
print('unit ms :', r_ms, '-> value at 1500 ms =', at(r_ms, 1500))
sys.exit(0 if at(r_s, 1.5) == at(r_ms, 1500) == 1.0 else 1)
