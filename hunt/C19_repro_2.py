# C19 violation: iff / xor are computed as -|a-b| / |a-b|; when both operands are the same infinity the
# result is NaN (inf - inf).  The discrete-time and the dense-time bounded temporal operators then treat
# the NaN differently (Python min/max over a window vs. the interval-merging algorithm), so the two
# interpretations return different values at the same sampling instants.
#  (A) standard semantics: two bounded past operators are both -inf before their windows open
#  (B) IA-STL (output robustness): predicates over input variables only evaluate to +inf/-inf all the time,
#      so (p xor q) / (p iff q) is NaN whenever p and q have the same truth value
import sys, math
import rtamt

def same(a, b):
    return a == b or (a != a and b != b)

def at(sig, t):
    v = None
    for s in sig:
        if s[0] <= t:
            v = s[1]
    return v

def run(text, data, semantics=None, inputs=()):
    n = len(data['x'])
    kw = {} if semantics is None else {'semantics': semantics}
    out = []
    for cls in (rtamt.StlDiscreteTimeSpecification, rtamt.StlDenseTimeSpecification):
        spec = cls(**kw)
        for v in ('x', 'y', 'out'):
            spec.declare_var(v, 'float')
        for v in inputs:
            spec.set_var_io_type(v, 'input')
        spec.spec = text
        spec.parse()
        if cls is rtamt.StlDiscreteTimeSpecification:
            r = spec.evaluate({'time': list(range(n)), 'x': data['x'], 'y': data['y']})
            out.append([s[1] for s in r])
        else:
            r = spec.evaluate(['x', [[k, v] for k, v in enumerate(data['x'])]],
                              ['y', [[k, v] for k, v in enumerate(data['y'])]])
            out.append([at(r, k) for k in range(n)])
            print('    dense raw output:', r)
    return out

bad = False

# (A) standard semantics, past-only formula (horizon 0: every sample is in the scope of the property)
data = {'x': [1.0, 2.0, -1.0, 3.0, 0.0, 2.0], 'y': [0.0, 1.0, 5.0, -3.0, 2.0, 2.0]}
text = 'out = once[0,2]((once[1,2](x>=0)) iff (once[1,2](y>=0)))'
print(text)
disc, dens = run(text, data)
# brute force with the ideal iff(a,b) = min(max(-a,b), max(-b,a)) (finite operands: the same as -|a-b|)
def O12(s, k):
    w = [s[j] for j in range(k - 2, k) if j >= 0]
    return max(w) if w else -float('inf')
def iff(a, b):
    return min(max(-a, b), max(-b, a)) if (math.isinf(a) or math.isinf(b)) else -abs(a - b)
inner = [iff(O12(data['x'], k), O12(data['y'], k)) for k in range(6)]
ideal = [max(inner[max(0, k - 2):k + 1]) for k in range(6)]
print('    ideal (definition)   :', ideal)
print('    discrete-time returns:', disc)
print('    dense-time returns   :', dens)
for k in range(6):
    if not same(disc[k], dens[k]):
        bad = True
        print('    MISMATCH at sample', k, ': discrete', disc[k], ' dense', dens[k])

# (B) IA-STL output robustness, x and y are inputs, bounded past operator (horizon 0)
data = {'x': [-1.0, -1.0, -1.0, 1.0, -1.0, 1.0], 'y': [1.0, -1.0, -1.0, 1.0, 1.0, 1.0]}
text = 'out = once[0,1]((x>=0) xor (y>=0))'
print(text, ' [Semantics.OUTPUT_ROBUSTNESS, x and y inputs]')
disc, dens = run(text, data, rtamt.Semantics.OUTPUT_ROBUSTNESS, ('x', 'y'))
sat = [(a >= 0) != (b >= 0) for a, b in zip(data['x'], data['y'])]
ideal = [float('inf') if (sat[k] or (k >= 1 and sat[k - 1])) else -float('inf') for k in range(6)]
print('    ideal (definition)   :', ideal)
print('    discrete-time returns:', disc)
print('    dense-time returns   :', dens)
for k in range(6):
    if not same(disc[k], dens[k]):
        bad = True
        print('    MISMATCH at sample', k, ': discrete', disc[k], ' dense', dens[k])

sys.exit(1 if bad else 0)
