# C11 (b)-class / aliasing: results handed out by the library can BE the caller's input list.
#  - get_value('<input variable>') (the README "Accessing evaluation of sub-formulas" example does exactly
#    this) returns the very list object the caller passed in (visitVariable: sample_return = var),
#  - for a specification whose top level is a variable, dense-time evaluate()/update() return the
#    caller's own list object.
# Editing such a "result" (e.g. padding / scaling it for a plot) edits the input data set.
# Required: results are values of their own; the input data set is not reachable through them.
# Run: cd /tmp/hunt/C11 && PYTHONPATH=/tmp/hunt/C11 /venv/bin/python /tmp/hunt/C11_repro_4.py
import sys, copy, logging
logging.disable(logging.CRITICAL)
import rtamt

bad = False
spec = rtamt.StlDiscreteTimeSpecification()
spec.declare_var('a', 'float'); spec.declare_var('b', 'float'); spec.declare_var('c', 'float')
spec.add_sub_spec('c = a + b;')
spec.spec = 'd = c >= - 2;'
spec.parse()
dataset = {'time': [0, 1, 2], 'a': [100.0, -1.0, -2.0], 'b': [20.0, 2.0, 10.0]}
before = copy.deepcopy(dataset)
spec.evaluate(dataset)
a = spec.get_value('a')
a.append(0.0)                                   # caller edits "his" result
print('discrete get_value: required data set', before)
print('discrete get_value: observed data set', dataset)
if dataset != before:
    bad = True
    print('VIOLATION: get_value("a") is the caller\'s input list itself (a is dataset["a"]: %s)' % (a is dataset['a']))

dspec = rtamt.StlDenseTimeSpecification()
dspec.declare_var('x', 'float'); dspec.declare_var('y', 'float')
dspec.spec = 'y = x'
dspec.parse()
x = [[0, 1.0], [1, 2.0]]
r = dspec.evaluate(['x', x])
print('dense evaluate: result is the input object:', r is x, '(required: False)')
if r is x:
    bad = True
sys.exit(1 if bad else 0)
