# C08 repro 5 (oddity, order of calls): pastify() freezes the sampling period / default unit
# into the delays it creates.  Setting the sampling period after pastify() silently gives
# other results than setting it before.
import sys
import rtamt

def run(period_first):
    spec = rtamt.StlDiscreteTimeSpecification()
    spec.declare_var('x', 'float')
    spec.declare_var('y', 'float')
    spec.declare_var('out', 'float')
    spec.spec = 'out = (next(x>=1)) and (y>=0)'
    if period_first:
        spec.set_sampling_period(500, 'ms', 0.1)
    spec.parse()
    spec.pastify()
    if not period_first:
        spec.set_sampling_period(500, 'ms', 0.1)
    xs = [0, 3, 0, 0, 5, 0]
    ys = [1, 2, 3, 4, 5, 6]
    return [spec.update(0.5 * i, [('x', xs[i]), ('y', ys[i])]) for i in range(len(xs))]

a = run(True)
b = run(False)
# out at step i is the verdict for step i-1: min(x[i]-1, y[i-1])
print('required: [-inf, 1.0, -1.0, -1.0, 4.0, -1.0] (out at step i = min(x[i]-1, y[i-1]), one sample of delay) in both orders')
print('set_sampling_period before parse/pastify:', a)
print('set_sampling_period after pastify       :', b)
sys.exit(0 if a == b else 1)
