# C07 repro 3 (README versus code): prev at the first sample.
# README:  rho(prev phi, w, t) = -inf  if t <= 0        (violated at the first sample)
# Both discrete-time monitors return +inf at t = 0 ("satisfied"), i.e. 'prev' is the weak previous;
# only 's_prev' (not mentioned in the README) gives -inf.
import sys, logging
logging.disable(logging.CRITICAL)
import rtamt

def mk(formula):
    s = rtamt.StlDiscreteTimeSpecification()
    s.declare_var('x', 'float')
    s.spec = 'out = ' + formula
    s.parse()
    return s

off = mk('prev (x >= 0)').evaluate({'time': [0, 1, 2], 'x': [-1.0, -1.0, -1.0]})
m = mk('prev (x >= 0)')
on = [m.update(t, [('x', -1.0)]) for t in range(3)]
print('prev (x >= 0), x = -1 everywhere')
print('   required at t=0 (README): -inf (violated)')
print('   offline :', off)
print('   online  :', on)
if off[0][1] > 0 or on[0] > 0:
    print('VIOLATION (w.r.t. README): strictly positive value at t=0 for a formula the README defines as violated')
    sys.exit(1)
