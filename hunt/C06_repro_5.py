# C06 repro 5 (oddity, not a violation of the letter of C06): iff / xor over two insensitive predicates.
# The library evaluates iff as -|a-b| and xor as |a-b|; with both operands +inf (or both -inf) this is
# inf-inf = nan, so a SATISFIED 'p iff q' (and a violated 'p xor q') over input-only predicates has
# robustness nan under output robustness, in all four monitors.  The natural value is +inf (-inf for xor).
import sys, math, logging, rtamt
logging.disable(logging.CRITICAL)
inf = float('inf')
xs = [1, 4, 1, 4]; ys = [0, 5, 5, 0]; n = 4
bad = False
for text, natural in [('out = ((x >= 3) iff (y >= 3))', [inf, inf, -inf, -inf]),
                      ('out = ((x >= 3) xor (y >= 3))', [-inf, -inf, inf, inf])]:
    for dense in (False, True):
        for mode in ('offline', 'online'):
            cls = rtamt.StlDenseTimeSpecification if dense else rtamt.StlDiscreteTimeSpecification
            s = cls(semantics=rtamt.Semantics.OUTPUT_ROBUSTNESS)
            s.declare_var('x', 'float'); s.declare_var('y', 'float')
            s.set_var_io_type('x', 'input'); s.set_var_io_type('y', 'input')
            s.spec = text; s.parse()
            if dense:
                X = ['x', [[i, xs[i]] for i in range(n)]]; Y = ['y', [[i, ys[i]] for i in range(n)]]
                r = s.evaluate(X, Y) if mode == 'offline' else s.update(X, Y)
                got = []; j = 0; last = None
                for i in range(n):
                    for t, v in r:
                        if t == i: last = v
                    got.append(last)
            elif mode == 'offline':
                got = [v for _, v in s.evaluate({'time': list(range(n)), 'x': xs, 'y': ys})]
            else:
                got = [s.update(i, [('x', xs[i]), ('y', ys[i])]) for i in range(n)]
            isnan = any(isinstance(v, float) and math.isnan(v) for v in got)
            bad |= isnan
            print('%-8s %-7s %s  natural %s  library %s  %s' % ('dense' if dense else 'discrete', mode, text, natural, got, 'NAN' if isnan else 'ok'))
sys.exit(1 if bad else 0)
