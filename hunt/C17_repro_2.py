#!/usr/bin/env python
# C17 reproducer 2: dense-time online monitor, specification that assigns to a field of an
# object-typed output variable ("out.value = ...", the ROS-message style the library supports:
# the discrete-time online monitor and both offline monitors accept it).
# The first update() works, EVERY later update() crashes with
#     AttributeError: 'list' object has no attribute 'value'
#
# run:  cd /tmp/hunt/C17 && PYTHONPATH=/tmp/hunt/C17 /venv/bin/python /tmp/hunt/C17_repro_2.py
import sys
import types
import logging
import rtamt

logging.disable(logging.CRITICAL)

# a user module with a message class (stand-in for rtamt_msgs.msg.FloatMessage)
mod = types.ModuleType('c17_msgs')


class Msg(object):
    def __init__(self, value=0.0):
        self.value = value


mod.Msg = Msg
sys.modules['c17_msgs'] = mod


def build(cls):
    s = cls()
    s.import_module('c17_msgs', 'Msg')
    s.declare_var('req', 'Msg')
    s.declare_var('out', 'Msg')
    s.spec = 'out.value = once[0,1](req.value >= 2)'
    s.parse()
    return s


bad = False

# control: discrete-time online monitor, same specification
s = build(rtamt.StlDiscreteTimeOnlineSpecification)
print('discrete-time online:', [s.update(i, [('req', Msg(float(i)))]) for i in range(3)])

s = build(rtamt.StlDenseTimeOnlineSpecification)
print('required : three dense-time update() calls return normally (robustness of once[0,1](req.value>=2))')
for i in range(3):
    try:
        r = s.update(['req', [[float(i), Msg(float(i))]]])
        print('dense-time online update #%d returned %s' % (i + 1, r))
    except rtamt.RTAMTException as e:
        print('dense-time online update #%d clean rejection: %s' % (i + 1, e))
    except Exception as e:
        print('dense-time online update #%d CRASH %s: %s' % (i + 1, type(e).__name__, e))
        bad = True

sys.exit(1 if bad else 0)
