"""C18 repro 2: eventually[a,b] eventually[c,d] p  vs  eventually[a+c,b+d] p  in the
dense-time monitors, with decimal bounds that are not exactly representable as floats.

Dense-time bounds are converted to Python floats and added to / subtracted from the time
stamps one operator at a time, so shifting by 0.1 and then by 0.7 is not the same as
shifting by 0.8 ((0.8 - 0.7) - 0.1 = 8.3e-17 > 0, 0.8 - 0.8 = 0).  The robustness at
time 0 changes (2 instead of 5) and a spurious sample at t = 8.3e-17 appears.
(The discrete-time monitors use exact Fractions for the same bounds and agree.)
"""
import sys
import rtamt

p = [[0.0, 1.0], [0.7, 2.0], [0.8, 5.0], [1.5, 0.0]]
NESTED = 'out = eventually[0.1,0.1] eventually[0.7,0.7] (p >= 0);'
MERGED = 'out = eventually[0.8,0.8] (p >= 0);'


def offline(txt):
    s = rtamt.StlDenseTimeSpecification()
    s.declare_var('p', 'float'); s.declare_var('out', 'float')
    s.spec = txt
    s.parse()
    return s.evaluate(['p', p])


a, b = offline(NESTED), offline(MERGED)
print('dense-time offline, p =', p)
print('  ', NESTED, '->', a)
print('  ', MERGED, '->', b)
print('   required: the same signal, value 5.0 at time 0 (p(0.8) = 5)')
print('   observed: value at time 0 is', a[0][1], 'for the nested form and', b[0][1], 'for the merged form')
bad = a != b

# same effect for the past operators, seen through a point-wise combination
p2 = [[0.0, 1.0], [0.8, 3.0], [2.0, 3.0]]
N2 = 'out = (p >= 2) and (once[0.1,0.1] once[0.7,0.7] (p <= 2));'
M2 = 'out = (p >= 2) and (once[0.8,0.8] (p <= 2));'


def offline2(txt):
    s = rtamt.StlDenseTimeSpecification()
    s.declare_var('p', 'float'); s.declare_var('out', 'float')
    s.spec = txt
    s.parse()
    return s.evaluate(['p', p2])


c, d = offline2(N2), offline2(M2)
print('dense-time offline, p =', p2)
print('  ', N2, '->', c)
print('  ', M2, '->', d)
print('   required: identical; observed:', 'identical' if c == d else 'DIFFERENT')
bad = bad or c != d
sys.exit(1 if bad else 0)
