# C05 repro 1: a NaN sample in the input (missing measurement) makes the dense-time online
# bounded once/historically return DECREASING time stamps and, depending on the chunking,
# two different values for the same instant.
import sys, math
import rtamt

nan = float('nan')
x = [[0.0, 3], [0.25, 2], [0.75, 1], [1.0, nan], [1.75, -1]]

def run(batches):
    spec = rtamt.StlDenseTimeSpecification()
    spec.declare_var('x', 'float')
    spec.declare_var('out', 'float')
    spec.spec = 'out = once[0,1](x)'
    spec.parse()
    outs = []
    for lo, hi in batches:
        outs.append(spec.update(['x', [list(s) for s in x[lo:hi]]]))
    return outs

def same(a, b):
    return a == b or (a != a and b != b)

off = rtamt.StlDenseTimeSpecification()
off.declare_var('x', 'float'); off.declare_var('out', 'float')
off.spec = 'out = once[0,1](x)'; off.parse()
print('offline evaluate ->', off.evaluate(['x', [list(s) for s in x]]))

bad = False
results = {}
for name, batches in [('all at once', [(0, 5)]), ('4 samples + 1 sample', [(0, 4), (4, 5)])]:
    outs = run(batches)
    cat = [s for o in outs for s in o]
    results[name] = cat
    print(name, '->', outs)
    for i in range(1, len(cat)):
        if cat[i][0] < cat[i - 1][0]:
            print('   VIOLATION: time stamps decrease:', cat[i - 1], 'then', cat[i])
            bad = True
        if cat[i][0] == cat[i - 1][0] and not same(cat[i][1], cat[i - 1][1]):
            print('   VIOLATION: two different values returned for the instant', cat[i][0], ':', cat[i - 1][1], 'and', cat[i][1])
            bad = True

print('required: the concatenated output has non-decreasing time stamps and one value per instant,')
print('          whatever the chunking (e.g. [[0,3],[1.0,nan],[1.75,..]] or the NaN piece skipped).')
sys.exit(1 if bad else 0)
