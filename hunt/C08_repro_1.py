# C08 repro 1: after pastify(), eventually/always bounds that are NOT multiples of the
# sampling period are silently accepted (only end-begin survives), instead of RTAMTException.
import sys
import rtamt

def make(text):
    spec = rtamt.StlDiscreteTimeSpecification()
    spec.declare_var('x', 'float')
    spec.declare_var('out', 'float')
    spec.set_sampling_period(1, 's', 0.1)       # sampling period 1s
    spec.spec = 'out = ' + text
    spec.parse()
    return spec

xs = [0, 1, 5, 2, 0, 0, 3, 1]
bad = False
for text in ['always[500ms:1500ms](x>=1)', 'eventually[0.5:1.5](x>=1)', 'eventually[0.5:0.5](x>=1)']:
    print('spec:', text, ' sampling period 1s -> bounds are 0.5 / 1.5 sampling periods')
    print('  required: RTAMTException at the first evaluation (offline and online, before and after pastify)')
    try:
        make(text).evaluate({'time': list(range(len(xs))), 'x': xs})
        print('  offline : accepted'); bad = True
    except rtamt.RTAMTException as e:
        print('  offline : RTAMTException (ok)')
    spec = make(text)
    spec.pastify()
    try:
        out = [spec.update(i, [('x', v)]) for i, v in enumerate(xs)]
        print('  pastified online: ACCEPTED, pastified spec = %s, results = %s' % (spec.spec_print().strip(), out))
        bad = True
    except rtamt.RTAMTException as e:
        print('  pastified online: RTAMTException (ok)')
sys.exit(1 if bad else 0)
