class Msg(object):
    def __init__(self, value=0.0, other=0.0):
        self.value = float(value)
        self.other = float(other)
    def __repr__(self): return 'Msg(%r,%r)' % (self.value, self.other)
