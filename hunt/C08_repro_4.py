# C08 repro 4 (minor): a bound given through a constant whose value is passed to declare_const
# as a Python float is not read as the decimal the user wrote: 0.3 (s) with a 100 ms sampling
# period is refused although '0.3' (string) and the literal 0.3 are accepted.
import sys
import rtamt

def run(text, const=None):
    spec = rtamt.StlDiscreteTimeSpecification()
    spec.declare_var('x', 'float')
    spec.declare_var('out', 'float')
    if const is not None:
        spec.declare_const('T', 'float', const)
    spec.set_sampling_period(100, 'ms', 0.1)
    spec.spec = 'out = ' + text
    spec.parse()
    xs = [0, 1, 5, 2, 0, 0, 3, 1]
    try:
        return [v for _, v in spec.evaluate({'time': [0.1 * i for i in range(len(xs))], 'x': xs})]
    except rtamt.RTAMTException as e:
        return 'RTAMTException: %s' % e

a = run('always[0:0.3](x>=1)')
b = run('always[0:T](x>=1)', '0.3')
c = run('always[0:T](x>=1)', 0.3)
print('required: the three spellings of the bound 0.3 s = 3 sampling periods give identical results')
print("literal 0.3           :", a)
print("declare_const T='0.3' :", b)
print("declare_const T=0.3   :", c)
sys.exit(0 if a == b == c else 1)
