# C05 repro 2: finite input signals, but the formula contains (once[1,1] x) iff (once[1,1] y), whose
# robustness on [0,1) is -|(-inf)-(-inf)| = NaN.  Given all at once, the online monitor returns the same
# samples as the offline monitor (finite from t=2 on, free of any NaN influence from t=4 on).  Given one sample at a time, the same monitor
# dies with RTAMTException('... Unexpected case in the intersection.').
import sys
import rtamt

x = [[0.0, 1], [0.5, 0], [1.0, 0], [2.5, 3], [4.0, 0], [5.5, 1], [6.5, 1]]
y = [[0.0, -1], [1.5, 3], [3.0, -1], [4.5, 2], [6.0, -1]]
TXT = 'out = x since[0,1] once[1,2]((once[1,1](x)) iff (once[1,1](y)))'

def mk():
    spec = rtamt.StlDenseTimeSpecification()
    spec.declare_var('x', 'float')
    spec.declare_var('y', 'float')
    spec.declare_var('out', 'float')
    spec.spec = TXT
    spec.parse()
    return spec

offline = mk().evaluate(['x', [list(s) for s in x]], ['y', [list(s) for s in y]])
print('offline                :', offline)
once_ = mk().update(['x', [list(s) for s in x]], ['y', [list(s) for s in y]])
print('online, one update     :', once_)
print('required               : every chunking returns these values (from t=4 on no window reaches back into the NaN piece [0,1): there the value is well defined)')

spec = mk()
outs = []
bad = False
try:
    for i in range(max(len(x), len(y))):
        outs.append(spec.update(['x', [list(s) for s in x[i:i + 1]]], ['y', [list(s) for s in y[i:i + 1]]]))
    print('online, sample by sample:', outs)
except Exception as e:
    print('online, sample by sample: after', outs, 'update no.', len(outs) + 1, 'raises', repr(e))
    bad = True
sys.exit(1 if bad else 0)
