# Division written without blanks ("x/y", "x/2") is not the README's  phi / psi :
# the lexer swallows "x/y" as ONE identifier, parse() silently declares a new float
# signal called "x/y", and evaluate() dies with an internal TypeError.
# Run: cd /tmp/hunt/C01 && PYTHONPATH=/tmp/hunt/C01 /venv/bin/python /tmp/hunt/C01_repro_1.py
import logging, sys
logging.disable(logging.CRITICAL)
import rtamt

data = {'time': [0, 1, 2], 'x': [4.0, -2.0, 9.0], 'y': [2.0, 1.0, 3.0]}
required = [a / b - 1.0 for a, b in zip(data['x'], data['y'])]   # rho(x/y >= 1) = x/y - 1

def run(text):
    s = rtamt.StlDiscreteTimeOfflineSpecification()
    s.declare_var('x', 'float'); s.declare_var('y', 'float')
    s.spec = text
    s.parse()
    return s, [v for _, v in s.evaluate(data)]

_, spaced = run('out = x / y >= 1')
print('required                      :', required)
print("library, 'out = x / y >= 1'   :", spaced)
bad = spaced != required
try:
    s, tight = run('out = x/y >= 1')
    print("library, 'out = x/y >= 1'     :", tight)
    bad = bad or tight != required
except Exception as e:
    print("library, 'out = x/y >= 1'     : raises %s: %s" % (type(e).__name__, e))
    s = rtamt.StlDiscreteTimeOfflineSpecification()
    s.declare_var('x', 'float'); s.declare_var('y', 'float')
    s.spec = 'out = x/y >= 1'; s.parse()
    print('   parsed formula             :', s.spec_print().strip(), '  variables:', sorted(s.ast.vars))
    bad = True
sys.exit(1 if bad else 0)
