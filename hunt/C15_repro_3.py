# C15 repro 3 (oddity, whitespace variant): "x/y" without blanks is lexed as ONE
# identifier (the Identifier token admits '/' and '.'), silently declared as a new
# variable that never receives a value; "x / y" and "(x)/(y)" are the division.
import sys
import rtamt

samples = [(0, 1.0, 1.0), (1, 2.0, 5.0), (2, -3.0, -1.0), (3, 4.0, 2.0)]

def online(text):
    spec = rtamt.StlDiscreteTimeSpecification()
    spec.declare_var('x', 'float')
    spec.declare_var('y', 'float')
    spec.spec = text
    spec.parse()
    return [spec.update(t, [('x', x), ('y', y)]) for t, x, y in samples]

required = [x / y - 1 for _, x, y in samples]
spaced = online('x / y > 1')
tight = online('x/y > 1')
print('required rho(x/y > 1) :', required)
print("'x / y > 1'           :", spaced)
print("'x/y > 1'             :", tight)
if tight != spaced:
    print('VIOLATION: the two spellings of the division differ')
    sys.exit(1)
print('ok')
