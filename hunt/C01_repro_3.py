# StlDiscreteTimeSpecification offers both update() and evaluate(); one flag (set_ast_flag)
# records that "the" interpreter got the AST, so whichever of the two is called second
# finds its interpreter without an AST and raises AttributeError.
# Run: cd /tmp/hunt/C01 && PYTHONPATH=/tmp/hunt/C01 /venv/bin/python /tmp/hunt/C01_repro_3.py
import logging, sys
logging.disable(logging.CRITICAL)
import rtamt

data = {'time': [0, 1, 2], 'x': [1.0, -2.0, 3.0]}
s = rtamt.StlDiscreteTimeSpecification()
s.declare_var('x', 'float')
s.spec = 'out = once[0,1](x > 0)'
s.parse()
print('online :', [s.update(i, [('x', data['x'][i])]) for i in range(3)])
required = [1.0, 1.0, 3.0]
print('required offline result:', required)
try:
    got = [v for _, v in s.evaluate(data)]
    print('library offline result :', got)
    sys.exit(0 if got == required else 1)
except Exception as e:
    print('library offline result : raises %s: %s' % (type(e).__name__, e))
    sys.exit(1)
