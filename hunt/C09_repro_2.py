# C09 repro 2: the explainer treats every named sub-specification as one more top-level requirement.
# STLExplainer.explain loops over ast.specs and explains each spec whose value at time 0 is negative
# with the interval [0,0]; a sub-specification such as 'premise = (req >= 3)' that is simply false at
# time 0 therefore contributes [0,0] to the explanation of 'req', although the (inlined) requirement
# does not depend on req at time 0 -- and even when the requirement is satisfied.
import sys, logging
import rtamt
logging.disable(logging.CRITICAL)

def run(setup, text, data):
    s = rtamt.StlDiscreteTimeOfflineSpecification()
    s.declare_var('req', 'float'); s.declare_var('gnt', 'float')
    setup(s)
    s.spec = text
    s.parse()
    rob = s.evaluate(data)
    s.explain()
    ex = s.explainer.explanations
    return rob[0][1], {k: ex.get(k, []) for k in ('req', 'gnt')}

inl = 'out = always((req >= 3) implies eventually[0:2](gnt >= 3));'
mod = 'out = always(premise implies eventually[0:2](gnt >= 3));'
sub = lambda s: s.add_sub_spec('premise = (req >= 3);')

bad = False
# violated requirement: request at 2, never granted
d1 = {'time': [0, 1, 2, 3, 4, 5], 'req': [0., 0., 6., 0., 0., 0.], 'gnt': [0., 0., 0., 0., 0., 0.]}
r = run(lambda s: None, inl, d1); g = run(sub, mod, d1)
print('violated : required', r, '\n           library ', g); bad |= r != g
# satisfied requirement: nothing to explain
d2 = {'time': [0, 1, 2, 3, 4, 5], 'req': [0., 0., 6., 0., 0., 0.], 'gnt': [9., 9., 9., 9., 9., 9.]}
r = run(lambda s: None, inl, d2); g = run(sub, mod, d2)
print('satisfied: required', r, '\n           library ', g); bad |= r != g
sys.exit(1 if bad else 0)
