#!/usr/bin/env python
# C04 reproducer 3: a division written without blanks, "x/y", is not a division.
# The lexer's Identifier rule allows '/' inside identifiers (rtamt/antlr/grammar/tl/LtlLexer.g4,
# IdentifierPart), so "x/y" is one identifier; parse() silently declares a new float
# variable named "x/y" (only a logging warning), and dense-time offline evaluate()
#   - returns the float 0.0 (not a sample list) for  out = x/y
#   - raises TypeError("'float' object is not iterable") for  out = x/y >= 1
# "x / y" (with blanks) works.
#
# Run:  cd /tmp/hunt/C04 && PYTHONPATH=/tmp/hunt/C04 /venv/bin/python /tmp/hunt/C04_repro_3.py
import sys
import logging
logging.disable(logging.CRITICAL)
import rtamt

bad = 0


def evaluate(text, data):
    spec = rtamt.StlDenseTimeSpecification()
    for v in data:
        spec.declare_var(v, 'float')
    spec.declare_var('out', 'float')
    spec.spec = text
    spec.parse()
    return spec.evaluate(*[[v, data[v]] for v in data])


x = [[0, 4], [2, 6], [5, 2]]
y = [[0, 2], [3, 1], [5, 1]]
for text, required in [('out = x/y', [[0, 2.0], [2, 3.0], [3, 6.0], [5, 2.0]]),
                       ('out = x/y >= 1', [[0, 1.0], [2, 2.0], [3, 5.0], [5, 1.0]])]:
    print('spec     :', text, '  x =', x, ' y =', y)
    print('required :', required)
    ref = evaluate(text.replace('x/y', 'x / y'), {'x': x, 'y': y})
    print('with "x / y" the library returns:', ref)
    try:
        got = evaluate(text, {'x': x, 'y': y})
        print('library  :', repr(got))
        if got != ref:
            bad = 1
    except Exception as e:
        print('library  : raised %s: %s' % (type(e).__name__, e))
        bad = 1
    print()
print('VIOLATION' if bad else 'ok')
sys.exit(1 if bad else 0)
