"""C12 reproducer 1: get_value of an input field is not the supplied data (and the named
formula is not its stand-alone robustness) when the assertion writes a field of the SAME
object variable that carries the input field.

    m : Msg (fields value, other);   spec:  m.other = m.value > 2

visitAssertion() removes the head of the assertion name ('m') from free_vars, so the
online monitors (and the dense-time offline monitor) silently drop every value supplied
for 'm'.  Run:  cd /tmp/hunt/C12 && PYTHONPATH=/tmp/hunt/C12 /venv/bin/python /tmp/hunt/C12_repro_1.py
"""
import sys, types, logging
logging.disable(logging.CRITICAL)
import rtamt

# a tiny message type, importable by name like the ROS messages in the rtamt examples
mod = types.ModuleType('c12msgs')
class Msg(object):
    def __init__(self, value=0.0, other=0.0):
        self.value = float(value)
        self.other = float(other)
mod.Msg = Msg
sys.modules['c12msgs'] = mod

def build(cls, text):
    s = cls()
    s.import_module('c12msgs', 'Msg')
    s.declare_var('m', 'Msg')
    s.declare_var('o', 'Msg')
    s.spec = text
    s.parse()
    return s

data = [1.0, 5.0, 3.0]
bad = False

# reference: same formula, result written to another object -> behaves
ref = build(rtamt.StlDiscreteTimeOnlineSpecification, 'o.other = m.value > 2')
s = build(rtamt.StlDiscreteTimeOnlineSpecification, 'm.other = m.value > 2')
print('discrete-time online,  m.other = m.value > 2')
for i, v in enumerate(data):
    want = ref.update(i, [('m', Msg(v))])
    got = s.update(i, [('m', Msg(v))])
    gv = s.get_value('m.value')
    gn = s.get_value('m.other')
    print('  t=%d supplied m.value=%s  required: get_value(m.value)=%s, get_value(m.other)=%s   library: %s, %s'
          % (i, v, v, want, gv, gn))
    if gv != v or gn != want:
        bad = True

print('dense-time online,  m.other = m.value > 2')
ref = build(rtamt.StlDenseTimeOnlineSpecification, 'o.other = m.value > 2')
s = build(rtamt.StlDenseTimeOnlineSpecification, 'm.other = m.value > 2')
sig = [[float(i), Msg(v)] for i, v in enumerate(data)]
want = ref.update(['m', sig])
try:
    got = s.update(['m', sig])
    gv = s.get_value('m.value')
    print('  required:', want, ' library:', got, ' get_value(m.value)=', gv)
    if got != want:
        bad = True
except Exception as e:
    print('  required:', want, ' library raised', type(e).__name__, e)
    bad = True

sys.exit(1 if bad else 0)
