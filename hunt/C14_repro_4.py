# C14 repro 4: a RealLiteral with consecutive underscores (legal for the lexer: Digits allows '1__0')
# makes parse() raise ValueError, in an expression and in a constant declaration.
import sys, logging
import rtamt
logging.disable(logging.CRITICAL)

bad = 0
for text in ('out = x > 1__0.5', 'const float c = 1__0.5\nout = x > c', 'out = x > 1__0e2'):
    spec = rtamt.StlDiscreteTimeSpecification()
    spec.declare_var('x', 'float')
    spec.spec = text
    print('spec: %r' % text)
    print('  required: success (the text is derivable: RealLiteral) or RTAMTException')
    try:
        spec.parse()
        print('  observed: parsed ->', spec.spec_print().strip())
    except rtamt.RTAMTException as e:
        print('  observed: RTAMTException', e)
    except Exception as e:
        print('  observed: %s: %s' % (type(e).__name__, e))
        bad = 1
# for comparison: the same literal as an interval bound and the integer literal 1__0 are accepted
spec = rtamt.StlDiscreteTimeSpecification(); spec.spec = 'out = always[0,1__0.0] (x > 1__0)'; spec.parse()
print('comparison:', spec.spec_print().strip())
sys.exit(bad)
