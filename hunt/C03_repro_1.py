# C03 reproducer 1
# A pastified specification in which sqrt / ln / log is applied to an operand that the
# pastifier had to delay raises an exception in the first update() calls (i < h), because the
# delay once[d,d] is filled with -inf and sqrt(-inf) / ln(-inf) / log(-inf, b) is a domain error.
# The monitor therefore never reaches the samples i >= h for which the property promises the
# original robustness, although the original specification is perfectly defined on the trace.
import sys
import logging
logging.disable(logging.CRITICAL)
import rtamt

X = [4.0, 1.0, 7.0, 2.0, 5.0]
Y = [9.0, 3.0, 2.0, 8.0, 4.0]

SPECS = [  # (text, horizon in samples)
    ('out = sqrt(x + next(y)) >= 1', 1),
    ('out = ln(x + next(y)) >= 0', 1),
    ('out = log(x, next(y)) >= 0', 1),
    ('out = sqrt(y * eventually[0,2](x)) >= 2', 2),
]


def make(cls, text):
    s = cls()
    s.declare_var('x', 'float')
    s.declare_var('y', 'float')
    s.spec = text
    s.parse()
    return s


violated = False
for text, h in SPECS:
    # what the property requires: offline robustness of the ORIGINAL spec at sample i-h, trace 0..i
    required = {}
    for i in range(h, len(X)):
        off = make(rtamt.StlDiscreteTimeOfflineSpecification, text)
        r = off.evaluate({'time': list(range(i + 1)), 'x': X[:i + 1], 'y': Y[:i + 1]})
        required[i] = r[i - h][1]

    on = make(rtamt.StlDiscreteTimeOnlineSpecification, text)
    on.pastify()
    print(text, '   pastified:', on.spec_print().strip(), '  h =', h)
    print('   required for i>=h :', required)
    got = {}
    try:
        for i in range(len(X)):
            got[i] = on.update(i, [('x', X[i]), ('y', Y[i])])
        print('   library           :', {i: got[i] for i in required})
        if any(abs(got[i] - required[i]) > 1e-9 for i in required):
            violated = True
    except Exception as e:  # noqa
        print('   library           : update(%d) RAISED %r' % (len(got), e))
        violated = True

if violated:
    print('VIOLATION: the pastified monitor does not deliver the original robustness for i >= h')
    sys.exit(1)
print('no violation')
