(* driver.ml — line protocol between the Python harness and the extracted
   model.  One s-expression per input line, one result line per input line. *)
module OS = Stdlib.String
type ostring = string
open Model

type sx = A of ostring | L of sx list

let parse_sx (s : ostring) : sx =
  let n = OS.length s in
  let pos = ref 0 in
  let rec skip () = if !pos < n && (s.[!pos] = ' ' || s.[!pos] = '\t') then (incr pos; skip ()) in
  let rec item () =
    skip ();
    if !pos >= n then failwith "eof"
    else if s.[!pos] = '(' then begin
      incr pos;
      let rec loop acc =
        skip ();
        if !pos >= n then failwith "unclosed"
        else if s.[!pos] = ')' then (incr pos; L (List.rev acc))
        else loop (item () :: acc) in
      loop []
    end else begin
      let st = !pos in
      while !pos < n && s.[!pos] <> ' ' && s.[!pos] <> '(' && s.[!pos] <> ')' do incr pos done;
      A (OS.sub s st (!pos - st))
    end in
  item ()

let rec nat_of_int (i : int) : nat = if i <= 0 then O else S (nat_of_int (i - 1))
let rec int_of_nat (n : nat) : int = match n with O -> 0 | S m -> 1 + int_of_nat m

let rec pos_of_int (i : int) : positive =
  if i = 1 then XH else if i land 1 = 0 then XO (pos_of_int (i lsr 1)) else XI (pos_of_int (i lsr 1))
let z_of_int (i : int) : z = if i = 0 then Z0 else if i > 0 then Zpos (pos_of_int i) else Zneg (pos_of_int (- i))
let rec int_of_pos (p : positive) : int = match p with XH -> 1 | XO q -> 2 * int_of_pos q | XI q -> 2 * int_of_pos q + 1
let int_of_z (x : z) : int = match x with Z0 -> 0 | Zpos p -> int_of_pos p | Zneg p -> - (int_of_pos p)

let extz_of_string (s : ostring) : extz =
  if s = "inf" then PosInf else if s = "-inf" then NegInf else Fin (z_of_int (int_of_string s))
let string_of_extz (x : extz) : ostring =
  match x with PosInf -> "inf" | NegInf -> "-inf" | Fin a -> string_of_int (int_of_z a)

(* OCaml string <-> Coq string (ascii = eight booleans, least significant first) *)
let ascii_of_char (c : char) : ascii =
  let n = Char.code c in
  let b i = (n lsr i) land 1 = 1 in
  Ascii (b 0, b 1, b 2, b 3, b 4, b 5, b 6, b 7)
let char_of_ascii (a : ascii) : char =
  match a with Ascii (b0, b1, b2, b3, b4, b5, b6, b7) ->
    let v b i = if b then 1 lsl i else 0 in
    Char.chr (v b0 0 + v b1 1 + v b2 2 + v b3 3 + v b4 4 + v b5 5 + v b6 6 + v b7 7)
let coq_string (s : ostring) : string =
  let r = ref EmptyString in
  for i = OS.length s - 1 downto 0 do r := String (ascii_of_char s.[i], !r) done; !r
let rec ocaml_string (s : string) : ostring =
  match s with EmptyString -> "" | String (a, r) -> OS.make 1 (char_of_ascii a) ^ ocaml_string r
let unhex (h : ostring) : ostring =
  (* the first character is a marker so that the empty text is a non-empty atom *)
  OS.init ((OS.length h - 1) / 2) (fun i -> Char.chr (int_of_string ("0x" ^ OS.sub h (2 * i + 1) 2)))

let atom = function A s -> s | L _ -> failwith "atom expected"
let lst = function L l -> l | A _ -> failwith "list expected"
let nat_of_sx x = nat_of_int (int_of_string (atom x))
let v_of_sx x : v = Obj.magic (extz_of_string (atom x))

let aop1_of = function
  | "abs" -> Abs | "sqrt" -> Sqrt | "exp" -> Exp | "ln" -> Ln | "neg" -> Neg | s -> failwith ("aop1 " ^ s)
let aop2_of = function
  | "add" -> Add | "sub" -> Sub | "mul" -> Mul | "div" -> Div | "pow" -> Pow | "log" -> Log | s -> failwith ("aop2 " ^ s)
let cmp_of = function
  | "leq" -> CLeq | "lt" -> CLt | "geq" -> CGeq | "gt" -> CGt | "eq" -> CEq | "neq" -> CNeq | s -> failwith ("cmp " ^ s)

let rec formula_of_sx (x : sx) : formula =
  match x with
  | L [A "var"; i] -> Var (nat_of_sx i)
  | L [A "const"; c] -> Const (v_of_sx c)
  | L [A "a1"; o; f] -> A1 (aop1_of (atom o), formula_of_sx f)
  | L [A "a2"; o; f; g] -> A2 (aop2_of (atom o), formula_of_sx f, formula_of_sx g)
  | L [A "pred"; c; f; g] -> Pred (cmp_of (atom c), formula_of_sx f, formula_of_sx g)
  | L [A "not"; f] -> Not (formula_of_sx f)
  | L [A "and"; f; g] -> And (formula_of_sx f, formula_of_sx g)
  | L [A "or"; f; g] -> Or (formula_of_sx f, formula_of_sx g)
  | L [A "implies"; f; g] -> Implies (formula_of_sx f, formula_of_sx g)
  | L [A "iff"; f; g] -> Iff (formula_of_sx f, formula_of_sx g)
  | L [A "xor"; f; g] -> Xor (formula_of_sx f, formula_of_sx g)
  | L [A "rise"; f] -> Rise (formula_of_sx f)
  | L [A "fall"; f] -> Fall (formula_of_sx f)
  | L [A "prev"; f] -> Prev (formula_of_sx f)
  | L [A "sprev"; f] -> SPrev (formula_of_sx f)
  | L [A "next"; f] -> Next (formula_of_sx f)
  | L [A "snext"; f] -> SNext (formula_of_sx f)
  | L [A "once"; f] -> Once (formula_of_sx f)
  | L [A "hist"; f] -> Hist (formula_of_sx f)
  | L [A "since"; f; g] -> Since (formula_of_sx f, formula_of_sx g)
  | L [A "ev"; f] -> Ev (formula_of_sx f)
  | L [A "alw"; f] -> Alw (formula_of_sx f)
  | L [A "until"; f; g] -> Until (formula_of_sx f, formula_of_sx g)
  | L [A "oncet"; b; e; f] -> OnceT (nat_of_sx b, nat_of_sx e, formula_of_sx f)
  | L [A "histt"; b; e; f] -> HistT (nat_of_sx b, nat_of_sx e, formula_of_sx f)
  | L [A "sincet"; b; e; f; g] -> SinceT (nat_of_sx b, nat_of_sx e, formula_of_sx f, formula_of_sx g)
  | L [A "evt"; b; e; f] -> EvT (nat_of_sx b, nat_of_sx e, formula_of_sx f)
  | L [A "alwt"; b; e; f] -> AlwT (nat_of_sx b, nat_of_sx e, formula_of_sx f)
  | L [A "untilt"; b; e; f; g] -> UntilT (nat_of_sx b, nat_of_sx e, formula_of_sx f, formula_of_sx g)
  | L [A "precedes"; b; e; f; g] -> Precedes (nat_of_sx b, nat_of_sx e, formula_of_sx f, formula_of_sx g)
  | _ -> failwith "formula"

let col_of_sx (x : sx) : v list = List.map v_of_sx (lst x)
let trace_of_sx (x : sx) : v list list = List.map col_of_sx (lst x)

let show_vals (l : extz list) : ostring = OS.concat " " (List.map string_of_extz l)
let show_bool b = if b then "1" else "0"

let sem_of = function
  | "standard" -> Standard | "output-robustness" -> OutputRobustness | "input-robustness" -> InputRobustness
  | "output-vacuity" -> OutputVacuity | "input-vacuity" -> InputVacuity | s -> failwith ("sem " ^ s)
let pk_of_sx (x : sx) =
  match x with
  | A "std" -> pk_std
  | L [A "ia"; sem; L io] -> pk_ia_impl (sem_of (atom sem)) (List.map (fun b -> atom b = "1") io)
  | L [A "iaspec"; sem; L io] -> pk_ia_spec (sem_of (atom sem)) (List.map (fun b -> atom b = "1") io)
  | _ -> failwith "pk"


(* a syntax node of rtamt as the harness dumps it: strings in hex (with a marker), integers in hex *)
let n_of_hex (h : ostring) : n =
  (* most significant digit first; builds the binary positive bit by bit *)
  let bits = ref [] in
  OS.iter (fun c -> let d = int_of_string ("0x" ^ OS.make 1 c) in
             for i = 3 downto 0 do bits := ((d lsr i) land 1 = 1) :: !bits done) h;
  (* !bits: least significant first *)
  let rec strip = function [] -> [] | l -> l in
  let rec build (l : bool list) : positive option =
    match l with
    | [] -> None
    | b :: r -> (match build r with
                 | None -> if b then Some XH else None
                 | Some p -> Some (if b then XI p else XO p)) in
  match build (strip !bits) with None -> N0 | Some p -> Npos p
let bound_of_sx (x : sx) : bound =
  match x with
  | L [A num; A den; A u] ->
      { bnum = n_of_hex num;
        bden = (match n_of_hex den with Npos p -> p | N0 -> failwith "den");
        bunit = (match u with "_" -> None | "s" -> Some US | "ms" -> Some UMS | "us" -> Some UUS | "ns" -> Some UNS | _ -> failwith "unit") }
  | _ -> failwith "bound"
let un_of = function
  | "Neg" -> U_not | "Once" -> U_once | "Historically" -> U_hist | "Eventually" -> U_ev | "Always" -> U_alw
  | "Previous" -> U_prev | "StrongPrevious" -> U_sprev | "Next" -> U_next | "StrongNext" -> U_snext
  | "Rise" -> U_rise | "Fall" -> U_fall | "Abs" -> U_abs | "Sqrt" -> U_sqrt | "Exp" -> U_exp | "Ln" -> U_ln
  | "Negate" -> U_negate | s -> failwith ("un " ^ s)
let tun_of = function
  | "TimedOnce" -> T_once | "TimedHistorically" -> T_hist | "TimedEventually" -> T_ev | "TimedAlways" -> T_alw
  | s -> failwith ("tun " ^ s)
let bin_of = function
  | "Conjunction" -> B_and | "Disjunction" -> B_or | "Implies" -> B_implies | "Iff" -> B_iff | "Xor" -> B_xor
  | "Since" -> B_since | "Until" -> B_until | "Addition" -> B_add | "Subtraction" -> B_sub
  | "Multiplication" -> B_mul | "Division" -> B_div | s -> failwith ("bin " ^ s)
let tbin_of = function
  | "TimedSince" -> Tb_since | "TimedUntil" -> Tb_until | "TimedPrecedes" -> Tb_precedes | s -> failwith ("tbin " ^ s)
let rec node_of_sx (x : sx) : node =
  match x with
  | L [A "Variable"; A v; A f] -> NVar (coq_string (unhex v), coq_string (unhex f))
  | L [A "Constant"; A t] -> NConst (coq_string (unhex t))
  | L [A "Predicate"; A c; a; b] -> NBin (B_pred (cmp_of c), node_of_sx a, node_of_sx b)
  | L [A "Pow"; a; b] -> NFn2 (F_pow, node_of_sx a, node_of_sx b)
  | L [A "Log"; a; b] -> NFn2 (F_log, node_of_sx a, node_of_sx b)
  | L [A k; a] -> NUn (un_of k, node_of_sx a)
  | L [A k; (L [A _; A _; A _] as b); (L [A _; A _; A _] as e); a] -> NTUn (tun_of k, bound_of_sx b, bound_of_sx e, node_of_sx a)
  | L [A k; a; b] -> NBin (bin_of k, node_of_sx a, node_of_sx b)
  | L [A k; b; e; a1; a2] -> NTBin (tbin_of k, bound_of_sx b, bound_of_sx e, node_of_sx a1, node_of_sx a2)
  | _ -> failwith "node"
let hex_of (s : ostring) : ostring =
  "x" ^ OS.concat "" (List.map (fun c -> Printf.sprintf "%02x" (Char.code c)) (List.init (OS.length s) (OS.get s)))

let handle (x : sx) : ostring =
  match x with
  | L [A "nmon"; A du; A per; A pu; L vars; L roots; n; w] ->
      let tu = function "s" -> US | "ms" -> UMS | "us" -> UUS | "ns" -> UNS | _ -> failwith "unit" in
      let vars = List.map (function L [A v; A f] -> (coq_string (unhex v), coq_string (unhex f)) | _ -> failwith "var") vars in
      let cv (t : string) : extz =
        let f = float_of_string (ocaml_string t) in
        if f = infinity then PosInf else if f = neg_infinity then NegInf else Fin (z_of_int (int_of_float f)) in
      (match run_nmon vars cv (tu du) (z_of_int (int_of_string per)) (tu pu) (List.map node_of_sx roots) (Obj.magic (trace_of_sx w)) (nat_of_sx n) with
       | None -> "NMON NONE"
       | Some out -> "NMON " ^ show_vals out)
  | L [A "ident"; A h] ->
      let (ok, (v, f)) = run_ident (coq_string (unhex h)) in
      "IDENT " ^ show_bool ok ^ " " ^ hex_of (ocaml_string v) ^ " " ^ hex_of (ocaml_string f)
  | L [A "nname"; t] ->
      let (wf, names) = run_nnames (node_of_sx t) in
      "NNAME " ^ show_bool wf ^ " " ^ OS.concat " " (List.map (fun s -> hex_of (ocaml_string s)) names)
  | L [A "off"; pk; f; n; w] ->
      let pk = pk_of_sx pk and f = formula_of_sx f and n = nat_of_sx n and w = trace_of_sx w in
      Printf.sprintf "OFF %s | RHO %s | EXACT %s"
        (show_vals (run_off pk f w n)) (show_vals (run_rho pk f w n)) (show_bool (run_exact pk f w n))
  | L [A "on"; pk; L fs; n; w] ->
      let pk = pk_of_sx pk and fs = List.map formula_of_sx fs and n = nat_of_sx n and w = trace_of_sx w in
      let main = List.nth fs (List.length fs - 1) in
      Printf.sprintf "ON %s | RHO %s | EXACT %s | SUPP %s"
        (show_vals (run_on pk fs w n)) (show_vals (run_rho pk main w n))
        (show_bool (List.for_all (fun f -> run_exact pk f w n) fs)) (show_bool (run_on_supported fs))
  | L [A "onreset"; pk; L fs; h; n; w] ->
      let pk = pk_of_sx pk and fs = List.map formula_of_sx fs and h = nat_of_sx h and n = nat_of_sx n and w = trace_of_sx w in
      Printf.sprintf "ON %s" (show_vals (run_on_reset pk fs w h n))
  | L [A "pastpk"; pk; f; n; w] ->
      let pk = pk_of_sx pk and f = formula_of_sx f and n = nat_of_sx n and w = trace_of_sx w in
      let spec = run_past_spec_pk pk f w n in
      Printf.sprintf "SPEC %s | GUARD %s | EXACT %s | HOR %d"
        (OS.concat " " (List.map (function None -> "_" | Some v -> string_of_extz v) spec))
        (show_bool (run_past_guard f)) (show_bool (run_exact pk f w n)) (int_of_nat (run_hor f))
  | L [A "past"; kind; f; n; w] ->
      let stl = (atom kind = "stl") and f = formula_of_sx f and n = nat_of_sx n and w = trace_of_sx w in
      let pf = run_pastify stl f in
      let spec = run_past_spec f w n in
      Printf.sprintf "ON %s | SPEC %s | GUARD %s | EXACT %s | HOR %d"
        (show_vals (run_on pk_std [pf] w n))
        (OS.concat " " (List.map (function None -> "_" | Some v -> string_of_extz v) spec))
        (show_bool (run_past_guard f)) (show_bool (run_exact pk_std pf w n && run_exact pk_std f w n)) (int_of_nat (run_hor f))
  | L [A "jitter"; p; tol; L ts] ->
      let q_of = function L [a; b] -> { qnum = z_of_int (int_of_string (atom a)); qden = pos_of_int (int_of_string (atom b)) } | _ -> failwith "q" in
      let (a, (b, c)) = run_jitter (q_of p) (q_of tol) (List.map q_of ts) in
      Printf.sprintf "COUNT %d | OFFCOUNT %d | SPEC %d" (int_of_nat a) (int_of_nat b) (int_of_nat c)
  | L [A "supp"; stl; f] ->
      let f = formula_of_sx f in
      let pf = run_pastify (atom stl = "stl") f in
      let b k g = show_bool (run_supported (nat_of_int k) g) in
      Printf.sprintf "SUPP %s %s %s %s | PSUPP %s %s | BF %s" (b 0 f) (b 1 f) (b 2 f) (b 3 f) (show_bool (run_supported_pastified (nat_of_int 1) f pf)) (show_bool (run_supported_pastified (nat_of_int 3) f pf)) (show_bool (run_bounded_future f))
  | L [A "parse"; fe; du; L cs; A hex] ->
      let du = (match atom du with "s" -> KS | "ms" -> KMs | "us" -> KUs | _ -> KNs) in
      let cs = List.map (function L [a; b] -> (coq_string (atom a), coq_string (atom b)) | _ -> failwith "const") cs in
      (match run_parse (atom fe = "stl") cs du (coq_string (unhex hex)) with
       | Ok f -> "OK " ^ OS.concat " ; " (List.map ocaml_string f)
       | Rtamt -> "RTAMT"
       | Crash -> "CRASH")
  | L [A "rmin"; L ex; e] ->
      (* C15: an AST of the parser model -> its rendering with the needed parentheses (+ extra pairs at the paths ex), what the model
         parses that text to, the dump of the AST, and the minimal rendering with each needed pair removed *)
      let unit_of = function "s" -> Some KS | "ms" -> Some KMs | "us" -> Some KUs | "ns" -> Some KNs | _ -> None in
      let itime_of = function
        | L [A "lit"; A s; A u] -> ILit (coq_string s, unit_of u)
        | L [A "id"; A s; A u] -> IId (coq_string s, unit_of u)
        | _ -> failwith "itime" in
      let iv_of = function A "-" -> None | L [a; b] -> Some (itime_of a, itime_of b) | _ -> failwith "interval" in
      let un_of = function "neg" -> UNeg | "not" -> UNot | "always" -> UAlways | "eventually" -> UEv | "historically" -> UHist | "once" -> UOnce
        | "prev" -> UPrev | "next" -> UNext | "sprev" -> USPrev | "snext" -> USNext | _ -> failwith "unop" in
      let f1_of = function "abs" -> FAbs | "sqrt" -> FSqrt | "exp" -> FExp | "ln" -> FLn | "rise" -> FRise | "fall" -> FFall | _ -> failwith "fun1" in
      let f2_of = function "pow" -> FPow | "log" -> FLog | _ -> failwith "fun2" in
      let bin_of = function "mul" -> BMul | "div" -> BDiv | "add" -> BAdd | "sub" -> BSub
        | "leq" -> BCmp KLeq | "geq" -> BCmp KGeq | "lt" -> BCmp KLt | "gt" -> BCmp KGt | "eq" -> BCmp KEq | "neq" -> BCmp KNeq
        | "until" -> BUntil | "unless" -> BUnless | "since" -> BSince | "and" -> BAnd | "or" -> BOr | "implies" -> BImplies | "iff" -> BIff | "xor" -> BXor
        | _ -> failwith "binop" in
      let rec ex_of_sx = function
        | L [A "id"; A s] -> EId (coq_string s)
        | L [A "lit"; A s] -> ELit (coq_string s)
        | L [A "un"; A o; iv; a] -> EUn (un_of o, iv_of iv, ex_of_sx a)
        | L [A "f1"; A f; a] -> EFun1 (f1_of f, ex_of_sx a)
        | L [A "f2"; A f; a; b] -> EFun2 (f2_of f, ex_of_sx a, ex_of_sx b)
        | L [A "bin"; A o; iv; a; b] -> EBin (bin_of o, iv_of iv, ex_of_sx a, ex_of_sx b)
        | _ -> failwith "sexpr" in
      let e = ex_of_sx e in
      let ex = List.map (fun p -> List.map nat_of_sx (lst p)) ex in
      let hex s = "x" ^ OS.concat "" (List.map (fun c -> Printf.sprintf "%02x" (Char.code c)) (List.init (OS.length s) (OS.get s))) in
      let txt = run_render ex e in
      let model = (match run_parse true [] KS (coq_string (ocaml_string txt ^ ";")) with
                   | Ok f -> "OK " ^ OS.concat " ; " (List.map ocaml_string f) | Rtamt -> "RTAMT" | Crash -> "CRASH") in
      Printf.sprintf "TEXT %s | WF %s | AST %s | MODEL %s | DROPS %s" (hex (ocaml_string txt)) (show_bool (run_wf e))
        (match run_dump KS e with Some d -> ocaml_string d | None -> "NONE") model
        (OS.concat " " (List.map (fun t -> hex (ocaml_string t)) (run_min_drops e)))
  | L [A (("dn" | "pastdn") as cmd); pk; f; L w] ->
      let pk = pk_of_sx pk and f = formula_of_sx f in
      let f = if cmd = "pastdn" then run_pastify true f else f in
      let sig_of = function L smp -> List.map (function L [t; v] -> (z_of_int (int_of_string (atom t)), (Obj.magic (extz_of_string (atom v)) : v)) | _ -> failwith "sample") smp | _ -> failwith "sig" in
      let w = List.map sig_of w in
      let out = run_dn pk f (Obj.magic w) in
      "DN " ^ OS.concat " " (List.map (fun (t, v) -> string_of_int (int_of_z t) ^ ":" ^ string_of_extz (Obj.magic v)) (Obj.magic out))
      ^ " | EXACT " ^ show_bool (dn_exact pk f (Obj.magic w))
  | L [A (("rhoz" | "pastrhoz") as cmd); pk; f; L w; t0; tend] ->
      let pk = pk_of_sx pk and f = formula_of_sx f in
      let f = if cmd = "pastrhoz" then run_pastify true f else f in
      let sig_of = function L smp -> List.map (function L [t; v] -> (z_of_int (int_of_string (atom t)), (Obj.magic (extz_of_string (atom v)) : v)) | _ -> failwith "sample") smp | _ -> failwith "sig" in
      let w = List.map sig_of w in
      "RHOZ " ^ show_vals (run_rhoz pk f (Obj.magic w) (z_of_int (int_of_string (atom t0))) (z_of_int (int_of_string (atom tend))))
      ^ " | EXACT " ^ show_bool (dn_exact pk f (Obj.magic w))
  | L [A "satz"; f; L w; t0; tend] ->
      let f = formula_of_sx f in
      let sig_of = function L smp -> List.map (function L [t; v] -> (z_of_int (int_of_string (atom t)), (Obj.magic (extz_of_string (atom v)) : v)) | _ -> failwith "sample") smp | _ -> failwith "sig" in
      let w = List.map sig_of w in
      let a = z_of_int (int_of_string (atom t0)) and b = z_of_int (int_of_string (atom tend)) in
      "SATZ " ^ OS.concat " " (List.map show_bool (run_satz f (Obj.magic w) a b))
      ^ " | RHOZ " ^ show_vals (run_rhoz pk_std f (Obj.magic w) a b)
      ^ " | EXACT " ^ show_bool (dn_exact pk_std f (Obj.magic w)) ^ " | DBOOL " ^ show_bool (run_dbool f)
  | L [A "deval"; f; L w] ->
      let f = formula_of_sx f in
      let sig_of = function L smp -> List.map (function L [t; v] -> (z_of_int (int_of_string (atom t)), (Obj.magic (extz_of_string (atom v)) : v)) | _ -> failwith "sample") smp | _ -> failwith "sig" in
      let w = List.map sig_of w in
      (match run_deval f (Obj.magic w) with
       | None -> "DEVAL NONE"
       | Some out -> "DEVAL " ^ OS.concat " " (List.map (fun (t, v) -> string_of_int (int_of_z t) ^ ":" ^ string_of_extz (Obj.magic v)) (Obj.magic out)))
  | L [A "devalpk"; pk; f; L w] ->
      let pk = pk_of_sx pk and f = formula_of_sx f in
      let sig_of = function L smp -> List.map (function L [t; v] -> (z_of_int (int_of_string (atom t)), (Obj.magic (extz_of_string (atom v)) : v)) | _ -> failwith "sample") smp | _ -> failwith "sig" in
      let w = List.map sig_of w in
      (match run_deval_pk pk f (Obj.magic w) with
       | None -> "DEVAL NONE"
       | Some out -> "DEVAL " ^ OS.concat " " (List.map (fun (t, v) -> string_of_int (int_of_z t) ^ ":" ^ string_of_extz (Obj.magic v)) (Obj.magic out)))
  | L [A "isect"; op; L a; L b] ->
      let smp = function L [t; v] -> (z_of_int (int_of_string (atom t)), (Obj.magic (extz_of_string (atom v)) : v)) | _ -> failwith "sample" in
      (match run_isect (nat_of_sx op) (Obj.magic (List.map smp a)) (Obj.magic (List.map smp b)) with
       | None -> "ISECT BAD"
       | Some out -> "ISECT " ^ OS.concat " " (List.map (fun (t, v) -> string_of_int (int_of_z t) ^ ":" ^ string_of_extz (Obj.magic v)) (Obj.magic out)))
  | L [A "oisect"; op; L a; L b] ->
      let tz_of s = if s = "inf" then TInf else T (z_of_int (int_of_string s)) in
      let smp = function L [t; v] -> (tz_of (atom t), (Obj.magic (extz_of_string (atom v)) : v)) | _ -> failwith "sample" in
      let show_t = function TInf -> "inf" | T z -> string_of_int (int_of_z z) in
      let show_s (t, v) = show_t t ^ ":" ^ string_of_extz (Obj.magic v) in
      let show_l l = OS.concat " " (List.map show_s l) in
      (match Obj.magic (run_oisect (nat_of_sx op) (Obj.magic (List.map smp a)) (Obj.magic (List.map smp b))) with
       | None -> "OISECT BAD"
       | Some (((out, la), r1), r2) ->
           "OISECT " ^ show_l out ^ " | LAST " ^ (match la with None -> "" | Some x -> show_s x) ^ " | R1 " ^ show_l r1 ^ " | R2 " ^ show_l r2)
  | L [A "binrun"; op; L bs] ->
      let tz_of s = if s = "inf" then TInf else T (z_of_int (int_of_string s)) in
      let smp = function L [t; v] -> (tz_of (atom t), (Obj.magic (extz_of_string (atom v)) : v)) | _ -> failwith "sample" in
      let show_t = function TInf -> "inf" | T z -> string_of_int (int_of_z z) in
      let show_s (t, v) = show_t t ^ ":" ^ string_of_extz (Obj.magic v) in
      let show_l l = OS.concat " " (List.map show_s l) in
      let batch = function L [L a; L b] -> (List.map smp a, List.map smp b) | _ -> failwith "batch" in
      (match Obj.magic (run_binrun (nat_of_sx op) (Obj.magic (List.map batch bs))) with
       | None -> "BINRUN BAD"
       | Some (((outs, l), r), lo) ->
           "BINRUN " ^ OS.concat " ; " (List.map show_l outs) ^ " | L " ^ show_l l ^ " | R " ^ show_l r ^ " | LO " ^ (match lo with None -> "" | Some x -> show_s x))
  | L [A "parsefile"; A hex] -> "FILE " ^ ocaml_string (run_parsefile (coq_string (unhex hex)))
  | L [A (("onlmon" | "pastonlmon") as cmd); pk; f; L envs] ->
      let pk = pk_of_sx pk and f = formula_of_sx f in
      let f = if cmd = "pastonlmon" then run_pastify true f else f in
      let smp = function L [t; v] -> (z_of_int (int_of_string (atom t)), (Obj.magic (extz_of_string (atom v)) : v)) | _ -> failwith "sample" in
      let sig_of = function L l -> List.map smp l | _ -> failwith "sig" in
      let env_of = function L l -> List.map sig_of l | _ -> failwith "env" in
      let show_t = function TInf -> "inf" | T z -> string_of_int (int_of_z z) in
      let show_s (t, v) = show_t t ^ ":" ^ string_of_extz (Obj.magic v) in
      (match Obj.magic (run_onlmon pk f (Obj.magic (List.map env_of envs))) with
       | None -> "ONLMON BAD"
       | Some outs -> "ONLMON " ^ OS.concat " ; " (List.map (fun l -> OS.concat " " (List.map show_s l)) outs))
  | L [A "onlforest"; pk; L fs; L qs; L envs] ->
      let pk = pk_of_sx pk and fs = List.map formula_of_sx fs and qs = List.map formula_of_sx qs in
      let smp = function L [t; v] -> (z_of_int (int_of_string (atom t)), (Obj.magic (extz_of_string (atom v)) : v)) | _ -> failwith "sample" in
      let sig_of = function L l -> List.map smp l | _ -> failwith "sig" in
      let env_of = function L l -> List.map sig_of l | _ -> failwith "env" in
      let show_t = function TInf -> "inf" | T z -> string_of_int (int_of_z z) in
      let show_s (t, v) = show_t t ^ ":" ^ string_of_extz (Obj.magic v) in
      let show_l l = OS.concat " " (List.map show_s l) in
      let show_o = function None -> "_" | Some l -> show_l l in
      (match Obj.magic (run_onlforest pk fs qs (Obj.magic (List.map env_of envs))) with
       | None -> "ONLFOREST BAD"
       | Some (rets, rs) ->
           "ONLFOREST " ^ OS.concat " ; " (List.map show_l rets) ^ " | GET " ^
           OS.concat " ; " (List.map (fun (vs, _) -> OS.concat " , " (List.map show_l vs)) rs) ^ " | SUB " ^
           OS.concat " ; " (List.map (fun (_, os) -> OS.concat " , " (List.map show_o os)) rs))
  | L [A (("onlmonreset" | "pastonlmonreset") as cmd); mode; pk; f; L segs] ->
      (* (onlmonreset MODE PK FORMULA ((ENV ...) (ENV ...) ...)): one list of update() data sets per segment, a reset() between segments *)
      let pk = pk_of_sx pk and f = formula_of_sx f in
      let f = if cmd = "pastonlmonreset" then run_pastify true f else f in
      let smp = function L [t; v] -> (z_of_int (int_of_string (atom t)), (Obj.magic (extz_of_string (atom v)) : v)) | _ -> failwith "sample" in
      let sig_of = function L l -> List.map smp l | _ -> failwith "sig" in
      let env_of = function L l -> List.map sig_of l | _ -> failwith "env" in
      let seg_of = function L l -> List.map env_of l | _ -> failwith "segment" in
      let show_t = function TInf -> "inf" | T z -> string_of_int (int_of_z z) in
      let show_s (t, v) = show_t t ^ ":" ^ string_of_extz (Obj.magic v) in
      let show_seg outs = "#" ^ string_of_int (List.length outs) ^ " " ^ OS.concat " ; " (List.map (fun l -> OS.concat " " (List.map show_s l)) outs) in
      (match Obj.magic (run_onlmonreset (nat_of_sx mode) pk f (Obj.magic (List.map seg_of segs))) with
       | None -> "ONLMONRESET BAD"
       | Some outs -> "ONLMONRESET " ^ OS.concat " | " (List.map show_seg outs))
  | L [A "onlun"; kind; L bs] ->
      let tz_of s = if s = "inf" then TInf else T (z_of_int (int_of_string s)) in
      let smp = function L [t; v] -> (tz_of (atom t), (Obj.magic (extz_of_string (atom v)) : v)) | _ -> failwith "sample" in
      let show_t = function TInf -> "inf" | T z -> string_of_int (int_of_z z) in
      let show_s (t, v) = show_t t ^ ":" ^ string_of_extz (Obj.magic v) in
      let show_l l = OS.concat " " (List.map show_s l) in
      let batch = function L a -> List.map smp a | _ -> failwith "batch" in
      (match Obj.magic (run_onlun (nat_of_sx kind) (Obj.magic (List.map batch bs))) with
       | None -> "ONLUN BAD"
       | Some (outs, prev) -> "ONLUN " ^ OS.concat " ; " (List.map show_l outs) ^ " | PREV " ^ (match prev with None -> "" | Some x -> string_of_extz (Obj.magic x)))
  | L [A "onlsince"; L bs] ->
      let tz_of s = if s = "inf" then TInf else T (z_of_int (int_of_string s)) in
      let smp = function L [t; v] -> (tz_of (atom t), (Obj.magic (extz_of_string (atom v)) : v)) | _ -> failwith "sample" in
      let show_t = function TInf -> "inf" | T z -> string_of_int (int_of_z z) in
      let show_s (t, v) = show_t t ^ ":" ^ string_of_extz (Obj.magic v) in
      let show_l l = OS.concat " " (List.map show_s l) in
      let batch = function L [L a; L b] -> (List.map smp a, List.map smp b) | _ -> failwith "batch" in
      (match Obj.magic (run_onlsince (Obj.magic (List.map batch bs))) with
       | None -> "ONLSINCE BAD"
       | Some ((((outs, l), r), prev), last) ->
           "ONLSINCE " ^ OS.concat " ; " (List.map show_l outs) ^ " | L " ^ show_l l ^ " | R " ^ show_l r ^ " | PREV " ^ string_of_extz (Obj.magic prev)
           ^ " | LAST " ^ (match last with None -> "" | Some x -> show_s x))
  | L [A "onlwin"; kind; a; b; L bs] ->
      let smp = function L [t; v] -> (z_of_int (int_of_string (atom t)), (Obj.magic (extz_of_string (atom v)) : v)) | _ -> failwith "sample" in
      let show_t = function TInf -> "inf" | T z -> string_of_int (int_of_z z) in
      let show_s (t, v) = string_of_int (int_of_z t) ^ ":" ^ string_of_extz (Obj.magic v) in
      let show_l l = OS.concat " " (List.map show_s l) in
      let show_p ((lo, hi), v) = string_of_int (int_of_z lo) ^ ":" ^ show_t hi ^ ":" ^ string_of_extz (Obj.magic v) in
      let batch = function L a -> List.map smp a | _ -> failwith "batch" in
      (match Obj.magic (run_onlwin (nat_of_sx kind) (z_of_int (int_of_string (atom a))) (z_of_int (int_of_string (atom b))) (Obj.magic (List.map batch bs))) with
       | None -> "ONLWIN BAD"
       | Some (((outs, prev), rs), started) ->
           "ONLWIN " ^ OS.concat " ; " (List.map show_l outs) ^ " | PREV " ^ OS.concat " " (List.map show_p prev)
           ^ " | RS " ^ (match rs with RNegInf -> "-inf" | RPosInf -> "inf" | RFin z -> string_of_int (int_of_z z)) ^ " | STARTED " ^ show_bool started)
  | L [A "unitslift"; skip; du; L [pn; pd]; pu; L cs; u] ->
      (* (unitslift SKIP DU (PN PD) PU ((name N D)|(name none) ...) U): numbers are decimal texts of any size *)
      let unit_of = function "s" -> US | "ms" -> UMS | "us" -> UUS | "ns" -> UNS | s -> failwith ("unit " ^ s) in
      let ounit_of = function "_" -> None | s -> Some (unit_of s) in
      let q_of n d = ul_q (coq_string (atom n)) (coq_string (atom d)) in
      let end_of = function
        | L [A "lit"; n; d] -> ULit (q_of n d)
        | L [A "id"; nm] -> UId (coq_string (atom nm))
        | _ -> failwith "bound end" in
      let bound_of = function
        | L [b; bu; e; eu] -> { u_b = end_of b; u_bu = ounit_of (atom bu); u_e = end_of e; u_eu = ounit_of (atom eu) }
        | _ -> failwith "bound" in
      let op1_of = function
        | "not" -> ONot | "rise" -> ORise | "fall" -> OFall | "prev" -> OPrev | "sprev" -> OSPrev | "next" -> ONext | "snext" -> OSNext
        | "once" -> OOnce | "hist" -> OHist | "ev" -> OEv | "alw" -> OAlw | s -> OA1 (aop1_of s) in
      let op2_of = function
        | "and" -> OAnd | "or" -> OOr | "implies" -> OImplies | "iff" -> OIff | "xor" -> OXor | "since" -> OSince | "until" -> OUntil
        | s -> OA2 (aop2_of s) in
      let top1_of = function "oncet" -> TOnce | "histt" -> THist | "evt" -> TEv | "alwt" -> TAlw | s -> failwith ("top1 " ^ s) in
      let top2_of = function "sincet" -> TSince | "untilt" -> TUntil | "precedes" -> TPrecedes | s -> failwith ("top2 " ^ s) in
      let rec uf = function
        | L [A "var"; i] -> BVar (nat_of_sx i)
        | L [A "const"; c] -> BConst (v_of_sx c)
        | L [A "pred"; c; f; g] -> BBin (OPred (cmp_of (atom c)), uf f, uf g)
        | L [A "un"; o; f] -> BUn (op1_of (atom o), uf f)
        | L [A "bin"; o; f; g] -> BBin (op2_of (atom o), uf f, uf g)
        | L [A "unt"; o; b; f] -> BUnT (top1_of (atom o), bound_of b, uf f)
        | L [A "bint"; o; b; f; g] -> BBinT (top2_of (atom o), bound_of b, uf f, uf g)
        | L [A "unless"; b; f; g] -> run_unless (bound_of b) (uf f) (uf g)
        | _ -> failwith "uformula" in
      let ce = List.map (function
        | L [nm; A "none"] -> (coq_string (atom nm), None)
        | L [nm; n; d] -> (coq_string (atom nm), Some (q_of n d))
        | _ -> failwith "const") cs in
      let st = { s_du = unit_of (atom du); s_p = q_of pn pd; s_pu = unit_of (atom pu) } in
      ocaml_string (run_unitslift (atom skip = "1") st ce (uf u))
  | L [A "info"; f] ->
      let f = formula_of_sx f in
      Printf.sprintf "HOR %d | BF %s | PAST %s | ISBOOL %s" (int_of_nat (run_hor f)) (show_bool (run_bounded_future f))
        (show_bool (run_past_only f)) (show_bool (run_is_bool f))
  | L [A "explain"; L fs; n; w] ->
      let fs = List.map formula_of_sx fs and n = nat_of_sx n and w = trace_of_sx w in
      let rho0 = OS.concat " " (List.map (fun f -> match run_rho pk_std f w n with x :: _ -> string_of_extz (Obj.magic x) | [] -> "?") fs) in
      let exact = show_bool (List.for_all (fun f -> run_exact pk_std f w n) fs) in
      (match run_explain fs w n with
       | None -> "EXPL RAISE | RHO0 " ^ rho0 ^ " | EXACT " ^ exact
       | Some tb ->
           "EXPL " ^ OS.concat " " (List.map (fun (x, iv) -> string_of_int (int_of_nat x) ^ "=" ^
               OS.concat "," (List.map (fun (b, e) -> string_of_int (int_of_nat b) ^ "-" ^ string_of_int (int_of_nat e)) iv)) tb)
           ^ " | RHO0 " ^ rho0 ^ " | EXACT " ^ exact)
  | L [A "sat"; f; n; w] ->
      let f = formula_of_sx f and n = nat_of_sx n and w = trace_of_sx w in
      Printf.sprintf "SAT %s | RHO %s | EXACT %s | ISBOOL %s" (OS.concat " " (List.map show_bool (run_sat f w n)))
        (show_vals (run_rho pk_std f w n)) (show_bool (run_exact pk_std f w n)) (show_bool (run_is_bool f))
  | _ -> failwith "unknown command"

let () =
  try
    while true do
      let line = input_line stdin in
      (if OS.length line > 0 then
        let out = try handle (parse_sx line) with Failure m -> "ERROR " ^ m | Not_found -> "ERROR notfound" | Stack_overflow -> "ERROR stack" in
        print_string out; print_newline ());
      flush stdout
    done
  with End_of_file -> ()
