(* Extraction of the executable model.  ExtrOcamlBasic only: bool, option,
   unit, list, prod, sumbool, sumor are mapped to their OCaml counterparts;
   nat, positive, Z stay Coq datatypes. *)
Require Extraction.
Require Import ExtrOcamlBasic.
From RV Require Import Val Syntax Rho Offline Online ExtZ Run.
Extraction "model.ml" Run.pk_std Run.run_off Run.run_rho Run.run_exact
  Run.run_on Run.run_on_supported Run.run_on_reset
  Run.pk_ia_impl Run.pk_ia_spec Run.run_pastify Run.run_past_guard Run.run_past_spec Run.run_past_spec_pk Run.run_jitter Run.run_supported Run.run_supported_pastified Run.run_parse Run.run_lex Run.run_dn Run.dn_exact Run.run_rhoz Run.run_isect Run.run_oisect Run.run_binrun Run.run_parsefile Run.run_onlmon Run.run_onlforest Run.run_render Run.run_min_drops Run.run_wf Run.run_dump Run.run_nnames Run.run_ident Run.run_nmon Run.run_unitslift Run.ul_q Run.run_unless Run.run_onlmonreset Run.run_onlun Run.run_onlsince Run.run_onlwin Run.run_explain Run.run_deval Run.run_deval_pk Run.run_satz Run.run_dbool Run.run_hor Run.run_bounded_future Run.run_past_only Run.run_is_bool Run.run_sat.
