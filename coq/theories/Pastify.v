(* Pastify.v — the pastifier (rtamt/pastifier/{ltl,stl}) on core formulas:
   horizon visitor and delay-based rewriting, as repaired (next counts one
   sample, bounded historically keeps its window under a delay, unary minus /
   ln / log are visited).  Bounds are in samples: the repaired pastifier first
   expresses every bound in the default unit, and the theorem is about
   specifications whose sampling period is one default unit, see DESIGN. *)
From Coq Require Import List Bool Arith Lia.
From RV Require Import Val Syntax Rho.
Import ListNotations.

Section Pastify.
Context {VS : Val}.

(* STL pastifier: delay = once[d,d]; LTL pastifier: d nested (weak) previous *)
Inductive delay_kind := DelayOnce | DelayPrev.
Variable dk : delay_kind.

Fixpoint prevs (d : nat) (x : formula) : formula :=
  match d with 0 => x | S d' => Prev (prevs d' x) end.
Definition delay (d : nat) (x : formula) : formula :=
  match dk with
  | DelayOnce => if 0 <? d then OnceT d d x else x
  | DelayPrev => prevs d x
  end.

(* H = remaining horizon passed down by the caller *)
Fixpoint pastify (p : formula) (H : nat) {struct p} : formula :=
  let h := hor p in
  let d := H - h in
  match p with
  | Var x => delay H (Var x)
  | Const c => Const c
  | A1 o f => delay d (A1 o (pastify f h))
  | A2 o f g => delay d (A2 o (pastify f h) (pastify g h))
  | Pred c f g => delay d (Pred c (pastify f h) (pastify g h))
  | Not f => delay d (Not (pastify f h))
  | And f g => delay d (And (pastify f h) (pastify g h))
  | Or f g => delay d (Or (pastify f h) (pastify g h))
  | Implies f g => delay d (Implies (pastify f h) (pastify g h))
  | Iff f g => delay d (Iff (pastify f h) (pastify g h))
  | Xor f g => delay d (Xor (pastify f h) (pastify g h))
  | Rise f => delay d (Rise (pastify f h))
  | Fall f => delay d (Fall (pastify f h))
  | Prev f => delay d (Prev (pastify f h))
  | SPrev f => delay d (SPrev (pastify f h))
  | Once f => delay d (Once (pastify f h))
  | Hist f => delay d (Hist (pastify f h))
  | Since f g => delay d (Since (pastify f h) (pastify g h))
  | Next f | SNext f => pastify f (H - 1)
  | OnceT b e f => OnceT (b + d) (e + d) (pastify f h)
  | HistT b e f => delay d (HistT b e (pastify f h))
  | SinceT b e f g => delay d (SinceT b e (pastify f h) (pastify g h))
  | Precedes b e f g => delay d (Precedes b e (pastify f h) (pastify g h))
  | EvT b e f => let c := pastify f (H - e) in if 0 <? e - b then OnceT 0 (e - b) c else c
  | AlwT b e f => let c := pastify f (H - e) in if 0 <? e - b then HistT 0 (e - b) c else c
  | UntilT b e f g => Precedes b e (pastify f (H - e)) (pastify g (H - e))
  | Ev f | Alw f => p           (* rejected: 'Cannot pastify an unbounded ...' *)
  | Until f g => p
  end.

(* what pastify() accepts *)
Definition pastify_ok (p : formula) : bool := bounded_future p.

(* the guard the delay scheme needs: no past-time operator, prev, rise or
   fall has a future operator beneath it *)
Fixpoint future_above_past (p : formula) : bool :=
  match p with
  | Var _ | Const _ => true
  | A1 _ f | Not f | Next f | SNext f | EvT _ _ f | AlwT _ _ f | Ev f | Alw f => future_above_past f
  | A2 _ f g | Pred _ f g | And f g | Or f g | Implies f g | Iff f g | Xor f g
  | UntilT _ _ f g | Until f g => future_above_past f && future_above_past g
  | Rise f | Fall f | Prev f | SPrev f | Once f | Hist f | OnceT _ _ f | HistT _ _ f => past_only f
  | Since f g | SinceT _ _ f g | Precedes _ _ f g => past_only f && past_only g
  end.

End Pastify.
