(* DenseEvalMain.v — the dense-time offline visitors of the untimed fragment (model DenseEval.deval,
   including the unbounded since / until) compute the tick semantics rhoZ: for strictly increasing
   input signals the returned sample list is strictly increasing, starts at the start of the
   sub-formula's domain and denotes rhoZ there. *)
From Coq Require Import List Bool Arith ZArith Lia.
From RV Require Import Val Syntax Rho ListFacts OfflineCorrect Online Dense DenseSem DenseFacts DenseMerge DenseMergeCorrect DenseMergeG DenseMergeGCorrect DenseEval DenseEvalCorrect DenseSinceCorrect.
Import ListNotations.
Local Open Scope Z_scope.

Section EvalMain.
Context {VS : Val} (AR : Arith VS).

(* ---------------- the theorem ---------------- *)
Let pk : formula -> formula -> pkind := fun _ _ => PStd.
Hypothesis SubNeg : forall l r, neg (a2 AR Sub l r) = a2 AR Sub r l.
Variable W : list dsig.
Variable tend : Z.
Hypothesis Htend : 0 <= tend.
Hypothesis HW : forall s, In s W -> dsorted s /\ s <> [] /\ ub tend s.
Notation RZ := (rhoZ AR pk W tend).

Fixpoint untimed (p : formula) : bool :=
  match p with
  | Var _ | Const _ => true
  | A1 _ f | Not f | Once f | Hist f | Ev f | Alw f => untimed f
  | A2 _ f g | Pred _ f g | And f g | Or f g | Implies f g | Iff f g | Xor f g | Since f g | Until f g => untimed f && untimed g
  | _ => false
  end.

Lemma in_W x : (x < length W)%nat -> dsorted (nth x W []) /\ nth x W [] <> [] /\ ub tend (nth x W []).
Proof. intros H. apply HW. apply nth_In. exact H. Qed.

Lemma start_le_tend s : dsorted s -> s <> [] -> ub tend s -> start s <= tend.
Proof. intros _ N U. destruct s as [|[a v] r]; [congruence|]. cbn [start]. apply (U a v). left. reflexivity. Qed.

Lemma dstart_le_tend p : untimed p = true -> (nvars p <= length W)%nat -> dstart W p <= tend.
Proof.
  induction p; intros Hu Hn; cbn [untimed] in Hu; try discriminate; cbn [nvars] in Hn; cbn [dstart];
  try (apply andb_prop in Hu as [Hu1 Hu2]); try lia; try (apply IHp; assumption);
  try (apply Z.max_lub; [apply IHp1|apply IHp2]; try assumption; lia).
  destruct (in_W x ltac:(lia)) as (S & N & U). apply start_le_tend; assumption.
Qed.
Lemma bsum_untimed p : untimed p = true -> bsum p = 0.
Proof.
  induction p; intros Hu; cbn [untimed] in Hu; try discriminate; cbn [bsum];
  try (apply andb_prop in Hu as [Hu1 Hu2]); try reflexivity; try (apply IHp; assumption);
  rewrite IHp1, IHp2 by assumption; reflexivity.
Qed.

(* after the last break-point of the inputs nothing changes any more *)
Lemma rhoZ_const_after p : untimed p = true -> (nvars p <= length W)%nat -> forall u, tend <= u -> RZ p u = RZ p tend.
Proof.
  induction p; intros Hu Hn u Hge; cbn [untimed] in Hu; try discriminate; cbn [nvars] in Hn;
  try (apply andb_prop in Hu as [Hu1 Hu2]); cbn [rhoZ];
  try (rewrite IHp by (try assumption; lia)); try (rewrite IHp1, IHp2 by (try assumption; lia)); try reflexivity.
  - (* Var *) destruct (in_W x ltac:(lia)) as (S & N & U). unfold den. rewrite (den_const_after _ tend U u Hge). reflexivity.
  - (* Once *) pose proof (dstart_le_tend p Hu Hn). cbn [dstart]. apply zmax_tail_const; [lia|]. intros u' Hu'. apply IHp; try assumption; lia.
  - (* Hist *) pose proof (dstart_le_tend p Hu Hn). cbn [dstart]. apply zmin_tail_const; [lia|]. intros u' Hu'. apply IHp; try assumption; lia.
  - (* Since *) apply (Sv_const_after (RZ p1) (RZ p2) (dstart W (Since p1 p2)) tend); [|intros u' Hu'; split; [apply IHp1|apply IHp2]; try assumption; lia|exact Hge].
    cbn [dstart]. pose proof (dstart_le_tend p1 Hu1 ltac:(lia)). pose proof (dstart_le_tend p2 Hu2 ltac:(lia)). lia.
  - (* Ev *) rewrite (bsum_untimed p Hu), Z.add_0_r. replace (Z.max u tend) with u by lia. replace (Z.max tend tend) with tend by lia.
    rewrite !zmax_one. apply IHp; try assumption.
  - (* Alw *) rewrite (bsum_untimed p Hu), Z.add_0_r. replace (Z.max u tend) with u by lia. replace (Z.max tend tend) with tend by lia.
    rewrite !zmin_one. apply IHp; try assumption.
  - (* Until *) cbn [bsum]. rewrite (bsum_untimed p1 Hu1), (bsum_untimed p2 Hu2), Z.add_0_r.
    apply (Uv_const_after (RZ p1) (RZ p2) tend); [|exact Hge].
    intros u' Hu'; split; [apply IHp1|apply IHp2]; try assumption; lia.
Qed.

Lemma pred_of_diff_std c l r : pred_of_diff AR c (a2 AR Sub l r) = pred_std AR c l r.
Proof. destruct c; cbn [pred_of_diff pred_std]; try reflexivity; apply SubNeg. Qed.

Theorem deval_correct p : untimed p = true -> (nvars p <= length W)%nat ->
  exists s, deval AR p W = Some s /\ good s (dstart W p) (RZ p).
Proof.
  induction p; intros Hu Hn; cbn [untimed] in Hu; try discriminate; cbn [nvars] in Hn;
  try (apply andb_prop in Hu as [Hu1 Hu2]); cbn [deval dstart].
  - (* Var *) destruct (in_W x ltac:(lia)) as (S & N & U). exists (nth x W []). split; [reflexivity|]. apply good_self; assumption.
  - (* Const *) exists [(0, c)]. split; [reflexivity|]. split; [cbn; auto|]. split; [discriminate|]. split; [reflexivity|].
    intros t. cbn [den_opt rhoZ]. destruct (Z.leb_spec 0 t); destruct (Z.ltb_spec t 0); try lia; reflexivity.
  - (* A1 *) destruct (IHp Hu Hn) as (s & E & G). rewrite E. eexists. split; [reflexivity|]. apply (good_dmap (a1 AR o) s _ _ G).
  - (* A2 *) destruct (IHp1 Hu1 ltac:(lia)) as (s1 & E1 & G1), (IHp2 Hu2 ltac:(lia)) as (s2 & E2 & G2). rewrite E1, E2. cbn [obind].
    destruct (good_isect (a2 AR o) _ _ _ _ _ _ G1 G2) as (out & E & G). exists out. split; [exact E|exact G].
  - (* Pred *) destruct (IHp1 Hu1 ltac:(lia)) as (s1 & E1 & G1), (IHp2 Hu2 ltac:(lia)) as (s2 & E2 & G2). rewrite E1, E2. cbn [obind].
    destruct (good_isect (a2 AR Sub) _ _ _ _ _ _ G1 G2) as (out & E & G). rewrite E. cbn [option_map]. eexists. split; [reflexivity|].
    apply good_dedup. eapply good_ext; [apply (good_dmap (pred_of_diff AR c) out _ _ G)|].
    intros t _. cbn [rhoZ pred_val pk]. apply pred_of_diff_std.
  - (* Not *) destruct (IHp Hu Hn) as (s & E & G). rewrite E. eexists. split; [reflexivity|]. apply (good_dmap neg s _ _ G).
  - destruct (IHp1 Hu1 ltac:(lia)) as (s1 & E1 & G1), (IHp2 Hu2 ltac:(lia)) as (s2 & E2 & G2). rewrite E1, E2. cbn [obind].
    destruct (good_isect vmin _ _ _ _ _ _ G1 G2) as (out & E & G). exists out. split; [exact E|exact G].
  - destruct (IHp1 Hu1 ltac:(lia)) as (s1 & E1 & G1), (IHp2 Hu2 ltac:(lia)) as (s2 & E2 & G2). rewrite E1, E2. cbn [obind].
    destruct (good_isect vmax _ _ _ _ _ _ G1 G2) as (out & E & G). exists out. split; [exact E|exact G].
  - destruct (IHp1 Hu1 ltac:(lia)) as (s1 & E1 & G1), (IHp2 Hu2 ltac:(lia)) as (s2 & E2 & G2). rewrite E1, E2. cbn [obind].
    destruct (good_isect (fun l r => vmax (neg l) r) _ _ _ _ _ _ G1 G2) as (out & E & G). exists out. split; [exact E|exact G].
  - destruct (IHp1 Hu1 ltac:(lia)) as (s1 & E1 & G1), (IHp2 Hu2 ltac:(lia)) as (s2 & E2 & G2). rewrite E1, E2. cbn [obind].
    destruct (good_isect (fun l r => neg (a1 AR Abs (a2 AR Sub l r))) _ _ _ _ _ _ G1 G2) as (out & E & G). exists out. split; [exact E|exact G].
  - destruct (IHp1 Hu1 ltac:(lia)) as (s1 & E1 & G1), (IHp2 Hu2 ltac:(lia)) as (s2 & E2 & G2). rewrite E1, E2. cbn [obind].
    destruct (good_isect (fun l r => a1 AR Abs (a2 AR Sub l r)) _ _ _ _ _ _ G1 G2) as (out & E & G). exists out. split; [exact E|exact G].
  - (* Once *) destruct (IHp Hu Hn) as (s & E & G). rewrite E. eexists. split; [reflexivity|]. apply (good_once s _ _ G).
  - (* Hist *) destruct (IHp Hu Hn) as (s & E & G). rewrite E. eexists. split; [reflexivity|]. apply (good_hist s _ _ G).
  - (* Since *) destruct (IHp1 Hu1 ltac:(lia)) as (s1 & E1 & G1), (IHp2 Hu2 ltac:(lia)) as (s2 & E2 & G2). rewrite E1, E2. cbn [obind].
    destruct (good_since _ _ _ _ _ _ G1 G2) as (out & E & G). exists out. split; [exact E|exact G].
  - (* Ev *) destruct (IHp Hu Hn) as (s & E & G). rewrite E. eexists. split; [reflexivity|].
    eapply good_ext; [apply (good_ev s _ _ (Z.max (dstart W p) (maxstamp s)) G)|].
    + intros b w Hin. pose proof (ub_maxstamp s b w Hin). lia.
    + intros t Ht. cbn [rhoZ]. rewrite (bsum_untimed p Hu), Z.add_0_r.
      apply zmax_far; try lia.
      * intros u Hu'. rewrite (good_const_after s _ _ G u) by lia. rewrite (good_const_after s _ _ G (Z.max t (Z.max (dstart W p) (maxstamp s)))) by lia. reflexivity.
      * intros u Hu'. rewrite (rhoZ_const_after p Hu Hn u) by lia. rewrite (rhoZ_const_after p Hu Hn (Z.max t tend)) by lia. reflexivity.
  - (* Alw *) destruct (IHp Hu Hn) as (s & E & G). rewrite E. eexists. split; [reflexivity|].
    eapply good_ext; [apply (good_alw s _ _ (Z.max (dstart W p) (maxstamp s)) G)|].
    + intros b w Hin. pose proof (ub_maxstamp s b w Hin). lia.
    + intros t Ht. cbn [rhoZ]. rewrite (bsum_untimed p Hu), Z.add_0_r.
      apply zmin_far; try lia.
      * intros u Hu'. rewrite (good_const_after s _ _ G u) by lia. rewrite (good_const_after s _ _ G (Z.max t (Z.max (dstart W p) (maxstamp s)))) by lia. reflexivity.
      * intros u Hu'. rewrite (rhoZ_const_after p Hu Hn u) by lia. rewrite (rhoZ_const_after p Hu Hn (Z.max t tend)) by lia. reflexivity.
  - (* Until *) destruct (IHp1 Hu1 ltac:(lia)) as (s1 & E1 & G1), (IHp2 Hu2 ltac:(lia)) as (s2 & E2 & G2). rewrite E1, E2. cbn [obind].
    destruct (good_until _ _ _ _ _ _ tend (fun u Hu' => conj (rhoZ_const_after p1 Hu1 ltac:(lia) u Hu') (rhoZ_const_after p2 Hu2 ltac:(lia) u Hu')) G1 G2) as (out & E & G).
    exists out. split; [exact E|]. eapply good_ext; [exact G|].
    intros t Ht. cbn [rhoZ bsum]. rewrite (bsum_untimed p1 Hu1), (bsum_untimed p2 Hu2), Z.add_0_r. reflexivity.
Qed.

End EvalMain.
