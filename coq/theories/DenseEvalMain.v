(* DenseEvalMain.v — the dense-time offline visitor (model DenseVisitor.deval: every operator the monitor supports,
   bounded operators included) computes the tick semantics rhoZ: for strictly increasing input signals the returned
   sample list is strictly increasing, starts at the start of the sub-formula's domain and denotes rhoZ there.
   Formulas with a bounded operator need every input signal to start at time 0 (the visitors of the bounded
   operators assume it: known finding KF-C04-late-start); untimed formulas do not. *)
From Coq Require Import List Bool Arith ZArith Lia.
From RV Require Import Val Syntax Rho ListFacts OfflineCorrect Online Dense DenseSem DenseFacts DenseMerge DenseMergeCorrect DenseMergeG DenseMergeGCorrect DenseEval DenseEvalCorrect DenseSinceCorrect DenseWin DenseWinCorrect DenseWinFut DenseTimedLaws DenseTimedCorrect DenseIA DenseVisitor.
From RV Require Export DenseConst.
Import ListNotations.
Local Open Scope Z_scope.

Section EvalMain.
Context {VS : Val} (AR : Arith VS).

Variable pk : formula -> formula -> pkind.
Hypothesis SubNeg : forall l r, neg (a2 AR Sub l r) = a2 AR Sub r l.
(* the IA-STL predicate kinds need the sign laws of the difference; the STL visitor (PStd everywhere) does not *)
Hypothesis HDL : (forall f g, pk f g = PStd) \/ DiffLaws AR.
Variable W : list dsig.
Variable tend : Z.
Hypothesis Htend : 0 <= tend.
Hypothesis HW : forall s, In s W -> dsorted s /\ s <> [] /\ ub tend s.
Notation RZ := (rhoZ AR pk W tend).

(* the pk-generic facts of DenseConst.v, at this section's parameters *)
Let in_W := in_W W tend HW.
Let dstart_le_tend := dstart_le_tend W tend Htend HW.
Let rhoZ_const := rhoZ_const AR pk W tend Htend HW.

Fixpoint untimed (p : formula) : bool :=
  match p with
  | Var _ | Const _ => true
  | A1 _ f | Not f | Once f | Hist f | Ev f | Alw f => untimed f
  | A2 _ f g | Pred _ f g | And f g | Or f g | Implies f g | Iff f g | Xor f g | Since f g | Until f g => untimed f && untimed g
  | _ => false
  end.

Lemma untimed_dfrag p : untimed p = true -> dfrag p = true.
Proof.
  induction p; intros H; cbn [untimed] in H; try discriminate; cbn [dfrag]; try reflexivity; try (apply IHp; exact H);
  apply andb_prop in H as [H1 H2]; rewrite IHp1, IHp2 by assumption; reflexivity.
Qed.
Lemma untimed_wf p : untimed p = true -> wf_bounds p = true.
Proof.
  induction p; intros H; cbn [untimed] in H; try discriminate; cbn [wf_bounds]; try reflexivity; try (apply IHp; exact H);
  apply andb_prop in H as [H1 H2]; rewrite IHp1, IHp2 by assumption; reflexivity.
Qed.

Lemma bsum_untimed p : untimed p = true -> bsum p = 0.
Proof.
  induction p; intros Hu; cbn [untimed] in Hu; try discriminate; cbn [bsum];
  try (apply andb_prop in Hu as [Hu1 Hu2]); try reflexivity; try (apply IHp; assumption);
  rewrite IHp1, IHp2 by assumption; reflexivity.
Qed.
Lemma pred_of_diff_std c l r : pred_of_diff AR c (a2 AR Sub l r) = pred_std AR c l r.
Proof. destruct c; cbn [pred_of_diff pred_std]; try reflexivity; apply SubNeg. Qed.

(* ---------------- the theorem ---------------- *)
Definition starts0 : Prop := forall s, In s W -> start s = 0.

Lemma dstart0 p : starts0 -> (nvars p <= length W)%nat -> dstart W p = 0.
Proof.
  intros H0. induction p; intros Hn; cbn [nvars] in Hn; cbn [dstart]; try reflexivity; try (apply IHp; exact Hn);
  try (rewrite IHp1, IHp2 by lia; reflexivity).
  apply H0. apply nth_In. lia.
Qed.

Theorem deval_pk_correct p : dfrag p = true -> wf_bounds p = true -> (untimed p = true \/ starts0) -> (nvars p <= length W)%nat ->
  exists s, deval_pk AR pk p W = Some s /\ good s (dstart W p) (RZ p).
Proof.
  induction p; intros Hu Hb Hor Hn; cbn [dfrag] in Hu; try discriminate; cbn [nvars] in Hn; cbn [wf_bounds] in Hb;
  repeat match goal with H : _ && _ = true |- _ => apply andb_prop in H; destruct H end;
  repeat match goal with H : (_ <=? _)%nat = true |- _ => apply Nat.leb_le in H end;
  cbn [deval_pk dstart].
  - (* Var *) destruct (in_W x ltac:(lia)) as (S & N & U). exists (nth x W []). split; [reflexivity|]. apply good_self; assumption.
  - (* Const *) exists [(0, c)]. split; [reflexivity|]. split; [cbn; auto|]. split; [discriminate|]. split; [reflexivity|].
    intros t. cbn [den_opt rhoZ]. destruct (Z.leb_spec 0 t); destruct (Z.ltb_spec t 0); try lia; reflexivity.
  - (* A1 *) destruct (IHp Hu Hb Hor Hn) as (s & E & G). rewrite E. eexists. split; [reflexivity|]. apply (good_dmap (a1 AR o) s _ _ G).
  - (* A2 *) assert (O1 : untimed p1 = true \/ starts0) by (destruct Hor as [Hor|Hor]; [cbn [untimed] in Hor; apply andb_prop in Hor; left; tauto|right; exact Hor]).
    assert (O2 : untimed p2 = true \/ starts0) by (destruct Hor as [Hor|Hor]; [cbn [untimed] in Hor; apply andb_prop in Hor; left; tauto|right; exact Hor]).
    destruct (IHp1 ltac:(assumption) ltac:(assumption) O1 ltac:(lia)) as (s1 & E1 & G1), (IHp2 ltac:(assumption) ltac:(assumption) O2 ltac:(lia)) as (s2 & E2 & G2). rewrite E1, E2. cbn [obind].
    destruct (good_isect (a2 AR o) _ _ _ _ _ _ G1 G2) as (out & E & G). exists out. split; [exact E|exact G].
  - (* Pred *) assert (O1 : untimed p1 = true \/ starts0) by (destruct Hor as [Hor|Hor]; [cbn [untimed] in Hor; apply andb_prop in Hor; left; tauto|right; exact Hor]).
    assert (O2 : untimed p2 = true \/ starts0) by (destruct Hor as [Hor|Hor]; [cbn [untimed] in Hor; apply andb_prop in Hor; left; tauto|right; exact Hor]).
    destruct (IHp1 ltac:(assumption) ltac:(assumption) O1 ltac:(lia)) as (s1 & E1 & G1), (IHp2 ltac:(assumption) ltac:(assumption) O2 ltac:(lia)) as (s2 & E2 & G2). rewrite E1, E2. cbn [obind].
    destruct (good_isect (a2 AR Sub) _ _ _ _ _ _ G1 G2) as (out & E & G). rewrite E. cbn [option_map]. eexists. split; [reflexivity|].
    destruct HDL as [Hstd|DL].
    + rewrite Hstd, ia_pred_std. apply good_dedup. eapply good_ext; [apply (good_dmap (pred_of_diff AR c) out _ _ G)|].
      intros t _. cbn [rhoZ]. rewrite Hstd. cbn [pred_val]. apply pred_of_diff_std.
    + rewrite (ia_pred_dmap AR DL). eapply good_ext; [apply good_dmap; apply good_dedup; apply (good_dmap (pred_of_diff AR c) out _ _ G)|].
      intros t _. cbn [rhoZ]. apply (rob_value_sem AR DL SubNeg).
  - (* Not *) destruct (IHp Hu Hb Hor Hn) as (s & E & G). rewrite E. eexists. split; [reflexivity|]. apply (good_dmap neg s _ _ G).
  - assert (O1 : untimed p1 = true \/ starts0) by (destruct Hor as [Hor|Hor]; [cbn [untimed] in Hor; apply andb_prop in Hor; left; tauto|right; exact Hor]).
    assert (O2 : untimed p2 = true \/ starts0) by (destruct Hor as [Hor|Hor]; [cbn [untimed] in Hor; apply andb_prop in Hor; left; tauto|right; exact Hor]).
    destruct (IHp1 ltac:(assumption) ltac:(assumption) O1 ltac:(lia)) as (s1 & E1 & G1), (IHp2 ltac:(assumption) ltac:(assumption) O2 ltac:(lia)) as (s2 & E2 & G2). rewrite E1, E2. cbn [obind].
    destruct (good_isect vmin _ _ _ _ _ _ G1 G2) as (out & E & G). exists out. split; [exact E|exact G].
  - assert (O1 : untimed p1 = true \/ starts0) by (destruct Hor as [Hor|Hor]; [cbn [untimed] in Hor; apply andb_prop in Hor; left; tauto|right; exact Hor]).
    assert (O2 : untimed p2 = true \/ starts0) by (destruct Hor as [Hor|Hor]; [cbn [untimed] in Hor; apply andb_prop in Hor; left; tauto|right; exact Hor]).
    destruct (IHp1 ltac:(assumption) ltac:(assumption) O1 ltac:(lia)) as (s1 & E1 & G1), (IHp2 ltac:(assumption) ltac:(assumption) O2 ltac:(lia)) as (s2 & E2 & G2). rewrite E1, E2. cbn [obind].
    destruct (good_isect vmax _ _ _ _ _ _ G1 G2) as (out & E & G). exists out. split; [exact E|exact G].
  - assert (O1 : untimed p1 = true \/ starts0) by (destruct Hor as [Hor|Hor]; [cbn [untimed] in Hor; apply andb_prop in Hor; left; tauto|right; exact Hor]).
    assert (O2 : untimed p2 = true \/ starts0) by (destruct Hor as [Hor|Hor]; [cbn [untimed] in Hor; apply andb_prop in Hor; left; tauto|right; exact Hor]).
    destruct (IHp1 ltac:(assumption) ltac:(assumption) O1 ltac:(lia)) as (s1 & E1 & G1), (IHp2 ltac:(assumption) ltac:(assumption) O2 ltac:(lia)) as (s2 & E2 & G2). rewrite E1, E2. cbn [obind].
    destruct (good_isect (fun l r => vmax (neg l) r) _ _ _ _ _ _ G1 G2) as (out & E & G). exists out. split; [exact E|exact G].
  - assert (O1 : untimed p1 = true \/ starts0) by (destruct Hor as [Hor|Hor]; [cbn [untimed] in Hor; apply andb_prop in Hor; left; tauto|right; exact Hor]).
    assert (O2 : untimed p2 = true \/ starts0) by (destruct Hor as [Hor|Hor]; [cbn [untimed] in Hor; apply andb_prop in Hor; left; tauto|right; exact Hor]).
    destruct (IHp1 ltac:(assumption) ltac:(assumption) O1 ltac:(lia)) as (s1 & E1 & G1), (IHp2 ltac:(assumption) ltac:(assumption) O2 ltac:(lia)) as (s2 & E2 & G2). rewrite E1, E2. cbn [obind].
    destruct (good_isect (fun l r => neg (a1 AR Abs (a2 AR Sub l r))) _ _ _ _ _ _ G1 G2) as (out & E & G). exists out. split; [exact E|exact G].
  - assert (O1 : untimed p1 = true \/ starts0) by (destruct Hor as [Hor|Hor]; [cbn [untimed] in Hor; apply andb_prop in Hor; left; tauto|right; exact Hor]).
    assert (O2 : untimed p2 = true \/ starts0) by (destruct Hor as [Hor|Hor]; [cbn [untimed] in Hor; apply andb_prop in Hor; left; tauto|right; exact Hor]).
    destruct (IHp1 ltac:(assumption) ltac:(assumption) O1 ltac:(lia)) as (s1 & E1 & G1), (IHp2 ltac:(assumption) ltac:(assumption) O2 ltac:(lia)) as (s2 & E2 & G2). rewrite E1, E2. cbn [obind].
    destruct (good_isect (fun l r => a1 AR Abs (a2 AR Sub l r)) _ _ _ _ _ _ G1 G2) as (out & E & G). exists out. split; [exact E|exact G].
  - (* Once *) destruct (IHp Hu Hb Hor Hn) as (s & E & G). rewrite E. eexists. split; [reflexivity|]. apply (good_once s _ _ G).
  - (* Hist *) destruct (IHp Hu Hb Hor Hn) as (s & E & G). rewrite E. eexists. split; [reflexivity|]. apply (good_hist s _ _ G).
  - (* Since *) assert (O1 : untimed p1 = true \/ starts0) by (destruct Hor as [Hor|Hor]; [cbn [untimed] in Hor; apply andb_prop in Hor; left; tauto|right; exact Hor]).
    assert (O2 : untimed p2 = true \/ starts0) by (destruct Hor as [Hor|Hor]; [cbn [untimed] in Hor; apply andb_prop in Hor; left; tauto|right; exact Hor]).
    destruct (IHp1 ltac:(assumption) ltac:(assumption) O1 ltac:(lia)) as (s1 & E1 & G1), (IHp2 ltac:(assumption) ltac:(assumption) O2 ltac:(lia)) as (s2 & E2 & G2). rewrite E1, E2. cbn [obind].
    destruct (good_since _ _ _ _ _ _ G1 G2) as (out & E & G). exists out. split; [exact E|exact G].
  - (* Ev *) destruct (IHp Hu Hb Hor Hn) as (s & E & G). rewrite E. eexists. split; [reflexivity|].
    eapply good_ext; [apply (good_ev s _ _ (Z.max (dstart W p) (maxstamp s)) G)|].
    + intros b w Hin. pose proof (ub_maxstamp s b w Hin). lia.
    + intros t Ht. cbn [rhoZ]. pose proof (bsum_nonneg p). pose proof (dstart_le_tend p Hu Hn).
      apply zmax_far; try lia.
      * intros u Hu'. rewrite (good_const_after s _ _ G u) by lia. rewrite (good_const_after s _ _ G (Z.max t (Z.max (dstart W p) (maxstamp s)))) by lia. reflexivity.
      * apply (const_weaken _ _ _ (rhoZ_const p Hu Hb Hn)). lia.
  - (* Alw *) destruct (IHp Hu Hb Hor Hn) as (s & E & G). rewrite E. eexists. split; [reflexivity|].
    eapply good_ext; [apply (good_alw s _ _ (Z.max (dstart W p) (maxstamp s)) G)|].
    + intros b w Hin. pose proof (ub_maxstamp s b w Hin). lia.
    + intros t Ht. cbn [rhoZ]. pose proof (bsum_nonneg p). pose proof (dstart_le_tend p Hu Hn).
      apply zmin_far; try lia.
      * intros u Hu'. rewrite (good_const_after s _ _ G u) by lia. rewrite (good_const_after s _ _ G (Z.max t (Z.max (dstart W p) (maxstamp s)))) by lia. reflexivity.
      * apply (const_weaken _ _ _ (rhoZ_const p Hu Hb Hn)). lia.
  - (* Until *) assert (O1 : untimed p1 = true \/ starts0) by (destruct Hor as [Hor|Hor]; [cbn [untimed] in Hor; apply andb_prop in Hor; left; tauto|right; exact Hor]).
    assert (O2 : untimed p2 = true \/ starts0) by (destruct Hor as [Hor|Hor]; [cbn [untimed] in Hor; apply andb_prop in Hor; left; tauto|right; exact Hor]).
    destruct (IHp1 ltac:(assumption) ltac:(assumption) O1 ltac:(lia)) as (s1 & E1 & G1), (IHp2 ltac:(assumption) ltac:(assumption) O2 ltac:(lia)) as (s2 & E2 & G2). rewrite E1, E2. cbn [obind].
    pose proof (bsum_nonneg p1). pose proof (bsum_nonneg p2).
    pose proof (const_weaken _ _ (tend + (bsum p1 + bsum p2)) (rhoZ_const p1 ltac:(assumption) ltac:(assumption) ltac:(lia)) ltac:(lia)) as C1.
    pose proof (const_weaken _ _ (tend + (bsum p1 + bsum p2)) (rhoZ_const p2 ltac:(assumption) ltac:(assumption) ltac:(lia)) ltac:(lia)) as C2.
    destruct (good_until _ _ _ _ _ _ (tend + (bsum p1 + bsum p2)) (fun u Hu' => conj (C1 u Hu') (C2 u Hu')) G1 G2) as (out & E & G).
    exists out. split; [exact E|]. eapply good_ext; [exact G|]. intros t Ht. cbn [rhoZ bsum]. reflexivity.
  - (* OnceT *) destruct Hor as [Hor|Hs0]; [cbn [untimed] in Hor; discriminate|].
    destruct (IHp ltac:(assumption) ltac:(assumption) (or_intror Hs0) Hn) as (s & E & G). rewrite E. cbn [obind]. rewrite (dstart0 p Hs0 Hn) in *.
    destruct (good_once_timed (zb b) (zb e) ltac:(unfold zb; lia) ltac:(unfold zb; lia) s 0 _ G (or_intror eq_refl) ltac:(lia)) as (out & Eo & Go).
    exists out. split; [exact Eo|]. eapply good_ext; [exact Go|]. intros t Ht. cbn [rhoZ dstart]. rewrite (dstart0 p Hs0 Hn). reflexivity.
  - (* HistT *) destruct Hor as [Hor|Hs0]; [cbn [untimed] in Hor; discriminate|].
    destruct (IHp ltac:(assumption) ltac:(assumption) (or_intror Hs0) Hn) as (s & E & G). rewrite E. cbn [obind]. rewrite (dstart0 p Hs0 Hn) in *.
    destruct (good_hist_timed s (zb b) (zb e) 0 _ ltac:(unfold zb; lia) ltac:(unfold zb; lia) G (or_intror eq_refl) ltac:(lia)) as (out & Eo & Go).
    exists out. split; [exact Eo|]. eapply good_ext; [exact Go|]. intros t Ht. cbn [rhoZ dstart]. rewrite (dstart0 p Hs0 Hn). reflexivity.
  - (* SinceT *) destruct Hor as [Hor|Hs0]; [cbn [untimed] in Hor; discriminate|].
    destruct (IHp1 ltac:(assumption) ltac:(assumption) (or_intror Hs0) ltac:(lia)) as (s1 & E1 & G1), (IHp2 ltac:(assumption) ltac:(assumption) (or_intror Hs0) ltac:(lia)) as (s2 & E2 & G2).
    rewrite E1, E2. cbn [obind]. rewrite (dstart0 p1 Hs0 ltac:(lia)), (dstart0 p2 Hs0 ltac:(lia)) in *. change (Z.max 0 0) with 0.
    destruct (good_since_timed s1 _ s2 _ (zb b) (zb e) ltac:(unfold zb; lia) ltac:(unfold zb; lia) G1 G2) as (out & Eo & Go).
    exists out. split; [exact Eo|]. eapply good_ext; [exact Go|]. intros t Ht. cbn [rhoZ dstart]. rewrite (dstart0 p1 Hs0 ltac:(lia)), (dstart0 p2 Hs0 ltac:(lia)). reflexivity.
  - (* EvT *) destruct Hor as [Hor|Hs0]; [cbn [untimed] in Hor; discriminate|].
    destruct (IHp ltac:(assumption) ltac:(assumption) (or_intror Hs0) Hn) as (s & E & G). rewrite E. cbn [obind]. rewrite (dstart0 p Hs0 Hn) in *.
    destruct (good_ev_timed (zb b) (zb e) ltac:(unfold zb; lia) ltac:(unfold zb; lia) s _ G) as (out & Eo & Go).
    exists out. split; [exact Eo|]. eapply good_ext; [exact Go|]. intros t Ht. reflexivity.
  - (* AlwT *) destruct Hor as [Hor|Hs0]; [cbn [untimed] in Hor; discriminate|].
    destruct (IHp ltac:(assumption) ltac:(assumption) (or_intror Hs0) Hn) as (s & E & G). rewrite E. cbn [obind]. rewrite (dstart0 p Hs0 Hn) in *.
    destruct (good_alw_timed s (zb b) (zb e) _ ltac:(unfold zb; lia) ltac:(unfold zb; lia) G) as (out & Eo & Go).
    exists out. split; [exact Eo|]. eapply good_ext; [exact Go|]. intros t Ht. reflexivity.
  - (* UntilT *) destruct Hor as [Hor|Hs0]; [cbn [untimed] in Hor; discriminate|].
    destruct (IHp1 ltac:(assumption) ltac:(assumption) (or_intror Hs0) ltac:(lia)) as (s1 & E1 & G1), (IHp2 ltac:(assumption) ltac:(assumption) (or_intror Hs0) ltac:(lia)) as (s2 & E2 & G2).
    rewrite E1, E2. cbn [obind]. rewrite (dstart0 p1 Hs0 ltac:(lia)), (dstart0 p2 Hs0 ltac:(lia)) in *. change (Z.max 0 0) with 0.
    pose proof (bsum_nonneg p1). pose proof (bsum_nonneg p2).
    pose proof (const_weaken _ _ (tend + (bsum p1 + bsum p2)) (rhoZ_const p1 ltac:(assumption) ltac:(assumption) ltac:(lia)) ltac:(lia)) as C1.
    pose proof (const_weaken _ _ (tend + (bsum p1 + bsum p2)) (rhoZ_const p2 ltac:(assumption) ltac:(assumption) ltac:(lia)) ltac:(lia)) as C2.
    destruct (good_until_timed s1 _ s2 _ (zb b) (zb e) (tend + (bsum p1 + bsum p2)) ltac:(unfold zb; lia) ltac:(unfold zb; lia) (fun u Hu' => conj (C1 u Hu') (C2 u Hu')) G1 G2) as (out & Eo & Go).
    exists out. split; [exact Eo|]. eapply good_ext; [exact Go|]. intros t Ht. reflexivity.
Qed.

End EvalMain.

(* the STL visitor: standard predicates everywhere, no law about the difference beyond SubNeg *)
Theorem deval_correct {VS : Val} (AR : Arith VS) (SubNeg : forall l r, neg (a2 AR Sub l r) = a2 AR Sub r l)
  (W : list dsig) (tend : Z) (Htend : 0 <= tend) (HW : forall s, In s W -> dsorted s /\ s <> [] /\ ub tend s) p :
  dfrag p = true -> wf_bounds p = true -> (untimed p = true \/ starts0 W) -> (nvars p <= length W)%nat ->
  exists s, deval AR p W = Some s /\ good s (dstart W p) (rhoZ AR (fun _ _ => PStd) W tend p).
Proof. apply (deval_pk_correct AR (fun _ _ => PStd) SubNeg (or_introl (fun _ _ => eq_refl)) W tend Htend HW p). Qed.
