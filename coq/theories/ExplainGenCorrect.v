(* ExplainGenCorrect.v — the explainer that tools/py2coq_explainer.py generates from
   rtamt/explanation/{ltl,stl}/discrete_time/explainer.py (ExplainGen.v) computes what the hand model Explain.v says.

   The Python visitor works on syntax nodes, keeps a dict from NAMES to interval lists (every node is entered, a variable
   accumulates) and reads the robustness lists the offline evaluation stored (self.spec.results).  The hand model works on core
   formulas, keeps a table from variable INDICES to interval lists and reads rho.  The abstraction:
     erase n = Some f                         (NodeName.erase: bounds in sampling periods, variables as columns)
     results c = [rho f' w n 0; ...; rho f' w n (n-1)]   for every node c with erase c = Some f'   (what evaluate() stores: C01)
     [drel d tb]: for every variable v.f,  d.get(name of v.f, []) = tb_get (vidx v f) tb
   where vidx is injective on well-formed variable names.  Then (gen_stl_explainer_refines) on a tree with well-formed leaves whose
   bounds satisfy begin <= end, started on a well-formed interval list, the generated visitor raises iff the model does, and the
   final dict and table are again related; the IndexError guards of the helper models never fire.  gen_stl_explain_refines is
   the same for explain().  The LTL class is covered on trees of LTL classes (gen_ltl_same). *)
From Coq Require Import List Bool Arith ZArith Lia String.
From RV Require Import Val Syntax Rho Offline Units NodeName NodeNameCorrect PySem Explain ExplainFacts ExplainCorrect PyExplain ExplainGen.
Import ListNotations.

(* ---------------------------------------------------------------- the dict *)
Lemma ekey_eqb_eq a b : ekey_eqb a b = true <-> a = b.
Proof.
  destruct a as [s|s], b as [t|t]; cbn [ekey_eqb]; try (split; [discriminate|intros H; discriminate H]);
    rewrite String.eqb_eq; split; intros H; try (subst; reflexivity); injection H as ->; reflexivity.
Qed.
Lemma ekey_eqb_refl a : ekey_eqb a a = true.
Proof. apply ekey_eqb_eq. reflexivity. Qed.

Lemma dget_set_same k v d dflt : py_dget k dflt (py_dset k v d) = v.
Proof.
  induction d as [|[k' v'] r IH]; cbn [py_dset py_dget]; [rewrite ekey_eqb_refl; reflexivity|].
  destruct (ekey_eqb k k') eqn:E; cbn [py_dget]; rewrite E; [reflexivity|exact IH].
Qed.
Lemma dget_set_other k k' v d dflt : k <> k' -> py_dget k' dflt (py_dset k v d) = py_dget k' dflt d.
Proof.
  intros Hne. induction d as [|[z J] r IH]; cbn [py_dset py_dget].
  - destruct (ekey_eqb k' k) eqn:E; [apply ekey_eqb_eq in E; congruence|reflexivity].
  - destruct (ekey_eqb k z) eqn:E; cbn [py_dget].
    + apply ekey_eqb_eq in E. subst z. destruct (ekey_eqb k' k) eqn:E2; [apply ekey_eqb_eq in E2; congruence|reflexivity].
    + rewrite IH. reflexivity.
Qed.

(* ---------------------------------------------------------------- scanning with two tests that agree where they are read *)
Lemma scan_ext t1 t2 : forall k i st, (forall j, i <= j < i + k -> t1 j = t2 j) -> scan t1 i k st = scan t2 i k st.
Proof.
  induction k as [|k IH]; intros i st H; cbn [scan]; [reflexivity|].
  rewrite (H i) by lia. rewrite !(IH (S i)) by (intros j Hj; apply H; lia). reflexivity.
Qed.
Lemma runs_ext m t1 t2 iv : (forall b e, In (b, e) iv -> e < m) -> (forall j, j < m -> t1 j = t2 j) -> runs t1 iv = runs t2 iv.
Proof.
  intros Hiv H. unfold runs. induction iv as [|[b e] r IH]; cbn [flat_map]; [reflexivity|].
  rewrite IH by (intros b' e' Hin; apply (Hiv b' e'); right; exact Hin).
  cbn [fst snd]. rewrite (scan_ext t1 t2); [reflexivity|].
  intros j Hj. apply H. pose proof (Hiv b e (or_introl eq_refl)). lia.
Qed.
Lemma idx_ok_lt {VS : Val} (s : list V) iv : (forall b e, In (b, e) iv -> e < List.length s) -> idx_ok s iv = true.
Proof.
  intros H. unfold idx_ok. apply forallb_forall. intros [b e] Hin. cbn [fst snd].
  apply orb_true_iff. right. apply Nat.ltb_lt. exact (H b e Hin).
Qed.

Section Correct.
Context {VS : Val} (AR : Arith VS).
Variable pk : formula -> formula -> pkind.
Variable w : trace.
Variable n : nat.
Hypothesis Hn : 0 < n.
Variable vidx : string -> string -> nat.
Variable cval : string -> V.
Variable du : tunit.
Variable per : Z.
Variable pu : tunit.
Notation er := (erase vidx cval du per pu).
Variable results : node -> list V.
(* what the offline evaluation stored for every node: its robustness at 0 .. n-1 *)
Hypothesis Hres : forall c f, er c = Some f -> results c = map (fun i => rho AR pk f w n i) (seq 0 n).
(* different variables are different columns *)
Hypothesis Hinj : forall v f v' f', var_ok v = true -> field_ok f = true -> var_ok v' = true -> field_ok f' = true ->
  vidx v f = vidx v' f' -> v = v' /\ f = f'.

Lemma res_len c f : er c = Some f -> List.length (results c) = n.
Proof. intros H. rewrite (Hres c f H), map_length, seq_length. reflexivity. Qed.
Lemma res_nth c f i : er c = Some f -> i < n -> nth i (results c) (azero AR) = rho AR pk f w n i.
Proof.
  intros H Hi. rewrite (Hres c f H).
  rewrite (nth_indep _ (azero AR) (rho AR pk f w n 0)) by (rewrite map_length, seq_length; exact Hi).
  rewrite (map_nth (fun i => rho AR pk f w n i) (seq 0 n) 0 i), seq_nth by exact Hi. reflexivity.
Qed.
Lemma sat_res c f i : er c = Some f -> i < n -> sat_at AR (results c) i = isat AR pk w n f i.
Proof. intros H Hi. unfold sat_at, isat, res. rewrite (res_nth c f i H Hi). reflexivity. Qed.
Lemma unsat_res c f i : er c = Some f -> i < n -> unsat_at AR (results c) i = iunsat AR pk w n f i.
Proof. intros H Hi. unfold unsat_at, iunsat. rewrite (sat_res c f i H Hi). reflexivity. Qed.

Lemma wfI_lt iv : wfI n iv -> forall b e, In (b, e) iv -> e < n.
Proof. intros W b e Hin. apply (wfI_each _ _ _ _ W Hin). Qed.

(* ---- the helper models on the stored lists are the functions of Explain.v on rho ---- *)
Lemma runs2_ok (t1 t2 : list V -> nat -> bool) (u1 u2 : formula -> nat -> bool) c1 c2 f1 f2 iv :
  er c1 = Some f1 -> er c2 = Some f2 -> wfI n iv ->
  (forall i, i < n -> t1 (results c1) i = u1 f1 i) -> (forall i, i < n -> t2 (results c2) i = u2 f2 i) ->
  py_runs2 t1 t2 (results c1) (results c2) iv = Some (runs (u1 f1) iv, runs (u2 f2) iv).
Proof.
  intros E1 E2 W H1 H2. unfold py_runs2.
  rewrite !idx_ok_lt by (rewrite ?(res_len _ _ E1), ?(res_len _ _ E2); apply wfI_lt; exact W).
  cbn [andb guard]. rewrite (runs_ext n (t1 (results c1)) (u1 f1) iv (wfI_lt iv W) H1).
  rewrite (runs_ext n (t2 (results c2)) (u2 f2) iv (wfI_lt iv W) H2). reflexivity.
Qed.

Lemma scan_future_ok (t : list V -> nat -> bool) (u : formula -> nat -> bool) c f iv :
  er c = Some f -> (forall i, i < n -> t (results c) i = u f i) ->
  e_scan_future (List.length (results c)) (t (results c)) iv = e_scan_future n (u f) iv.
Proof.
  intros E H. rewrite (res_len _ _ E). unfold e_scan_future. destruct iv as [|[b e] r]; [reflexivity|].
  apply scan_ext. intros j Hj. apply H. lia.
Qed.

Lemma scan_past_ok (t : list V -> nat -> bool) (u : formula -> nat -> bool) c f iv :
  er c = Some f -> wfI n iv -> (forall i, i < n -> t (results c) i = u f i) ->
  py_scan_past t (results c) iv = Some (e_scan_past (u f) iv).
Proof.
  intros E W H. unfold py_scan_past. rewrite (res_len _ _ E). destruct iv as [|x r] eqn:Eiv; [reflexivity|]. rewrite <- Eiv in *.
  assert (L : last_end iv < n) by (apply last_end_lt; [exact W|rewrite Eiv; discriminate]).
  apply Nat.ltb_lt in L. rewrite Eiv in *. rewrite L. cbn [guard]. f_equal. unfold e_scan_past.
  apply scan_ext. intros j Hj. apply H. apply Nat.ltb_lt in L. lia.
Qed.

Lemma scan_window_ok sh (t : list V -> nat -> bool) (u : formula -> nat -> bool) c f iv a b :
  er c = Some f -> wfI n iv -> sh_ok n (sh n a b) -> (forall i, i < n -> t (results c) i = u f i) ->
  py_scan_window sh t (results c) iv a b = Some (e_scan_window (sh n a b) (u f) iv).
Proof.
  intros E W S H. unfold py_scan_window. rewrite (res_len _ _ E).
  assert (M : forall x y, In (x, y) (map (sh n a b) iv) -> y < n) by (intros x y Hin; apply (map_sh_each n iv W _ S x y Hin)).
  rewrite idx_ok_lt by (rewrite (res_len _ _ E); exact M). cbn [guard]. f_equal. unfold e_scan_window.
  rewrite (runs_ext n (t (results c)) (u f) _ M H). reflexivity.
Qed.

(* ---------------------------------------------------------------- dict and table *)
Definition drel (d : edict) (tb : table) : Prop :=
  forall v f, var_ok v = true -> field_ok f = true -> py_dget (KName (var_name v f)) [] d = tb_get (vidx v f) tb.

Definition is_var (nd : node) : bool := match nd with NVar _ _ => true | _ => false end.

Lemma drel_set_node nd iv d tb : nwf nd = true -> is_var nd = false -> drel d tb -> drel (py_dset (KName (nname nd)) iv d) tb.
Proof.
  intros W Hv R v f Hok Hf. rewrite dget_set_other; [apply R; assumption|].
  intros Hk. injection Hk as Hk.
  assert (Wv : nwf (NVar v f) = true) by (cbn [nwf]; rewrite Hok, Hf; reflexivity).
  pose proof (nname_inj nd (NVar v f) W Wv Hk) as ->. discriminate Hv.
Qed.
Lemma drel_set_obj nd iv d tb : drel d tb -> drel (py_dset (KObj nd) iv d) tb.
Proof. intros R v f Hok Hf. rewrite dget_set_other; [apply R; assumption|]. unfold KObj. discriminate. Qed.
Lemma drel_set_var v f iv d tb : var_ok v = true -> field_ok f = true -> drel d tb ->
  drel (py_dset (KName (var_name v f)) (iunion (py_dget (KName (var_name v f)) [] d ++ iv)) d) (tb_add (vidx v f) iv tb).
Proof.
  intros Hok Hf R v' f' Hok' Hf'. unfold tb_add.
  destruct (Nat.eq_dec (vidx v f) (vidx v' f')) as [E|E].
  - destruct (Hinj _ _ _ _ Hok Hf Hok' Hf' E) as [<- <-]. rewrite dget_set_same, tb_get_set_same, (R v f Hok Hf). reflexivity.
  - rewrite dget_set_other, tb_get_set_other by (try exact E; intros Hk; injection Hk as Hk;
      destruct (var_name_inj _ _ _ _ Hok Hok' Hk) as [-> ->]; apply E; reflexivity).
    apply R; assumption.
Qed.

(* both raise, or both return and the results are related *)
Definition R2 (od : option edict) (ot : option table) : Prop :=
  match od, ot with Some d, Some t => drel d t | None, None => True | _, _ => False end.
Lemma R2_ret od ot : R2 od ot -> R2 (match od with Some st => Some st | None => None end) ot.
Proof. destruct od; exact (fun H => H). Qed.
Lemma R2_seq od ot (k : edict -> option edict) (k' : table -> option table) :
  R2 od ot -> (forall d t, drel d t -> R2 (k d) (k' t)) -> R2 (match od with Some st => k st | None => None end) (obind ot k').
Proof. destruct od, ot; cbn [R2 obind]; intros H K; try contradiction; [apply K; exact H|exact I]. Qed.

(* ---- the pinned helper models, on the stored lists of nodes that erase ---- *)
Lemma next_ok c f iv : er c = Some f -> py_explain_next (results c) iv = Some (e_next n iv).
Proof. intros E. unfold py_explain_next. rewrite (res_len _ _ E). reflexivity. Qed.
Lemma from_first_ok c f iv : er c = Some f -> e_from_first (List.length (results c)) iv = e_from_first n iv.
Proof. intros E. rewrite (res_len _ _ E). reflexivity. Qed.
Lemma sat_or_ok c1 c2 f1 f2 iv : er c1 = Some f1 -> er c2 = Some f2 -> wfI n iv ->
  py_explain_sat_or AR (results c1) (results c2) iv = Some (runs (isat AR pk w n f1) iv, runs (isat AR pk w n f2) iv).
Proof. intros E1 E2 W. apply (runs2_ok (sat_at AR) (sat_at AR) (isat AR pk w n) (isat AR pk w n)); try assumption; intros i Hi; apply sat_res; assumption. Qed.
Lemma unsat_and_ok c1 c2 f1 f2 iv : er c1 = Some f1 -> er c2 = Some f2 -> wfI n iv ->
  py_explain_unsat_and AR (results c1) (results c2) iv = Some (runs (iunsat AR pk w n f1) iv, runs (iunsat AR pk w n f2) iv).
Proof. intros E1 E2 W. apply (runs2_ok (unsat_at AR) (unsat_at AR) (iunsat AR pk w n) (iunsat AR pk w n)); try assumption; intros i Hi; apply unsat_res; assumption. Qed.
Lemma sat_implies_ok c1 c2 f1 f2 iv : er c1 = Some f1 -> er c2 = Some f2 -> wfI n iv ->
  py_explain_sat_implies AR (results c1) (results c2) iv = Some (runs (iunsat AR pk w n f1) iv, runs (isat AR pk w n f2) iv).
Proof.
  intros E1 E2 W. apply (runs2_ok (unsat_at AR) (sat_at AR) (iunsat AR pk w n) (isat AR pk w n)); try assumption; intros i Hi;
    [apply unsat_res|apply sat_res]; assumption.
Qed.
Lemma sat_ev_ok c f iv : er c = Some f -> py_explain_sat_eventually AR (results c) iv = Some (e_scan_future n (isat AR pk w n f) iv).
Proof. intros E. unfold py_explain_sat_eventually. f_equal. apply (scan_future_ok (sat_at AR) (isat AR pk w n)); [exact E|]. intros i Hi. apply sat_res; assumption. Qed.
Lemma unsat_alw_ok c f iv : er c = Some f -> py_explain_unsat_always AR (results c) iv = Some (e_scan_future n (iunsat AR pk w n f) iv).
Proof. intros E. unfold py_explain_unsat_always. f_equal. apply (scan_future_ok (unsat_at AR) (iunsat AR pk w n)); [exact E|]. intros i Hi. apply unsat_res; assumption. Qed.
Lemma sat_once_ok c f iv : er c = Some f -> wfI n iv -> py_explain_sat_once AR (results c) iv = Some (e_scan_past (isat AR pk w n f) iv).
Proof. intros E W. apply (scan_past_ok (sat_at AR) (isat AR pk w n)); try assumption. intros i Hi. apply sat_res; assumption. Qed.
Lemma unsat_hist_ok c f iv : er c = Some f -> wfI n iv -> py_explain_unsat_historically AR (results c) iv = Some (e_scan_past (iunsat AR pk w n f) iv).
Proof. intros E W. apply (scan_past_ok (unsat_at AR) (iunsat AR pk w n)); try assumption. intros i Hi. apply unsat_res; assumption. Qed.
Lemma window_fwd_ok c f iv a b : er c = Some f -> py_window fwd (results c) iv a b = Some (e_window (fwd n a b) iv).
Proof. intros E. unfold py_window. rewrite (res_len _ _ E). reflexivity. Qed.
Lemma window_bwd_ok c iv a b : py_window bwd' (results c) iv a b = Some (e_window (bwd a b) iv).
Proof. reflexivity. Qed.
Lemma sw_fwd_sat c f iv a b : er c = Some f -> wfI n iv -> a <= b ->
  py_scan_window fwd (sat_at AR) (results c) iv a b = Some (e_scan_window (fwd n a b) (isat AR pk w n f) iv).
Proof. intros E W L. apply (scan_window_ok fwd (sat_at AR) (isat AR pk w n)); try assumption; [apply fwd_ok; exact L|]. intros i Hi. apply sat_res; assumption. Qed.
Lemma sw_fwd_unsat c f iv a b : er c = Some f -> wfI n iv -> a <= b ->
  py_scan_window fwd (unsat_at AR) (results c) iv a b = Some (e_scan_window (fwd n a b) (iunsat AR pk w n f) iv).
Proof. intros E W L. apply (scan_window_ok fwd (unsat_at AR) (iunsat AR pk w n)); try assumption; [apply fwd_ok; exact L|]. intros i Hi. apply unsat_res; assumption. Qed.
Lemma sw_bwd_sat c f iv a b : er c = Some f -> wfI n iv -> a <= b ->
  py_scan_window bwd' (sat_at AR) (results c) iv a b = Some (e_scan_window (bwd a b) (isat AR pk w n f) iv).
Proof. intros E W L. apply (scan_window_ok bwd' (sat_at AR) (isat AR pk w n)); try assumption; [apply bwd_ok; exact L|]. intros i Hi. apply sat_res; assumption. Qed.
Lemma sw_bwd_unsat c f iv a b : er c = Some f -> wfI n iv -> a <= b ->
  py_scan_window bwd' (unsat_at AR) (results c) iv a b = Some (e_scan_window (bwd a b) (iunsat AR pk w n f) iv).
Proof. intros E W L. apply (scan_window_ok bwd' (unsat_at AR) (iunsat AR pk w n)); try assumption; [apply bwd_ok; exact L|]. intros i Hi. apply unsat_res; assumption. Qed.

(* the translated forwarding helpers and the hand models that are a plain [Some] unfold *)
Ltac simp :=
  cbv beta iota zeta delta [gen_explain_next gen_explain_prev gen_explain_unary gen_explain_binary gen_explain_predicate gen_explain_abs
    gen_explain_sqrt gen_explain_exp gen_explain_pow gen_explain_addition gen_explain_multiplication gen_explain_subtraction
    gen_explain_division gen_explain_sat_iff gen_explain_unsat_iff gen_explain_sat_xor gen_explain_unsat_xor gen_explain_sat_not
    gen_explain_unsat_not gen_explain_sat_next gen_explain_unsat_next gen_explain_rise gen_explain_fall gen_explain_sat_prev
    gen_explain_unsat_prev gen_explain_sat_or gen_explain_unsat_or gen_explain_sat_and gen_explain_unsat_and gen_explain_sat_implies
    gen_explain_unsat_implies gen_explain_sat_always gen_explain_sat_historically gen_explain_sat_eventually gen_explain_sat_once
    gen_explain_unsat_once gen_explain_unsat_always gen_explain_unsat_historically gen_explain_unsat_eventually gen_interval_union
    gen_explain_sat_timed_always gen_explain_sat_timed_historically gen_explain_sat_timed_eventually gen_explain_sat_timed_once
    gen_explain_unsat_timed_once gen_explain_unsat_timed_always gen_explain_unsat_timed_historically gen_explain_unsat_timed_eventually
    gen_stl_interval_union
    py_explain_prev py_explain_sat_historically py_explain_unsat_once py_interval_union py_explain_sat_always py_explain_unsat_eventually
    py_explain_sat_timed_always py_explain_unsat_timed_eventually py_explain_sat_timed_historically py_explain_unsat_timed_once
    py_explain_sat_timed_eventually py_explain_unsat_timed_always py_explain_sat_timed_once py_explain_unsat_timed_historically].

Ltac wf_side :=
  first [ assumption
        | apply e_prev_wf; assumption | apply e_next_wf; assumption | apply runs_wf; assumption
        | apply e_from_first_wf; assumption | apply e_scan_future_wf; assumption
        | apply e_upto_last_wf; assumption | apply e_scan_past_wf; assumption
        | apply e_window_wf; [assumption|first [apply fwd_ok|apply bwd_ok]; assumption]
        | apply e_scan_window_wf; [assumption|first [apply fwd_ok|apply bwd_ok]; assumption] ].
Ltac drel_side W := first [ assumption | apply drel_set_node; [exact W|reflexivity|assumption] ].

Ltac helpers_un Ec Wi :=
  repeat first
    [ rewrite (next_ok _ _ _ Ec) | rewrite (from_first_ok _ _ _ Ec) | rewrite (sat_ev_ok _ _ _ Ec) | rewrite (unsat_alw_ok _ _ _ Ec)
    | rewrite (sat_once_ok _ _ _ Ec Wi) | rewrite (unsat_hist_ok _ _ _ Ec Wi) ].
Ltac helpers_bin E1 E2 Wi :=
  repeat first [ rewrite (sat_or_ok _ _ _ _ _ E1 E2 Wi) | rewrite (unsat_and_ok _ _ _ _ _ E1 E2 Wi) | rewrite (sat_implies_ok _ _ _ _ _ E1 E2 Wi) ].
Ltac helpers_tun Ec Wi L :=
  repeat first
    [ rewrite (window_fwd_ok _ _ _ _ _ Ec) | rewrite window_bwd_ok
    | rewrite (sw_fwd_sat _ _ _ _ _ Ec Wi L) | rewrite (sw_fwd_unsat _ _ _ _ _ Ec Wi L)
    | rewrite (sw_bwd_sat _ _ _ _ _ Ec Wi L) | rewrite (sw_bwd_unsat _ _ _ _ _ Ec Wi L) ].

(* ---------------------------------------------------------------- the visitor *)
Theorem gen_stl_visit_refines : forall nd f, nwf nd = true -> er nd = Some f -> wf_bounds f = true ->
  forall flag iv d tb, wfI n iv -> drel d tb ->
  R2 (gen_STLExplainer AR results du per pu nd iv flag d) (expl AR pk w n f flag iv tb).
Proof.
  induction nd as [v f0|t|o c IH|o b e c IH|o c1 IH1 c2 IH2|o c1 IH1 c2 IH2|o b e c1 IH1 c2 IH2];
    intros f W E B flag iv d tb Wi R.
  - (* Variable *)
    cbn [erase] in E. injection E as <-. cbn [gen_STLExplainer expl nname]. simp. cbn [R2].
    cbn [nwf] in W. apply andb_prop in W. destruct W as [Wv Wf]. apply drel_set_var; assumption.
  - (* Constant *)
    cbn [erase] in E. injection E as <-. cbn [gen_STLExplainer expl]. cbn [R2]. apply drel_set_obj. exact R.
  - (* unary *)
    cbn [erase] in E. destruct (er c) as [fc|] eqn:Ec; cbn [option_map] in E; [|discriminate]. injection E as <-.
    assert (Wc : nwf c = true) by exact W.
    assert (Bc : wf_bounds fc = true) by (destruct o; exact B).
    destruct o; cbn [un_formula]; cbn [gen_STLExplainer expl]; destruct flag; simp; helpers_un Ec Wi; simp;
      repeat first [ apply R2_ret | apply R2_seq; [|intros d' t' R'] | apply (IH fc Wc eq_refl Bc); [wf_side|drel_side W] ].
  - (* timed unary *)
    cbn [erase] in E. destruct (to_samples du per pu (itv_of b e)) as [[b' e']| |] eqn:Et; try discriminate.
    destruct (er c) as [fc|] eqn:Ec; [|discriminate]. injection E as <-.
    assert (Wc : nwf c = true) by exact W.
    assert (Bc : wf_bounds fc = true /\ b' <= e').
    { destruct o; cbn [tun_formula wf_bounds] in B; apply andb_prop in B; destruct B as [B1 B2]; apply Nat.leb_le in B1; split; assumption. }
    destruct Bc as [Bc L].
    destruct o; cbn [tun_formula]; cbn [gen_STLExplainer expl]; unfold py_bounds; rewrite Et; destruct flag; simp;
      helpers_tun Ec Wi L; simp;
      repeat first [ apply R2_ret | apply (IH fc Wc eq_refl Bc); [wf_side|drel_side W] ].
  - (* pow / log *)
    cbn [erase] in E. destruct (er c1) as [f1|] eqn:E1; [|discriminate]. destruct (er c2) as [f2|] eqn:E2; [|discriminate]. injection E as <-.
    pose proof W as W'. cbn [nwf] in W'. apply andb_prop in W'. destruct W' as [W1 W2].
    assert (Bc : wf_bounds f1 = true /\ wf_bounds f2 = true) by (destruct o; cbn [fn2_formula wf_bounds] in B; apply andb_prop in B; exact B).
    destruct Bc as [B1 B2].
    destruct o; cbn [fn2_formula]; cbn [gen_STLExplainer expl]; simp;
      repeat first [ apply R2_ret | apply R2_seq; [|intros d' t' R'] | apply (IH1 f1 W1 eq_refl B1); [wf_side|drel_side W]
                   | apply (IH2 f2 W2 eq_refl B2); [wf_side|drel_side W] ].
  - (* binary *)
    cbn [erase] in E. destruct (er c1) as [f1|] eqn:E1; [|discriminate]. destruct (er c2) as [f2|] eqn:E2; [|discriminate]. injection E as <-.
    pose proof W as W'. cbn [nwf] in W'. apply andb_prop in W'. destruct W' as [W1 W2].
    assert (Bc : wf_bounds f1 = true /\ wf_bounds f2 = true) by (destruct o; cbn [bin_formula wf_bounds] in B; apply andb_prop in B; exact B).
    destruct Bc as [B1 B2].
    destruct o; cbn [bin_formula]; cbn [gen_STLExplainer expl]; try exact I; destruct flag; simp; helpers_bin E1 E2 Wi; simp;
      repeat first [ apply R2_ret | apply R2_seq; [|intros d' t' R'] | apply (IH1 f1 W1 eq_refl B1); [wf_side|drel_side W]
                   | apply (IH2 f2 W2 eq_refl B2); [wf_side|drel_side W] ].
  - (* timed binary: no explanation *)
    cbn [erase] in E. destruct (to_samples du per pu (itv_of b e)) as [[b' e']| |] eqn:Et; try discriminate.
    destruct (er c1) as [f1|] eqn:E1; [|discriminate]. destruct (er c2) as [f2|] eqn:E2; [|discriminate]. injection E as <-.
    destruct o; cbn [tbin_formula gen_STLExplainer expl]; exact I.
Qed.

(* ---------------------------------------------------------------- explain() *)
Lemma last_slice_snoc {A} (pre : list A) (x : A) : py_last_slice (pre ++ [x]) = [x].
Proof.
  unfold py_last_slice. rewrite app_length. cbn [List.length]. replace (List.length pre + 1 - 1) with (List.length pre) by lia.
  induction pre as [|y r IH]; [reflexivity|exact IH].
Qed.

Lemma head_negative_ok nd f : er nd = Some f -> py_head_negative AR (results nd) = Some (negb (isat AR pk w n f 0)).
Proof.
  intros E. rewrite (Hres nd f E). destruct n as [|m]; [lia|]. cbn [seq map py_head_negative]. reflexivity.
Qed.

(* the specification explain() looks at is the last one *)
Theorem gen_stl_explain_refines pre nd f : nwf nd = true -> er nd = Some f -> wf_bounds f = true ->
  R2 (gen_stl_explain AR results du per pu (pre ++ [nd])) (explain AR pk w n [f]).
Proof.
  intros W E B. unfold gen_stl_explain, explain. rewrite last_slice_snoc. cbn [py_for fold_left obind].
  rewrite (head_negative_ok nd f E). destruct (isat AR pk w n f 0); cbn [negb].
  - intros v fl _ _. reflexivity.
  - apply R2_ret. apply gen_stl_visit_refines; try assumption.
    + apply wfI_single; lia.
    + intros v fl _ _. reflexivity.
Qed.

(* no assertion: nothing to explain, in code and model *)
Lemma gen_stl_explain_nil : gen_stl_explain AR results du per pu [] = Some [] /\ explain AR pk w n [] = Some [].
Proof. split; reflexivity. Qed.

End Correct.

(* ---------------------------------------------------------------- the LTL class: the same function on trees of LTL classes *)
Fixpoint ltl_tree (nd : node) : bool :=
  match nd with
  | NVar _ _ | NConst _ => true
  | NUn _ c => ltl_tree c
  | NFn2 _ c1 c2 | NBin _ c1 c2 => ltl_tree c1 && ltl_tree c2
  | NTUn _ _ _ _ | NTBin _ _ _ _ _ => false
  end.

Theorem gen_ltl_same {VS : Val} (AR : Arith VS) (results : node -> list V) du per pu : forall nd, ltl_tree nd = true ->
  forall iv flag d, gen_LTLExplainer AR results nd iv flag d = gen_STLExplainer AR results du per pu nd iv flag d.
Proof.
  induction nd as [v f0|t|o c IH|o b e c IH|o c1 IH1 c2 IH2|o c1 IH1 c2 IH2|o b e c1 IH1 c2 IH2]; cbn [ltl_tree]; intros L iv flag d;
    try discriminate L; try reflexivity.
  - destruct o; cbn [gen_LTLExplainer gen_STLExplainer];
      repeat first [ reflexivity | rewrite (IH L)
                   | match goal with |- match ?x with _ => _ end = match ?x with _ => _ end => destruct x end ].
  - apply andb_prop in L. destruct L as [L1 L2].
    destruct o; cbn [gen_LTLExplainer gen_STLExplainer];
      repeat first [ reflexivity | rewrite (IH1 L1) | rewrite (IH2 L2)
                   | match goal with |- match ?x with _ => _ end = match ?x with _ => _ end => destruct x end ].
  - apply andb_prop in L. destruct L as [L1 L2].
    destruct o; cbn [gen_LTLExplainer gen_STLExplainer];
      repeat first [ reflexivity | rewrite (IH1 L1) | rewrite (IH2 L2)
                   | match goal with |- match ?x with _ => _ end = match ?x with _ => _ end => destruct x end ].
Qed.

Print Assumptions gen_stl_visit_refines.
Print Assumptions gen_stl_explain_refines.
Print Assumptions gen_ltl_same.
