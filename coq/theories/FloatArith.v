(* FloatArith.v — point-wise arithmetic of the float instance (model; the laws are in FloatLaws.v / FloatLip.v).

   a2 Add/Sub/Mul/Div are the IEEE-754 binary64 operations of Flocq in round-to-nearest-even, a1 Abs/Neg are IEEE
   abs / negation, a1 Sqrt is IEEE sqrt; every result is normalised into the canonical carrier ([mk]: -0 -> +0).

   NaN.  The carrier has no NaN, so the invalid operations (inf - inf, inf + -inf, 0 * inf, 0/0, inf/inf, sqrt of a
   negative) must return something: they return +0, the convention of the executable instance ExtZ ("Fin 0 (* nan *)").
   [f_ok1]/[f_ok2] are the exact domain on which the model IS Python: the IEEE result is not NaN and Python does not
   raise (x / 0.0 raises ZeroDivisionError in Python, where IEEE gives an infinity; math.sqrt raises ValueError on
   negatives).  The carrier is not an option type because [Arith] wants total functions [V -> V -> V] and every
   theorem of the development is stated over [Arith]; instead, each law below is proved for ALL operands under the
   convention, and [f_a2_mk]/[f_a1_mk] say that inside the [ok] domain the convention is never used.  It turns out that
   with NaN -> +0 every sign law of the subtraction holds without any side condition (inf - inf = 0 is neither
   positive nor negative, and inf <= inf, inf >= inf hold), so no theorem needs a NaN-excluding hypothesis.

   exp / ln / pow / log are parameters of the Section: no theorem of the development constrains them. *)
From Coq Require Import ZArith Reals Bool Lia Lra.
From Flocq Require Import Core IEEE754.BinarySingleNaN.
From RV Require Import Val FloatVal.

Definition b_a2 (o : aop2) (x y : bf) : bf :=
  match o with
  | Add => Bplus mode_NE x y
  | Sub => Bminus mode_NE x y
  | Mul => Bmult mode_NE x y
  | Div => Bdiv mode_NE x y
  | Pow | Log => B754_nan
  end.
Definition b_a1 (o : aop1) (x : bf) : bf :=
  match o with
  | Abs => Babs x
  | Neg => Bopp x
  | Sqrt => Bsqrt mode_NE x
  | Exp | Ln => B754_nan
  end.

Definition is_zero (x : bf) : bool := match x with B754_zero _ => true | _ => false end.

(* the domain on which the model is Python's float arithmetic *)
Definition b_ok2 (o : aop2) (x y : bf) : bool :=
  match o with
  | Add | Sub | Mul => negb (is_nan (b_a2 o x y))
  | Div => negb (is_nan (b_a2 o x y)) && negb (is_zero y)
  | Pow | Log => false
  end.
Definition b_ok1 (o : aop1) (x : bf) : bool :=
  match o with
  | Abs | Neg | Sqrt => negb (is_nan (b_a1 o x))
  | Exp | Ln => false
  end.

Section FloatArith.
Variables (u_exp u_ln : fv -> fv) (u_pow u_log : fv -> fv -> fv).

Definition f_a2 (o : aop2) (a b : fv) : fv :=
  match o with
  | Pow => u_pow a b
  | Log => u_log a b
  | _ => mk (b_a2 o (fval a) (fval b))
  end.
Definition f_a1 (o : aop1) (a : fv) : fv :=
  match o with
  | Exp => u_exp a
  | Ln => u_ln a
  | _ => mk (b_a1 o (fval a))
  end.
Definition f_ok2 (o : aop2) (a b : fv) : bool := b_ok2 o (fval a) (fval b).
Definition f_ok1 (o : aop1) (a : fv) : bool := b_ok1 o (fval a).

Definition FloatArith : Arith FloatVal := {| a1 := f_a1; a2 := f_a2; azero := f_zero |}.

End FloatArith.

(* "+ eps" / "- eps" of the perturbation half of C07 *)
Definition f_add (a b : fv) : fv := mk (Bplus mode_NE (fval a) (fval b)).
Definition f_sub (a b : fv) : fv := mk (Bminus mode_NE (fval a) (fval b)).
Definition f_abs (a : fv) : fv := mk (Babs (fval a)).
Definition f_up (eps : fv) (x : fv) : fv := f_add x eps.
Definition f_dn (eps : fv) (x : fv) : fv := f_sub x eps.
Definition f_fin (a : fv) : Prop := is_finite (fval a) = true.

(* ---- conversions used by the validation (FloatCases): a float as (sign, mantissa, exponent) ---- *)
Inductive fdatum := DNan | DInf (s : bool) | DZero (s : bool) | DFin (s : bool) (m : positive) (e : Z).
Definition datum_of (x : bf) : fdatum :=
  match x with
  | B754_nan => DNan
  | B754_infinity s => DInf s
  | B754_zero s => DZero s
  | B754_finite s m e _ => DFin s m e
  end.
Definition of_datum (d : fdatum) : bf :=
  match d with
  | DNan => B754_nan
  | DInf s => B754_infinity s
  | DZero s => B754_zero s
  | DFin s m e =>
      match SpecFloat.bounded fprec femax m e as b return SpecFloat.bounded fprec femax m e = b -> bf with
      | true => fun H => B754_finite s m e H
      | false => fun _ => B754_nan
      end eq_refl
  end.
