(* DenseOnlineMergeCorrect.v — the dense-time ONLINE merge (DenseOnlineMerge.v, finite integer stamps)
   computes the point-wise combination of its two inputs on the common known domain. *)
From Coq Require Import List Bool Arith ZArith Lia ZifyBool.
From RV Require Import Val Syntax Rho Online Dense DenseMerge DenseMergeCorrect DenseOnlineMerge.
Import ListNotations.
Local Open Scope Z_scope.

(* ================================================================== *)
(* step functions given by sample lists with integer stamps           *)
(* ================================================================== *)
Section Basics.
Context {VS : Val}.

Definition lastT (s : dsig) : Z := fst (last s (0, bot)).
(* the stamp up to which the head value of l is known to hold *)
Definition bound (l : dsig) : Z :=
  match l with _ :: (c, _) :: _ => c | [(p, _)] => p | [] => 0 end.
Definition before (out : dsig) (m : Z) : Prop := forall a v, In (a, v) out -> a < m.
(* the list returned by an update: out_samples, then last if there is one *)
Definition olist (out : dsig) (la : option (Z * V)) : dsig :=
  out ++ match la with Some x => [x] | None => [] end.
(* non-decreasing stamps *)
Fixpoint wsorted (s : dsig) : Prop :=
  match s with
  | [] => True
  | (a, _) :: r => match r with [] => True | (b, _) :: _ => a <= b end /\ wsorted r
  end.
Definition suffix (l s : dsig) : Prop := exists pre, s = pre ++ l.

Lemma den_before p v r t : t < p -> den_opt ((p, v) :: r) t = None.
Proof. intros H. cbn [den_opt]. destruct (p <=? t) eqn:E; [lia|reflexivity]. Qed.
Lemma den_head p v c w r t : p <= t -> t < c -> den_opt ((p, v) :: (c, w) :: r) t = Some v.
Proof.
  intros H1 H2. cbn [den_opt]. destruct (p <=? t) eqn:E1; [|lia]. destruct (c <=? t) eqn:E2; [lia|reflexivity].
Qed.
Lemma den_tail p v c w r t : p < c -> c <= t -> den_opt ((p, v) :: (c, w) :: r) t = den_opt ((c, w) :: r) t.
Proof.
  intros H1 H2. cbn [den_opt]. destruct (p <=? t) eqn:E1; [|lia]. destruct (c <=? t) eqn:E2; [|lia].
  destruct (den_opt r t); reflexivity.
Qed.
Lemma den_single p v t : p <= t -> den_opt [(p, v)] t = Some v.
Proof. intros H. cbn [den_opt]. destruct (p <=? t) eqn:E; [reflexivity|lia]. Qed.
Lemma den_at_start p v r : dsorted ((p, v) :: r) -> den_opt ((p, v) :: r) p = Some v.
Proof.
  intros H. destruct r as [|[c w] r]; [apply den_single; lia|].
  destruct H as [H _]. apply den_head; lia.
Qed.
Lemma den_from_start p v r t : p <= t -> den_opt ((p, v) :: r) t <> None.
Proof. intros H. cbn [den_opt]. destruct (p <=? t) eqn:E; [|lia]. destruct (den_opt r t); discriminate. Qed.

Lemma dsorted_tl x l : dsorted (x :: l) -> dsorted l.
Proof. destruct x as [a v]. intros [_ H]. exact H. Qed.

Lemma lastT_cons x y l : lastT (x :: y :: l) = lastT (y :: l).
Proof. reflexivity. Qed.
Lemma lastT_app pre l : l <> [] -> lastT (pre ++ l) = lastT l.
Proof.
  intros Hne. induction pre as [|x pre IH]; [reflexivity|].
  cbn [app]. destruct (pre ++ l) as [|y q] eqn:E.
  - destruct pre; [cbn [app] in E; congruence|discriminate].
  - rewrite lastT_cons. exact IH.
Qed.
Lemma dsorted_le_last l : dsorted l -> forall a v, In (a, v) l -> a <= lastT l.
Proof.
  induction l as [|[p w] l IH]; intros Hs a v Hin; [destruct Hin|].
  destruct l as [|[c w'] l'].
  - destruct Hin as [Hin|[]]. injection Hin as <- <-. unfold lastT. cbn [last fst]. lia.
  - rewrite lastT_cons. destruct Hs as [Hh Hs]. destruct Hin as [Hin|Hin].
    + injection Hin as <- <-. pose proof (IH Hs c w' (or_introl eq_refl)). lia.
    + apply (IH Hs a v Hin).
Qed.
Lemma start_le_bound l : dsorted l -> start l <= bound l.
Proof. destruct l as [|[p v] [|[c w] r]]; cbn [start bound dsorted]; intros H; try lia. Qed.
Lemma bound_le_last l : dsorted l -> l <> [] -> bound l <= lastT l.
Proof.
  intros Hs Hne. destruct l as [|[p v] [|[c w] r]]; [congruence| |].
  - unfold lastT. cbn [bound last fst]. lia.
  - cbn [bound]. apply (dsorted_le_last _ Hs c w). right. left. reflexivity.
Qed.
Lemma bound_tl_ge p v c w r : dsorted ((p, v) :: (c, w) :: r) -> c <= bound ((c, w) :: r).
Proof. intros [_ H]. apply (start_le_bound _ H). Qed.

(* ---------------- _append ---------------- *)
Lemma den_all_le (out : dsig) t :
  out <> [] -> (forall a v, In (a, v) out -> a <= t) -> den_opt out t = Some (snd (last out (0, bot))).
Proof.
  induction out as [|[b w] out IH]; intros Hne H; [congruence|].
  assert (Hb : b <= t) by (apply (H b w); left; reflexivity).
  destruct out as [|x out'].
  - cbn [last snd]. apply den_single. exact Hb.
  - assert (E : den_opt (x :: out') t = Some (snd (last (x :: out') (0, bot)))).
    { apply IH; [discriminate|]. intros a v Hin. apply (H a v). right. exact Hin. }
    change (last ((b, w) :: x :: out') (0, bot)) with (last (x :: out') (0, bot)).
    cbn [den_opt] in *. destruct (b <=? t) eqn:Eb; [|lia]. rewrite E. reflexivity.
Qed.
Lemma den_app_after (out : dsig) a v t : t < a -> den_opt (out ++ [(a, v)]) t = den_opt out t.
Proof.
  intros H. induction out as [|[b w] out IH]; cbn [app den_opt].
  - destruct (a <=? t) eqn:E; [lia|reflexivity].
  - rewrite IH. reflexivity.
Qed.
Lemma den_snoc (out : dsig) a v t :
  (forall b w, In (b, w) out -> b <= a) ->
  den_opt (out ++ [(a, v)]) t = if a <=? t then Some v else den_opt out t.
Proof.
  intros H. destruct (a <=? t) eqn:E.
  - rewrite den_all_le.
    + rewrite last_last. reflexivity.
    + destruct out; discriminate.
    + intros b w Hin. apply in_app_or in Hin as [Hin|[Hin|[]]]; [pose proof (H b w Hin); lia|].
      injection Hin as <- <-. lia.
  - apply den_app_after. lia.
Qed.

Lemma oappend_cases (out : dsig) item :
  oappend Z out item = out \/ oappend Z out item = out ++ [item].
Proof.
  unfold oappend. destruct (rev out) as [|[pa pv] l] eqn:E.
  - right. assert (out = []) by (apply (f_equal (@rev _)) in E; rewrite rev_involutive in E; exact E).
    subst out. reflexivity.
  - destruct (veq pv (snd item)); [left|right]; reflexivity.
Qed.
Lemma in_oappend (out : dsig) item x : In x (oappend Z out item) -> In x out \/ x = item.
Proof.
  destruct (oappend_cases out item) as [-> | ->]; intros H; [left; exact H|].
  apply in_app_or in H as [H|[H|[]]]; [left; exact H|right; congruence].
Qed.
Lemma den_oappend (out : dsig) m v t :
  before out m -> den_opt (oappend Z out (m, v)) t = if m <=? t then Some v else den_opt out t.
Proof.
  intros Hb. unfold oappend.
  assert (Hle : forall a w, In (a, w) out -> a <= m) by (intros a w Hin; pose proof (Hb a w Hin); lia).
  destruct (rev out) as [|[pa pv] l] eqn:E.
  - assert (out = []) by (apply (f_equal (@rev _)) in E; rewrite rev_involutive in E; exact E). subst out.
    cbn [den_opt]. destruct (m <=? t); reflexivity.
  - assert (Ho : out = rev l ++ [(pa, pv)]).
    { apply (f_equal (@rev _)) in E. rewrite rev_involutive in E. exact E. }
    cbn [snd]. unfold veq. destruct (v_eq_dec pv v) as [Heq|Hne].
    + destruct (m <=? t) eqn:Hm; [|reflexivity].
      rewrite den_all_le.
      * rewrite Ho, last_last. cbn [snd]. congruence.
      * rewrite Ho. destruct (rev l); discriminate.
      * intros a w Hin. pose proof (Hle a w Hin). lia.
    + apply den_snoc. exact Hle.
Qed.
Lemma before_oappend (out : dsig) m m' v : before out m -> m < m' -> before (oappend Z out (m, v)) m'.
Proof.
  intros Hb Hm a w Hin. apply in_oappend in Hin as [Hin|Hin].
  - pose proof (Hb a w Hin). lia.
  - injection Hin as -> ->. exact Hm.
Qed.
Lemma dsorted_snoc (out : dsig) m v : dsorted out -> before out m -> dsorted (out ++ [(m, v)]).
Proof.
  induction out as [|[a w] r IH]; intros Hs Hb; [cbn [app dsorted]; auto|].
  destruct Hs as [Hh Hs]. cbn [app dsorted]. split.
  - destruct r as [|[b w'] r']; cbn [app]; [apply (Hb a w); left; reflexivity|exact Hh].
  - apply IH; [exact Hs|]. intros a' w' Hin. apply (Hb a' w'). right. exact Hin.
Qed.
Lemma dsorted_oappend (out : dsig) m v : dsorted out -> before out m -> dsorted (oappend Z out (m, v)).
Proof.
  intros Hs Hb. destruct (oappend_cases out (m, v)) as [-> | ->]; [exact Hs|]. apply dsorted_snoc; assumption.
Qed.
Lemma wsorted_snoc (out : dsig) m v :
  dsorted out -> (forall b w, In (b, w) out -> b <= m) -> wsorted (out ++ [(m, v)]).
Proof.
  induction out as [|[a w] r IH]; intros Hs Hb; [cbn [app wsorted]; auto|].
  destruct Hs as [Hh Hs]. cbn [app wsorted]. split.
  - destruct r as [|[b w'] r']; cbn [app]; [apply (Hb a w); left; reflexivity|lia].
  - apply IH; [exact Hs|]. intros a' w' Hin. apply (Hb a' w'). right. exact Hin.
Qed.
Lemma dsorted_wsorted (s : dsig) : dsorted s -> wsorted s.
Proof.
  induction s as [|[a v] r IH]; intros H; [exact I|]. destruct H as [Hh Hs]. split; [|apply IH; exact Hs].
  destruct r as [|[b w] r']; [exact I|lia].
Qed.

(* what an update returns: out_samples, and last when it is later than the last of them *)
Lemma rev_eq_cons {A} (l : list A) x r : rev l = x :: r -> l = rev r ++ [x].
Proof. intros E. apply (f_equal (@rev _)) in E. rewrite rev_involutive in E. exact E. Qed.

Lemma oadd_last_spec (out : dsig) a v :
  dsorted out -> (forall b w, In (b, w) out -> b <= a) -> (forall w, In (a, w) out -> w = v) ->
  dsorted (oadd_last Z Z.ltb out (Some (a, v))) /\
  (forall t, den_opt (oadd_last Z Z.ltb out (Some (a, v))) t = den_opt (out ++ [(a, v)]) t) /\
  (forall x, In x (oadd_last Z Z.ltb out (Some (a, v))) -> In x (out ++ [(a, v)])) /\
  oadd_last Z Z.ltb out (Some (a, v)) <> [].
Proof.
  intros Hs Hle Hv. unfold oadd_last. destruct (rev out) as [|[tr wr] l] eqn:E.
  - assert (out = []) by (apply (f_equal (@rev _)) in E; rewrite rev_involutive in E; exact E). subst out.
    cbn [app]. split; [cbn [dsorted]; auto|]. split; [reflexivity|]. split; [auto|discriminate].
  - apply rev_eq_cons in E. cbn [fst]. destruct (tr <? a) eqn:Et.
    + split; [|split; [reflexivity|split; [auto|destruct out; discriminate]]].
      apply dsorted_snoc; [exact Hs|]. intros b w Hin.
      pose proof (dsorted_le_last _ Hs b w Hin) as Hl. rewrite E in Hl. unfold lastT in Hl.
      rewrite last_last in Hl. cbn [fst] in Hl. lia.
    + assert (Hin : In (tr, wr) out) by (rewrite E; apply in_or_app; right; left; reflexivity).
      assert (tr = a) by (pose proof (Hle tr wr Hin); lia). subst tr.
      assert (wr = v) by (apply Hv; exact Hin). subst wr.
      split; [exact Hs|]. split; [|split; [intros x Hx; apply in_or_app; left; exact Hx|rewrite E; destruct (rev l); discriminate]].
      intros t. rewrite den_snoc by exact Hle. destruct (a <=? t) eqn:Ea; [|reflexivity].
      rewrite den_all_le.
      * rewrite E, last_last. reflexivity.
      * rewrite E. destruct (rev l); discriminate.
      * intros b w Hb. pose proof (Hle b w Hb). lia.
Qed.

End Basics.

(* ================================================================== *)
(* the loop invariant                                                 *)
(* ================================================================== *)
Section Invariant.
Context {VS : Val}.
Variable f : V -> V -> V.
Variables s1 s2 : dsig.

(* the specification: point-wise combination where both inputs are defined *)
Definition Dv (t : Z) : option V := lift2 f (den_opt s1 t) (den_opt s2 t).
(* both inputs are known on [.., FF]; both are defined on [TT0, ..] *)
Definition FF : Z := Z.min (lastT s1) (lastT s2).
Definition TT0 : Z := Z.max (start s1) (start s2).
Definition tm (l1 l2 : dsig) : Z := Z.max (start l1) (start l2).

Record MInv (l1 l2 out : dsig) (la : option (Z * V)) : Prop := {
  mi_sorted1 : dsorted l1;
  mi_sorted2 : dsorted l2;
  mi_ne1 : l1 <> [];
  mi_ne2 : l2 <> [];
  mi_suf1 : suffix l1 s1;
  mi_suf2 : suffix l2 s2;
  mi_lo1 : start s1 <= start l1;
  mi_lo2 : start s2 <= start l2;
  mi_hi1 : l1 = s1 \/ start l1 <= FF;
  mi_hi2 : l2 = s2 \/ start l2 <= FF;
  mi_den1 : forall t, start l1 <= t -> den_opt s1 t = den_opt l1 t;
  mi_den2 : forall t, start l2 <= t -> den_opt s2 t = den_opt l2 t;
  mi_out : forall t, t < tm l1 l2 -> den_opt out t = Dv t;
  mi_before : before out (tm l1 l2);
  mi_within : forall a v, In (a, v) out -> TT0 <= a <= FF;
  mi_osorted : dsorted out;
  mi_last : match la with
            | Some (a, v) => a = tm l1 l2 /\ Dv a = Some v /\ a <= bound l1 /\ a <= bound l2
            | None => start l1 <> start l2
            end
}.

(* what the caller gets: out_samples, then last *)
Definition Post (out : dsig) (la : option (Z * V)) : Prop :=
  dsorted out /\ (forall a v, In (a, v) out -> TT0 <= a <= FF) /\
  match la with
  | Some (a, v) => TT0 <= a <= FF /\ (forall b w, In (b, w) out -> b <= a) /\
                   (forall w, In (a, w) out -> w = v) /\
                   (forall t, t <= FF -> (if a <=? t then Some v else den_opt out t) = Dv t)
  | None => forall t, t <= FF -> den_opt out t = Dv t
  end.

Lemma minv_lastT1 l1 l2 out la : MInv l1 l2 out la -> lastT l1 = lastT s1.
Proof. intros H. destruct (mi_suf1 _ _ _ _ H) as [pre ->]. symmetry. apply lastT_app. exact (mi_ne1 _ _ _ _ H). Qed.
Lemma minv_lastT2 l1 l2 out la : MInv l1 l2 out la -> lastT l2 = lastT s2.
Proof. intros H. destruct (mi_suf2 _ _ _ _ H) as [pre ->]. symmetry. apply lastT_app. exact (mi_ne2 _ _ _ _ H). Qed.

Lemma Dv_some t : TT0 <= t -> Dv t <> None -> Dv t = Some (f (den s1 t) (den s2 t)).
Proof.
  intros _. unfold Dv, den. destruct (den_opt s1 t), (den_opt s2 t); cbn [lift2]; congruence.
Qed.

(* pop the head of the first list; (p2,v2)::r2 is any non-empty second list.
   x is the value of the second list at c1 (when c1 is in its domain). *)
Lemma minv_pop1 p1 v1 c1 w1 r1 p2 v2 r2 out la x :
  MInv ((p1, v1) :: (c1, w1) :: r1) ((p2, v2) :: r2) out la ->
  c1 <= bound ((p2, v2) :: r2) ->
  (p2 <= c1 -> den_opt ((p2, v2) :: r2) c1 = Some x) ->
  MInv ((c1, w1) :: r1) ((p2, v2) :: r2)
       (if p2 <? c1 then oappend Z out (Z.max p1 p2, f v1 v2) else out)
       (if c1 <? p2 then None else Some (c1, f w1 x)).
Proof.
  intros H Hc Hx.
  pose proof (minv_lastT1 _ _ _ _ H) as L1. pose proof (minv_lastT2 _ _ _ _ H) as L2.
  destruct H as [S1 S2 N1 N2 [pre1 U1] U2 Lo1 Lo2 Hi1 Hi2 D1 D2 Ho Hb Hw Hso Hla].
  unfold tm in *. cbn [start] in *.
  assert (P1 : p1 < c1) by (destruct S1 as [P1 _]; exact P1).
  assert (S1' : dsorted ((c1, w1) :: r1)) by (apply (dsorted_tl _ _ S1)).
  assert (B2 : bound ((p2, v2) :: r2) <= lastT s2) by (rewrite <- L2; apply bound_le_last; assumption).
  assert (C1 : c1 <= lastT s1).
  { rewrite <- L1. apply (dsorted_le_last _ S1 c1 w1). right. left. reflexivity. }
  assert (V1 : forall t, p1 <= t -> t < c1 -> den_opt s1 t = Some v1).
  { intros t Ha Hb'. rewrite D1 by exact Ha. apply den_head; assumption. }
  assert (V2 : forall t, p2 <= t -> t < c1 -> den_opt s2 t = Some v2).
  { intros t Ha Hb'. rewrite D2 by exact Ha. destruct r2 as [|[c2 w2] r2'].
    - cbn [bound] in Hc. lia.
    - cbn [bound] in Hc. apply den_head; lia. }
  constructor.
  - exact S1'.
  - exact S2.
  - discriminate.
  - exact N2.
  - exists (pre1 ++ [(p1, v1)]). rewrite <- app_assoc. exact U1.
  - exact U2.
  - cbn [start]. lia.
  - exact Lo2.
  - right. cbn [start]. unfold FF. lia.
  - exact Hi2.
  - intros t Ht. cbn [start] in Ht. rewrite D1 by lia. apply den_tail; assumption.
  - exact D2.
  - intros t Ht. unfold tm in Ht. cbn [start] in Ht. destruct (p2 <? c1) eqn:E.
    + rewrite den_oappend by exact Hb. destruct (Z.max p1 p2 <=? t) eqn:Et.
      * unfold Dv. rewrite V1, V2 by lia. reflexivity.
      * apply Ho. lia.
    + apply Ho. lia.
  - unfold tm. cbn [start]. destruct (p2 <? c1) eqn:E.
    + apply before_oappend; [exact Hb|lia].
    + intros a v Hin. pose proof (Hb a v Hin). lia.
  - intros a v Hin. destruct (p2 <? c1) eqn:E; [|apply (Hw a v Hin)].
    apply in_oappend in Hin as [Hin|Hin]; [apply (Hw a v Hin)|].
    injection Hin as -> _. unfold TT0, FF. lia.
  - destruct (p2 <? c1) eqn:E; [|exact Hso]. apply dsorted_oappend; assumption.
  - destruct (c1 <? p2) eqn:E.
    + cbn [start]. lia.
    + unfold tm. cbn [start]. split; [lia|]. split; [|split].
      * unfold Dv. rewrite D1, D2 by lia. rewrite Hx by lia.
        rewrite den_tail by (try assumption; lia). rewrite (den_at_start _ _ _ S1'). reflexivity.
      * apply (bound_tl_ge _ _ _ _ _ S1).
      * exact Hc.
Qed.


(* ---------------- leaving the loops ---------------- *)
Lemma minv_last_le l1 l2 out a v : MInv l1 l2 out (Some (a, v)) -> a <= FF.
Proof.
  intros H. pose proof (minv_lastT1 _ _ _ _ H) as L1. pose proof (minv_lastT2 _ _ _ _ H) as L2.
  destruct H as [S1 S2 N1 N2 _ _ _ _ _ _ _ _ _ _ _ _ (_ & _ & B1 & B2)].
  pose proof (bound_le_last _ S1 N1). pose proof (bound_le_last _ S2 N2). unfold FF. lia.
Qed.

Lemma minv_post l1 l2 out la :
  MInv l1 l2 out la -> FF <= tm l1 l2 -> (la = None -> FF < tm l1 l2) -> Post out la.
Proof.
  intros H Hle Hlt. split; [exact (mi_osorted _ _ _ _ H)|]. split; [exact (mi_within _ _ _ _ H)|].
  destruct la as [[a v]|].
  - pose proof (minv_last_le _ _ _ _ _ H) as Ha.
    destruct H as [_ _ _ _ _ _ Lo1 Lo2 _ _ _ _ Ho Hb _ _ (Ea & Hv & _ & _)].
    assert (a = FF) by lia. split; [|split; [|split]].
    + unfold TT0, tm in *. lia.
    + intros b w Hin. pose proof (Hb b w Hin). lia.
    + intros w Hin. pose proof (Hb a w Hin). lia.
    + intros t Ht. destruct (a <=? t) eqn:E.
      * assert (t = a) by lia. subst t. symmetry. exact Hv.
      * apply Ho. lia.
  - intros t Ht. apply (mi_out _ _ _ _ H). specialize (Hlt eq_refl). lia.
Qed.

(* the sample emitted by a tail loop at the end of the second list *)
Lemma minv_post_emit l1 p2 v2 out la x :
  MInv l1 [(p2, v2)] out la -> start l1 < p2 -> p2 <= lastT s1 -> Dv p2 = Some x ->
  Post (oappend Z out (p2, x)) (Some (p2, x)).
Proof.
  intros H Hp Hl Hx. pose proof (minv_lastT2 _ _ _ _ H) as L2. unfold lastT in L2 at 1. cbn [last fst] in L2.
  destruct H as [_ _ _ _ _ _ Lo1 Lo2 _ _ _ _ Ho Hb Hw Hso _]. unfold tm in *. cbn [start] in *.
  assert (EF : FF = p2) by (unfold FF; lia).
  assert (Em : Z.max (start l1) p2 = p2) by lia. rewrite Em in *.
  split; [apply dsorted_oappend; assumption|]. split; [|split; [|split; [|split]]].
  - intros a v Hin. apply in_oappend in Hin as [Hin|Hin]; [apply (Hw a v Hin)|].
    injection Hin as -> _. unfold TT0. lia.
  - unfold TT0. lia.
  - intros b w Hin. apply in_oappend in Hin as [Hin|Hin]; [pose proof (Hb b w Hin); lia|].
    injection Hin as -> _. lia.
  - intros w Hin. apply in_oappend in Hin as [Hin|Hin]; [pose proof (Hb p2 w Hin); lia|].
    injection Hin as ->. reflexivity.
  - intros t Ht. destruct (p2 <=? t) eqn:E.
    + assert (t = p2) by lia. subst t. symmetry. exact Hx.
    + rewrite den_oappend by exact Hb. rewrite E. apply Ho. lia.
Qed.

Lemma otail1_break fuel l1 p2 v2 out la :
  p2 < start l1 -> otail1 Z Z.ltb Z.eqb fuel f l1 p2 v2 out la = Some (out, la).
Proof.
  intros H. destruct fuel as [|fuel]; [reflexivity|]. cbn [otail1].
  destruct l1 as [|[p1 v1] [|[c1 w1] r1]]; try reflexivity.
  cbn [start] in H. destruct (p2 <? p1) eqn:E; [reflexivity|lia].
Qed.
Lemma otail1_eq fuel p2 w1 r1 v2 out :
  otail1 Z Z.ltb Z.eqb fuel f ((p2, w1) :: r1) p2 v2 out (Some (p2, f w1 v2)) = Some (out, Some (p2, f w1 v2)).
Proof.
  destruct fuel as [|fuel]; [reflexivity|]. cbn [otail1]. destruct r1 as [|[c1 w1'] r1]; [reflexivity|].
  rewrite Z.ltb_irrefl, Z.eqb_refl. reflexivity.
Qed.

Lemma otail1_correct p2 v2 : forall fuel l1 out la,
  (length l1 <= fuel)%nat -> MInv l1 [(p2, v2)] out la ->
  exists out' la', otail1 Z Z.ltb Z.eqb fuel f l1 p2 v2 out la = Some (out', la') /\ Post out' la'.
Proof.
  induction fuel as [|fuel IH]; intros l1 out la Hlen H.
  - pose proof (mi_ne1 _ _ _ _ H). destruct l1; [congruence|cbn [length] in Hlen; lia].
  - pose proof (minv_lastT1 _ _ _ _ H) as L1. pose proof (minv_lastT2 _ _ _ _ H) as L2.
    unfold lastT in L2 at 1. cbn [last fst] in L2.
    assert (HF : FF <= p2) by (unfold FF; lia).
    destruct l1 as [|[p1 v1] l1]; [destruct (mi_ne1 _ _ _ _ H); reflexivity|].
    destruct l1 as [|[c1 w1] r1].
    + (* both lists are singletons *)
      exists out, la. split; [reflexivity|]. unfold lastT in L1 at 1. cbn [last fst] in L1.
      apply (minv_post _ _ _ _ H); unfold tm, FF in *; cbn [start]; [lia|].
      intros ->. pose proof (mi_last _ _ _ _ H) as Hne. cbn [start] in Hne. lia.
    + cbn [otail1].
      pose proof (mi_sorted1 _ _ _ _ H) as S1. assert (P1 : p1 < c1) by (destruct S1 as [P1 _]; exact P1).
      assert (C1 : c1 <= lastT s1).
      { rewrite <- L1. apply (dsorted_le_last _ S1 c1 w1). right. left. reflexivity. }
      assert (V2 : forall t, p2 <= t -> den_opt s2 t = Some v2).
      { intros t Ht. rewrite (mi_den2 _ _ _ _ H) by exact Ht. apply den_single. exact Ht. }
      destruct (p2 <? p1) eqn:E1.
      { exists out, la. split; [reflexivity|].
        apply (minv_post _ _ _ _ H); unfold tm; cbn [start]; lia. }
      destruct (p1 =? p2) eqn:E2.
      { assert (p1 = p2) by lia. subst p1. exists out, (Some (p2, f v1 v2)). split; [reflexivity|].
        assert (Hd : Dv p2 = Some (f v1 v2)).
        { unfold Dv. rewrite V2 by lia. rewrite (mi_den1 _ _ _ _ H) by (cbn [start]; lia).
          rewrite (den_at_start _ _ _ S1). reflexivity. }
        assert (Ela : la = Some (p2, f v1 v2)).
        { pose proof (mi_last _ _ _ _ H) as Hla. destruct la as [[a v]|].
          - destruct Hla as (Ea & Hv & _). unfold tm in Ea. cbn [start] in Ea.
            assert (Ha : a = p2) by lia. clear Ea. subst a. rewrite Hd in Hv. congruence.
          - cbn [start] in Hla. congruence. }
        rewrite <- Ela. apply (minv_post _ _ _ _ H); unfold tm; cbn [start]; [lia|]. rewrite Ela. discriminate. }
      destruct ((p1 <? p2) && (p2 <? c1)) eqn:E3.
      { rewrite otail1_break by (cbn [start]; lia).
        eexists _, _. split; [reflexivity|]. apply (minv_post_emit _ _ _ _ _ _ H); [cbn [start]; lia|lia|].
        unfold Dv. rewrite V2 by lia. rewrite (mi_den1 _ _ _ _ H) by (cbn [start]; lia).
        rewrite den_head by lia. reflexivity. }
      destruct ((p1 <? p2) && (p2 =? c1)) eqn:E4.
      { assert (c1 = p2) by lia. subst c1. rewrite otail1_eq.
        eexists _, _. split; [reflexivity|]. apply (minv_post_emit _ _ _ _ _ _ H); [cbn [start]; lia|lia|].
        unfold Dv. rewrite V2 by lia. rewrite (mi_den1 _ _ _ _ H) by (cbn [start]; lia).
        rewrite den_tail by lia. rewrite (den_at_start _ _ _ (dsorted_tl _ _ S1)). reflexivity. }
      destruct (c1 <? p2) eqn:E5; [|lia].
      apply IH; [cbn [length] in *; lia|].
      pose proof (minv_pop1 p1 v1 c1 w1 r1 p2 v2 [] out la v2 H) as Hp.
      replace (p2 <? c1) with false in Hp by lia. rewrite E5 in Hp.
      apply Hp; [cbn [bound]; lia|intros; lia].
Qed.

End Invariant.

(* ================================================================== *)
(* the two lists play symmetric roles                                 *)
(* ================================================================== *)
Section Symmetry.
Context {VS : Val}.

Definition flip (f : V -> V -> V) : V -> V -> V := fun a b => f b a.

Lemma Dv_flip f s1 s2 t : Dv (flip f) s2 s1 t = Dv f s1 s2 t.
Proof. unfold Dv, flip. destruct (den_opt s1 t), (den_opt s2 t); reflexivity. Qed.
Lemma FF_comm (s1 s2 : dsig) : FF s2 s1 = FF s1 s2.
Proof. unfold FF. apply Z.min_comm. Qed.
Lemma TT0_comm (s1 s2 : dsig) : TT0 s2 s1 = TT0 s1 s2.
Proof. unfold TT0. apply Z.max_comm. Qed.
Lemma tm_comm (l1 l2 : dsig) : tm l2 l1 = tm l1 l2.
Proof. unfold tm. apply Z.max_comm. Qed.

Lemma MInv_flip f s1 s2 l1 l2 out la : MInv f s1 s2 l1 l2 out la -> MInv (flip f) s2 s1 l2 l1 out la.
Proof.
  intros [S1 S2 N1 N2 U1 U2 Lo1 Lo2 Hi1 Hi2 D1 D2 Ho Hb Hw Hso Hla].
  constructor; try rewrite (FF_comm s1 s2); try rewrite (TT0_comm s1 s2); try rewrite (tm_comm l1 l2); try assumption.
  - intros t Ht. rewrite Dv_flip. apply Ho. exact Ht.
  - destruct la as [[a v]|]; [|congruence]. rewrite Dv_flip.
    destruct Hla as (A & B & C & D'). repeat split; assumption.
Qed.
Lemma flip_flip f : flip (flip f) = f.
Proof. reflexivity. Qed.
Lemma MInv_unflip f s1 s2 l1 l2 out la : MInv (flip f) s2 s1 l2 l1 out la -> MInv f s1 s2 l1 l2 out la.
Proof. intros H. apply MInv_flip in H. exact H. Qed.

Lemma Post_unflip f s1 s2 out la : Post (flip f) s2 s1 out la -> Post f s1 s2 out la.
Proof.
  unfold Post. rewrite FF_comm, TT0_comm. intros (A & B & C). split; [exact A|]. split; [exact B|].
  destruct la as [[a v]|].
  - destruct C as (C1 & C2 & C2' & C3). split; [exact C1|]. split; [exact C2|]. split; [exact C2'|].
    intros t Ht. rewrite <- Dv_flip. apply C3. exact Ht.
  - intros t Ht. rewrite <- Dv_flip. apply C. exact Ht.
Qed.

Lemma otail2_flip f p1 v1 : forall fuel l2 out la,
  otail2 Z Z.ltb Z.eqb fuel f p1 v1 l2 out la = otail1 Z Z.ltb Z.eqb fuel (flip f) l2 p1 v1 out la.
Proof.
  induction fuel as [|fuel IH]; intros l2 out la; [reflexivity|].
  cbn [otail1 otail2]. destruct l2 as [|[p2 v2] [|[c2 w2] r2]]; try reflexivity.
  rewrite !IH. reflexivity.
Qed.

Lemma otail2_correct f s1 s2 p1 v1 fuel l2 out la :
  (length l2 <= fuel)%nat -> MInv f s1 s2 [(p1, v1)] l2 out la ->
  exists out' la', otail2 Z Z.ltb Z.eqb fuel f p1 v1 l2 out la = Some (out', la') /\ Post f s1 s2 out' la'.
Proof.
  intros Hlen H. apply MInv_flip in H.
  destruct (otail1_correct _ _ _ p1 v1 fuel l2 out la Hlen H) as (out' & la' & E & HP).
  exists out', la'. split; [rewrite otail2_flip; exact E|]. apply Post_unflip. exact HP.
Qed.

Lemma minv_pop2 f s1 s2 p1 v1 r1 p2 v2 c2 w2 r2 out la x :
  MInv f s1 s2 ((p1, v1) :: r1) ((p2, v2) :: (c2, w2) :: r2) out la ->
  c2 <= bound ((p1, v1) :: r1) ->
  (p1 <= c2 -> den_opt ((p1, v1) :: r1) c2 = Some x) ->
  MInv f s1 s2 ((p1, v1) :: r1) ((c2, w2) :: r2)
       (if p1 <? c2 then oappend Z out (Z.max p1 p2, f v1 v2) else out)
       (if c2 <? p1 then None else Some (c2, f x w2)).
Proof.
  intros H Hc Hx. apply MInv_unflip. apply MInv_flip in H.
  pose proof (minv_pop1 _ _ _ p2 v2 c2 w2 r2 p1 v1 r1 out la x H Hc Hx) as Hp.
  rewrite (Z.max_comm p2 p1) in Hp. exact Hp.
Qed.

End Symmetry.

(* ================================================================== *)
(* the main loop and the whole function                               *)
(* ================================================================== *)
Section Main.
Context {VS : Val}.
Variable f : V -> V -> V.

(* what one iteration of the 13-case loop does, for two leading pieces [p1,c1) and [p2,c2) *)
Definition step_ok p1 v1 c1 w1 (r1 : dsig) p2 v2 c2 w2 (r2 : dsig) (out : dsig) (la : option (Z * V))
                   (res : mstate Z) : Prop :=
  let '(l1', l2', out', la') := res in
  (c1 <= c2 /\ l1' = (c1, w1) :: r1 /\ l2' = (p2, v2) :: (c2, w2) :: r2 /\
   out' = (if p2 <? c1 then oappend Z out (Z.max p1 p2, f v1 v2) else out) /\
   la' = (if c1 <? p2 then None else Some (c1, f w1 (if c1 <? c2 then v2 else w2))))
  \/
  (c2 < c1 /\ l1' = (p1, v1) :: (c1, w1) :: r1 /\ l2' = (c2, w2) :: r2 /\
   out' = (if p1 <? c2 then oappend Z out (Z.max p1 p2, f v1 v2) else out) /\
   la' = (if c2 <? p1 then la else Some (c2, f v1 w2))).

Ltac fin :=
  repeat match goal with |- context [if ?b then _ else _] => destruct b eqn:? end;
  try lia; try reflexivity; try (repeat f_equal; lia).

Lemma ostep_spec p1 v1 c1 w1 r1 p2 v2 c2 w2 r2 out la :
  p1 < c1 -> p2 < c2 ->
  exists res, ostep Z Z.ltb Z.eqb f p1 v1 c1 w1 r1 p2 v2 c2 w2 r2 out la = Some res /\
              step_ok p1 v1 c1 w1 r1 p2 v2 c2 w2 r2 out la res.
Proof.
  intros H1 H2. unfold ostep.
  repeat match goal with
  | |- exists res, (if ?b then _ else _) = Some res /\ _ =>
      let E := fresh "E" in destruct b eqn:E;
      [eexists; split; [reflexivity|]; unfold step_ok;
       first [ solve [left; split; [lia|split; [reflexivity|split; [reflexivity|split; fin]]]]
             | solve [right; split; [lia|split; [reflexivity|split; [reflexivity|split; fin]]]] ] |]
  end.
  lia.
Qed.

Lemma minv_step s1 s2 p1 v1 c1 w1 r1 p2 v2 c2 w2 r2 out la l1' l2' out' la' :
  MInv f s1 s2 ((p1, v1) :: (c1, w1) :: r1) ((p2, v2) :: (c2, w2) :: r2) out la ->
  step_ok p1 v1 c1 w1 r1 p2 v2 c2 w2 r2 out la (l1', l2', out', la') ->
  MInv f s1 s2 l1' l2' out' la'.
Proof.
  intros H Hs.
  pose proof (mi_sorted1 _ _ _ _ _ _ _ H) as S1. pose proof (mi_sorted2 _ _ _ _ _ _ _ H) as S2.
  assert (P1 : p1 < c1) by (destruct S1 as [P1 _]; exact P1).
  assert (P2 : p2 < c2) by (destruct S2 as [P2 _]; exact P2).
  destruct Hs as [(Hc & -> & -> & -> & ->)|(Hc & -> & -> & -> & ->)].
  - apply (minv_pop1 _ _ _ _ _ _ _ _ _ _ _ _ _ _ H); [cbn [bound]; exact Hc|].
    intros Hp. destruct (c1 <? c2) eqn:E.
    + apply den_head; lia.
    + assert (c1 = c2) by lia. subst c2. rewrite den_tail by lia. apply (den_at_start _ _ _ (dsorted_tl _ _ S2)).
  - assert (Hp : MInv f s1 s2 ((p1, v1) :: (c1, w1) :: r1) ((c2, w2) :: r2)
                      (if p1 <? c2 then oappend Z out (Z.max p1 p2, f v1 v2) else out)
                      (if c2 <? p1 then None else Some (c2, f v1 w2))).
    { apply (minv_pop2 _ _ _ _ _ _ _ _ _ _ _ _ _ _ H); [cbn [bound]; lia|].
      intros Hp. apply den_head; lia. }
    destruct (c2 <? p1) eqn:E; [|exact Hp].
    pose proof (mi_last _ _ _ _ _ _ _ H) as Hla.
    destruct la as [[a v]|]; [|exact Hp]. destruct Hla as (Ea & _ & _ & Hb).
    unfold tm in Ea. cbn [start bound] in *. lia.
Qed.

Lemma omain_correct s1 s2 : forall fuel l1 l2 out la,
  (length l1 + length l2 <= fuel + 3)%nat -> MInv f s1 s2 l1 l2 out la ->
  exists l1' l2' out' la',
    omain Z Z.ltb Z.eqb fuel f l1 l2 out la = Some (l1', l2', out', la') /\
    MInv f s1 s2 l1' l2' out' la' /\ (length l1' = 1 \/ length l2' = 1)%nat.
Proof.
  induction fuel as [|fuel IH]; intros l1 l2 out la Hlen H;
    pose proof (mi_ne1 _ _ _ _ _ _ _ H) as N1; pose proof (mi_ne2 _ _ _ _ _ _ _ H) as N2.
  - exists l1, l2, out, la. split; [reflexivity|]. split; [exact H|].
    destruct l1 as [|x1 [|y1 q1]], l2 as [|x2 [|y2 q2]]; cbn [length] in *; try congruence; lia.
  - destruct l1 as [|[p1 v1] l1]; [congruence|]. destruct l2 as [|[p2 v2] l2]; [congruence|].
    destruct l1 as [|[c1 w1] r1].
    { exists [(p1, v1)], ((p2, v2) :: l2), out, la. split; [reflexivity|]. split; [exact H|left; reflexivity]. }
    destruct l2 as [|[c2 w2] r2].
    { exists ((p1, v1) :: (c1, w1) :: r1), [(p2, v2)], out, la. split; [reflexivity|]. split; [exact H|right; reflexivity]. }
    cbn [omain].
    pose proof (mi_sorted1 _ _ _ _ _ _ _ H) as S1. pose proof (mi_sorted2 _ _ _ _ _ _ _ H) as S2.
    assert (P1 : p1 < c1) by (destruct S1 as [P1 _]; exact P1).
    assert (P2 : p2 < c2) by (destruct S2 as [P2 _]; exact P2).
    destruct (ostep_spec p1 v1 c1 w1 r1 p2 v2 c2 w2 r2 out la P1 P2) as ([[[l1' l2'] out'] la'] & E & Hs).
    rewrite E. apply IH; [|apply (minv_step _ _ _ _ _ _ _ _ _ _ _ _ _ _ _ _ _ _ H Hs)].
    destruct Hs as [(_ & -> & -> & _)|(_ & -> & -> & _)]; cbn [length] in *; lia.
Qed.

Lemma minv_init s1 s2 p1 v1 r1 p2 v2 r2 :
  dsorted s1 -> dsorted s2 -> s1 = (p1, v1) :: r1 -> s2 = (p2, v2) :: r2 ->
  MInv f s1 s2 s1 s2 [] (if p1 =? p2 then Some (p1, f v1 v2) else None).
Proof.
  intros S1 S2 E1 E2. constructor; try assumption.
  - subst s1. discriminate.
  - subst s2. discriminate.
  - exists []. reflexivity.
  - exists []. reflexivity.
  - lia.
  - lia.
  - left. reflexivity.
  - left. reflexivity.
  - reflexivity.
  - reflexivity.
  - intros t Ht. unfold tm in Ht. subst s1 s2. cbn [start] in Ht. unfold Dv. cbn [den_opt].
    destruct (p1 <=? t) eqn:A; [|reflexivity]. destruct (p2 <=? t) eqn:B; [lia|].
    match goal with |- None = lift2 f ?a None => destruct a; reflexivity end.
  - intros a v [].
  - intros a v [].
  - exact I.
  - unfold tm. subst s1 s2. cbn [start]. destruct (p1 =? p2) eqn:E; [|lia].
    assert (p1 = p2) by lia. subst p2. split; [lia|]. split; [|split].
    + unfold Dv. rewrite (den_at_start _ _ _ S1), (den_at_start _ _ _ S2). reflexivity.
    + apply (start_le_bound _ S1).
    + apply (start_le_bound _ S2).
Qed.

(* from Post to the statement about the returned list *)
Lemma post_olist s1 s2 out la :
  dsorted s1 -> dsorted s2 -> s1 <> [] -> s2 <> [] -> Post f s1 s2 out la ->
  wsorted (olist out la) /\
  (forall a v, In (a, v) (olist out la) -> TT0 s1 s2 <= a <= FF s1 s2) /\
  (forall t, TT0 s1 s2 <= t <= FF s1 s2 -> den_opt (olist out la) t = Some (f (den s1 t) (den s2 t))).
Proof.
  intros S1 S2 N1 N2 (Hso & Hw & Hla).
  assert (Hd : forall t, TT0 s1 s2 <= t -> Dv f s1 s2 t = Some (f (den s1 t) (den s2 t))).
  { intros t Ht. apply Dv_some; [exact Ht|]. unfold Dv, TT0 in *.
    destruct s1 as [|[p1 v1] r1]; [congruence|]. destruct s2 as [|[p2 v2] r2]; [congruence|]. cbn [start] in Ht.
    pose proof (den_from_start p1 v1 r1 t ltac:(lia)) as Q1. pose proof (den_from_start p2 v2 r2 t ltac:(lia)) as Q2.
    destruct (den_opt ((p1, v1) :: r1) t); [|congruence]. destruct (den_opt ((p2, v2) :: r2) t); [|congruence].
    discriminate. }
  unfold olist. destruct la as [[a v]|].
  - destruct Hla as (Ha & Hb & _ & Hv). split; [apply wsorted_snoc; assumption|]. split.
    + intros b w Hin. apply in_app_or in Hin as [Hin|[Hin|[]]]; [apply (Hw b w Hin)|]. injection Hin as <- _. exact Ha.
    + intros t Ht. rewrite den_snoc by exact Hb. rewrite Hv by lia. apply Hd. lia.
  - rewrite app_nil_r. split; [apply dsorted_wsorted; exact Hso|]. split; [exact Hw|].
    intros t Ht. rewrite Hla by lia. apply Hd. lia.
Qed.

Lemma post_oadd s1 s2 out la :
  Post f s1 s2 out la ->
  dsorted (oadd_last Z Z.ltb out la) /\
  (forall t, den_opt (oadd_last Z Z.ltb out la) t = den_opt (olist out la) t) /\
  (forall x, In x (oadd_last Z Z.ltb out la) -> In x (olist out la)).
Proof.
  intros (Hso & Hw & Hla). unfold olist. destruct la as [[a v]|].
  - destruct Hla as (_ & Hb & Hv & _). destruct (oadd_last_spec out a v Hso Hb Hv) as (A & B & C & _).
    split; [exact A|]. split; [exact B|exact C].
  - cbn [oadd_last]. rewrite app_nil_r. split; [exact Hso|]. split; [reflexivity|auto].
Qed.

Lemma minv_remainders s1 s2 l1 l2 out la :
  MInv f s1 s2 l1 l2 out la ->
  suffix l1 s1 /\ suffix l2 s2 /\ l1 <> [] /\ l2 <> [] /\
  (forall t, FF s1 s2 <= t -> den_opt l1 t = den_opt s1 t) /\
  (forall t, FF s1 s2 <= t -> den_opt l2 t = den_opt s2 t).
Proof.
  intros H. split; [exact (mi_suf1 _ _ _ _ _ _ _ H)|]. split; [exact (mi_suf2 _ _ _ _ _ _ _ H)|].
  split; [exact (mi_ne1 _ _ _ _ _ _ _ H)|]. split; [exact (mi_ne2 _ _ _ _ _ _ _ H)|]. split.
  - intros t Ht. destruct (mi_hi1 _ _ _ _ _ _ _ H) as [->|Hh]; [reflexivity|].
    symmetry. apply (mi_den1 _ _ _ _ _ _ _ H). lia.
  - intros t Ht. destruct (mi_hi2 _ _ _ _ _ _ _ H) as [->|Hh]; [reflexivity|].
    symmetry. apply (mi_den2 _ _ _ _ _ _ _ H). lia.
Qed.

(* ---------------- the online intersection ---------------- *)
Lemma oisect_unfold s1 s2 p1 v1 q1 p2 v2 q2 :
  s1 = (p1, v1) :: q1 -> s2 = (p2, v2) :: q2 ->
  oisect f s1 s2 =
  match omain Z Z.ltb Z.eqb (length s1 + length s2 + 2) f s1 s2 [] (if p1 =? p2 then Some (p1, f v1 v2) else None) with
  | None => None
  | Some st => ofinish Z Z.ltb Z.eqb f st
  end.
Proof. intros -> ->. reflexivity. Qed.

Lemma ofinish_correct s1 s2 l1 l2 out la :
  MInv f s1 s2 l1 l2 out la -> (length l1 = 1 \/ length l2 = 1)%nat ->
  exists out' la', ofinish Z Z.ltb Z.eqb f (l1, l2, out, la) = Some (out', la', l1, l2) /\ Post f s1 s2 out' la'.
Proof.
  intros H Hone. unfold ofinish.
  pose proof (mi_ne1 _ _ _ _ _ _ _ H) as M1. pose proof (mi_ne2 _ _ _ _ _ _ _ H) as M2.
  destruct l1 as [|[a1 b1] [|[a1' b1'] m1]]; [congruence| |].
  - destruct l2 as [|[a2 b2] [|[a2' b2'] m2]]; [congruence| |].
    + destruct (otail1_correct f s1 s2 a2 b2 1%nat [(a1, b1)] out la ltac:(cbn [length]; lia) H)
        as (out' & la' & E & HP).
      cbn [otail1] in E. injection E as <- <-. exists out, la. split; [reflexivity|exact HP].
    + destruct (otail2_correct f s1 s2 a1 b1 _ _ out la (le_n _) H) as (out' & la' & E & HP).
      rewrite E. exists out', la'. split; [reflexivity|exact HP].
  - destruct l2 as [|[a2 b2] [|[a2' b2'] m2]]; [congruence| |].
    + destruct (otail1_correct f s1 s2 a2 b2 _ _ out la (le_n _) H) as (out' & la' & E & HP).
      rewrite E. exists out', la'. split; [reflexivity|exact HP].
    + cbn [length] in Hone. lia.
Qed.

(* everything the refinement proof of the update needs *)
Lemma oisect_correct_full s1 s2 :
  dsorted s1 -> dsorted s2 -> s1 <> [] -> s2 <> [] ->
  exists out la r1 r2,
    oisect f s1 s2 = Some (out, la, r1, r2) /\
    wsorted (olist out la) /\
    (forall a v, In (a, v) (olist out la) -> TT0 s1 s2 <= a <= FF s1 s2) /\
    (forall t, TT0 s1 s2 <= t <= FF s1 s2 -> den_opt (olist out la) t = Some (f (den s1 t) (den s2 t))) /\
    dsorted (oadd_last Z Z.ltb out la) /\
    (forall t, den_opt (oadd_last Z Z.ltb out la) t = den_opt (olist out la) t) /\
    (forall x, In x (oadd_last Z Z.ltb out la) -> In x (olist out la)) /\
    (suffix r1 s1 /\ suffix r2 s2 /\ r1 <> [] /\ r2 <> [] /\
     (forall t, FF s1 s2 <= t -> den_opt r1 t = den_opt s1 t) /\
     (forall t, FF s1 s2 <= t -> den_opt r2 t = den_opt s2 t)) /\
    (length r1 = 1 \/ length r2 = 1)%nat.
Proof.
  intros S1 S2 N1 N2.
  assert (E1 : exists p1 v1 q1, s1 = (p1, v1) :: q1) by (destruct s1 as [|[p1 v1] q1]; [congruence|eauto]).
  assert (E2 : exists p2 v2 q2, s2 = (p2, v2) :: q2) by (destruct s2 as [|[p2 v2] q2]; [congruence|eauto]).
  destruct E1 as (p1 & v1 & q1 & E1). destruct E2 as (p2 & v2 & q2 & E2).
  pose proof (minv_init s1 s2 p1 v1 q1 p2 v2 q2 S1 S2 E1 E2) as H0.
  destruct (omain_correct s1 s2 (length s1 + length s2 + 2) s1 s2 [] _ ltac:(lia) H0)
    as (l1 & l2 & out & la & Erun & H & Hone).
  destruct (ofinish_correct s1 s2 l1 l2 out la H Hone) as (out' & la' & Eo & HP).
  destruct (post_olist s1 s2 out' la' S1 S2 N1 N2 HP) as (A & B & C).
  destruct (post_oadd s1 s2 out' la' HP) as (A' & B' & C').
  exists out', la', l1, l2. split.
  { rewrite (oisect_unfold s1 s2 _ _ _ _ _ _ E1 E2).
    exact (eq_trans (f_equal (fun o => match o with None => None | Some st => ofinish Z Z.ltb Z.eqb f st end) Erun) Eo). }
  split; [exact A|]. split; [exact B|]. split; [exact C|].
  split; [exact A'|]. split; [exact B'|]. split; [exact C'|].
  split; [exact (minv_remainders _ _ _ _ _ _ H)|exact Hone].
Qed.

Theorem oisect_correct s1 s2 :
  dsorted s1 -> dsorted s2 -> s1 <> [] -> s2 <> [] ->
  let F := Z.min (lastT s1) (lastT s2) in
  let t0 := Z.max (start s1) (start s2) in
  exists out la r1 r2,
    oisect f s1 s2 = Some (out, la, r1, r2) /\
    wsorted (olist out la) /\
    (forall a v, In (a, v) (olist out la) -> t0 <= a <= F) /\
    (forall t, t0 <= t <= F -> den_opt (olist out la) t = Some (f (den s1 t) (den s2 t))) /\
    suffix r1 s1 /\ suffix r2 s2 /\ r1 <> [] /\ r2 <> [] /\
    (forall t, F <= t -> den_opt r1 t = den_opt s1 t) /\
    (forall t, F <= t -> den_opt r2 t = den_opt s2 t).
Proof.
  intros S1 S2 N1 N2. destruct (oisect_correct_full s1 s2 S1 S2 N1 N2) as (out & la & r1 & r2 & E & A & B & C & _ & _ & _ & D & _).
  exists out, la, r1, r2. split; [exact E|]. split; [exact A|]. split; [exact B|]. split; [exact C|]. exact D.
Qed.

(* in particular the 'Unexpected case' branch is never reached on sorted inputs *)
Corollary oisect_total s1 s2 : dsorted s1 -> dsorted s2 -> oisect f s1 s2 <> None.
Proof.
  intros S1 S2. destruct s1 as [|[p1 v1] q1]; [discriminate|]. destruct s2 as [|[p2 v2] q2]; [discriminate|].
  set (x1 := (p1, v1)) in *. set (x2 := (p2, v2)) in *.
  assert (N1 : x1 :: q1 <> []) by discriminate. assert (N2 : x2 :: q2 <> []) by discriminate.
  destruct (oisect_correct (x1 :: q1) (x2 :: q2) S1 S2 N1 N2) as (out & la & r1 & r2 & E & _).
  rewrite E. discriminate.
Qed.

End Main.

(* ================================================================== *)
(* the update of a binary operation refines the point-wise combination *)
(* ================================================================== *)
Section ListFacts2.
Context {VS : Val}.

Lemma dsorted_app_r (pre l : dsig) : dsorted (pre ++ l) -> dsorted l.
Proof. induction pre as [|x pre IH]; intros H; [exact H|]. apply IH. apply (dsorted_tl x). exact H. Qed.
Lemma dsorted_app_l (a b : dsig) : dsorted (a ++ b) -> dsorted a.
Proof.
  induction a as [|[p v] a IH]; intros H; [exact I|]. cbn [app] in H. destruct H as [Hh Hs]. split; [|apply IH; exact Hs].
  destruct a as [|[c w] a']; [exact I|exact Hh].
Qed.
Lemma dsorted_app_lt (a b : dsig) : dsorted (a ++ b) -> a <> [] -> b <> [] -> lastT a < start b.
Proof.
  induction a as [|[p v] a IH]; intros H Na Nb; [congruence|].
  destruct a as [|[c w] a'].
  - destruct b as [|[q u] b']; [congruence|]. destruct H as [Hh _]. unfold lastT. cbn [last fst start]. exact Hh.
  - rewrite lastT_cons. apply IH; [apply (dsorted_tl _ _ H)|discriminate|exact Nb].
Qed.
Lemma start_suffix_ge (s l : dsig) : dsorted s -> suffix l s -> l <> [] -> start s <= start l.
Proof.
  intros Hs [pre ->] Hne. induction pre as [|[p v] pre IH]; [cbn [app]; lia|].
  cbn [app] in Hs. cbn [app start]. specialize (IH (dsorted_tl _ _ Hs)).
  destruct (pre ++ l) as [|[c w] q] eqn:E.
  - destruct pre; [cbn [app] in E; congruence|discriminate].
  - destruct Hs as [Hh _]. cbn [start] in IH. lia.
Qed.
Lemma den_suffix (s l : dsig) : dsorted s -> suffix l s -> l <> [] -> forall t, start l <= t -> den_opt s t = den_opt l t.
Proof.
  intros Hs [pre ->] Hne t Ht. induction pre as [|[p v] pre IH]; [reflexivity|].
  cbn [app] in Hs. cbn [app]. pose proof (start_suffix_ge _ l (dsorted_tl _ _ Hs) (ex_intro _ pre eq_refl) Hne) as Hge.
  specialize (IH (dsorted_tl _ _ Hs)).
  destruct (pre ++ l) as [|[c w] q] eqn:E.
  - destruct pre; [cbn [app] in E; congruence|discriminate].
  - destruct Hs as [Hh _]. cbn [start] in Hge. rewrite den_tail by lia. exact IH.
Qed.
Lemma den_none_lt (s : dsig) t : s <> [] -> den_opt s t = None -> t < start s.
Proof.
  intros Hne H. destruct s as [|[p v] r]; [congruence|]. cbn [start].
  destruct (Z.lt_ge_cases t p) as [Hlt|Hge]; [exact Hlt|]. exfalso. apply (den_from_start p v r t Hge H).
Qed.
Lemma den_app_prefix (a b : dsig) t : dsorted (a ++ b) -> a <> [] -> t <= lastT a -> den_opt (a ++ b) t = den_opt a t.
Proof.
  induction a as [|[p v] a IH]; intros H Na Ht; [congruence|].
  destruct a as [|[c w] a'].
  - unfold lastT in Ht. cbn [last fst] in Ht. cbn [app den_opt]. destruct b as [|[q u] b']; [reflexivity|].
    cbn [app] in H. destruct H as [Hh _]. rewrite (den_before q u b' t) by lia. reflexivity.
  - rewrite lastT_cons in Ht. specialize (IH (dsorted_tl _ _ H) ltac:(discriminate) Ht).
    change (((p, v) :: (c, w) :: a') ++ b) with ((p, v) :: ((c, w) :: a') ++ b).
    cbn [den_opt] in *. rewrite IH. reflexivity.
Qed.
Lemma lastT_app_ge (a b : dsig) : dsorted (a ++ b) -> a <> [] -> lastT a <= lastT (a ++ b).
Proof.
  intros H Na. destruct (exists_last Na) as (a' & [p v] & ->).
  unfold lastT at 1. rewrite last_last. cbn [fst]. apply (dsorted_le_last _ H p v).
  apply in_or_app. left. apply in_or_app. right. left. reflexivity.
Qed.
Lemma start_app (a b : dsig) : a <> [] -> start (a ++ b) = start a.
Proof. destruct a; [congruence|reflexivity]. Qed.
Lemma suffix_trans (a b c : dsig) : suffix a b -> suffix b c -> suffix a c.
Proof. intros [p ->] [q ->]. exists (q ++ p). rewrite app_assoc. reflexivity. Qed.
Lemma suffix_refl (a : dsig) : suffix a a.
Proof. exists []. reflexivity. Qed.

Lemma wsorted_head (a : Z) (v : V) (l : dsig) : wsorted ((a, v) :: l) -> forall b w, In (b, w) l -> a <= b.
Proof.
  revert a v. induction l as [|[c u] l IH]; intros a v H b w Hin; [destruct Hin|].
  destruct H as [Hh Hs]. destruct Hin as [Hin|Hin]; [injection Hin as <- _; exact Hh|].
  pose proof (IH c u Hs b w Hin). lia.
Qed.
Lemma wsorted_app (o r : dsig) :
  wsorted o -> wsorted r -> (forall a v b w, In (a, v) o -> In (b, w) r -> a <= b) -> wsorted (o ++ r).
Proof.
  induction o as [|[a v] o IH]; intros Ho Hr Hle; [exact Hr|].
  destruct Ho as [Hh Ho]. cbn [app wsorted]. split.
  - destruct o as [|[c u] o']; cbn [app].
    + destruct r as [|[c u] r']; [exact I|]. apply (Hle a v c u); left; reflexivity.
    + exact Hh.
  - apply IH; [exact Ho|exact Hr|]. intros a' v' b w Ha Hb. apply (Hle a' v' b w); [right; exact Ha|exact Hb].
Qed.
Lemma den_app_ws (o r : dsig) t :
  wsorted (o ++ r) -> den_opt (o ++ r) t = match den_opt r t with Some v => Some v | None => den_opt o t end.
Proof.
  induction o as [|[a v] o IH]; intros H.
  - cbn [app den_opt]. destruct (den_opt r t); reflexivity.
  - cbn [app] in *. pose proof (wsorted_head _ _ _ H) as Hhd. destruct H as [_ H]. specialize (IH H).
    cbn [den_opt]. rewrite IH. destruct (a <=? t) eqn:E.
    + destruct (den_opt r t); reflexivity.
    + destruct r as [|[c u] r']; [reflexivity|].
      assert (a <= c) by (apply (Hhd c u); apply in_or_app; right; left; reflexivity).
      rewrite (den_before c u r' t) by lia. reflexivity.
Qed.

Definition last_opt (o : dsig) : option (Z * V) := match rev o with [] => None | x :: _ => Some x end.
Lemma last_opt_app (o r : dsig) : last_opt (o ++ r) = match rev r with [] => last_opt o | x :: _ => Some x end.
Proof. unfold last_opt. rewrite rev_app_distr. destruct (rev r); reflexivity. Qed.

Lemma obuf_add_app (buf batch : dsig) :
  buf = [] \/ batch = [] \/ lastT buf < start batch -> obuf_add Z Z.eqb buf batch = buf ++ batch.
Proof.
  intros H. unfold obuf_add. destruct (rev buf) as [|[tb wb] l] eqn:E; [reflexivity|].
  destruct batch as [|[t0 v0] rest]; [reflexivity|].
  apply rev_eq_cons in E. destruct H as [H|[H|H]]; [subst buf; destruct (rev l); discriminate|discriminate|].
  rewrite E in H. unfold lastT in H. rewrite last_last in H. cbn [fst start] in H.
  destruct (tb =? t0) eqn:Eb; [lia|reflexivity].
Qed.

Lemma odrop_first_cases (lo : option (Z * V)) (res : dsig) :
  odrop_first Z Z.eqb lo res = res \/ exists x, res = x :: odrop_first Z Z.eqb lo res /\ lo = Some x.
Proof.
  unfold odrop_first. destruct lo as [[to vo]|]; [|left; reflexivity].
  destruct res as [|[t0 v0] rest]; [left; reflexivity|].
  destruct (to =? t0) eqn:Et; cbn [andb]; [|left; reflexivity].
  unfold veq. destruct (v_eq_dec vo v0) as [->|]; [|left; reflexivity].
  right. exists (t0, v0). split; [reflexivity|]. f_equal. f_equal. lia.
Qed.

Lemma oisect_nil f (l r : dsig) : l = [] \/ r = [] -> oisect f l r = Some ([], None, l, r).
Proof. intros [-> | ->]; [reflexivity|]. destruct l as [|[p v] l]; reflexivity. Qed.

End ListFacts2.

Section Refinement.
Context {VS : Val}.
Variable f : V -> V -> V.

(* A, B: what has been fed so far to the two inputs; O: what has been returned so far *)
Record RInv (A B : dsig) (st : state) (O : dsig) : Prop := {
  ri_suf1 : suffix (lbuf st) A;
  ri_suf2 : suffix (rbuf st) B;
  ri_ne1 : A <> [] -> lbuf st <> [];
  ri_ne2 : B <> [] -> rbuf st <> [];
  ri_lout : lout st = last_opt O;
  ri_empty : A = [] \/ B = [] -> O = [] /\ lbuf st = A /\ rbuf st = B;
  ri_ws : wsorted O;
  ri_within : forall a v, In (a, v) O -> TT0 A B <= a <= FF A B;
  ri_den1 : A <> [] -> B <> [] -> forall t, FF A B <= t -> den_opt (lbuf st) t = den_opt A t;
  ri_den2 : A <> [] -> B <> [] -> forall t, FF A B <= t -> den_opt (rbuf st) t = den_opt B t;
  ri_front : A <> [] -> B <> [] -> FF A B <= Z.max (start (lbuf st)) (start (rbuf st));
  ri_val : A <> [] -> B <> [] -> forall t, TT0 A B <= t <= FF A B -> den_opt O t = Some (f (den A t) (den B t))
}.

Lemma rinv_init : RInv [] [] ostate0 [].
Proof.
  constructor; cbn [lbuf rbuf lout ostate0]; try congruence; try (apply suffix_refl); try reflexivity; try exact I.
  - intros _. auto.
  - intros a v [].
Qed.

Lemma buf_step (A lb b1 : dsig) :
  dsorted (A ++ b1) -> suffix lb A -> (A <> [] -> lb <> []) ->
  obuf_add Z Z.eqb lb b1 = lb ++ b1 /\ suffix (lb ++ b1) (A ++ b1) /\ dsorted (lb ++ b1).
Proof.
  intros Hs [pre ->] Hne. split; [|split].
  - apply obuf_add_app. destruct lb as [|x lb']; [left; reflexivity|]. destruct b1 as [|y b1']; [right; left; reflexivity|].
    right. right. rewrite <- (lastT_app pre (x :: lb')) by discriminate.
    apply dsorted_app_lt; [exact Hs|destruct pre; discriminate|discriminate].
  - exists pre. rewrite app_assoc. reflexivity.
  - rewrite <- app_assoc in Hs. apply (dsorted_app_r _ _ Hs).
Qed.

(* the buffer still denotes the input from Fo on *)
Definition side_ok (A lb : dsig) (Fo : Z) : Prop :=
  lb = A \/ (A <> [] /\ lb <> [] /\ forall t, Fo <= t -> den_opt lb t = den_opt A t).

Lemma side_lt A lb b1 Fo t :
  side_ok A lb Fo -> lb ++ b1 <> [] -> Fo <= t -> t < start (lb ++ b1) -> t < start (A ++ b1).
Proof.
  intros [-> | (NA & Nl & Hd)] Hne Ht Hlt; [exact Hlt|].
  rewrite start_app in Hlt by exact Nl. rewrite start_app by exact NA.
  apply den_none_lt; [exact NA|]. rewrite <- Hd by exact Ht.
  destruct lb as [|[p v] lb']; [congruence|]. apply den_before. exact Hlt.
Qed.

Lemma side_den A lb b1 Fo :
  side_ok A lb Fo -> dsorted (A ++ b1) -> suffix (lb ++ b1) (A ++ b1) -> lb ++ b1 <> [] ->
  forall t, Fo <= t -> den_opt (lb ++ b1) t = den_opt (A ++ b1) t.
Proof.
  intros Hok Hs Hsuf Hne t Ht. destruct (Z.le_gt_cases (start (lb ++ b1)) t) as [Hge|Hlt].
  - symmetry. apply den_suffix; assumption.
  - pose proof (side_lt _ _ _ _ _ Hok Hne Ht ltac:(lia)) as HA.
    destruct (lb ++ b1) as [|[p v] q]; [congruence|]. rewrite den_before by exact Hlt.
    destruct (A ++ b1) as [|[p' v'] q']; [reflexivity|]. rewrite den_before by exact HA. reflexivity.
Qed.

Lemma bin_update_step A B st O b1 b2 :
  RInv A B st O -> dsorted (A ++ b1) -> dsorted (B ++ b2) ->
  exists st' o, bin_update f st b1 b2 = Some (st', o) /\ RInv (A ++ b1) (B ++ b2) st' (O ++ o).
Proof.
  intros R SA SB.
  destruct (buf_step A (lbuf st) b1 SA (ri_suf1 _ _ _ _ R) (ri_ne1 _ _ _ _ R)) as (El & SufL & SL).
  destruct (buf_step B (rbuf st) b2 SB (ri_suf2 _ _ _ _ R) (ri_ne2 _ _ _ _ R)) as (Er & SufR & SR).
  unfold bin_update, bin_update_g. rewrite El, Er.
  set (A' := A ++ b1) in *. set (B' := B ++ b2) in *.
  set (l := lbuf st ++ b1) in *. set (r := rbuf st ++ b2) in *.
  assert (Hdec : (A' = [] \/ B' = []) \/ (A' <> [] /\ B' <> [])).
  { destruct A'; [left; left; reflexivity|]. destruct B'; [left; right; reflexivity|]. right. split; discriminate. }
  destruct Hdec as [Hemp|[NA' NB']].
  - (* one of the inputs has not started yet *)
    assert (Hold : A = [] \/ B = []).
    { destruct Hemp as [H|H]; apply app_eq_nil in H; [left|right]; apply H. }
    destruct (ri_empty _ _ _ _ R Hold) as (EO & ElA & ErB).
    assert (Hl : l = A') by (unfold l, A'; rewrite ElA; reflexivity).
    assert (Hr : r = B') by (unfold r, B'; rewrite ErB; reflexivity).
    pose proof (oisect_nil f l r) as Hn. unfold oisect in Hn. rewrite Hn by (rewrite Hl, Hr; exact Hemp).
    cbn [oadd_last]. assert (Ed : odrop_first Z Z.eqb (lout st) [] = []) by (unfold odrop_first; destruct (lout st) as [[? ?]|]; reflexivity).
    rewrite Ed. cbn [rev]. eexists _, _. split; [reflexivity|]. rewrite app_nil_r.
    constructor; cbn [lbuf rbuf lout]; rewrite ?Hl, ?Hr.
    + apply suffix_refl.
    + apply suffix_refl.
    + auto.
    + auto.
    + apply (ri_lout _ _ _ _ R).
    + intros _. auto.
    + apply (ri_ws _ _ _ _ R).
    + subst O. intros a v [].
    + intros N1 N2. destruct Hemp; congruence.
    + intros N1 N2. destruct Hemp; congruence.
    + intros N1 N2. destruct Hemp; congruence.
    + intros N1 N2. destruct Hemp; congruence.
  - (* both inputs have started *)
    assert (Nl : l <> []).
    { destruct A as [|x A0] eqn:EA.
      - destruct (ri_empty _ _ _ _ R (or_introl eq_refl)) as (_ & E & _). unfold l. rewrite E. exact NA'.
      - unfold l. pose proof (ri_ne1 _ _ _ _ R ltac:(discriminate)) as Hn. destruct (lbuf st); [congruence|discriminate]. }
    assert (Nr : r <> []).
    { destruct B as [|x B0] eqn:EB.
      - destruct (ri_empty _ _ _ _ R (or_intror eq_refl)) as (_ & _ & E). unfold r. rewrite E. exact NB'.
      - unfold r. pose proof (ri_ne2 _ _ _ _ R ltac:(discriminate)) as Hn. destruct (rbuf st); [congruence|discriminate]. }
    destruct (oisect_correct_full f l r SL SR Nl Nr)
      as (out & la & r1 & r2 & E & _ & Hin & Hval & DS & DE & IN & (Su1 & Su2 & Nr1 & Nr2 & Dr1 & Dr2) & One).
    unfold oisect in E. rewrite E.
    set (res1 := oadd_last Z Z.ltb out la) in *.
    set (res2 := odrop_first Z Z.eqb (lout st) res1).
    eexists _, _. split; [reflexivity|].
    (* the quantities of the buffers against those of the inputs *)
    assert (LT1 : lastT l = lastT A') by (destruct SufL as [pre ->]; symmetry; apply lastT_app; exact Nl).
    assert (LT2 : lastT r = lastT B') by (destruct SufR as [pre ->]; symmetry; apply lastT_app; exact Nr).
    assert (EF : FF l r = FF A' B') by (unfold FF; rewrite LT1, LT2; reflexivity).
    pose proof (start_suffix_ge _ _ SA SufL Nl) as G1. pose proof (start_suffix_ge _ _ SB SufR Nr) as G2.
    assert (T0 : TT0 A' B' <= TT0 l r) by (unfold TT0; lia).
    assert (DL : forall t, start l <= t -> den_opt A' t = den_opt l t) by (apply den_suffix; assumption).
    assert (DR : forall t, start r <= t -> den_opt B' t = den_opt r t) by (apply den_suffix; assumption).
    rewrite EF in *.
    (* what the previous calls have established *)
    assert (Hold : exists Fo, side_ok A (lbuf st) Fo /\ side_ok B (rbuf st) Fo /\
              Fo <= FF A' B' /\ Fo <= TT0 l r /\
              (forall a v, In (a, v) O -> TT0 A' B' <= a <= Fo) /\
              (forall t, TT0 A' B' <= t <= Fo -> t < TT0 l r -> den_opt O t = Some (f (den A' t) (den B' t)))).
    { assert (Hd : (A = [] \/ B = []) \/ (A <> [] /\ B <> [])).
      { destruct A; [left; left; reflexivity|]. destruct B; [left; right; reflexivity|]. right. split; discriminate. }
      destruct Hd as [He|[NA NB]].
      - destruct (ri_empty _ _ _ _ R He) as (EO & ElA & ErB).
        exists (Z.min (FF A' B') (TT0 l r)). split; [left; exact ElA|]. split; [left; exact ErB|].
        split; [lia|]. split; [lia|]. split; [subst O; intros a v []|].
        intros t Ht Hlt. exfalso. unfold l, r in Hlt. rewrite ElA, ErB in Hlt. fold A' B' in Hlt. lia.
      - exists (FF A B).
        assert (S0 : start A' = start A) by (apply start_app; exact NA).
        assert (S0' : start B' = start B) by (apply start_app; exact NB).
        assert (ET : TT0 A' B' = TT0 A B) by (unfold TT0; rewrite S0, S0'; reflexivity).
        pose proof (lastT_app_ge _ _ SA NA) as La. pose proof (lastT_app_ge _ _ SB NB) as Lb.
        fold A' in La. fold B' in Lb.
        pose proof (ri_ne1 _ _ _ _ R NA) as Nlb. pose proof (ri_ne2 _ _ _ _ R NB) as Nrb.
        split; [right; split; [exact NA|split; [exact Nlb|exact (ri_den1 _ _ _ _ R NA NB)]]|].
        split; [right; split; [exact NB|split; [exact Nrb|exact (ri_den2 _ _ _ _ R NA NB)]]|].
        split; [unfold FF; lia|]. split.
        { pose proof (ri_front _ _ _ _ R NA NB) as Hf. unfold TT0, l, r. rewrite !start_app by assumption. exact Hf. }
        split; [rewrite ET; exact (ri_within _ _ _ _ R)|].
        intros t Ht _. rewrite ET in Ht. rewrite (ri_val _ _ _ _ R NA NB t Ht).
        unfold den, A', B'. rewrite !den_app_prefix; try assumption; try reflexivity; unfold FF in Ht; lia. }
    destruct Hold as (Fo & U1 & U2 & U3 & U4 & U5 & U6).
    assert (K5l : forall t, Fo <= t -> den_opt l t = den_opt A' t) by (apply (side_den _ _ _ _ U1 SA SufL Nl)).
    assert (K5r : forall t, Fo <= t -> den_opt r t = den_opt B' t) by (apply (side_den _ _ _ _ U2 SB SufR Nr)).
    assert (K2 : forall t, TT0 A' B' <= t <= FF A' B' -> t < TT0 l r -> den_opt O t = Some (f (den A' t) (den B' t))).
    { intros t Ht Hlt. destruct (Z.le_gt_cases t Fo) as [Hle|Hgt]; [apply U6; lia|]. exfalso.
      unfold TT0 in Hlt, Ht.
      assert (Hft : Fo <= t) by lia.
      assert (Hc : t < start l \/ t < start r) by lia. destruct Hc as [Hc|Hc].
      - pose proof (side_lt _ _ _ _ _ U1 Nl Hft Hc) as Hx. fold A' in Hx. lia.
      - pose proof (side_lt _ _ _ _ _ U2 Nr Hft Hc) as Hx. fold B' in Hx. lia. }
    (* the new samples *)
    assert (K3in : forall a v, In (a, v) res1 -> TT0 l r <= a <= FF A' B').
    { intros a v Hi. apply (Hin a v). apply IN. exact Hi. }
    assert (K3val : forall t, TT0 l r <= t <= FF A' B' -> den_opt res1 t = Some (f (den A' t) (den B' t))).
    { intros t Ht. rewrite DE, (Hval t Ht). unfold den. unfold TT0 in Ht. rewrite DL, DR by lia. reflexivity. }
    assert (K4 : res2 = res1 \/ exists x, res1 = x :: res2 /\ lout st = Some x) by (apply odrop_first_cases).
    assert (K4in : forall x, In x res2 -> In x res1).
    { intros x Hx. destruct K4 as [->|(y & Ey & _)]; [exact Hx|]. rewrite Ey. right. exact Hx. }
    assert (K4s : dsorted res2).
    { destruct K4 as [->|(y & Ey & _)]; [exact DS|]. rewrite Ey in DS. apply (dsorted_tl _ _ DS). }
    assert (WS : wsorted (O ++ res2)).
    { apply wsorted_app; [exact (ri_ws _ _ _ _ R)|apply dsorted_wsorted; exact K4s|].
      intros a v b w Ha Hb. pose proof (U5 a v Ha). pose proof (K3in b w (K4in _ Hb)). lia. }
    assert (K6 : forall t, match den_opt res2 t with Some v => Some v | None => den_opt O t end =
                           match den_opt res1 t with Some v => Some v | None => den_opt O t end).
    { intros t. destruct K4 as [->|([a v] & Ey & Elo)]; [reflexivity|].
      rewrite (ri_lout _ _ _ _ R) in Elo. unfold last_opt in Elo.
      destruct (rev O) as [|y q] eqn:ErO; [discriminate|]. injection Elo as ->. apply rev_eq_cons in ErO.
      assert (HaO : In (a, v) O) by (rewrite ErO; apply in_or_app; right; left; reflexivity).
      assert (Har : In (a, v) res1) by (rewrite Ey; left; reflexivity).
      pose proof (U5 a v HaO) as Q1. pose proof (K3in a v Har) as Q2.
      rewrite Ey. destruct (Z.le_gt_cases a t) as [Hle|Hgt].
      - assert (EO : den_opt O t = Some v).
        { rewrite den_all_le; [rewrite ErO, last_last; reflexivity|rewrite ErO; destruct (rev q); discriminate|].
          intros b w Hb. pose proof (U5 b w Hb). lia. }
        rewrite EO. cbn [den_opt]. destruct (a <=? t) eqn:Ea; [|lia]. destruct (den_opt res2 t); reflexivity.
      - rewrite (den_before a v res2 t) by exact Hgt.
        destruct res2 as [|[c u] res2']; [reflexivity|]. rewrite Ey in DS. destruct DS as [Hh _].
        rewrite (den_before c u res2' t) by lia. reflexivity. }
    constructor; cbn [lbuf rbuf lout].
    + apply (suffix_trans _ _ _ Su1 SufL).
    + apply (suffix_trans _ _ _ Su2 SufR).
    + intros _. exact Nr1.
    + intros _. exact Nr2.
    + rewrite last_opt_app. destruct (rev res2); [exact (ri_lout _ _ _ _ R)|reflexivity].
    + intros [H|H]; congruence.
    + exact WS.
    + intros a v Hi. apply in_app_or in Hi as [Hi|Hi].
      * pose proof (U5 a v Hi). lia.
      * pose proof (K3in a v (K4in _ Hi)). lia.
    + intros _ _ t Ht. rewrite Dr1 by exact Ht. apply K5l. lia.
    + intros _ _ t Ht. rewrite Dr2 by exact Ht. apply K5r. lia.
    + intros _ _. unfold FF. rewrite <- LT1, <- LT2.
      destruct One as [Ho|Ho].
      * destruct r1 as [|[p v] [|? ?]]; cbn [length] in Ho; try lia. destruct Su1 as [pre Ep].
        rewrite Ep. rewrite lastT_app by discriminate. unfold lastT. cbn [last fst start]. lia.
      * destruct r2 as [|[p v] [|? ?]]; cbn [length] in Ho; try lia. destruct Su2 as [pre Ep].
        rewrite Ep. rewrite lastT_app by discriminate. unfold lastT. cbn [last fst start]. lia.
    + intros _ _ t Ht. rewrite (den_app_ws _ _ _ WS), K6.
      destruct (Z.le_gt_cases (TT0 l r) t) as [Hge|Hlt].
      * rewrite K3val by lia. reflexivity.
      * assert (En : den_opt res1 t = None).
        { destruct res1 as [|[c u] q]; [reflexivity|]. apply den_before.
          pose proof (K3in c u (or_introl eq_refl)). lia. }
        rewrite En. apply K2; [exact Ht|exact Hlt].
Qed.


Lemma bin_run_inv : forall bs A B st O,
  RInv A B st O ->
  dsorted (A ++ concat (map fst bs)) -> dsorted (B ++ concat (map snd bs)) ->
  exists st' outs, bin_run f st bs = Some (st', outs) /\
                   RInv (A ++ concat (map fst bs)) (B ++ concat (map snd bs)) st' (O ++ concat outs).
Proof.
  induction bs as [|[b1 b2] bs IH]; intros A B st O R SA SB.
  - exists st, []. split; [reflexivity|]. cbn [map concat]. rewrite !app_nil_r. exact R.
  - cbn [map concat fst snd] in *. rewrite app_assoc in SA, SB.
    destruct (bin_update_step A B st O b1 b2 R (dsorted_app_l _ _ SA) (dsorted_app_l _ _ SB)) as (st1 & o & E & R1).
    destruct (IH _ _ _ _ R1 SA SB) as (st2 & outs & E2 & R2).
    exists st2, (o :: outs). split.
    + unfold bin_run in *. cbn [bin_run_g]. unfold bin_update in E. rewrite E, E2. reflexivity.
    + cbn [concat]. rewrite !app_assoc. exact R2.
Qed.

(* feeding s1 and s2 in any two sequences of batches: the concatenated outputs denote the point-wise
   combination on the common known domain [t0, F]; the 'Unexpected case' is never reached *)
Theorem bin_run_correct s1 s2 bs :
  dsorted s1 -> dsorted s2 -> s1 <> [] -> s2 <> [] ->
  concat (map fst bs) = s1 -> concat (map snd bs) = s2 ->
  let F := Z.min (lastT s1) (lastT s2) in
  let t0 := Z.max (start s1) (start s2) in
  exists st outs,
    bin_run f ostate0 bs = Some (st, outs) /\
    wsorted (concat outs) /\
    (forall a v, In (a, v) (concat outs) -> t0 <= a <= F) /\
    (forall t, t0 <= t <= F -> den_opt (concat outs) t = Some (f (den s1 t) (den s2 t))).
Proof.
  intros S1 S2 N1 N2 E1 E2 F t0.
  destruct (bin_run_inv bs [] [] ostate0 [] rinv_init) as (st & outs & E & R).
  - cbn [app]. rewrite E1. exact S1.
  - cbn [app]. rewrite E2. exact S2.
  - cbn [app] in R. rewrite E1, E2 in R. exists st, outs. split; [exact E|].
    split; [exact (ri_ws _ _ _ _ R)|]. split; [exact (ri_within _ _ _ _ R)|exact (ri_val _ _ _ _ R N1 N2)].
Qed.

(* two chunkings of the same inputs never disagree on [t0, F] *)
Corollary bin_run_chunking s1 s2 bs bs' :
  dsorted s1 -> dsorted s2 -> s1 <> [] -> s2 <> [] ->
  concat (map fst bs) = s1 -> concat (map snd bs) = s2 ->
  concat (map fst bs') = s1 -> concat (map snd bs') = s2 ->
  exists st outs st' outs',
    bin_run f ostate0 bs = Some (st, outs) /\ bin_run f ostate0 bs' = Some (st', outs') /\
    forall t, Z.max (start s1) (start s2) <= t <= Z.min (lastT s1) (lastT s2) ->
              den_opt (concat outs) t = den_opt (concat outs') t.
Proof.
  intros S1 S2 N1 N2 E1 E2 E1' E2'.
  destruct (bin_run_correct s1 s2 bs S1 S2 N1 N2 E1 E2) as (st & outs & E & _ & _ & Hv).
  destruct (bin_run_correct s1 s2 bs' S1 S2 N1 N2 E1' E2') as (st' & outs' & E' & _ & _ & Hv').
  exists st, outs, st', outs'. split; [exact E|]. split; [exact E'|].
  intros t Ht. rewrite (Hv t Ht), (Hv' t Ht). reflexivity.
Qed.


(* ---------------- batches that repeat the last sample already sent ---------------- *)
(* and_operation.update drops the first sample of a batch whose first stamp is the last buffered stamp:
   a batch c carries the new samples b, possibly preceded by a sample at the last stamp of what was sent (A) *)
Inductive batch_of (A b : dsig) : dsig -> Prop :=
| bo_plain : batch_of A b b
| bo_repeat v : A <> [] -> batch_of A b ((lastT A, v) :: b).

Lemma obuf_add_batch (A lb b c : dsig) :
  dsorted (A ++ b) -> suffix lb A -> (A <> [] -> lb <> []) -> batch_of A b c ->
  obuf_add Z Z.eqb lb c = obuf_add Z Z.eqb lb b.
Proof.
  intros Hs Hsuf Hne [|v NA]; [reflexivity|].
  destruct (buf_step A lb b Hs Hsuf Hne) as (-> & _ & _).
  specialize (Hne NA). destruct Hsuf as [pre ->]. rewrite lastT_app by exact Hne.
  unfold obuf_add. destruct (rev lb) as [|[tb wb] q] eqn:E.
  - exfalso. apply Hne. apply (f_equal (@rev _)) in E. rewrite rev_involutive in E. exact E.
  - apply rev_eq_cons in E. rewrite E. unfold lastT. rewrite last_last. cbn [fst]. rewrite Z.eqb_refl. reflexivity.
Qed.

Lemma bin_update_step_rep A B st O b1 b2 c1 c2 :
  RInv A B st O -> dsorted (A ++ b1) -> dsorted (B ++ b2) -> batch_of A b1 c1 -> batch_of B b2 c2 ->
  exists st' o, bin_update f st c1 c2 = Some (st', o) /\ RInv (A ++ b1) (B ++ b2) st' (O ++ o).
Proof.
  intros R SA SB H1 H2. destruct (bin_update_step A B st O b1 b2 R SA SB) as (st' & o & E & R').
  exists st', o. split; [|exact R']. rewrite <- E. unfold bin_update, bin_update_g.
  rewrite (obuf_add_batch A (lbuf st) b1 c1 SA (ri_suf1 _ _ _ _ R) (ri_ne1 _ _ _ _ R) H1).
  rewrite (obuf_add_batch B (rbuf st) b2 c2 SB (ri_suf2 _ _ _ _ R) (ri_ne2 _ _ _ _ R) H2).
  reflexivity.
Qed.

(* feeding the batches bs after A and B have been sent delivers exactly s1 and s2 *)
Fixpoint feeds (A B : dsig) (bs : list (dsig * dsig)) (s1 s2 : dsig) : Prop :=
  match bs with
  | [] => A = s1 /\ B = s2
  | (c1, c2) :: bs' =>
      exists b1 b2, batch_of A b1 c1 /\ batch_of B b2 c2 /\ feeds (A ++ b1) (B ++ b2) bs' s1 s2
  end.

Lemma feeds_prefix : forall bs A B s1 s2, feeds A B bs s1 s2 -> (exists q, s1 = A ++ q) /\ (exists q, s2 = B ++ q).
Proof.
  induction bs as [|[c1 c2] bs IH]; intros A B s1 s2 H.
  - destruct H as [-> ->]. split; exists []; rewrite app_nil_r; reflexivity.
  - destruct H as (b1 & b2 & _ & _ & H). destruct (IH _ _ _ _ H) as [[q1 ->] [q2 ->]].
    split; [exists (b1 ++ q1)|exists (b2 ++ q2)]; rewrite app_assoc; reflexivity.
Qed.

Lemma feeds_concat : forall bs A B, feeds A B bs (A ++ concat (map fst bs)) (B ++ concat (map snd bs)).
Proof.
  induction bs as [|[b1 b2] bs IH]; intros A B.
  - cbn [map concat feeds]. rewrite !app_nil_r. split; reflexivity.
  - cbn [map concat feeds fst snd]. exists b1, b2. split; [constructor|]. split; [constructor|].
    rewrite !app_assoc. apply IH.
Qed.

Lemma bin_run_inv_rep s1 s2 : dsorted s1 -> dsorted s2 -> forall bs A B st O,
  RInv A B st O -> feeds A B bs s1 s2 ->
  exists st' outs, bin_run f st bs = Some (st', outs) /\ RInv s1 s2 st' (O ++ concat outs).
Proof.
  intros S1 S2. induction bs as [|[c1 c2] bs IH]; intros A B st O R H.
  - destruct H as [<- <-]. exists st, []. split; [reflexivity|]. cbn [concat]. rewrite app_nil_r. exact R.
  - destruct H as (b1 & b2 & H1 & H2 & H).
    destruct (feeds_prefix _ _ _ _ _ H) as [[q1 E1] [q2 E2]].
    assert (SA : dsorted (A ++ b1)) by (apply (dsorted_app_l _ q1); rewrite <- E1; exact S1).
    assert (SB : dsorted (B ++ b2)) by (apply (dsorted_app_l _ q2); rewrite <- E2; exact S2).
    destruct (bin_update_step_rep A B st O b1 b2 c1 c2 R SA SB H1 H2) as (st1 & o & E & R1).
    destruct (IH _ _ _ _ R1 H) as (st2 & outs & Er & R2).
    exists st2, (o :: outs). split.
    + unfold bin_run in *. cbn [bin_run_g]. unfold bin_update in E. rewrite E, Er. reflexivity.
    + cbn [concat]. rewrite app_assoc. exact R2.
Qed.

Theorem bin_run_correct_rep s1 s2 bs :
  dsorted s1 -> dsorted s2 -> s1 <> [] -> s2 <> [] -> feeds [] [] bs s1 s2 ->
  let F := Z.min (lastT s1) (lastT s2) in
  let t0 := Z.max (start s1) (start s2) in
  exists st outs,
    bin_run f ostate0 bs = Some (st, outs) /\
    wsorted (concat outs) /\
    (forall a v, In (a, v) (concat outs) -> t0 <= a <= F) /\
    (forall t, t0 <= t <= F -> den_opt (concat outs) t = Some (f (den s1 t) (den s2 t))).
Proof.
  intros S1 S2 N1 N2 H F t0.
  destruct (bin_run_inv_rep s1 s2 S1 S2 bs [] [] ostate0 [] rinv_init H) as (st & outs & E & R).
  cbn [app] in R. exists st, outs. split; [exact E|].
  split; [exact (ri_ws _ _ _ _ R)|]. split; [exact (ri_within _ _ _ _ R)|exact (ri_val _ _ _ _ R N1 N2)].
Qed.

End Refinement.
