(* ExtZ.v — executable instance of Val: integers with two infinities, and an
   executable Arith that agrees with Python float arithmetic wherever the
   latter is exact on integer-valued floats (the [ok1]/[ok2] domain); outside
   that domain the value is a placeholder and the harness drops the case. *)
From Coq Require Import ZArith List Bool Lia.
From RV Require Import Val.
Import ListNotations.
Local Open Scope Z_scope.

Inductive extz := NegInf | Fin (z : Z) | PosInf.

Definition ez_leb (x y : extz) : bool :=
  match x, y with
  | NegInf, _ => true
  | _, PosInf => true
  | Fin a, Fin b => a <=? b
  | _, _ => false
  end.
Definition ez_neg (x : extz) : extz :=
  match x with NegInf => PosInf | PosInf => NegInf | Fin a => Fin (- a) end.

#[export,refine] Instance ExtZVal : Val := {|
  V := extz; leb := ez_leb; neg := ez_neg; top := PosInf; bot := NegInf |}.
Proof.
  all: try solve [ intros [|a|]; simpl; try reflexivity; lia ].
  - intros [|a|] [|b|] [|c|]; simpl; try reflexivity; try discriminate; lia.
  - intros [|a|] [|b|]; simpl; try reflexivity; try discriminate.
    intros H1 H2. f_equal. lia.
  - intros [|a|] [|b|]; simpl; auto. lia.
  - intros [|a|]; simpl; try reflexivity. f_equal. lia.
  - intros [|a|] [|b|]; simpl; try reflexivity; try discriminate. lia.
Defined.

Definition ez_add (x y : extz) : extz :=
  match x, y with
  | Fin a, Fin b => Fin (a + b)
  | PosInf, NegInf | NegInf, PosInf => Fin 0   (* nan *)
  | PosInf, _ | _, PosInf => PosInf
  | NegInf, _ | _, NegInf => NegInf
  end.
Definition ez_sign (x : extz) : Z :=
  match x with NegInf => -1 | PosInf => 1 | Fin a => Z.sgn a end.
Definition ez_mul (x y : extz) : extz :=
  match x, y with
  | Fin a, Fin b => Fin (a * b)
  | _, _ => match ez_sign x * ez_sign y with
            | Zpos _ => PosInf | Zneg _ => NegInf | Z0 => Fin 0 (* nan *) end
  end.
Definition ez_div (x y : extz) : extz :=
  match x, y with
  | Fin a, Fin b => Fin (a / b)
  | Fin _, _ => Fin 0
  | _, Fin b => match ez_sign x * Z.sgn b with
                | Zpos _ => PosInf | Zneg _ => NegInf | Z0 => Fin 0 end
  | _, _ => Fin 0 (* nan *)
  end.
Definition ez_abs (x : extz) : extz :=
  match x with Fin a => Fin (Z.abs a) | _ => PosInf end.

Definition big : Z := 1125899906842624. (* 2^50: keep float arithmetic exact *)
Definition small (x : extz) : bool :=
  match x with Fin a => Z.abs a <? big | _ => true end.

Definition ez_a1 (o : aop1) (x : extz) : extz :=
  match o with
  | Abs => ez_abs x
  | Neg => ez_neg x
  | Sqrt => match x with Fin a => Fin (Z.sqrt a) | PosInf => PosInf | NegInf => Fin 0 end
  | Exp => match x with Fin a => if 710 <=? a then PosInf else if a <=? -746 then Fin 0 else Fin 1 | PosInf => PosInf | NegInf => Fin 0 end
  | Ln => match x with Fin _ => Fin 0 | PosInf => PosInf | NegInf => Fin 0 end
  end.
Definition ez_ok1 (o : aop1) (x : extz) : bool :=
  match o with
  | Abs | Neg => true
  | Sqrt => match x with Fin a => (0 <=? a) && (Z.sqrt a * Z.sqrt a =? a) | PosInf => true | NegInf => false end
  | Exp => match x with Fin a => (a =? 0) || (710 <=? a) || (a <=? -746) | _ => true end   (* float exp: 1 at 0, +inf from 710 on (saturating), 0.0 below -745.2 *)
  | Ln => match x with Fin a => a =? 1 | PosInf => true | NegInf => false end
  end.

Definition ez_a2 (o : aop2) (x y : extz) : extz :=
  match o with
  | Add => ez_add x y
  | Sub => ez_add x (ez_neg y)
  | Mul => ez_mul x y
  | Div => ez_div x y
  | Pow => match x, y with Fin a, Fin b => Fin (a ^ b) | _, _ => Fin 0 end
  | Log => Fin 0
  end.
Definition ez_ok2 (o : aop2) (x y : extz) : bool :=
  small (ez_a2 o x y) &&
  match o with
  | Add => match x, y with PosInf, NegInf | NegInf, PosInf => false | _, _ => true end
  | Sub => match x, y with PosInf, PosInf | NegInf, NegInf => false | _, _ => true end
  | Mul => match x, y with
           | Fin _, Fin _ => true
           | _, _ => negb (ez_sign x * ez_sign y =? 0) end
  | Div => match x, y with
           | Fin a, Fin b => negb (b =? 0) && (a mod b =? 0)
           | Fin _, _ => true
           | _, Fin b => negb (b =? 0)
           | _, _ => false end
  | Pow => match x, y with Fin a, Fin b => (0 <=? b) && (b <=? 8) | _, _ => false end
  | Log => match x, y with Fin a, Fin b => (a =? 1) && (2 <=? b) | _, _ => false end
  end.

Definition ExtZArith : Arith ExtZVal := {| a1 := ez_a1; a2 := ez_a2; azero := Fin 0 |}.
