(* IA.v — interface-aware semantics: how the node constructors propagate
   in_vars / out_vars, and the predicate override of the IA visitors /
   PredicateOperation, against the specification "mentions an input (output)
   variable". *)
From Coq Require Import List Bool Arith Lia.
From RV Require Import Val Syntax Rho.
Import ListNotations.

Inductive semantics := Standard | OutputRobustness | InputRobustness | OutputVacuity | InputVacuity.

Section IA.
Context {VS : Val}.
(* io x = true: variable x is declared 'input'; anything else counts as output
   (Variable.__init__: if iotype == 'input' then in_vars = [var] else out_vars = [var]) *)
Variable io : nat -> bool.

(* node.in_vars / node.out_vars as the constructors build them *)
Fixpoint in_vars_impl (p : formula) : list nat :=
  match p with
  | Var x => if io x then [x] else []
  | Const _ => []
  | A1 _ f | Not f | Rise f | Fall f | Prev f | SPrev f | Next f | SNext f
  | Once f | Hist f | Ev f | Alw f
  | OnceT _ _ f | HistT _ _ f | EvT _ _ f | AlwT _ _ f => in_vars_impl f
  | A2 _ f g | Pred _ f g | And f g | Or f g | Implies f g | Iff f g | Xor f g
  | Since f g | Until f g
  | SinceT _ _ f g | UntilT _ _ f g | Precedes _ _ f g => in_vars_impl f ++ in_vars_impl g
  end.
Fixpoint out_vars_impl (p : formula) : list nat :=
  match p with
  | Var x => if io x then [] else [x]
  | Const _ => []
  | A1 _ f | Not f | Rise f | Fall f | Prev f | SPrev f | Next f | SNext f
  | Once f | Hist f | Ev f | Alw f
  | OnceT _ _ f | HistT _ _ f | EvT _ _ f | AlwT _ _ f => out_vars_impl f
  | A2 _ f g | Pred _ f g | And f g | Or f g | Implies f g | Iff f g | Xor f g
  | Since f g | Until f g
  | SinceT _ _ f g | UntilT _ _ f g | Precedes _ _ f g => out_vars_impl f ++ out_vars_impl g
  end.

(* specification: does a variable of the given kind occur in p *)
Fixpoint occurs (k : nat -> bool) (p : formula) : bool :=
  match p with
  | Var x => k x
  | Const _ => false
  | A1 _ f | Not f | Rise f | Fall f | Prev f | SPrev f | Next f | SNext f
  | Once f | Hist f | Ev f | Alw f
  | OnceT _ _ f | HistT _ _ f | EvT _ _ f | AlwT _ _ f => occurs k f
  | A2 _ f g | Pred _ f g | And f g | Or f g | Implies f g | Iff f g | Xor f g
  | Since f g | Until f g
  | SinceT _ _ f g | UntilT _ _ f g | Precedes _ _ f g => occurs k f || occurs k g
  end.

Definition is_nil {A} (l : list A) : bool := match l with [] => true | _ => false end.

Lemma is_nil_app {A} (l1 l2 : list A) : is_nil (l1 ++ l2) = is_nil l1 && is_nil l2.
Proof. destruct l1; reflexivity. Qed.

Lemma in_vars_spec p : is_nil (in_vars_impl p) = negb (occurs io p).
Proof.
  induction p; simpl; try reflexivity; try assumption;
  try (rewrite is_nil_app, IHp1, IHp2, negb_orb; reflexivity).
  destruct (io x); reflexivity.
Qed.
Lemma out_vars_spec p : is_nil (out_vars_impl p) = negb (occurs (fun x => negb (io x)) p).
Proof.
  induction p; simpl; try reflexivity; try assumption;
  try (rewrite is_nil_app, IHp1, IHp2, negb_orb; reflexivity).
  destruct (io x); reflexivity.
Qed.

(* the override of the IA visitPredicate / PredicateOperation.update *)
Definition pk_impl (sem : semantics) (f g : formula) : pkind :=
  match sem with
  | Standard => PStd
  | OutputRobustness => if is_nil (out_vars_impl f ++ out_vars_impl g) then PBool else PStd
  | InputRobustness => if is_nil (in_vars_impl f ++ in_vars_impl g) then PBool else PStd
  | OutputVacuity => if is_nil (out_vars_impl f ++ out_vars_impl g) then PVac else PStd
  | InputVacuity => if is_nil (in_vars_impl f ++ in_vars_impl g) then PVac else PStd
  end.

(* the property's definition: a predicate that mentions no output (input)
   variable is insensitive *)
Definition pk_spec (sem : semantics) (f g : formula) : pkind :=
  let no_out := negb (occurs (fun x => negb (io x)) f || occurs (fun x => negb (io x)) g) in
  let no_in := negb (occurs io f || occurs io g) in
  match sem with
  | Standard => PStd
  | OutputRobustness => if no_out then PBool else PStd
  | InputRobustness => if no_in then PBool else PStd
  | OutputVacuity => if no_out then PVac else PStd
  | InputVacuity => if no_in then PVac else PStd
  end.

Theorem pk_impl_spec sem f g : pk_impl sem f g = pk_spec sem f g.
Proof.
  unfold pk_impl, pk_spec. destruct sem; try reflexivity;
  rewrite is_nil_app, ?in_vars_spec, ?out_vars_spec, <- negb_orb; reflexivity.
Qed.

End IA.

Section PkExt.
Context {VS : Val} (AR : Arith VS).

Lemma rho_pk_ext (pk1 pk2 : formula -> formula -> pkind) :
  (forall f g, pk1 f g = pk2 f g) ->
  forall p w n t, rho AR pk1 p w n t = rho AR pk2 p w n t.
Proof.
  intros H. induction p; intros w n t; cbn [rho]; rewrite ?H;
  repeat first
    [ reflexivity
    | rewrite IHp | rewrite IHp1 | rewrite IHp2
    | match goal with
      | |- context [match ?t with 0 => _ | S _ => _ end] => destruct t
      | |- context [if ?c then _ else _] => destruct c
      end
    | apply wmax_ext; intros ? ?
    | apply wmin_ext; intros ? ?
    | apply rmin_ext; intros ? ?
    | f_equal ].
Qed.
End PkExt.
