(* Rho.v — the specification layer: the README's inductive robustness
   rho(phi,w,t) for discrete time, with the boundary conventions the suite
   pins (prev/next weak, s_prev/s_next strong), parametric in the predicate
   semantics (standard / interface-aware). *)
From Coq Require Import List Bool Arith Lia.
From RV Require Import Val Syntax.
Import ListNotations.

(* how a predicate node contributes: numerically, as +-inf by satisfaction,
   or as 0 (vacuity) *)
Inductive pkind := PStd | PBool | PVac.

Section Rho.
Context {VS : Val} (AR : Arith VS).

Definition pred_std (c : cmp) (l r : V) : V :=
  match c with
  | CLeq | CLt => a2 AR Sub r l
  | CGeq | CGt => a2 AR Sub l r
  | CEq => neg (a1 AR Abs (a2 AR Sub l r))
  | CNeq => a1 AR Abs (a2 AR Sub l r)
  end.

Definition pred_sat (c : cmp) (l r : V) : bool :=
  match c with
  | CLeq => leb l r | CLt => ltb l r
  | CGeq => leb r l | CGt => ltb r l
  | CEq => veqb l r | CNeq => negb (veqb l r)
  end.

Definition pred_val (k : pkind) (c : cmp) (l r : V) : V :=
  match k with
  | PStd => pred_std c l r
  | PBool => if pred_sat c l r then top else bot
  | PVac => azero AR
  end.

(* a data set: one column (list of samples) per variable index *)
Definition trace := list (list V).
Definition sig (w : trace) (x t : nat) : V := nth t (nth x w []) bot.

Variable pk : formula -> formula -> pkind.

(* n = number of samples *)
Fixpoint rho (p : formula) (w : trace) (n t : nat) {struct p} : V :=
  match p with
  | Var x => sig w x t
  | Const c => c
  | A1 o f => a1 AR o (rho f w n t)
  | A2 o f g => a2 AR o (rho f w n t) (rho g w n t)
  | Pred c f g => pred_val (pk f g) c (rho f w n t) (rho g w n t)
  | Not f => neg (rho f w n t)
  | And f g => vmin (rho f w n t) (rho g w n t)
  | Or f g => vmax (rho f w n t) (rho g w n t)
  | Implies f g => vmax (neg (rho f w n t)) (rho g w n t)
  | Iff f g => neg (a1 AR Abs (a2 AR Sub (rho f w n t) (rho g w n t)))
  | Xor f g => a1 AR Abs (a2 AR Sub (rho f w n t) (rho g w n t))
  | Rise f => vmin (neg (match t with 0 => bot | S t' => rho f w n t' end)) (rho f w n t)
  | Fall f => vmin (match t with 0 => top | S t' => rho f w n t' end) (neg (rho f w n t))
  | Prev f => match t with 0 => top | S t' => rho f w n t' end
  | SPrev f => match t with 0 => bot | S t' => rho f w n t' end
  | Next f => if S t <? n then rho f w n (S t) else top
  | SNext f => if S t <? n then rho f w n (S t) else bot
  | Once f => wmax (rho f w n) 0 t
  | Hist f => wmin (rho f w n) 0 t
  | Since f g => wmax (fun t' => vmin (rho g w n t') (wmin (rho f w n) (S t') t)) 0 t
  | Ev f => wmax (rho f w n) t (n - 1)
  | Alw f => wmin (rho f w n) t (n - 1)
  | Until f g => wmax (fun t' => vmin (rho g w n t') (rmin (rho f w n) t (t' - t))) t (n - 1)
  | OnceT b e f => if t <? b then bot else wmax (rho f w n) (t - e) (t - b)
  | HistT b e f => if t <? b then top else wmin (rho f w n) (t - e) (t - b)
  | SinceT b e f g =>
      if t <? b then bot
      else wmax (fun t' => vmin (rho g w n t') (wmin (rho f w n) (S t') t)) (t - e) (t - b)
  | EvT b e f => if n <=? t + b then bot else wmax (rho f w n) (t + b) (Nat.min (t + e) (n - 1))
  | AlwT b e f => if n <=? t + b then top else wmin (rho f w n) (t + b) (Nat.min (t + e) (n - 1))
  | UntilT b e f g =>
      if n <=? t + b then bot
      else wmax (fun t' => vmin (rho g w n t') (rmin (rho f w n) t (t' - t)))
                (t + b) (Nat.min (t + e) (n - 1))
  | Precedes b e f g =>
      (* until[b,e] evaluated at t - e on the samples seen so far, with
         f = top and g = bot before time 0; k = index into [t-e, t] *)
      wmax (fun k => vmin (if k + t <? e then bot else rho g w n (k + t - e))
                          (rmin (fun j => if j + t <? e then top else rho f w n (j + t - e)) 0 k))
           b e
  end.

End Rho.
