(* Dense.v — dense-time specification layer: piecewise-constant signals as
   sample lists (time in ticks of an arbitrarily fine grid, Z), their
   denotation as right-continuous step functions (last value held), and a
   naive compositional evaluator of the dense-time STL semantics (closed
   intervals, non-strict since/until, finitary interpretation). *)
From Coq Require Import List Bool Arith ZArith Lia.
From RV Require Import Val Syntax Rho Online.
Import ListNotations.
Local Open Scope Z_scope.

Section Dense.
Context {VS : Val} (AR : Arith VS).
Variable pk : formula -> formula -> pkind.

Definition dsig := list (Z * V).

(* value at time t: the last sample whose time-stamp is <= t *)
Fixpoint den_opt (s : dsig) (t : Z) : option V :=
  match s with
  | [] => None
  | (ti, vi) :: r =>
      if ti <=? t then match den_opt r t with Some v => Some v | None => Some vi end else None
  end.
Definition den (s : dsig) (t : Z) : V := match den_opt s t with Some v => v | None => bot end.

Definition start (s : dsig) : Z := match s with (t, _) :: _ => t | [] => 0 end.
Definition times (s : dsig) : list Z := map fst s.

(* pieces [lo, hi) of constant value; the last one extends to +infinity (hi = None) *)
Fixpoint pieces (s : dsig) : list (Z * option Z * V) :=
  match s with
  | [] => []
  | (t, v) :: r => (t, match r with (t', _) :: _ => Some t' | [] => None end, v) :: pieces r
  end.

(* values of the pieces that intersect the closed window [lo, hi] *)
Definition win_vals (s : dsig) (lo hi : Z) : list V :=
  if hi <? lo then []
  else map (fun p => snd p)
           (filter (fun p => let '(a, b, _) := p in (a <=? hi) && match b with Some b' => lo <? b' | None => true end) (pieces s)).

Fixpoint insert (x : Z) (l : list Z) : list Z :=
  match l with
  | [] => [x]
  | y :: r => if x <? y then x :: l else if x =? y then l else y :: insert x r
  end.
Definition sort_nodup (l : list Z) : list Z := fold_right insert [] l.

Definition veq (x y : V) : bool := if v_eq_dec x y then true else false.
Fixpoint compress (s : dsig) : dsig :=
  match s with
  | [] => []
  | (t, v) :: r =>
      match compress r with
      | (t', v') :: r' => if veq v v' then (t, v) :: r' else (t, v) :: (t', v') :: r'
      | [] => [(t, v)]
      end
  end.

(* candidate break-points of the result: t0 and every input break-point shifted by the given amounts, from t0 on *)
Definition cands (base : list Z) (shifts : list Z) (t0 : Z) : list Z :=
  sort_nodup (t0 :: filter (fun x => t0 <=? x) (flat_map (fun t => map (fun sh => t + sh) shifts) base)).

Definition pointwise2 (f : V -> V -> V) (a b : dsig) : dsig :=
  match a, b with
  | [], _ | _, [] => []
  | _, _ =>
    let t0 := Z.max (start a) (start b) in
    let cs := cands (times a ++ times b) [0] t0 in
    map (fun c => (c, f (den a c) (den b c))) cs
  end.

(* min of the left operand over the segments j..k of the common refinement, etc.: unbounded since/until *)
Definition seg_since (a b : dsig) : dsig :=
  match a, b with
  | [], _ | _, [] => []
  | _, _ =>
    let t0 := Z.max (start a) (start b) in
    let cs := cands (times a ++ times b) [0] t0 in
    map (fun c =>
           (c, maxl (map (fun c' => vmin (den b c') (minl (map (den a) (filter (fun x => (c' <=? x) && (x <=? c)) cs))))
                         (filter (fun x => x <=? c) cs)))) cs
  end.
Definition seg_until (a b : dsig) : dsig :=
  match a, b with
  | [], _ | _, [] => []
  | _, _ =>
    let t0 := Z.max (start a) (start b) in
    let cs := cands (times a ++ times b) [0] t0 in
    map (fun c =>
           (c, maxl (map (fun c' => vmin (den b c') (minl (map (den a) (filter (fun x => (c <=? x) && (x <=? c')) cs))))
                         (filter (fun x => c <=? x) cs)))) cs
  end.

Definition zb (n : nat) : Z := Z.of_nat n.

Fixpoint Dn (p : formula) (W : list dsig) {struct p} : dsig :=
  match p with
  | Var x => nth x W []
  | Const c => [(0, c)]
  | A1 o f => map (fun s => (fst s, a1 AR o (snd s))) (Dn f W)
  | Not f => map (fun s => (fst s, neg (snd s))) (Dn f W)
  | A2 o f g => pointwise2 (a2 AR o) (Dn f W) (Dn g W)
  | Pred c f g => pointwise2 (pred_val AR (pk f g) c) (Dn f W) (Dn g W)
  | And f g => pointwise2 vmin (Dn f W) (Dn g W)
  | Or f g => pointwise2 vmax (Dn f W) (Dn g W)
  | Implies f g => pointwise2 (fun l r => vmax (neg l) r) (Dn f W) (Dn g W)
  | Iff f g => pointwise2 (fun l r => neg (a1 AR Abs (a2 AR Sub l r))) (Dn f W) (Dn g W)
  | Xor f g => pointwise2 (fun l r => a1 AR Abs (a2 AR Sub l r)) (Dn f W) (Dn g W)
  | Once f => let s := Dn f W in map (fun c => (c, maxl (win_vals s (start s) c))) (times s)
  | Hist f => let s := Dn f W in map (fun c => (c, minl (win_vals s (start s) c))) (times s)
  | Ev f => let s := Dn f W in map (fun c => (c, maxl (map snd (filter (fun q => c <=? fst q) s) ++ [den s c]))) (times s)
  | Alw f => let s := Dn f W in map (fun c => (c, minl (map snd (filter (fun q => c <=? fst q) s) ++ [den s c]))) (times s)
  | Since f g => seg_since (Dn f W) (Dn g W)
  | Until f g => seg_until (Dn f W) (Dn g W)
  | OnceT b e f =>
      let s := Dn f W in
      match s with [] => [] | _ =>
      let t0 := start s in
      map (fun c => (c, if c - zb b <? t0 then bot else maxl (win_vals s (Z.max (c - zb e) t0) (c - zb b))))
          (cands (times s) [zb b; zb e] t0) end
  | HistT b e f =>
      let s := Dn f W in
      match s with [] => [] | _ =>
      let t0 := start s in
      map (fun c => (c, if c - zb b <? t0 then top else minl (win_vals s (Z.max (c - zb e) t0) (c - zb b))))
          (cands (times s) [zb b; zb e] t0) end
  | EvT b e f =>
      let s := Dn f W in
      match s with [] => [] | _ =>
      let t0 := start s in
      map (fun c => (c, maxl (win_vals s (c + zb b) (c + zb e)))) (cands (times s) [- zb b; - zb e] t0) end
  | AlwT b e f =>
      let s := Dn f W in
      match s with [] => [] | _ =>
      let t0 := start s in
      map (fun c => (c, minl (win_vals s (c + zb b) (c + zb e)))) (cands (times s) [- zb b; - zb e] t0) end
  | SinceT b e f g =>
      let x := Dn f W in let y := Dn g W in
      match x, y with [], _ | _, [] => [] | _, _ =>
      let t0 := Z.max (start x) (start y) in
      let base := sort_nodup (times x ++ times y) in
      map (fun c =>
             (c, let lo := Z.max (c - zb e) t0 in let hi := c - zb b in
                 if hi <? t0 then bot
                 else maxl (map (fun tp => vmin (den y tp) (minl (win_vals x tp c)))
                                (sort_nodup (lo :: hi :: filter (fun t => (lo <=? t) && (t <=? hi)) base)))))
          (cands base [0; zb b; zb e] t0) end
  | UntilT b e f g =>
      let x := Dn f W in let y := Dn g W in
      match x, y with [], _ | _, [] => [] | _, _ =>
      let t0 := Z.max (start x) (start y) in
      let base := sort_nodup (times x ++ times y) in
      map (fun c =>
             (c, let lo := c + zb b in let hi := c + zb e in
                 maxl (map (fun tp => vmin (den y tp) (minl (win_vals x c tp)))
                           (sort_nodup (lo :: hi :: filter (fun t => (lo <=? t) && (t <=? hi)) base)))))
          (cands base [0; - zb b; - zb e] t0) end
  | _ => []    (* prev / next / rise / fall / precedes: no dense-time meaning *)
  end.

End Dense.
