(* MergeGenCorrect.v — the definitions that tools/py2coq_merge.py generates from the two intersection.py files (MergeGen.v) are the
   hand models on which C04 / C05 are stated:
     gen_off_append = DenseMergeG.append_g,   gen_on_append = DenseOnlineMerge.oappend
     gen_off_intersection (stamps tz, on the injected sample lists)  =  DenseMergeG.isect_g   (and DenseMerge.isect for B = V)
     gen_on_intersection  (any type of stamps)                       =  DenseOnlineMerge.oisect_g
     gen_off_m_M = the function DenseVisitor.deval_pk hands to isect
   together with the proof that the fuel the translator allots to the loops suffices: the main loops never give NoFuel; the two
   tail loops of the online function give NoFuel exactly where the hand model answers None because no branch of the (else-less)
   if-chain applies, which cannot happen when < and == on stamps are trichotomous.
   This file is re-checked against the regenerated text on every build. *)
From Coq Require Import List Bool Arith ZArith Lia.
From RV Require Import Val Syntax Rho Online Dense DenseMerge DenseMergeG DenseMergeCorrect DenseOnlineMerge DenseEval PySem PyDense PyMerge MergeGen.
Import ListNotations.
Local Open Scope Z_scope.

(* ------------------------------------------------------------------ *)
(* the list primitives on the shapes the functions use                 *)
(* ------------------------------------------------------------------ *)
Section Prims.
Context {A : Type}.

Lemma mg_get_0 (l : list A) : py_get l 0 = match l with x :: _ => Some x | [] => None end.
Proof.
  destruct l as [|x r]; [reflexivity|].
  unfold py_get, py_len. cbn [length]. rewrite Nat2Z.inj_succ.
  replace (0 <? 0) with false by reflexivity. cbn [Z.leb Z.compare andb].
  destruct (0 <? Z.succ (Z.of_nat (length r))) eqn:E; [reflexivity|].
  apply Z.ltb_ge in E. lia.
Qed.

Lemma mg_get_1 (x y : A) (l : list A) : py_get (x :: y :: l) 1 = Some y.
Proof.
  unfold py_get, py_len. cbn [length]. rewrite !Nat2Z.inj_succ.
  replace (1 <? 0) with false by reflexivity. replace (0 <=? 1) with true by reflexivity. cbn [andb].
  destruct (1 <? Z.succ (Z.succ (Z.of_nat (length l)))) eqn:E; [reflexivity|].
  apply Z.ltb_ge in E. lia.
Qed.

Lemma mg_get_m1 (l : list A) : py_get l (- 1) = match rev l with x :: _ => Some x | [] => None end.
Proof.
  destruct (rev l) as [|x r] eqn:E.
  - apply (f_equal (@rev A)) in E. rewrite rev_involutive in E. subst l. reflexivity.
  - apply (f_equal (@rev A)) in E. rewrite rev_involutive in E. cbn [rev] in E. subst l.
    unfold py_get, py_len. rewrite app_length. cbn [length]. rewrite Nat.add_1_r, Nat2Z.inj_succ.
    replace (-1 <? 0) with true by reflexivity.
    replace (-1 + Z.succ (Z.of_nat (length (rev r)))) with (Z.of_nat (length (rev r))) by lia.
    destruct (0 <=? Z.of_nat (length (rev r))) eqn:E1; [|apply Z.leb_gt in E1; lia].
    destruct (Z.of_nat (length (rev r)) <? Z.succ (Z.of_nat (length (rev r)))) eqn:E2; [|apply Z.ltb_ge in E2; lia].
    cbn [andb]. rewrite Nat2Z.id, nth_error_app2 by lia. rewrite Nat.sub_diag. reflexivity.
Qed.

Lemma mg_slice_1 (l : list A) : py_slice l (Some 1) None = tl l.
Proof.
  destruct l as [|x r]; [reflexivity|].
  unfold py_slice, py_len, py_clip. cbn [length]. rewrite Nat2Z.inj_succ.
  replace (1 <? 0) with false by reflexivity.
  rewrite Z.min_l by lia. replace (Z.to_nat 1) with 1%nat by reflexivity. cbn [skipn tl].
  replace (Z.to_nat (Z.succ (Z.of_nat (length r)) - 1)) with (length r) by lia.
  apply firstn_all.
Qed.

(* `if l[1:]` *)
Lemma mg_tail_truthy (l : list A) : py_truthy (py_slice l (Some 1) None) = match l with _ :: _ :: _ => true | _ => false end.
Proof. rewrite mg_slice_1. destruct l as [|x [|y r]]; reflexivity. Qed.

Lemma mg_len_gt1 (l : list A) : (py_len l >? 1) = match l with _ :: _ :: _ => true | _ => false end.
Proof.
  unfold py_len. destruct l as [|x [|y r]]; try reflexivity.
  cbn [length]. rewrite !Nat2Z.inj_succ. rewrite Z.gtb_ltb. apply Z.ltb_lt. lia.
Qed.

Lemma mg_len_0 (l : list A) : (py_len l =? 0) = match l with [] => true | _ => false end.
Proof.
  unfold py_len. destruct l as [|x r]; [reflexivity|].
  cbn [length]. rewrite Nat2Z.inj_succ. apply Z.eqb_neq. lia.
Qed.

Lemma mg_truthy_rev (l : list A) : py_truthy l = match rev l with [] => false | _ => true end.
Proof.
  destruct l as [|x r]; [reflexivity|]. cbn [py_truthy rev].
  destruct (rev r ++ [x]) eqn:E; [|reflexivity]. apply app_eq_nil in E. destruct E; discriminate.
Qed.

Lemma mg_rev_last (l : list A) (z d : A) (q : list A) : rev l = z :: q -> last l d = z.
Proof.
  intros E. apply (f_equal (@rev A)) in E. rewrite rev_involutive in E. cbn [rev] in E. subst l. apply last_last.
Qed.

(* a loop body that changes nothing and does not break *)
Lemma py_while_r_spin {St : Type} (C : St -> bool) (Bd : St -> res (St * bool)) (s : St) :
  C s = true -> Bd s = Ok (s, false) -> forall fuel, py_while_r fuel C Bd s = NoFuel.
Proof. intros HC HB fuel. induction fuel as [|n IH]; cbn [py_while_r]; rewrite HC; [reflexivity|]. rewrite HB. exact IH. Qed.
End Prims.

(* ------------------------------------------------------------------ *)
(* _append                                                             *)
(* ------------------------------------------------------------------ *)
Section Append.
Context {VS : Val}.
Variable T B : Type.
Variable beq : B -> B -> bool.

Definition append_spec (out : list (T * B)) (item : T * B) : list (T * B) :=
  match rev out with
  | [] => [item]
  | (_, pv) :: _ => if beq pv (snd item) then out else out ++ [item]
  end.

Lemma gen_off_append_spec out item : gen_off_append T B beq out item = Ok (append_spec out item).
Proof.
  unfold gen_off_append, append_spec. rewrite mg_truthy_rev, mg_get_m1.
  destruct (rev out) as [|[t pv] r] eqn:E.
  - apply (f_equal (@rev _)) in E. rewrite rev_involutive in E. subst out. reflexivity.
  - cbn [negb rlift snd]. destruct (beq pv (snd item)); reflexivity.
Qed.

Lemma gen_on_append_spec out item : gen_on_append T B beq out item = Ok (append_spec out item).
Proof.
  unfold gen_on_append, append_spec. rewrite mg_truthy_rev, mg_get_m1.
  destruct (rev out) as [|[t pv] r] eqn:E.
  - apply (f_equal (@rev _)) in E. rewrite rev_involutive in E. subst out. reflexivity.
  - cbn [negb rlift snd]. destruct (beq pv (snd item)); reflexivity.
Qed.
End Append.

Lemma gen_off_append_ok {VS : Val} (B : Type) (beq : B -> B -> bool) out item :
  gen_off_append tz B beq out item = Ok (append_g B beq out item).
Proof. apply gen_off_append_spec. Qed.

Lemma gen_on_append_ok {VS : Val} (T : Type) out item :
  gen_on_append T V veq out item = Ok (oappend T out item).
Proof. apply gen_on_append_spec. Qed.

(* ------------------------------------------------------------------ *)
(* offline intersection()                                              *)
(* ------------------------------------------------------------------ *)
Ltac dc c := destruct c eqn:?; cbv beta iota zeta; [try reflexivity|].

Section Off.
Context {VS : Val}.
Variable B : Type.
Variable beq : B -> B -> bool.
Variable f : V -> V -> B.

(* the loop state of the generated function: in_samples_1, in_samples_2, out_samples, prev_in_sample_1, prev_in_sample_2 *)
Notation ost := (list (tz * V) * list (tz * V) * list (tz * B) * (tz * V) * (tz * V))%type.

(* one iteration, as the hand model isect_loop_g performs it *)
Definition off_next (p1 : tz) (v1 : V) (c1 : tz) (w1 : V) (r1 : list (tz * V)) (p2 : tz) (v2 : V) (c2 : tz) (w2 : V) (r2 : list (tz * V))
    (out : list (tz * B)) : res (ost * bool) :=
  let l1 := (p1, v1) :: (c1, w1) :: r1 in let l1' := (c1, w1) :: r1 in
  let l2 := (p2, v2) :: (c2, w2) :: r2 in let l2' := (c2, w2) :: r2 in
  match decide p1 c1 p2 c2 with
  | Pop1 => Ok ((l1', l2, out, (c1, w1), (p2, v2)), false)
  | Pop2 => Ok ((l1, l2', out, (p1, v1), (c2, w2)), false)
  | Emit1 b => Ok ((l1', l2, append_g B beq out (if b then p2 else p1, f v1 v2), (c1, w1), (p2, v2)), false)
  | Emit2 b => Ok ((l1, l2', append_g B beq out (if b then p2 else p1, f v1 v2), (p1, v1), (c2, w2)), false)
  | Bad => Raise
  end.

Lemma off_loop (C : ost -> bool) (Bd : ost -> res (ost * bool)) :
  (forall l1 l2 out x1 x2, C (l1, l2, out, x1, x2) = match l1, l2 with _ :: _ :: _, _ :: _ :: _ => true | _, _ => false end) ->
  (forall p1 v1 c1 w1 r1 p2 v2 c2 w2 r2 out,
     Bd ((p1, v1) :: (c1, w1) :: r1, (p2, v2) :: (c2, w2) :: r2, out, (p1, v1), (p2, v2)) = off_next p1 v1 c1 w1 r1 p2 v2 c2 w2 r2 out) ->
  forall fuel fuel' x1 r1 x2 r2 out,
    (length (x1 :: r1) + length (x2 :: r2) <= fuel)%nat -> (length (x1 :: r1) + length (x2 :: r2) <= fuel')%nat ->
    rmap (fun s : ost => snd (fst (fst s))) (py_while_r fuel C Bd (x1 :: r1, x2 :: r2, out, x1, x2))
    = rlift (isect_loop_g B beq fuel' f (x1 :: r1) (x2 :: r2) out).
Proof.
  intros HC HB fuel. induction fuel as [|n IH]; intros fuel' x1 r1 x2 r2 out H1 H2; [cbn [length] in H1; lia|].
  destruct x1 as [p1 v1], x2 as [p2 v2].
  destruct r1 as [|[c1 w1] r1].
  { cbn [py_while_r]. rewrite HC. destruct fuel'; reflexivity. }
  destruct r2 as [|[c2 w2] r2].
  { cbn [py_while_r]. rewrite HC. destruct fuel'; reflexivity. }
  destruct fuel' as [|n']; [cbn [length] in H2; lia|].
  cbn [py_while_r isect_loop_g]. rewrite HC, HB. unfold off_next. cbn [length] in H1, H2.
  destruct (decide p1 c1 p2 c2); try (apply IH; cbn [length]; lia). reflexivity.
Qed.

(* the shapes of the injected lists *)
Lemma off_len0 (s : dsig) : (py_len (map inj s) =? 0) = match s with [] => true | _ => false end.
Proof. rewrite mg_len_0. destruct s; reflexivity. Qed.

Lemma off_get_last (a : Z * V) (r : dsig) :
  py_get (map inj (a :: r)) (- 1) = Some (T (fst (last (a :: r) (0, bot))), snd (last (a :: r) (0, bot))).
Proof.
  rewrite mg_get_m1, <- map_rev. destruct (rev (a :: r)) as [|z q] eqn:E.
  - apply (f_equal (@length _)) in E. rewrite rev_length in E. discriminate.
  - cbn [map]. rewrite (mg_rev_last _ _ (0, bot) _ E). reflexivity.
Qed.

Lemma extend_cons (a : Z * V) (r : dsig) : extend (a :: r) = inj a :: (map inj r ++ [(TInf, snd (last (a :: r) (0, bot)))]).
Proof. reflexivity. Qed.

Lemma extend_length (s : dsig) : s <> [] -> length (extend s) = S (length s).
Proof. intros H. rewrite extend_eq by exact H. rewrite app_length, map_length. cbn [length]. lia. Qed.

Theorem gen_off_intersection_ok (s1 s2 : dsig) :
  rmap (fun r => (finite_g B (fst (fst (fst r))), snd (fst (fst r))))
       (gen_off_intersection tz tlt teq TInf B beq f (map inj s1) (map inj s2))
  = rlift (option_map (fun o => (o, None)) (isect_g B beq f s1 s2)).
Proof.
  unfold gen_off_intersection. cbv zeta. rewrite !off_len0.
  destruct s1 as [|a1 r1]; [reflexivity|]. destruct s2 as [|a2 r2]; [reflexivity|].
  cbn [orb]. rewrite !(off_get_last a1 r1), !(off_get_last a2 r2). cbn [rlift fst snd tlt].
  change (map inj (a1 :: r1) ++ [(TInf, snd (last (a1 :: r1) (0, bot)))]) with (extend (a1 :: r1)).
  change (map inj (a2 :: r2) ++ [(TInf, snd (last (a2 :: r2) (0, bot)))]) with (extend (a2 :: r2)).
  unfold isect_g.
  assert (L1 := extend_length (a1 :: r1)). assert (L2 := extend_length (a2 :: r2)).
  rewrite !extend_cons in *. rewrite !mg_get_0. cbn [rlift].
  match goal with |- context [py_while_r ?fu ?C ?Bd (?x1 :: ?q1, ?x2 :: ?q2, ?o, _, _)] =>
    generalize (off_loop C Bd); intros HL;
    lapply HL; [clear HL; intros HL|];
    [lapply HL; [clear HL; intros HL; specialize (HL fu (length (a1 :: r1) + length (a2 :: r2) + 2)%nat x1 q1 x2 q2 o)|]|]
  end.
  - lapply HL; [clear HL; intros HL|lia].
    lapply HL; [clear HL; intros HL|rewrite L1, L2 by discriminate; lia].
    revert HL.
    match goal with |- context [py_while_r ?fu ?C ?Bd ?s] => destruct (py_while_r fu C Bd s) as [[[[[l1' l2'] out'] y1] y2]| |] end;
      cbn [rmap fst snd]; intros HL;
      match goal with |- context [isect_loop_g B beq ?n f ?a ?b ?o] => destruct (isect_loop_g B beq n f a b o) end;
      cbn [rlift option_map] in *; try discriminate; try reflexivity.
    inversion HL. reflexivity.
  - intros p1 v1 c1 w1 q1 p2 v2 c2 w2 q2 out. cbv beta. rewrite !mg_get_1. cbn [rlift py_pop0 fst snd].
    rewrite !gen_off_append_ok. unfold off_next, decide.
    dc (tlt c1 p2). dc (tlt p1 c1 && teq c1 p2 && tlt p2 c2). dc (tlt p1 p2 && tlt p2 c1 && tlt c1 c2).
    dc (tlt p1 p2 && tlt p2 c1 && teq c1 c2). dc (tlt p2 p1 && tlt p1 c1 && teq c1 c2). dc (tlt p1 p2 && tlt p2 c2 && tlt c2 c1).
    dc (teq p1 p2 && tlt p2 c2 && tlt c2 c1). dc (teq p1 p2 && tlt p2 c2 && teq c2 c1). dc (teq p1 p2 && tlt p2 c1 && tlt c1 c2).
    dc (tlt p2 p1 && tlt p1 c1 && tlt c1 c2). dc (tlt p2 c2 && teq c2 p1 && tlt p1 c1). dc (tlt p2 p1 && tlt p1 c2 && tlt c2 c1).
    dc (tlt c2 p1). reflexivity.
  - intros l1 l2 out x1 x2. cbv beta. rewrite !mg_tail_truthy.
    destruct l1 as [|? [|? ?]]; destruct l2 as [|? [|? ?]]; reflexivity.
Qed.
End Off.

(* B = V: the merge of the point-wise operators *)
Section OffV.
Context {VS : Val}.

Lemma isect_loop_g_veq : forall fuel (f : V -> V -> V) l1 l2 out, isect_loop_g V veq fuel f l1 l2 out = isect_loop fuel f l1 l2 out.
Proof.
  intros fuel f l1 l2 out. reflexivity.     (* the two fixpoints are convertible: append_g V veq is append_ *)
Qed.

Lemma isect_g_veq (f : V -> V -> V) s1 s2 : isect_g V veq f s1 s2 = isect f s1 s2.
Proof.
  unfold isect_g, isect. destruct s1 as [|a1 r1]; [reflexivity|]. destruct s2 as [|a2 r2]; [reflexivity|].
  rewrite isect_loop_g_veq. reflexivity.
Qed.

Theorem gen_off_intersection_isect (f : V -> V -> V) (s1 s2 : dsig) :
  rmap (fun r => (finite (fst (fst (fst r))), snd (fst (fst r))))
       (gen_off_intersection tz tlt teq TInf V veq f (map inj s1) (map inj s2))
  = rlift (option_map (fun o => (o, None)) (isect f s1 s2)).
Proof. rewrite <- isect_g_veq. exact (gen_off_intersection_ok V veq f s1 s2). Qed.

(* since / until: split *)
Theorem gen_off_intersection_split (s1 s2 : dsig) :
  rmap (fun r => (finite_g (V * V) (fst (fst (fst r))), snd (fst (fst r))))
       (gen_off_intersection tz tlt teq TInf (V * V) peq gen_off_m_split (map inj s1) (map inj s2))
  = rlift (option_map (fun o => (o, None)) (split_isect s1 s2)).
Proof. exact (gen_off_intersection_ok (V * V) peq gen_off_m_split s1 s2). Qed.
End OffV.

(* ------------------------------------------------------------------ *)
(* online intersection()                                               *)
(* ------------------------------------------------------------------ *)
Section On.
Context {VS : Val}.
Variable T : Type.
Variables tltb teqb : T -> T -> bool.
Variable f : V -> V -> V.

Notation gsig := (list (T * V)).
(* in_samples_1, in_samples_2, out_samples, last, prev_in_sample_1, prev_in_sample_2 *)
Notation nst := (gsig * gsig * gsig * option (T * V) * (T * V) * (T * V))%type.

(* the state of the hand model with the two variables prev_in_sample_i = in_samples_i[0] *)
Definition wrap (m : mstate T) : res (nst * bool) :=
  let '(l1, l2, out, last) := m in
  match l1, l2 with
  | y1 :: _, y2 :: _ => Ok ((l1, l2, out, last, y1, y2), false)
  | _, _ => Raise
  end.

Lemma ostep_shape p1 v1 c1 w1 r1 p2 v2 c2 w2 r2 out last l1' l2' out' last' :
  ostep T tltb teqb f p1 v1 c1 w1 r1 p2 v2 c2 w2 r2 out last = Some (l1', l2', out', last') ->
  (l1' = (c1, w1) :: r1 /\ l2' = (p2, v2) :: (c2, w2) :: r2) \/ (l1' = (p1, v1) :: (c1, w1) :: r1 /\ l2' = (c2, w2) :: r2).
Proof.
  unfold ostep. cbv zeta. intros H.
  repeat match type of H with (if ?c then _ else _) = _ => destruct c; [inversion H; subst; auto|] end.
  discriminate.
Qed.

Lemma on_main (C : nst -> bool) (Bd : nst -> res (nst * bool)) :
  (forall l1 l2 out last x1 x2, C (l1, l2, out, last, x1, x2) = match l1, l2 with _ :: _ :: _, _ :: _ :: _ => true | _, _ => false end) ->
  (forall p1 v1 c1 w1 r1 p2 v2 c2 w2 r2 out last,
     Bd ((p1, v1) :: (c1, w1) :: r1, (p2, v2) :: (c2, w2) :: r2, out, last, (p1, v1), (p2, v2))
     = match ostep T tltb teqb f p1 v1 c1 w1 r1 p2 v2 c2 w2 r2 out last with Some m => wrap m | None => Raise end) ->
  forall fuel fuel' x1 r1 x2 r2 out last,
    (length (x1 :: r1) + length (x2 :: r2) <= fuel)%nat -> (length (x1 :: r1) + length (x2 :: r2) <= fuel')%nat ->
    py_while_r fuel C Bd (x1 :: r1, x2 :: r2, out, last, x1, x2)
    = match omain T tltb teqb fuel' f (x1 :: r1) (x2 :: r2) out last with Some m => rmap fst (wrap m) | None => Raise end.
Proof.
  intros HC HB fuel. induction fuel as [|n IH]; intros fuel' x1 r1 x2 r2 out last H1 H2; [cbn [length] in H1; lia|].
  destruct x1 as [p1 v1], x2 as [p2 v2].
  destruct r1 as [|[c1 w1] r1].
  { cbn [py_while_r]. rewrite HC. destruct fuel'; reflexivity. }
  destruct r2 as [|[c2 w2] r2].
  { cbn [py_while_r]. rewrite HC. destruct fuel'; reflexivity. }
  destruct fuel' as [|n']; [cbn [length] in H2; lia|].
  cbn [py_while_r omain]. rewrite HC, HB. cbn [length] in H1, H2.
  destruct (ostep T tltb teqb f p1 v1 c1 w1 r1 p2 v2 c2 w2 r2 out last) as [[[[l1' l2'] out'] last']|] eqn:E; [|reflexivity].
  destruct (ostep_shape _ _ _ _ _ _ _ _ _ _ _ _ _ _ _ _ E) as [[-> ->]|[-> ->]]; cbn [wrap]; apply IH; cbn [length]; lia.
Qed.

Lemma omain_nonempty : forall fuel l1 l2 out last l1' l2' out' last',
  omain T tltb teqb fuel f l1 l2 out last = Some (l1', l2', out', last') -> l1 <> [] -> l2 <> [] -> l1' <> [] /\ l2' <> [].
Proof.
  induction fuel as [|n IH]; intros l1 l2 out last l1' l2' out' last' H N1 N2.
  - cbn [omain] in H. inversion H; subst. auto.
  - cbn [omain] in H.
    destruct l1 as [|[p1 v1] [|[c1 w1] r1]]; try (inversion H; subst; auto; fail).
    destruct l2 as [|[p2 v2] [|[c2 w2] r2]]; try (inversion H; subst; auto; fail).
    destruct (ostep T tltb teqb f p1 v1 c1 w1 r1 p2 v2 c2 w2 r2 out last) as [[[[a b] c] d]|] eqn:E; [|discriminate].
    destruct (ostep_shape _ _ _ _ _ _ _ _ _ _ _ _ _ _ _ _ E) as [[-> ->]|[-> ->]]; apply (IH _ _ _ _ _ _ _ _ H); discriminate.
Qed.

(* the tail loops: in_samples_i, out_samples, last, prev_in_sample_i *)
Notation tst := (gsig * gsig * option (T * V) * (T * V))%type.

Definition tail1_next (p2 : T) (v2 : V) (p1 : T) (v1 : V) (c1 : T) (w1 : V) (r1 : gsig) (out : gsig) (last : option (T * V)) : res (tst * bool) :=
  let l1 := (p1, v1) :: (c1, w1) :: r1 in let l1' := (c1, w1) :: r1 in
  if tltb p2 p1 then Ok ((l1, out, last, (p1, v1)), true)
  else if teqb p1 p2 then Ok ((l1, out, Some (p2, f v1 v2), (p1, v1)), true)
  else if tltb p1 p2 && tltb p2 c1 then Ok ((l1', oappend T out (p2, f v1 v2), Some (p2, f v1 v2), (c1, w1)), false)
  else if tltb p1 p2 && teqb p2 c1 then Ok ((l1', oappend T out (p2, f w1 v2), Some (p2, f w1 v2), (c1, w1)), false)
  else if tltb c1 p2 then Ok ((l1', out, None, (c1, w1)), false)
  else Ok ((l1, out, last, (p1, v1)), false).

Definition tail2_next (p1 : T) (v1 : V) (p2 : T) (v2 : V) (c2 : T) (w2 : V) (r2 : gsig) (out : gsig) (last : option (T * V)) : res (tst * bool) :=
  let l2 := (p2, v2) :: (c2, w2) :: r2 in let l2' := (c2, w2) :: r2 in
  if tltb p1 p2 then Ok ((l2, out, last, (p2, v2)), true)
  else if teqb p2 p1 then Ok ((l2, out, Some (p1, f v1 v2), (p2, v2)), true)
  else if tltb p2 p1 && tltb p1 c2 then Ok ((l2', oappend T out (p1, f v1 v2), Some (p1, f v1 v2), (c2, w2)), false)
  else if tltb p2 p1 && teqb p1 c2 then Ok ((l2', oappend T out (p1, f v1 w2), Some (p1, f v1 w2), (c2, w2)), false)
  else if tltb c2 p1 then Ok ((l2', out, None, (c2, w2)), false)
  else Ok ((l2, out, last, (p2, v2)), false).

Definition tproj (s : tst) : gsig * option (T * V) := (snd (fst (fst s)), snd (fst s)).

Lemma on_tail1 (C : tst -> bool) (Bd : tst -> res (tst * bool)) (p2 : T) (v2 : V) :
  (forall l1 out last x1, C (l1, out, last, x1) = match l1 with _ :: _ :: _ => true | _ => false end) ->
  (forall p1 v1 c1 w1 r1 out last, Bd ((p1, v1) :: (c1, w1) :: r1, out, last, (p1, v1)) = tail1_next p2 v2 p1 v1 c1 w1 r1 out last) ->
  forall fuel fuel' x1 r1 out last, (length (x1 :: r1) <= fuel)%nat -> (length (x1 :: r1) <= fuel')%nat ->
    rmap tproj (py_while_r fuel C Bd (x1 :: r1, out, last, x1))
    = match otail1 T tltb teqb fuel' f (x1 :: r1) p2 v2 out last with Some ol => Ok ol | None => NoFuel end.
Proof.
  intros HC HB fuel. induction fuel as [|n IH]; intros fuel' x1 r1 out last H1 H2; [cbn [length] in H1; lia|].
  destruct x1 as [p1 v1]. destruct r1 as [|[c1 w1] r1].
  { cbn [py_while_r]. rewrite HC. destruct fuel'; reflexivity. }
  destruct fuel' as [|n']; [cbn [length] in H2; lia|].
  cbn [py_while_r otail1]. rewrite HC, HB. unfold tail1_next. cbv zeta. cbn [length] in H1, H2.
  destruct (tltb p2 p1) eqn:E1; [reflexivity|].
  destruct (teqb p1 p2) eqn:E2; [reflexivity|].
  destruct (tltb p1 p2 && tltb p2 c1) eqn:E3; [apply IH; cbn [length]; lia|].
  destruct (tltb p1 p2 && teqb p2 c1) eqn:E4; [apply IH; cbn [length]; lia|].
  destruct (tltb c1 p2) eqn:E5; [apply IH; cbn [length]; lia|].
  rewrite py_while_r_spin; [reflexivity|rewrite HC; reflexivity|].
  rewrite HB. unfold tail1_next. cbv zeta. rewrite E1, E2, E3, E4, E5. reflexivity.
Qed.

Lemma on_tail2 (C : tst -> bool) (Bd : tst -> res (tst * bool)) (p1 : T) (v1 : V) :
  (forall l2 out last x2, C (l2, out, last, x2) = match l2 with _ :: _ :: _ => true | _ => false end) ->
  (forall p2 v2 c2 w2 r2 out last, Bd ((p2, v2) :: (c2, w2) :: r2, out, last, (p2, v2)) = tail2_next p1 v1 p2 v2 c2 w2 r2 out last) ->
  forall fuel fuel' x2 r2 out last, (length (x2 :: r2) <= fuel)%nat -> (length (x2 :: r2) <= fuel')%nat ->
    rmap tproj (py_while_r fuel C Bd (x2 :: r2, out, last, x2))
    = match otail2 T tltb teqb fuel' f p1 v1 (x2 :: r2) out last with Some ol => Ok ol | None => NoFuel end.
Proof.
  intros HC HB fuel. induction fuel as [|n IH]; intros fuel' x2 r2 out last H1 H2; [cbn [length] in H1; lia|].
  destruct x2 as [p2 v2]. destruct r2 as [|[c2 w2] r2].
  { cbn [py_while_r]. rewrite HC. destruct fuel'; reflexivity. }
  destruct fuel' as [|n']; [cbn [length] in H2; lia|].
  cbn [py_while_r otail2]. rewrite HC, HB. unfold tail2_next. cbv zeta. cbn [length] in H1, H2.
  destruct (tltb p1 p2) eqn:E1; [reflexivity|].
  destruct (teqb p2 p1) eqn:E2; [reflexivity|].
  destruct (tltb p2 p1 && tltb p1 c2) eqn:E3; [apply IH; cbn [length]; lia|].
  destruct (tltb p2 p1 && teqb p1 c2) eqn:E4; [apply IH; cbn [length]; lia|].
  destruct (tltb c2 p1) eqn:E5; [apply IH; cbn [length]; lia|].
  rewrite py_while_r_spin; [reflexivity|rewrite HC; reflexivity|].
  rewrite HB. unfold tail2_next. cbv zeta. rewrite E1, E2, E3, E4, E5. reflexivity.
Qed.

(* the hand model with the two ways of having no result kept apart *)
Definition oisect_res (s1 s2 : gsig) : res (oresult T) :=
  match s1, s2 with
  | [], _ | _, [] => Ok ([], None, s1, s2)
  | (p1, v1) :: _, (p2, v2) :: _ =>
      match omain T tltb teqb (length s1 + length s2 + 2) f s1 s2 [] (if teqb p1 p2 then Some (p1, f v1 v2) else None) with
      | None => Raise
      | Some st => match ofinish T tltb teqb f st with Some r => Ok r | None => NoFuel end
      end
  end.

Lemma oisect_res_opt s1 s2 : res_opt (oisect_res s1 s2) = oisect_g T tltb teqb f s1 s2.
Proof.
  unfold oisect_res, oisect_g. destruct s1 as [|[p1 v1] r1]; [reflexivity|]. destruct s2 as [|[p2 v2] r2]; [reflexivity|].
  destruct (omain T tltb teqb _ f _ _ [] _) as [st|]; [|reflexivity].
  destruct (ofinish T tltb teqb f st); reflexivity.
Qed.
End On.

Section OnMain.
Context {VS : Val}.
Variable T : Type.
Variables tltb teqb : T -> T -> bool.
Variable f : V -> V -> V.

Theorem gen_on_intersection_res (s1 s2 : list (T * V)) :
  gen_on_intersection T tltb teqb V veq f s1 s2 = oisect_res T tltb teqb f s1 s2.
Proof.
  unfold gen_on_intersection, oisect_res. cbv zeta. rewrite !mg_len_0.
  destruct s1 as [|[p1 v1] r1]; [reflexivity|]. destruct s2 as [|[p2 v2] r2]; [reflexivity|].
  cbn [orb]. rewrite !mg_get_0. cbn [rlift fst snd].
  destruct (teqb p1 p2) eqn:E0; cbv beta iota zeta; unfold gsample, gsig.
  all: match goal with |- context [py_while_r ?fu ?C ?Bd (?x1 :: ?q1, ?x2 :: ?q2, ?o, ?la, _, _)] =>
         generalize (on_main T tltb teqb f C Bd); intros HL;
         lapply HL; [clear HL; intros HL|];
         [lapply HL; [clear HL; intros HL; specialize (HL fu fu x1 q1 x2 q2 o la)|]|]
       end.
  (* the body of the main loop is ostep, its condition is the one of omain *)
  3,6: intros l1 l2 out last x1 x2; cbv beta; rewrite !mg_tail_truthy; destruct l1 as [|? [|? ?]]; destruct l2 as [|? [|? ?]]; reflexivity.
  2,4: intros a1 b1 c1 w1 q1 a2 b2 c2 w2 q2 out last; cbv beta; rewrite !mg_get_1; cbn [rlift py_pop0 fst snd];
    rewrite !gen_on_append_ok; unfold ostep, wrap; cbv zeta;
    dc (tltb c1 a2); dc (tltb a1 c1 && teqb c1 a2 && tltb a2 c2); dc (tltb a1 a2 && tltb a2 c1 && tltb c1 c2);
    dc (tltb a1 a2 && tltb a2 c1 && teqb c1 c2); dc (tltb a2 a1 && tltb a1 c1 && teqb c1 c2); dc (tltb a1 a2 && tltb a2 c2 && tltb c2 c1);
    dc (teqb a1 a2 && tltb a2 c2 && tltb c2 c1); dc (teqb a1 a2 && tltb a2 c2 && teqb c2 c1); dc (teqb a1 a2 && tltb a2 c1 && tltb c1 c2);
    dc (tltb a2 a1 && tltb a1 c1 && tltb c1 c2); dc (tltb a2 c2 && teqb c2 a1 && tltb a1 c1); dc (tltb a2 a1 && tltb a1 c2 && tltb c2 c1);
    dc (tltb c2 a1); reflexivity.
  (* after the main loop *)
  all: rewrite HL by (cbn [length]; lia); clear HL.
  all: match goal with |- context [omain T tltb teqb ?n f ?a ?b ?o ?la] =>
         destruct (omain T tltb teqb n f a b o la) as [[[[l1' l2'] out'] last']|] eqn:EM; [|reflexivity];
         destruct (omain_nonempty T tltb teqb f _ _ _ _ _ _ _ _ _ EM) as [N1 N2]; try discriminate; clear EM
       end.
  all: destruct l1' as [|[y1 u1] q1]; [congruence|]; destruct l2' as [|[y2 u2] q2]; [congruence|].
  all: cbn [wrap rmap fst]; rewrite !mg_len_gt1; unfold ofinish.
  all: destruct q1 as [|[z1 t1] q1].
  (* in_samples_1 has one sample: the second tail loop, or nothing *)
  1,3: destruct q2 as [|[z2 t2] q2]; [reflexivity|].
  1,2: match goal with |- context [py_while_r ?fu ?C ?Bd (?x :: ?q, ?o, ?la, _)] =>
         generalize (on_tail2 T tltb teqb f C Bd y1 u1); intros HL;
         lapply HL; [clear HL; intros HL|];
         [lapply HL; [clear HL; intros HL; specialize (HL fu (length (x :: q)) x q o la)|]|]
       end.
  3,6: intros l2 out last x2; cbv beta; rewrite !mg_tail_truthy; destruct l2 as [|? [|? ?]]; reflexivity.
  2,4: intros a2 b2 c2 w2 rr2 out last; cbv beta; rewrite !mg_get_1; cbn [rlift py_pop0 fst snd];
    rewrite !gen_on_append_ok; unfold tail2_next; cbv zeta;
    repeat match goal with |- _ = (if ?c then _ else _) => destruct c eqn:?; cbv beta iota zeta; [reflexivity|] end; reflexivity.
  1,2: lapply HL; [clear HL; intros HL|cbn [length]; lia]; lapply HL; [clear HL; intros HL|cbn [length]; lia]; revert HL;
    match goal with |- context [py_while_r ?fu ?C ?Bd ?s] => destruct (py_while_r fu C Bd s) as [[[[a b] c] d]| |] end;
    cbn [rmap tproj fst snd]; intros HL;
    match goal with |- context [otail2 T tltb teqb ?n f ?p ?v ?l ?o ?la] => destruct (otail2 T tltb teqb n f p v l o la) as [[oo ll]|] end;
    cbn [option_map fst snd]; try discriminate; try reflexivity; inversion HL; reflexivity.
  (* in_samples_1 has two samples or more: the first tail loop *)
  all: match goal with |- context [py_while_r ?fu ?C ?Bd (?x :: ?q, ?o, ?la, _)] =>
         generalize (on_tail1 T tltb teqb f C Bd y2 u2); intros HL;
         lapply HL; [clear HL; intros HL|];
         [lapply HL; [clear HL; intros HL; specialize (HL fu (length (x :: q)) x q o la)|]|]
       end.
  3,6: intros l1 out last x1; cbv beta; rewrite !mg_tail_truthy; destruct l1 as [|? [|? ?]]; reflexivity.
  2,4: intros a1 b1 c1 w1 rr1 out last; cbv beta; rewrite !mg_get_1; cbn [rlift py_pop0 fst snd];
    rewrite !gen_on_append_ok; unfold tail1_next; cbv zeta;
    repeat match goal with |- _ = (if ?c then _ else _) => destruct c eqn:?; cbv beta iota zeta; [reflexivity|] end; reflexivity.
  all: lapply HL; [clear HL; intros HL|cbn [length]; lia]; lapply HL; [clear HL; intros HL|cbn [length]; lia]; revert HL;
    match goal with |- context [py_while_r ?fu ?C ?Bd ?s] => destruct (py_while_r fu C Bd s) as [[[[a b] c] d]| |] end;
    cbn [rmap tproj fst snd]; intros HL;
    match goal with |- context [otail1 T tltb teqb ?n f ?l ?p ?v ?o ?la] => destruct (otail1 T tltb teqb n f l p v o la) as [[oo ll]|] end;
    cbn [option_map fst snd]; try discriminate; try reflexivity; inversion HL; reflexivity.
Qed.
End OnMain.

(* ------------------------------------------------------------------ *)
(* the fuel suffices                                                   *)
(* ------------------------------------------------------------------ *)
Section Fuel.
Context {VS : Val}.
Variable T : Type.
Variables tltb teqb : T -> T -> bool.
Variable f : V -> V -> V.
(* of two stamps one is smaller or they are equal *)
Definition trichotomous : Prop := forall a b : T, tltb a b || teqb a b || tltb b a = true.
Hypothesis tri : trichotomous.

Lemma otail1_total : forall fuel l1 p2 v2 out last, otail1 T tltb teqb fuel f l1 p2 v2 out last <> None.
Proof.
  induction fuel as [|n IH]; intros l1 p2 v2 out last; [discriminate|]. cbn [otail1].
  destruct l1 as [|[p1 v1] [|[c1 w1] r1]]; try discriminate.
  destruct (tltb p2 p1) eqn:E1; [discriminate|]. destruct (teqb p1 p2) eqn:E2; [discriminate|].
  assert (H12 : tltb p1 p2 = true). { generalize (tri p1 p2). rewrite E1, E2. destruct (tltb p1 p2); [reflexivity|discriminate]. }
  rewrite H12. cbn [andb].
  destruct (tltb p2 c1) eqn:E3; [apply IH|]. destruct (teqb p2 c1) eqn:E4; [apply IH|]. destruct (tltb c1 p2) eqn:E5; [apply IH|].
  generalize (tri p2 c1). rewrite E3, E4, E5. discriminate.
Qed.

Lemma otail2_total : forall fuel p1 v1 l2 out last, otail2 T tltb teqb fuel f p1 v1 l2 out last <> None.
Proof.
  induction fuel as [|n IH]; intros p1 v1 l2 out last; [discriminate|]. cbn [otail2].
  destruct l2 as [|[p2 v2] [|[c2 w2] r2]]; try discriminate.
  destruct (tltb p1 p2) eqn:E1; [discriminate|]. destruct (teqb p2 p1) eqn:E2; [discriminate|].
  assert (H21 : tltb p2 p1 = true). { generalize (tri p2 p1). rewrite E1, E2. destruct (tltb p2 p1); [reflexivity|discriminate]. }
  rewrite H21. cbn [andb].
  destruct (tltb p1 c2) eqn:E3; [apply IH|]. destruct (teqb p1 c2) eqn:E4; [apply IH|]. destruct (tltb c2 p1) eqn:E5; [apply IH|].
  generalize (tri p1 c2). rewrite E3, E4, E5. discriminate.
Qed.

Lemma oisect_res_fuel s1 s2 : oisect_res T tltb teqb f s1 s2 = rlift (oisect_g T tltb teqb f s1 s2).
Proof.
  unfold oisect_res, oisect_g. destruct s1 as [|[p1 v1] r1]; [reflexivity|]. destruct s2 as [|[p2 v2] r2]; [reflexivity|].
  destruct (omain T tltb teqb _ f _ _ [] _) as [[[[l1 l2] out] last]|]; [|reflexivity].
  unfold ofinish.
  destruct l1 as [|x1 [|y1 q1]]; destruct l2 as [|[a2 b2] [|y2 q2]]; try reflexivity;
    try (destruct x1 as [a1 b1]); try reflexivity;
    match goal with
    | |- context [otail1 T tltb teqb ?n f ?l ?p ?v ?o ?la] => generalize (otail1_total n l p v o la); destruct (otail1 T tltb teqb n f l p v o la)
    | |- context [otail2 T tltb teqb ?n f ?p ?v ?l ?o ?la] => generalize (otail2_total n p v l o la); destruct (otail2 T tltb teqb n f p v l o la)
    end; intros N; try reflexivity; congruence.
Qed.
End Fuel.

(* ------------------------------------------------------------------ *)
(* the statements the property files quote                             *)
(* ------------------------------------------------------------------ *)
Lemma tz_trichotomous : trichotomous tz tlt teq.
Proof. intros [a|] [b|]; cbn [tlt teq orb]; try reflexivity. destruct (a <? b) eqn:E1, (a =? b) eqn:E2, (b <? a) eqn:E3; try reflexivity. lia. Qed.
Lemma Z_trichotomous : trichotomous Z Z.ltb Z.eqb.
Proof. intros a b. destruct (a <? b) eqn:E1, (a =? b) eqn:E2, (b <? a) eqn:E3; try reflexivity. lia. Qed.

(* offline: C04 *)
Theorem merge_gen_off_refines :
  forall (VS : Val) (AR : Arith VS),
  (* _append *)
  (forall (B : Type) (beq : B -> B -> bool) out item, gen_off_append tz B beq out item = Ok (append_g B beq out item)) /\
  (* intersection(), any result type: no NoFuel, Raise exactly when the model says 'Unexpected case', same samples, last = [] *)
  (forall (B : Type) (beq : B -> B -> bool) (f : V -> V -> B) (s1 s2 : dsig),
     rmap (fun r => (finite_g B (fst (fst (fst r))), snd (fst (fst r)))) (gen_off_intersection tz tlt teq TInf B beq f (map inj s1) (map inj s2))
     = rlift (option_map (fun o => (o, None)) (isect_g B beq f s1 s2))) /\
  (* the point-wise operators *)
  (forall (f : V -> V -> V) (s1 s2 : dsig),
     rmap (fun r => (finite (fst (fst (fst r))), snd (fst (fst r)))) (gen_off_intersection tz tlt teq TInf V veq f (map inj s1) (map inj s2))
     = rlift (option_map (fun o => (o, None)) (isect f s1 s2))) /\
  (* since / until *)
  (forall s1 s2 : dsig,
     rmap (fun r => (finite_g (V * V) (fst (fst (fst r))), snd (fst (fst r))))
          (gen_off_intersection tz tlt teq TInf (V * V) peq gen_off_m_split (map inj s1) (map inj s2))
     = rlift (option_map (fun o => (o, None)) (split_isect s1 s2))) /\
  (* the functions handed to intersection(): those of DenseVisitor.deval_pk *)
  gen_off_m_conjunction AR = vmin /\ gen_off_m_disjunction AR = vmax /\ gen_off_m_implication AR = (fun l r => vmax (neg l) r) /\
  gen_off_m_iff AR = (fun l r => neg (a1 AR Abs (a2 AR Sub l r))) /\ gen_off_m_xor AR = (fun l r => a1 AR Abs (a2 AR Sub l r)) /\
  gen_off_m_addition AR = a2 AR Add /\ gen_off_m_subtraction AR = a2 AR Sub /\ gen_off_m_multiplication AR = a2 AR Mul /\
  gen_off_m_division AR = a2 AR Div /\ @gen_off_m_split VS = (fun a b => (a, b)).
Proof.
  intros VS AR. split; [exact (@gen_off_append_ok VS)|]. split; [exact (@gen_off_intersection_ok VS)|].
  split; [exact (@gen_off_intersection_isect VS)|]. split; [exact (@gen_off_intersection_split VS)|].
  repeat split; reflexivity.
Qed.

(* online: C05 *)
Theorem merge_gen_on_refines :
  forall (VS : Val) (T : Type) (tltb teqb : T -> T -> bool) (f : V -> V -> V),
  (forall out item, gen_on_append T V veq out item = Ok (oappend T out item)) /\
  (* for every type of stamps: the same result, Raise or NoFuel where the model has None *)
  (forall s1 s2, res_opt (gen_on_intersection T tltb teqb V veq f s1 s2) = oisect_g T tltb teqb f s1 s2) /\
  (* the fuel suffices when the comparisons are trichotomous: NoFuel does not occur, Raise = None *)
  (trichotomous T tltb teqb -> forall s1 s2, gen_on_intersection T tltb teqb V veq f s1 s2 = rlift (oisect_g T tltb teqb f s1 s2)).
Proof.
  intros VS T tltb teqb f. split; [exact (gen_on_append_ok T)|]. split.
  - intros s1 s2. rewrite gen_on_intersection_res. apply oisect_res_opt.
  - intros tri s1 s2. rewrite gen_on_intersection_res. apply oisect_res_fuel. exact tri.
Qed.

(* the two instances the monitors use: integer stamps, and stamps with +inf *)
Theorem merge_gen_on_instances :
  forall (VS : Val) (f : V -> V -> V),
  (forall s1 s2 : dsig, gen_on_intersection Z Z.ltb Z.eqb V veq f s1 s2 = rlift (oisect f s1 s2)) /\
  (forall s1 s2 : esig, gen_on_intersection tz tlt teq V veq f s1 s2 = rlift (oisect_e f s1 s2)).
Proof.
  intros VS f. split; intros s1 s2.
  - exact (proj2 (proj2 (merge_gen_on_refines VS Z Z.ltb Z.eqb f)) Z_trichotomous s1 s2).
  - exact (proj2 (proj2 (merge_gen_on_refines VS tz tlt teq f)) tz_trichotomous s1 s2).
Qed.

(* NoFuel is an outcome of the generated function only for comparisons that are not trichotomous (the Python function then never
   returns: a time stamp float('nan') makes every comparison False and the first tail loop, which has no final else, spins) *)
Example gen_on_intersection_nofuel_witness :
  forall (VS : Val) (f : V -> V -> V),
  gen_on_intersection Z (fun _ _ => false) (fun _ _ => false) V veq f [(0, bot); (1, bot)] [(0, bot)] = NoFuel.
Proof. intros VS f. reflexivity. Qed.

Print Assumptions merge_gen_off_refines.
Print Assumptions merge_gen_on_refines.
Print Assumptions merge_gen_on_instances.
