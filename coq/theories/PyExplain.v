(* PyExplain.v — the run-time library of tools/py2coq_explainer.py: what the visit methods of
   rtamt/explanation/{ltl,stl}/discrete_time/explainer.py use besides the recursion through self.visit.

   * self.explanations: a Python dict (insertion ordered) from keys to interval lists.  The keys are the names of the nodes
     (element.name, a str) and, in visitConstant, the Constant object itself ([KObj]: abstracted by the name of the node; no
     method reads such an entry).
   * self.spec.results[child]: the robustness list the offline evaluation stored for the child, a [list V].
   * self.bounds(element) (hand-modelled, pinned by the digests of STLExplainer.bounds and of
     DiscreteTimeInterpreter.time_unit_transformer): the bounds in sampling periods, Units.to_samples; None = it raises.
   * the interval-list helpers of rtamt/explanation/{ltl,stl}/discrete_time/explanations.py that contain loops
     (hand-modelled, pinned by digest in the translator): the functions of Explain.v applied to the signal LIST, with the
     IndexError of op_signal[i] made explicit ([idx_ok]: None when an index beyond the list would be read).  Interval ends
     are Python ints; here nat (an interval never has a negative end as long as the signals are non-empty, and explain()
     reads top_signal[0] first).  The helpers that only forward (explain_unary, explain_binary and their aliases) are
     TRANSLATED (ExplainGen.v), not listed here. *)
From Coq Require Import List Bool Arith ZArith String.
From RV Require Import Val Syntax Offline Units NodeName Explain.
Import ListNotations.

(* ---- the dict ---- *)
Inductive ekey := KName (s : string) | KO (s : string).
Definition KObj (nd : node) : ekey := KO (nname nd).
Definition ekey_eqb (a b : ekey) : bool :=
  match a, b with
  | KName s, KName t => String.eqb s t
  | KO s, KO t => String.eqb s t
  | _, _ => false
  end.
Definition edict := list (ekey * list ivl).
(* d[k] = v: the value of an existing key is replaced in place, a new key goes to the end *)
Fixpoint py_dset (k : ekey) (v : list ivl) (d : edict) : edict :=
  match d with
  | [] => [(k, v)]
  | (k', v') :: r => if ekey_eqb k k' then (k', v) :: r else (k', v') :: py_dset k v r
  end.
(* d.get(k, default) *)
Fixpoint py_dget (k : ekey) (dflt : list ivl) (d : edict) : list ivl :=
  match d with
  | [] => dflt
  | (k', v') :: r => if ekey_eqb k k' then v' else py_dget k dflt r
  end.

(* ---- self.bounds(element) with the transformer of the discrete-time interpreter ---- *)
Definition py_bounds (du : tunit) (p : Z) (pu : tunit) (b e : bound) : option (nat * nat) :=
  match to_samples du p pu (itv_of b e) with Ok be => Some be | _ => None end.

Section Helpers.
Context {VS : Val} (AR : Arith VS).

(* op_signal[i] >= 0 / op_signal[i] < 0 *)
Definition sat_at (s : list V) (i : nat) : bool := nonneg AR (nth i s (azero AR)).
Definition unsat_at (s : list V) (i : nat) : bool := negb (sat_at s i).
(* for begin, end in intervals: for i in range(begin, end + 1): ... op_signal[i] ...  does not raise IndexError *)
Definition idx_ok (s : list V) (iv : list ivl) : bool :=
  forallb (fun be => (snd be <? fst be) || (snd be <? List.length s)) iv.
Definition guard {A} (b : bool) (x : A) : option A := if b then Some x else None.

Definition py_explain_next (s : list V) (iv : list ivl) : option (list ivl) := Some (e_next (List.length s) iv).
Definition py_explain_prev (s : list V) (iv : list ivl) : option (list ivl) := Some (e_prev iv).

Definition py_runs2 (t1 t2 : list V -> nat -> bool) (s1 s2 : list V) (iv : list ivl) : option (list ivl * list ivl) :=
  guard (idx_ok s1 iv && idx_ok s2 iv) (runs (t1 s1) iv, runs (t2 s2) iv).
Definition py_explain_sat_or := py_runs2 sat_at sat_at.
Definition py_explain_unsat_and := py_runs2 unsat_at unsat_at.
Definition py_explain_sat_implies := py_runs2 unsat_at sat_at.

Definition py_explain_sat_always (s : list V) (iv : list ivl) : option (list ivl) := Some (e_from_first (List.length s) iv).
Definition py_explain_unsat_eventually (s : list V) (iv : list ivl) : option (list ivl) := Some (e_from_first (List.length s) iv).
Definition py_explain_sat_eventually (s : list V) (iv : list ivl) : option (list ivl) :=
  Some (e_scan_future (List.length s) (sat_at s) iv).
Definition py_explain_unsat_always (s : list V) (iv : list ivl) : option (list ivl) :=
  Some (e_scan_future (List.length s) (unsat_at s) iv).
Definition py_explain_sat_historically (s : list V) (iv : list ivl) : option (list ivl) := Some (e_upto_last iv).
Definition py_explain_unsat_once (s : list V) (iv : list ivl) : option (list ivl) := Some (e_upto_last iv).
Definition py_scan_past (t : list V -> nat -> bool) (s : list V) (iv : list ivl) : option (list ivl) :=
  guard (match iv with [] => true | _ => last_end iv <? List.length s end) (e_scan_past (t s) iv).
Definition py_explain_sat_once := py_scan_past sat_at.
Definition py_explain_unsat_historically := py_scan_past unsat_at.

Definition py_interval_union (iv : list ivl) : option (list ivl) := Some (iunion iv).

(* STL: a, b = int(a), int(b) are the numbers of sampling periods bounds() returns *)
Definition py_window (sh : nat -> nat -> nat -> ivl -> ivl) (s : list V) (iv : list ivl) (a b : nat) : option (list ivl) :=
  Some (e_window (sh (List.length s) a b) iv).
Definition py_scan_window (sh : nat -> nat -> nat -> ivl -> ivl) (t : list V -> nat -> bool)
                          (s : list V) (iv : list ivl) (a b : nat) : option (list ivl) :=
  guard (idx_ok s (map (sh (List.length s) a b) iv)) (e_scan_window (sh (List.length s) a b) (t s) iv).
Definition bwd' (_ a b : nat) : ivl -> ivl := bwd a b.
Definition py_explain_sat_timed_always := py_window fwd.
Definition py_explain_unsat_timed_eventually := py_window fwd.
Definition py_explain_sat_timed_historically := py_window bwd'.
Definition py_explain_unsat_timed_once := py_window bwd'.
Definition py_explain_sat_timed_eventually := py_scan_window fwd sat_at.
Definition py_explain_unsat_timed_always := py_scan_window fwd unsat_at.
Definition py_explain_sat_timed_once := py_scan_window bwd' sat_at.
Definition py_explain_unsat_timed_historically := py_scan_window bwd' unsat_at.

(* top_signal[0] < 0 in explain(): None = IndexError on an empty signal *)
Definition py_head_negative (s : list V) : option bool :=
  match s with [] => None | v :: _ => Some (ltb v (azero AR)) end.
End Helpers.

(* for spec in self.spec.specs[-1:] *)
Definition py_last_slice {A} (l : list A) : list A := skipn (List.length l - 1) l.
