(* DenseLaws.v — dense-time analogues on the tick semantics rhoZ: stability
   under extension of the input signals (C16), dualities and window laws (C18). *)
From Coq Require Import List Bool Arith ZArith Lia.
From RV Require Import Val Syntax Rho ListFacts OfflineCorrect Dense DenseSem DenseFacts.
Import ListNotations.
Local Open Scope Z_scope.

Section DenseLaws.
Context {VS : Val} (AR : Arith VS).
Variable pk : formula -> formula -> pkind.

(* dense-time supported, no unbounded future *)
Fixpoint dbounded (p : formula) : bool :=
  match p with
  | Var _ | Const _ => true
  | A1 _ f | Not f | Once f | Hist f | OnceT _ _ f | HistT _ _ f | EvT _ _ f | AlwT _ _ f => dbounded f
  | A2 _ f g | Pred _ f g | And f g | Or f g | Implies f g | Iff f g | Xor f g
  | Since f g | SinceT _ _ f g | UntilT _ _ f g => dbounded f && dbounded g
  | _ => false
  end.

(* look-ahead in ticks *)
Fixpoint dhor (p : formula) : Z :=
  match p with
  | Var _ | Const _ => 0
  | A1 _ f | Not f | Once f | Hist f | OnceT _ _ f | HistT _ _ f => dhor f
  | A2 _ f g | Pred _ f g | And f g | Or f g | Implies f g | Iff f g | Xor f g | Since f g | SinceT _ _ f g => Z.max (dhor f) (dhor g)
  | EvT _ e f | AlwT _ e f => dhor f + Z.of_nat e
  | UntilT _ e f g => Z.max (dhor f) (dhor g) + Z.of_nat e
  | _ => 0
  end.

Lemma dhor_nonneg p : 0 <= dhor p.
Proof. induction p; simpl; lia. Qed.

(* C16, dense time: values that only look at data up to e1 do not change when the signals are extended after e1 *)
Lemma dstart_same (W1 W2 : list dsig) :
  (forall x, start (nth x W2 []) = start (nth x W1 [])) -> forall p, dstart W2 p = dstart W1 p.
Proof. intros H p. induction p; cbn [dstart]; rewrite ?IHp, ?IHp1, ?IHp2; auto. Qed.

Theorem rhoZ_extend (W1 W2 : list dsig) (tend1 tend2 e1 : Z) (p : formula) :
  (forall x, start (nth x W2 []) = start (nth x W1 [])) ->
  (forall x t, t <= e1 -> den (nth x W2 []) t = den (nth x W1 []) t) ->
  dbounded p = true ->
  forall t, t + dhor p <= e1 -> rhoZ AR pk W2 tend2 p t = rhoZ AR pk W1 tend1 p t.
Proof.
  intros HS HW. pose proof (dstart_same W1 W2 HS) as HD. induction p; intros Hb t Ht; simpl in Hb, Ht; try discriminate;
  try (apply andb_prop in Hb as [Hb1 Hb2]); cbn [rhoZ]; rewrite ?HD;
  try (pose proof (dhor_nonneg p)); try (pose proof (dhor_nonneg p1)); try (pose proof (dhor_nonneg p2)).
  - apply HW. lia.
  - reflexivity.
  - rewrite IHp by (auto; lia). reflexivity.
  - rewrite IHp1, IHp2 by (auto; lia). reflexivity.
  - rewrite IHp1, IHp2 by (auto; lia). reflexivity.
  - rewrite IHp by (auto; lia). reflexivity.
  - rewrite IHp1, IHp2 by (auto; lia). reflexivity.
  - rewrite IHp1, IHp2 by (auto; lia). reflexivity.
  - rewrite IHp1, IHp2 by (auto; lia). reflexivity.
  - rewrite IHp1, IHp2 by (auto; lia). reflexivity.
  - rewrite IHp1, IHp2 by (auto; lia). reflexivity.
  - apply zmax_ext. intros t' Ht'. apply IHp; auto; lia.
  - apply zmin_ext. intros t' Ht'. apply IHp; auto; lia.
  - apply zmax_ext. intros t' Ht'. f_equal; [apply IHp2; auto; lia|]. apply zmin_ext. intros t'' Ht''. apply IHp1; auto; lia.
  - destruct (t - zb b <? _); [reflexivity|]. apply zmax_ext. intros t' Ht'. apply IHp; auto; unfold zb in *; lia.
  - destruct (t - zb b <? _); [reflexivity|]. apply zmin_ext. intros t' Ht'. apply IHp; auto; unfold zb in *; lia.
  - destruct (t - zb b <? _); [reflexivity|]. apply zmax_ext. intros t' Ht'. unfold zb in *.
    f_equal; [apply IHp2; auto; lia|]. apply zmin_ext. intros t'' Ht''. apply IHp1; auto; lia.
  - apply zmax_ext. intros t' Ht'. apply IHp; auto; unfold zb in *; lia.
  - apply zmin_ext. intros t' Ht'. apply IHp; auto; unfold zb in *; lia.
  - apply zmax_ext. intros t' Ht'. unfold zb in *.
    f_equal; [apply IHp2; auto; lia|]. apply zmin_ext. intros t'' Ht''. apply IHp1; auto; lia.
Qed.

(* C18, dense time *)
Section Laws.
Variables (W : list dsig) (tend : Z).
Local Notation R := (rhoZ AR pk W tend).

Lemma dlaw_not_evt a b p t : R (Not (EvT a b p)) t = R (AlwT a b (Not p)) t.
Proof. cbn [rhoZ]. apply neg_zmax. Qed.
Lemma dlaw_not_alwt a b p t : R (Not (AlwT a b p)) t = R (EvT a b (Not p)) t.
Proof. cbn [rhoZ]. apply neg_zmin. Qed.
Lemma dlaw_not_oncet a b p t : R (Not (OnceT a b p)) t = R (HistT a b (Not p)) t.
Proof. cbn [rhoZ dstart]. destruct (t - zb a <? _); [apply neg_bot|apply neg_zmax]. Qed.
Lemma dlaw_not_once p t : R (Not (Once p)) t = R (Hist (Not p)) t.
Proof. cbn [rhoZ]. apply neg_zmax. Qed.
Lemma dlaw_implies p q t : R (Implies p q) t = R (Or (Not p) q) t.
Proof. reflexivity. Qed.

Lemma dlaw_evt_evt a b c d p t : (a <= b)%nat -> (c <= d)%nat ->
  R (EvT a b (EvT c d p)) t = R (EvT (a + c) (b + d) p) t.
Proof.
  intros Hab Hcd. cbn [rhoZ]. unfold zb. apply eq_by_ub. intros z. rewrite !zmax_ub. split.
  - intros H t'' Ht''. specialize (H (Z.max (t + Z.of_nat a) (t'' - Z.of_nat d)) ltac:(lia)).
    rewrite zmax_ub in H. apply H. lia.
  - intros H t' Ht'. rewrite zmax_ub. intros t'' Ht''. apply H. lia.
Qed.

Lemma dlaw_oncet_oncet a b c d p t : (a <= b)%nat -> (c <= d)%nat ->
  R (OnceT a b (OnceT c d p)) t = R (OnceT (a + c) (b + d) p) t.
Proof.
  intros Hab Hcd. cbn [rhoZ dstart]. set (t0 := dstart W p). unfold zb. rewrite !Nat2Z.inj_add.
  destruct (Z.ltb_spec (t - Z.of_nat a) t0) as [H1|H1]; destruct (Z.ltb_spec (t - (Z.of_nat a + Z.of_nat c)) t0) as [H2|H2]; try lia; try reflexivity.
  - (* the outer window is non-empty but every inner window starts before t0 *)
    apply leb_antisym; [|apply bot_le]. apply zmax_ub. intros t' Ht'.
    destruct (Z.ltb_spec (t' - Z.of_nat c) t0); [apply leb_refl|lia].
  - apply eq_by_ub. intros z. rewrite !zmax_ub. split.
    + intros H t'' Ht''. specialize (H (Z.min (t - Z.of_nat a) (t'' + Z.of_nat d)) ltac:(lia)).
      destruct (Z.ltb_spec (Z.min (t - Z.of_nat a) (t'' + Z.of_nat d) - Z.of_nat c) t0); [lia|].
      rewrite zmax_ub in H. apply H. lia.
    + intros H t' Ht'. destruct (Z.ltb_spec (t' - Z.of_nat c) t0); [apply bot_le|].
      rewrite zmax_ub. intros t'' Ht''. apply H. lia.
Qed.

End Laws.
End DenseLaws.

(* the tick semantics only looks at the predicate kinds point-wise (C06, dense time) *)
Section PkExtZ.
Context {VS : Val} (AR : Arith VS).
Lemma rhoZ_pk_ext (pk1 pk2 : formula -> formula -> pkind) (W : list dsig) (tend : Z) :
  (forall f g, pk1 f g = pk2 f g) ->
  forall p t, rhoZ AR pk1 W tend p t = rhoZ AR pk2 W tend p t.
Proof.
  intros H. induction p; intros t; cbn [rhoZ]; rewrite ?H;
  repeat first
    [ reflexivity
    | rewrite IHp | rewrite IHp1 | rewrite IHp2
    | match goal with |- context [if ?c then _ else _] => destruct c end
    | apply zmax_ext; intros ? ?
    | apply zmin_ext; intros ? ?
    | f_equal ].
Qed.
End PkExtZ.
