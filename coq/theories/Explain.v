(* Explain.v — model of the discrete-time offline explainer
   (rtamt/explanation/{ltl,stl}/discrete_time/{explainer,explanations}.py):
   top-down propagation of the index intervals that matter, per operator and
   polarity; the table of intervals reported per input variable. *)
From Coq Require Import List Bool Arith Lia.
From RV Require Import Val Syntax Rho.
Import ListNotations.

Definition ivl := (nat * nat)%type.
Definition inI (i : nat) (iv : list ivl) : bool := existsb (fun be => (fst be <=? i) && (i <=? snd be)) iv.

(* ---- interval_union: sorted(), then merge of overlapping or adjacent intervals ---- *)
Definition ivl_leb (a b : ivl) : bool := (fst a <? fst b) || ((fst a =? fst b) && (snd a <=? snd b)).
Fixpoint ins (x : ivl) (l : list ivl) : list ivl :=
  match l with
  | [] => [x]
  | y :: r => if ivl_leb x y then x :: l else y :: ins x r
  end.
Definition isort (l : list ivl) : list ivl := fold_right ins [] l.
Fixpoint merge_from (cur : ivl) (l : list ivl) : list ivl :=
  match l with
  | [] => [cur]
  | (b, e) :: r => if b - 1 <=? snd cur then merge_from (fst cur, Nat.max (snd cur) e) r
                   else cur :: merge_from (b, e) r
  end.
Definition iunion (l : list ivl) : list ivl :=
  match isort l with [] => [] | x :: r => merge_from x r end.

(* ---- the scanning loop: maximal runs of indices satisfying a test ----
   for i in range(b, b + k): state machine (state, start); a run that is still
   open when the loop ends is closed at the last index visited *)
Fixpoint scan (test : nat -> bool) (i k : nat) (st : option nat) : list ivl :=
  match k with
  | 0 => match st with Some s => [(s, i - 1)] | None => [] end
  | S k' =>
      match st, test i with
      | None, true => scan test (S i) k' (Some i)
      | Some s, false => (s, i - 1) :: scan test (S i) k' None
      | _, _ => scan test (S i) k' st
      end
  end.
Definition runs (test : nat -> bool) (iv : list ivl) : list ivl :=
  flat_map (fun be => scan test (fst be) (S (snd be) - fst be) None) iv.

Definition table := list (nat * list ivl).
Fixpoint tb_get (x : nat) (tb : table) : list ivl :=
  match tb with [] => [] | (y, iv) :: r => if Nat.eqb x y then iv else tb_get x r end.
Fixpoint tb_set (x : nat) (iv : list ivl) (tb : table) : table :=
  match tb with
  | [] => [(x, iv)]
  | (y, J) :: r => if Nat.eqb x y then (y, iv) :: r else (y, J) :: tb_set x iv r
  end.
(* a variable visited again: the intervals accumulate *)
Definition tb_add (x : nat) (iv : list ivl) (tb : table) : table := tb_set x (iunion (tb_get x tb ++ iv)) tb.

Section Explain.
Context {VS : Val} (AR : Arith VS).
Variable pk : formula -> formula -> pkind.
Variables (w : trace) (n : nat).

Definition nonneg (v : V) : bool := leb (azero AR) v.
Definition res (q : formula) (i : nat) : V := rho AR pk q w n i.
Definition isat (q : formula) (i : nat) : bool := nonneg (res q i).
Definition iunsat (q : formula) (i : nat) : bool := negb (nonneg (res q i)).

Definition last_end (iv : list ivl) : nat := snd (last iv (0, 0)).

(* explain_next / explain_prev *)
Definition e_next (iv : list ivl) : list ivl :=
  flat_map (fun be => let b := fst be in let e := snd be in
                      if (b <? n - 1) && (e <? n - 1) then [(b + 1, e + 1)]
                      else if (b <? n - 1) && (n - 1 <=? e) then [(b + 1, e)] else []) iv.
Definition e_prev (iv : list ivl) : list ivl :=
  flat_map (fun be => let b := fst be in let e := snd be in
                      if (0 <? b) && (0 <? e) then [(b - 1, e - 1)]
                      else if (b <=? 0) && (0 <? e) then [(b, e - 1)] else []) iv.

(* unbounded temporal operators *)
Definition e_from_first (iv : list ivl) : list ivl := match iv with [] => [] | (b, _) :: _ => [(b, n - 1)] end.
Definition e_scan_future (test : nat -> bool) (iv : list ivl) : list ivl :=
  match iv with [] => [] | (b, _) :: _ => scan test b (n - b) None end.
Definition e_upto_last (iv : list ivl) : list ivl := match iv with [] => [] | _ => [(0, last_end iv)] end.
Definition e_scan_past (test : nat -> bool) (iv : list ivl) : list ivl :=
  match iv with [] => [] | _ => scan test 0 (S (last_end iv)) None end.

(* bounded temporal operators (bounds in sampling periods) *)
Definition fwd (a b : nat) (be : ivl) : ivl := (Nat.min (fst be + a) (n - 1), Nat.min (snd be + b) (n - 1)).
Definition bwd (a b : nat) (be : ivl) : ivl := (fst be - b, snd be - a).
Definition e_window (sh : ivl -> ivl) (iv : list ivl) : list ivl := iunion (map sh iv).
Definition e_scan_window (sh : ivl -> ivl) (test : nat -> bool) (iv : list ivl) : list ivl :=
  iunion (runs test (map sh iv)).

Definition obind {A B} (x : option A) (f : A -> option B) : option B := match x with Some a => f a | None => None end.

(* visit(element, [intervals, flag]); None = RTAMTException (operator not supported) *)
Fixpoint expl (p : formula) (flag : bool) (iv : list ivl) (tb : table) {struct p} : option table :=
  let both f g ivf ivg ff fg := obind (expl f ff ivf tb) (expl g fg ivg) in
  match p with
  | Var x => Some (tb_add x iv tb)
  | Const _ => Some tb
  | A1 _ f => expl f flag iv tb
  (* rise(f) = f and not prev(f), fall(f) = prev(f) and not f: both samples, with their own polarity *)
  | Rise f => obind (expl f flag iv tb) (expl f (negb flag) (e_prev iv))
  | Fall f => obind (expl f (negb flag) iv tb) (expl f flag (e_prev iv))
  | A2 _ f g | Pred _ f g | Iff f g | Xor f g => both f g iv iv flag flag
  | Not f => expl f (negb flag) iv tb
  | And f g => if flag then both f g iv iv flag flag
               else both f g (runs (iunsat f) iv) (runs (iunsat g) iv) flag flag
  | Or f g => if flag then both f g (runs (isat f) iv) (runs (isat g) iv) flag flag
              else both f g iv iv flag flag
  | Implies f g => if flag then both f g (runs (iunsat f) iv) (runs (isat g) iv) (negb flag) flag
                   else both f g iv iv (negb flag) flag
  | Ev f => expl f flag (if flag then e_scan_future (isat f) iv else e_from_first iv) tb
  | Alw f => expl f flag (if flag then e_from_first iv else e_scan_future (iunsat f) iv) tb
  | Once f => expl f flag (if flag then e_scan_past (isat f) iv else e_upto_last iv) tb
  | Hist f => expl f flag (if flag then e_upto_last iv else e_scan_past (iunsat f) iv) tb
  | Prev f | SPrev f => expl f flag (e_prev iv) tb
  | Next f | SNext f => expl f flag (e_next iv) tb
  | EvT a b f => expl f flag (if flag then e_scan_window (fwd a b) (isat f) iv else e_window (fwd a b) iv) tb
  | AlwT a b f => expl f flag (if flag then e_window (fwd a b) iv else e_scan_window (fwd a b) (iunsat f) iv) tb
  | OnceT a b f => expl f flag (if flag then e_scan_window (bwd a b) (isat f) iv else e_window (bwd a b) iv) tb
  | HistT a b f => expl f flag (if flag then e_window (bwd a b) iv else e_scan_window (bwd a b) (iunsat f) iv) tb
  | Since _ _ | Until _ _ | SinceT _ _ _ _ | UntilT _ _ _ _ | Precedes _ _ _ _ => None
  end.

(* explain(): every assertion violated at time 0 is explained, starting from an empty table *)
Definition explain (ps : list formula) : option table :=
  fold_left (fun acc p => obind acc (fun tb => if isat p 0 then Some tb else expl p false [(0, 0)] tb)) ps (Some []).

End Explain.
