(* OfflineCorrect.v — every list program of the offline visitor (Offline.v)
   computes the README robustness (Rho.v): for every Val, Arith, predicate
   semantics, formula and trace. *)
From Coq Require Import List Bool Arith Lia.
From RV Require Import Val Syntax Rho Offline ListFacts.
Import ListNotations.

Section OfflineCorrect.
Context {VS : Val} (AR : Arith VS).
Variable pk : formula -> formula -> pkind.

Lemma zipw_tab (f : V -> V -> V) r1 r2 n :
  zipw f (tab r1 n) (tab r2 n) = tab (fun t => f (r1 t) (r2 t)) n.
Proof. unfold zipw. rewrite combine_tab, map_tab. reflexivity. Qed.

(* two values with the same upper bounds are equal *)
Lemma eq_by_ub (a b : V) : (forall z, leb a z = true <-> leb b z = true) -> a = b.
Proof.
  intros H. apply leb_antisym.
  - apply H. apply leb_refl.
  - apply H. apply leb_refl.
Qed.
Lemma eq_by_lb (a b : V) : (forall z, leb z a = true <-> leb z b = true) -> a = b.
Proof.
  intros H. apply leb_antisym.
  - apply H. apply leb_refl.
  - apply H. apply leb_refl.
Qed.

Lemma rmax_ub f lo len z : leb (rmax f lo len) z = true <-> forall i, lo <= i < lo + len -> leb (f i) z = true.
Proof.
  unfold rmax. rewrite maxl_ub. split.
  - intros H i Hi. apply H. apply in_map. apply in_seq. lia.
  - intros H x Hx. apply in_map_iff in Hx as [i [<- Hi]]. apply in_seq in Hi. apply H. lia.
Qed.
Lemma rmin_lb f lo len z : leb z (rmin f lo len) = true <-> forall i, lo <= i < lo + len -> leb z (f i) = true.
Proof.
  unfold rmin. rewrite minl_lb. split.
  - intros H i Hi. apply H. apply in_map. apply in_seq. lia.
  - intros H x Hx. apply in_map_iff in Hx as [i [<- Hi]]. apply in_seq in Hi. apply H. lia.
Qed.

(* ---------- forward scans: once / historically ---------- *)
Lemma scan_vmax r acc lo len :
  scan vmax acc (map r (seq lo len)) = map (fun t => vmax acc (wmax r lo t)) (seq lo len).
Proof.
  revert acc lo. induction len as [|len IH]; intros acc lo; [reflexivity|].
  simpl. f_equal.
  - rewrite wmax_single. apply vmax_comm.
  - rewrite IH. apply map_ext_in. intros t Ht. apply in_seq in Ht.
    rewrite (wmax_cons r lo t) by lia. rewrite (vmax_comm (r lo) acc), vmax_assoc. reflexivity.
Qed.
Lemma scan_vmin r acc lo len :
  scan vmin acc (map r (seq lo len)) = map (fun t => vmin acc (wmin r lo t)) (seq lo len).
Proof.
  revert acc lo. induction len as [|len IH]; intros acc lo; [reflexivity|].
  simpl. f_equal.
  - rewrite wmin_single. apply vmin_comm.
  - rewrite IH. apply map_ext_in. intros t Ht. apply in_seq in Ht.
    rewrite (wmin_cons r lo t) by lia. rewrite (vmin_comm (r lo) acc), vmin_assoc. reflexivity.
Qed.

Lemma once_tab r n : scan vmax bot (tab r n) = tab (fun t => wmax r 0 t) n.
Proof. unfold tab. rewrite scan_vmax. apply map_ext. intros. apply vmax_bot_l. Qed.
Lemma hist_tab r n : scan vmin top (tab r n) = tab (fun t => wmin r 0 t) n.
Proof. unfold tab. rewrite scan_vmin. apply map_ext. intros. apply vmin_top_l. Qed.

(* window reflection *)
Lemma wmax_reflect r c lo hi : hi <= c -> lo <= c ->
  wmax (fun i => r (c - i)) lo hi = wmax r (c - hi) (c - lo).
Proof.
  intros H H'. apply eq_by_ub. intros z. rewrite !wmax_ub. split.
  - intros H1 j Hj. replace j with (c - (c - j)) by lia. apply H1. lia.
  - intros H1 i Hi. apply H1. lia.
Qed.
Lemma wmin_reflect r c lo hi : hi <= c -> lo <= c ->
  wmin (fun i => r (c - i)) lo hi = wmin r (c - hi) (c - lo).
Proof.
  intros H H'. apply eq_by_lb. intros z. rewrite !wmin_lb. split.
  - intros H1 j Hj. replace j with (c - (c - j)) by lia. apply H1. lia.
  - intros H1 i Hi. apply H1. lia.
Qed.

(* ---------- backward scans: eventually / always ---------- *)
Lemma ev_tab r n : rev (scan vmax bot (rev (tab r n))) = tab (fun t => wmax r t (n - 1)) n.
Proof.
  rewrite rev_tab, once_tab, rev_tab. apply tab_ext. intros t Ht.
  rewrite wmax_reflect by lia. f_equal; lia.
Qed.
Lemma alw_tab r n : rev (scan vmin top (rev (tab r n))) = tab (fun t => wmin r t (n - 1)) n.
Proof.
  rewrite rev_tab, hist_tab, rev_tab. apply tab_ext. intros t Ht.
  rewrite wmin_reflect by lia. f_equal; lia.
Qed.

(* ---------- prev / next / rise / fall ---------- *)
Lemma shiftr_tab (d : V) r n : shiftr d (tab r n) = tab (fun t => match t with 0 => d | S t' => r t' end) n.
Proof.
  revert d r. induction n as [|n IH]; intros d r; [reflexivity|].
  rewrite !tab_cons. simpl. f_equal. rewrite IH. apply tab_ext. intros [|t] _; reflexivity.
Qed.

Lemma cons_tab (d : V) r n : 1 <= n -> d :: tab r (n - 1) = tab (fun t => match t with 0 => d | S t' => r t' end) n.
Proof.
  intros H. destruct n as [|n]; [lia|]. rewrite tab_cons. f_equal.
  replace (S n - 1) with n by lia. reflexivity.
Qed.

Lemma next_tab (d : V) r n : 1 <= n ->
  tl (tab r n) ++ [d] = tab (fun t => if S t <? n then r (S t) else d) n.
Proof.
  intros H. destruct n as [|n]; [lia|]. rewrite tl_tab. replace (S n - 1) with n by lia.
  rewrite tab_S. f_equal.
  - apply tab_ext. intros t Ht. destruct (S t <? S n) eqn:E; [reflexivity|].
    apply Nat.ltb_ge in E. lia.
  - rewrite Nat.ltb_irrefl. reflexivity.
Qed.

(* ---------- since / until (unbounded) ---------- *)
Lemma maxl_vmin_const (c : V) l : maxl (map (fun x => vmin x c) l) = vmin (maxl l) c.
Proof.
  induction l as [|x l IH]; simpl.
  - rewrite vmin_bot_l. reflexivity.
  - fold (maxl l). fold (maxl (map (fun x => vmin x c) l)). rewrite IH.
    rewrite (vmin_comm (vmax x (maxl l)) c), vmin_vmax_distr.
    rewrite (vmin_comm c x), (vmin_comm c (maxl l)). reflexivity.
Qed.
Lemma wmax_vmin_const g (c : V) lo hi : wmax (fun t => vmin (g t) c) lo hi = vmin (wmax g lo hi) c.
Proof. unfold wmax. rewrite <- maxl_vmin_const, map_map. reflexivity. Qed.

Definition since_spec (r1 r2 : nat -> V) (lo t : nat) : V :=
  wmax (fun t' => vmin (r2 t') (wmin r1 (S t') t)) lo t.

Lemma since_step_alg (a p q X W : V) :
  vmax (vmin (vmax (vmin p a) q) X) W = vmax (vmin a (vmin p X)) (vmax (vmin q X) W).
Proof.
  rewrite (vmin_comm (vmax (vmin p a) q) X), vmin_vmax_distr.
  rewrite <- vmax_assoc. f_equal.
  - rewrite (vmin_comm X), (vmin_comm p a), <- vmin_assoc. reflexivity.
  - rewrite (vmin_comm X q). reflexivity.
Qed.

Lemma scan2_spec r1 r2 acc lo len :
  scan2 acc (map (fun t => (r1 t, r2 t)) (seq lo len)) =
  map (fun t => vmax (vmin acc (wmin r1 lo t)) (since_spec r1 r2 lo t)) (seq lo len).
Proof.
  revert acc lo. induction len as [|len IH]; intros acc lo; [reflexivity|].
  simpl. f_equal.
  - unfold since_spec. rewrite wmin_single, wmax_single, wmin_empty by lia.
    rewrite vmin_top_r, (vmin_comm acc). reflexivity.
  - rewrite IH. apply map_ext_in. intros t Ht. apply in_seq in Ht.
    unfold since_spec.
    rewrite (wmax_cons _ lo t) by lia. rewrite (wmin_cons r1 lo t) by lia.
    apply since_step_alg.
Qed.

Lemma since_tab r1 r2 n :
  scan2 bot (combine (tab r1 n) (tab r2 n)) = tab (since_spec r1 r2 0) n.
Proof.
  rewrite combine_tab. unfold tab at 1. rewrite scan2_spec. apply map_ext.
  intros t. rewrite vmin_bot_l, vmax_bot_l. reflexivity.
Qed.

Definition until_spec (r1 r2 : nat -> V) (hi t : nat) : V :=
  wmax (fun t' => vmin (r2 t') (rmin r1 t (t' - t))) t hi.

Lemma until_tab r1 r2 n :
  rev (scan2 bot (rev (combine (tab r1 n) (tab r2 n)))) = tab (until_spec r1 r2 (n - 1)) n.
Proof.
  rewrite combine_tab, rev_tab.
  change (tab (fun t => (r1 (n - 1 - t), r2 (n - 1 - t))) n)
    with (map (fun t => ((fun i => r1 (n - 1 - i)) t, (fun i => r2 (n - 1 - i)) t)) (seq 0 n)).
  rewrite scan2_spec.
  change (map ?f (seq 0 n)) with (tab f n). rewrite rev_tab.
  apply tab_ext. intros t Ht. rewrite vmin_bot_l, vmax_bot_l.
  unfold since_spec, until_spec.
  apply eq_by_ub. intros z. rewrite !wmax_ub. split.
  - intros H t' Ht'. specialize (H (n - 1 - t')).
    replace (n - 1 - (n - 1 - t')) with t' in H by lia.
    assert (E : wmin (fun i => r1 (n - 1 - i)) (S (n - 1 - t')) (n - 1 - t) = rmin r1 t (t' - t)).
    { apply eq_by_lb. intros y. rewrite wmin_lb, rmin_lb. split.
      - intros H1 j Hj. replace j with (n - 1 - (n - 1 - j)) by lia. apply H1. lia.
      - intros H1 i Hi. apply H1. lia. }
    rewrite E in H. apply H. lia.
  - intros H i Hi.
    assert (E : wmin (fun i => r1 (n - 1 - i)) (S i) (n - 1 - t) = rmin r1 t (n - 1 - i - t)).
    { apply eq_by_lb. intros y. rewrite wmin_lb, rmin_lb. split.
      - intros H1 j Hj. replace j with (n - 1 - (n - 1 - j)) by lia. apply H1. lia.
      - intros H1 k Hk. apply H1. lia. }
    rewrite E. apply H. lia.
Qed.

(* ---------- bounded once / historically: padding + slices ---------- *)
Lemma map_seq_tab {B} (f : nat -> B) lo len : map f (seq lo len) = tab (fun t => f (lo + t)) len.
Proof.
  unfold tab. revert lo. induction len as [|len IH]; intros lo; [reflexivity|].
  simpl. f_equal; [f_equal; lia|]. rewrite IH. rewrite <- seq_shift, map_map.
  apply map_ext. intros a. f_equal. lia.
Qed.

Lemma nth_pad_lt (c d : V) r n e k : k < e -> nth k (repeat c e ++ tab r n) d = c.
Proof. intros H. rewrite app_nth1 by (rewrite repeat_length; lia). apply nth_repeat_any. exact H. Qed.
Lemma nth_pad_ge (c d : V) r n e k : e <= k < e + n -> nth k (repeat c e ++ tab r n) d = r (k - e).
Proof.
  intros H. rewrite app_nth2 by (rewrite repeat_length; lia).
  rewrite repeat_length. apply nth_tab. lia.
Qed.

Lemma maxl_slice (s : list V) i j : maxl (slice s i j) = rmax (fun k => nth k s bot) i (Nat.min (j - i) (length s - i)).
Proof. unfold slice. rewrite (slice_as_map s bot). reflexivity. Qed.
Lemma minl_slice (s : list V) i j : minl (slice s i j) = rmin (fun k => nth k s top) i (Nat.min (j - i) (length s - i)).
Proof. unfold slice. rewrite (slice_as_map s top). reflexivity. Qed.

Definition oncet_spec (r : nat -> V) (b e t : nat) : V :=
  if t <? b then bot else wmax r (t - e) (t - b).
Definition histt_spec (r : nat -> V) (b e t : nat) : V :=
  if t <? b then top else wmin r (t - e) (t - b).

Lemma oncet_tab r n b e : b <= e ->
  (let s := repeat bot e ++ tab r n in
   map (fun j => maxl (slice s (j - e) (j - b + 1))) (seq e (length s - e))) = tab (oncet_spec r b e) n.
Proof.
  intros Hbe. cbv zeta. rewrite app_length, repeat_length, tab_length.
  replace (e + n - e) with n by lia. rewrite map_seq_tab. apply tab_ext. intros t Ht.
  rewrite maxl_slice, app_length, repeat_length, tab_length.
  unfold oncet_spec. apply eq_by_ub. intros z. rewrite rmax_ub.
  destruct (t <? b) eqn:E.
  - apply Nat.ltb_lt in E. split; [intros; apply bot_le|].
    intros _ k Hk. rewrite nth_pad_lt by lia. apply bot_le.
  - apply Nat.ltb_ge in E. rewrite wmax_ub. split.
    + intros H i Hi. specialize (H (i + e)). rewrite nth_pad_ge in H by lia.
      replace (i + e - e) with i in H by lia. apply H. lia.
    + intros H k Hk. destruct (Nat.lt_ge_cases k e) as [Hlt|Hge].
      * rewrite nth_pad_lt by lia. apply bot_le.
      * rewrite nth_pad_ge by lia. apply H. lia.
Qed.

Lemma histt_tab r n b e : b <= e ->
  (let s := repeat top e ++ tab r n in
   map (fun j => minl (slice s (j - e) (j - b + 1))) (seq e (length s - e))) = tab (histt_spec r b e) n.
Proof.
  intros Hbe. cbv zeta. rewrite app_length, repeat_length, tab_length.
  replace (e + n - e) with n by lia. rewrite map_seq_tab. apply tab_ext. intros t Ht.
  rewrite minl_slice, app_length, repeat_length, tab_length.
  unfold histt_spec. apply eq_by_lb. intros z. rewrite rmin_lb.
  destruct (t <? b) eqn:E.
  - apply Nat.ltb_lt in E. split; [intros; apply top_ge|].
    intros _ k Hk. rewrite nth_pad_lt by lia. apply top_ge.
  - apply Nat.ltb_ge in E. rewrite wmin_lb. split.
    + intros H i Hi. specialize (H (i + e)). rewrite nth_pad_ge in H by lia.
      replace (i + e - e) with i in H by lia. apply H. lia.
    + intros H k Hk. destruct (Nat.lt_ge_cases k e) as [Hlt|Hge].
      * rewrite nth_pad_lt by lia. apply top_ge.
      * rewrite nth_pad_ge by lia. apply H. lia.
Qed.

(* ---------- bounded eventually / always ---------- *)
Definition tf_sample (pad : V) (e : nat) (s0 : list V) : list V :=
  if length s0 <=? e then s0 ++ repeat pad (e - length s0 + 1) else s0.

Lemma tf_sample_length pad e r n : length (tf_sample pad e (tab r n)) = Nat.max n (S e).
Proof.
  unfold tf_sample. rewrite tab_length. destruct (n <=? e) eqn:E.
  - apply Nat.leb_le in E. rewrite app_length, repeat_length, tab_length. lia.
  - apply Nat.leb_gt in E. rewrite tab_length. lia.
Qed.
Lemma tf_sample_nth pad e r n k :
  nth k (tf_sample pad e (tab r n)) pad = if k <? n then r k else pad.
Proof.
  unfold tf_sample. rewrite tab_length.
  destruct (k <? n) eqn:Ek; [apply Nat.ltb_lt in Ek|apply Nat.ltb_ge in Ek].
  - destruct (n <=? e); [rewrite app_nth1 by (rewrite tab_length; lia)|]; apply nth_tab; lia.
  - destruct (n <=? e).
    + rewrite app_nth2 by (rewrite tab_length; lia). rewrite tab_length.
      destruct (Nat.lt_ge_cases (k - n) (e - n + 1)).
      * apply nth_repeat_any; lia.
      * apply nth_overflow. rewrite repeat_length. lia.
    + apply nth_tab_ge. lia.
Qed.

Lemma timed_future_eq pad agg b e s0 : b <= e ->
  timed_future pad agg b e s0 =
  let s := tf_sample pad e s0 in
  firstn (length s0)
    (map (fun j => agg (slice s j (j + (e - b) + 1))) (seq b (length s - b)) ++ repeat pad b).
Proof.
  intros Hbe. unfold timed_future. fold (tf_sample pad e s0). cbv zeta.
  set (s := tf_sample pad e s0).
  assert (HL : S e <= length s).
  { unfold s, tf_sample. destruct (length s0 <=? e) eqn:E.
    - apply Nat.leb_le in E. rewrite app_length, repeat_length. lia.
    - apply Nat.leb_gt in E. lia. }
  assert (Hr : forall F : nat -> V,
     map F (seq b (S e - b)) ++ map F (seq (S e) (length s - S e)) = map F (seq b (length s - b))).
  { intros F. rewrite <- map_app. f_equal.
    replace (length s - b) with ((S e - b) + (length s - S e)) by lia.
    rewrite seq_app. replace (b + (S e - b)) with (S e) by lia. reflexivity. }
  rewrite Hr. rewrite map_length, seq_length.
  replace (length s - (length s - b)) with b by lia. reflexivity.
Qed.

Definition evt_spec (r : nat -> V) (n b e t : nat) : V :=
  if n <=? t + b then bot else wmax r (t + b) (Nat.min (t + e) (n - 1)).
Definition alwt_spec (r : nat -> V) (n b e t : nat) : V :=
  if n <=? t + b then top else wmin r (t + b) (Nat.min (t + e) (n - 1)).

Lemma evt_tab r n b e : b <= e ->
  timed_future bot maxl b e (tab r n) = tab (evt_spec r n b e) n.
Proof.
  intros Hbe. rewrite timed_future_eq by exact Hbe. cbv zeta.
  rewrite tab_length, tf_sample_length.
  set (L := Nat.max n (S e)).
  apply (list_eq_tab _ _ _ bot).
  - rewrite firstn_length, app_length, map_length, seq_length, repeat_length. lia.
  - intros t Ht. rewrite nth_firstn_lt by lia.
    unfold evt_spec.
    destruct (Nat.lt_ge_cases t (L - b)) as [Hin|Hout].
    + rewrite app_nth1 by (rewrite map_length, seq_length; lia).
      rewrite nth_map_seq by lia. rewrite maxl_slice, tf_sample_length. fold L.
      apply eq_by_ub. intros z. rewrite rmax_ub.
      destruct (n <=? t + b) eqn:E; [apply Nat.leb_le in E|apply Nat.leb_gt in E].
      * split; [intros; apply bot_le|]. intros _ k Hk. rewrite tf_sample_nth.
        destruct (k <? n) eqn:Ek; [apply Nat.ltb_lt in Ek; lia|apply bot_le].
      * rewrite wmax_ub. split.
        -- intros H i Hi. specialize (H i). rewrite tf_sample_nth in H.
           destruct (i <? n) eqn:Ei; [|apply Nat.ltb_ge in Ei; lia]. apply H. lia.
        -- intros H k Hk. rewrite tf_sample_nth.
           destruct (k <? n) eqn:Ek; [apply Nat.ltb_lt in Ek|apply bot_le]. apply H. lia.
    + rewrite app_nth2 by (rewrite map_length, seq_length; lia).
      rewrite map_length, seq_length.
      destruct (n <=? t + b) eqn:E; [|apply Nat.leb_gt in E; lia].
      destruct (Nat.lt_ge_cases (t - (L - b)) b).
      * apply nth_repeat_any; lia.
      * apply nth_overflow. rewrite repeat_length. lia.
Qed.

Lemma alwt_tab r n b e : b <= e ->
  timed_future top minl b e (tab r n) = tab (alwt_spec r n b e) n.
Proof.
  intros Hbe. rewrite timed_future_eq by exact Hbe. cbv zeta.
  rewrite tab_length, tf_sample_length.
  set (L := Nat.max n (S e)).
  apply (list_eq_tab _ _ _ top).
  - rewrite firstn_length, app_length, map_length, seq_length, repeat_length. lia.
  - intros t Ht. rewrite nth_firstn_lt by lia.
    unfold alwt_spec.
    destruct (Nat.lt_ge_cases t (L - b)) as [Hin|Hout].
    + rewrite app_nth1 by (rewrite map_length, seq_length; lia).
      rewrite nth_map_seq by lia. rewrite minl_slice, tf_sample_length. fold L.
      apply eq_by_lb. intros z. rewrite rmin_lb.
      destruct (n <=? t + b) eqn:E; [apply Nat.leb_le in E|apply Nat.leb_gt in E].
      * split; [intros; apply top_ge|]. intros _ k Hk. rewrite tf_sample_nth.
        destruct (k <? n) eqn:Ek; [apply Nat.ltb_lt in Ek; lia|apply top_ge].
      * rewrite wmin_lb. split.
        -- intros H i Hi. specialize (H i). rewrite tf_sample_nth in H.
           destruct (i <? n) eqn:Ei; [|apply Nat.ltb_ge in Ei; lia]. apply H. lia.
        -- intros H k Hk. rewrite tf_sample_nth.
           destruct (k <? n) eqn:Ek; [apply Nat.ltb_lt in Ek|apply top_ge]. apply H. lia.
    + rewrite app_nth2 by (rewrite map_length, seq_length; lia).
      rewrite map_length, seq_length.
      destruct (n <=? t + b) eqn:E; [|apply Nat.leb_gt in E; lia].
      destruct (Nat.lt_ge_cases (t - (L - b)) b).
      * apply nth_repeat_any; lia.
      * apply nth_overflow. rewrite repeat_length. lia.
Qed.

(* ---------- bounded since / until: the two deques ---------- *)
Lemma fold_left_vmin_acc {B} (g : B -> V) l acc :
  fold_left (fun c k => vmin c (g k)) l acc = vmin acc (minl (map g l)).
Proof.
  revert acc. induction l as [|x l IH]; intros acc; simpl.
  - rewrite vmin_top_r. reflexivity.
  - rewrite IH. fold (minl (map g l)). rewrite vmin_assoc. reflexivity.
Qed.
Lemma fold_left_vmax_acc {B} (h : B -> V) l acc :
  fold_left (fun out j => vmax out (h j)) l acc = vmax acc (maxl (map h l)).
Proof.
  revert acc. induction l as [|x l IH]; intros acc; simpl.
  - rewrite vmax_bot_r. reflexivity.
  - rewrite IH. fold (maxl (map h l)). rewrite vmax_assoc. reflexivity.
Qed.

Definition sw_gen (BL BR : nat -> V) (b e : nat) : V :=
  rmax (fun j => vmin (rmin BL (S j) (e - j)) (BR j)) 0 (S (e - b)).

Lemma since_window_eq b e bl br :
  since_window b e bl br = sw_gen (fun k => nth k bl bot) (fun j => nth j br bot) b e.
Proof.
  unfold since_window, sw_gen, rmax.
  rewrite (fold_left_vmax_acc (fun j => vmin (fold_left (fun c k => vmin c (nth k bl bot)) (seq (S j) (e - j)) top) (nth j br bot))).
  rewrite vmax_bot_l. f_equal. apply map_ext. intros j.
  rewrite fold_left_vmin_acc, vmin_top_l. reflexivity.
Qed.

Definition buf (pad : V) (r : nat -> V) (k e : nat) : list V :=
  skipn k (repeat pad (S e) ++ tab r k).

Lemma buf_0 pad r e : buf pad r 0 e = repeat pad (S e).
Proof. unfold buf. simpl. rewrite app_nil_r. reflexivity. Qed.

Lemma push_buf pad r k e : push (buf pad r k e) (r k) = buf pad r (S k) e.
Proof.
  unfold push, buf. rewrite tab_S, app_assoc, tl_skipn.
  rewrite (skipn_app (S k) (repeat pad (S e) ++ tab r k) [r k]). rewrite app_length, repeat_length, tab_length.
  replace (S k - (S e + k)) with 0 by lia. reflexivity.
Qed.

Lemma nth_buf pad r k e j d : j <= e ->
  nth j (buf pad r k e) d = if k + j <? S e then pad else r (k + j - S e).
Proof.
  intros Hj. unfold buf. rewrite nth_skipn_.
  destruct (k + j <? S e) eqn:E; [apply Nat.ltb_lt in E|apply Nat.ltb_ge in E].
  - rewrite app_nth1 by (rewrite repeat_length; lia). apply nth_repeat_any. lia.
  - rewrite app_nth2 by (rewrite repeat_length; lia). rewrite repeat_length.
    apply nth_tab. lia.
Qed.

Definition sw_at (r1 r2 : nat -> V) (b e t : nat) : V :=
  sw_gen (fun k => if S t + k <? S e then top else r1 (S t + k - S e))
         (fun j => if S t + j <? S e then bot else r2 (S t + j - S e)) b e.

Lemma rmin_ext' (f g : nat -> V) lo len : (forall i, lo <= i < lo + len -> f i = g i) -> rmin f lo len = rmin g lo len.
Proof. apply rmin_ext. Qed.

Lemma since_loop_spec b e r1 r2 k len :
  since_loop b e (buf top r1 k e) (buf bot r2 k e) (map (fun t => (r1 t, r2 t)) (seq k len)) =
  map (sw_at r1 r2 b e) (seq k len).
Proof.
  revert k. induction len as [|len IH]; intros k; [reflexivity|].
  simpl. rewrite !push_buf. f_equal; [|apply IH].
  rewrite since_window_eq. unfold sw_at, sw_gen.
  apply rmax_ext. intros j Hj. f_equal.
  - apply rmin_ext. intros i Hi. apply nth_buf. lia.
  - apply nth_buf. lia.
Qed.

Definition sincet_spec (r1 r2 : nat -> V) (b e t : nat) : V :=
  if t <? b then bot
  else wmax (fun t' => vmin (r2 t') (wmin r1 (S t') t)) (t - e) (t - b).

Lemma sw_at_since r1 r2 b e t : b <= e -> sw_at r1 r2 b e t = sincet_spec r1 r2 b e t.
Proof.
  intros Hbe. unfold sw_at, sw_gen, sincet_spec.
  apply eq_by_ub. intros z. rewrite rmax_ub.
  destruct (t <? b) eqn:E; [apply Nat.ltb_lt in E|apply Nat.ltb_ge in E].
  - split; [intros; apply bot_le|]. intros _ j Hj.
    destruct (S t + j <? S e) eqn:E2; [|apply Nat.ltb_ge in E2; lia].
    rewrite vmin_bot_r. apply bot_le.
  - rewrite wmax_ub. split.
    + intros H t' Ht'. specialize (H (t' + e - t)).
      destruct (S t + (t' + e - t) <? S e) eqn:E2; [apply Nat.ltb_lt in E2; lia|].
      replace (S t + (t' + e - t) - S e) with t' in H by lia.
      assert (EQ : rmin (fun k => if S t + k <? S e then top else r1 (S t + k - S e)) (S (t' + e - t)) (e - (t' + e - t))
                   = wmin r1 (S t') t).
      { apply eq_by_lb. intros y. rewrite rmin_lb, wmin_lb. split.
        - intros H1 i Hi. specialize (H1 (i + e - t)).
          destruct (S t + (i + e - t) <? S e) eqn:E3; [apply Nat.ltb_lt in E3; lia|].
          replace (S t + (i + e - t) - S e) with i in H1 by lia. apply H1. lia.
        - intros H1 k Hk. destruct (S t + k <? S e) eqn:E3; [apply top_ge|].
          apply H1. lia. }
      rewrite EQ, vmin_comm in H. apply H. lia.
    + intros H j Hj.
      destruct (S t + j <? S e) eqn:E2; [rewrite vmin_bot_r; apply bot_le|apply Nat.ltb_ge in E2].
      assert (EQ : rmin (fun k => if S t + k <? S e then top else r1 (S t + k - S e)) (S j) (e - j)
                   = wmin r1 (S (S t + j - S e)) t).
      { apply eq_by_lb. intros y. rewrite rmin_lb, wmin_lb. split.
        - intros H1 i Hi. specialize (H1 (i + e - t)).
          destruct (S t + (i + e - t) <? S e) eqn:E3; [apply Nat.ltb_lt in E3; lia|].
          replace (S t + (i + e - t) - S e) with i in H1 by lia. apply H1. lia.
        - intros H1 k Hk. destruct (S t + k <? S e) eqn:E3; [apply top_ge|].
          apply H1. lia. }
      rewrite EQ, vmin_comm. apply H. lia.
Qed.

Lemma sincet_tab r1 r2 n b e : b <= e ->
  since_loop b e (repeat top (S e)) (repeat bot (S e)) (combine (tab r1 n) (tab r2 n))
  = tab (sincet_spec r1 r2 b e) n.
Proof.
  intros Hbe. rewrite combine_tab. unfold tab.
  rewrite <- (buf_0 top r1 e), <- (buf_0 bot r2 e), since_loop_spec.
  apply map_ext. intros t. apply sw_at_since. exact Hbe.
Qed.

Definition untilt_spec (r1 r2 : nat -> V) (n b e t : nat) : V :=
  if n <=? t + b then bot
  else wmax (fun t' => vmin (r2 t') (rmin r1 t (t' - t))) (t + b) (Nat.min (t + e) (n - 1)).

Lemma sw_at_until r1 r2 n b e t : b <= e -> t < n ->
  sw_at (fun i => r1 (n - 1 - i)) (fun i => r2 (n - 1 - i)) b e (n - 1 - t) = untilt_spec r1 r2 n b e t.
Proof.
  intros Hbe Ht. unfold sw_at, sw_gen, untilt_spec.
  apply eq_by_ub. intros z. rewrite rmax_ub.
  destruct (n <=? t + b) eqn:E; [apply Nat.leb_le in E|apply Nat.leb_gt in E].
  - split; [intros; apply bot_le|]. intros _ j Hj.
    destruct (S (n - 1 - t) + j <? S e) eqn:E2; [|apply Nat.ltb_ge in E2; lia].
    rewrite vmin_bot_r. apply bot_le.
  - rewrite wmax_ub. split.
    + intros H t' Ht'. specialize (H (t + e - t')).
      destruct (S (n - 1 - t) + (t + e - t') <? S e) eqn:E2; [apply Nat.ltb_lt in E2; lia|].
      replace (n - 1 - (S (n - 1 - t) + (t + e - t') - S e)) with t' in H by lia.
      assert (EQ : rmin (fun k => if S (n - 1 - t) + k <? S e then top else r1 (n - 1 - (S (n - 1 - t) + k - S e)))
                        (S (t + e - t')) (e - (t + e - t'))
                   = rmin r1 t (t' - t)).
      { apply eq_by_lb. intros y. rewrite !rmin_lb. split.
        - intros H1 i Hi. specialize (H1 (t + e - i)).
          destruct (S (n - 1 - t) + (t + e - i) <? S e) eqn:E3; [apply Nat.ltb_lt in E3; lia|].
          replace (n - 1 - (S (n - 1 - t) + (t + e - i) - S e)) with i in H1 by lia. apply H1. lia.
        - intros H1 k Hk. destruct (S (n - 1 - t) + k <? S e) eqn:E3; [apply top_ge|].
          apply Nat.ltb_ge in E3. apply H1. lia. }
      rewrite EQ, vmin_comm in H. apply H. lia.
    + intros H j Hj.
      destruct (S (n - 1 - t) + j <? S e) eqn:E2; [rewrite vmin_bot_r; apply bot_le|apply Nat.ltb_ge in E2].
      assert (EQ : rmin (fun k => if S (n - 1 - t) + k <? S e then top else r1 (n - 1 - (S (n - 1 - t) + k - S e)))
                        (S j) (e - j)
                   = rmin r1 t (n - 1 - (S (n - 1 - t) + j - S e) - t)).
      { apply eq_by_lb. intros y. rewrite !rmin_lb. split.
        - intros H1 i Hi. specialize (H1 (t + e - i)).
          destruct (S (n - 1 - t) + (t + e - i) <? S e) eqn:E3; [apply Nat.ltb_lt in E3; lia|].
          replace (n - 1 - (S (n - 1 - t) + (t + e - i) - S e)) with i in H1 by lia. apply H1. lia.
        - intros H1 k Hk. destruct (S (n - 1 - t) + k <? S e) eqn:E3; [apply top_ge|].
          apply Nat.ltb_ge in E3. apply H1. lia. }
      rewrite EQ, vmin_comm. apply H. lia.
Qed.

Lemma untilt_tab r1 r2 n b e : b <= e ->
  rev (since_loop b e (repeat top (S e)) (repeat bot (S e)) (rev (combine (tab r1 n) (tab r2 n))))
  = tab (untilt_spec r1 r2 n b e) n.
Proof.
  intros Hbe. rewrite combine_tab, rev_tab.
  change (tab (fun t => (r1 (n - 1 - t), r2 (n - 1 - t))) n)
    with (map (fun t => ((fun i => r1 (n - 1 - i)) t, (fun i => r2 (n - 1 - i)) t)) (seq 0 n)).
  rewrite <- (buf_0 top (fun i => r1 (n - 1 - i)) e), <- (buf_0 bot (fun i => r2 (n - 1 - i)) e), since_loop_spec.
  change (map ?f (seq 0 n)) with (tab f n). rewrite rev_tab.
  apply tab_ext. intros t Ht. apply sw_at_until; assumption.
Qed.

(* ---------- precedes[b,e] (what pastify() makes of a bounded until): the same two deques,
   read from the old end -- shared with PrecedesTimedOperation.update (OnlineCorrect.precedes_step) ---------- *)
Lemma precedes_window_eq b e bl br :
  precedes_window b e bl br =
  rmax (fun i => vmin (rmin (fun j => nth j bl bot) 0 i) (nth i br bot)) b (S e - b).
Proof.
  unfold precedes_window, rmax.
  rewrite (fold_left_vmax_acc (fun i => vmin (fold_left (fun c j => vmin c (nth j bl bot)) (seq 0 i) top) (nth i br bot))).
  rewrite vmax_bot_l. f_equal. apply map_ext. intros i.
  rewrite fold_left_vmin_acc, vmin_top_l. reflexivity.
Qed.

(* rho of Precedes b e f g at t, on the operand columns r1 = rho f, r2 = rho g *)
Definition precedes_spec (r1 r2 : nat -> V) (b e t : nat) : V :=
  wmax (fun k => vmin (if k + t <? e then bot else r2 (k + t - e))
                      (rmin (fun j => if j + t <? e then top else r1 (j + t - e)) 0 k))
       b e.

Lemma ltb_shift i k e : (S k + i <? S e) = (i + k <? e).
Proof.
  destruct (i + k <? e) eqn:E1; destruct (S k + i <? S e) eqn:E2; try reflexivity;
  [apply Nat.ltb_lt in E1; apply Nat.ltb_ge in E2|apply Nat.ltb_ge in E1; apply Nat.ltb_lt in E2]; lia.
Qed.

(* the window on the buffers after sample k has been pushed *)
Lemma precedes_window_buf r1 r2 b e k : b <= e ->
  precedes_window b e (buf top r1 (S k) e) (buf bot r2 (S k) e) = precedes_spec r1 r2 b e k.
Proof.
  intros Hbe. rewrite precedes_window_eq. unfold precedes_spec. rewrite wmax_rmax.
  apply rmax_ext. intros i Hi. rewrite vmin_comm. f_equal.
  - rewrite nth_buf by lia. rewrite ltb_shift.
    destruct (i + k <? e); [reflexivity|]. f_equal. lia.
  - apply rmin_ext. intros j Hj. rewrite nth_buf by lia. rewrite ltb_shift.
    destruct (j + k <? e); [reflexivity|]. f_equal. lia.
Qed.

Lemma precedes_loop_spec b e r1 r2 k len : b <= e ->
  precedes_loop b e (buf top r1 k e) (buf bot r2 k e) (map (fun t => (r1 t, r2 t)) (seq k len)) =
  map (precedes_spec r1 r2 b e) (seq k len).
Proof.
  intros Hbe. revert k. induction len as [|len IH]; intros k; [reflexivity|].
  simpl. rewrite !push_buf. f_equal; [|apply IH].
  apply precedes_window_buf. exact Hbe.
Qed.

Lemma precedes_tab r1 r2 n b e : b <= e ->
  precedes_loop b e (repeat top (S e)) (repeat bot (S e)) (combine (tab r1 n) (tab r2 n))
  = tab (precedes_spec r1 r2 b e) n.
Proof.
  intros Hbe. rewrite combine_tab. unfold tab.
  rewrite <- (buf_0 top r1 e), <- (buf_0 bot r2 e). apply precedes_loop_spec. exact Hbe.
Qed.

(* ---------- the main theorem ---------- *)
Definition wf_trace (p : formula) (w : trace) (n : nat) : Prop :=
  forall x, x < nvars p -> length (nth x w []) = n.

Lemma wf_trace_sub (p q : formula) w n : nvars q <= nvars p -> wf_trace p w n -> wf_trace q w n.
Proof. intros H Hw x Hx. apply Hw. lia. Qed.

Ltac split_wf :=
  repeat match goal with
  | H : _ && _ = true |- _ => apply andb_prop in H; destruct H
  | H : (_ <=? _) = true |- _ => apply Nat.leb_le in H
  end.

Theorem eval_off_correct (p : formula) (w : trace) (n : nat) :
  1 <= n -> wf_bounds p = true -> wf_trace p w n ->
  eval_off AR pk p w n = tab (rho AR pk p w n) n.
Proof.
  intros Hn. induction p; intros Hb Hw; simpl in Hb; split_wf;
  try (assert (Hw1 : wf_trace p w n) by (eapply wf_trace_sub; [|exact Hw]; simpl; lia));
  try (assert (Hw1 : wf_trace p1 w n) by (eapply wf_trace_sub; [|exact Hw]; simpl; lia));
  try (assert (Hw2 : wf_trace p2 w n) by (eapply wf_trace_sub; [|exact Hw]; simpl; lia));
  cbn [eval_off];
  try rewrite IHp by assumption; try rewrite IHp1 by assumption; try rewrite IHp2 by assumption.
  all: try (etransitivity; [ first
      [ apply repeat_tab | apply map_tab | apply zipw_tab | apply shiftr_tab
      | apply next_tab; exact Hn | apply once_tab | apply hist_tab | apply since_tab
      | apply ev_tab | apply alw_tab | apply until_tab
      | apply oncet_tab; assumption | apply histt_tab; assumption
      | apply sincet_tab; assumption | apply evt_tab; assumption
      | apply alwt_tab; assumption | apply untilt_tab; assumption
      | apply precedes_tab; assumption ]
    | apply tab_ext; intros t Ht; reflexivity ]).
  - (* Var *) rewrite (list_as_tab (nth x w []) bot). rewrite (Hw x) by (simpl; lia). reflexivity.
  - (* Rise *) rewrite removelast_tab, cons_tab by exact Hn. rewrite zipw_tab.
    apply tab_ext; intros t Ht; reflexivity.
  - (* Fall *) rewrite removelast_tab, cons_tab by exact Hn. rewrite zipw_tab.
    apply tab_ext; intros t Ht; reflexivity.
Qed.

Corollary eval_off_length p w n :
  1 <= n -> wf_bounds p = true -> wf_trace p w n ->
  length (eval_off AR pk p w n) = n.
Proof. intros. rewrite eval_off_correct by assumption. apply tab_length. Qed.

Corollary eval_off_nth p w n t d :
  1 <= n -> wf_bounds p = true -> wf_trace p w n -> t < n ->
  nth t (eval_off AR pk p w n) d = rho AR pk p w n t.
Proof. intros. rewrite eval_off_correct by assumption. apply nth_tab. assumption. Qed.

Theorem evaluate_correct {T : Type} (p : formula) (ts : list T) (w : trace) :
  1 <= length ts -> wf_bounds p = true -> wf_trace p w (length ts) ->
  evaluate AR pk p ts w = Ok (combine ts (tab (rho AR pk p w (length ts)) (length ts))).
Proof.
  intros Hn Hb Hw. unfold evaluate. rewrite eval_off_correct by assumption. reflexivity.
Qed.

Theorem evaluate_pairs {T : Type} (p : formula) (ts : list T) (w : trace) r :
  1 <= length ts -> wf_bounds p = true -> wf_trace p w (length ts) ->
  evaluate AR pk p ts w = Ok r -> map fst r = ts /\ length r = length ts.
Proof.
  intros Hn Hb Hw H. rewrite evaluate_correct in H by assumption.
  injection H as <-. split.
  - apply map_fst_combine. rewrite tab_length. lia.
  - rewrite combine_length, tab_length. lia.
Qed.

End OfflineCorrect.
