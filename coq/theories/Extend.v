(* Extend.v — C16: settled values do not depend on data beyond t + horizon. *)
From Coq Require Import List Bool Arith Lia.
From RV Require Import Val Syntax Rho.
Import ListNotations.

Section Extend.
Context {VS : Val} (AR : Arith VS).
Variable pk : formula -> formula -> pkind.

(* w2 (n2 samples) extends w1 (n1 samples) *)
Definition extends (w1 : trace) (n1 : nat) (w2 : trace) (n2 : nat) : Prop :=
  n1 <= n2 /\ forall x t, t < n1 -> sig w2 x t = sig w1 x t.

Ltac split_bf :=
  repeat match goal with
  | H : _ && _ = true |- _ => apply andb_prop in H; destruct H
  end.

Theorem rho_extend (p : formula) (w1 w2 : trace) (n1 n2 : nat) :
  extends w1 n1 w2 n2 -> bounded_future p = true ->
  forall t, t + hor p < n1 -> rho AR pk p w2 n2 t = rho AR pk p w1 n1 t.
Proof.
  intros [Hn Hsig]. induction p; intros Hbf t Ht; simpl in Hbf, Ht; split_bf; cbn [rho];
  try discriminate.
  - apply Hsig. lia.
  - reflexivity.
  - rewrite IHp by (auto; lia). reflexivity.
  - rewrite IHp1, IHp2 by (auto; lia). reflexivity.
  - rewrite IHp1, IHp2 by (auto; lia). reflexivity.
  - rewrite IHp by (auto; lia). reflexivity.
  - rewrite IHp1, IHp2 by (auto; lia). reflexivity.
  - rewrite IHp1, IHp2 by (auto; lia). reflexivity.
  - rewrite IHp1, IHp2 by (auto; lia). reflexivity.
  - rewrite IHp1, IHp2 by (auto; lia). reflexivity.
  - rewrite IHp1, IHp2 by (auto; lia). reflexivity.
  - (* Rise *) rewrite (IHp Hbf t) by lia. destruct t as [|t']; [reflexivity|]. rewrite (IHp Hbf t') by lia. reflexivity.
  - rewrite (IHp Hbf t) by lia. destruct t as [|t']; [reflexivity|]. rewrite (IHp Hbf t') by lia. reflexivity.
  - destruct t as [|t']; [reflexivity|]. apply IHp; auto; lia.
  - destruct t as [|t']; [reflexivity|]. apply IHp; auto; lia.
  - (* Next *) replace (S t <? n2) with true by (symmetry; apply Nat.ltb_lt; lia).
    replace (S t <? n1) with true by (symmetry; apply Nat.ltb_lt; lia). apply IHp; auto; lia.
  - replace (S t <? n2) with true by (symmetry; apply Nat.ltb_lt; lia).
    replace (S t <? n1) with true by (symmetry; apply Nat.ltb_lt; lia). apply IHp; auto; lia.
  - (* Once *) apply wmax_ext. intros i Hi. apply IHp; auto; lia.
  - apply wmin_ext. intros i Hi. apply IHp; auto; lia.
  - (* Since *) apply wmax_ext. intros i Hi. f_equal; [apply IHp2; auto; lia|].
    apply wmin_ext. intros j Hj. apply IHp1; auto; lia.
  - (* OnceT *) destruct (t <? b); [reflexivity|]. apply wmax_ext. intros i Hi. apply IHp; auto; lia.
  - destruct (t <? b); [reflexivity|]. apply wmin_ext. intros i Hi. apply IHp; auto; lia.
  - (* SinceT *) destruct (t <? b); [reflexivity|]. apply wmax_ext. intros i Hi.
    f_equal; [apply IHp2; auto; lia|]. apply wmin_ext. intros j Hj. apply IHp1; auto; lia.
  - (* EvT *) destruct (n2 <=? t + b) eqn:E2; destruct (n1 <=? t + b) eqn:E1;
    try apply Nat.leb_le in E1; try apply Nat.leb_le in E2; try apply Nat.leb_gt in E1; try apply Nat.leb_gt in E2;
    try reflexivity.
    + destruct (Nat.le_gt_cases b e).
      * lia.
      * rewrite wmax_empty by lia. reflexivity.
    + destruct (Nat.le_gt_cases b e).
      * lia.
      * rewrite wmax_empty by lia. reflexivity.
    + replace (Nat.min (t + e) (n2 - 1)) with (t + e) by lia.
      replace (Nat.min (t + e) (n1 - 1)) with (t + e) by lia.
      apply wmax_ext. intros i Hi. apply IHp; auto; lia.
  - (* AlwT *) destruct (n2 <=? t + b) eqn:E2; destruct (n1 <=? t + b) eqn:E1;
    try apply Nat.leb_le in E1; try apply Nat.leb_le in E2; try apply Nat.leb_gt in E1; try apply Nat.leb_gt in E2;
    try reflexivity.
    + destruct (Nat.le_gt_cases b e).
      * lia.
      * rewrite wmin_empty by lia. reflexivity.
    + destruct (Nat.le_gt_cases b e).
      * lia.
      * rewrite wmin_empty by lia. reflexivity.
    + replace (Nat.min (t + e) (n2 - 1)) with (t + e) by lia.
      replace (Nat.min (t + e) (n1 - 1)) with (t + e) by lia.
      apply wmin_ext. intros i Hi. apply IHp; auto; lia.
  - (* UntilT *) destruct (n2 <=? t + b) eqn:E2; destruct (n1 <=? t + b) eqn:E1;
    try apply Nat.leb_le in E1; try apply Nat.leb_le in E2; try apply Nat.leb_gt in E1; try apply Nat.leb_gt in E2;
    try reflexivity.
    + destruct (Nat.le_gt_cases b e).
      * lia.
      * rewrite wmax_empty by lia. reflexivity.
    + destruct (Nat.le_gt_cases b e).
      * lia.
      * rewrite wmax_empty by lia. reflexivity.
    + replace (Nat.min (t + e) (n2 - 1)) with (t + e) by lia.
      replace (Nat.min (t + e) (n1 - 1)) with (t + e) by lia.
      apply wmax_ext. intros i Hi. f_equal; [apply IHp2; auto; lia|].
      apply rmin_ext. intros j Hj. apply IHp1; auto; lia.
  - (* Precedes *) apply wmax_ext. intros i Hi. f_equal.
    + destruct (i + t <? e); [reflexivity|]. apply IHp2; auto; lia.
    + apply rmin_ext. intros j Hj. destruct (j + t <? e); [reflexivity|]. apply IHp1; auto; lia.
Qed.

(* pure-past values at t never depend on anything after t *)
Lemma past_hor (p : formula) : past_only p = true -> hor p = 0 /\ bounded_future p = true.
Proof.
  induction p; simpl; intros H; try discriminate; auto;
  try (apply andb_prop in H as [H1 H2]; destruct (IHp1 H1) as [-> ->]; destruct (IHp2 H2) as [-> ->]; auto).
Qed.

Corollary rho_past_prefix (p : formula) (w1 w2 : trace) (n1 n2 : nat) :
  extends w1 n1 w2 n2 -> past_only p = true ->
  forall t, t < n1 -> rho AR pk p w2 n2 t = rho AR pk p w1 n1 t.
Proof.
  intros He Hp t Ht. destruct (past_hor p Hp) as [Hh Hb].
  apply rho_extend; [exact He|exact Hb|lia].
Qed.

(* rho with length n reads only the first n samples *)
Theorem rho_local (p : formula) (w1 w2 : trace) (n : nat) :
  (forall x t, t < n -> sig w2 x t = sig w1 x t) ->
  forall t, t < n -> rho AR pk p w2 n t = rho AR pk p w1 n t.
Proof.
  intros Hsig. induction p; intros t Ht; cbn [rho].
  - apply Hsig. exact Ht.
  - reflexivity.
  - rewrite IHp by lia. reflexivity.
  - rewrite IHp1, IHp2 by lia. reflexivity.
  - rewrite IHp1, IHp2 by lia. reflexivity.
  - rewrite IHp by lia. reflexivity.
  - rewrite IHp1, IHp2 by lia. reflexivity.
  - rewrite IHp1, IHp2 by lia. reflexivity.
  - rewrite IHp1, IHp2 by lia. reflexivity.
  - rewrite IHp1, IHp2 by lia. reflexivity.
  - rewrite IHp1, IHp2 by lia. reflexivity.
  - rewrite (IHp t) by lia. destruct t as [|t']; [reflexivity|]. rewrite (IHp t') by lia. reflexivity.
  - rewrite (IHp t) by lia. destruct t as [|t']; [reflexivity|]. rewrite (IHp t') by lia. reflexivity.
  - destruct t as [|t']; [reflexivity|]. apply IHp; lia.
  - destruct t as [|t']; [reflexivity|]. apply IHp; lia.
  - destruct (Nat.ltb_spec (S t) n); [apply IHp; lia|reflexivity].
  - destruct (Nat.ltb_spec (S t) n); [apply IHp; lia|reflexivity].
  - apply wmax_ext. intros i Hi. apply IHp; lia.
  - apply wmin_ext. intros i Hi. apply IHp; lia.
  - apply wmax_ext. intros i Hi. f_equal; [apply IHp2; lia|]. apply wmin_ext. intros j Hj. apply IHp1; lia.
  - apply wmax_ext. intros i Hi. apply IHp; lia.
  - apply wmin_ext. intros i Hi. apply IHp; lia.
  - apply wmax_ext. intros i Hi. f_equal; [apply IHp2; lia|]. apply rmin_ext. intros j Hj. apply IHp1; lia.
  - destruct (t <? b); [reflexivity|]. apply wmax_ext. intros i Hi. apply IHp; lia.
  - destruct (t <? b); [reflexivity|]. apply wmin_ext. intros i Hi. apply IHp; lia.
  - destruct (t <? b); [reflexivity|]. apply wmax_ext. intros i Hi.
    f_equal; [apply IHp2; lia|]. apply wmin_ext. intros j Hj. apply IHp1; lia.
  - destruct (n <=? t + b); [reflexivity|]. apply wmax_ext. intros i Hi. apply IHp; lia.
  - destruct (n <=? t + b); [reflexivity|]. apply wmin_ext. intros i Hi. apply IHp; lia.
  - destruct (n <=? t + b); [reflexivity|]. apply wmax_ext. intros i Hi.
    f_equal; [apply IHp2; lia|]. apply rmin_ext. intros j Hj. apply IHp1; lia.
  - apply wmax_ext. intros i Hi. f_equal.
    + destruct (i + t <? e); [reflexivity|]. apply IHp2; lia.
    + apply rmin_ext. intros j Hj. destruct (j + t <? e); [reflexivity|]. apply IHp1; lia.
Qed.

End Extend.
