(* DenseMergeCorrect.v — the 13-case merge computes the point-wise combination
   of the two step functions on the common domain, for all strictly increasing
   sample lists; it never reaches the 'Unexpected case' branch. *)
From Coq Require Import List Bool Arith ZArith Lia ZifyBool.
From RV Require Import Val Syntax Rho Online Dense DenseMerge.
Import ListNotations.
Local Open Scope Z_scope.

Section MergeCorrect.
Context {VS : Val}.

Definition tle_z (a : tz) (t : Z) : bool := match a with T x => x <=? t | TInf => false end.
Fixpoint eden (l : esig) (t : Z) : option V :=
  match l with
  | [] => None
  | (a, v) :: r => if tle_z a t then match eden r t with Some w => Some w | None => Some v end else None
  end.
Fixpoint esorted (l : esig) : Prop :=
  match l with
  | [] => True
  | (a, _) :: r => match r with [] => True | (b, _) :: _ => tlt a b = true end /\ esorted r
  end.
Fixpoint ends_inf (l : esig) : Prop :=
  match l with
  | [] => False
  | (a, _) :: r => match r with [] => a = TInf | _ => ends_inf r end
  end.
Fixpoint dsorted (s : dsig) : Prop :=
  match s with
  | [] => True
  | (a, _) :: r => match r with [] => True | (b, _) :: _ => a < b end /\ dsorted r
  end.
Definition tmax (a b : tz) : tz := if tlt a b then b else a.
Definition all_before (out : esig) (m : tz) : Prop := forall a v, In (a, v) out -> tlt a m = true.

Definition lift2 (f : V -> V -> V) (a b : option V) : option V :=
  match a, b with Some x, Some y => Some (f x y) | _, _ => None end.

(* ---------------- decide ---------------- *)
Definition decide_ok (p1 c1 p2 c2 : tz) (a : action) : Prop :=
  match a with
  | Pop1 => tlt p2 c1 = false
  | Pop2 => tlt p1 c2 = false
  | Emit1 b => tlt p2 c1 = true /\ tlt p1 c2 = true /\ tlt c2 c1 = false /\ (if b then p2 else p1) = tmax p1 p2
  | Emit2 b => tlt p2 c1 = true /\ tlt p1 c2 = true /\ tlt c2 c1 = true /\ (if b then p2 else p1) = tmax p1 p2
  | Bad => False
  end.

Lemma decide_spec p1 c1 p2 c2 : tlt p1 c1 = true -> tlt p2 c2 = true -> decide_ok p1 c1 p2 c2 (decide p1 c1 p2 c2).
Proof.
  intros H1 H2. destruct p1 as [p1|]; [|discriminate]. destruct p2 as [p2|]; [|destruct c2; discriminate].
  unfold decide.
  destruct c1 as [c1|], c2 as [c2|]; cbn [tlt teq] in *;
  repeat match goal with
  | |- context [if ?b then _ else _] => let E := fresh "E" in destruct b eqn:E; [unfold decide_ok, tmax; cbn [tlt teq]|]
  end; unfold decide_ok; cbn [tlt teq]; try (repeat split; try lia);
  try (match goal with |- context [if ?b then _ else _] => destruct b eqn:? end);
  try reflexivity; try (f_equal; lia); try lia.
Qed.


(* ---------------- step functions over extended lists ---------------- *)
Lemma eden_cons_some a v r t w : tle_z a t = true -> eden r t = Some w -> eden ((a, v) :: r) t = Some w.
Proof. intros H1 H2. cbn [eden]. rewrite H1, H2. reflexivity. Qed.
Lemma eden_cons_none a v r t : tle_z a t = true -> eden r t = None -> eden ((a, v) :: r) t = Some v.
Proof. intros H1 H2. cbn [eden]. rewrite H1, H2. reflexivity. Qed.
Lemma eden_before a v r t : tle_z a t = false -> eden ((a, v) :: r) t = None.
Proof. intros H. cbn [eden]. rewrite H. reflexivity. Qed.

Lemma tle_z_trans a b t : tlt b a = false -> tle_z b t = true -> tle_z a t = true.
Proof. destruct a, b; cbn [tlt tle_z]; intros; try discriminate; lia. Qed.
Lemma tle_z_lt a b t : tlt a b = true -> tle_z b t = true -> tle_z a t = true.
Proof. destruct a, b; cbn [tlt tle_z]; intros; try discriminate; lia. Qed.
Lemma tlt_trans a b c : tlt a b = true -> tlt b c = true -> tlt a c = true.
Proof. destruct a, b, c; cbn [tlt]; intros; try discriminate; try reflexivity; lia. Qed.
Lemma tle_z_tmax a b t : tle_z (tmax a b) t = tle_z a t && tle_z b t.
Proof. unfold tmax. destruct a, b; cbn [tlt tle_z]; try reflexivity; try (destruct (_ <=? _); reflexivity).
  destruct (z <? z0) eqn:E; cbn [tle_z]; lia. Qed.

Lemma eden_head p v c w r t : tle_z p t = true -> tle_z c t = false -> eden ((p, v) :: (c, w) :: r) t = Some v.
Proof. intros H1 H2. apply eden_cons_none; [exact H1|]. apply eden_before. exact H2. Qed.
Lemma eden_tail p v c w r t : tlt p c = true -> tle_z c t = true -> eden ((p, v) :: (c, w) :: r) t = eden ((c, w) :: r) t.
Proof.
  intros H1 H2. destruct (eden ((c, w) :: r) t) as [x|] eqn:E.
  - apply eden_cons_some; [eapply tle_z_lt; eauto|exact E].
  - cbn [eden] in E. rewrite H2 in E. destruct (eden r t); discriminate.
Qed.

Lemma eden_app_after out a v t : tle_z a t = false -> eden (out ++ [(a, v)]) t = eden out t.
Proof.
  intros H. induction out as [|[b w] out IH]; cbn [app eden].
  - rewrite H. reflexivity.
  - rewrite IH. reflexivity.
Qed.
Lemma eden_all_le out t : out <> [] -> (forall a v, In (a, v) out -> tle_z a t = true) -> eden out t = Some (snd (last out (TInf, bot))).
Proof.
  induction out as [|[b w] out IH]; intros Hne H; [congruence|].
  destruct out as [|x out'].
  - cbn. rewrite (H b w (or_introl eq_refl)). reflexivity.
  - assert (E : eden (x :: out') t = Some (snd (last (x :: out') (TInf, bot)))).
    { apply IH; [discriminate|]. intros a v Hin. apply (H a v). right. exact Hin. }
    change (last ((b, w) :: x :: out') (TInf, bot)) with (last (x :: out') (TInf, bot)).
    apply eden_cons_some; [apply (H b w); left; reflexivity|exact E].
Qed.

Lemma eden_append out m v t :
  all_before out m ->
  eden (append_ out (m, v)) t = if tle_z m t then Some v else eden out t.
Proof.
  intros Hb. unfold append_.
  assert (Hle : tle_z m t = true -> forall a w, In (a, w) out -> tle_z a t = true).
  { intros Hm a w Hin. eapply tle_z_lt; [apply (Hb a w Hin)|exact Hm]. }
  destruct (rev out) as [|[pa pv] l] eqn:E.
  - assert (out = []) by (apply (f_equal (@rev _)) in E; rewrite rev_involutive in E; exact E). subst out.
    cbn. destruct (tle_z m t); reflexivity.
  - assert (Ho : out = rev l ++ [(pa, pv)]).
    { apply (f_equal (@rev _)) in E. rewrite rev_involutive in E. exact E. }
    cbn [snd]. unfold veq. destruct (v_eq_dec pv v) as [Heq|Hne].
    + destruct (tle_z m t) eqn:Hm; [|reflexivity].
      rewrite eden_all_le; [|rewrite Ho; destruct (rev l); discriminate|apply Hle; reflexivity].
      rewrite Ho, last_last. cbn. congruence.
    + destruct (tle_z m t) eqn:Hm.
      * rewrite eden_all_le.
        -- rewrite last_last. reflexivity.
        -- destruct out; discriminate.
        -- intros a w Hin. apply in_app_or in Hin as [Hin|[Hin|[]]]; [apply (Hle eq_refl a w Hin)|congruence].
      * apply eden_app_after. exact Hm.
Qed.

Lemma all_before_append out m m' v : all_before out m -> tlt m m' = true -> all_before (append_ out (m, v)) m'.
Proof.
  intros Hb Hm a w Hin. unfold append_ in Hin.
  assert (Hout : forall a w, In (a, w) out -> tlt a m' = true).
  { intros a' w' H'. eapply tlt_trans; [apply (Hb a' w' H')|exact Hm]. }
  destruct (rev out) as [|[pa pv] l].
  - destruct Hin as [Hin|[]]. congruence.
  - destruct (veq pv (snd (m, v))); [apply (Hout a w Hin)|].
    apply in_app_or in Hin as [Hin|[Hin|[]]]; [apply (Hout a w Hin)|congruence].
Qed.
Lemma all_before_weaken out m m' : all_before out m -> (forall a, tlt a m = true -> tlt a m' = true) -> all_before out m'.
Proof. intros Hb H a w Hin. apply H. apply (Hb a w Hin). Qed.

Ltac tz_crush :=
  unfold tmax; cbn [tlt teq tle_z]; intros;
  repeat (match goal with
          | |- context [if ?b then _ else _] => destruct b eqn:?
          | H : context [if ?b then _ else _] |- _ => destruct b eqn:?
          end; cbn [tlt teq tle_z] in * );
  try discriminate; try reflexivity; try lia.

Lemma tlt_tmax_mono1 a p1 c1 p2 : tlt p1 c1 = true -> tlt a (tmax p1 p2) = true -> tlt a (tmax c1 p2) = true.
Proof. destruct a, p1, c1, p2; tz_crush. Qed.
Lemma tlt_tmax_mono2 a p1 p2 c2 : tlt p2 c2 = true -> tlt a (tmax p1 p2) = true -> tlt a (tmax p1 c2) = true.
Proof. destruct a, p1, p2, c2; tz_crush. Qed.

(* ---------------- the loop ---------------- *)
Definition hd_time (l : esig) : tz := match l with (a, _) :: _ => a | [] => TInf end.

Section Loop.
Variable f : V -> V -> V.
Variables E1 E2 : esig.

Definition Inv (l1 l2 out : esig) : Prop :=
  esorted l1 /\ esorted l2 /\ ends_inf l1 /\ ends_inf l2 /\
  (forall t, tle_z (hd_time l1) t = true -> eden E1 t = eden l1 t) /\
  (forall t, tle_z (hd_time l2) t = true -> eden E2 t = eden l2 t) /\
  (forall t, tle_z (hd_time l1) t && tle_z (hd_time l2) t = false -> eden out t = lift2 f (eden E1 t) (eden E2 t)) /\
  all_before out (tmax (hd_time l1) (hd_time l2)).

Definition Post (out : esig) : Prop :=
  (forall t, eden out t = lift2 f (eden E1 t) (eden E2 t)) /\ all_before out TInf.

Lemma inv_done1 a v l2 out : Inv [(a, v)] l2 out -> Post out.
Proof.
  intros (_ & _ & Hi & _ & _ & _ & Ha & Hb). cbn in Hi. subst a. split.
  - intros t. apply Ha. reflexivity.
  - cbn [hd_time] in Hb. unfold tmax in Hb. cbn [tlt] in Hb. exact Hb.
Qed.
Lemma inv_done2 l1 a v out : Inv l1 [(a, v)] out -> Post out.
Proof.
  intros (_ & _ & _ & Hi & _ & _ & Ha & Hb). cbn in Hi. subst a. split.
  - intros t. apply Ha. cbn [hd_time tle_z]. apply andb_false_r.
  - cbn [hd_time] in Hb. unfold tmax in Hb. destruct (hd_time l1); cbn [tlt] in Hb; exact Hb.
Qed.
Lemma inv_nil1 l2 out : ~ Inv [] l2 out.
Proof. intros (_ & _ & Hi & _). exact Hi. Qed.
Lemma inv_nil2 l1 out : ~ Inv l1 [] out.
Proof. intros (_ & _ & _ & Hi & _). exact Hi. Qed.

Lemma inv_pop1 p1 v1 c1 w1 r1 l2 out :
  Inv ((p1, v1) :: (c1, w1) :: r1) l2 out -> tlt (hd_time l2) c1 = false ->
  Inv ((c1, w1) :: r1) l2 out.
Proof.
  intros (S1 & S2 & I1 & I2 & D1 & D2 & Ha & Hb) Hc.
  destruct S1 as [L1 S1]. cbn [hd_time] in *.
  split; [exact S1|]. split; [exact S2|]. split; [exact I1|]. split; [exact I2|].
  split; [|split; [exact D2|split]].
  - intros t Ht. rewrite D1 by (eapply tle_z_lt; eauto). apply eden_tail; assumption.
  - intros t Ht. apply Ha. destruct (tle_z (hd_time l2) t) eqn:E2'; [|apply andb_false_r].
    cbn [hd_time] in Ht. rewrite (tle_z_trans _ _ _ Hc E2') in Ht. discriminate.
  - eapply all_before_weaken; [exact Hb|]. intros a. apply tlt_tmax_mono1. exact L1.
Qed.

Lemma inv_pop2 l1 p2 v2 c2 w2 r2 out :
  Inv l1 ((p2, v2) :: (c2, w2) :: r2) out -> tlt (hd_time l1) c2 = false ->
  Inv l1 ((c2, w2) :: r2) out.
Proof.
  intros (S1 & S2 & I1 & I2 & D1 & D2 & Ha & Hb) Hc.
  destruct S2 as [L2 S2]. cbn [hd_time] in *.
  split; [exact S1|]. split; [exact S2|]. split; [exact I1|]. split; [exact I2|].
  split; [exact D1|split; [|split]].
  - intros t Ht. rewrite D2 by (eapply tle_z_lt; eauto). apply eden_tail; assumption.
  - intros t Ht. apply Ha. destruct (tle_z (hd_time l1) t) eqn:E1'; [|reflexivity].
    cbn [hd_time] in Ht. rewrite (tle_z_trans _ _ _ Hc E1') in Ht. discriminate.
  - eapply all_before_weaken; [exact Hb|]. intros a. apply tlt_tmax_mono2. exact L2.
Qed.

Lemma tlt_emit1 p1 c1 p2 : tlt p1 c1 = true -> tlt p2 c1 = true -> tlt (tmax p1 p2) (tmax c1 p2) = true.
Proof. destruct p1, c1, p2; tz_crush. Qed.
Lemma tlt_emit2 p1 p2 c2 : tlt p2 c2 = true -> tlt p1 c2 = true -> tlt (tmax p1 p2) (tmax p1 c2) = true.
Proof. destruct p1, p2, c2; tz_crush. Qed.

Lemma inv_emit1 p1 v1 c1 w1 r1 p2 v2 c2 w2 r2 out :
  Inv ((p1, v1) :: (c1, w1) :: r1) ((p2, v2) :: (c2, w2) :: r2) out ->
  tlt p2 c1 = true -> tlt c2 c1 = false ->
  Inv ((c1, w1) :: r1) ((p2, v2) :: (c2, w2) :: r2) (append_ out (tmax p1 p2, f v1 v2)).
Proof.
  intros (S1 & S2 & I1 & I2 & D1 & D2 & Ha & Hb) Ho Hc.
  destruct S1 as [L1 S1]. cbn [hd_time] in *.
  split; [exact S1|]. split; [exact S2|]. split; [exact I1|]. split; [exact I2|].
  split; [|split; [exact D2|split]].
  - intros t Ht. rewrite D1 by (eapply tle_z_lt; eauto). apply eden_tail; assumption.
  - intros t Ht. rewrite (eden_append _ _ _ _ Hb), tle_z_tmax.
    destruct (tle_z p1 t) eqn:T1, (tle_z p2 t) eqn:T2; cbn [andb];
      try (apply Ha; rewrite T1, T2; reflexivity).
    cbn [hd_time] in Ht. rewrite ?T2, ?andb_true_r in Ht.
    rewrite (D1 t T1), (D2 t T2), (eden_head _ _ _ _ _ _ T1 Ht).
    rewrite eden_head; [reflexivity|exact T2|].
    destruct (tle_z c2 t) eqn:T3; [|reflexivity]. rewrite (tle_z_trans _ _ _ Hc T3) in Ht. discriminate.
  - apply all_before_append; [exact Hb|]. apply tlt_emit1; assumption.
Qed.

Lemma inv_emit2 p1 v1 c1 w1 r1 p2 v2 c2 w2 r2 out :
  Inv ((p1, v1) :: (c1, w1) :: r1) ((p2, v2) :: (c2, w2) :: r2) out ->
  tlt p1 c2 = true -> tlt c2 c1 = true ->
  Inv ((p1, v1) :: (c1, w1) :: r1) ((c2, w2) :: r2) (append_ out (tmax p1 p2, f v1 v2)).
Proof.
  intros (S1 & S2 & I1 & I2 & D1 & D2 & Ha & Hb) Ho Hc.
  destruct S2 as [L2 S2]. cbn [hd_time] in *.
  split; [exact S1|]. split; [exact S2|]. split; [exact I1|]. split; [exact I2|].
  split; [exact D1|split; [|split]].
  - intros t Ht. rewrite D2 by (eapply tle_z_lt; eauto). apply eden_tail; assumption.
  - intros t Ht. rewrite (eden_append _ _ _ _ Hb), tle_z_tmax.
    destruct (tle_z p1 t) eqn:T1, (tle_z p2 t) eqn:T2; cbn [andb];
      try (apply Ha; rewrite T1, T2; reflexivity).
    cbn [hd_time] in Ht. rewrite ?T1 in Ht. cbn [andb] in Ht.
    rewrite (D1 t T1), (D2 t T2), (eden_head _ _ _ _ _ _ T2 Ht).
    rewrite eden_head; [reflexivity|exact T1|].
    destruct (tle_z c1 t) eqn:T3; [|reflexivity]. rewrite (tle_z_lt _ _ _ Hc T3) in Ht. discriminate.
  - apply all_before_append; [exact Hb|]. apply tlt_emit2; assumption.
Qed.

Lemma esorted_snoc out m v : esorted out -> all_before out m -> esorted (out ++ [(m, v)]).
Proof.
  induction out as [|[a w] r IH]; intros Hs Hb; [cbn; auto|].
  destruct Hs as [Hh Hs]. cbn [app esorted]. split.
  - destruct r as [|[b w'] r']; cbn [app]; [apply (Hb a w); left; reflexivity|exact Hh].
  - apply IH; [exact Hs|]. intros a' w' Hin. apply (Hb a' w'). right. exact Hin.
Qed.
Lemma esorted_append out m v : esorted out -> all_before out m -> esorted (append_ out (m, v)).
Proof.
  intros Hs Hb. unfold append_. destruct (rev out) as [|[pa pv] l] eqn:E; [cbn; auto|].
  destruct (veq pv (snd (m, v))); [exact Hs|]. apply esorted_snoc; assumption.
Qed.

Lemma isect_loop_correct : forall fuel l1 l2 out,
  (length l1 + length l2 <= S fuel)%nat -> Inv l1 l2 out -> esorted out ->
  exists out', isect_loop fuel f l1 l2 out = Some out' /\ Post out' /\ esorted out'.
Proof.
  induction fuel as [|fuel IH]; intros l1 l2 out Hlen HI Hso.
  - destruct l1 as [|x1 l1]; [destruct (inv_nil1 _ _ HI)|]. destruct l2 as [|x2 l2]; [destruct (inv_nil2 _ _ HI)|].
    cbn [length] in Hlen. lia.
  - destruct l1 as [|[p1 v1] l1]; [destruct (inv_nil1 _ _ HI)|]. destruct l2 as [|[p2 v2] l2]; [destruct (inv_nil2 _ _ HI)|].
    destruct l1 as [|[c1 w1] r1]; [exists out; split; [reflexivity|split; [eapply inv_done1; exact HI|exact Hso]]|].
    destruct l2 as [|[c2 w2] r2]; [exists out; split; [reflexivity|split; [eapply inv_done2; exact HI|exact Hso]]|].
    cbn [isect_loop].
    pose proof HI as (S1 & S2 & _). destruct S1 as [L1 _]. destruct S2 as [L2 _].
    pose proof (decide_spec p1 c1 p2 c2 L1 L2) as Hd.
    destruct (decide p1 c1 p2 c2) as [| |b|b|]; cbn [decide_ok] in Hd.
    + apply IH; [cbn [length] in *; lia| |exact Hso]. eapply inv_pop1; [exact HI|exact Hd].
    + apply IH; [cbn [length] in *; lia| |exact Hso]. eapply inv_pop2; [exact HI|exact Hd].
    + destruct Hd as (Ho1 & Ho2 & Hc & ->). pose proof HI as (_ & _ & _ & _ & _ & _ & _ & Hb).
      apply IH; [cbn [length] in *; lia| |apply esorted_append; assumption]. apply inv_emit1; assumption.
    + destruct Hd as (Ho1 & Ho2 & Hc & ->). pose proof HI as (_ & _ & _ & _ & _ & _ & _ & Hb).
      apply IH; [cbn [length] in *; lia| |apply esorted_append; assumption]. apply inv_emit2; assumption.
    + destruct Hd.
Qed.

End Loop.

(* ---------------- from sample lists to extended lists and back ---------------- *)
Definition inj (p : Z * V) : tz * V := (T (fst p), snd p).
Lemma eden_inj s v t : eden (map inj s ++ [(TInf, v)]) t = den_opt s t.
Proof.
  induction s as [|[ti vi] r IH]; [reflexivity|].
  cbn [map app eden den_opt inj fst snd tle_z]. rewrite IH. reflexivity.
Qed.
Lemma esorted_inj s v : dsorted s -> esorted (map inj s ++ [(TInf, v)]).
Proof.
  induction s as [|[ti vi] r IH]; intros H; [cbn; auto|].
  destruct H as [Hh Hs]. cbn [map app esorted inj fst snd]. split; [|apply IH; exact Hs].
  destruct r as [|[b w] r']; cbn [map app inj fst snd tlt]; [reflexivity|lia].
Qed.
Lemma ends_inf_inj s v : ends_inf (map inj s ++ [(TInf, v)]).
Proof.
  induction s as [|[ti vi] r IH]; [reflexivity|].
  cbn [map app ends_inf]. destruct (map inj r ++ [(TInf, v)]) eqn:E; [destruct (map inj r); discriminate|exact IH].
Qed.
Lemma extend_eq s : s <> [] -> extend s = map inj s ++ [(TInf, snd (last s (0, bot)))].
Proof. destruct s; [congruence|reflexivity]. Qed.

Lemma finite_den out : all_before out TInf -> forall t, den_opt (finite out) t = eden out t.
Proof.
  induction out as [|[a v] r IH]; intros Hb t; [reflexivity|].
  assert (Ha : tlt a TInf = true) by (apply (Hb a v); left; reflexivity).
  destruct a as [z|]; [|discriminate].
  unfold finite. cbn [flat_map fst snd app]. fold (finite r).
  cbn [den_opt eden tle_z]. rewrite IH; [reflexivity|]. intros a' v' Hin. apply (Hb a' v'). right. exact Hin.
Qed.
Lemma finite_sorted out : all_before out TInf -> esorted out -> dsorted (finite out).
Proof.
  induction out as [|[a v] r IH]; intros Hb Hs; [cbn; auto|].
  assert (Ha : tlt a TInf = true) by (apply (Hb a v); left; reflexivity).
  destruct a as [z|]; [|discriminate].
  assert (Hr : all_before r TInf) by (intros a' v' Hin; apply (Hb a' v'); right; exact Hin).
  destruct Hs as [Hh Hs].
  unfold finite. cbn [flat_map fst snd app]. fold (finite r). cbn [dsorted]. split; [|apply IH; assumption].
  destruct r as [|[b w] r']; [cbn; auto|].
  assert (Hbt : tlt b TInf = true) by (apply (Hr b w); left; reflexivity).
  destruct b as [zb|]; [|discriminate]. unfold finite. cbn [flat_map fst snd app]. cbn [tlt] in Hh. lia.
Qed.

Theorem isect_correct f s1 s2 :
  dsorted s1 -> dsorted s2 ->
  exists out, isect f s1 s2 = Some out /\ dsorted out /\
              forall t, den_opt out t = lift2 f (den_opt s1 t) (den_opt s2 t).
Proof.
  intros H1 H2. unfold isect.
  destruct s1 as [|x1 r1]; [exists []; split; [reflexivity|split; [cbn; auto|reflexivity]]|].
  destruct s2 as [|x2 r2].
  { exists []. split; [reflexivity|split; [cbn; auto|]]. intros t. change (den_opt [] t) with (@None V). destruct (den_opt (x1 :: r1) t); reflexivity. }
  set (s1 := x1 :: r1) in *. set (s2 := x2 :: r2) in *.
  rewrite !extend_eq by discriminate.
  set (e1 := map inj s1 ++ _). set (e2 := map inj s2 ++ _).
  destruct (isect_loop_correct f e1 e2 (length s1 + length s2 + 2) e1 e2 []) as (out & Hrun & [Hval Hfin] & Hsort).
  - unfold e1, e2. rewrite !app_length, !map_length. cbn [length]. lia.
  - unfold Inv. split; [apply esorted_inj; exact H1|]. split; [apply esorted_inj; exact H2|].
    split; [apply ends_inf_inj|]. split; [apply ends_inf_inj|].
    split; [reflexivity|]. split; [reflexivity|]. split.
    + intros t Ht. cbn [eden]. unfold e1, e2, s1, s2 in *. destruct x1 as [t1 v1], x2 as [t2 v2].
      cbn [map app inj fst snd hd_time tle_z eden] in *.
      destruct (t1 <=? t); cbn [andb] in Ht; [|reflexivity]. rewrite Ht.
      match goal with |- None = lift2 f ?a None => destruct a; reflexivity end.
    + intros a v [].
  - cbn; auto.
  - rewrite Hrun. cbn [option_map]. exists (finite out). split; [reflexivity|].
    split; [apply finite_sorted; assumption|].
    intros t. rewrite finite_den by exact Hfin. rewrite Hval. unfold e1, e2. rewrite !eden_inj. reflexivity.
Qed.


(* the result starts where the common domain starts *)
Lemma den_opt_start (s : dsig) : dsorted s -> s <> [] -> forall t, den_opt s t <> None <-> start s <= t.
Proof.
  intros Hs Hne t. destruct s as [|[t1 v1] r]; [congruence|]. cbn [den_opt start].
  destruct (Z.leb_spec t1 t) as [H|H].
  - split; [intros _; exact H|intros _]. destruct (den_opt r t); discriminate.
  - split; [congruence|lia].
Qed.

Lemma isect_start f s1 s2 out :
  dsorted s1 -> dsorted s2 -> s1 <> [] -> s2 <> [] -> isect f s1 s2 = Some out ->
  out <> [] /\ start out = Z.max (start s1) (start s2).
Proof.
  intros H1 H2 N1 N2 E.
  destruct (isect_correct f s1 s2 H1 H2) as (out' & E' & Hs & Hv). rewrite E in E'. injection E' as <-.
  assert (Hdef : forall t, den_opt out t <> None <-> Z.max (start s1) (start s2) <= t).
  { intros t. rewrite Hv. pose proof (den_opt_start s1 H1 N1 t) as D1. pose proof (den_opt_start s2 H2 N2 t) as D2.
    destruct (den_opt s1 t), (den_opt s2 t); cbn [lift2]; split; intros H; try congruence.
    - apply Z.max_lub; [apply D1|apply D2]; discriminate.
    - exfalso. apply (proj2 D2); [lia|reflexivity].
    - exfalso. apply (proj2 D1); [lia|reflexivity].
    - exfalso. apply (proj2 D1); [lia|reflexivity]. }
  assert (Hne : out <> []).
  { intros ->. apply (proj2 (Hdef (Z.max (start s1) (start s2)))); [lia|reflexivity]. }
  split; [exact Hne|].
  pose proof (den_opt_start out Hs Hne) as D.
  assert (A : start out <= Z.max (start s1) (start s2)) by (apply D, Hdef; lia).
  assert (B : Z.max (start s1) (start s2) <= start out) by (apply Hdef, D; lia).
  lia.
Qed.

End MergeCorrect.
