(* Transfer.v — moving rho-level facts to the two discrete-time monitors
   through C01 (offline = rho) and C02 (online = rho). *)
From Coq Require Import List Bool Arith Lia.
From RV Require Import Val Syntax Rho Offline ListFacts OfflineCorrect Online OnlineCorrect.
Import ListNotations.

Section Transfer.
Context {VS : Val} (AR : Arith VS).
Variable pk : formula -> formula -> pkind.

Definition off_ok (p : formula) (w : trace) (n : nat) : Prop :=
  1 <= n /\ wf_bounds p = true /\ wf_trace p w n.
Definition on_ok (p : formula) : Prop := past_only p = true /\ wf_bounds p = true.

Lemma off_equiv p q w n :
  off_ok p w n -> off_ok q w n ->
  (forall t, t < n -> rho AR pk p w n t = rho AR pk q w n t) ->
  eval_off AR pk p w n = eval_off AR pk q w n.
Proof.
  intros (H1 & H2 & H4) (_ & G2 & G4) H.
  rewrite !eval_off_correct by assumption. apply tab_ext. exact H.
Qed.

Lemma on_equiv p q w n len :
  on_ok p -> on_ok q -> len <= n ->
  (forall t, t < n -> rho AR pk p w n t = rho AR pk q w n t) ->
  snd (mon_run AR pk [p] dict_init w 0 len) = snd (mon_run AR pk [q] dict_init w 0 len).
Proof.
  intros [H1 H2] [G1 G2] Hl H.
  rewrite (online_correct AR pk w n [p] len), (online_correct AR pk w n [q] len);
    try discriminate; try (intros x [<-|[]]; auto).
  apply tab_ext. intros t Ht. apply H. lia.
Qed.

Lemma off_value p w n t d : off_ok p w n -> t < n ->
  nth t (eval_off AR pk p w n) d = rho AR pk p w n t.
Proof. intros (H1 & H2 & H4) Ht. apply eval_off_nth; assumption. Qed.

Lemma on_value p w n len t d : on_ok p -> t < len ->
  nth t (snd (mon_run AR pk [p] dict_init w 0 len)) d = rho AR pk p w n t.
Proof.
  intros [H1 H2] Ht. rewrite (online_correct AR pk w n [p] len); try discriminate.
  - apply nth_tab. exact Ht.
  - intros x [<-|[]]; auto.
Qed.

End Transfer.
