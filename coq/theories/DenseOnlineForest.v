(* DenseOnlineForest.v — the dense-time ONLINE monitor of a specification with SEVERAL assertions
   (sub-specifications "name = formula;" given in one text or through add_sub_spec, then the main assertion):

     rtamt/syntax/ast/parser/ltl/parser_visitor.py    visitAssertion: every assertion is appended to ast.specs, in
                                                      the order of the text (add_sub_spec texts come first);
                                                      visitExprId: an identifier that names an earlier assertion IS
                                                      the node of that assertion (no copy): the forest ast.specs is
                                                      the list of the formulas with every reference inlined (Shell.elab)
     rtamt/semantics/abstract_online_interpreter.py   AbstractOnlineUpdateVisitor.visitAst: self.visited = dict(), then
     rtamt/syntax/ast/visitor/abstract_ast_visitor.py visitAst: out = [visit(spec) for spec in ast.specs]
                                                      (visitSpec is never called: var_object_dict[node] is not written)
     rtamt/semantics/abstract_dense_time_online_interpreter.py
                                                      update: rob = visitAst(...); rob = rob[len(rob) - 1];
                                                      ast.results = updateVisitor.results; return rob
     rtamt/syntax/ast/parser/abstract_ast_parser.py   get_value(name): results[phi_name_to_node_dict[name]]

   One operator dictionary (keyed by the printed name of the node = by the formula), one memo [visited] per update, every
   assertion visited in the order of ast.specs.  [results] is keyed by node; every node reachable from ast.specs is
   written at every update (visitX or reuse) with visited[node.name]: after an update, results restricted to the names
   is the memo, and get_value(name of assertion j) is the j-th element of the list visitAst built.
   [None] is a Python exception (of an operation, or IndexError of rob[-1] on an empty forest, which parse() never builds). *)
From Coq Require Import List Bool Arith ZArith Lia.
From RV Require Import Val Syntax Rho Online Dense DenseMerge DenseOnlineFold DenseOnlineMon.
Import ListNotations.

Section Forest.
Context {VS : Val} (AR : Arith VS).
Variable pk : formula -> formula -> pkind.

(* visitAst: for spec in ast.specs: out.append(self.visit(spec, online_operator_dict, var_object_dict)) *)
Fixpoint forest_visit (env : list dsig) (F : list formula) (d : dict) (m : memo) : option (dict * memo * list esig) :=
  match F with
  | [] => Some (d, m, [])
  | p :: F' =>
      match visit AR pk env p d m with
      | None => None
      | Some (d1, m1, v) =>
          match forest_visit env F' d1 m1 with
          | None => None
          | Some (d2, m2, vs) => Some (d2, m2, v :: vs)
          end
      end
  end.

(* one update(dataset) seen from get_value: the memo at the end of the update (= results, by name) and the list [out]
   of visitAst (= results of the assertions, in the order of ast.specs) *)
Definition forest_step (F : list formula) (d : dict) (env : list dsig) : option (dict * (memo * list esig)) :=
  match forest_visit env F d [] with
  | Some (d', m', vs) => Some (d', (m', vs))
  | None => None
  end.

(* what update(dataset) returns: rob[len(rob) - 1] *)
Definition forest_update (F : list formula) (d : dict) (env : list dsig) : option (dict * esig) :=
  match forest_step F d env with
  | Some (d', (_, vs)) => match vs with [] => None | _ => Some (d', last vs []) end
  | None => None
  end.

(* set_ast: one fresh operation per name, whatever the number of assertions *)
Definition forest_init (F : list formula) : dict := op_init.

Definition forest_run (F : list formula) (d : dict) (envs : list (list dsig)) : option (dict * list (memo * list esig)) :=
  run_g (forest_step F) d envs.
Definition forest_run_out (F : list formula) (d : dict) (envs : list (list dsig)) : option (dict * list esig) :=
  run_g (forest_update F) d envs.

(* get_value(name of assertion j) after an update: the j-th result *)
Definition forest_get (j : nat) (r : memo * list esig) : esig := nth j (snd r) [].
(* get_value(printed text of a sub-formula a of some assertion) after an update *)
Definition forest_get_sub (a : formula) (r : memo * list esig) : option esig := lookup (fst r) a.

End Forest.
