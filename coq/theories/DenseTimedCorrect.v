(* DenseTimedCorrect.v — since_timed_operation / until_timed_operation (the compositions of DenseWin.v) compute the
   tick semantics of bounded since / until on signals that start at time 0. *)
From Coq Require Import List Bool Arith ZArith Lia.
From RV Require Import Val Syntax Rho ListFacts OfflineCorrect Online Dense DenseSem DenseFacts DenseMerge DenseMergeCorrect DenseMergeG DenseMergeGCorrect DenseEval DenseEvalCorrect DenseSinceCorrect DenseWin DenseWinCorrect DenseWinFut DenseTimedLaws.
Import ListNotations.
Local Open Scope Z_scope.

Section TimedCorrect.
Context {VS : Val} (AR : Arith VS).

Theorem good_since_timed s1 F1 s2 F2 b e : 0 <= b -> b <= e -> good s1 0 F1 -> good s2 0 F2 ->
  exists out, since_timed_op s1 s2 b e = Some out /\
    good out 0 (fun t => if t - b <? 0 then bot else zmax (fun t' => vmin (F2 t') (zmin F1 t' t)) (Z.max (t - e) 0) (t - b)).
Proof.
  intros Hb Hbe G1 G2. unfold since_timed_op.
  destruct (good_once_timed b e Hb Hbe s2 0 F2 G2 (or_intror eq_refl) ltac:(lia)) as (o1 & E1 & Go1). rewrite E1. cbn [obind].
  destruct (good_since s1 0 F1 s2 0 F2 G1 G2) as (o2 & E2 & Go2). rewrite E2. cbn [obind]. change (Z.max 0 0) with 0 in Go2.
  destruct (Z.ltb_spec 0 b) as [Hpos|Hz].
  - destruct (good_hist_timed o2 0 b 0 _ ltac:(lia) ltac:(lia) Go2 (or_introl eq_refl) ltac:(lia)) as (o3 & E3 & Go3). rewrite E3. cbn [obind].
    destruct (good_isect vmin _ _ _ _ _ _ Go1 Go3) as (out & E & Go). exists out. split; [exact E|]. change (Z.max 0 0) with 0 in Go.
    eapply good_ext; [exact Go|]. intros t Ht. cbn beta. destruct (Z.ltb_spec (t - b) 0); [apply vmin_bot_l|].
    rewrite (since_decomp F1 F2 b e t Hb Hbe) by lia. f_equal. rewrite Z.sub_0_r. destruct (Z.ltb_spec t 0); [lia|].
    replace (Z.max (t - b) 0) with (t - b) by lia. reflexivity.
  - assert (b = 0) by lia. subst b.
    destruct (good_isect vmin _ _ _ _ _ _ Go1 Go2) as (out & E & Go). exists out. split; [exact E|]. change (Z.max 0 0) with 0 in Go.
    eapply good_ext; [exact Go|]. intros t Ht. cbn beta. destruct (Z.ltb_spec (t - 0) 0); [lia|].
    rewrite (since_decomp F1 F2 0 e t ltac:(lia) Hbe) by lia. f_equal. rewrite Z.sub_0_r. symmetry. apply zmin_one.
Qed.

Theorem good_until_timed s1 F1 s2 F2 b e tend : 0 <= b -> b <= e ->
  (forall u, tend <= u -> F1 u = F1 tend /\ F2 u = F2 tend) ->
  good s1 0 F1 -> good s2 0 F2 ->
  exists out, until_timed_op s1 s2 b e = Some out /\
    good out 0 (fun t => zmax (fun t' => vmin (F2 t') (zmin F1 t t')) (t + b) (t + e)).
Proof.
  intros Hb Hbe Hc G1 G2. unfold until_timed_op.
  destruct (good_ev_timed b e Hb Hbe s2 F2 G2) as (o1 & E1 & Go1). rewrite E1. cbn [obind].
  destruct (good_until s1 0 F1 s2 0 F2 tend Hc G1 G2) as (o2 & E2 & Go2). rewrite E2. cbn [obind]. change (Z.max 0 0) with 0 in Go2.
  destruct (Z.ltb_spec 0 b) as [Hpos|Hz].
  - destruct (good_alw_timed o2 0 b _ ltac:(lia) ltac:(lia) Go2) as (o3 & E3 & Go3). rewrite E3. cbn [obind].
    destruct (good_isect vmin _ _ _ _ _ _ Go1 Go3) as (out & E & Go). exists out. split; [exact E|]. change (Z.max 0 0) with 0 in Go.
    eapply good_ext; [exact Go|]. intros t Ht. cbn beta.
    rewrite (until_decomp F1 F2 tend Hc b e t Hb Hbe). f_equal. rewrite Z.add_0_r. reflexivity.
  - assert (b = 0) by lia. subst b.
    destruct (good_isect vmin _ _ _ _ _ _ Go1 Go2) as (out & E & Go). exists out. split; [exact E|]. change (Z.max 0 0) with 0 in Go.
    eapply good_ext; [exact Go|]. intros t Ht. cbn beta.
    rewrite (until_decomp F1 F2 tend Hc 0 e t ltac:(lia) Hbe). f_equal. rewrite Z.add_0_r. symmetry. apply zmin_one.
Qed.

End TimedCorrect.
