(* PyParse.v — the run-time library of tools/py2coq_parservisitor.py: what the visitExprX / visitInterval methods of
   rtamt/syntax/ast/parser/{ltl,stl}/parser_visitor.py use besides the recursion through self.visit, as total Gallina
   functions.  The translator only composes these with the outcome monad (ParserDecl.bind); what a primitive means is
   decided here.

   Abstractions (the same as the hand models Elab.v / ParserDecl.v):
   * a parse-tree context is the tree the model parser returns (Parser.sexpr / itime / interval); the accessors of a
     context (ctx.expression(k), ctx.interval(), ctx.Identifier().getText(), ...) are the arguments of the constructor
     of the grammar alternative (the table alternative -> pattern is in the translator and checked against the .g4 files);
   * a node OBJECT is its canonical s-expression (harness/impl.py ast_dump, Elab.dump): [mk_Always c] is the dump of
     Always(c); the dictionary self.var_subspec_dict therefore holds dumps (ParserDecl.d_subs);
   * a number (int / Fraction) carries the text it was read from beside its exact value ([pnum]): the dump of a timed node
     prints the text, the checks of visitInterval use the value;
   * self is the state ParserDecl.dstate (const_val_dict = d_consts, var_subspec_dict = d_subs), the import oracle and the
     default unit; self.phi_name_to_node_dict is write-only in these methods and is not modelled.

   Hand-modelled and pinned by source digests in the translator (not translated): time_bound (Decimal / Fraction reading of a
   bound: [py_time_bound], the fragment Elab.lit_to_q), visitExprLiteral ([py_visitExprLiteral], the same fragment), the
   variable branch of visitExprId ([py_resolve_var]: create_var_from_name, the type checks, the implicit declaration:
   the else-branch of ParserDecl.visit_id). *)
From Coq Require Import List Bool Arith ZArith QArith Ascii String DecimalString.
From RV Require Import Lexer Parser Elab Offline ParserDecl.
Import ListNotations.
Local Open Scope string_scope.

(* ---- numbers ---- *)
Record pnum := { n_text : string; n_val : Q }.
Definition py_int (z : Z) : pnum := {| n_text := NilZero.string_of_int (Z.to_int z); n_val := inject_Z z |}.
Definition py_mul (a b : pnum) : pnum := {| n_text := ""; n_val := n_val a * n_val b |}.
Definition py_lt (a b : pnum) : bool := negb (Qle_bool (n_val b) (n_val a)).
Definition py_gt (a b : pnum) : bool := negb (Qle_bool (n_val a) (n_val b)).

(* ---- strings ---- *)
Definition py_truthy (s : string) : bool := negb (String.eqb s "").
(* s.replace(c, '') for a one-character c *)
Fixpoint py_remove_char (c : ascii) (s : string) : string :=
  match s with
  | EmptyString => EmptyString
  | String a r => if Ascii.eqb a c then py_remove_char c r else String a (py_remove_char c r)
  end.
(* float(text): a float is represented by the decimal text it was read from *)
Definition py_float (s : string) : string := s.

(* ---- dictionaries: k in d, d[k] (KeyError: an exception that is not RTAMTException) ---- *)
Definition py_in {V : Type} (k : string) (d : list (string * V)) : bool :=
  match lookup d k with Some _ => true | None => false end.
Definition py_getitem {V : Type} (d : list (string * V)) (k : string) : outcome V :=
  match lookup d k with Some v => Ok v | None => Crash end.

(* self.U (abstract_ast_parser.py) and self.unit *)
Definition py_U : list (string * pnum) :=
  [("s", py_int 1000000000); ("ms", py_int 1000000); ("us", py_int 1000); ("ns", py_int 1)].
Definition kw_unit_text (k : kw) : string :=
  match k with KS => "s" | KMs => "ms" | KUs => "us" | KNs => "ns" | _ => "" end.

(* ---- contexts of the rule intervalTime ---- *)
Definition it_text (t : itime) : string := match t with ILit s _ | IId s _ => s end.
Definition it_unit (t : itime) : option kw := match t with ILit _ u | IId _ u => u end.

(* ---- Interval(begin, end, begin_unit, end_unit) ---- *)
Record pinterval := { i_begin : pnum; i_end : pnum; i_begin_unit : string; i_end_unit : string }.
Definition mk_Interval (b e : pnum) (bu eu : string) : pinterval :=
  {| i_begin := b; i_end := e; i_begin_unit := bu; i_end_unit := eu |}.
Definition unit_show (u : string) : string := if String.eqb u "" then "_" else u.
Definition iv_b (i : pinterval) : string := n_text (i_begin i) ++ " " ++ unit_show (i_begin_unit i).
Definition iv_e (i : pinterval) : string := n_text (i_end i) ++ " " ++ unit_show (i_end_unit i).

(* ---- node constructors: the canonical s-expression of the object (labels: harness/impl.py _LABEL) ---- *)
Definition mk_Constant (v : string) : string := "(const " ++ v ++ ")".
Definition mk_Negate := d_un "neg".            Definition mk_Neg := d_un "not".
Definition mk_Always := d_un "always".         Definition mk_Eventually := d_un "eventually".
Definition mk_Historically := d_un "historically".   Definition mk_Once := d_un "once".
Definition mk_Previous := d_un "prev".         Definition mk_Next := d_un "next".
Definition mk_StrongPrevious := d_un "sprev".  Definition mk_StrongNext := d_un "snext".
Definition mk_Abs := d_un "abs".               Definition mk_Sqrt := d_un "sqrt".
Definition mk_Exp := d_un "exp".               Definition mk_Ln := d_un "ln".
Definition mk_Rise := d_un "rise".             Definition mk_Fall := d_un "fall".
Definition mk_Pow := d_bin "pow".              Definition mk_Log := d_bin "log".
Definition mk_Multiplication := d_bin "mul".   Definition mk_Division := d_bin "div".
Definition mk_Addition := d_bin "add".         Definition mk_Subtraction := d_bin "sub".
Definition mk_Until := d_bin "until".          Definition mk_Since := d_bin "since".
Definition mk_Conjunction := d_bin "and".      Definition mk_Disjunction := d_bin "or".
Definition mk_Implies := d_bin "implies".      Definition mk_Iff := d_bin "iff".
Definition mk_Xor := d_bin "xor".
Definition mk_Predicate (c1 c2 op : string) : string := d_bin ("pred " ++ op) c1 c2.
Definition mk_TimedAlways (c : string) (i : pinterval) := d_unt "always" (iv_b i) (iv_e i) c.
Definition mk_TimedEventually (c : string) (i : pinterval) := d_unt "eventually" (iv_b i) (iv_e i) c.
Definition mk_TimedHistorically (c : string) (i : pinterval) := d_unt "historically" (iv_b i) (iv_e i) c.
Definition mk_TimedOnce (c : string) (i : pinterval) := d_unt "once" (iv_b i) (iv_e i) c.
Definition mk_TimedUntil (c1 c2 : string) (i : pinterval) := d_bint "until" (iv_b i) (iv_e i) c1 c2.
Definition mk_TimedSince (c1 c2 : string) (i : pinterval) := d_bint "since" (iv_b i) (iv_e i) c1 c2.

(* self.comp_op_mod.StlComparisonOperator.X, as ast_dump prints it *)
Definition op_LESS := "lt".   Definition op_LEQ := "leq".   Definition op_GEQ := "geq".
Definition op_GREATER := "gt".   Definition op_EQUAL := "eq".   Definition op_NEQ := "neq".
(* ctx.comparisonOp().getText() *)
Definition cmp_sym (c : cmpk) : string :=
  match c with KLeq => "<=" | KGeq => ">=" | KLt => "<" | KGt => ">" | KEq => "==" | KNeq => "!=" end.

(* ---- pinned hand models ---- *)
(* time_bound(text): the exact value of a bound; 'is not a number' / 'is not a time bound': RTAMTException *)
Definition py_time_bound (text : string) : outcome pnum :=
  match lit_to_q text with Some q => Ok {| n_text := text; n_val := q |} | None => Rtamt end.

(* visitExprLiteral: Constant(float(text)) (the fragment of Elab: decimal literals) *)
Definition py_visitExprLiteral (st : dstate) (s : string) : outcome (dstate * string) :=
  match lit_to_q s with Some _ => Ok (st, mk_Constant s) | None => Rtamt end.

(* the last branch of visitExprId: the identifier is a variable (declared: type checks; not declared: implicitly a float signal,
   unless it has a field part); node = Variable(id_head, id_tail, var_io) *)
Definition py_resolve_var (orc : oracle) (st : dstate) (s : string) : outcome (dstate * string) :=
  let '(h, t) := head_tail s in
  bind (match assoc (d_types st) h with
        | Some ty =>
            match create_var orc st ty with
            | Ok i => match check_use i t with Ok _ => Ok st | Rtamt => Rtamt | Crash => Crash end
            | Rtamt => Rtamt
            | Crash => Crash
            end
        | None => if String.eqb t "" then declare_var orc st h "float" else Rtamt
        end)
       (fun st1 => Ok (st1, "(var " ++ s ++ ")")).

(* ---- the fragment on which the generated visitor is compared with the hand model ---- *)
(* what the grammar can produce: an interval only where the alternative has one, units that are units *)
Definition unit_ok (u : option kw) : bool := match u with Some k => is_unit k | None => true end.
Definition iv_shape_ok (iv : option interval) : bool :=
  match iv with Some (a, b) => unit_ok (it_unit a) && unit_ok (it_unit b) | None => true end.
Definition un_timed (o : unop) : bool := match o with UAlways | UEv | UHist | UOnce => true | _ => false end.
Definition bin_timed (o : binop) : bool := match o with BUntil | BUnless | BSince => true | _ => false end.
Definition no_iv (iv : option interval) : bool := match iv with None => true | Some _ => false end.
Fixpoint shape_ok (stl : bool) (e : sexpr) : bool :=
  match e with
  | EId _ | ELit _ => true
  | EUn o iv a => (if stl && un_timed o then iv_shape_ok iv else no_iv iv) && shape_ok stl a
  | EFun1 _ a => shape_ok stl a
  | EFun2 _ a b => shape_ok stl a && shape_ok stl b
  | EBin o iv a b => (if stl && bin_timed o then iv_shape_ok iv else no_iv iv) && shape_ok stl a && shape_ok stl b
  end.
(* the literals of the fragment of Elab.v: decimal, without '_' *)
Definition lit_plain (s : string) : bool := String.eqb (py_remove_char "_" s) s.
Definition it_lit_ok (t : itime) : bool := match t with ILit s _ => lit_plain s | IId _ _ => true end.
Definition iv_lits_ok (iv : option interval) : bool :=
  match iv with Some (a, b) => it_lit_ok a && it_lit_ok b | None => true end.
Fixpoint lits_ok (e : sexpr) : bool :=
  match e with
  | EId _ => true
  | ELit s => match lit_to_q s with Some _ => true | None => false end
  | EUn _ iv a => iv_lits_ok iv && lits_ok a
  | EFun1 _ a => lits_ok a
  | EFun2 _ a b => lits_ok a && lits_ok b
  | EBin _ iv a b => iv_lits_ok iv && lits_ok a && lits_ok b
  end.
