(* DenseOnlineMonCorrect.v — the dense-time ONLINE monitor as a whole (model DenseOnlineMon.v) computes the tick
   semantics rhoZ of DenseSem.v, whatever the sequence of batches in which the inputs are fed.

   PART 1 (EVERY formula)  [mon_run_tree]: sharing is not observable.  The monitor with its name-keyed operator
     dictionary and its per-update memo (equal sub-formulas SHARE one operation, stepped once per update) returns,
     update after update, exactly the lists of the tree-shaped composition [trun] in which every occurrence of a
     sub-formula has an operation of its own, run on the streams of lists returned by its operands; if [trun] raises
     nowhere, neither does the monitor.
   PART 2 (per operation)  what a stream of returned lists delivers ([feedsI], [GoodS]: read one after the other the lists
     deliver a strictly increasing signal S that starts at 0, a list possibly starting with a copy of the last sample
     already returned) and, for every operation, the stream it returns as a function of the streams it receives:
       [bin_stream_r] (and, or, ->, <->, xor, +, -, /, pow, log through intersection()), [mul_stream_r] (multiplication,
       which re-emits its last sample), [goodS_gmap] (not, abs, unary minus, exp, the read-out of a predicate),
       [fold_stream] (once, historically), [once_stream], [hist_stream] (once[b,e], historically[b,e]),
       [since_stream], [since_timed_stream] (the composition the code builds, with DenseTimedLaws.since_decomp),
       [const_r], [const_l] (an operand that is a constant [[0,c],[inf,c]]: the merge only compares stamps, section Param,
       so the +inf stamp behaves as any finite stamp beyond the other operand).
     The per-operation theorems of DenseOnlineMergeCorrect / FoldCorrect / WinCorrect are used through their step
     invariants (RInv, Inv, Inv0) and whole-run statements; what they did not export (every returned list has strictly
     increasing stamps) is proved here ([bin_update_sorted], [once_update_sorted], [once_update_sorted0]).
   PART 3 (the fragment [frag])  [frag_tree], [mon_online_correct], [mon_online_correct_cuts], [mon_online_chunking].
     frag: variables; abs, unary minus, exp; + - * / pow log, the six comparisons (standard semantics), and or -> <-> xor
     over two open operands or over an open operand and a constant; not; once, historically, since, once[b,e],
     historically[b,e], since[b,e] over open operands.  NOT in the fragment: sqrt and ln (they raise), a constant under a
     temporal operator or two constant operands (modelled and validated, not proved), the IA predicate kinds.
     Region: the outputs are proved correct from 0 to the LAST STAMP RETURNED, which is never beyond the last sample of any
     variable of the formula; that the last stamp returned IS the earliest of these last samples for since-free
     formulas (and strictly earlier under since, which keeps its last value back) is observed, not proved. *)
From Coq Require Import List Bool Arith ZArith Lia ZifyBool.
From RV Require Import Val Syntax Rho ListFacts OfflineCorrect Online Dense DenseSem DenseFacts DenseMerge DenseMergeCorrect
  DenseEval DenseEvalCorrect DenseSinceCorrect DenseWin DenseWinCorrect DenseTimedLaws
  DenseOnlineMerge DenseOnlineMergeCorrect DenseOnlineFold DenseOnlineFoldCorrect DenseOnlineWin DenseOnlineWinCorrect
  DenseOnlineMon.
From RV Require ExtZ.
Import ListNotations.
Local Open Scope Z_scope.

(* ================================================================== *)
(* sequences of updates                                                *)
(* ================================================================== *)
Section RunFacts.
Variables St B O : Type.
Variable upd : St -> B -> option (St * O).

Lemma run_g_app (st : St) (bs1 bs2 : list B) :
  run_g upd st (bs1 ++ bs2) =
  match run_g upd st bs1 with
  | None => None
  | Some (st1, os1) =>
      match run_g upd st1 bs2 with
      | None => None
      | Some (st2, os2) => Some (st2, os1 ++ os2)
      end
  end.
Proof.
  revert st. induction bs1 as [|b bs1 IH]; intros st; cbn [app run_g].
  - destruct (run_g upd st bs2) as [[st2 os2]|]; reflexivity.
  - destruct (upd st b) as [[st' o]|]; [|reflexivity]. rewrite IH.
    destruct (run_g upd st' bs1) as [[st1 os1]|]; [|reflexivity].
    destruct (run_g upd st1 bs2) as [[st2 os2]|]; reflexivity.
Qed.

Lemma run_g_length : forall (bs : list B) st st' os, run_g upd st bs = Some (st', os) -> length os = length bs.
Proof.
  induction bs as [|b bs IH]; intros st st' os H; cbn [run_g] in H.
  - injection H as _ <-. reflexivity.
  - destruct (upd st b) as [[st1 o]|]; [|discriminate]. destruct (run_g upd st1 bs) as [[st2 os2]|] eqn:E; [|discriminate].
    injection H as _ <-. cbn [length]. f_equal. apply (IH _ _ _ E).
Qed.

(* the state after the first k updates *)
Definition st_at (st : St) (bs : list B) (k : nat) : option St := option_map fst (run_g upd st (firstn k bs)).

Lemma st_at_cons st b bs st1 o k : upd st b = Some (st1, o) -> st_at st (b :: bs) (S k) = st_at st1 bs k.
Proof.
  intros E. unfold st_at. cbn [firstn run_g]. rewrite E.
  destruct (run_g upd st1 (firstn k bs)) as [[x y]|]; reflexivity.
Qed.

Lemma run_g_step (dB : B) (dO : O) : forall (bs : list B) st st' os k,
  run_g upd st bs = Some (st', os) -> (k < length bs)%nat ->
  exists s s', st_at st bs k = Some s /\ st_at st bs (S k) = Some s' /\ upd s (nth k bs dB) = Some (s', nth k os dO).
Proof.
  induction bs as [|b bs IH]; intros st st' os k H Hk; [cbn [length] in Hk; lia|].
  cbn [run_g] in H. destruct (upd st b) as [[st1 o]|] eqn:E1; [|discriminate].
  destruct (run_g upd st1 bs) as [[st2 os2]|] eqn:E2; [|discriminate]. injection H as <- <-.
  destruct k as [|k].
  - exists st, st1. rewrite (st_at_cons st b bs st1 o 0 E1). cbn [nth]. split; [reflexivity|]. split; [reflexivity|exact E1].
  - cbn [length] in Hk. destruct (IH st1 st2 os2 k E2 ltac:(lia)) as (s & s' & A1 & A2 & A3).
    exists s, s'. rewrite !(st_at_cons st b bs st1 o _ E1). cbn [nth]. split; [exact A1|]. split; [exact A2|exact A3].
Qed.

Lemma st_at_0 st bs : st_at st bs 0 = Some st.
Proof. reflexivity. Qed.

End RunFacts.
Arguments st_at {St B O} upd st bs k.

Lemma nth_map_lt {A B} (f : A -> B) : forall (l : list A) k dB dA, (k < length l)%nat -> nth k (map f l) dB = f (nth k l dA).
Proof.
  induction l as [|x l IH]; intros k dB dA Hk; cbn [length] in Hk; [lia|].
  destruct k as [|k]; cbn [map nth]; [reflexivity|]. apply IH. lia.
Qed.

(* ================================================================== *)
(* PART 1: sharing and the memo are not observable                     *)
(* ================================================================== *)
Section Tree.
Context {VS : Val} (AR : Arith VS).
Variable pk : formula -> formula -> pkind.
Variable envs : list (list dsig).      (* the data sets of the successive updates: one batch per variable index *)

Notation ustep := (ustep AR).
Notation bstep := (bstep AR pk).
Notation visit := (visit AR pk).
Notation mon_update := (mon_update AR pk).

Definition cstep (st : opst) (_ : unit) : option (opst * esig) :=
  match st with
  | SConst s => match const_update s tt with Some (s', out) => Some (SConst s', out) | None => None end
  | _ => None
  end.
Definition bstep2 (p : formula) (st : opst) (xy : esig * esig) : option (opst * esig) := bstep p st (fst xy) (snd xy).

(* the three ways the update visitor treats a node *)
Inductive shp := HVar (x : nat) | HConst | HUn (f : formula) | HBi (f g : formula) | HUnsup.
Definition shape (p : formula) : shp :=
  match p with
  | Var x => HVar x
  | Const _ => HConst
  | A1 _ f | Not f | Once f | Hist f | OnceT _ _ f | HistT _ _ f => HUn f
  | A2 _ f g | Pred _ f g | And f g | Or f g | Implies f g | Iff f g | Xor f g | Since f g | SinceT _ _ f g => HBi f g
  | _ => HUnsup
  end.

(* the tree-shaped composition: the lists returned, update after update, by the operation of p run on the streams
   returned by the operations of its operands; every occurrence of a sub-formula has its own operation *)
Fixpoint trun (p : formula) : option (list esig) :=
  match p with
  | Var x => Some (map (fun env => lift (nth x env [])) envs)
  | Const _ => option_map snd (run_g cstep (op_init p) (map (fun _ => tt) envs))
  | A1 _ f | Not f | Once f | Hist f | OnceT _ _ f | HistT _ _ f =>
      match trun f with
      | Some xs => option_map snd (run_g (ustep p) (op_init p) xs)
      | None => None
      end
  | A2 _ f g | Pred _ f g | And f g | Or f g | Implies f g | Iff f g | Xor f g | Since f g | SinceT _ _ f g =>
      match trun f, trun g with
      | Some xs, Some ys => option_map snd (run_g (bstep2 p) (op_init p) (combine xs ys))
      | _, _ => None
      end
  | _ => None
  end.

Definition outs_of (p : formula) : list esig := match trun p with Some o => o | None => [] end.
Definition cout (p : formula) (k : nat) : esig := nth k (outs_of p) [].
(* the state of the operation of p after k updates *)
Definition cst (p : formula) (k : nat) : opst :=
  match
    match shape p with
    | HVar _ => Some SNone
    | HConst => st_at cstep (op_init p) (map (fun _ => tt) envs) k
    | HUn f => st_at (ustep p) (op_init p) (outs_of f) k
    | HBi f g => st_at (bstep2 p) (op_init p) (combine (outs_of f) (outs_of g)) k
    | HUnsup => None
    end
  with Some s => s | None => SUnsup end.

Lemma trun_shape p :
  trun p =
  match shape p with
  | HVar x => Some (map (fun env => lift (nth x env [])) envs)
  | HConst => option_map snd (run_g cstep (op_init p) (map (fun _ => tt) envs))
  | HUn f => match trun f with Some xs => option_map snd (run_g (ustep p) (op_init p) xs) | None => None end
  | HBi f g => match trun f, trun g with
               | Some xs, Some ys => option_map snd (run_g (bstep2 p) (op_init p) (combine xs ys))
               | _, _ => None
               end
  | HUnsup => None
  end.
Proof. destruct p; reflexivity. Qed.

Lemma trun_length : forall p o, trun p = Some o -> length o = length envs.
Proof.
  induction p; intros o0 H; rewrite trun_shape in H; cbn [shape] in H; try discriminate;
  try (injection H as <-; apply map_length);
  try (destruct (run_g cstep _ _) as [[s os]|] eqn:E; [|discriminate]; injection H as <-;
       rewrite (run_g_length _ _ _ _ _ _ _ _ E); apply map_length);
  try (destruct (trun p) as [xs|] eqn:E1; [|discriminate];
       destruct (run_g _ _ xs) as [[s os]|] eqn:E; [|discriminate]; injection H as <-;
       rewrite (run_g_length _ _ _ _ _ _ _ _ E); apply IHp; reflexivity);
  try (destruct (trun p1) as [xs|] eqn:E1; [|discriminate]; destruct (trun p2) as [ys|] eqn:E2; [|discriminate];
       destruct (run_g _ _ (combine xs ys)) as [[s os]|] eqn:E; [|discriminate]; injection H as <-;
       rewrite (run_g_length _ _ _ _ _ _ _ _ E), combine_length, (IHp1 _ eq_refl), (IHp2 _ eq_refl); apply Nat.min_id).
Qed.

Fixpoint size (p : formula) : nat :=
  match p with
  | Var _ | Const _ => 1
  | A1 _ f | Not f | Rise f | Fall f | Prev f | SPrev f | Next f | SNext f
  | Once f | Hist f | Ev f | Alw f
  | OnceT _ _ f | HistT _ _ f | EvT _ _ f | AlwT _ _ f => S (size f)
  | A2 _ f g | Pred _ f g | And f g | Or f g | Implies f g | Iff f g | Xor f g
  | Since f g | Until f g
  | SinceT _ _ f g | UntilT _ _ f g | Precedes _ _ f g => S (size f + size g)
  end.

Lemma shape_un_size p f : shape p = HUn f -> (size f < size p)%nat.
Proof. destruct p; cbn [shape]; intros H; inversion H; subst; cbn [size]; lia. Qed.
Lemma shape_bi_size p f g : shape p = HBi f g -> (size f < size p)%nat /\ (size g < size p)%nat.
Proof. destruct p; cbn [shape]; intros H; inversion H; subst; cbn [size]; lia. Qed.

(* sub-formulas the update visitor reaches *)
Fixpoint subs (p : formula) : list formula :=
  p :: match p with
       | A1 _ f | Not f | Once f | Hist f | OnceT _ _ f | HistT _ _ f => subs f
       | A2 _ f g | Pred _ f g | And f g | Or f g | Implies f g | Iff f g | Xor f g | Since f g | SinceT _ _ f g =>
           subs f ++ subs g
       | _ => []
       end.
Lemma subs_shape p :
  subs p = p :: match shape p with HUn f => subs f | HBi f g => subs f ++ subs g | _ => [] end.
Proof. destruct p; reflexivity. Qed.
Lemma in_subs_self p : In p (subs p).
Proof. rewrite subs_shape. left. reflexivity. Qed.

Lemma subs_closed : forall sz (p a : formula), (size p <= sz)%nat -> In a (subs p) ->
  (forall f, shape a = HUn f -> In f (subs p)) /\
  (forall f g, shape a = HBi f g -> In f (subs p) /\ In g (subs p)).
Proof.
  induction sz as [|sz IH]; intros p a Hsz Ha.
  { destruct p; cbn [size] in Hsz; lia. }
  rewrite subs_shape in Ha |- *. destruct Ha as [<-|Ha].
  - split.
    + intros f E. rewrite E. right. apply in_subs_self.
    + intros f g E. rewrite E. split; right; apply in_or_app; [left|right]; apply in_subs_self.
  - destruct (shape p) eqn:Sh; try (destruct Ha; fail).
    + pose proof (shape_un_size _ _ Sh) as Hs. destruct (IH f a ltac:(lia) Ha) as [H1 H2]. split.
      * intros f0 E. right. apply H1. exact E.
      * intros f0 g0 E. destruct (H2 f0 g0 E). split; right; assumption.
    + pose proof (shape_bi_size _ _ _ Sh) as [Hs1 Hs2]. apply in_app_or in Ha as [Ha|Ha].
      * destruct (IH f a ltac:(lia) Ha) as [H1 H2]. split.
        -- intros f0 E. right. apply in_or_app. left. apply H1. exact E.
        -- intros f0 g0 E. destruct (H2 f0 g0 E). split; right; apply in_or_app; left; assumption.
      * destruct (IH g a ltac:(lia) Ha) as [H1 H2]. split.
        -- intros f0 E. right. apply in_or_app. right. apply H1. exact E.
        -- intros f0 g0 E. destruct (H2 f0 g0 E). split; right; apply in_or_app; right; assumption.
Qed.

(* a defined tree run is defined on every sub-formula *)
Lemma trun_subs : forall sz (p a : formula), (size p <= sz)%nat -> In a (subs p) -> trun p <> None -> trun a <> None.
Proof.
  induction sz as [|sz IH]; intros p a Hsz Ha Hp.
  { destruct p; cbn [size] in Hsz; lia. }
  rewrite subs_shape in Ha. destruct Ha as [<-|Ha]; [exact Hp|].
  rewrite trun_shape in Hp. destruct (shape p) eqn:Sh; try (destruct Ha; fail).
  - pose proof (shape_un_size _ _ Sh) as Hs. apply (IH f a ltac:(lia) Ha). destruct (trun f); [discriminate|congruence].
  - pose proof (shape_bi_size _ _ _ Sh) as [Hs1 Hs2]. apply in_app_or in Ha as [Ha|Ha].
    + apply (IH f a ltac:(lia) Ha). destruct (trun f); [discriminate|congruence].
    + apply (IH g a ltac:(lia) Ha). destruct (trun f); [|congruence]. destruct (trun g); [discriminate|congruence].
Qed.

(* ---- dictionary / memo facts ---- *)
Lemma feqb_refl a : feqb a a = true.
Proof. unfold feqb. destruct (formula_eq_dec a a); congruence. Qed.
Lemma feqb_ne a b : a <> b -> feqb a b = false.
Proof. unfold feqb. destruct (formula_eq_dec a b); congruence. Qed.
Lemma lookup_cons_eq a v (m : memo) : lookup ((a, v) :: m) a = Some v.
Proof. cbn [lookup]. rewrite feqb_refl. reflexivity. Qed.
Lemma lookup_cons_ne a b v (m : memo) : a <> b -> lookup ((b, v) :: m) a = lookup m a.
Proof. intros. cbn [lookup]. rewrite feqb_ne by assumption. reflexivity. Qed.
Lemma upd_eq (d : dict) a s : upd d a s a = s.
Proof. unfold upd. rewrite feqb_refl. reflexivity. Qed.
Lemma upd_ne (d : dict) a b s : b <> a -> upd d a s b = d b.
Proof. intros. unfold upd. rewrite feqb_ne by assumption. reflexivity. Qed.

Definition visit_const (p : formula) (d : dict) (m : memo) : option (dict * memo * esig) :=
  match cstep (d p) tt with
  | Some (s', out) => Some (upd d p s', (p, out) :: m, out)
  | None => None
  end.

Lemma visit_shape env p d m :
  visit env p d m =
  match shape p with
  | HVar x => let out := lift (nth x env []) in Some (d, (p, out) :: m, out)
  | HConst => match lookup m p with Some v => Some (d, m, v) | None => visit_const p d m end
  | HUn f => match lookup m p with Some v => Some (d, m, v) | None => visit_un AR p (visit env f) d m end
  | HBi f g => match lookup m p with Some v => Some (d, m, v)
               | None => visit_bi AR pk p (visit env f) (visit env g) d m end
  | HUnsup => match lookup m p with Some v => Some (d, m, v) | None => None end
  end.
Proof.
  destruct p; try reflexivity.
  cbn [DenseOnlineMon.visit shape]. destruct (lookup m (Const c)); [reflexivity|].
  unfold visit_const, cstep. destruct (d (Const c)); try reflexivity.
  destruct (const_update st tt) as [[s' out]|]; reflexivity.
Qed.

Definition memo_of (x : option (dict * memo * esig)) (m0 : memo) : memo :=
  match x with Some r => snd (fst r) | None => m0 end.

(* a visit only adds keys that are no larger than the visited formula *)
Lemma visit_keys env : forall sz p d m x u, (size p <= sz)%nat ->
  lookup (memo_of (visit env p d m) m) x = Some u -> lookup m x = Some u \/ (size x <= size p)%nat.
Proof.
  induction sz as [|sz IH]; intros p d m x u Hsz.
  { destruct p; cbn [size] in Hsz; lia. }
  rewrite visit_shape. destruct (shape p) eqn:Sh.
  - cbn [memo_of fst snd]. destruct (formula_eq_dec x p) as [->|Hne]; [right; lia|].
    rewrite lookup_cons_ne by assumption. auto.
  - destruct (lookup m p); [cbn [memo_of fst snd]; auto|]. unfold visit_const.
    destruct (cstep (d p) tt) as [[s' out]|]; cbn [memo_of fst snd]; [|auto].
    destruct (formula_eq_dec x p) as [->|Hne]; [right; lia|]. rewrite lookup_cons_ne by assumption. auto.
  - destruct (lookup m p); [cbn [memo_of fst snd]; auto|].
    pose proof (shape_un_size _ _ Sh) as Hs. specialize (IH f d m x u). unfold visit_un.
    destruct (visit env f d m) as [[[d1 m1] v1]|]; cbn [memo_of fst snd] in *; [|auto].
    destruct (ustep p (d1 p) v1) as [[s' out]|]; cbn [memo_of fst snd].
    + destruct (formula_eq_dec x p) as [->|Hne]; [right; lia|]. rewrite lookup_cons_ne by assumption.
      intros H. destruct (IH ltac:(lia) H); [auto|right; lia].
    + auto.
  - destruct (lookup m p); [cbn [memo_of fst snd]; auto|].
    pose proof (shape_bi_size _ _ _ Sh) as [Hs1 Hs2]. unfold visit_bi.
    pose proof (IH f d m x u) as IH1.
    destruct (visit env f d m) as [[[d1 m1] v1]|]; cbn [memo_of fst snd] in *; [|auto].
    pose proof (IH g d1 m1 x u) as IH2.
    destruct (visit env g d1 m1) as [[[d2 m2] v2]|]; cbn [memo_of fst snd] in *; [|auto].
    destruct (bstep p (d2 p) v1 v2) as [[s' out]|]; cbn [memo_of fst snd].
    + destruct (formula_eq_dec x p) as [->|Hne]; [right; lia|]. rewrite lookup_cons_ne by assumption.
      intros H. destruct (IH2 ltac:(lia) H) as [H2|]; [|right; lia]. destruct (IH1 ltac:(lia) H2); [auto|right; lia].
    + auto.
  - destruct (lookup m p); cbn [memo_of fst snd]; auto.
Qed.

(* ---- one step of each operation on its canonical state ---- *)
Variable root : formula.
Hypothesis Hroot : trun root <> None.
Definition D (a : formula) : Prop := In a (subs root).

Lemma D_un p f : D p -> shape p = HUn f -> D f.
Proof. intros H E. apply (proj1 (subs_closed (size root) root p (le_n _) H) f E). Qed.
Lemma D_bi p f g : D p -> shape p = HBi f g -> D f /\ D g.
Proof. intros H E. apply (proj2 (subs_closed (size root) root p (le_n _) H) f g E). Qed.
Lemma D_trun a : D a -> exists o, trun a = Some o /\ length o = length envs.
Proof.
  intros H. pose proof (trun_subs (size root) root a (le_n _) H Hroot) as Hn.
  destruct (trun a) as [o|] eqn:E; [|congruence]. exists o. split; [reflexivity|]. apply (trun_length a o E).
Qed.

Lemma cst_0 a : D a -> cst a 0 = op_init a.
Proof.
  intros Ha. unfold cst. destruct (shape a) eqn:Sh; try reflexivity.
  - destruct a; cbn [shape] in Sh; try discriminate. reflexivity.
  - exfalso. destruct (D_trun a Ha) as (o & E & _). rewrite trun_shape, Sh in E. discriminate.
Qed.

Lemma step_var a x k : shape a = HVar x -> (k < length envs)%nat ->
  cout a k = lift (nth x (nth k envs []) []) /\ cst a k = SNone.
Proof.
  intros Sh Hk. unfold cout, cst, outs_of. rewrite trun_shape, Sh. cbv beta iota. split; [|reflexivity].
  apply (nth_map_lt (fun env : list dsig => lift (nth x env [])) envs k [] [] Hk).
Qed.

Lemma step_const a k : D a -> shape a = HConst -> (k < length envs)%nat ->
  cstep (cst a k) tt = Some (cst a (S k), cout a k).
Proof.
  intros Ha Sh Hk. destruct (D_trun a Ha) as (o & E & Hl). unfold cout, cst, outs_of. rewrite E, Sh. cbv beta iota.
  rewrite trun_shape, Sh in E.
  destruct (run_g cstep (op_init a) (map (fun _ => tt) envs)) as [[s os]|] eqn:Er; [|discriminate]. injection E as <-.
  destruct (run_g_step _ _ _ cstep tt [] _ _ _ _ k Er ltac:(rewrite map_length; exact Hk)) as (s0 & s1 & A1 & A2 & A3).
  rewrite A1, A2. destruct (nth k (map (fun _ => tt) envs) tt). exact A3.
Qed.

Lemma step_un a f k : D a -> shape a = HUn f -> (k < length envs)%nat ->
  ustep a (cst a k) (cout f k) = Some (cst a (S k), cout a k).
Proof.
  intros Ha Sh Hk. destruct (D_trun a Ha) as (o & E & Hl). destruct (D_trun f (D_un _ _ Ha Sh)) as (xs & Ef & Hlf).
  unfold cout, cst, outs_of. rewrite E, Ef, Sh. cbv beta iota. rewrite Ef. rewrite trun_shape, Sh, Ef in E.
  destruct (run_g (ustep a) (op_init a) xs) as [[s os]|] eqn:Er; [|discriminate]. injection E as <-.
  destruct (run_g_step _ _ _ (ustep a) [] [] _ _ _ _ k Er ltac:(lia)) as (s0 & s1 & A1 & A2 & A3).
  rewrite A1, A2. exact A3.
Qed.

Lemma step_bi a f g k : D a -> shape a = HBi f g -> (k < length envs)%nat ->
  bstep a (cst a k) (cout f k) (cout g k) = Some (cst a (S k), cout a k).
Proof.
  intros Ha Sh Hk. destruct (D_trun a Ha) as (o & E & Hl). destruct (D_bi _ _ _ Ha Sh) as [Hf Hg].
  destruct (D_trun f Hf) as (xs & Ef & Hlf). destruct (D_trun g Hg) as (ys & Eg & Hlg).
  unfold cout, cst, outs_of. rewrite E, Ef, Eg, Sh. cbv beta iota. rewrite Ef, Eg. rewrite trun_shape, Sh, Ef, Eg in E.
  destruct (run_g (bstep2 a) (op_init a) (combine xs ys)) as [[s os]|] eqn:Er; [|discriminate]. injection E as <-.
  assert (Hkc : (k < length (combine xs ys))%nat) by (rewrite combine_length, Hlf, Hlg, Nat.min_id; exact Hk).
  destruct (run_g_step _ _ _ (bstep2 a) (@pair esig esig [] []) [] _ _ _ _ k Er Hkc) as (s0 & s1 & A1 & A2 & A3).
  rewrite A1, A2. rewrite (combine_nth xs ys k ([] : esig) ([] : esig)) in A3 by congruence. exact A3.
Qed.

(* ---- the invariant inside update number k ---- *)
Definition Inv (k : nat) (d : dict) (m : memo) : Prop :=
  (forall a, D a -> match lookup m a with
                    | Some v => v = cout a k /\ d a = cst a (S k)
                    | None => d a = cst a k
                    end) /\
  (forall a v, lookup m a = Some v -> forall b, In b (subs a) -> lookup m b <> None).

Definition post (k : nat) (p : formula) (m : memo) (res : option (dict * memo * esig)) : Prop :=
  match res with
  | None => False
  | Some (d', m', v) =>
      Inv k d' m' /\ v = cout p k /\ (forall b u, lookup m b = Some u -> lookup m' b = Some u) /\
      (forall b, In b (subs p) -> lookup m' b <> None)
  end.

Lemma post_node k p d0 m0 s' :
  D p -> Inv k d0 m0 -> lookup m0 p = None -> d0 p = cst p k -> s' = cst p (S k) ->
  (forall b, In b (subs p) -> b = p \/ lookup m0 b <> None) ->
  forall m, (forall b u, lookup m b = Some u -> lookup m0 b = Some u) ->
  post k p m (Some (upd d0 p s', (p, cout p k) :: m0, cout p k)).
Proof.
  intros HD [HI MC] L Hd -> Hsub m Hmono. unfold post.
  assert (Hgrow : forall b, lookup m0 b <> None -> lookup ((p, cout p k) :: m0) b <> None).
  { intros b Hb. destruct (formula_eq_dec b p) as [->|Hne]; [rewrite lookup_cons_eq; discriminate|].
    rewrite lookup_cons_ne by assumption. exact Hb. }
  assert (Hsubp : forall b, In b (subs p) -> lookup ((p, cout p k) :: m0) b <> None).
  { intros b Hb. destruct (Hsub b Hb) as [->|Hn]; [rewrite lookup_cons_eq; discriminate|apply Hgrow; exact Hn]. }
  split; [split|split; [|split]].
  - intros a Ha. destruct (formula_eq_dec a p) as [->|Hne].
    + rewrite lookup_cons_eq, upd_eq. auto.
    + rewrite lookup_cons_ne, upd_ne by assumption. apply HI. exact Ha.
  - intros a v La b Hb. destruct (formula_eq_dec a p) as [->|Hne].
    + apply Hsubp. exact Hb.
    + rewrite lookup_cons_ne in La by assumption. apply Hgrow. apply (MC a v La b Hb).
  - reflexivity.
  - intros b u Hb. apply Hmono in Hb. destruct (formula_eq_dec b p) as [->|Hne]; [congruence|].
    rewrite lookup_cons_ne by assumption. exact Hb.
  - exact Hsubp.
Qed.

Lemma post_hit k p d m e : D p -> Inv k d m -> lookup m p = Some e -> post k p m (Some (d, m, e)).
Proof.
  intros HD [HI MC] L. pose proof (HI p HD) as H. rewrite L in H. unfold post.
  split; [split; assumption|]. split; [tauto|]. split; [auto|]. intros b Hb. apply (MC p e L b Hb).
Qed.

Lemma visit_ok k : (k < length envs)%nat -> forall sz p d m, (size p <= sz)%nat -> D p -> Inv k d m ->
  post k p m (visit (nth k envs []) p d m).
Proof.
  intros Hk. induction sz as [|sz IH]; intros p d m Hsz HD HI.
  { destruct p; cbn [size] in Hsz; lia. }
  rewrite visit_shape. destruct (shape p) eqn:Sh.
  - (* variable: never looked up, always recorded *)
    destruct (step_var p x k Sh Hk) as [Eo Es]. cbv zeta. rewrite <- Eo.
    destruct HI as [HI MC]. unfold post.
    assert (Hsubs : subs p = [p]) by (rewrite subs_shape, Sh; reflexivity).
    assert (Hd : d p = SNone).
    { pose proof (HI p HD) as H. destruct (lookup m p); [destruct H as [_ H]; rewrite H|rewrite H];
      unfold cst; rewrite Sh; reflexivity. }
    split; [split|split; [|split]].
    + intros a Ha. destruct (formula_eq_dec a p) as [->|Hne].
      * rewrite lookup_cons_eq. split; [reflexivity|]. rewrite Hd. unfold cst. rewrite Sh. reflexivity.
      * rewrite lookup_cons_ne by assumption. apply HI. exact Ha.
    + intros a v La b Hb. destruct (formula_eq_dec a p) as [->|Hne].
      * rewrite Hsubs in Hb. destruct Hb as [<-|[]]. rewrite lookup_cons_eq. discriminate.
      * rewrite lookup_cons_ne in La by assumption. pose proof (MC a v La b Hb) as Hn.
        destruct (formula_eq_dec b p) as [->|Hne2]; [rewrite lookup_cons_eq; discriminate|].
        rewrite lookup_cons_ne by assumption. exact Hn.
    + reflexivity.
    + intros b u Hb. destruct (formula_eq_dec b p) as [->|Hne].
      * rewrite lookup_cons_eq. pose proof (HI p HD) as H. rewrite Hb in H. destruct H as [-> _]. reflexivity.
      * rewrite lookup_cons_ne by assumption. exact Hb.
    + intros b Hb. rewrite Hsubs in Hb. destruct Hb as [<-|[]]. rewrite lookup_cons_eq. discriminate.
  - (* constant *)
    destruct (lookup m p) eqn:L.
    { apply (post_hit k p d m e HD HI L). }
    pose proof (proj1 HI p HD) as Hp. rewrite L in Hp. unfold visit_const. rewrite Hp, (step_const p k HD Sh Hk).
    apply (post_node k p d m (cst p (S k)) HD HI L Hp eq_refl); [|auto].
    intros b Hb. rewrite subs_shape, Sh in Hb. destruct Hb as [<-|[]]. left. reflexivity.
  - (* unary *)
    destruct (lookup m p) eqn:L.
    { apply (post_hit k p d m e HD HI L). }
    pose proof (shape_un_size _ _ Sh) as Hs.
    pose proof (IH f d m ltac:(lia) (D_un _ _ HD Sh) HI) as IHf.
    pose proof (visit_keys (nth k envs []) (size f) f d m p) as K.
    unfold visit_un. destruct (visit (nth k envs []) f d m) as [[[d1 m1] v1]|]; [|destruct IHf].
    destruct IHf as (HI1 & Hv & Hmono & Hsub). cbn [memo_of fst snd] in K.
    assert (L1 : lookup m1 p = None).
    { destruct (lookup m1 p) eqn:L1; [|reflexivity]. exfalso.
      destruct (K e ltac:(lia) eq_refl) as [K1|K1]; [congruence|lia]. }
    pose proof (proj1 HI1 p HD) as Hp. rewrite L1 in Hp. rewrite Hp, Hv, (step_un p f k HD Sh Hk).
    apply (post_node k p d1 m1 (cst p (S k)) HD HI1 L1 Hp eq_refl); [|exact Hmono].
    intros b Hb. rewrite subs_shape, Sh in Hb. destruct Hb as [<-|Hb]; [left; reflexivity|right; apply Hsub; exact Hb].
  - (* binary *)
    destruct (lookup m p) eqn:L.
    { apply (post_hit k p d m e HD HI L). }
    pose proof (shape_bi_size _ _ _ Sh) as [Hs1 Hs2]. destruct (D_bi _ _ _ HD Sh) as [HD1 HD2].
    pose proof (IH f d m ltac:(lia) HD1 HI) as IHf.
    pose proof (visit_keys (nth k envs []) (size f) f d m p) as K1.
    unfold visit_bi. destruct (visit (nth k envs []) f d m) as [[[d1 m1] v1]|]; [|destruct IHf].
    destruct IHf as (HI1 & Hv1 & Hmono1 & Hsub1). cbn [memo_of fst snd] in K1.
    pose proof (IH g d1 m1 ltac:(lia) HD2 HI1) as IHg.
    pose proof (visit_keys (nth k envs []) (size g) g d1 m1 p) as K2.
    destruct (visit (nth k envs []) g d1 m1) as [[[d2 m2] v2]|]; [|destruct IHg].
    destruct IHg as (HI2 & Hv2 & Hmono2 & Hsub2). cbn [memo_of fst snd] in K2.
    assert (L2 : lookup m2 p = None).
    { destruct (lookup m2 p) eqn:L2; [|reflexivity]. exfalso.
      destruct (K2 e ltac:(lia) eq_refl) as [K|K]; [|lia]. destruct (K1 e ltac:(lia) K) as [K'|K']; [congruence|lia]. }
    pose proof (proj1 HI2 p HD) as Hp. rewrite L2 in Hp. rewrite Hp, Hv1, Hv2, (step_bi p f g k HD Sh Hk).
    apply (post_node k p d2 m2 (cst p (S k)) HD HI2 L2 Hp eq_refl).
    + intros b Hb. rewrite subs_shape, Sh in Hb. destruct Hb as [<-|Hb]; [left; reflexivity|right].
      apply in_app_or in Hb as [Hb|Hb]; [|apply Hsub2; exact Hb].
      pose proof (Hsub1 b Hb) as Hn. destruct (lookup m1 b) eqn:E; [|congruence]. rewrite (Hmono2 _ _ E). discriminate.
    + intros b u Hb. apply Hmono2, Hmono1, Hb.
  - (* a node the online visitor rejects has no tree run *)
    exfalso. destruct (D_trun p HD) as (o & E & _). rewrite trun_shape, Sh in E. discriminate.
Qed.

Definition Ready (k : nat) (d : dict) : Prop := forall a, D a -> d a = cst a k.

Lemma update_ok k d : (k < length envs)%nat -> Ready k d ->
  exists d', mon_update root d (nth k envs []) = Some (d', cout root k) /\ Ready (S k) d'.
Proof.
  intros Hk HR.
  assert (HI : Inv k d []).
  { split; [intros a Ha; cbn [lookup]; apply HR; exact Ha|]. intros a v L. discriminate. }
  pose proof (visit_ok k Hk (size root) root d [] (le_n _) (in_subs_self root) HI) as H.
  unfold DenseOnlineMon.mon_update. destruct (visit (nth k envs []) root d []) as [[[d' m'] v]|]; [|destruct H].
  destruct H as ([HI' _] & Hv & _ & Hsub). exists d'. split; [rewrite Hv; reflexivity|].
  intros a Ha. pose proof (HI' a Ha) as H. pose proof (Hsub a Ha) as Hn.
  destruct (lookup m' a); [tauto|congruence].
Qed.

Lemma run_from : forall rest pre d, envs = pre ++ rest -> Ready (length pre) d ->
  exists d', mon_run AR pk root d rest = Some (d', skipn (length pre) (outs_of root)).
Proof.
  induction rest as [|env rest IH]; intros pre d E HR.
  - exists d. unfold mon_run. cbn [run_g]. f_equal. f_equal. rewrite app_nil_r in E. subst pre.
    destruct (D_trun root (in_subs_self root)) as (o & Eo & Hl). unfold outs_of. rewrite Eo, <- Hl.
    symmetry. apply skipn_all.
  - assert (Hk : (length pre < length envs)%nat) by (rewrite E, app_length; cbn [length]; lia).
    assert (En : nth (length pre) envs [] = env) by (rewrite E, app_nth2, Nat.sub_diag by lia; reflexivity).
    destruct (update_ok (length pre) d Hk HR) as (d1 & E1 & HR1). rewrite En in E1.
    destruct (IH (pre ++ [env]) d1) as (d2 & E2).
    + rewrite <- app_assoc. exact E.
    + rewrite app_length. cbn [length]. rewrite Nat.add_1_r. exact HR1.
    + exists d2. unfold mon_run in *. cbn [run_g]. rewrite E1, E2. f_equal. f_equal.
      rewrite app_length. cbn [length]. rewrite Nat.add_1_r.
      destruct (D_trun root (in_subs_self root)) as (o & Eo & Hl). unfold cout, outs_of. rewrite Eo.
      assert (Hlo : (length pre < length o)%nat) by lia. clear - Hlo. revert o Hlo.
      induction (length pre) as [|j IHj]; intros [|x o] Hlo; cbn [length] in Hlo; try lia; [reflexivity|].
      cbn [skipn nth]. apply IHj. lia.
Qed.

End Tree.

Section TreeMain.
Context {VS : Val} (AR : Arith VS).
Variable pk : formula -> formula -> pkind.

(* Sharing is not observable.  If the tree-shaped composition of the operations of p (every occurrence of a
   sub-formula with an operation of its own, [trun]) runs through the updates [envs] without exception, so does the
   monitor (one operation per distinct sub-formula, stepped once per update through the memo), and it returns the
   same list at every update. *)
Theorem mon_run_tree (p : formula) (envs : list (list dsig)) (outs : list esig) :
  trun AR pk envs p = Some outs ->
  exists d, mon_run AR pk p (mon_init p) envs = Some (d, outs).
Proof.
  intros E. assert (Hroot : trun AR pk envs p <> None) by congruence.
  destruct (run_from AR pk envs p Hroot envs [] (mon_init p) eq_refl) as (d & H).
  - intros a Ha. symmetry. apply (cst_0 AR pk envs p Hroot a Ha).
  - exists d. rewrite H. cbn [length skipn]. unfold outs_of. rewrite E. reflexivity.
Qed.

End TreeMain.

(* ================================================================== *)
(* PART 2: streams of batches                                          *)
(* ================================================================== *)
(* What an operation returns, update after update, is a stream of batches [os].  Read one after the other the batches
   deliver a strictly increasing signal S: a batch carries the next samples, possibly preceded by a copy of the last
   sample delivered so far (the re-emitted boundary sample).  [feedsI A os S]: after A has been delivered, os delivers
   the rest of S. *)
Section Streams.
Context {VS : Val}.

Definition lastS (A : dsig) : Z * V := last A (0, bot).

Inductive batch_id (A b : dsig) : dsig -> Prop :=
| bi_plain : batch_id A b b
| bi_repeat : A <> [] -> batch_id A b (lastS A :: b).

Fixpoint feedsI (A : dsig) (os : list dsig) (S : dsig) : Prop :=
  match os with
  | [] => A = S
  | c :: os' => exists b, batch_id A b c /\ feedsI (A ++ b) os' S
  end.

Lemma lastS_stamp A : fst (lastS A) = lastT A.
Proof. reflexivity. Qed.

Lemma batch_id_of A b c : batch_id A b c -> batch_of A b c.
Proof.
  intros [|NA]; [constructor|]. pose proof (lastS_stamp A) as E. destruct (lastS A) as [t v]. cbn [fst] in E. subst t.
  constructor. exact NA.
Qed.

Lemma feedsI_feeds1 : forall os A S, feedsI A os S -> feeds1 A os S.
Proof.
  induction os as [|c os IH]; intros A S H; [exact H|]. destruct H as (b & Hb & H).
  exists b. split; [apply batch_id_of; exact Hb|apply IH; exact H].
Qed.

Lemma feedsI_feeds : forall xs ys A B S1 S2, length xs = length ys ->
  feedsI A xs S1 -> feedsI B ys S2 -> feeds A B (combine xs ys) S1 S2.
Proof.
  induction xs as [|c1 xs IH]; intros [|c2 ys] A B S1 S2 Hl H1 H2; cbn [length] in Hl; try discriminate.
  - split; assumption.
  - destruct H1 as (b1 & Hb1 & H1). destruct H2 as (b2 & Hb2 & H2). cbn [combine feeds].
    exists b1, b2. split; [apply batch_id_of; exact Hb1|]. split; [apply batch_id_of; exact Hb2|].
    apply IH; [lia|exact H1|exact H2].
Qed.

Lemma feedsI_prefix : forall os A S, feedsI A os S -> exists q, S = A ++ q.
Proof.
  induction os as [|c os IH]; intros A S H.
  - cbn [feedsI] in H. subst S. exists []. rewrite app_nil_r. reflexivity.
  - destruct H as (b & _ & H). destruct (IH _ _ H) as [q ->]. exists (b ++ q). rewrite app_assoc. reflexivity.
Qed.

Lemma feedsI_plain : forall os A, feedsI A os (A ++ concat os).
Proof.
  induction os as [|c os IH]; intros A.
  - cbn [concat feedsI]. rewrite app_nil_r. reflexivity.
  - cbn [concat feedsI]. exists c. split; [constructor|]. rewrite app_assoc. apply IH.
Qed.

Lemma feedsI_nil_all : forall os A S, feedsI A os S -> S = [] -> forall c, In c os -> c = [].
Proof.
  induction os as [|c os IH]; intros A S H E x Hx; [destruct Hx|].
  destruct H as (b & Hb & H). destruct (feedsI_prefix _ _ _ H) as [q Eq]. rewrite E in Eq.
  symmetry in Eq. apply app_eq_nil in Eq as [Eq _]. apply app_eq_nil in Eq as [EA Eb]. subst A b.
  destruct Hx as [<-|Hx].
  - destruct Hb as [|NA]; [reflexivity|congruence].
  - apply (IH _ _ H E x Hx).
Qed.

(* ---- sorted lists ---- *)
Lemma dsorted_app_intro (a b : dsig) :
  dsorted a -> dsorted b -> (a <> [] -> b <> [] -> lastT a < start b) -> dsorted (a ++ b).
Proof.
  induction a as [|[p v] a IH]; intros Ha Hb Hlt; [exact Hb|].
  destruct Ha as [Hh Ha]. cbn [app dsorted]. split.
  - destruct a as [|[c w] a']; cbn [app]; [|exact Hh].
    destruct b as [|[c w] b']; [exact I|]. apply (Hlt ltac:(discriminate) ltac:(discriminate)).
  - apply IH; [exact Ha|exact Hb|]. intros Na Nb. destruct a as [|x a']; [congruence|].
    rewrite <- (lastT_cons (p, v) x a'). apply Hlt; [discriminate|exact Nb].
Qed.

Lemma lastS_app (a b : dsig) : b <> [] -> lastS (a ++ b) = lastS b.
Proof.
  intros Nb. unfold lastS. induction a as [|x a IH]; [reflexivity|].
  cbn [app]. destruct (a ++ b) as [|y q] eqn:E; [destruct a; [cbn [app] in E; congruence|discriminate]|]. exact IH.
Qed.
Lemma lastS_in (a : dsig) : a <> [] -> In (lastS a) a.
Proof. apply in_last. Qed.
Lemma split_last (a : dsig) : a <> [] -> a = removelast a ++ [lastS a].
Proof. intros Na. apply app_removelast_last. exact Na. Qed.

Lemma den_at_last (R : dsig) : wsorted R -> R <> [] -> den_opt R (lastT R) = Some (snd (lastS R)).
Proof.
  intros W N. apply den_all_le; [exact N|]. intros a v Hin. apply (wsorted_le_last R W a v Hin).
Qed.

(* ---- the raw stream (plain concatenation) and the signal it delivers ---- *)
Record same (R A : dsig) : Prop := {
  sm_den : forall t, den_opt R t = den_opt A t;
  sm_ws : wsorted R;
  sm_last : lastS R = lastS A;
  sm_nil : R = [] <-> A = [];
  sm_in : forall x, In x R <-> In x A;
  sm_start : start R = start A
}.

Lemma same_refl A : wsorted A -> same A A.
Proof. intros W. constructor; try reflexivity; try exact W; tauto. Qed.

Lemma start_app_same (R A o : dsig) : (R = [] <-> A = []) -> start R = start A -> start (R ++ o) = start (A ++ o).
Proof.
  intros Hn Hs. destruct R as [|x R'].
  - assert (A = []) by (apply Hn; reflexivity). subst A. reflexivity.
  - destruct A as [|y A']; [exfalso; assert (E : x :: R' = []) by (apply Hn; reflexivity); discriminate|]. exact Hs.
Qed.

Lemma same_plain R A o : same R A -> wsorted (R ++ o) -> wsorted (A ++ o) -> same (R ++ o) (A ++ o).
Proof.
  intros [Hd Hw Hl Hn Hi Hst] W1 W2. constructor.
  - intros t. rewrite (den_app_ws R o t W1), (den_app_ws A o t W2), Hd. reflexivity.
  - exact W1.
  - destruct o as [|x o']; [rewrite !app_nil_r; exact Hl|]. rewrite !lastS_app by discriminate. reflexivity.
  - split; intros E; apply app_eq_nil in E as [E1 E2]; subst o; rewrite app_nil_r; tauto.
  - intros x. rewrite !in_app_iff, Hi. reflexivity.
  - apply start_app_same; assumption.
Qed.

Lemma same_repeat R A r :
  same R A -> A <> [] -> wsorted (R ++ lastS A :: r) -> wsorted (A ++ r) -> same (R ++ lastS A :: r) (A ++ r).
Proof.
  intros [Hd Hw Hl Hn Hi Hst] NA W1 W2.
  assert (NR : R <> []) by tauto.
  assert (W3 : wsorted (R ++ r)).
  { apply wsorted_app; [exact Hw|apply (wsorted_app_r _ _ W2)|]. intros a v b w Ha Hb.
    apply (wsorted_app_le _ _ W1 a v b w Ha). right. exact Hb. }
  constructor.
  - intros t. rewrite (split_last R NR), Hl, <- app_assoc. cbn [app]. rewrite den_opt_dup.
    change (removelast R ++ lastS A :: r) with (removelast R ++ [lastS A] ++ r). rewrite app_assoc, <- Hl, <- (split_last R NR).
    rewrite (den_app_ws R r t W3), (den_app_ws A r t W2), Hd. reflexivity.
  - exact W1.
  - destruct r as [|x r'].
    + rewrite app_nil_r. rewrite lastS_app by discriminate. reflexivity.
    + rewrite (lastS_app R) by discriminate. rewrite (lastS_app A) by discriminate.
      unfold lastS. reflexivity.
  - split; intros E; apply app_eq_nil in E as [E1 E2]; [discriminate|tauto].
  - intros x. rewrite !in_app_iff. cbn [In]. rewrite Hi. split.
    + intros [H|[<-|H]]; [left; exact H|left; apply lastS_in; exact NA|right; exact H].
    + intros [H|H]; [left; exact H|right; right; exact H].
  - rewrite !start_app by assumption. exact Hst.
Qed.

Lemma dsorted_parts (a b : dsig) : dsorted (a ++ b) -> forall x v y w, In (x, v) a -> In (y, w) b -> x < y.
Proof.
  induction a as [|[p u] a IH]; intros H x v y w Ha Hb; [destruct Ha|].
  cbn [app] in H. destruct Ha as [Ha|Ha].
  - injection Ha as <- _. pose proof (dsorted_lb _ _ _ H y w) as Hl.
    specialize (Hl ltac:(apply in_or_app; right; exact Hb)). lia.
  - apply (IH (dsorted_tl _ _ H) x v y w Ha Hb).
Qed.

Lemma same_batch R A b c : same R A -> batch_id A b c -> dsorted (A ++ b) -> same (R ++ c) (A ++ b).
Proof.
  intros HR Hb SAb.
  assert (Wb : wsorted b) by (apply dsorted_wsorted; apply (dsorted_app_r A); exact SAb).
  destruct Hb as [|NA].
  - apply (same_plain R A b HR); [|apply dsorted_wsorted; exact SAb].
    apply wsorted_app; [exact (sm_ws _ _ HR)|exact Wb|]. intros x v y w Hx Hy.
    apply (sm_in _ _ HR) in Hx. pose proof (dsorted_parts _ _ SAb x v y w Hx Hy). lia.
  - apply (same_repeat R A b HR NA); [|apply dsorted_wsorted; exact SAb].
    apply wsorted_app; [exact (sm_ws _ _ HR)| |].
    + destruct (lastS A) as [ta va] eqn:El. cbn [wsorted]. split; [|exact Wb].
      destruct b as [|[tb vb] b']; [exact I|].
      pose proof (lastS_in A NA) as Hin. rewrite El in Hin.
      pose proof (dsorted_parts _ _ SAb ta va tb vb Hin (or_introl eq_refl)). lia.
    + intros x v y w Hx Hy. apply (sm_in _ _ HR) in Hx.
      pose proof (wsorted_le_last A (dsorted_wsorted _ (dsorted_app_l _ _ SAb)) x v Hx) as Hle.
      destruct Hy as [Hy|Hy].
      * rewrite <- lastS_stamp in Hle. rewrite Hy in Hle. cbn [fst] in Hle. exact Hle.
      * pose proof (dsorted_parts _ _ SAb x v y w Hx Hy). lia.
Qed.

Lemma feedsI_same : forall os A S R, feedsI A os S -> dsorted S -> same R A -> same (R ++ concat os) S.
Proof.
  induction os as [|c os IH]; intros A S R H HS HR.
  - cbn [feedsI] in H. subst S. cbn [concat]. rewrite app_nil_r. exact HR.
  - destruct H as (b & Hb & H). destruct (feedsI_prefix _ _ _ H) as [q Eq].
    assert (SAb : dsorted (A ++ b)) by (apply (dsorted_app_l _ q); rewrite <- Eq; exact HS).
    cbn [concat]. rewrite app_assoc. apply (IH (A ++ b) S (R ++ c) H HS). apply same_batch; assumption.
Qed.

(* the facts about the plain concatenation of a stream *)
Lemma feedsI_concat os S : feedsI [] os S -> dsorted S -> same (concat os) S.
Proof. intros H HS. apply (feedsI_same os [] S [] H HS). apply same_refl. exact I. Qed.

(* ---- from the raw invariants of an operation to the stream it delivers ---- *)
Lemma stream_step (O SO o : dsig) (F : Z -> V) (K K' : Z) :
  same O SO -> dsorted SO -> (SO <> [] -> start SO = 0) ->
  (forall a v, In (a, v) O -> 0 <= a <= K) -> (forall t, 0 <= t <= K -> den_opt O t = Some (F t)) ->
  wsorted (O ++ o) -> dsorted o ->
  (forall a v, In (a, v) (O ++ o) -> 0 <= a <= K') -> (forall t, 0 <= t <= K' -> den_opt (O ++ o) t = Some (F t)) ->
  exists b, batch_id SO b o /\ same (O ++ o) (SO ++ b) /\ dsorted (SO ++ b) /\ (SO ++ b <> [] -> start (SO ++ b) = 0).
Proof.
  intros HS DS H0 HinO HdO W Do Hin' Hd'.
  destruct o as [|[a v] r].
  { exists []. split; [constructor|]. rewrite !app_nil_r. split; [exact HS|]. split; [exact DS|exact H0]. }
  destruct SO as [|x0 SO'].
  - (* nothing delivered yet *)
    assert (EO : O = []) by (apply (sm_nil _ _ HS); reflexivity). subst O. cbn [app] in *.
    exists ((a, v) :: r). split; [constructor|]. split; [apply same_refl; exact W|]. split; [exact Do|].
    intros _. cbn [start]. pose proof (Hin' a v (or_introl eq_refl)) as Ha.
    pose proof (Hd' 0 ltac:(lia)) as E0. rewrite den_opt_cons in E0. destruct (Z.leb_spec a 0); [lia|discriminate].
  - set (SO := x0 :: SO') in *. assert (NS : SO <> []) by discriminate.
    assert (NO : O <> []) by (intros E; apply NS; apply (sm_nil _ _ HS); exact E).
    destruct (lastS SO) as [a0 v0] eqn:El.
    assert (HinS : In (a0, v0) SO) by (rewrite <- El; apply lastS_in; exact NS).
    assert (HinO0 : In (a0, v0) O) by (apply (sm_in _ _ HS); exact HinS).
    assert (Ea0 : lastT O = a0) by (rewrite <- lastS_stamp, (sm_last _ _ HS), El; reflexivity).
    assert (Hle : a0 <= a) by (apply (wsorted_app_le _ _ W a0 v0 a v HinO0); left; reflexivity).
    assert (Hr : forall b w, In (b, w) r -> a < b).
    { intros b w Hb. pose proof (dsorted_lb _ _ _ Do b w Hb). lia. }
    destruct (Z.eq_dec a a0) as [->|Hne].
    + (* the batch starts with a copy of the last sample delivered *)
      assert (Ev : v = v0).
      { pose proof (HinO a0 v0 HinO0) as Hr0.
        pose proof (den_at_last O (sm_ws _ _ HS) NO) as E1. rewrite Ea0, (sm_last _ _ HS), El in E1. cbn [snd] in E1.
        rewrite (HdO a0 Hr0) in E1.
        pose proof (Hin' a0 v (in_or_app O ((a0, v) :: r) (a0, v) (or_intror (or_introl eq_refl)))) as Hr1.
        pose proof (Hd' a0 Hr1) as E2. rewrite (den_app_ws _ _ _ W), den_opt_cons, Z.leb_refl in E2.
        rewrite (den_opt_before r a0) in E2 by (intros b w Hb; pose proof (Hr b w Hb); lia). congruence. }
      subst v. exists r. rewrite <- El.
      assert (DSr : dsorted (SO ++ r)).
      { apply dsorted_app_intro; [exact DS|apply (dsorted_tl _ _ Do)|]. intros _ Nr.
        rewrite <- lastS_stamp, El. cbn [fst]. destruct r as [|[b w] r']; [congruence|]. cbn [start].
        apply (Hr b w). left. reflexivity. }
      split; [constructor; exact NS|]. split; [|split; [exact DSr|]].
      * apply (same_repeat O SO r HS NS); [rewrite El; exact W|apply dsorted_wsorted; exact DSr].
      * intros _. rewrite start_app by exact NS. apply H0. exact NS.
    + (* the batch continues strictly after *)
      exists ((a, v) :: r).
      assert (DSo : dsorted (SO ++ (a, v) :: r)).
      { apply dsorted_app_intro; [exact DS|exact Do|]. intros _ _. rewrite <- lastS_stamp, El. cbn [fst start]. lia. }
      split; [constructor|]. split; [|split; [exact DSo|]].
      * apply (same_plain O SO _ HS W). apply dsorted_wsorted. exact DSo.
      * intros _. rewrite start_app by exact NS. apply H0. exact NS.
Qed.

End Streams.

(* ================================================================== *)
(* the stream returned by each operation                               *)
(* ================================================================== *)
Section OpStreams.
Context {VS : Val}.

(* the stream os delivers S, which starts at 0 and denotes F as far as it goes *)
Definition GoodS (os : list dsig) (S : dsig) (F : Z -> V) : Prop :=
  feedsI [] os S /\ dsorted S /\ (S <> [] -> start S = 0) /\
  (forall t, S <> [] -> 0 <= t <= lastT S -> den_opt S t = Some (F t)).

Lemma goodS_ext os S F G : GoodS os S F -> (forall t, S <> [] -> 0 <= t <= lastT S -> F t = G t) -> GoodS os S G.
Proof.
  intros (H1 & H2 & H3 & H4) E. split; [exact H1|]. split; [exact H2|]. split; [exact H3|].
  intros t N Ht. rewrite (H4 t N Ht), (E t N Ht). reflexivity.
Qed.

Lemma goodS_den os S F t : GoodS os S F -> S <> [] -> 0 <= t <= lastT S -> den S t = F t.
Proof. intros (_ & _ & _ & H) N Ht. unfold den. rewrite (H t N Ht). reflexivity. Qed.

Lemma dsorted_nonneg (S : dsig) : dsorted S -> (S <> [] -> start S = 0) -> 0 <= lastT S.
Proof.
  intros D Z0. destruct S as [|[a v] r]; [unfold lastT; cbn [last fst]; lia|].
  specialize (Z0 ltac:(discriminate)). cbn [start] in Z0. subst a. apply (dsorted_le_last _ D 0 v). left. reflexivity.
Qed.
Lemma goodS_nonneg os S F : GoodS os S F -> 0 <= lastT S.
Proof. intros (_ & D & Z0 & _). apply dsorted_nonneg; assumption. Qed.

Lemma prefix_den (A q : dsig) t : dsorted (A ++ q) -> A <> [] -> t <= lastT A -> den (A ++ q) t = den A t.
Proof. intros H N Ht. unfold den. rewrite (den_app_prefix A q t H N Ht). reflexivity. Qed.

Lemma prefix_start0 (A q : dsig) : (A ++ q <> [] -> start (A ++ q) = 0) -> A <> [] -> start A = 0.
Proof. intros H N. rewrite <- (start_app A q N). apply H. destruct A; [congruence|discriminate]. Qed.

Lemma lastT_prefix_le (A q : dsig) : dsorted (A ++ q) -> A <> [] -> lastT A <= lastT (A ++ q).
Proof. apply lastT_app_ge. Qed.

(* ---------------- binary operations through intersection() ---------------- *)
Section Bin.
Variable f : V -> V -> V.

Lemma bin_update_sorted A B st O b1 b2 c1 c2 st' o :
  RInv f A B st O -> dsorted (A ++ b1) -> dsorted (B ++ b2) -> batch_of A b1 c1 -> batch_of B b2 c2 ->
  bin_update f st c1 c2 = Some (st', o) -> dsorted o.
Proof.
  intros R SA SB H1 H2 E. unfold bin_update, bin_update_g in E.
  rewrite (obuf_add_batch A (lbuf st) b1 c1 SA (ri_suf1 _ _ _ _ _ R) (ri_ne1 _ _ _ _ _ R) H1) in E.
  rewrite (obuf_add_batch B (rbuf st) b2 c2 SB (ri_suf2 _ _ _ _ _ R) (ri_ne2 _ _ _ _ _ R) H2) in E.
  destruct (buf_step A (lbuf st) b1 SA (ri_suf1 _ _ _ _ _ R) (ri_ne1 _ _ _ _ _ R)) as (El & _ & SL).
  destruct (buf_step B (rbuf st) b2 SB (ri_suf2 _ _ _ _ _ R) (ri_ne2 _ _ _ _ _ R)) as (Er & _ & SR).
  rewrite El, Er in E. set (l := lbuf st ++ b1) in *. set (r := rbuf st ++ b2) in *.
  assert (Hdrop : forall res, dsorted res -> dsorted (odrop_first Z Z.eqb (lout st) res)).
  { intros res Hs. destruct (odrop_first_cases (lout st) res) as [->|(x & Ex & _)]; [exact Hs|].
    rewrite Ex in Hs. apply (dsorted_tl _ _ Hs). }
  assert (Hdec : (l = [] \/ r = []) \/ (l <> [] /\ r <> [])).
  { destruct l; [left; left; reflexivity|]. destruct r; [left; right; reflexivity|]. right. split; discriminate. }
  destruct Hdec as [Hemp|[Nl Nr]].
  - pose proof (oisect_nil f l r Hemp) as Hn. unfold oisect in Hn. rewrite Hn in E. cbn [oadd_last] in E.
    injection E as _ <-. apply Hdrop. exact I.
  - destruct (oisect_correct_full f l r SL SR Nl Nr) as (out & la & r1 & r2 & Eo & _ & _ & _ & Ds & _).
    unfold oisect in Eo. rewrite Eo in E. injection E as _ <-. apply Hdrop. exact Ds.
Qed.

(* how far the outputs of a binary operation reach *)
Definition Kb (A B : dsig) : Z := match A, B with [], _ | _, [] => -1 | _, _ => FF A B end.

Lemma rinv_raw A B st O q1 q2 :
  RInv f A B st O -> dsorted (A ++ q1) -> dsorted (B ++ q2) -> (A <> [] -> start A = 0) -> (B <> [] -> start B = 0) ->
  (forall a v, In (a, v) O -> 0 <= a <= Kb A B) /\
  (forall t, 0 <= t <= Kb A B -> den_opt O t = Some (f (den (A ++ q1) t) (den (B ++ q2) t))).
Proof.
  intros R S1 S2 ZA ZB.
  assert (Hdec : (A = [] \/ B = []) \/ (A <> [] /\ B <> [])).
  { destruct A; [left; left; reflexivity|]. destruct B; [left; right; reflexivity|]. right. split; discriminate. }
  destruct Hdec as [Hemp|[NA NB]].
  - destruct (ri_empty _ _ _ _ _ R Hemp) as (-> & _). split; [intros a v []|].
    intros t Ht. exfalso. unfold Kb in Ht. destruct Hemp as [-> | ->]; [lia|]. destruct A; lia.
  - assert (EK : Kb A B = FF A B) by (unfold Kb; destruct A; [congruence|]; destruct B; [congruence|reflexivity]).
    assert (ET : TT0 A B = 0) by (unfold TT0; rewrite (ZA NA), (ZB NB); reflexivity).
    rewrite EK. split.
    + intros a v Hin. pose proof (ri_within _ _ _ _ _ R a v Hin). lia.
    + intros t Ht. rewrite (ri_val _ _ _ _ _ R NA NB t) by lia. unfold FF in Ht.
      rewrite (prefix_den A q1 t S1 NA) by lia. rewrite (prefix_den B q2 t S2 NB) by lia. reflexivity.
Qed.

Lemma Kb_nonempty A B : 0 <= Kb A B -> A <> [] /\ B <> [].
Proof. unfold Kb. destruct A; [lia|]. destruct B; [lia|]. intros _. split; discriminate. Qed.

Variables S1 S2 : dsig.
Hypothesis D1 : dsorted S1.
Hypothesis D2 : dsorted S2.
Hypothesis Z1 : S1 <> [] -> start S1 = 0.
Hypothesis Z2 : S2 <> [] -> start S2 = 0.
Let Fo (t : Z) : V := f (den S1 t) (den S2 t).

Lemma bin_stream_inv : forall xs ys A B st O SO, length xs = length ys ->
  feedsI A xs S1 -> feedsI B ys S2 -> RInv f A B st O ->
  same O SO -> dsorted SO -> (SO <> [] -> start SO = 0) ->
  exists st' outs S,
    bin_run f st (combine xs ys) = Some (st', outs) /\ length outs = length xs /\
    feedsI SO outs S /\ dsorted S /\ (S <> [] -> start S = 0) /\
    same (O ++ concat outs) S /\ RInv f S1 S2 st' (O ++ concat outs).
Proof.
  induction xs as [|c1 xs IH]; intros [|c2 ys] A B st O SO Hl H1 H2 R HS DS ZS; cbn [length] in Hl; try discriminate.
  - cbn [feedsI] in H1, H2. subst A B. exists st, [], SO. cbn [combine concat]. rewrite app_nil_r.
    split; [reflexivity|]. split; [reflexivity|]. split; [reflexivity|]. split; [exact DS|]. split; [exact ZS|]. split; assumption.
  - destruct H1 as (b1 & Hb1 & H1). destruct H2 as (b2 & Hb2 & H2).
    destruct (feedsI_prefix _ _ _ H1) as [q1 E1]. destruct (feedsI_prefix _ _ _ H2) as [q2 E2].
    assert (SA : dsorted (A ++ b1)) by (apply (dsorted_app_l _ q1); rewrite <- E1; exact D1).
    assert (SB : dsorted (B ++ b2)) by (apply (dsorted_app_l _ q2); rewrite <- E2; exact D2).
    destruct (bin_update_step_rep f A B st O b1 b2 c1 c2 R SA SB (batch_id_of _ _ _ Hb1) (batch_id_of _ _ _ Hb2))
      as (st1 & o & E & R1).
    pose proof (bin_update_sorted A B st O b1 b2 c1 c2 st1 o R SA SB (batch_id_of _ _ _ Hb1) (batch_id_of _ _ _ Hb2) E) as Do.
    assert (ZA' : A ++ b1 <> [] -> start (A ++ b1) = 0) by (intros N; apply (prefix_start0 _ q1); [rewrite <- E1; exact Z1|exact N]).
    assert (ZB' : B ++ b2 <> [] -> start (B ++ b2) = 0) by (intros N; apply (prefix_start0 _ q2); [rewrite <- E2; exact Z2|exact N]).
    assert (ZA : A <> [] -> start A = 0).
    { intros N. rewrite <- (start_app A b1 N). apply ZA'. destruct A; [congruence|discriminate]. }
    assert (ZB : B <> [] -> start B = 0).
    { intros N. rewrite <- (start_app B b2 N). apply ZB'. destruct B; [congruence|discriminate]. }
    assert (S1' : dsorted (A ++ b1 ++ q1)) by (rewrite app_assoc, <- E1; exact D1).
    assert (S2' : dsorted (B ++ b2 ++ q2)) by (rewrite app_assoc, <- E2; exact D2).
    destruct (rinv_raw A B st O (b1 ++ q1) (b2 ++ q2) R S1' S2' ZA ZB) as [HinO HdO].
    rewrite !app_assoc, <- E1, <- E2 in HdO.
    assert (S1'' : dsorted ((A ++ b1) ++ q1)) by (rewrite <- E1; exact D1).
    assert (S2'' : dsorted ((B ++ b2) ++ q2)) by (rewrite <- E2; exact D2).
    destruct (rinv_raw (A ++ b1) (B ++ b2) st1 (O ++ o) q1 q2 R1 S1'' S2'' ZA' ZB') as [HinO' HdO'].
    rewrite <- E1, <- E2 in HdO'.
    destruct (stream_step O SO o Fo (Kb A B) (Kb (A ++ b1) (B ++ b2)) HS DS ZS HinO HdO (ri_ws _ _ _ _ _ R1) Do HinO' HdO')
      as (b & Hb & HS' & DS' & ZS').
    destruct (IH ys (A ++ b1) (B ++ b2) st1 (O ++ o) (SO ++ b) ltac:(lia) H1 H2 R1 HS' DS' ZS')
      as (st2 & outs & S & Er & Hlen & Hf & DSf & ZSf & HSf & Rf).
    exists st2, (o :: outs), S. cbn [combine concat length]. rewrite app_assoc.
    split; [|split; [lia|]].
    + unfold bin_run in *. cbn [bin_run_g]. unfold bin_update in E. rewrite E, Er. reflexivity.
    + split; [exists b; split; assumption|]. split; [exact DSf|]. split; [exact ZSf|]. split; assumption.
Qed.

(* what the final invariant says about the signal delivered *)
Lemma rinv_good xs ys F1 F2 st O outs S :
  GoodS xs S1 F1 -> GoodS ys S2 F2 -> RInv f S1 S2 st O -> same O S ->
  feedsI [] outs S -> dsorted S -> (S <> [] -> start S = 0) ->
  GoodS outs S (fun t => f (F1 t) (F2 t)) /\ (S <> [] -> lastT S <= Z.min (lastT S1) (lastT S2)).
Proof.
  intros G1 G2 R HS Hf DS ZS.
  assert (S1n : dsorted (S1 ++ [])) by (rewrite app_nil_r; exact D1).
  assert (S2n : dsorted (S2 ++ [])) by (rewrite app_nil_r; exact D2).
  destruct (rinv_raw S1 S2 st O [] [] R S1n S2n Z1 Z2) as [HinO HdO]. rewrite !app_nil_r in HdO.
  assert (Hrange : S <> [] -> S1 <> [] /\ S2 <> [] /\ Kb S1 S2 = Z.min (lastT S1) (lastT S2) /\ 0 <= lastT S <= Z.min (lastT S1) (lastT S2)).
  { intros N. assert (NO : O <> []) by (intros E; apply N; apply (sm_nil _ _ HS); exact E).
    pose proof (lastS_in _ NO) as Hin. rewrite (sm_last _ _ HS) in Hin.
    destruct (lastS S) as [a v] eqn:El. pose proof (HinO a v Hin) as Ha.
    assert (Ea : lastT S = a) by (rewrite <- lastS_stamp, El; reflexivity).
    destruct (Kb_nonempty S1 S2 ltac:(lia)) as [N1 N2].
    assert (EK : Kb S1 S2 = FF S1 S2) by (unfold Kb; destruct S1; [congruence|]; destruct S2; [congruence|reflexivity]).
    unfold FF in EK. split; [exact N1|]. split; [exact N2|]. split; [exact EK|]. lia. }
  split; [|intros N; destruct (Hrange N) as (_ & _ & _ & Hr); lia].
  split; [exact Hf|]. split; [exact DS|]. split; [exact ZS|].
  intros t N Ht. destruct (Hrange N) as (N1 & N2 & EK & Hr).
  rewrite <- (sm_den _ _ HS), (HdO t) by lia.
  rewrite (goodS_den xs S1 F1 t G1 N1) by lia. rewrite (goodS_den ys S2 F2 t G2 N2) by lia. reflexivity.
Qed.

Lemma bin_stream_r xs ys F1 F2 : length xs = length ys -> GoodS xs S1 F1 -> GoodS ys S2 F2 ->
  exists st outs S, bin_run f ostate0 (combine xs ys) = Some (st, outs) /\ length outs = length xs /\
                    GoodS outs S (fun t => f (F1 t) (F2 t)) /\ (S <> [] -> lastT S <= Z.min (lastT S1) (lastT S2)).
Proof.
  intros Hl G1 G2. pose proof G1 as (H1 & _ & _ & V1). pose proof G2 as (H2 & _ & _ & V2).
  destruct (bin_stream_inv xs ys [] [] ostate0 [] [] Hl H1 H2 (rinv_init f) (same_refl [] I) I ltac:(congruence))
    as (st & outs & S & Er & Hlen & Hf & DS & ZS & HS & R).
  cbn [app] in HS, R. exists st, outs, S. split; [exact Er|]. split; [exact Hlen|].
  apply (rinv_good xs ys F1 F2 st (concat outs) outs S G1 G2 R HS Hf DS ZS).
Qed.

(* ---- multiplication_operation.py: the same, except that the first sample of a result is never dropped ---- *)
Definition mul_upd2 (st : @ostate VS Z) (xy : dsig * dsig) := mul_update_g Z Z.ltb Z.eqb f st (fst xy) (snd xy).

Lemma odrop_first_none (res : dsig) : odrop_first Z Z.eqb None res = res.
Proof. reflexivity. Qed.

(* one update of the multiplication against the same update of and & co on a state with the same buffers *)
Lemma mul_vs_bin (st stm : @ostate VS Z) c1 c2 st' o :
  lbuf stm = lbuf st -> rbuf stm = rbuf st -> bin_update f st c1 c2 = Some (st', o) ->
  exists stm' m, mul_update_g Z Z.ltb Z.eqb f stm c1 c2 = Some (stm', m) /\ lbuf stm' = lbuf st' /\ rbuf stm' = rbuf st' /\
                 (m = o \/ exists x, lout st = Some x /\ m = x :: o).
Proof.
  intros El Er E. unfold mul_update_g, bin_update, bin_update_g in *. cbn [lbuf rbuf lout]. rewrite El, Er.
  destruct (oisect_g Z Z.ltb Z.eqb f (obuf_add Z Z.eqb (lbuf st) c1) (obuf_add Z Z.eqb (rbuf st) c2)) as [[[[res la] l'] r']|]; [|discriminate].
  injection E as <- <-. eexists. exists (oadd_last Z Z.ltb res la). split; [reflexivity|]. cbn [lbuf rbuf].
  split; [reflexivity|]. split; [reflexivity|].
  destruct (odrop_first_cases (lout st) (oadd_last Z Z.ltb res la)) as [E|(x & Ex & Elo)]; [left; symmetry; exact E|].
  right. exists x. split; [exact Elo|exact Ex].
Qed.

Lemma mul_update_sorted A B (st stm : @ostate VS Z) O b1 b2 c1 c2 stm' m :
  RInv f A B st O -> lbuf stm = lbuf st -> rbuf stm = rbuf st ->
  dsorted (A ++ b1) -> dsorted (B ++ b2) -> batch_of A b1 c1 -> batch_of B b2 c2 ->
  mul_update_g Z Z.ltb Z.eqb f stm c1 c2 = Some (stm', m) -> dsorted m.
Proof.
  intros R El Er SA SB H1 H2 E. unfold mul_update_g, bin_update_g in E. cbn [lbuf rbuf lout] in E. rewrite El, Er in E.
  rewrite (obuf_add_batch A (lbuf st) b1 c1 SA (ri_suf1 _ _ _ _ _ R) (ri_ne1 _ _ _ _ _ R) H1) in E.
  rewrite (obuf_add_batch B (rbuf st) b2 c2 SB (ri_suf2 _ _ _ _ _ R) (ri_ne2 _ _ _ _ _ R) H2) in E.
  destruct (buf_step A (lbuf st) b1 SA (ri_suf1 _ _ _ _ _ R) (ri_ne1 _ _ _ _ _ R)) as (El' & _ & SL).
  destruct (buf_step B (rbuf st) b2 SB (ri_suf2 _ _ _ _ _ R) (ri_ne2 _ _ _ _ _ R)) as (Er' & _ & SR).
  rewrite El', Er' in E. set (l := lbuf st ++ b1) in *. set (r := rbuf st ++ b2) in *.
  assert (Hdec : (l = [] \/ r = []) \/ (l <> [] /\ r <> [])).
  { destruct l; [left; left; reflexivity|]. destruct r; [left; right; reflexivity|]. right. split; discriminate. }
  destruct Hdec as [Hemp|[Nl Nr]].
  - pose proof (oisect_nil f l r Hemp) as Hn. unfold oisect in Hn. rewrite Hn in E. cbn [oadd_last] in E.
    injection E as _ <-. exact I.
  - destruct (oisect_correct_full f l r SL SR Nl Nr) as (out & la & r1 & r2 & Eo & _ & _ & _ & Ds & _).
    unfold oisect in Eo. rewrite Eo in E. injection E as _ <-. exact Ds.
Qed.

Lemma last_opt_lastS (O : dsig) x : last_opt O = Some x -> O <> [] /\ lastS O = x.
Proof.
  unfold last_opt. destruct (rev O) as [|y q] eqn:E; [discriminate|]. intros H. injection H as ->.
  apply rev_eq_cons in E. rewrite E. split; [destruct (rev q); discriminate|]. apply lastS_app. discriminate.
Qed.

Lemma mul_stream_inv : forall xs ys A B st stm O M SO, length xs = length ys ->
  feedsI A xs S1 -> feedsI B ys S2 -> RInv f A B st O -> lbuf stm = lbuf st -> rbuf stm = rbuf st ->
  same O SO -> same M SO -> dsorted SO -> (SO <> [] -> start SO = 0) ->
  exists stm' outs S st' O',
    run_g mul_upd2 stm (combine xs ys) = Some (stm', outs) /\ length outs = length xs /\
    feedsI SO outs S /\ dsorted S /\ (S <> [] -> start S = 0) /\
    same O' S /\ RInv f S1 S2 st' O'.
Proof.
  induction xs as [|c1 xs IH]; intros [|c2 ys] A B st stm O M SO Hl H1 H2 R El Er HS HM DS ZS; cbn [length] in Hl; try discriminate.
  - cbn [feedsI] in H1, H2. subst A B. exists stm, [], SO, st, O. cbn [combine run_g].
    split; [reflexivity|]. split; [reflexivity|]. split; [reflexivity|]. split; [exact DS|]. split; [exact ZS|]. split; assumption.
  - destruct H1 as (b1 & Hb1 & H1). destruct H2 as (b2 & Hb2 & H2).
    destruct (feedsI_prefix _ _ _ H1) as [q1 E1]. destruct (feedsI_prefix _ _ _ H2) as [q2 E2].
    assert (SA : dsorted (A ++ b1)) by (apply (dsorted_app_l _ q1); rewrite <- E1; exact D1).
    assert (SB : dsorted (B ++ b2)) by (apply (dsorted_app_l _ q2); rewrite <- E2; exact D2).
    destruct (bin_update_step_rep f A B st O b1 b2 c1 c2 R SA SB (batch_id_of _ _ _ Hb1) (batch_id_of _ _ _ Hb2))
      as (st1 & o & E & R1).
    pose proof (bin_update_sorted A B st O b1 b2 c1 c2 st1 o R SA SB (batch_id_of _ _ _ Hb1) (batch_id_of _ _ _ Hb2) E) as Do.
    assert (ZA' : A ++ b1 <> [] -> start (A ++ b1) = 0) by (intros N; apply (prefix_start0 _ q1); [rewrite <- E1; exact Z1|exact N]).
    assert (ZB' : B ++ b2 <> [] -> start (B ++ b2) = 0) by (intros N; apply (prefix_start0 _ q2); [rewrite <- E2; exact Z2|exact N]).
    assert (ZA : A <> [] -> start A = 0).
    { intros N. rewrite <- (start_app A b1 N). apply ZA'. destruct A; [congruence|discriminate]. }
    assert (ZB : B <> [] -> start B = 0).
    { intros N. rewrite <- (start_app B b2 N). apply ZB'. destruct B; [congruence|discriminate]. }
    assert (S1' : dsorted (A ++ b1 ++ q1)) by (rewrite app_assoc, <- E1; exact D1).
    assert (S2' : dsorted (B ++ b2 ++ q2)) by (rewrite app_assoc, <- E2; exact D2).
    destruct (rinv_raw A B st O (b1 ++ q1) (b2 ++ q2) R S1' S2' ZA ZB) as [HinO HdO].
    rewrite !app_assoc, <- E1, <- E2 in HdO.
    assert (S1'' : dsorted ((A ++ b1) ++ q1)) by (rewrite <- E1; exact D1).
    assert (S2'' : dsorted ((B ++ b2) ++ q2)) by (rewrite <- E2; exact D2).
    destruct (rinv_raw (A ++ b1) (B ++ b2) st1 (O ++ o) q1 q2 R1 S1'' S2'' ZA' ZB') as [HinO' HdO'].
    rewrite <- E1, <- E2 in HdO'.
    destruct (stream_step O SO o Fo (Kb A B) (Kb (A ++ b1) (B ++ b2)) HS DS ZS HinO HdO (ri_ws _ _ _ _ _ R1) Do HinO' HdO')
      as (b & Hb & HS' & DS' & ZS').
    destruct (mul_vs_bin st stm c1 c2 st1 o El Er E) as (stm1 & m & Em & El1 & Er1 & Hm).
    pose proof (mul_update_sorted A B st stm O b1 b2 c1 c2 stm1 m R El Er SA SB (batch_id_of _ _ _ Hb1) (batch_id_of _ _ _ Hb2) Em) as Dm.
    assert (Hbm : batch_id SO b m).
    { destruct Hm as [->|(x & Elo & ->)]; [exact Hb|].
      rewrite (ri_lout _ _ _ _ _ R) in Elo. destruct (last_opt_lastS O x Elo) as [NO Ex].
      assert (NS : SO <> []) by (intros E0; apply NO; apply (sm_nil _ _ HS); exact E0).
      rewrite (sm_last _ _ HS) in Ex. subst x. destruct Hb as [|NA]; [constructor; exact NS|].
      exfalso. destruct (lastS SO) as [a v]. destruct Dm as [Hlt _]. lia. }
    pose proof (same_batch M SO b m HM Hbm DS') as HM'.
    destruct (IH ys (A ++ b1) (B ++ b2) st1 stm1 (O ++ o) (M ++ m) (SO ++ b) ltac:(lia) H1 H2 R1 El1 Er1 HS' HM' DS' ZS')
      as (stm2 & outs & S & st2 & O2 & Erun & Hlen & Hf & DSf & ZSf & HSf & Rf).
    exists stm2, (m :: outs), S, st2, O2. cbn [combine run_g length]. unfold mul_upd2 at 1. cbn [fst snd]. rewrite Em, Erun.
    split; [reflexivity|]. split; [lia|]. split; [exists b; split; assumption|]. split; [exact DSf|]. split; [exact ZSf|]. split; assumption.
Qed.

Lemma mul_stream_r xs ys F1 F2 : length xs = length ys -> GoodS xs S1 F1 -> GoodS ys S2 F2 ->
  exists st outs S, run_g mul_upd2 ostate0 (combine xs ys) = Some (st, outs) /\ length outs = length xs /\
                    GoodS outs S (fun t => f (F1 t) (F2 t)) /\ (S <> [] -> lastT S <= Z.min (lastT S1) (lastT S2)).
Proof.
  intros Hl G1 G2. pose proof G1 as (H1 & _ & _ & V1). pose proof G2 as (H2 & _ & _ & V2).
  destruct (mul_stream_inv xs ys [] [] ostate0 ostate0 [] [] [] Hl H1 H2 (rinv_init f) eq_refl eq_refl (same_refl [] I) (same_refl [] I) I ltac:(congruence))
    as (st & outs & S & st' & O' & Er & Hlen & Hf & DS & ZS & HS & R).
  exists st, outs, S. split; [exact Er|]. split; [exact Hlen|].
  apply (rinv_good xs ys F1 F2 st' O' outs S G1 G2 R HS Hf DS ZS).
Qed.

Lemma bin_stream xs ys F1 F2 : length xs = length ys -> GoodS xs S1 F1 -> GoodS ys S2 F2 ->
  exists st outs S, bin_run f ostate0 (combine xs ys) = Some (st, outs) /\ length outs = length xs /\
                    GoodS outs S (fun t => f (F1 t) (F2 t)).
Proof.
  intros Hl G1 G2. destruct (bin_stream_r xs ys F1 F2 Hl G1 G2) as (st & outs & S & A1 & A2 & A3 & _).
  exists st, outs, S. split; [exact A1|]. split; [exact A2|exact A3].
Qed.

End Bin.

(* ---------------- point-wise maps (unary operations, the predicate's read-out) ---------------- *)
Lemma lastS_gmap g (A : dsig) : A <> [] -> lastS (gmap g A) = (fst (lastS A), g (snd (lastS A))).
Proof.
  intros N. rewrite (split_last A N) at 1. rewrite gmap_app. rewrite lastS_app by discriminate. reflexivity.
Qed.
Lemma lastT_gmap g (A : dsig) : lastT (gmap g A) = lastT A.
Proof.
  destruct A as [|x A']; [reflexivity|]. rewrite <- !lastS_stamp, lastS_gmap by discriminate. reflexivity.
Qed.
Lemma start_gmap g (A : dsig) : start (gmap g A) = start A.
Proof. destruct A as [|[a v] r]; reflexivity. Qed.
Lemma gmap_nil g (A : dsig) : gmap g A = [] -> A = [].
Proof. destruct A; [reflexivity|discriminate]. Qed.

Lemma batch_id_gmap g A b c : batch_id A b c -> batch_id (gmap g A) (gmap g b) (gmap g c).
Proof.
  intros [|NA]; [constructor|].
  change (gmap g (lastS A :: b)) with ((fst (lastS A), g (snd (lastS A))) :: gmap g b).
  rewrite <- (lastS_gmap g A NA). constructor. intros E. apply NA. apply (gmap_nil g). exact E.
Qed.

Lemma feedsI_gmap g : forall os A S, feedsI A os S -> feedsI (gmap g A) (map (gmap g) os) (gmap g S).
Proof.
  induction os as [|c os IH]; intros A S H.
  - cbn [feedsI] in H. subst S. reflexivity.
  - destruct H as (b & Hb & H). cbn [map feedsI]. exists (gmap g b). split; [apply batch_id_gmap; exact Hb|].
    rewrite <- gmap_app. apply IH. exact H.
Qed.

Lemma goodS_gmap g os S F : GoodS os S F -> GoodS (map (gmap g) os) (gmap g S) (fun t => g (F t)).
Proof.
  intros (H1 & H2 & H3 & H4). split; [apply (feedsI_gmap g os [] S H1)|].
  split; [apply (dsorted_same_stamps _ S (gmap_stamps g S) H2)|]. split.
  - intros N. rewrite start_gmap. apply H3. intros E. apply N. rewrite E. reflexivity.
  - intros t N Ht. rewrite lastT_gmap in Ht. rewrite den_gmap.
    rewrite (H4 t) by (try exact Ht; intros E; apply N; rewrite E; reflexivity). reflexivity.
Qed.

Lemma unary_total_run f g (xs : list dsig) : (forall v, f v = Some (g v)) ->
  run_g (unary_upd f) tt xs = Some (tt, map (gmap g) xs).
Proof.
  intros H. pose proof (unary_run_total f g xs (fun a v _ => H v)) as E. exact E.
Qed.

(* ---------------- once / historically (unbounded) ---------------- *)
Section Fold.
Variable g : V -> V -> V.
Hypothesis g_idem : forall v p, g v (g v p) = g v p.
Variable W : (Z -> V) -> Z -> Z -> V.
Hypothesis Wsnoc : forall G lo hi, lo <= hi -> W G lo hi = g (G hi) (W G lo (hi - 1)).
Hypothesis Wconst : forall G lo A B, lo <= A <= B -> (forall u, A <= u <= B -> G u = G A) -> W G lo B = W G lo A.
Hypothesis Wext : forall G G' lo hi, (forall u, lo <= u <= hi -> G u = G' u) -> W G lo hi = W G' lo hi.
Variable init : V.
Hypothesis Winit : forall G, W G 0 (-1) = init.

Let FL (p : V) (l : dsig) : dsig := snd (fold_loop Z g p l).
Let FP (p : V) (l : dsig) : V := fst (fold_loop Z g p l).

Lemma FL_app p a b : FL p (a ++ b) = FL p a ++ FL (FP p a) b.
Proof. unfold FL, FP. rewrite fold_loop_app. reflexivity. Qed.
Lemma FP_app p a b : FP p (a ++ b) = FP (FP p a) b.
Proof. unfold FL, FP. rewrite fold_loop_app. reflexivity. Qed.
Lemma FL_one p t v : FL p [(t, v)] = [(t, g v p)].
Proof. reflexivity. Qed.
Lemma FP_one p t v : FP p [(t, v)] = g v p.
Proof. reflexivity. Qed.
Lemma FL_nil_inv p l : FL p l = [] -> l = [].
Proof.
  destruct l as [|[t v] r]; [reflexivity|]. unfold FL. cbn [fold_loop].
  destruct (fold_loop Z g (g v p) r); discriminate.
Qed.
Lemma FL_cons p t v r : FL p ((t, v) :: r) = (t, g v p) :: FL (g v p) r.
Proof. unfold FL. cbn [fold_loop]. destruct (fold_loop Z g (g v p) r); reflexivity. Qed.

Lemma FP_cons p t v r : FP p ((t, v) :: r) = FP (g v p) r.
Proof. unfold FP. cbn [fold_loop]. destruct (fold_loop Z g (g v p) r); reflexivity. Qed.

(* after a non-empty A: the value kept is the value of the last sample returned, and absorbs the last input value *)
Lemma FL_last p (A : dsig) : A <> [] ->
  lastS (FL p A) = (fst (lastS A), FP p A) /\ g (snd (lastS A)) (FP p A) = FP p A.
Proof.
  intros N. pose proof (split_last A N) as EA. destruct (lastS A) as [t v]. cbn [fst snd]. rewrite EA.
  rewrite FL_app, FP_app, FL_one, FP_one. rewrite lastS_app by discriminate. split; [reflexivity|apply g_idem].
Qed.

Lemma fold_stream_inv : forall xs A S p0, feedsI A xs S ->
  exists st outs, run_g (fold_update Z g) {| fprev := FP p0 A |} xs = Some (st, outs) /\ length outs = length xs /\
                  feedsI (FL p0 A) outs (FL p0 S).
Proof.
  induction xs as [|c xs IH]; intros A S p0 H.
  - cbn [feedsI] in H. subst S. eexists. exists []. repeat split; reflexivity.
  - destruct H as (b & Hb & H). destruct (IH (A ++ b) S p0 H) as (st & outs & Er & Hl & Hf).
    cbn [run_g]. unfold fold_update at 1. cbn [fprev].
    destruct (fold_loop Z g (FP p0 A) c) as [p1 o1] eqn:E1.
    assert (E1p : FP (FP p0 A) c = p1) by (unfold FP at 1; rewrite E1; reflexivity).
    assert (E1o : FL (FP p0 A) c = o1) by (unfold FL; rewrite E1; reflexivity).
    assert (Ep : p1 = FP p0 (A ++ b) /\ batch_id (FL p0 A) (FL (FP p0 A) b) o1).
    { rewrite <- E1p, <- E1o. destruct Hb as [|NA].
      - rewrite FP_app. split; [reflexivity|constructor].
      - destruct (FL_last p0 A NA) as [L1 L2]. destruct (lastS A) as [t v] eqn:El. cbn [fst snd] in *.
        rewrite FL_cons, FP_cons, L2, FP_app. split; [reflexivity|].
        rewrite <- L1. constructor. intros E. apply NA. apply (FL_nil_inv _ _ E). }
    destruct Ep as [-> Hbo]. rewrite Er. eexists. exists (o1 :: outs). split; [reflexivity|]. split; [cbn [length]; lia|].
    cbn [feedsI]. exists (FL (FP p0 A) b). split; [exact Hbo|]. rewrite <- FL_app. exact Hf.
Qed.

Lemma fold_stream xs S F : GoodS xs S F ->
  exists st outs, run_g (fold_update Z g) {| fprev := init |} xs = Some (st, outs) /\ length outs = length xs /\
                  GoodS outs (FL init S) (fun t => W F 0 t).
Proof.
  intros (H1 & H2 & H3 & H4). destruct (fold_stream_inv xs [] S init H1) as (st & outs & Er & Hl & Hf).
  exists st, outs. split; [exact Er|]. split; [exact Hl|]. split; [exact Hf|].
  destruct S as [|x S'] eqn:ES.
  { split; [exact I|]. split; [intros N; exfalso; apply N; reflexivity|]. intros t N. exfalso. apply N. reflexivity. }
  rewrite <- ES in *. assert (NS : S <> []) by (rewrite ES; discriminate). specialize (H3 NS).
  destruct (fold_scan g W Wsnoc Wconst (den S) 0 S init H2 NS ltac:(lia)) as (D & _ & St).
  { intros t Ht. unfold den. destruct S as [|[p v] r]; [congruence|]. cbn [start] in Ht.
    pose proof (den_from_start p v r t Ht) as Hn. destruct (den_opt ((p, v) :: r) t); [reflexivity|congruence]. }
  { rewrite H3. symmetry. apply Winit. }
  fold (FL init S) in D, St.
  assert (EL : lastT (FL init S) = lastT S).
  { rewrite <- !lastS_stamp. rewrite (proj1 (FL_last init S NS)). reflexivity. }
  split; [apply (dsorted_same_stamps _ S St H2)|]. split.
  - intros _. destruct (FL init S) as [|[a v] r] eqn:E; [apply FL_nil_inv in E; congruence|].
    destruct S as [|[a' v'] r']; [congruence|]. cbn [map fst] in St. injection St as -> _. exact H3.
  - intros t _ Ht. rewrite EL in Ht. rewrite (D t) by lia. f_equal. apply Wext. intros u Hu.
    unfold den. rewrite (H4 u NS) by lia. reflexivity.
Qed.

End Fold.

(* ---------------- once[b,e] / historically[b,e] ---------------- *)
(* the list returned by one update has strictly increasing stamps (the proofs follow once_update_step / once_update_step0
   of DenseOnlineWinCorrect.v, which do not export this fact) *)
Lemma once_update_sorted b e A st O bn c :
  0 <= b -> b <= e -> 0 < e ->
  DenseOnlineWinCorrect.Inv b e A st O -> dsorted (A ++ bn) -> start (A ++ bn) = 0 -> batch_of A bn c ->
  exists st' o, once_timed_update st c = Some (st', o) /\ dsorted o.
Proof.
  intros Hb Hbe He I Hs H0 Hc. pose proof (drop_repeat_batch b e A st O bn c I Hs Hc) as Ed.
  destruct I as (Eb & Ee & I).
  assert (Hcase : bn = [] \/ bn <> []) by (destruct bn; [left; reflexivity|right; discriminate]).
  destruct Hcase as [->|Nbn].
  - rewrite app_nil_r in *. destruct I as [(-> & Ep & Es & ->)|(Hne & Es & Er & W & WO & HinO & HdO)].
    + eexists. exists []. split; [|exact Logic.I].
      apply (once_update_eq st c [] [] [] None []); [exact Ed| |reflexivity]. rewrite Ep. reflexivity.
    + pose proof (lastT_nonneg A Hs Hne H0) as Hz.
      destruct (scan_finish (w_prev st) (lastT A) (lastT A) (lastT A + e) (FA b e A) W ltac:(lia) ltac:(lia))
        as (res & np & E & W' & Do & Hino & Hdo).
      eexists. eexists. split; [|exact Do].
      apply (once_update_eq st c [] (rev (w_prev st)) res (Some (lastT A, FA b e A (lastT A))) np); [exact Ed|reflexivity|].
      rewrite rev_involutive. cbn [new_rs rev]. rewrite Er. exact E.
  - set (z' := lastT bn).
    assert (Hsb : dsorted bn) by (apply (dsorted_app_r A); exact Hs).
    assert (Enr : new_rs (w_rs st) bn = RFin z') by (apply new_rs_last; exact Nbn).
    assert (Hpush : exists lo s v r,
      push_all ltb (add_pad bot (w_started st) (extend_last (rev (w_prev st)) bn (w_end st)) bn (w_begin st))
                   (win_pieces bn (w_begin st) (w_end st)) = Some ((s, T (z' + e), v) :: r) /\
      s <= z' + e /\ stk ((s, TInf, v) :: r) lo TInf (FA b e (A ++ bn)) /\ lo <= z').
    { rewrite Eb, Ee. destruct I as [(-> & Ep & Es & ->)|(Hne & Es & Er & W & WO & HinO & HdO)].
      - cbn [app] in *. rewrite Ep, Es. destruct (push_first b e Hb Hbe bn Hsb Nbn H0) as (s & v & r & E & Hsz & S).
        exists 0, s, v, r. split; [exact E|]. split; [exact Hsz|]. split; [exact S|].
        apply (lastT_nonneg bn Hsb Nbn H0).
      - rewrite Es. rewrite start_app in H0 by exact Hne.
        destruct (push_later b e Hb Hbe A (w_prev st) bn Hs Hne Nbn H0 W) as (s & v & r & E & Hsz & S).
        pose proof (dsorted_app_lt A bn Hs Hne Nbn) as Hlt.
        assert (Hsz' : start bn <= z').
        { destruct bn as [|[t0 v0] r0]; [congruence|]. apply (dsorted_le_last _ Hsb t0 v0). left. reflexivity. }
        exists (lastT A), s, v, r. split; [exact E|]. split; [exact Hsz|]. split; [exact S|]. lia. }
    destruct Hpush as (lo & s & v & r & Ep & Hsz & S & Hloz).
    pose proof (stk_wchain s v r lo (z' + e) _ S Hsz) as W.
    destruct (scan_finish _ lo z' (z' + e) _ W Hloz ltac:(lia)) as (res & np & E & W' & Do & Hino & Hdo).
    eexists. eexists. split; [|exact Do].
    apply (once_update_eq st c bn _ res (Some (z', FA b e (A ++ bn) z')) np Ed Ep). rewrite Enr. exact E.
Qed.

Lemma once_update_sorted0 A st O bn c :
  Inv0 A st O -> dsorted (A ++ bn) -> start (A ++ bn) = 0 -> batch_of A bn c ->
  exists st' o, once_timed_update st c = Some (st', o) /\ dsorted o.
Proof.
  intros I Hs H0 Hc. pose proof (drop_repeat_batch0 A st O bn c I Hs Hc) as Ed.
  destruct I as (Eb & Ee & Ep & I).
  assert (Hcase : bn = [] \/ bn <> []) by (destruct bn; [left; reflexivity|right; discriminate]).
  destruct Hcase as [->|Nbn].
  - eexists. exists []. split; [|exact Logic.I].
    apply (once_update_eq st c [] [] [] None []); [exact Ed| |reflexivity]. rewrite Ep. reflexivity.
  - set (z' := lastT bn).
    assert (Hsb : dsorted bn) by (apply (dsorted_app_r A); exact Hs).
    assert (Enr : new_rs (w_rs st) bn = RFin z') by (apply new_rs_last; exact Nbn).
    assert (Hsz' : start bn <= z').
    { destruct bn as [|[t0 v0] r0]; [congruence|]. apply (dsorted_le_last _ Hsb t0 v0). left. reflexivity. }
    destruct (push_run_nil 0 0 ltac:(lia) bn Hsb Nbn) as (out' & E' & (q & r & -> & Hq) & S').
    apply top_form in S'. cbn [set_end] in E'. rewrite !Z.add_0_r in *.
    pose proof (stk_wchain (ps q) (pv q) r (start bn) z' _ S' Hq) as W.
    destruct (scan_known_finish _ (start bn) z' z' _ W ltac:(lia)) as (res & la & E & Do & Hino & Hdo).
    eexists. eexists. split; [|exact Do].
    apply (once_update_eq st c bn ((ps q, T z', pv q) :: r) res (Some la) []); [exact Ed| |rewrite Enr; exact E].
    rewrite Ep, Eb, Ee, (pp_win 0 0 bn Nbn), (extend_last_ne 0 _ bn Nbn), (add_pad_ne 0 _ _ bn Nbn).
    cbn [rev set_end]. rewrite andb_false_r. cbn [andb]. rewrite !Z.add_0_r. exact E'.
Qed.

Definition Kw (A : dsig) : Z := match A with [] => -1 | _ => lastT A end.

Section WinGeneric.
Variable IV : dsig -> wstate -> dsig -> Prop.
Variable Fspec : dsig -> Z -> V.
Hypothesis IV_step : forall A st O bn c, IV A st O -> dsorted (A ++ bn) -> start (A ++ bn) = 0 -> batch_of A bn c ->
  exists st' o, once_timed_update st c = Some (st', o) /\ IV (A ++ bn) st' (O ++ o) /\ dsorted o.
Hypothesis IV_raw : forall A st O q, IV A st O -> dsorted (A ++ q) -> (A <> [] -> start A = 0) ->
  wsorted O /\ (forall a v, In (a, v) O -> 0 <= a <= Kw A) /\
  (forall t, 0 <= t <= Kw A -> den_opt O t = Some (Fspec (A ++ q) t)).

Variable S : dsig.
Hypothesis DS : dsorted S.
Hypothesis ZS : S <> [] -> start S = 0.

Lemma win_stream_inv : forall xs A st O SO,
  feedsI A xs S -> IV A st O -> same O SO -> dsorted SO -> (SO <> [] -> start SO = 0) ->
  exists st' outs S',
    once_timed_run st xs = Some (st', outs) /\ length outs = length xs /\
    feedsI SO outs S' /\ dsorted S' /\ (S' <> [] -> start S' = 0) /\
    same (O ++ concat outs) S' /\ IV S st' (O ++ concat outs).
Proof.
  induction xs as [|c xs IH]; intros A st O SO H R HS DSO ZSO.
  - cbn [feedsI] in H. subst A. exists st, [], SO. cbn [concat]. rewrite app_nil_r.
    split; [reflexivity|]. split; [reflexivity|]. split; [reflexivity|]. split; [exact DSO|]. split; [exact ZSO|]. split; assumption.
  - destruct H as (b & Hb & H). destruct (feedsI_prefix _ _ _ H) as [q E].
    assert (SA : dsorted (A ++ b)) by (apply (dsorted_app_l _ q); rewrite <- E; exact DS).
    assert (ZA' : A ++ b <> [] -> start (A ++ b) = 0) by (intros N; apply (prefix_start0 _ q); [rewrite <- E; exact ZS|exact N]).
    assert (ZA : A <> [] -> start A = 0).
    { intros N. rewrite <- (start_app A b N). apply ZA'. destruct A; [congruence|discriminate]. }
    assert (H0 : start (A ++ b) = 0) by (destruct (A ++ b) eqn:EA; [reflexivity|apply ZA'; discriminate]).
    destruct (IV_step A st O b c R SA H0 (batch_id_of _ _ _ Hb)) as (st1 & o & Eo & R1 & Do).
    assert (SAq : dsorted (A ++ b ++ q)) by (rewrite app_assoc, <- E; exact DS).
    destruct (IV_raw A st O (b ++ q) R SAq ZA) as (WO & HinO & HdO). rewrite app_assoc, <- E in HdO.
    assert (SAq' : dsorted ((A ++ b) ++ q)) by (rewrite <- E; exact DS).
    destruct (IV_raw (A ++ b) st1 (O ++ o) q R1 SAq' ZA') as (WO' & HinO' & HdO'). rewrite <- E in HdO'.
    destruct (stream_step O SO o (Fspec S) (Kw A) (Kw (A ++ b)) HS DSO ZSO HinO HdO WO' Do HinO' HdO')
      as (b' & Hb' & HS' & DS' & ZS').
    destruct (IH (A ++ b) st1 (O ++ o) (SO ++ b') H R1 HS' DS' ZS')
      as (st2 & outs & S' & Er & Hlen & Hf & DSf & ZSf & HSf & Rf).
    exists st2, (o :: outs), S'. cbn [concat length]. rewrite app_assoc. split; [|split; [lia|]].
    + unfold once_timed_run in *. cbn [win_run]. unfold once_timed_update in Eo. rewrite Eo, Er. reflexivity.
    + split; [exists b'; split; assumption|]. split; [exact DSf|]. split; [exact ZSf|]. split; assumption.
Qed.

End WinGeneric.

Lemma once_spec_ext b e (s s' : dsig) t :
  (forall u, 0 <= u <= t - b -> den s u = den s' u) -> once_spec b e s t = once_spec b e s' t.
Proof. intros H. unfold once_spec. destruct (t - b <? 0); [reflexivity|]. apply zmax_ext. intros u Hu. apply H. lia. Qed.

Lemma once_stream rs0 b e xs S F : 0 <= b -> b <= e -> GoodS xs S F ->
  exists st outs S', once_timed_run (win_init rs0 b e) xs = Some (st, outs) /\ length outs = length xs /\
    GoodS outs S' (fun t => if t - b <? 0 then bot else zmax F (Z.max (t - e) 0) (t - b)) /\ lastT S' <= lastT S.
Proof.
  intros Hb Hbe G. pose proof G as (H1 & DS & ZS & V1).
  assert (Hfin : forall (IV : dsig -> wstate -> dsig -> Prop) st outs S',
     (forall A st O q, IV A st O -> dsorted (A ++ q) -> (A <> [] -> start A = 0) ->
        wsorted O /\ (forall a v, In (a, v) O -> 0 <= a <= Kw A) /\
        (forall t, 0 <= t <= Kw A -> den_opt O t = Some (once_spec b e (A ++ q) t))) ->
     feedsI [] outs S' -> dsorted S' -> (S' <> [] -> start S' = 0) -> same (concat outs) S' -> IV S st (concat outs) ->
     GoodS outs S' (fun t => if t - b <? 0 then bot else zmax F (Z.max (t - e) 0) (t - b)) /\ lastT S' <= lastT S).
  { intros IV st outs S' IV_raw Hf DS' ZS' HS' R.
    assert (Sn : dsorted (S ++ [])) by (rewrite app_nil_r; exact DS).
    destruct (IV_raw S st (concat outs) [] R Sn ZS) as (_ & HinO & HdO). rewrite app_nil_r in HdO.
    assert (Hrange : S' <> [] -> S <> [] /\ Kw S = lastT S /\ 0 <= lastT S' <= lastT S).
    { intros N. assert (NO : concat outs <> []) by (intros E; apply N; apply (sm_nil _ _ HS'); exact E).
      pose proof (lastS_in _ NO) as Hin. rewrite (sm_last _ _ HS') in Hin.
      destruct (lastS S') as [a v] eqn:El. pose proof (HinO a v Hin) as Ha.
      assert (Ea : lastT S' = a) by (rewrite <- lastS_stamp, El; reflexivity).
      assert (NS : S <> []) by (intros E; rewrite E in Ha; cbn [Kw] in Ha; lia).
      assert (EK : Kw S = lastT S) by (destruct S; [congruence|reflexivity]).
      split; [exact NS|]. split; [exact EK|]. lia. }
    split.
    - split; [exact Hf|]. split; [exact DS'|]. split; [exact ZS'|].
      intros t N Ht. destruct (Hrange N) as (NS & EK & Hr).
      rewrite <- (sm_den _ _ HS'), (HdO t) by lia. f_equal. unfold once_spec.
      destruct (t - b <? 0); [reflexivity|]. apply zmax_ext. intros u Hu. apply (goodS_den xs S F u G NS). lia.
    - destruct S' as [|x S'']; [apply (goodS_nonneg xs S F G)|]. destruct (Hrange ltac:(discriminate)) as (_ & _ & Hr). lia. }
  destruct (Z.eq_dec e 0) as [->|Hne].
  - assert (b = 0) by lia. subst b.
    destruct (win_stream_inv Inv0 (once_spec 0 0)) with (S := S) (xs := xs) (A := @nil (Z * V)) (st := win_init rs0 0 0) (O := @nil (Z * V)) (SO := @nil (Z * V))
      as (st & outs & S' & Er & Hl & Hf & DS' & ZS' & HS' & R); try assumption.
    + intros A st O bn c R SA H0 Hc. destruct (once_update_step0 A st O bn c R SA H0 Hc) as (st1 & o & E1 & R1).
      destruct (once_update_sorted0 A st O bn c R SA H0 Hc) as (st2 & o2 & E2 & D2).
      exists st1, o. split; [exact E1|]. split; [exact R1|]. congruence.
    + intros A st O q (_ & _ & _ & [(-> & _ & ->)|(NA & _ & _ & WO & HinO & HdO)]) SA ZA.
      * split; [exact I|]. split; [intros a v []|]. intros t Ht. cbn [Kw] in Ht. lia.
      * assert (EK : Kw A = lastT A) by (destruct A; [congruence|reflexivity]). rewrite EK.
        split; [exact WO|]. split; [exact HinO|]. intros t Ht. rewrite (HdO t) by lia. f_equal.
        rewrite once_spec_00 by lia. symmetry. apply prefix_den; [exact SA|exact NA|lia].
    + apply inv0_init.
    + apply same_refl. exact I.
    + exact I.
    + congruence.
    + exists st, outs, S'. split; [exact Er|]. split; [exact Hl|].
      apply (Hfin Inv0 st outs S'); try assumption.
      intros A st0 O q (_ & _ & _ & [(-> & _ & ->)|(NA & _ & _ & WO & HinO & HdO)]) SA ZA.
      * split; [exact I|]. split; [intros a v []|]. intros t Ht. cbn [Kw] in Ht. lia.
      * assert (EK : Kw A = lastT A) by (destruct A; [congruence|reflexivity]). rewrite EK.
        split; [exact WO|]. split; [exact HinO|]. intros t Ht. rewrite (HdO t) by lia. f_equal.
        rewrite once_spec_00 by lia. symmetry. apply prefix_den; [exact SA|exact NA|lia].
  - assert (He : 0 < e) by lia.
    assert (Raw : forall A st O q, DenseOnlineWinCorrect.Inv b e A st O -> dsorted (A ++ q) -> (A <> [] -> start A = 0) ->
        wsorted O /\ (forall a v, In (a, v) O -> 0 <= a <= Kw A) /\
        (forall t, 0 <= t <= Kw A -> den_opt O t = Some (once_spec b e (A ++ q) t))).
    { intros A st O q (_ & _ & [(-> & _ & _ & ->)|(NA & _ & _ & _ & WO & HinO & HdO)]) SA ZA.
      - split; [exact I|]. split; [intros a v []|]. intros t Ht. cbn [Kw] in Ht. lia.
      - assert (EK : Kw A = lastT A) by (destruct A; [congruence|reflexivity]). rewrite EK.
        split; [exact WO|]. split; [exact HinO|]. intros t Ht. rewrite (HdO t) by lia. f_equal.
        rewrite (FA_spec b e Hbe A t (dsorted_app_l _ _ SA) NA (ZA NA)). symmetry.
        apply once_spec_prefix; [exact SA|exact NA|lia]. }
    destruct (win_stream_inv (DenseOnlineWinCorrect.Inv b e) (once_spec b e)) with (S := S) (xs := xs) (A := @nil (Z * V)) (st := win_init rs0 b e) (O := @nil (Z * V)) (SO := @nil (Z * V))
      as (st & outs & S' & Er & Hl & Hf & DS' & ZS' & HS' & R); try assumption.
    + intros A st O bn c R SA H0 Hc. destruct (once_update_step b e Hb Hbe He A st O bn c R SA H0 Hc) as (st1 & o & E1 & R1).
      destruct (once_update_sorted b e A st O bn c Hb Hbe He R SA H0 Hc) as (st2 & o2 & E2 & D2).
      exists st1, o. split; [exact E1|]. split; [exact R1|]. congruence.
    + apply inv_init.
    + apply same_refl. exact I.
    + exact I.
    + congruence.
    + exists st, outs, S'. split; [exact Er|]. split; [exact Hl|].
      apply (Hfin (DenseOnlineWinCorrect.Inv b e) st outs S'); assumption.
Qed.

Lemma gmap_gmap_neg (s : dsig) : gmap neg (gmap neg s) = s.
Proof.
  unfold gmap. rewrite map_map. rewrite <- (map_id s) at 2. apply map_ext. intros [a v]. cbn [fst snd]. rewrite neg_invol. reflexivity.
Qed.

Lemma hist_stream b e xs S F : 0 <= b -> b <= e -> GoodS xs S F ->
  exists st outs S', hist_timed_run (hwin_init b e) xs = Some (st, outs) /\ length outs = length xs /\
    GoodS outs S' (fun t => if t - b <? 0 then top else zmin F (Z.max (t - e) 0) (t - b)) /\ lastT S' <= lastT S.
Proof.
  intros Hb Hbe G. pose proof (goodS_gmap neg xs S F G) as Gn.
  destruct (once_stream RPosInf b e _ _ _ Hb Hbe Gn) as (st' & outs' & S'' & Er & Hl & Go & Hrg).
  rewrite lastT_gmap in Hrg.
  pose proof (hist_once_run xs (hwin_init b e)) as Hd.
  change (negst (hwin_init b e)) with (win_init RPosInf b e) in Hd.
  change (map (dmap neg) xs) with (map (gmap neg) xs) in Hd. rewrite Er in Hd.
  destruct (hist_timed_run (hwin_init b e) xs) as [[st outs]|]; [|discriminate].
  cbn [option_map fst snd] in Hd. injection Hd as _ Eo.
  exists st, outs, (gmap neg S''). split; [reflexivity|]. split; [rewrite Eo, !map_length in Hl; exact Hl|].
  pose proof (goodS_gmap neg outs' S'' _ Go) as G2. rewrite Eo in G2.
  change (map (dmap neg) outs) with (map (gmap neg) outs) in G2. rewrite map_map in G2.
  rewrite (map_ext _ (fun x => x) gmap_gmap_neg), map_id in G2.
  split; [|rewrite lastT_gmap; exact Hrg].
  apply (goodS_ext _ _ _ _ G2). intros t _ _. cbn beta.
  destruct (t - b <? 0); [apply neg_bot|]. rewrite neg_zmax. apply zmin_ext. intros u _. apply neg_invol.
Qed.

(* ---------------- since (unbounded) ---------------- *)
Lemma map_fst_combine {A B} : forall (xs : list A) (ys : list B), length xs = length ys -> map fst (combine xs ys) = xs.
Proof.
  induction xs as [|x xs IH]; intros [|y ys] H; cbn [length] in H; try discriminate; [reflexivity|].
  cbn [combine map fst]. f_equal. apply IH. lia.
Qed.
Lemma map_snd_combine {A B} : forall (xs : list A) (ys : list B), length xs = length ys -> map snd (combine xs ys) = ys.
Proof.
  induction xs as [|x xs IH]; intros [|y ys] H; cbn [length] in H; try discriminate; [reflexivity|].
  cbn [combine map snd]. f_equal. apply IH. lia.
Qed.

Lemma since_loop_short_l fuel (b : dsig) prev la : since_loop Z Z.ltb fuel [] b prev la = ([], b, prev, la, []).
Proof. destruct fuel; reflexivity. Qed.
Lemma since_loop_short_r fuel (a : dsig) prev la : since_loop Z Z.ltb fuel a [] prev la = (a, [], prev, la, []).
Proof. destruct fuel; [reflexivity|]. cbn [since_loop]. destruct a as [|[? ?] [|[? ?] ?]]; reflexivity. Qed.

Lemma since_run_empty : forall (bs : list (dsig * dsig)) (st : @sstate VS Z),
  ((forall b, In b bs -> fst b = []) /\ s_lbuf st = []) \/ ((forall b, In b bs -> snd b = []) /\ s_rbuf st = []) ->
  exists st', since_run Z Z.ltb st bs = Some (st', map (fun _ => []) bs).
Proof.
  induction bs as [|[l r] bs IH]; intros st H; [exists st; reflexivity|].
  unfold since_run in *. cbn [run_g map]. unfold since_update at 1. cbn [fst snd].
  destruct H as [[Hb Hs]|[Hb Hs]].
  - pose proof (Hb (l, r) (or_introl eq_refl)) as E. cbn [fst] in E. subst l. rewrite Hs. cbn [app].
    rewrite since_loop_short_l.
    destruct (IH {| s_lbuf := []; s_rbuf := s_rbuf st ++ r; s_prev := s_prev st; s_last := s_last st |}) as (st' & E').
    { left. split; [intros b Hin; apply Hb; right; exact Hin|reflexivity]. }
    rewrite E'. exists st'. reflexivity.
  - pose proof (Hb (l, r) (or_introl eq_refl)) as E. cbn [snd] in E. subst r. rewrite Hs. cbn [app].
    rewrite since_loop_short_r.
    destruct (IH {| s_lbuf := s_lbuf st ++ l; s_rbuf := []; s_prev := s_prev st; s_last := s_last st |}) as (st' & E').
    { right. split; [intros b Hin; apply Hb; right; exact Hin|reflexivity]. }
    rewrite E'. exists st'. reflexivity.
Qed.

Lemma feedsI_nils : forall (n : nat) , feedsI [] (repeat [] n) ([] : dsig).
Proof. induction n as [|n IH]; [reflexivity|]. cbn [repeat feedsI]. exists []. split; [constructor|exact IH]. Qed.
Lemma map_const_repeat {A B} (c : B) : forall l : list A, map (fun _ => c) l = repeat c (length l).
Proof. induction l as [|x l IH]; [reflexivity|]. cbn [map length repeat]. rewrite IH. reflexivity. Qed.

Lemma goodS_nils n F : GoodS (repeat [] n) [] F.
Proof. split; [apply feedsI_nils|]. split; [exact I|]. split; [congruence|]. intros t N. congruence. Qed.

Lemma Sv_ext_range (F1 F2 G1 G2 : Z -> V) t0 t :
  (forall u, t0 <= u <= t -> F1 u = G1 u) -> (forall u, t0 <= u <= t -> F2 u = G2 u) -> Sv F1 F2 t0 t = Sv G1 G2 t0 t.
Proof.
  intros H1 H2. unfold Sv. apply zmax_ext. intros u Hu. rewrite H2 by lia. f_equal. apply zmin_ext. intros w Hw. apply H1. lia.
Qed.

Lemma since_stream xs ys S1 S2 F1 F2 : length xs = length ys -> GoodS xs S1 F1 -> GoodS ys S2 F2 ->
  exists st outs S, since_run Z Z.ltb since_init (combine xs ys) = Some (st, outs) /\ length outs = length xs /\
                    GoodS outs S (fun t => Sv F1 F2 0 t) /\ lastT S <= Z.min (lastT S1) (lastT S2).
Proof.
  intros Hl G1 G2. pose proof G1 as (H1 & D1 & Z1 & V1). pose proof G2 as (H2 & D2 & Z2 & V2).
  assert (Hdec : (S1 = [] \/ S2 = []) \/ (S1 <> [] /\ S2 <> [])).
  { destruct S1; [left; left; reflexivity|]. destruct S2; [left; right; reflexivity|]. right. split; discriminate. }
  destruct Hdec as [Hemp|[N1 N2]].
  - destruct (since_run_empty (combine xs ys) since_init) as (st & E).
    { destruct Hemp as [E|E]; [left|right]; (split; [|reflexivity]); intros [l r] Hin; cbn [fst snd].
      - apply (feedsI_nil_all xs [] S1 H1 E). apply (in_combine_l _ _ _ _ Hin).
      - apply (feedsI_nil_all ys [] S2 H2 E). apply (in_combine_r _ _ _ _ Hin). }
    exists st, (map (fun _ => []) (combine xs ys)), []. split; [exact E|]. rewrite map_length, combine_length, <- Hl, Nat.min_id.
    split; [reflexivity|]. rewrite map_const_repeat. split; [apply goodS_nils|].
    pose proof (goodS_nonneg _ _ _ G1). pose proof (goodS_nonneg _ _ _ G2). change (lastT (@nil (Z * V))) with 0. lia.
  - pose proof (feedsI_concat xs S1 H1 D1) as M1. pose proof (feedsI_concat ys S2 H2 D2) as M2.
    assert (R1 : concat xs <> []) by (intros E; apply N1; apply (sm_nil _ _ M1); exact E).
    assert (R2 : concat ys <> []) by (intros E; apply N2; apply (sm_nil _ _ M2); exact E).
    destruct (since_run_correct_w (concat xs) (concat ys) (combine xs ys) (sm_ws _ _ M1) (sm_ws _ _ M2) R1 R2)
      as (st & outs & E & Ds & Hin & Hv & _).
    { rewrite map_fst_combine by exact Hl. reflexivity. }
    { rewrite map_snd_combine by exact Hl. reflexivity. }
    rewrite (sm_start _ _ M1), (sm_start _ _ M2), (Z1 N1), (Z2 N2) in Hin, Hv. change (Z.max 0 0) with 0 in Hin, Hv.
    assert (EL1 : lastT (concat xs) = lastT S1) by (rewrite <- !lastS_stamp, (sm_last _ _ M1); reflexivity).
    assert (EL2 : lastT (concat ys) = lastT S2) by (rewrite <- !lastS_stamp, (sm_last _ _ M2); reflexivity).
    rewrite EL1, EL2 in Hin, Hv.
    exists st, outs, (concat outs). split; [exact E|].
    split; [unfold since_run in E; rewrite (run_g_length _ _ _ _ _ _ _ _ E), combine_length, <- Hl; apply Nat.min_id|].
    assert (Hrange : concat outs <> [] -> 0 <= lastT (concat outs) < Z.min (lastT S1) (lastT S2)).
    { intros N. pose proof (lastS_in _ N) as Hi. destruct (lastS (concat outs)) as [a v] eqn:El.
      rewrite <- lastS_stamp, El. cbn [fst]. apply (Hin a v Hi). }
    split; [|destruct (concat outs) as [|x l] eqn:Ec;
              [pose proof (goodS_nonneg _ _ _ G1); pose proof (goodS_nonneg _ _ _ G2); change (lastT (@nil (Z * V))) with 0; lia
              |specialize (Hrange ltac:(discriminate)); lia]].
    split; [apply (feedsI_plain outs [])|]. split; [exact Ds|].
    split.
    + intros N. pose proof (Hrange N) as Hr. pose proof (Hv 0 ltac:(lia)) as E0.
      destruct (concat outs) as [|[a v] r] eqn:Ec; [congruence|]. cbn [start].
      pose proof (Hin a v (or_introl eq_refl)) as Ha. rewrite den_opt_cons in E0.
      destruct (Z.leb_spec a 0); [lia|discriminate].
    + intros t N Ht. pose proof (Hrange N) as Hr. rewrite (Hv t) by lia. f_equal. apply Sv_ext_range; intros u Hu.
      * unfold den. rewrite (sm_den _ _ M1). apply (goodS_den xs S1 F1 u G1 N1). lia.
      * unfold den. rewrite (sm_den _ _ M2). apply (goodS_den ys S2 F2 u G2 N2). lia.
Qed.

(* ---------------- since[b,e]: the composition the code builds ---------------- *)
Definition st_step (st : @ststate VS Z (@wstate VS)) (xy : dsig * dsig) := since_timed_Z st (fst xy) (snd xy).

Lemma since_timed_run_comp : forall (xs ys : list dsig) lb rb sst hst ost ast ost' out1s sst' out2s hst' out3s ast' res,
  length xs = length ys ->
  once_timed_run ost ys = Some (ost', out1s) ->
  since_run Z Z.ltb sst (combine xs ys) = Some (sst', out2s) ->
  hist_timed_run hst out2s = Some (hst', out3s) ->
  bin_run vmin ast (combine out1s out3s) = Some (ast', res) ->
  exists st', run_g st_step {| st_lbuf := lb; st_rbuf := rb; st_since := sst; st_hist := hst; st_once := ost; st_and := ast |}
                (combine xs ys) = Some (st', res).
Proof.
  induction xs as [|x xs IH]; intros [|y ys] lb rb sst hst ost ast ost' out1s sst' out2s hst' out3s ast' res Hl E1 E2 E3 E4;
    cbn [length] in Hl; try discriminate.
  - cbn [combine] in *. unfold once_timed_run, since_run, hist_timed_run, bin_run in *. cbn [win_run run_g] in E1, E2.
    injection E1 as <- <-. injection E2 as <- <-. cbn [win_run] in E3. injection E3 as <- <-.
    cbn [combine bin_run_g] in E4. injection E4 as <- <-. eexists. reflexivity.
  - cbn [combine] in *. unfold once_timed_run, since_run, hist_timed_run, bin_run in *.
    cbn [win_run] in E1. destruct (win_update ltb bot ost y) as [[ost1 o1]|] eqn:U1; [|discriminate].
    destruct (win_run ltb bot ost1 ys) as [[ost2 o1s]|] eqn:R1; [|discriminate]. injection E1 as <- <-.
    cbn [run_g] in E2. destruct (since_update Z Z.ltb sst (x, y)) as [[sst1 o2]|] eqn:U2; [|discriminate].
    destruct (run_g (since_update Z Z.ltb) sst1 (combine xs ys)) as [[sst2 o2s]|] eqn:R2; [|discriminate]. injection E2 as <- <-.
    cbn [win_run] in E3. destruct (win_update (fun x0 y0 => ltb y0 x0) top hst o2) as [[hst1 o3]|] eqn:U3; [|discriminate].
    destruct (win_run (fun x0 y0 => ltb y0 x0) top hst1 o2s) as [[hst2 o3s]|] eqn:R3; [|discriminate]. injection E3 as <- <-.
    cbn [combine bin_run_g] in E4. destruct (bin_update_g Z Z.ltb Z.eqb vmin ast o1 o3) as [[ast1 r1]|] eqn:U4; [|discriminate].
    destruct (bin_run_g Z Z.ltb Z.eqb vmin ast1 (combine o1s o3s)) as [[ast2 rs]|] eqn:R4; [|discriminate]. injection E4 as <- <-.
    destruct (IH ys (lb ++ x) (rb ++ y) sst1 hst1 ost1 ast1 ost2 o1s sst2 o2s hst2 o3s ast2 rs ltac:(lia) R1 R2 R3 R4) as (st' & E').
    exists st'. cbn [run_g]. unfold st_step at 1, since_timed_Z, since_timed_update_g. cbn [fst snd st_once st_since st_hist st_and st_lbuf st_rbuf].
    unfold once_timed_update, hist_timed_update. rewrite U1.
    assert (U2' : since_update Z Z.ltb sst (@pair (list (Z * V)) (list (Z * V)) x y) = Some (sst1, o2)) by exact U2.
    rewrite U2', U3, U4. rewrite E'. reflexivity.
Qed.

Lemma since_timed_stream b e xs ys S1 S2 F1 F2 : 0 <= b -> b <= e -> length xs = length ys ->
  GoodS xs S1 F1 -> GoodS ys S2 F2 ->
  exists st outs S, run_g st_step (st_init (hwin_init 0 b) (owin_init b e)) (combine xs ys) = Some (st, outs) /\
    length outs = length xs /\
    GoodS outs S (fun t => if t - b <? 0 then bot
                           else zmax (fun t' => vmin (F2 t') (zmin F1 t' t)) (Z.max (t - e) 0) (t - b)) /\
    lastT S <= Z.min (lastT S1) (lastT S2).
Proof.
  intros Hb Hbe Hl G1 G2.
  destruct (once_stream RNegInf b e ys S2 F2 Hb Hbe G2) as (ost & out1s & So & E1 & L1 & Go & Ro).
  destruct (since_stream xs ys S1 S2 F1 F2 Hl G1 G2) as (sst & out2s & Ss & E2 & L2 & Gs & Rs).
  destruct (hist_stream 0 b out2s Ss _ ltac:(lia) Hb Gs) as (hst & out3s & Sh & E3 & L3 & Gh & Rh).
  pose proof Go as (_ & Do & Zo & _). pose proof Gh as (_ & Dh & Zh & _).
  assert (L13 : length out1s = length out3s) by exact (eq_trans L1 (eq_sym (eq_trans L3 (eq_trans L2 Hl)))).
  destruct (bin_stream_r vmin So Sh Do Dh Zo Zh out1s out3s _ _ L13 Go Gh) as (ast & res & S & E4 & L4 & Gr & Rr).
  destruct (since_timed_run_comp xs ys [] [] since_init (hwin_init 0 b) (owin_init b e) ostate0 _ _ _ _ _ _ _ _ Hl E1 E2 E3 E4) as (st & E).
  exists st, res, S. split; [exact E|]. split; [exact (eq_trans L4 (eq_trans L1 (eq_sym Hl)))|].
  split; [|destruct S as [|x l] eqn:ES;
            [pose proof (goodS_nonneg _ _ _ G1); pose proof (goodS_nonneg _ _ _ G2); change (lastT (@nil (Z * V))) with 0; lia
            |specialize (Rr ltac:(discriminate)); lia]].
  apply (goodS_ext _ _ _ _ Gr). intros t _ Ht. cbn beta.
  destruct (t - b <? 0) eqn:Eb; [apply vmin_bot_l|]. rewrite Z.sub_0_r.
  destruct (t <? 0) eqn:Et; [lia|]. rewrite (since_decomp F1 F2 b e t Hb Hbe) by lia.
  replace (Z.max (t - b) 0) with (t - b) by lia. reflexivity.
Qed.

End OpStreams.

(* ================================================================== *)
(* PART 3: the monitor on a fragment                                   *)
(* ================================================================== *)
Section LiftRuns.
Context {VS : Val}.

Lemma unlift_lift (s : dsig) : unlift (lift s) = Some s.
Proof.
  induction s as [|[a v] r IH]; [reflexivity|]. cbn [lift map fst snd unlift]. fold (lift r). rewrite IH. reflexivity.
Qed.

Lemma run_lift1 {St} (upd : St -> dsig -> option (St * dsig)) (step : opst -> esig -> option (opst * esig)) (wrap : St -> opst) :
  (forall st x, step (wrap st) (lift x) = match upd st x with Some (st', o) => Some (wrap st', lift o) | None => None end) ->
  forall xs st st' os, run_g upd st xs = Some (st', os) -> run_g step (wrap st) (map lift xs) = Some (wrap st', map lift os).
Proof.
  intros Hs. induction xs as [|x xs IH]; intros st st' os H; cbn [run_g map] in *.
  - injection H as <- <-. reflexivity.
  - rewrite Hs. destruct (upd st x) as [[st1 o]|]; [|discriminate].
    destruct (run_g upd st1 xs) as [[st2 os2]|] eqn:E; [|discriminate]. injection H as <- <-.
    rewrite (IH st1 st2 os2 E). reflexivity.
Qed.

Lemma run_lift2 {St} (upd : St -> dsig * dsig -> option (St * dsig)) (step : opst -> esig * esig -> option (opst * esig)) (wrap : St -> opst) :
  (forall st x y, step (wrap st) (lift x, lift y) = match upd st (x, y) with Some (st', o) => Some (wrap st', lift o) | None => None end) ->
  forall xys st st' os, run_g upd st xys = Some (st', os) ->
    run_g step (wrap st) (map (fun xy => (lift (fst xy), lift (snd xy))) xys) = Some (wrap st', map lift os).
Proof.
  intros Hs. induction xys as [|[x y] xys IH]; intros st st' os H; cbn [run_g map fst snd] in *.
  - injection H as <- <-. reflexivity.
  - rewrite Hs. destruct (upd st (x, y)) as [[st1 o]|]; [|discriminate].
    destruct (run_g upd st1 xys) as [[st2 os2]|] eqn:E; [|discriminate]. injection H as <- <-.
    rewrite (IH st1 st2 os2 E). reflexivity.
Qed.

Lemma combine_map_lift : forall (xs ys : list dsig),
  combine (map lift xs) (map lift ys) = map (fun xy => (lift (fst xy), lift (snd xy))) (combine xs ys).
Proof.
  induction xs as [|x xs IH]; intros [|y ys]; try reflexivity. cbn [map combine fst snd]. rewrite IH. reflexivity.
Qed.

Definition bin_upd2 (f : V -> V -> V) (st : @ostate VS Z) (xy : dsig * dsig) := bin_update f st (fst xy) (snd xy).
Definition bin_e2 (f : V -> V -> V) (st : @ostate VS tz) (xy : esig * esig) := bin_update_e f st (fst xy) (snd xy).
Definition mul_e2 (f : V -> V -> V) (st : @ostate VS tz) (xy : esig * esig) := mul_update_g tz tlt teq f st (fst xy) (snd xy).

Lemma bin_run_as_run_g (f : V -> V -> V) : forall bs st, bin_run f st bs = run_g (bin_upd2 f) st bs.
Proof.
  unfold bin_run, bin_upd2, bin_update. induction bs as [|[b1 b2] bs IH]; intros st; [reflexivity|].
  cbn [bin_run_g run_g fst snd]. destruct (bin_update_g Z Z.ltb Z.eqb f st b1 b2) as [[st1 o]|]; [|reflexivity].
  rewrite IH. reflexivity.
Qed.

Lemma win_run_as_run_g lt pad : forall bs st, win_run lt pad st bs = run_g (win_update lt pad) st bs.
Proof.
  induction bs as [|b bs IH]; intros st; [reflexivity|]. cbn [win_run run_g].
  destruct (win_update lt pad st b) as [[st1 o]|]; [|reflexivity]. rewrite IH. reflexivity.
Qed.

End LiftRuns.

(* ================================================================== *)
(* the merge does not look at time stamps except through < and ==      *)
(* ================================================================== *)
(* Two runs of bin_update_g on stamp types T1, T2 whose stamps are related by a relation R that respects < and ==
   return related results.  Used with T1 = tz, T2 = Z and  R (T z) z (z < N),  R TInf N : a constant operand
   [[0,c],[inf,c]] behaves as [[0,c],[N,c]] for any N beyond the stamps of the other operand. *)
Section Param.
Context {VS : Val}.
Variables T1 T2 : Type.
Variables (lt1 eq1 : T1 -> T1 -> bool) (lt2 eq2 : T2 -> T2 -> bool).
Variable R : T1 -> T2 -> Prop.
Hypothesis Rlt : forall a a' b b', R a a' -> R b b' -> lt1 a b = lt2 a' b'.
Hypothesis Req : forall a a' b b', R a a' -> R b b' -> eq1 a b = eq2 a' b'.

Definition rs (p : T1 * V) (q : T2 * V) : Prop := R (fst p) (fst q) /\ snd p = snd q.
Definition rl : list (T1 * V) -> list (T2 * V) -> Prop := Forall2 rs.
Definition ro (a : option (T1 * V)) (b : option (T2 * V)) : Prop :=
  match a, b with Some p, Some q => rs p q | None, None => True | _, _ => False end.

Lemma rl_nil_inv l' : rl [] l' -> l' = [].
Proof. intros H. inversion H. reflexivity. Qed.
Lemma rl_cons_inv x l l' : rl (x :: l) l' -> exists x' r', l' = x' :: r' /\ rs x x' /\ rl l r'.
Proof. intros H. inversion H; subst. eauto. Qed.
Lemma rl_length l l' : rl l l' -> length l = length l'.
Proof. induction 1; cbn [length]; congruence. Qed.
Lemma rl_app a a' b b' : rl a a' -> rl b b' -> rl (a ++ b) (a' ++ b').
Proof. apply Forall2_app. Qed.
Lemma rl_rev l l' : rl l l' -> rl (rev l) (rev l').
Proof. induction 1; cbn [rev]; [constructor|]. apply rl_app; [assumption|]. constructor; [assumption|constructor]. Qed.
Lemma rl_one x x' : rs x x' -> rl [x] [x'].
Proof. intros H. constructor; [exact H|constructor]. Qed.

Lemma oappend_rel o o' x x' : rl o o' -> rs x x' -> rl (oappend T1 o x) (oappend T2 o' x').
Proof.
  intros Ho Hx. unfold oappend. pose proof (rl_rev _ _ Ho) as Hr.
  destruct (rev o) as [|[t pv] q].
  - apply rl_nil_inv in Hr. rewrite Hr. apply rl_one. exact Hx.
  - apply rl_cons_inv in Hr as ([t' pv'] & q' & -> & [_ Ev] & _). cbn [snd] in Ev. subst pv'.
    destruct Hx as [Hx1 Hx2]. rewrite <- Hx2. destruct (veq pv (snd x)); [exact Ho|].
    apply rl_app; [exact Ho|]. apply rl_one. split; assumption.
Qed.

Definition rm (a : mstate T1) (b : mstate T2) : Prop :=
  let '(l1, l2, out, la) := a in let '(l1', l2', out', la') := b in rl l1 l1' /\ rl l2 l2' /\ rl out out' /\ ro la la'.
Definition rom (a : option (mstate T1)) (b : option (mstate T2)) : Prop :=
  match a, b with Some x, Some y => rm x y | None, None => True | _, _ => False end.

Ltac cmp_rw :=
  repeat match goal with
  | |- context [lt1 ?a ?b] =>
      match goal with Ha : R a ?a', Hb : R b ?b' |- _ => rewrite (Rlt a a' b b' Ha Hb) end
  | |- context [eq1 ?a ?b] =>
      match goal with Ha : R a ?a', Hb : R b ?b' |- _ => rewrite (Req a a' b b' Ha Hb) end
  end.

Lemma ostep_rel f p1 v1 c1 w1 r1 p2 v2 c2 w2 r2 out la p1' c1' r1' p2' c2' r2' out' la' :
  R p1 p1' -> R c1 c1' -> rl r1 r1' -> R p2 p2' -> R c2 c2' -> rl r2 r2' -> rl out out' -> ro la la' ->
  rom (ostep T1 lt1 eq1 f p1 v1 c1 w1 r1 p2 v2 c2 w2 r2 out la)
      (ostep T2 lt2 eq2 f p1' v1 c1' w1 r1' p2' v2 c2' w2 r2' out' la').
Proof.
  intros Hp1 Hc1 Hr1 Hp2 Hc2 Hr2 Ho Hla. unfold ostep. cmp_rw.
  assert (L1 : rl ((p1, v1) :: (c1, w1) :: r1) ((p1', v1) :: (c1', w1) :: r1')) by (repeat constructor; assumption).
  assert (L1t : rl ((c1, w1) :: r1) ((c1', w1) :: r1')) by (repeat constructor; assumption).
  assert (L2 : rl ((p2, v2) :: (c2, w2) :: r2) ((p2', v2) :: (c2', w2) :: r2')) by (repeat constructor; assumption).
  assert (L2t : rl ((c2, w2) :: r2) ((c2', w2) :: r2')) by (repeat constructor; assumption).
  assert (Hs : forall a a' v, R a a' -> rs (a, v) (a', v)) by (intros a a' v H; split; [exact H|reflexivity]).
  repeat match goal with |- context [if ?c then _ else _] => destruct c end;
  cbn [rom rm ro]; try exact I;
  repeat split; try assumption; try (apply oappend_rel; [assumption|apply Hs; assumption]); try (apply Hs; assumption).
Qed.

Lemma omain_rel f : forall fuel l1 l1' l2 l2' out out' la la',
  rl l1 l1' -> rl l2 l2' -> rl out out' -> ro la la' ->
  rom (omain T1 lt1 eq1 fuel f l1 l2 out la) (omain T2 lt2 eq2 fuel f l1' l2' out' la').
Proof.
  induction fuel as [|fuel IH]; intros l1 l1' l2 l2' out out' la la' H1 H2 Ho Hla; cbn [omain].
  - cbn [rom rm]. auto.
  - destruct l1 as [|[p1 v1] [|[c1 w1] r1]].
    + apply rl_nil_inv in H1. subst l1'. cbn [rom rm]. repeat split; auto. constructor.
    + apply rl_cons_inv in H1 as ([p1' v1'] & q & -> & [Hp1 Ev1] & Hq). apply rl_nil_inv in Hq. subst q.
      cbn [rom rm]. repeat split; auto. apply rl_one. split; assumption.
    + apply rl_cons_inv in H1 as ([p1' v1'] & q & -> & [Hp1 Ev1] & Hq).
      apply rl_cons_inv in Hq as ([c1' w1'] & r1' & -> & [Hc1 Ew1] & Hr1). cbn [fst snd] in *. subst v1' w1'.
      assert (L1 : rl ((p1, v1) :: (c1, w1) :: r1) ((p1', v1) :: (c1', w1) :: r1')) by (repeat constructor; assumption).
      destruct l2 as [|[p2 v2] [|[c2 w2] r2]].
      * apply rl_nil_inv in H2. subst l2'. cbn [rom rm]. repeat split; auto. constructor.
      * apply rl_cons_inv in H2 as ([p2' v2'] & q & -> & [Hp2 Ev2] & Hq). apply rl_nil_inv in Hq. subst q.
        cbn [rom rm]. repeat split; auto. apply rl_one. split; assumption.
      * apply rl_cons_inv in H2 as ([p2' v2'] & q & -> & [Hp2 Ev2] & Hq).
        apply rl_cons_inv in Hq as ([c2' w2'] & r2' & -> & [Hc2 Ew2] & Hr2). cbn [fst snd] in *. subst v2' w2'.
        pose proof (ostep_rel f p1 v1 c1 w1 r1 p2 v2 c2 w2 r2 out la p1' c1' r1' p2' c2' r2' out' la' Hp1 Hc1 Hr1 Hp2 Hc2 Hr2 Ho Hla) as Hs.
        destruct (ostep T1 lt1 eq1 f p1 v1 c1 w1 r1 p2 v2 c2 w2 r2 out la) as [[[[a1 a2] a3] a4]|];
        destruct (ostep T2 lt2 eq2 f p1' v1 c1' w1 r1' p2' v2 c2' w2 r2' out' la') as [[[[b1 b2] b3] b4]|];
        cbn [rom] in Hs; try contradiction; [|exact I].
        destruct Hs as (S1 & S2 & S3 & S4). apply IH; assumption.
Qed.

Definition ro2 (a : option (list (T1 * V) * option (T1 * V))) (b : option (list (T2 * V) * option (T2 * V))) : Prop :=
  match a, b with Some (o, la), Some (o', la') => rl o o' /\ ro la la' | None, None => True | _, _ => False end.

Lemma otail1_rel f : forall fuel l1 l1' p2 p2' v2 out out' la la',
  rl l1 l1' -> R p2 p2' -> rl out out' -> ro la la' ->
  ro2 (otail1 T1 lt1 eq1 fuel f l1 p2 v2 out la) (otail1 T2 lt2 eq2 fuel f l1' p2' v2 out' la').
Proof.
  induction fuel as [|fuel IH]; intros l1 l1' p2 p2' v2 out out' la la' H1 Hp2 Ho Hla; cbn [otail1].
  - cbn [ro2]. auto.
  - destruct l1 as [|[p1 v1] [|[c1 w1] r1]].
    + apply rl_nil_inv in H1. subst l1'. cbn [ro2]. auto.
    + apply rl_cons_inv in H1 as ([p1' v1'] & q & -> & [Hp1 Ev1] & Hq). apply rl_nil_inv in Hq. subst q. cbn [ro2]. auto.
    + apply rl_cons_inv in H1 as ([p1' v1'] & q & -> & [Hp1 Ev1] & Hq).
      apply rl_cons_inv in Hq as ([c1' w1'] & r1' & -> & [Hc1 Ew1] & Hr1). cbn [fst snd] in *. subst v1' w1'.
      assert (L1t : rl ((c1, w1) :: r1) ((c1', w1) :: r1')) by (repeat constructor; assumption).
      assert (Hs : forall a a' v, R a a' -> rs (a, v) (a', v)) by (intros a a' v H; split; [exact H|reflexivity]).
      cmp_rw.
      repeat match goal with |- context [if ?c then _ else _] => destruct c end;
      try (cbn [ro2 ro]; auto; fail);
      try (cbn [ro2 ro]; split; [assumption|apply Hs; assumption]);
      try (apply IH; try assumption; try (apply oappend_rel; [assumption|apply Hs; assumption]); cbn [ro]; try (apply Hs; assumption); exact I).
Qed.

Lemma otail2_rel f : forall fuel l2 l2' p1 p1' v1 out out' la la',
  rl l2 l2' -> R p1 p1' -> rl out out' -> ro la la' ->
  ro2 (otail2 T1 lt1 eq1 fuel f p1 v1 l2 out la) (otail2 T2 lt2 eq2 fuel f p1' v1 l2' out' la').
Proof.
  induction fuel as [|fuel IH]; intros l2 l2' p1 p1' v1 out out' la la' H2 Hp1 Ho Hla; cbn [otail2].
  - cbn [ro2]. auto.
  - destruct l2 as [|[p2 v2] [|[c2 w2] r2]].
    + apply rl_nil_inv in H2. subst l2'. cbn [ro2]. auto.
    + apply rl_cons_inv in H2 as ([p2' v2'] & q & -> & [Hp2 Ev2] & Hq). apply rl_nil_inv in Hq. subst q. cbn [ro2]. auto.
    + apply rl_cons_inv in H2 as ([p2' v2'] & q & -> & [Hp2 Ev2] & Hq).
      apply rl_cons_inv in Hq as ([c2' w2'] & r2' & -> & [Hc2 Ew2] & Hr2). cbn [fst snd] in *. subst v2' w2'.
      assert (L2t : rl ((c2, w2) :: r2) ((c2', w2) :: r2')) by (repeat constructor; assumption).
      assert (Hs : forall a a' v, R a a' -> rs (a, v) (a', v)) by (intros a a' v H; split; [exact H|reflexivity]).
      cmp_rw.
      repeat match goal with |- context [if ?c then _ else _] => destruct c end;
      try (cbn [ro2 ro]; auto; fail);
      try (cbn [ro2 ro]; split; [assumption|apply Hs; assumption]);
      try (apply IH; try assumption; try (apply oappend_rel; [assumption|apply Hs; assumption]); cbn [ro]; try (apply Hs; assumption); exact I).
Qed.

Definition rres (a : oresult T1) (b : oresult T2) : Prop :=
  let '(o, la, r1, r2) := a in let '(o', la', r1', r2') := b in rl o o' /\ ro la la' /\ rl r1 r1' /\ rl r2 r2'.
Definition rores (a : option (oresult T1)) (b : option (oresult T2)) : Prop :=
  match a, b with Some x, Some y => rres x y | None, None => True | _, _ => False end.

Lemma ofinish_rel f st st' : rm st st' -> rores (ofinish T1 lt1 eq1 f st) (ofinish T2 lt2 eq2 f st').
Proof.
  destruct st as [[[l1 l2] out] la], st' as [[[l1' l2'] out'] la']. intros (H1 & H2 & Ho & Hla). unfold ofinish.
  pose proof (rl_length _ _ H1) as Len1. pose proof (rl_length _ _ H2) as Len2.
  destruct l1 as [|[p1 v1] [|x1 r1]].
  - apply rl_nil_inv in H1. subst l1'. cbn [rores rres]. repeat split; auto. constructor.
  - apply rl_cons_inv in H1 as ([p1' v1'] & q & -> & [Hp1 Ev1] & Hq). apply rl_nil_inv in Hq. subst q.
    cbn [fst snd] in *. subst v1'.
    assert (L1 : rl [(p1, v1)] [(p1', v1)]) by (apply rl_one; split; [assumption|reflexivity]).
    destruct l2 as [|[p2 v2] [|x2 r2]].
    + apply rl_nil_inv in H2. subst l2'. cbn [rores rres]. repeat split; auto. constructor.
    + apply rl_cons_inv in H2 as ([p2' v2'] & q & -> & Hx & Hq). apply rl_nil_inv in Hq. subst q.
      cbn [rores rres]. repeat split; auto. apply rl_one. exact Hx.
    + pose proof H2 as H2'. apply rl_cons_inv in H2 as ([p2' v2'] & q & -> & Hx & Hq).
      apply rl_cons_inv in Hq as (x2' & r2' & -> & Hx2 & Hr2).
      rewrite <- Len2.
      pose proof (otail2_rel f (length ((p2, v2) :: x2 :: r2)) _ _ p1 p1' v1 out out' la la' H2' Hp1 Ho Hla) as Ht.
      destruct (otail2 T1 lt1 eq1 _ f p1 v1 ((p2, v2) :: x2 :: r2) out la) as [[o la1]|];
      destruct (otail2 T2 lt2 eq2 _ f p1' v1 ((p2', v2') :: x2' :: r2') out' la') as [[o' la1']|];
      cbn [ro2] in Ht; try contradiction; cbn [option_map rores rres fst snd]; [|exact I].
      destruct Ht. repeat split; assumption.
  - pose proof H1 as H1'. apply rl_cons_inv in H1 as ([p1' v1'] & q & -> & Hx & Hq).
    apply rl_cons_inv in Hq as (x1' & r1' & -> & Hx1 & Hr1).
    destruct l2 as [|[p2 v2] r2].
    + apply rl_nil_inv in H2. subst l2'. cbn [rores rres]. repeat split; auto. constructor.
    + apply rl_cons_inv in H2 as ([p2' v2'] & r2' & -> & [Hp2 Ev2] & Hr2). cbn [fst snd] in *. subst v2'.
      rewrite <- Len1.
      pose proof (otail1_rel f (length ((p1, v1) :: x1 :: r1)) _ _ p2 p2' v2 out out' la la' H1' Hp2 Ho Hla) as Ht.
      destruct (otail1 T1 lt1 eq1 _ f ((p1, v1) :: x1 :: r1) p2 v2 out la) as [[o la1]|];
      destruct (otail1 T2 lt2 eq2 _ f ((p1', v1') :: x1' :: r1') p2' v2 out' la') as [[o' la1']|];
      cbn [ro2] in Ht; try contradiction; cbn [option_map rores rres fst snd]; [|exact I].
      destruct Ht. repeat split; try assumption. repeat constructor; assumption.
Qed.

Lemma oisect_rel f s1 s1' s2 s2' : rl s1 s1' -> rl s2 s2' ->
  rores (oisect_g T1 lt1 eq1 f s1 s2) (oisect_g T2 lt2 eq2 f s1' s2').
Proof.
  intros H1 H2. pose proof (rl_length _ _ H1) as Len1. pose proof (rl_length _ _ H2) as Len2.
  destruct s1 as [|[p1 v1] q1].
  - apply rl_nil_inv in H1. subst s1'. unfold oisect_g. cbn [rores rres ro].
    split; [constructor|]. split; [exact I|]. split; [constructor|exact H2].
  - pose proof H1 as H1'. apply rl_cons_inv in H1 as ([p1' v1'] & q1' & -> & [Hp1 Ev1] & Hq1). cbn [fst snd] in *. subst v1'.
    destruct s2 as [|[p2 v2] q2].
    + apply rl_nil_inv in H2. subst s2'. unfold oisect_g. cbn [rores rres ro].
      split; [constructor|]. split; [exact I|]. split; [exact H1'|constructor].
    + pose proof H2 as H2'. apply rl_cons_inv in H2 as ([p2' v2'] & q2' & -> & [Hp2 Ev2] & Hq2). cbn [fst snd] in *. subst v2'.
      unfold oisect_g. rewrite <- Len1, <- Len2. rewrite (Req p1 p1' p2 p2' Hp1 Hp2).
      assert (Hla : ro (if eq2 p1' p2' then Some (p1, f v1 v2) else None) (if eq2 p1' p2' then Some (p1', f v1 v2) else None)).
      { destruct (eq2 p1' p2'); cbn [ro]; [split; [assumption|reflexivity]|exact I]. }
      pose proof (omain_rel f (length ((p1, v1) :: q1) + length ((p2, v2) :: q2) + 2) _ _ _ _ [] [] _ _ H1' H2' (Forall2_nil _) Hla) as Hm.
      destruct (omain T1 lt1 eq1 _ f ((p1, v1) :: q1) ((p2, v2) :: q2) [] _) as [st|];
      destruct (omain T2 lt2 eq2 _ f ((p1', v1) :: q1') ((p2', v2) :: q2') [] _) as [st'|];
      cbn [rom] in Hm; try contradiction; [|exact I]. apply ofinish_rel. exact Hm.
Qed.

Lemma obuf_add_rel buf buf' b b' : rl buf buf' -> rl b b' -> rl (obuf_add T1 eq1 buf b) (obuf_add T2 eq2 buf' b').
Proof.
  intros Hb Hc. unfold obuf_add. pose proof (rl_rev _ _ Hb) as Hr.
  destruct (rev buf) as [|[tb vb] q].
  - apply rl_nil_inv in Hr. rewrite Hr. apply rl_app; assumption.
  - apply rl_cons_inv in Hr as ([tb' vb'] & q' & -> & [Htb _] & _). cbn [fst] in Htb.
    destruct b as [|[t0 v0] rest].
    + apply rl_nil_inv in Hc. subst b'. apply rl_app; [assumption|constructor].
    + pose proof Hc as Hc'. apply rl_cons_inv in Hc as ([t0' v0'] & rest' & -> & [Ht0 _] & Hrest). cbn [fst] in Ht0.
      rewrite (Req tb tb' t0 t0' Htb Ht0). destruct (eq2 tb' t0'); apply rl_app; assumption.
Qed.

Lemma oadd_last_rel res res' la la' : rl res res' -> ro la la' -> rl (oadd_last T1 lt1 res la) (oadd_last T2 lt2 res' la').
Proof.
  intros Hr Hla. unfold oadd_last. destruct la as [x|], la' as [x'|]; cbn [ro] in Hla; try contradiction; [|exact Hr].
  pose proof (rl_rev _ _ Hr) as Hv. destruct (rev res) as [|[tr vr] q].
  - apply rl_nil_inv in Hv. rewrite Hv. apply rl_one. exact Hla.
  - apply rl_cons_inv in Hv as ([tr' vr'] & q' & -> & [Htr _] & _). cbn [fst] in Htr. destruct Hla as [Hx1 Hx2].
    rewrite (Rlt tr tr' (fst x) (fst x') Htr Hx1). destruct (lt2 tr' (fst x')); [|exact Hr].
    apply rl_app; [exact Hr|]. apply rl_one. split; assumption.
Qed.

Lemma odrop_first_rel lo lo' res res' : ro lo lo' -> rl res res' -> rl (odrop_first T1 eq1 lo res) (odrop_first T2 eq2 lo' res').
Proof.
  intros Hlo Hr. unfold odrop_first. destruct lo as [[to vo]|], lo' as [[to' vo']|]; cbn [ro] in Hlo; try contradiction; [|exact Hr].
  destruct Hlo as [Hto Evo]. cbn [fst snd] in *. subst vo'.
  destruct res as [|[t0 v0] rest].
  - apply rl_nil_inv in Hr. subst res'. constructor.
  - pose proof Hr as Hr'. apply rl_cons_inv in Hr as ([t0' v0'] & rest' & -> & [Ht0 Ev0] & Hrest). cbn [fst snd] in *. subst v0'.
    rewrite (Req to to' t0 t0' Hto Ht0). destruct (eq2 to' t0' && veq vo v0); assumption.
Qed.

Definition rst (a : @ostate VS T1) (b : @ostate VS T2) : Prop :=
  rl (lbuf a) (lbuf b) /\ rl (rbuf a) (rbuf b) /\ ro (lout a) (lout b).

Lemma bin_update_rel f st st' b1 b1' b2 b2' : rst st st' -> rl b1 b1' -> rl b2 b2' ->
  match bin_update_g T1 lt1 eq1 f st b1 b2, bin_update_g T2 lt2 eq2 f st' b1' b2' with
  | Some (s, o), Some (s', o') => rst s s' /\ rl o o'
  | None, None => True
  | _, _ => False
  end.
Proof.
  intros (Hl & Hr & Hlo) H1 H2. unfold bin_update_g.
  pose proof (oisect_rel f _ _ _ _ (obuf_add_rel _ _ _ _ Hl H1) (obuf_add_rel _ _ _ _ Hr H2)) as Hi.
  destruct (oisect_g T1 lt1 eq1 f (obuf_add T1 eq1 (lbuf st) b1) (obuf_add T1 eq1 (rbuf st) b2)) as [[[[res la] l1] r1]|];
  destruct (oisect_g T2 lt2 eq2 f (obuf_add T2 eq2 (lbuf st') b1') (obuf_add T2 eq2 (rbuf st') b2')) as [[[[res' la'] l1'] r1']|];
  cbn [rores rres] in Hi; try contradiction; [|exact I].
  destruct Hi as (Hres & Hla & Hl1 & Hr1).
  pose proof (odrop_first_rel _ _ _ _ Hlo (oadd_last_rel _ _ _ _ Hres Hla)) as Ho.
  split; [|exact Ho]. split; [exact Hl1|]. split; [exact Hr1|]. cbn [lout].
  pose proof (rl_rev _ _ Ho) as Hv.
  destruct (rev (odrop_first T1 eq1 (lout st) (oadd_last T1 lt1 res la))) as [|x q].
  - apply rl_nil_inv in Hv. rewrite Hv. exact Hlo.
  - apply rl_cons_inv in Hv as (x' & q' & -> & Hx & _). exact Hx.
Qed.

End Param.

(* ================================================================== *)
(* a binary operation with a constant operand                          *)
(* ================================================================== *)
Section ConstOp.
Context {VS : Val}.

Definition Rn (N : Z) (a : tz) (a' : Z) : Prop := match a with T z => a' = z /\ z < N | TInf => a' = N end.
Lemma Rn_lt N a a' b b' : Rn N a a' -> Rn N b b' -> tlt a b = (a' <? b').
Proof. destruct a as [x|], b as [y|]; cbn [Rn tlt]; intros; lia. Qed.
Lemma Rn_eq N a a' b b' : Rn N a a' -> Rn N b b' -> teq a b = (a' =? b').
Proof. destruct a as [x|], b as [y|]; cbn [Rn teq]; intros; lia. Qed.

Definition rlN (N : Z) : esig -> dsig -> Prop := rl tz Z (Rn N).

Lemma rl_lift N (s : dsig) : (forall a v, In (a, v) s -> a < N) -> rlN N (lift s) s.
Proof.
  induction s as [|[a v] r IH]; intros H; [constructor|]. cbn [lift map fst snd]. constructor.
  - split; [|reflexivity]. cbn [fst Rn]. split; [reflexivity|]. apply (H a v). left. reflexivity.
  - apply IH. intros a' v' Hin. apply (H a' v'). right. exact Hin.
Qed.
Lemma rl_unlift N (o : esig) (o' : dsig) : rlN N o o' -> (forall a v, In (a, v) o' -> a < N) -> o = lift o'.
Proof.
  induction 1 as [|[a v] [a' v'] l l' [Hx Ev] Hl IH]; intros H; [reflexivity|]. cbn [fst snd] in *. subst v'.
  cbn [lift map fst snd]. fold (lift l'). rewrite <- IH by (intros b w Hin; apply (H b w); right; exact Hin). f_equal. f_equal.
  destruct a as [z|]; cbn [Rn] in Hx; [destruct Hx as [-> _]; reflexivity|].
  pose proof (H a' v (or_introl eq_refl)). lia.
Qed.

Definition rpair N (b : esig * esig) (b' : dsig * dsig) : Prop := rlN N (fst b) (fst b') /\ rlN N (snd b) (snd b').
Definition rupd (updE : @ostate VS tz -> esig * esig -> option (@ostate VS tz * esig))
                (updZ : @ostate VS Z -> dsig * dsig -> option (@ostate VS Z * dsig)) : Prop :=
  forall N st st' b b', rst tz Z (Rn N) st st' -> rpair N b b' ->
    match updE st b, updZ st' b' with
    | Some (s, o), Some (s', o') => rst tz Z (Rn N) s s' /\ rlN N o o'
    | None, None => True
    | _, _ => False
    end.

Lemma rupd_bin f : rupd (bin_e2 f) (bin_upd2 f).
Proof.
  intros N st st' [b1 b2] [b1' b2'] Hst [H1 H2]. cbn [fst snd] in H1, H2. unfold bin_e2, bin_upd2, bin_update_e, bin_update. cbn [fst snd].
  apply (bin_update_rel tz Z tlt teq Z.ltb Z.eqb (Rn N) (Rn_lt N) (Rn_eq N) f st st' b1 b1' b2 b2' Hst H1 H2).
Qed.
Lemma rupd_mul f : rupd (mul_e2 f) (mul_upd2 f).
Proof.
  intros N st st' [b1 b2] [b1' b2'] (Hl & Hr & _) [H1 H2]. cbn [fst snd] in H1, H2. unfold mul_e2, mul_upd2, mul_update_g. cbn [fst snd].
  apply (bin_update_rel tz Z tlt teq Z.ltb Z.eqb (Rn N) (Rn_lt N) (Rn_eq N) f _ _ b1 b1' b2 b2'); [|exact H1|exact H2].
  split; [exact Hl|]. split; [exact Hr|exact I].
Qed.

Lemma run_rel N updE updZ : rupd updE updZ -> forall bs bs' st st', rst tz Z (Rn N) st st' -> Forall2 (rpair N) bs bs' ->
  match run_g updE st bs, run_g updZ st' bs' with
  | Some (s, os), Some (s', os') => rst tz Z (Rn N) s s' /\ Forall2 (rlN N) os os'
  | None, None => True
  | _, _ => False
  end.
Proof.
  intros Hrel. induction bs as [|b bs IH]; intros bs' st st' Hst Hb.
  - inversion Hb; subst. cbn [run_g]. split; [exact Hst|constructor].
  - inversion Hb as [|? b' ? bs2 Hbb Hbs]; subst. cbn [run_g].
    pose proof (Hrel N st st' b b' Hst Hbb) as Hu.
    destruct (updE st b) as [[s1 o]|]; destruct (updZ st' b') as [[s1' o']|]; try contradiction; [|exact I].
    destruct Hu as [Hs1 Ho]. specialize (IH bs2 s1 s1' Hs1 Hbs).
    destruct (run_g updE s1 bs) as [[s2 os]|]; destruct (run_g updZ s1' bs2) as [[s2' os']|]; try contradiction; [|exact I].
    destruct IH as [Hs2 Hos]. split; [exact Hs2|]. constructor; assumption.
Qed.

Lemma Forall2_combine {A A' B B'} (R1 : A -> A' -> Prop) (R2 : B -> B' -> Prop) :
  forall a a' b b', Forall2 R1 a a' -> Forall2 R2 b b' ->
  Forall2 (fun p q => R1 (fst p) (fst q) /\ R2 (snd p) (snd q)) (combine a b) (combine a' b').
Proof.
  induction a as [|x a IH]; intros a' b b' H1 H2; inversion H1; subst; cbn [combine]; [constructor|].
  inversion H2; subst; cbn [combine]; [constructor|]. constructor; [split; assumption|]. apply IH; assumption.
Qed.

Lemma Forall2_lift_eq N : forall (os : list esig) (os' : list dsig), Forall2 (rlN N) os os' ->
  (forall o a v, In o os' -> In (a, v) o -> a < N) -> os = map lift os'.
Proof.
  induction 1 as [|o o' l l' Ho Hl IH]; intros H; [reflexivity|]. cbn [map]. f_equal.
  - apply (rl_unlift N o o' Ho). intros a v Hin. apply (H o' a v); [left; reflexivity|exact Hin].
  - apply IH. intros o2 a v Hin2 Hin. apply (H o2 a v); [right; exact Hin2|exact Hin].
Qed.

Lemma rst0 N : rst tz Z (Rn N) ostate0 ostate0.
Proof. split; [constructor|]. split; [constructor|exact I]. Qed.

Lemma feedsI_in : forall (os : list dsig) A S, feedsI A os S -> forall c x, In c os -> In x c -> In x S.
Proof.
  induction os as [|c0 os IH]; intros A S H c x Hc Hx; [destruct Hc|].
  destruct H as (b & Hb & H). destruct Hc as [<-|Hc]; [|apply (IH _ _ H c x Hc Hx)].
  destruct (feedsI_prefix _ _ _ H) as [q ->]. destruct Hb as [|NA].
  - apply in_or_app. left. apply in_or_app. right. exact Hx.
  - destruct Hx as [<-|Hx].
    + apply in_or_app. left. apply in_or_app. left. apply lastS_in. exact NA.
    + apply in_or_app. left. apply in_or_app. right. exact Hx.
Qed.

(* the constant as a stream of lists: everything in the first update *)
Definition cstream_e (c : V) (n : nat) : list esig := match n with O => [] | S m => [(T 0, c); (TInf, c)] :: repeat [] m end.
Definition cstream_z (N : Z) (c : V) (n : nat) : list dsig := match n with O => [] | S m => [(0, c); (N, c)] :: repeat [] m end.

Lemma cstream_rel N c n : 0 < N -> Forall2 (rlN N) (cstream_e c n) (cstream_z N c n).
Proof.
  intros HN. destruct n as [|m]; [constructor|]. cbn [cstream_e cstream_z]. constructor.
  - constructor; [split; [cbn [fst Rn]; lia|reflexivity]|]. constructor; [split; [reflexivity|reflexivity]|constructor].
  - induction m as [|m IH]; cbn [repeat]; constructor; [constructor|exact IH].
Qed.
Lemma cstream_length_e c n : length (cstream_e c n) = n.
Proof. destruct n; [reflexivity|]. cbn [cstream_e length]. rewrite repeat_length. reflexivity. Qed.
Lemma cstream_length_z N c n : length (cstream_z N c n) = n.
Proof. destruct n; [reflexivity|]. cbn [cstream_z length]. rewrite repeat_length. reflexivity. Qed.

Lemma cstream_good N c m : 0 < N -> GoodS (cstream_z N c (S m)) [(0, c); (N, c)] (fun _ => c).
Proof.
  intros HN. split.
  - cbn [cstream_z feedsI]. exists [(0, c); (N, c)]. split; [constructor|]. cbn [app].
    induction m as [|m IH]; [reflexivity|]. cbn [repeat feedsI]. exists []. split; [constructor|]. rewrite app_nil_r. exact IH.
  - split; [cbn [dsorted]; auto|]. split; [reflexivity|]. intros t _ Ht. change (lastT [(0, c); (N, c)]) with N in Ht.
    rewrite !den_opt_cons. cbn [den_opt]. destruct (0 <=? t) eqn:E0; [|lia]. destruct (N <=? t); reflexivity.
Qed.

Lemma goodS_stamps os S F : GoodS os S F -> forall c a v, In c os -> In (a, v) c -> a <= lastT S.
Proof.
  intros (H1 & H2 & _) c a v Hc Hx. pose proof (feedsI_in os [] S H1 c (a, v) Hc Hx) as Hin.
  apply (wsorted_le_last S (dsorted_wsorted _ H2) a v Hin).
Qed.

(* what the Z instance of an operation through intersection() delivers (bin_stream_r, mul_stream_r) *)
Definition zstream (fo : V -> V -> V) (updZ : @ostate VS Z -> dsig * dsig -> option (@ostate VS Z * dsig)) : Prop :=
  forall S1 S2, dsorted S1 -> dsorted S2 -> (S1 <> [] -> start S1 = 0) -> (S2 <> [] -> start S2 = 0) ->
  forall xs ys F1 F2, length xs = length ys -> GoodS xs S1 F1 -> GoodS ys S2 F2 ->
  exists st outs S, run_g updZ ostate0 (combine xs ys) = Some (st, outs) /\ length outs = length xs /\
                    GoodS outs S (fun t => fo (F1 t) (F2 t)) /\ (S <> [] -> lastT S <= Z.min (lastT S1) (lastT S2)).

Lemma zstream_bin fo : zstream fo (bin_upd2 fo).
Proof.
  intros S1 S2 D1 D2 Z1 Z2 xs ys F1 F2 Hl G1 G2.
  destruct (bin_stream_r fo S1 S2 D1 D2 Z1 Z2 xs ys F1 F2 Hl G1 G2) as (st & outs & S & Er & H).
  exists st, outs, S. split; [rewrite <- bin_run_as_run_g; exact Er|exact H].
Qed.
Lemma zstream_mul fo : zstream fo (mul_upd2 fo).
Proof. intros S1 S2 D1 D2 Z1 Z2 xs ys F1 F2 Hl G1 G2. apply (mul_stream_r fo S1 S2 D1 D2 Z1 Z2 xs ys F1 F2 Hl G1 G2). Qed.

Section ConstGeneric.
Variable fo : V -> V -> V.
Variable updE : @ostate VS tz -> esig * esig -> option (@ostate VS tz * esig).
Variable updZ : @ostate VS Z -> dsig * dsig -> option (@ostate VS Z * dsig).
Hypothesis Hrel : rupd updE updZ.
Hypothesis HZ : zstream fo updZ.

Lemma lift_rel N F (xs : list dsig) S : GoodS xs S F -> lastT S < N -> Forall2 (rlN N) (map lift xs) xs.
Proof.
  intros G HN.
  assert (Hall : forall x a v, In x xs -> In (a, v) x -> a < N).
  { intros x a v Hx Hin. pose proof (goodS_stamps xs S F G x a v Hx Hin). lia. }
  clear - Hall. induction xs as [|x xs IH]; [constructor|]. cbn [map]. constructor.
  - apply rl_lift. intros a v Hin. apply (Hall x a v); [left; reflexivity|exact Hin].
  - apply IH. intros x' a v Hx Hin. apply (Hall x' a v); [right; exact Hx|exact Hin].
Qed.

(* the constant on the right *)
Lemma const_r xs S1 F1 c : GoodS xs S1 F1 ->
  exists st os S, run_g updE ostate0 (combine (map lift xs) (cstream_e c (length xs))) = Some (st, map lift os) /\
                  length os = length xs /\ GoodS os S (fun t => fo (F1 t) c) /\ lastT S <= lastT S1.
Proof.
  intros G1. destruct xs as [|x0 xs'] eqn:Exs.
  { exists ostate0, [], []. split; [reflexivity|]. split; [reflexivity|]. split; [|apply (goodS_nonneg _ _ _ G1)].
    split; [reflexivity|]. split; [exact I|]. split; congruence. }
  rewrite <- Exs in *. assert (El : length xs = S (length xs')) by (rewrite Exs; reflexivity).
  set (N := Z.max (lastT S1) 0 + 1). assert (HN : 0 < N) by (unfold N; lia).
  pose proof G1 as (_ & D1 & Z1 & _).
  assert (D2 : dsorted [(0, c); (N, c)]) by (cbn [dsorted]; auto).
  destruct (HZ S1 [(0, c); (N, c)] D1 D2 Z1 ltac:(reflexivity) xs (cstream_z N c (length xs)) F1 (fun _ => c))
    as (st' & os & S & Er & Hl & Go & Hrange).
  { rewrite cstream_length_z. reflexivity. }
  { exact G1. }
  { rewrite El. apply cstream_good. exact HN. }
  pose proof (lift_rel N F1 xs S1 G1 ltac:(unfold N; lia)) as Hxs.
  pose proof (run_rel N updE updZ Hrel _ _ ostate0 ostate0 (rst0 N) (Forall2_combine _ _ _ _ _ _ Hxs (cstream_rel N c (length xs) HN))) as Hr.
  rewrite Er in Hr. destruct (run_g updE ostate0 (combine (map lift xs) (cstream_e c (length xs)))) as [[st ose]|]; [|contradiction].
  destruct Hr as [_ Hos]. exists st, os, S. split; [|split; [exact Hl|split; [exact Go|]]].
  - f_equal. f_equal.
    apply (Forall2_lift_eq N ose os Hos). intros o a v Ho Hin.
    pose proof (goodS_stamps os S _ Go o a v Ho Hin) as Hle.
    assert (NS : S <> []) by (intros E; pose proof Go as (Hf & _); apply (feedsI_nil_all os [] S Hf E) in Ho; subst o; destruct Hin).
    specialize (Hrange NS). unfold N. lia.
  - destruct S as [|x l] eqn:ES; [apply (goodS_nonneg _ _ _ G1)|]. specialize (Hrange ltac:(discriminate)). lia.
Qed.

(* the constant on the left *)
Lemma const_l ys S2 F2 c : GoodS ys S2 F2 ->
  exists st os S, run_g updE ostate0 (combine (cstream_e c (length ys)) (map lift ys)) = Some (st, map lift os) /\
                  length os = length ys /\ GoodS os S (fun t => fo c (F2 t)) /\ lastT S <= lastT S2.
Proof.
  intros G2. destruct ys as [|y0 ys'] eqn:Eys.
  { exists ostate0, [], []. split; [reflexivity|]. split; [reflexivity|]. split; [|apply (goodS_nonneg _ _ _ G2)].
    split; [reflexivity|]. split; [exact I|]. split; congruence. }
  rewrite <- Eys in *. assert (El : length ys = S (length ys')) by (rewrite Eys; reflexivity).
  set (N := Z.max (lastT S2) 0 + 1). assert (HN : 0 < N) by (unfold N; lia).
  pose proof G2 as (_ & D2 & Z2 & _).
  assert (D1 : dsorted [(0, c); (N, c)]) by (cbn [dsorted]; auto).
  destruct (HZ [(0, c); (N, c)] S2 D1 D2 ltac:(reflexivity) Z2 (cstream_z N c (length ys)) ys (fun _ => c) F2)
    as (st' & os & S & Er & Hl & Go & Hrange).
  { rewrite cstream_length_z. reflexivity. }
  { rewrite El. apply cstream_good. exact HN. }
  { exact G2. }
  pose proof (lift_rel N F2 ys S2 G2 ltac:(unfold N; lia)) as Hys.
  pose proof (run_rel N updE updZ Hrel _ _ ostate0 ostate0 (rst0 N) (Forall2_combine _ _ _ _ _ _ (cstream_rel N c (length ys) HN) Hys)) as Hr.
  rewrite Er in Hr. destruct (run_g updE ostate0 (combine (cstream_e c (length ys)) (map lift ys))) as [[st ose]|]; [|contradiction].
  change (lastT [(0, c); (N, c)]) with N in Hrange.
  destruct Hr as [_ Hos]. exists st, os, S. split; [|split; [rewrite Hl; apply cstream_length_z|split; [exact Go|]]].
  - f_equal. f_equal.
    apply (Forall2_lift_eq N ose os Hos). intros o a v Ho Hin.
    pose proof (goodS_stamps os S _ Go o a v Ho Hin) as Hle.
    assert (NS : S <> []) by (intros E; pose proof Go as (Hf & _); apply (feedsI_nil_all os [] S Hf E) in Ho; subst o; destruct Hin).
    specialize (Hrange NS). unfold N. lia.
  - destruct S as [|x l] eqn:ES; [apply (goodS_nonneg _ _ _ G2)|]. specialize (Hrange ltac:(discriminate)). lia.
Qed.

End ConstGeneric.

End ConstOp.

Section MainZ.
Context {VS : Val} (AR : Arith VS).
Variable pk : formula -> formula -> pkind.
Hypothesis Hstd : forall f g, pk f g = PStd.
Hypothesis SubNeg : forall l r, neg (a2 AR Sub l r) = a2 AR Sub r l.
Variable W : list dsig.                 (* the complete input signals, by variable index *)
Variable tend : Z.
Variable envs : list (list dsig).       (* the data sets of the successive updates *)
Hypothesis Hfeed : forall x, feedsI [] (map (fun env => nth x env []) envs) (nth x W []).
Hypothesis HWs : forall x, dsorted (nth x W []).
Hypothesis HW0 : forall x, nth x W [] <> [] -> start (nth x W []) = 0.

Notation RZ := (rhoZ AR pk W tend).
Notation trun := (trun AR pk envs).

Definition total1 (o : aop1) : bool := match o with Abs | Neg | Exp => true | _ => false end.

(* the fragment: variables; total unary arithmetic; binary arithmetic, predicates and Boolean
   connectives over two open operands or over an open operand and a constant; once, historically, since, bounded or not *)
Definition isconst (p : formula) : bool := match p with Const _ => true | _ => false end.
Fixpoint frag (p : formula) : bool :=
  match p with
  | Var _ => true
  | A1 o f => total1 o && frag f
  | Not f | Once f | Hist f => frag f
  | OnceT b e f | HistT b e f => (b <=? e)%nat && frag f
  | A2 _ f g | Pred _ f g | And f g | Or f g | Implies f g | Iff f g | Xor f g =>
      (frag f && frag g) || (frag f && isconst g) || (isconst f && frag g)
  | Since f g => frag f && frag g
  | SinceT b e f g => (b <=? e)%nat && frag f && frag g
  | _ => false
  end.

Lemma opnds_open f g : (frag f = true -> closed f = false) -> (frag g = true -> closed g = false) ->
  (frag f && frag g) || (frag f && isconst g) || (isconst f && frag g) = true -> closed f && closed g = false.
Proof.
  intros Hf Hg H. apply orb_prop in H as [H|H]; [apply orb_prop in H as [H|H]|]; apply andb_prop in H as [H1 H2].
  - rewrite (Hf H1). reflexivity.
  - rewrite (Hf H1). reflexivity.
  - rewrite (Hg H2). apply andb_false_r.
Qed.

Lemma frag_open p : frag p = true -> closed p = false.
Proof.
  induction p; cbn [frag closed]; intros H; try discriminate; try reflexivity;
  try (apply (opnds_open p1 p2 IHp1 IHp2); exact H);
  repeat match goal with H : _ && _ = true |- _ => apply andb_prop in H; destruct H end;
  try (apply IHp; assumption); try (apply (opnds_open p1 p2 IHp1 IHp2); assumption);
  rewrite IHp1 by assumption; reflexivity.
Qed.

Lemma dstart0 p : dstart W p = 0.
Proof.
  induction p; cbn [dstart]; try reflexivity; try exact IHp; try (rewrite IHp1, IHp2; reflexivity).
  destruct (nth x W []) as [|y l] eqn:E; [reflexivity|]. rewrite <- E. apply HW0. rewrite E. discriminate.
Qed.

(* the variables of a formula; how far a delivered signal may reach: never beyond the last sample of any of them *)
Fixpoint fvars (p : formula) : list nat :=
  match p with
  | Var x => [x]
  | Const _ => []
  | A1 _ f | Not f | Rise f | Fall f | Prev f | SPrev f | Next f | SNext f
  | Once f | Hist f | Ev f | Alw f
  | OnceT _ _ f | HistT _ _ f | EvT _ _ f | AlwT _ _ f => fvars f
  | A2 _ f g | Pred _ f g | And f g | Or f g | Implies f g | Iff f g | Xor f g
  | Since f g | Until f g
  | SinceT _ _ f g | UntilT _ _ f g | Precedes _ _ f g => fvars f ++ fvars g
  end.
Definition Bound (p : formula) (S : dsig) : Prop := forall x, In x (fvars p) -> lastT S <= lastT (nth x W []).

Lemma Bound_un p f S S' : fvars p = fvars f -> Bound f S -> lastT S' <= lastT S -> Bound p S'.
Proof. intros E B H x Hx. rewrite E in Hx. specialize (B x Hx). lia. Qed.
Lemma Bound_bi p f g S1 S2 S : fvars p = fvars f ++ fvars g -> Bound f S1 -> Bound g S2 ->
  lastT S <= Z.min (lastT S1) (lastT S2) -> Bound p S.
Proof.
  intros E B1 B2 H x Hx. rewrite E in Hx. apply in_app_or in Hx as [Hx|Hx]; [specialize (B1 x Hx)|specialize (B2 x Hx)]; lia.
Qed.
Lemma lastT_same_stamps (a b : dsig) : map fst a = map fst b -> lastT a = lastT b.
Proof.
  revert b. induction a as [|[t v] a IH]; intros [|[t' v'] b] E; cbn [map fst] in E; try discriminate; [reflexivity|].
  injection E as -> E. destruct a as [|x a'], b as [|y b']; try discriminate; [reflexivity|].
  rewrite !lastT_cons. apply IH. exact E.
Qed.
Lemma fold_lastT g init (S : dsig) : lastT (snd (fold_loop Z g init S)) = lastT S.
Proof.
  apply lastT_same_stamps. revert init. induction S as [|[a v] r IH]; intros init; [reflexivity|]. cbn [fold_loop]. specialize (IH (g v init)).
  destruct (fold_loop Z g (g v init) r) as [pf out]. cbn [snd map fst] in *. rewrite IH. reflexivity.
Qed.

Lemma fn1_total o : total1 o = true -> forall v, fn1 AR o v = Some (a1 AR o v).
Proof. destruct o; cbn [total1]; intros H v; try discriminate; reflexivity. Qed.

Lemma pred_of_diff_sub c l r : pred_of_diff AR c (a2 AR Sub l r) = pred_std AR c l r.
Proof. destruct c; cbn [pred_of_diff pred_std]; try reflexivity; apply SubNeg. Qed.

(* ---- the tree run of a node from the tree runs of its operands ---- *)
Lemma node_un {St} p f (upd : St -> dsig -> option (St * dsig)) (wrap : St -> opst) st0 xs st' os :
  shape p = HUn f -> trun f = Some (map lift xs) -> op_init p = wrap st0 ->
  (forall st x, ustep AR p (wrap st) (lift x) = match upd st x with Some (st1, o) => Some (wrap st1, lift o) | None => None end) ->
  run_g upd st0 xs = Some (st', os) -> trun p = Some (map lift os).
Proof.
  intros Sh Ef E0 Hs Er. rewrite trun_shape, Sh, Ef, E0. rewrite (run_lift1 upd (ustep AR p) wrap Hs xs st0 st' os Er). reflexivity.
Qed.

Lemma node_bi {St} p f g (upd : St -> dsig * dsig -> option (St * dsig)) (wrap : St -> opst) st0 xs ys st' os :
  shape p = HBi f g -> trun f = Some (map lift xs) -> trun g = Some (map lift ys) -> op_init p = wrap st0 ->
  (forall st x y, bstep AR pk p (wrap st) (lift x) (lift y) =
                  match upd st (x, y) with Some (st1, o) => Some (wrap st1, lift o) | None => None end) ->
  run_g upd st0 (combine xs ys) = Some (st', os) -> trun p = Some (map lift os).
Proof.
  intros Sh Ef Eg E0 Hs Er. rewrite trun_shape, Sh, Ef, Eg, E0, combine_map_lift.
  rewrite (run_lift2 upd (bstep2 AR pk p) wrap (fun st x y => Hs st x y) (combine xs ys) st0 st' os Er). reflexivity.
Qed.

(* the Z instance of a binary node through intersection(), both operands open *)
Lemma node_bin p f g (fo : V -> V -> V) updZ xs ys S1 S2 :
  zstream fo updZ ->
  shape p = HBi f g -> closed f || closed g = false -> op_init p = SBinZ ostate0 ->
  (forall s x y, bstep AR pk p (SBinZ s) (lift x) (lift y) =
     match updZ s (x, y) with Some (s1, o) => Some (SBinZ s1, lift o) | None => None end) ->
  trun f = Some (map lift xs) -> trun g = Some (map lift ys) -> length xs = length envs -> length ys = length envs ->
  GoodS xs S1 (RZ f) -> GoodS ys S2 (RZ g) ->
  exists os S, trun p = Some (map lift os) /\ length os = length envs /\ GoodS os S (fun t => fo (RZ f t) (RZ g t)) /\
               lastT S <= Z.min (lastT S1) (lastT S2).
Proof.
  intros HZ Sh Hc E0 Hs Ef Eg L1 L2 G1 G2. pose proof G1 as (_ & D1 & Z1 & _). pose proof G2 as (_ & D2 & Z2 & _).
  destruct (HZ S1 S2 D1 D2 Z1 Z2 xs ys _ _ ltac:(congruence) G1 G2) as (st & os & S & Er & Hl & Go & Rg).
  exists os, S. split; [|split; [congruence|split; [exact Go|]]].
  - apply (node_bi p f g updZ SBinZ ostate0 xs ys st os Sh Ef Eg E0 Hs Er).
  - destruct S as [|x l] eqn:ES; [|apply Rg; discriminate].
    pose proof (goodS_nonneg _ _ _ G1). pose proof (goodS_nonneg _ _ _ G2). change (lastT (@nil (Z * V))) with 0. lia.
Qed.

Lemma pred_run c : forall bs st so st' os,
  bin_run (a2 AR Sub) st bs = Some (st', os) ->
  exists so', run_g (fun (s : @pstate VS Z) (xy : dsig * dsig) => pred_update_ia AR Z Z.ltb Z.eqb PStd c s (fst xy) (snd xy))
                {| p_sub := st; p_subout := so |} bs =
              Some ({| p_sub := st'; p_subout := so' |}, map (gmap (pred_of_diff AR c)) os).
Proof.
  unfold bin_run. induction bs as [|[b1 b2] bs IH]; intros st so st' os H; cbn [bin_run_g run_g] in *.
  - injection H as <- <-. exists so. reflexivity.
  - unfold pred_update_ia at 1, pred_update_g at 1. cbn [fst snd p_sub].
    destruct (bin_update_g Z Z.ltb Z.eqb (a2 AR Sub) st b1 b2) as [[st1 o]|]; [|discriminate].
    destruct (bin_run_g Z Z.ltb Z.eqb (a2 AR Sub) st1 bs) as [[st2 os2]|] eqn:E; [|discriminate]. injection H as <- <-.
    destruct (IH st1 o st2 os2 E) as (so' & E'). rewrite E'. exists so'. reflexivity.
Qed.

Lemma run_wrap {St B} (upd : St -> B -> option (St * esig)) (step : opst -> B -> option (opst * esig)) (wrap : St -> opst) :
  (forall st b, step (wrap st) b = match upd st b with Some (st', o) => Some (wrap st', o) | None => None end) ->
  forall bs st st' os, run_g upd st bs = Some (st', os) -> run_g step (wrap st) bs = Some (wrap st', os).
Proof.
  intros Hs. induction bs as [|b bs IH]; intros st st' os H; cbn [run_g] in *.
  - injection H as <- <-. reflexivity.
  - rewrite Hs. destruct (upd st b) as [[st1 o]|]; [|discriminate].
    destruct (run_g upd st1 bs) as [[st2 os2]|] eqn:E; [|discriminate]. injection H as <- <-.
    rewrite (IH st1 st2 os2 E). reflexivity.
Qed.

Lemma trun_const c : trun (Const c) = Some (cstream_e c (length envs)).
Proof.
  rewrite trun_shape. cbn [shape op_init].
  assert (Hlater : forall (l : list (list dsig)) st, c_first st = false ->
            run_g (cstep) (SConst st) (map (fun _ => tt) l) = Some (SConst st, repeat [] (length l))).
  { induction l as [|x l IH]; intros st Hst; [reflexivity|]. cbn [map run_g cstep length repeat].
    unfold const_update. rewrite Hst. rewrite (IH st Hst). reflexivity. }
  destruct envs as [|e0 l]; [reflexivity|]. cbn [map run_g cstep length]. unfold const_update at 1, const_init. cbn [c_first c_val].
  rewrite Hlater by reflexivity. reflexivity.
Qed.

Definition IHq (q : formula) : Prop :=
  frag q = true -> exists os S, trun q = Some (map lift os) /\ length os = length envs /\ GoodS os S (RZ q) /\ Bound q S.

(* a binary node through intersection(): two open operands, or an open operand and a constant *)
Lemma node_bin_any p f g (fo : V -> V -> V) updZ updE :
  zstream fo updZ -> rupd updE updZ ->
  shape p = HBi f g -> fvars p = fvars f ++ fvars g ->
  op_init p = (if closed f || closed g then SBinE ostate0 else SBinZ ostate0) ->
  (forall s x y, bstep AR pk p (SBinZ s) (lift x) (lift y) =
     match updZ s (x, y) with Some (s1, o) => Some (SBinZ s1, lift o) | None => None end) ->
  (forall s b, bstep2 AR pk p (SBinE s) b = match updE s b with Some (s1, o) => Some (SBinE s1, o) | None => None end) ->
  (frag f && frag g) || (frag f && isconst g) || (isconst f && frag g) = true -> IHq f -> IHq g ->
  exists os S, trun p = Some (map lift os) /\ length os = length envs /\ GoodS os S (fun t => fo (RZ f t) (RZ g t)) /\ Bound p S.
Proof.
  intros HZ Hrel Sh Ev E0 HsZ HE Hop IHf IHg.
  apply orb_prop in Hop as [Hop|Hop]; [apply orb_prop in Hop as [Hop|Hop]|]; apply andb_prop in Hop as [H1 H2].
  - (* two open operands *)
    destruct (IHf H1) as (xs & S1 & Ef & L1 & G1 & B1). destruct (IHg H2) as (ys & S2 & Eg & L2 & G2 & B2).
    assert (Hc : closed f || closed g = false) by (rewrite (frag_open f H1), (frag_open g H2); reflexivity).
    destruct (node_bin p f g fo updZ xs ys S1 S2 HZ Sh Hc ltac:(rewrite E0, Hc; reflexivity) HsZ Ef Eg L1 L2 G1 G2)
      as (os & S & E & L & G & Rg).
    exists os, S. split; [exact E|]. split; [exact L|]. split; [exact G|]. apply (Bound_bi p f g S1 S2 S Ev B1 B2 Rg).
  - (* the constant on the right *)
    destruct (IHf H1) as (xs & S1 & Ef & L1 & G1 & B1). destruct g; cbn [isconst] in H2; try discriminate.
    destruct (const_r fo updE updZ Hrel HZ xs S1 _ c G1) as (st & os & S & Er & Hl & Go & Rg). rewrite L1 in Er.
    exists os, S. split; [|split; [congruence|split; [exact Go|]]].
    + rewrite trun_shape, Sh, Ef, trun_const, E0. cbn [closed]. rewrite orb_true_r.
      rewrite (run_wrap updE (bstep2 AR pk p) SBinE HE _ _ _ _ Er). reflexivity.
    + cbn [fvars] in Ev. rewrite app_nil_r in Ev. apply (Bound_un p f S1 S Ev B1 Rg).
  - (* the constant on the left *)
    destruct (IHg H2) as (ys & S2 & Eg & L2 & G2 & B2). destruct f; cbn [isconst] in H1; try discriminate.
    destruct (const_l fo updE updZ Hrel HZ ys S2 _ c G2) as (st & os & S & Er & Hl & Go & Rg). rewrite L2 in Er.
    exists os, S. split; [|split; [congruence|split; [exact Go|]]].
    + rewrite trun_shape, Sh, Eg, trun_const, E0. cbn [closed orb].
      rewrite (run_wrap updE (bstep2 AR pk p) SBinE HE _ _ _ _ Er). reflexivity.
    + cbn [fvars app] in Ev. apply (Bound_un p g S2 S Ev B2 Rg).
Qed.

Lemma goodS_bin_any p f g (fo : V -> V -> V) updZ updE :
  zstream fo updZ -> rupd updE updZ ->
  shape p = HBi f g -> fvars p = fvars f ++ fvars g ->
  op_init p = (if closed f || closed g then SBinE ostate0 else SBinZ ostate0) ->
  (forall s x y, bstep AR pk p (SBinZ s) (lift x) (lift y) =
     match updZ s (x, y) with Some (s1, o) => Some (SBinZ s1, lift o) | None => None end) ->
  (forall s b, bstep2 AR pk p (SBinE s) b = match updE s b with Some (s1, o) => Some (SBinE s1, o) | None => None end) ->
  (forall t, RZ p t = fo (RZ f t) (RZ g t)) ->
  (frag f && frag g) || (frag f && isconst g) || (isconst f && frag g) = true -> IHq f -> IHq g ->
  exists os S, trun p = Some (map lift os) /\ length os = length envs /\ GoodS os S (RZ p) /\ Bound p S.
Proof.
  intros HZ Hrel Sh Ev E0 HsZ HsE Hsem Hop IHf IHg.
  destruct (node_bin_any p f g fo updZ updE HZ Hrel Sh Ev E0 HsZ HsE Hop IHf IHg) as (os & S & E & L & G & B).
  exists os, S. split; [exact E|]. split; [exact L|]. split; [|exact B].
  apply (goodS_ext _ _ _ _ G). intros t _ _. symmetry. apply Hsem.
Qed.

(* the step equations of the two instances, for the nodes that use and_operation's update *)
Lemma stepZ_bin p fo :
  (forall s x y, bstep AR pk p (SBinZ s) x y = option_map (fun r => (SBinZ (fst r), snd r)) (viaZ2 (bin_update fo) s x y)) ->
  forall s x y, bstep AR pk p (SBinZ s) (lift x) (lift y) =
     match bin_upd2 fo s (x, y) with Some (s1, o) => Some (SBinZ s1, lift o) | None => None end.
Proof.
  intros H s x y. rewrite H. unfold viaZ2, bin_upd2. rewrite !unlift_lift. cbn [fst snd].
  destruct (bin_update fo s x y) as [[s1 o]|]; reflexivity.
Qed.
Lemma stepE_bin p fo :
  (forall s x y, bstep AR pk p (SBinE s) x y = option_map (fun r => (SBinE (fst r), snd r)) (bin_update_e fo s x y)) ->
  forall s b, bstep2 AR pk p (SBinE s) b = match bin_e2 fo s b with Some (s1, o) => Some (SBinE s1, o) | None => None end.
Proof.
  intros H s [x y]. unfold bstep2, bin_e2. cbn [fst snd]. rewrite H. destruct (bin_update_e fo s x y) as [[s1 o]|]; reflexivity.
Qed.

Definition emap (g : V -> V) (s : esig) : esig := map (fun i => (fst i, g (snd i))) s.
Lemma lift_gmap g (s : dsig) : lift (gmap g s) = emap g (lift s).
Proof. unfold lift, gmap, emap. rewrite !map_map. reflexivity. Qed.

Lemma pred_run_e c : forall bs st so st' os,
  run_g (bin_e2 (a2 AR Sub)) st bs = Some (st', os) ->
  exists so', run_g (fun (s : @pstate VS tz) (xy : esig * esig) => pred_update_ia AR tz tlt teq PStd c s (fst xy) (snd xy))
                {| p_sub := st; p_subout := so |} bs =
              Some ({| p_sub := st'; p_subout := so' |}, map (emap (pred_of_diff AR c)) os).
Proof.
  induction bs as [|[b1 b2] bs IH]; intros st so st' os H; cbn [run_g] in *.
  - injection H as <- <-. exists so. reflexivity.
  - unfold pred_update_ia at 1, pred_update_g at 1. unfold bin_e2 at 1, bin_update_e in H. cbn [fst snd p_sub] in *.
    destruct (bin_update_g tz tlt teq (a2 AR Sub) st b1 b2) as [[st1 o]|]; [|discriminate].
    destruct (run_g (bin_e2 (a2 AR Sub)) st1 bs) as [[st2 os2]|] eqn:E; [|discriminate]. injection H as <- <-.
    destruct (IH st1 o st2 os2 E) as (so' & E'). rewrite E'. exists so'. reflexivity.
Qed.

Theorem frag_tree p : frag p = true ->
  exists os S, trun p = Some (map lift os) /\ length os = length envs /\ GoodS os S (RZ p) /\ Bound p S.
Proof.
  induction p; intros Hf; cbn [frag] in Hf; try discriminate;
  repeat match goal with H : _ && _ = true |- _ => apply andb_prop in H; destruct H end.
  - (* Var *)
    exists (map (fun env => nth x env []) envs), (nth x W []). split; [|split; [apply map_length|split; [|intros y [<-|[]]; lia]]].
    + rewrite trun_shape. cbn [shape]. rewrite map_map. reflexivity.
    + split; [apply Hfeed|]. split; [apply HWs|]. split; [apply HW0|]. intros t N Ht. cbn [rhoZ]. unfold den.
      pose proof (HW0 x N) as H0. destruct (nth x W []) as [|[a v] r]; [congruence|]. cbn [start] in H0. subst a.
      pose proof (den_from_start 0 v r t ltac:(lia)) as Hn. destruct (den_opt ((0, v) :: r) t); [reflexivity|congruence].
  - (* A1 *)
    destruct (IHp ltac:(assumption)) as (xs & S & Ef & L & G & B). pose proof (frag_open p ltac:(assumption)) as Hc.
    exists (map (gmap (a1 AR o)) xs), (gmap (a1 AR o) S).
    split; [|split; [rewrite map_length; exact L|split; [|apply (Bound_un _ p S _ eq_refl B); rewrite lastT_gmap; lia]]].
    + apply (node_un (A1 o p) p (unary_upd (fn1 AR o)) (fun _ => SNone) tt xs tt); [reflexivity|exact Ef|reflexivity| |].
      * intros [] x. cbn [ustep]. rewrite Hc. unfold viaZ. rewrite unlift_lift.
        destruct (unary_upd (fn1 AR o) tt x) as [[s1 o1]|]; reflexivity.
      * apply unary_total_run. apply fn1_total. assumption.
    + apply (goodS_gmap (a1 AR o) xs S _ G).
  - (* A2 *)
    destruct o.
    + apply (goodS_bin_any (A2 Add p1 p2) p1 p2 (a2 AR Add) _ _ (zstream_bin _) (rupd_bin _)); try assumption; try reflexivity;
        [apply stepZ_bin|apply stepE_bin]; reflexivity.
    + apply (goodS_bin_any (A2 Sub p1 p2) p1 p2 (a2 AR Sub) _ _ (zstream_bin _) (rupd_bin _)); try assumption; try reflexivity;
        [apply stepZ_bin|apply stepE_bin]; reflexivity.
    + apply (goodS_bin_any (A2 Mul p1 p2) p1 p2 (a2 AR Mul) _ _ (zstream_mul _) (rupd_mul _)); try assumption; try reflexivity.
      * intros s x y. cbn [bstep]. unfold viaZ2, mul_upd2. rewrite !unlift_lift. cbn [fst snd fn2].
        destruct (mul_update_g Z Z.ltb Z.eqb (a2 AR Mul) s x y) as [[s1 o1]|]; reflexivity.
      * intros s [x y]. unfold bstep2, mul_e2. cbn [fst snd bstep fn2].
        destruct (mul_update_g tz tlt teq (a2 AR Mul) s x y) as [[s1 o1]|]; reflexivity.
    + apply (goodS_bin_any (A2 Div p1 p2) p1 p2 (a2 AR Div) _ _ (zstream_bin _) (rupd_bin _)); try assumption; try reflexivity;
        [apply stepZ_bin|apply stepE_bin]; reflexivity.
    + apply (goodS_bin_any (A2 Pow p1 p2) p1 p2 (a2 AR Pow) _ _ (zstream_bin _) (rupd_bin _)); try assumption; try reflexivity;
        [apply stepZ_bin|apply stepE_bin]; reflexivity.
    + apply (goodS_bin_any (A2 Log p1 p2) p1 p2 (a2 AR Log) _ _ (zstream_bin _) (rupd_bin _)); try assumption; try reflexivity;
        [apply stepZ_bin|apply stepE_bin]; reflexivity.
  - (* Pred *)
    rename Hf into Hop.
    assert (Hsem : forall os S, GoodS os S (fun t => a2 AR Sub (RZ p1 t) (RZ p2 t)) ->
              GoodS (map (gmap (pred_of_diff AR c)) os) (gmap (pred_of_diff AR c) S) (RZ (Pred c p1 p2))).
    { intros os S Go. apply (goodS_ext _ _ _ _ (goodS_gmap (pred_of_diff AR c) os S _ Go)). intros t _ _. cbn [rhoZ]. rewrite Hstd.
      cbn [pred_val]. apply pred_of_diff_sub. }
    assert (HE : forall st b, bstep2 AR pk (Pred c p1 p2) (SPredE st) b =
               match pred_update_ia AR tz tlt teq PStd c st (fst b) (snd b) with Some (st', o) => Some (SPredE st', o) | None => None end).
    { intros st [x y]. unfold bstep2. cbn [fst snd bstep]. rewrite Hstd.
      destruct (pred_update_ia AR tz tlt teq PStd c st x y) as [[s1 o]|]; reflexivity. }
    apply orb_prop in Hop as [Hop|Hop]; [apply orb_prop in Hop as [Hop|Hop]|]; apply andb_prop in Hop as [H1 H2].
    + destruct (IHp1 H1) as (xs & S1 & Ef & L1 & G1 & B1). destruct (IHp2 H2) as (ys & S2 & Eg & L2 & G2 & B2).
      assert (Hc : closed p1 || closed p2 = false) by (rewrite (frag_open p1), (frag_open p2) by assumption; reflexivity).
      pose proof G1 as (_ & D1 & Z1 & _). pose proof G2 as (_ & D2 & Z2 & _).
      destruct (bin_stream_r (a2 AR Sub) S1 S2 D1 D2 Z1 Z2 xs ys _ _ ltac:(congruence) G1 G2) as (st & os & S & Er & Hl & Go & Rg).
      destruct (pred_run c (combine xs ys) ostate0 [] st os Er) as (so' & Ep).
      exists (map (gmap (pred_of_diff AR c)) os), (gmap (pred_of_diff AR c) S).
      split; [|split; [rewrite map_length; congruence|split; [apply Hsem; exact Go|]]];
        [|apply (Bound_bi (Pred c p1 p2) p1 p2 S1 S2 _ eq_refl B1 B2); rewrite lastT_gmap;
          destruct S as [|x0 l0] eqn:ES; [pose proof (goodS_nonneg _ _ _ G1); pose proof (goodS_nonneg _ _ _ G2); change (lastT (@nil (Z * V))) with 0; lia|apply Rg; discriminate]].
      apply (node_bi (Pred c p1 p2) p1 p2
               (fun (s : @pstate VS Z) (xy : dsig * dsig) => pred_update_ia AR Z Z.ltb Z.eqb PStd c s (fst xy) (snd xy))
               SPredZ pred_init xs ys {| p_sub := st; p_subout := so' |} _ eq_refl Ef Eg);
        [cbn [op_init]; rewrite Hc; reflexivity| |exact Ep].
      intros s x y. cbn [bstep]. rewrite Hstd. unfold viaZ2. rewrite !unlift_lift. cbn [fst snd].
      destruct (pred_update_ia AR Z Z.ltb Z.eqb PStd c s x y) as [[s1 o1]|]; reflexivity.
    + destruct (IHp1 H1) as (xs & S1 & Ef & L1 & G1 & B1). destruct p2; cbn [isconst] in H2; try discriminate.
      destruct (const_r (a2 AR Sub) _ _ (rupd_bin _) (zstream_bin _) xs S1 _ c0 G1) as (st & os & S & Er & Hl & Go & Rg). rewrite L1 in Er.
      destruct (pred_run_e c _ ostate0 [] _ _ Er) as (so' & Ep).
      exists (map (gmap (pred_of_diff AR c)) os), (gmap (pred_of_diff AR c) S).
      split; [|split; [rewrite map_length; congruence|split; [apply Hsem; apply (goodS_ext _ _ _ _ Go); intros t _ _; reflexivity|]]];
        [|apply (Bound_un (Pred c p1 (Const c0)) p1 S1 _ (app_nil_r _) B1); rewrite lastT_gmap; exact Rg].
      rewrite trun_shape. cbn [shape]. rewrite Ef, trun_const. cbn [op_init closed]. rewrite orb_true_r. unfold pred_init.
      rewrite (run_wrap _ (bstep2 AR pk (Pred c p1 (Const c0))) SPredE HE _ _ _ _ Ep). cbn [option_map snd].
      f_equal. rewrite !map_map. apply map_ext. intros o. symmetry. apply lift_gmap.
    + destruct (IHp2 H2) as (ys & S2 & Eg & L2 & G2 & B2). destruct p1; cbn [isconst] in H1; try discriminate.
      destruct (const_l (a2 AR Sub) _ _ (rupd_bin _) (zstream_bin _) ys S2 _ c0 G2) as (st & os & S & Er & Hl & Go & Rg). rewrite L2 in Er.
      destruct (pred_run_e c _ ostate0 [] _ _ Er) as (so' & Ep).
      exists (map (gmap (pred_of_diff AR c)) os), (gmap (pred_of_diff AR c) S).
      split; [|split; [rewrite map_length; congruence|split; [apply Hsem; apply (goodS_ext _ _ _ _ Go); intros t _ _; reflexivity|]]];
        [|apply (Bound_un (Pred c (Const c0) p2) p2 S2 _ eq_refl B2); rewrite lastT_gmap; exact Rg].
      rewrite trun_shape. cbn [shape]. rewrite Eg, trun_const. cbn [op_init closed orb]. unfold pred_init.
      rewrite (run_wrap _ (bstep2 AR pk (Pred c (Const c0) p2)) SPredE HE _ _ _ _ Ep). cbn [option_map snd].
      f_equal. rewrite !map_map. apply map_ext. intros o. symmetry. apply lift_gmap.
  - (* Not *)
    destruct (IHp ltac:(assumption)) as (xs & S & Ef & L & G & B). pose proof (frag_open p ltac:(assumption)) as Hc.
    exists (map (gmap neg) xs), (gmap neg S).
    split; [|split; [rewrite map_length; exact L|split; [|apply (Bound_un _ p S _ eq_refl B); rewrite lastT_gmap; lia]]].
    + apply (node_un (Not p) p (unary_upd not_fn) (fun _ => SNone) tt xs tt); [reflexivity|exact Ef|reflexivity| |].
      * intros [] x. cbn [ustep]. rewrite Hc. unfold viaZ. rewrite unlift_lift.
        destruct (unary_upd not_fn tt x) as [[s1 o1]|]; reflexivity.
      * apply unary_total_run. reflexivity.
    + apply (goodS_gmap neg xs S _ G).
  - (* And *)
    apply (goodS_bin_any (And p1 p2) p1 p2 vmin _ _ (zstream_bin _) (rupd_bin _)); try assumption; try reflexivity;
      [apply stepZ_bin|apply stepE_bin]; reflexivity.
  - (* Or *)
    apply (goodS_bin_any (Or p1 p2) p1 p2 vmax _ _ (zstream_bin _) (rupd_bin _)); try assumption; try reflexivity;
      [apply stepZ_bin|apply stepE_bin]; reflexivity.
  - (* Implies *)
    apply (goodS_bin_any (Implies p1 p2) p1 p2 (fun l r => vmax (neg l) r) _ _ (zstream_bin _) (rupd_bin _)); try assumption; try reflexivity;
      [apply stepZ_bin|apply stepE_bin]; reflexivity.
  - (* Iff *)
    apply (goodS_bin_any (Iff p1 p2) p1 p2 (fun l r => neg (a1 AR Abs (a2 AR Sub l r))) _ _ (zstream_bin _) (rupd_bin _)); try assumption; try reflexivity;
      [apply stepZ_bin|apply stepE_bin]; reflexivity.
  - (* Xor *)
    apply (goodS_bin_any (Xor p1 p2) p1 p2 (fun l r => a1 AR Abs (a2 AR Sub l r)) _ _ (zstream_bin _) (rupd_bin _)); try assumption; try reflexivity;
      [apply stepZ_bin|apply stepE_bin]; reflexivity.
  - (* Once *)
    destruct (IHp ltac:(assumption)) as (xs & S & Ef & L & G & B). pose proof (frag_open p ltac:(assumption)) as Hc.
    destruct (fold_stream vmax ltac:(intros v q; ord) zmax zmax_snoc' (fun G lo A B => zmax_tail_const G lo A B) zmax_ext bot
                (fun G => zmax_empty G 0) xs S _ G) as (st & os & Er & Hl & Go).
    exists os, (snd (fold_loop Z vmax bot S)). split; [|split; [first [exact (eq_trans Hl L)|exact (eq_trans Hl L1)|congruence]|split; [|apply (Bound_un _ p S _ eq_refl B); rewrite fold_lastT; lia]]].
    + apply (node_un (Once p) p once_upd SFold once_init xs st os eq_refl Ef eq_refl); [|exact Er].
      intros s x. cbn [ustep]. rewrite Hc. unfold viaZ. rewrite unlift_lift. destruct (once_upd s x) as [[s1 o1]|]; reflexivity.
    + apply (goodS_ext _ _ _ _ Go). intros t _ _. cbn [rhoZ]. rewrite dstart0. reflexivity.
  - (* Hist *)
    destruct (IHp ltac:(assumption)) as (xs & S & Ef & L & G & B). pose proof (frag_open p ltac:(assumption)) as Hc.
    destruct (fold_stream vmin ltac:(intros v q; ord) zmin zmin_snoc' (fun G lo A B => zmin_tail_const G lo A B) zmin_ext top
                (fun G => zmin_empty G 0) xs S _ G) as (st & os & Er & Hl & Go).
    exists os, (snd (fold_loop Z vmin top S)). split; [|split; [first [exact (eq_trans Hl L)|exact (eq_trans Hl L1)|congruence]|split; [|apply (Bound_un _ p S _ eq_refl B); rewrite fold_lastT; lia]]].
    + apply (node_un (Hist p) p hist_upd SFold hist_init xs st os eq_refl Ef eq_refl); [|exact Er].
      intros s x. cbn [ustep]. rewrite Hc. unfold viaZ. rewrite unlift_lift. destruct (hist_upd s x) as [[s1 o1]|]; reflexivity.
    + apply (goodS_ext _ _ _ _ Go). intros t _ _. cbn [rhoZ]. rewrite dstart0. reflexivity.
  - (* Since *)
    destruct (IHp1 ltac:(assumption)) as (xs & S1 & Ef & L1 & G1 & B1). destruct (IHp2 ltac:(assumption)) as (ys & S2 & Eg & L2 & G2 & B2).
    assert (Hc : closed p1 || closed p2 = false) by (rewrite (frag_open p1), (frag_open p2) by assumption; reflexivity).
    destruct (since_stream xs ys S1 S2 _ _ ltac:(congruence) G1 G2) as (st & os & S & Er & Hl & Go & Rg).
    exists os, S. split; [|split; [first [exact (eq_trans Hl L)|exact (eq_trans Hl L1)|congruence]|split; [|apply (Bound_bi (Since p1 p2) p1 p2 S1 S2 S eq_refl B1 B2 Rg)]]].
    + apply (node_bi (Since p1 p2) p1 p2 since_upd SSinZ since_init xs ys st os eq_refl Ef Eg); [cbn [op_init]; rewrite Hc; reflexivity| |exact Er].
      intros s x y. cbn [bstep]. unfold viaZ2. rewrite !unlift_lift. destruct (since_upd s (x, y)) as [[s1 o1]|]; reflexivity.
    + apply (goodS_ext _ _ _ _ Go). intros t _ _. cbn [rhoZ]. rewrite dstart0. reflexivity.
  - (* OnceT *)
    destruct (IHp ltac:(assumption)) as (xs & S & Ef & L & G & B). pose proof (frag_open p ltac:(assumption)) as Hc.
    match goal with H : (b <=? e)%nat = true |- _ => apply Nat.leb_le in H; rename H into Hbe end.
    destruct (once_stream RNegInf (zb b) (zb e) xs S _ ltac:(unfold zb; lia) ltac:(unfold zb; lia) G) as (st & os & S' & Er & Hl & Go & Rg).
    exists os, S'. split; [|split; [first [exact (eq_trans Hl L)|exact (eq_trans Hl L1)|congruence]|split; [|apply (Bound_un _ p S S' eq_refl B Rg)]]].
    + unfold once_timed_run in Er. rewrite win_run_as_run_g in Er.
      apply (node_un (OnceT b e p) p once_timed_update SWinZ (owin_init (zb b) (zb e)) xs st os eq_refl Ef); [cbn [op_init]; rewrite Hc; reflexivity| |exact Er].
      intros s x. cbn [ustep]. unfold viaZ. rewrite unlift_lift. destruct (once_timed_update s x) as [[s1 o1]|]; reflexivity.
    + apply (goodS_ext _ _ _ _ Go). intros t _ _. cbn [rhoZ]. rewrite dstart0. reflexivity.
  - (* HistT *)
    destruct (IHp ltac:(assumption)) as (xs & S & Ef & L & G & B). pose proof (frag_open p ltac:(assumption)) as Hc.
    match goal with H : (b <=? e)%nat = true |- _ => apply Nat.leb_le in H; rename H into Hbe end.
    destruct (hist_stream (zb b) (zb e) xs S _ ltac:(unfold zb; lia) ltac:(unfold zb; lia) G) as (st & os & S' & Er & Hl & Go & Rg).
    exists os, S'. split; [|split; [first [exact (eq_trans Hl L)|exact (eq_trans Hl L1)|congruence]|split; [|apply (Bound_un _ p S S' eq_refl B Rg)]]].
    + unfold hist_timed_run in Er. rewrite win_run_as_run_g in Er.
      apply (node_un (HistT b e p) p hist_timed_update SWinZ (hwin_init (zb b) (zb e)) xs st os eq_refl Ef); [cbn [op_init]; rewrite Hc; reflexivity| |exact Er].
      intros s x. cbn [ustep]. unfold viaZ. rewrite unlift_lift. destruct (hist_timed_update s x) as [[s1 o1]|]; reflexivity.
    + apply (goodS_ext _ _ _ _ Go). intros t _ _. cbn [rhoZ]. rewrite dstart0. reflexivity.
  - (* SinceT *)
    destruct (IHp1 ltac:(assumption)) as (xs & S1 & Ef & L1 & G1 & B1). destruct (IHp2 ltac:(assumption)) as (ys & S2 & Eg & L2 & G2 & B2).
    assert (Hc : closed p1 || closed p2 = false) by (rewrite (frag_open p1), (frag_open p2) by assumption; reflexivity).
    match goal with H : (b <=? e)%nat = true |- _ => apply Nat.leb_le in H; rename H into Hbe end.
    destruct (since_timed_stream (zb b) (zb e) xs ys S1 S2 _ _ ltac:(unfold zb; lia) ltac:(unfold zb; lia) ltac:(congruence) G1 G2)
      as (st & os & S & Er & Hl & Go & Rg).
    exists os, S. split; [|split; [first [exact (eq_trans Hl L)|exact (eq_trans Hl L1)|congruence]|split; [|apply (Bound_bi (SinceT b e p1 p2) p1 p2 S1 S2 S eq_refl B1 B2 Rg)]]].
    + apply (node_bi (SinceT b e p1 p2) p1 p2 st_step SStZ (st_init (hwin_init 0 (zb b)) (owin_init (zb b) (zb e))) xs ys st os eq_refl Ef Eg); [cbn [op_init]; rewrite Hc; reflexivity| |exact Er].
      intros s x y. cbn [bstep]. unfold viaZ2, st_step. rewrite !unlift_lift. cbn [fst snd].
      destruct (since_timed_Z s x y) as [[s1 o1]|]; reflexivity.
    + apply (goodS_ext _ _ _ _ Go). intros t _ _. cbn [rhoZ]. rewrite dstart0. reflexivity.
Qed.

End MainZ.

(* ================================================================== *)
(* the theorems                                                        *)
(* ================================================================== *)
Section Final.
Context {VS : Val} (AR : Arith VS).
Variable pk : formula -> formula -> pkind.
Hypothesis Hstd : forall f g, pk f g = PStd.                                   (* the STL monitor *)
Hypothesis SubNeg : forall l r, neg (a2 AR Sub l r) = a2 AR Sub r l.          (* -(l - r) = r - l *)

Lemma run_fin p : forall bs d d' os,
  mon_run AR pk p d bs = Some (d', map lift os) -> mon_run_fin AR pk p d bs = Some (d', os).
Proof.
  unfold mon_run, mon_run_fin. induction bs as [|b bs IH]; intros d d' os H; cbn [run_g] in *.
  - injection H as <- E. destruct os; [reflexivity|discriminate].
  - unfold mon_update_fin at 1. destruct (mon_update AR pk p d b) as [[d1 o]|]; [|discriminate].
    destruct (run_g (mon_update AR pk p) d1 bs) as [[d2 os2]|] eqn:E; [|discriminate]. injection H as <- E2.
    destruct os as [|o' os']; [discriminate|]. cbn [map] in E2. injection E2 as -> ->.
    rewrite unlift_lift, (IH d1 d2 os' E). reflexivity.
Qed.

(* THE MAIN THEOREM.  p in the fragment [frag]; W: the input signals by variable index, each strictly increasing and,
   when not empty, starting at 0; envs: the data sets of the successive update() calls, one batch per variable index:
   the batches of variable x deliver W_x in any cutting, a batch possibly starting with a copy of the last sample
   already sent ([feedsI]).  Then
   - no update raises, and every returned list has finite stamps ([mon_run_fin] = [mon_run] read through [lift]);
   - the concatenation of the returned lists has non-decreasing stamps >= 0, every returned list has strictly
     increasing stamps, and read one after the other the lists deliver a strictly increasing signal S, a list
     possibly starting with a copy of the last sample already returned;
   - at every tick t from 0 to the last stamp returned, the concatenation denotes rhoZ AR pk W tend p t;
   - the last stamp returned is never beyond the last sample of a variable of p (no guess about the future). *)
Theorem mon_online_correct (p : formula) (W : list dsig) (tend : Z) (envs : list (list dsig)) :
  frag p = true ->
  (forall x, feedsI [] (map (fun env => nth x env []) envs) (nth x W [])) ->
  (forall x, dsorted (nth x W [])) ->
  (forall x, nth x W [] <> [] -> start (nth x W []) = 0) ->
  exists d outs S,
    mon_run AR pk p (mon_init p) envs = Some (d, map lift outs) /\
    mon_run_fin AR pk p (mon_init p) envs = Some (d, outs) /\
    length outs = length envs /\
    feedsI [] outs S /\ dsorted S /\
    wsorted (concat outs) /\
    (forall a v, In (a, v) (concat outs) -> 0 <= a <= lastT (concat outs)) /\
    (forall t, concat outs <> [] -> 0 <= t <= lastT (concat outs) ->
               den_opt (concat outs) t = Some (rhoZ AR pk W tend p t)) /\
    (forall x, In x (fvars p) -> lastT (concat outs) <= lastT (nth x W [])).
Proof.
  intros Hf Hfeed HWs HW0.
  destruct (frag_tree AR pk Hstd SubNeg W tend envs Hfeed HWs HW0 p Hf) as (outs & S & Et & Hl & G & HB).
  destruct (mon_run_tree AR pk p envs _ Et) as (d & Er).
  pose proof G as (Hfe & DS & ZS & HV). pose proof (feedsI_concat outs S Hfe DS) as HS.
  assert (EL : lastT (concat outs) = lastT S) by (rewrite <- !lastS_stamp, (sm_last _ _ HS); reflexivity).
  exists d, outs, S. split; [exact Er|]. split; [apply run_fin; exact Er|]. split; [exact Hl|].
  split; [exact Hfe|]. split; [exact DS|]. split; [exact (sm_ws _ _ HS)|]. split.
  - intros a v Hin. split; [|apply (wsorted_le_last _ (sm_ws _ _ HS) a v Hin)].
    apply (sm_in _ _ HS) in Hin. assert (NS : S <> []) by (intros E; rewrite E in Hin; destruct Hin).
    specialize (ZS NS). destruct S as [|[a0 v0] r]; [congruence|]. cbn [start] in ZS. subst a0.
    destruct Hin as [E|Hin]; [injection E as <- _; lia|]. pose proof (dsorted_lb _ _ _ DS a v Hin). lia.
  - split.
    + intros t N Ht. assert (NS : S <> []) by (intros E; apply N; apply (sm_nil _ _ HS); exact E).
      rewrite (sm_den _ _ HS). apply (HV t NS). rewrite <- EL. exact Ht.
    + intros x Hx. rewrite EL. apply (HB x Hx).
Qed.

(* the same for plain cuttings of the inputs: the batches of variable x, concatenated, are W_x *)
Corollary mon_online_correct_cuts (p : formula) (W : list dsig) (tend : Z) (envs : list (list dsig)) :
  frag p = true ->
  (forall x, concat (map (fun env => nth x env []) envs) = nth x W []) ->
  (forall x, dsorted (nth x W [])) ->
  (forall x, nth x W [] <> [] -> start (nth x W []) = 0) ->
  exists d outs,
    mon_run_fin AR pk p (mon_init p) envs = Some (d, outs) /\
    wsorted (concat outs) /\
    (forall t, concat outs <> [] -> 0 <= t <= lastT (concat outs) ->
               den_opt (concat outs) t = Some (rhoZ AR pk W tend p t)).
Proof.
  intros Hf Hc HWs HW0.
  destruct (mon_online_correct p W tend envs Hf) as (d & outs & S & _ & E & _ & _ & _ & Ws & _ & Hv & _); try assumption.
  - intros x. rewrite <- Hc. apply (feedsI_plain _ []).
  - exists d, outs. split; [exact E|]. split; [exact Ws|exact Hv].
Qed.

(* two sequences of updates that deliver the same inputs never disagree where both have produced output *)
Corollary mon_online_chunking (p : formula) (W : list dsig) (envs envs' : list (list dsig)) :
  frag p = true ->
  (forall x, feedsI [] (map (fun env => nth x env []) envs) (nth x W [])) ->
  (forall x, feedsI [] (map (fun env => nth x env []) envs') (nth x W [])) ->
  (forall x, dsorted (nth x W [])) ->
  (forall x, nth x W [] <> [] -> start (nth x W []) = 0) ->
  exists d outs d' outs',
    mon_run_fin AR pk p (mon_init p) envs = Some (d, outs) /\
    mon_run_fin AR pk p (mon_init p) envs' = Some (d', outs') /\
    forall t, concat outs <> [] -> concat outs' <> [] ->
              0 <= t <= Z.min (lastT (concat outs)) (lastT (concat outs')) ->
              den_opt (concat outs) t = den_opt (concat outs') t.
Proof.
  intros Hf H1 H2 HWs HW0.
  destruct (mon_online_correct p W 0 envs Hf H1 HWs HW0) as (d & outs & S & _ & E & _ & _ & _ & _ & _ & Hv & _).
  destruct (mon_online_correct p W 0 envs' Hf H2 HWs HW0) as (d' & outs' & S' & _ & E' & _ & _ & _ & _ & _ & Hv' & _).
  exists d, outs, d', outs'. split; [exact E|]. split; [exact E'|].
  intros t N N' Ht. rewrite (Hv t N), (Hv' t N') by lia. reflexivity.
Qed.

End Final.

(* the hypothesis on the arithmetic holds in the executable instance (ExtZ.v), where inf - inf is 0 *)
Lemma extz_SubNeg : forall l r : ExtZ.extz, @neg ExtZ.ExtZVal (a2 ExtZ.ExtZArith Sub l r) = a2 ExtZ.ExtZArith Sub r l.
Proof.
  intros [|a|] [|b|]; cbn [a2 ExtZ.ExtZArith ExtZ.ez_a2 ExtZ.ez_add ExtZ.ez_neg neg ExtZ.ExtZVal]; try reflexivity.
  f_equal. lia.
Qed.
