(* DenseOnlineMonMore.v — the theorem of DenseOnlineMonCorrect.v (the dense-time ONLINE monitor, model DenseOnlineMon.v,
   computes the tick semantics rhoZ whatever the sequence of batches) on a larger fragment.

   1. IA-STL predicate kinds: [pk] is arbitrary.  PART A: sat() of the IA predicate operation ([kscan]: keep a sample of the
      difference when its robustness changes, and the last one) as an operation on streams; the hypothesis is
      [(forall f g, pk f g = PStd) \/ DiffLaws AR] (DenseIA.v; ExtZ_diff_laws for the executable instance).
   2. Constants anywhere (fragment [cl]): a sub-formula without variable is run on the tz instances.  PART B: these are
      the Z instances up to a relation on stamps (+inf read as any N beyond the finite stamps), for intersection()
      (DenseOnlineMonCorrect.Param), since, once/historically, the point-wise operations, the predicate;  PART C: [CGs],
      the streams of closed sub-formulas, and the combinations open/closed, closed/open, closed/closed;  PART D2:
      once[b,e] / historically[b,e] of a constant, computed ([win_update_e] uses inf + x = inf: not parametric);  PART D3:
      [win_update_e] on finite stamps is [win_update]; since[b,e] as the composition of its four parts on any stamps.
      In the fragment: a closed operand anywhere except under once[b,e] / historically[b,e] / since[b,e], where it must
      be a [Const] (and not both operands of since[b,e]).
   3. sqrt / ln ([safe]: no value received is in the raising set; PART F: otherwise the update raises).
   4. Progress ([pg]: since-free, no once[b,0] / historically[b,0]): the last stamp returned IS the earliest last sample
      of the variables.  PART H1: intersection() returns everything up to the earlier of the two last stamps (the fact
      the proofs of DenseOnlineMergeCorrect.v establish about [last] without recording it, [PostP]);  PART H2: a bounded
      operation returns, at every update, a list that ends at the last stamp received.
   PART E: the induction on the formula ([frag2_tree]);  PART G: the theorems. *)
From Coq Require Import List Bool Arith ZArith Lia ZifyBool.
From RV Require Import Val Syntax Rho ListFacts OfflineCorrect Online Dense DenseSem DenseFacts DenseMerge DenseMergeCorrect
  DenseEval DenseEvalCorrect DenseSinceCorrect DenseWin DenseWinCorrect DenseTimedLaws
  DenseOnlineMerge DenseOnlineMergeCorrect DenseOnlineFold DenseOnlineFoldCorrect DenseOnlineWin DenseOnlineWinCorrect
  DenseOnlineMon DenseOnlineMonCorrect DenseIA.
Import ListNotations.
Local Open Scope Z_scope.

(* ================================================================== *)
(* PART A: the read-out of an IA predicate (sat() of the IA-STL        *)
(* predicate operation) as an operation on streams                     *)
(* ================================================================== *)
Section StartIn.
Context {VS : Val}.
Lemma start_le_in (s : dsig) a v : dsorted s -> In (a, v) s -> start s <= a.
Proof.
  destruct s as [|[t0 x0] rest]; intros Hs Hin; [destruct Hin|]. cbn [start].
  destruct Hin as [E|Hin]; [injection E as <- _; lia|]. pose proof (dsorted_lb _ _ _ Hs a v Hin). lia.
Qed.
End StartIn.

Section KScan.
Context {VS : Val}.
Variables (r h : V -> V).        (* r: the robustness compared by sat(); h: the value returned *)
Hypothesis Hrh : forall x y, r x = r y -> h x = h y.

(* keep a sample when its robustness differs from the one of the previous sample of the list, and the last one *)
Fixpoint kscan (T : Type) (prev : option V) (il : list (T * V)) : list (T * V) :=
  match il with
  | [] => []
  | (t, x) :: rest =>
      let emit := (match prev with Some p => negb (veq (r x) p) | None => true end)
                  || (match rest with [] => true | _ => false end) in
      (if emit then [(t, h x)] else []) ++ kscan T (Some (r x)) rest
  end.

Lemma kscan_in T : forall (il : list (T * V)) prev t v, In (t, v) (kscan T prev il) -> exists x, In (t, x) il /\ v = h x.
Proof.
  induction il as [|[t0 x0] rest IH]; intros prev t v Hin; [destruct Hin|].
  cbn [kscan] in Hin. apply in_app_or in Hin as [Hin|Hin].
  - destruct (_ || _) in Hin; [|destruct Hin]. destruct Hin as [E|[]]. injection E as <- <-.
    exists x0. split; [left; reflexivity|reflexivity].
  - destruct (IH _ _ _ Hin) as (x & Hx & Ev). exists x. split; [right; exact Hx|exact Ev].
Qed.

Lemma kscan_sorted : forall (il : dsig) prev, dsorted il -> dsorted (kscan Z prev il).
Proof.
  induction il as [|[t0 x0] rest IH]; intros prev Hs; [exact I|].
  cbn [kscan]. pose proof (IH (Some (r x0)) (dsorted_tl _ _ Hs)) as Hr.
  destruct (_ || _); [|exact Hr]. cbn [app]. apply dsorted_cons_lb; [|exact Hr].
  intros a v Hin. destruct (kscan_in Z _ _ _ _ Hin) as (x & Hx & _). apply (dsorted_lb _ _ _ Hs a x Hx).
Qed.

Lemma kscan_last : forall (il : dsig) prev, il <> [] ->
  kscan Z prev il <> [] /\ lastS (kscan Z prev il) = (fst (lastS il), h (snd (lastS il))).
Proof.
  induction il as [|[t0 x0] rest IH]; intros prev N; [congruence|].
  destruct rest as [|y rest'].
  - cbn [kscan]. rewrite orb_true_r. cbn [app]. split; [discriminate|reflexivity].
  - destruct (IH (Some (r x0)) ltac:(discriminate)) as [N' L'].
    change (kscan Z prev ((t0, x0) :: y :: rest')) with
      ((if (match prev with Some p => negb (veq (r x0) p) | None => true end) || false then [(t0, h x0)] else [])
       ++ kscan Z (Some (r x0)) (y :: rest')).
    split.
    + intros E. apply app_eq_nil in E as [_ E]. exact (N' E).
    + rewrite lastS_app by exact N'. rewrite L'. unfold lastS. reflexivity.
Qed.

Lemma kscan_start (il : dsig) : start (kscan Z None il) = start il.
Proof. destruct il as [|[t0 x0] rest]; reflexivity. Qed.

(* the denotation: d0 is what is held before the list *)
Lemma kscan_den : forall (il : dsig) prev d0 t, dsorted il ->
  match prev with Some k => exists x, r x = k /\ d0 = Some (h x) | None => True end ->
  start il <= t ->
  match den_opt (kscan Z prev il) t with Some v => Some v | None => d0 end =
  match den_opt il t with Some x => Some (h x) | None => d0 end.
Proof.
  induction il as [|[t0 x0] rest IH]; intros prev d0 t Hs Hp Ht; [reflexivity|].
  cbn [start] in Ht. cbn [kscan]. rewrite (den_opt_cons t0 x0). destruct (Z.leb_spec t0 t) as [_|]; [|lia].
  assert (Hrest : match den_opt (kscan Z (Some (r x0)) rest) t with Some v => Some v | None => Some (h x0) end =
                  match den_opt rest t with Some x => Some (h x) | None => Some (h x0) end).
  { destruct rest as [|[t1 x1] rest'] eqn:Er; [reflexivity|]. rewrite <- Er in *.
    destruct (Z.le_gt_cases (start rest) t) as [Hge|Hlt].
    - apply IH; [apply (dsorted_tl _ _ Hs)|exists x0; split; reflexivity|exact Hge].
    - rewrite (den_opt_before rest t), (den_opt_before (kscan Z (Some (r x0)) rest) t); [reflexivity| |].
      + intros a v Hin. destruct (kscan_in Z _ _ _ _ Hin) as (x & Hx & _).
        pose proof (start_le_in rest a x (dsorted_tl _ _ Hs) Hx). lia.
      + intros a v Hx. pose proof (start_le_in rest a v (dsorted_tl _ _ Hs) Hx). lia. }
  destruct ((match prev with Some p => negb (veq (r x0) p) | None => true end) || (match rest with [] => true | _ => false end)) eqn:Em.
  - cbn [app]. rewrite (den_opt_cons t0 (h x0)). destruct (Z.leb_spec t0 t) as [_|]; [|lia].
    revert Hrest. destruct (den_opt (kscan Z (Some (r x0)) rest) t) as [v|]; destruct (den_opt rest t) as [x|]; intros Hrest; exact Hrest.
  - cbn [app]. apply orb_false_elim in Em as [Em _]. destruct prev as [k|]; [|discriminate].
    apply negb_false_iff, veq_true in Em. destruct Hp as (x & Ex & ->).
    assert (Eh : h x = h x0) by (apply Hrh; congruence). rewrite Eh.
    revert Hrest. destruct (den_opt (kscan Z (Some (r x0)) rest) t) as [v|]; destruct (den_opt rest t) as [x1|]; intros Hrest; exact Hrest.
Qed.

(* what has been delivered (A) and what its read-out has delivered (A') *)
Definition KRel (A A' : dsig) : Prop :=
  (A = [] -> A' = []) /\
  (A <> [] -> A' <> [] /\ lastS A' = (fst (lastS A), h (snd (lastS A)))) /\
  dsorted A' /\ (forall t, den_opt A' t = option_map h (den_opt A t)) /\ start A' = start A.

Lemma krel_nil : KRel [] [].
Proof. split; [auto|]. split; [congruence|]. split; [exact I|]. split; [reflexivity|reflexivity]. Qed.

Lemma krel_lastT A A' : KRel A A' -> lastT A' = lastT A.
Proof.
  intros (H0 & H1 & _). destruct A as [|x A0].
  - rewrite (H0 eq_refl). reflexivity.
  - destruct (H1 ltac:(discriminate)) as [_ L]. rewrite <- !lastS_stamp, L. reflexivity.
Qed.

Lemma krel_step A A' b prev :
  KRel A A' -> dsorted (A ++ b) ->
  match prev with Some k => A <> [] /\ k = r (snd (lastS A)) | None => True end ->
  KRel (A ++ b) (A' ++ kscan Z prev b).
Proof.
  intros (H0 & H1 & DA' & HdA & HsA) Hs Hp.
  assert (Db : dsorted b) by (apply (dsorted_app_r A); exact Hs).
  destruct b as [|y0 b0] eqn:Eb.
  { cbn [kscan]. rewrite !app_nil_r. split; [exact H0|]. split; [exact H1|]. split; [exact DA'|]. split; assumption. }
  rewrite <- Eb in *. assert (Nb : b <> []) by (rewrite Eb; discriminate).
  destruct (kscan_last b prev Nb) as [Nb' Lb'].
  assert (Hstamps : forall a v, In (a, v) (kscan Z prev b) -> A <> [] -> lastT A < a).
  { intros a v Hin NA. destruct (kscan_in Z _ _ _ _ Hin) as (x & Hx & _).
    pose proof (dsorted_app_lt A b Hs NA Nb) as Hlt. pose proof (start_le_in b a x Db Hx). lia. }
  assert (DAb : dsorted (A' ++ kscan Z prev b)).
  { apply dsorted_app_intro; [exact DA'|apply kscan_sorted; exact Db|]. intros NA' _.
    assert (NA : A <> []) by (intros E; apply NA'; apply H0; exact E).
    rewrite (krel_lastT A A') by (split; [exact H0|split; [exact H1|split; [exact DA'|split; assumption]]]).
    destruct (kscan Z prev b) as [|[a v] q] eqn:Ek; [congruence|]. cbn [start]. apply (Hstamps a v); [left; reflexivity|exact NA]. }
  split; [intros E; apply app_eq_nil in E as [_ E]; congruence|]. split; [|split; [exact DAb|split]].
  - intros _. split; [intros E; apply app_eq_nil in E as [_ E]; congruence|].
    rewrite !lastS_app by assumption. exact Lb'.
  - intros t. rewrite (den_app_ws A' _ t (dsorted_wsorted _ DAb)), (den_app_ws A b t (dsorted_wsorted _ Hs)).
    destruct (Z.le_gt_cases (start b) t) as [Hge|Hlt].
    + rewrite (kscan_den b prev (den_opt A' t) t Db); [|  |exact Hge].
      * rewrite HdA. destruct (den_opt b t); reflexivity.
      * destruct prev as [k|]; [|exact I]. destruct Hp as [NA ->]. exists (snd (lastS A)). split; [reflexivity|].
        rewrite HdA. pose proof (dsorted_app_lt A b Hs NA Nb) as Hl.
        rewrite (den_all_le A t NA); [reflexivity|]. intros a v Hin.
        pose proof (dsorted_le_last A (dsorted_app_l _ _ Hs) a v Hin). lia.
    + rewrite (den_opt_before b t), (den_opt_before (kscan Z prev b) t); [apply HdA| |].
      * intros a v Hin. destruct (kscan_in Z _ _ _ _ Hin) as (x & Hx & _). pose proof (start_le_in b a x Db Hx). lia.
      * intros a v Hx. pose proof (start_le_in b a v Db Hx). lia.
  - destruct A as [|x A0].
    + rewrite (H0 eq_refl). cbn [app]. destruct prev as [k|]; [destruct Hp as [NA _]; congruence|]. apply kscan_start.
    + destruct (H1 ltac:(discriminate)) as [NA' _]. rewrite !start_app by (try exact NA'; discriminate). exact HsA.
Qed.

Lemma kscan_feeds : forall os A A' S, feedsI A os S -> dsorted S -> KRel A A' ->
  exists S', feedsI A' (map (kscan Z None) os) S' /\ KRel S S'.
Proof.
  induction os as [|c os IH]; intros A A' S H DS R.
  - cbn [feedsI] in H. subst S. exists A'. split; [reflexivity|exact R].
  - destruct H as (b & Hb & H). destruct (feedsI_prefix _ _ _ H) as [q Eq].
    assert (SAb : dsorted (A ++ b)) by (apply (dsorted_app_l _ q); rewrite <- Eq; exact DS).
    destruct Hb as [|NA].
    + destruct (IH (A ++ b) (A' ++ kscan Z None b) S H DS (krel_step A A' b None R SAb I)) as (S' & Hf & R').
      exists S'. split; [|exact R']. cbn [map feedsI]. exists (kscan Z None b). split; [constructor|exact Hf].
    + destruct (lastS A) as [tl xl] eqn:El.
      assert (R1 : KRel (A ++ b) (A' ++ kscan Z (Some (r xl)) b)).
      { apply krel_step; [exact R|exact SAb|]. split; [exact NA|]. rewrite El. reflexivity. }
      destruct (IH (A ++ b) _ S H DS R1) as (S' & Hf & R').
      exists S'. split; [|exact R']. cbn [map feedsI]. exists (kscan Z (Some (r xl)) b). split; [|exact Hf].
      destruct R as (_ & RL & _). destruct (RL NA) as [NA' L]. rewrite El in L. cbn [fst snd] in L.
      cbn [kscan orb app]. rewrite <- L. constructor. exact NA'.
Qed.

Lemma kscan_good os S F : GoodS os S F ->
  exists S', GoodS (map (kscan Z None) os) S' (fun t => h (F t)) /\ lastT S' = lastT S.
Proof.
  intros (H1 & H2 & H3 & H4). destruct (kscan_feeds os [] [] S H1 H2 krel_nil) as (S' & Hf & R).
  exists S'. split; [|apply (krel_lastT _ _ R)]. pose proof (krel_lastT _ _ R) as EL.
  destruct R as (R0 & R1 & DS' & Hd & Hst).
  assert (NS : S' <> [] -> S <> []) by (intros N E; apply N; apply R0; exact E).
  split; [exact Hf|]. split; [exact DS'|]. split.
  - intros N. rewrite Hst. apply H3. apply NS. exact N.
  - intros t N Ht. rewrite Hd, (H4 t (NS N)) by (rewrite <- EL; exact Ht). reflexivity.
Qed.

End KScan.

(* ================================================================== *)
(* PART B: operations of the tz instance against the Z instance        *)
(* ================================================================== *)
(* generic form of DenseOnlineMonCorrect.run_rel: any state, any batch type *)
Section RunRelG.
Variables StE StZ BE BZ OE OZ : Type.
Variable RS : StE -> StZ -> Prop.
Variable RB : BE -> BZ -> Prop.
Variable RO : OE -> OZ -> Prop.
Variable updE : StE -> BE -> option (StE * OE).
Variable updZ : StZ -> BZ -> option (StZ * OZ).

Definition rel_res (a : option (StE * OE)) (b : option (StZ * OZ)) : Prop :=
  match a, b with
  | Some (s, o), Some (s', o') => RS s s' /\ RO o o'
  | None, None => True
  | _, _ => False
  end.
Definition rel_run (a : option (StE * list OE)) (b : option (StZ * list OZ)) : Prop :=
  match a, b with
  | Some (s, os), Some (s', os') => RS s s' /\ Forall2 RO os os'
  | None, None => True
  | _, _ => False
  end.

Hypothesis Hupd : forall st st' b b', RS st st' -> RB b b' -> rel_res (updE st b) (updZ st' b').

Lemma run_rel_g : forall bs bs' st st', RS st st' -> Forall2 RB bs bs' -> rel_run (run_g updE st bs) (run_g updZ st' bs').
Proof.
  induction bs as [|b bs IH]; intros bs' st st' Hst Hb.
  - inversion Hb; subst. cbn [run_g rel_run]. split; [exact Hst|constructor].
  - inversion Hb as [|? b' ? bs2 Hbb Hbs]; subst. cbn [run_g].
    pose proof (Hupd st st' b b' Hst Hbb) as Hu. unfold rel_res in Hu.
    destruct (updE st b) as [[s1 o]|]; destruct (updZ st' b') as [[s1' o']|]; try contradiction; [|exact I].
    destruct Hu as [Hs1 Ho]. specialize (IH bs2 s1 s1' Hs1 Hbs). unfold rel_run in IH |- *.
    destruct (run_g updE s1 bs) as [[s2 os]|]; destruct (run_g updZ s1' bs2) as [[s2' os']|]; try contradiction; [|exact I].
    destruct IH as [Hs2 Hos]. split; [exact Hs2|]. constructor; assumption.
Qed.
End RunRelG.

Section StampParam.
Context {VS : Val}.
Variables T1 T2 : Type.
Variable R : T1 -> T2 -> Prop.
Notation rl := (rl T1 T2 R).

(* operations that only carry the stamps along *)
Lemma kscan_rel (r h : V -> V) : forall il il' prev, rl il il' -> rl (kscan r h T1 prev il) (kscan r h T2 prev il').
Proof.
  intros il il' prev H. revert prev. induction H as [|[t x] [t' x'] l l' [Ht Ex] Hl IH]; intros prev; [constructor|].
  cbn [fst snd] in *. subst x'. cbn [kscan].
  assert (El : match l with [] => true | _ => false end = match l' with [] => true | _ => false end).
  { destruct Hl; reflexivity. }
  rewrite El. destruct (_ || _).
  - cbn [app]. constructor; [split; [exact Ht|reflexivity]|apply IH].
  - cbn [app]. apply IH.
Qed.

Lemma map_rel (g : V -> V) il il' : rl il il' ->
  rl (map (fun i : T1 * V => (fst i, g (snd i))) il) (map (fun i : T2 * V => (fst i, g (snd i))) il').
Proof.
  induction 1 as [|[t x] [t' x'] l l' [Ht Ex] Hl IH]; [constructor|]. cbn [fst snd] in *. subst x'.
  cbn [map fst snd]. constructor; [split; [exact Ht|reflexivity]|exact IH].
Qed.

Lemma unary_loop_rel (f : V -> option V) il il' : rl il il' ->
  match unary_loop T1 f il, unary_loop T2 f il' with
  | Some o, Some o' => rl o o'
  | None, None => True
  | _, _ => False
  end.
Proof.
  induction 1 as [|[t x] [t' x'] l l' [Ht Ex] Hl IH]; [constructor|]. cbn [fst snd] in *. subst x'.
  cbn [unary_loop]. destruct (f x) as [o|]; [|exact I].
  destruct (unary_loop T1 f l) as [o1|]; destruct (unary_loop T2 f l') as [o2|]; try contradiction; [|exact I].
  constructor; [split; [exact Ht|reflexivity]|exact IH].
Qed.

Lemma fold_loop_rel (g : V -> V -> V) il il' : rl il il' -> forall prev,
  fst (fold_loop T1 g prev il) = fst (fold_loop T2 g prev il') /\
  rl (snd (fold_loop T1 g prev il)) (snd (fold_loop T2 g prev il')).
Proof.
  induction 1 as [|[t x] [t' x'] l l' [Ht Ex] Hl IH]; intros prev; [split; [reflexivity|constructor]|].
  cbn [fst snd] in *. subst x'. cbn [fold_loop]. specialize (IH (g x prev)).
  destruct (fold_loop T1 g (g x prev) l) as [p1 o1]. destruct (fold_loop T2 g (g x prev) l') as [p2 o2].
  cbn [fst snd] in *. destruct IH as [E Ho]. split; [exact E|]. constructor; [split; [exact Ht|reflexivity]|exact Ho].
Qed.

End StampParam.

Section SinceParam.
Context {VS : Val}.
Variables T1 T2 : Type.
Variables (lt1 : T1 -> T1 -> bool) (lt2 : T2 -> T2 -> bool).
Variable R : T1 -> T2 -> Prop.
Hypothesis Rlt : forall a a' b b', R a a' -> R b b' -> lt1 a b = lt2 a' b'.
Notation rl := (rl T1 T2 R).
Notation ro := (ro T1 T2 R).

Definition r5 (x : list (T1 * V) * list (T1 * V) * V * option (T1 * V) * list (T1 * V))
              (y : list (T2 * V) * list (T2 * V) * V * option (T2 * V) * list (T2 * V)) : Prop :=
  let '(af, bf, pf, lf, out) := x in let '(af', bf', pf', lf', out') := y in
  rl af af' /\ rl bf bf' /\ pf = pf' /\ ro lf lf' /\ rl out out'.

Lemma pymax_rel a a' b b' : R a a' -> R b b' -> R (pymax T1 lt1 a b) (pymax T2 lt2 a' b').
Proof. intros Ha Hb. unfold pymax. rewrite (Rlt a a' b b' Ha Hb). destruct (lt2 a' b'); assumption. Qed.
Lemma pymin_rel a a' b b' : R a a' -> R b b' -> R (pymin T1 lt1 a b) (pymin T2 lt2 a' b').
Proof. intros Ha Hb. unfold pymin. rewrite (Rlt b b' a a' Hb Ha). destruct (lt2 b' a'); assumption. Qed.

Lemma r5_cons x y lo lo' v : r5 x y -> R lo lo' ->
  r5 (let '(af, bf, pf, lf, out) := x in (af, bf, pf, lf, (lo, v) :: out))
     (let '(af, bf, pf, lf, out) := y in (af, bf, pf, lf, (lo', v) :: out)).
Proof.
  destruct x as [[[[a1 a2] a3] a4] a5], y as [[[[b1 b2] b3] b4] b5]. cbn [r5]. intros (H1 & H2 & H3 & H4 & H5) Hlo.
  repeat split; try assumption. constructor; [split; [exact Hlo|reflexivity]|exact H5].
Qed.

Lemma since_loop_rel : forall fuel a a' b b' prev la la', rl a a' -> rl b b' -> ro la la' ->
  r5 (since_loop T1 lt1 fuel a b prev la) (since_loop T2 lt2 fuel a' b' prev la').
Proof.
  induction fuel as [|fuel IH]; intros a a' b b' prev la la' Ha Hb Hla.
  { cbn [since_loop r5]. repeat split; try assumption. constructor. }
  assert (Hdef : r5 (a, b, prev, la, []) (a', b', prev, la', [])).
  { cbn [r5]. repeat split; try assumption. constructor. }
  cbn [since_loop].
  destruct a as [|[as1 av] [|[ae avn] ra]].
  - apply (rl_nil_inv T1 T2 R) in Ha. subst a'. exact Hdef.
  - pose proof Ha as Ha0. apply (rl_cons_inv T1 T2 R) in Ha as ([as1' av'] & q & -> & _ & Hq).
    apply (rl_nil_inv T1 T2 R) in Hq. subst q. exact Hdef.
  - pose proof Ha as Ha0. apply (rl_cons_inv T1 T2 R) in Ha as ([as1' av'] & q & -> & [Has Eav] & Hq).
    pose proof Hq as Hat. apply (rl_cons_inv T1 T2 R) in Hq as ([ae' avn'] & ra' & -> & [Hae Eavn] & Hra).
    cbn [fst snd] in *. subst av' avn'.
    destruct b as [|[bs1 bv] [|[be bvn] rb]].
    + apply (rl_nil_inv T1 T2 R) in Hb. subst b'. exact Hdef.
    + pose proof Hb as Hb0. apply (rl_cons_inv T1 T2 R) in Hb as ([bs1' bv'] & q & -> & _ & Hq).
      apply (rl_nil_inv T1 T2 R) in Hq. subst q. exact Hdef.
    + pose proof Hb as Hb0. apply (rl_cons_inv T1 T2 R) in Hb as ([bs1' bv'] & q & -> & [Hbs Ebv] & Hq).
      pose proof Hq as Hbt. apply (rl_cons_inv T1 T2 R) in Hq as ([be' bvn'] & rb' & -> & [Hbe Ebvn] & Hrb).
      cbn [fst snd] in *. subst bv' bvn'.
      rewrite (Rlt ae ae' be be' Hae Hbe), (Rlt be be' ae ae' Hbe Hae).
      pose proof (pymax_rel as1 as1' bs1 bs1' Has Hbs) as Hlo. pose proof (pymin_rel ae ae' be be' Hae Hbe) as Hhi.
      rewrite (Rlt _ _ _ _ Hlo Hhi).
      assert (Hs : forall x x' v, R x x' -> ro (Some (x, v)) (Some (x', v))) by (intros x x' v Hx; split; [exact Hx|reflexivity]).
      destruct (lt2 ae' be'); [|destruct (lt2 be' ae')];
      (destruct (lt2 (pymax T2 lt2 as1' bs1') (pymin T2 lt2 ae' be'));
       [ apply r5_cons; [apply IH; try assumption; apply Hs; exact Hhi|exact Hlo] | apply IH; assumption ]).
Qed.

Definition rsst (s : @sstate VS T1) (s' : @sstate VS T2) : Prop :=
  rl (s_lbuf s) (s_lbuf s') /\ rl (s_rbuf s) (s_rbuf s') /\ s_prev s = s_prev s' /\ ro (s_last s) (s_last s').

Lemma since_update_rel st st' b1 b1' b2 b2' : rsst st st' -> rl b1 b1' -> rl b2 b2' ->
  match since_update T1 lt1 st (b1, b2), since_update T2 lt2 st' (b1', b2') with
  | Some (s, o), Some (s', o') => rsst s s' /\ rl o o'
  | None, None => True
  | _, _ => False
  end.
Proof.
  intros (Hl & Hr & Hp & Hla) H1 H2. unfold since_update. cbn [fst snd].
  pose proof (rl_app T1 T2 R _ _ _ _ Hl H1) as Ha. pose proof (rl_app T1 T2 R _ _ _ _ Hr H2) as Hb.
  rewrite <- (rl_length T1 T2 R _ _ Ha), <- (rl_length T1 T2 R _ _ Hb), <- Hp.
  pose proof (since_loop_rel (length (s_lbuf st ++ b1) + length (s_rbuf st ++ b2)) _ _ _ _ (s_prev st) _ _ Ha Hb Hla) as Hr5.
  destruct (since_loop T1 lt1 _ (s_lbuf st ++ b1) (s_rbuf st ++ b2) (s_prev st) (s_last st)) as [[[[af bf] pf] lf] out].
  destruct (since_loop T2 lt2 _ (s_lbuf st' ++ b1') (s_rbuf st' ++ b2') (s_prev st) (s_last st')) as [[[[af' bf'] pf'] lf'] out'].
  cbn [r5] in Hr5. destruct Hr5 as (A1 & A2 & A3 & A4 & A5). split; [|exact A5].
  split; [exact A1|]. split; [exact A2|]. split; [exact A3|exact A4].
Qed.

End SinceParam.


(* ================================================================== *)
(* PART H1: progress of intersection(): the lists returned by a binary *)
(* operation reach the earlier of the last stamps of its two operands   *)
(* ================================================================== *)
Section MergeProg.
Context {VS : Val}.
(* what the proofs of DenseOnlineMergeCorrect.v establish about [last] when they establish Post, without recording it *)
Definition PostP (s1 s2 : dsig) (la : option (Z * V)) : Prop :=
  match la with Some (a, _) => a = FF s1 s2 | None => FF s1 s2 < TT0 s1 s2 end.

Lemma minv_postP (f : V -> V -> V) s1 s2 l1 l2 out la :
  MInv f s1 s2 l1 l2 out la -> FF s1 s2 <= tm l1 l2 -> (la = None -> FF s1 s2 < tm l1 l2) -> PostP s1 s2 la.
Proof.
  intros H Hle Hlt. destruct la as [[a v]|]; cbn [PostP].
  - pose proof (minv_last_le f s1 s2 _ _ _ _ _ H) as Ha. destruct (mi_last _ _ _ _ _ _ _ H) as (Ea & _). lia.
  - specialize (Hlt eq_refl). unfold tm in Hlt. unfold TT0.
    pose proof (mi_hi1 _ _ _ _ _ _ _ H) as H1. pose proof (mi_hi2 _ _ _ _ _ _ _ H) as H2.
    destruct H1 as [->|H1]; destruct H2 as [->|H2]; lia.
Qed.

Lemma PostP_flip s1 s2 la : PostP s2 s1 la -> PostP s1 s2 la.
Proof. unfold PostP. rewrite FF_comm, TT0_comm. auto. Qed.

Lemma otail1_P (f : V -> V -> V) s1 s2 p2 v2 : forall fuel l1 out la out' la',
  (length l1 <= fuel)%nat -> MInv f s1 s2 l1 [(p2, v2)] out la ->
  otail1 Z Z.ltb Z.eqb fuel f l1 p2 v2 out la = Some (out', la') -> PostP s1 s2 la'.
Proof.
  induction fuel as [|fuel IH]; intros l1 out la out' la' Hlen H E.
  - pose proof (mi_ne1 _ _ _ _ _ _ _ H). destruct l1; [congruence|cbn [length] in Hlen; lia].
  - pose proof (minv_lastT1 f s1 s2 _ _ _ _ H) as L1. pose proof (minv_lastT2 f s1 s2 _ _ _ _ H) as L2.
    unfold lastT in L2 at 1. cbn [last fst] in L2.
    destruct l1 as [|[p1 v1] l1]; [destruct (mi_ne1 _ _ _ _ _ _ _ H); reflexivity|].
    destruct l1 as [|[c1 w1] r1].
    + cbn [otail1] in E. injection E as <- <-. unfold lastT in L1 at 1. cbn [last fst] in L1.
      apply (minv_postP f _ _ _ _ _ _ H); unfold tm, FF in *; cbn [start]; [lia|].
      intros ->. pose proof (mi_last _ _ _ _ _ _ _ H) as Hne. cbn [start] in Hne. lia.
    + cbn [otail1] in E.
      pose proof (mi_sorted1 _ _ _ _ _ _ _ H) as S1. assert (P1 : p1 < c1) by (destruct S1 as [P1 _]; exact P1).
      assert (C1 : c1 <= lastT s1).
      { rewrite <- L1. apply (dsorted_le_last _ S1 c1 w1). right. left. reflexivity. }
      destruct (p2 <? p1) eqn:E1.
      { injection E as <- <-. apply (minv_postP f _ _ _ _ _ _ H); unfold tm, FF; cbn [start]; lia. }
      destruct (p1 =? p2) eqn:E2.
      { injection E as <- <-. cbn [PostP]. unfold FF. lia. }
      destruct ((p1 <? p2) && (p2 <? c1)) eqn:E3.
      { rewrite (otail1_break f) in E by (cbn [start]; lia). injection E as <- <-. cbn [PostP]. unfold FF. lia. }
      destruct ((p1 <? p2) && (p2 =? c1)) eqn:E4.
      { assert (c1 = p2) by lia. subst c1. rewrite (otail1_eq f) in E. injection E as <- <-. cbn [PostP]. unfold FF. lia. }
      destruct (c1 <? p2) eqn:E5; [|discriminate].
      refine (IH ((c1, w1) :: r1) out None out' la' _ _ E); [cbn [length] in *; lia|].
      pose proof (minv_pop1 f s1 s2 p1 v1 c1 w1 r1 p2 v2 [] out la v2 H) as Hp.
      replace (p2 <? c1) with false in Hp by lia. rewrite E5 in Hp.
      apply Hp; [cbn [bound]; lia|intros; lia].
Qed.

Lemma otail2_P (f : V -> V -> V) s1 s2 p1 v1 fuel l2 out la out' la' :
  (length l2 <= fuel)%nat -> MInv f s1 s2 [(p1, v1)] l2 out la ->
  otail2 Z Z.ltb Z.eqb fuel f p1 v1 l2 out la = Some (out', la') -> PostP s1 s2 la'.
Proof.
  intros Hlen H E. apply MInv_flip in H. rewrite otail2_flip in E. apply PostP_flip.
  apply (otail1_P (flip f) s2 s1 p1 v1 fuel l2 out la out' la' Hlen H E).
Qed.

Lemma ofinish_P (f : V -> V -> V) s1 s2 l1 l2 out la out' la' r1 r2 :
  MInv f s1 s2 l1 l2 out la -> (length l1 = 1 \/ length l2 = 1)%nat ->
  ofinish Z Z.ltb Z.eqb f (l1, l2, out, la) = Some (out', la', r1, r2) -> PostP s1 s2 la'.
Proof.
  intros H Hone E. unfold ofinish in E.
  pose proof (mi_ne1 _ _ _ _ _ _ _ H) as M1. pose proof (mi_ne2 _ _ _ _ _ _ _ H) as M2.
  destruct l1 as [|[a1 b1] [|[a1' b1'] m1]]; [congruence| |].
  - destruct l2 as [|[a2 b2] [|[a2' b2'] m2]]; [congruence| |].
    + injection E as <- <- _ _. apply (otail1_P f s1 s2 a2 b2 1%nat [(a1, b1)] out la out la ltac:(cbn [length]; lia) H). reflexivity.
    + destruct (otail2 Z Z.ltb Z.eqb _ f a1 b1 _ out la) as [[o1 l1]|] eqn:Et; [|discriminate].
      cbn [option_map fst snd] in E. injection E as <- <- _ _.
      apply (otail2_P f s1 s2 a1 b1 _ _ out la o1 l1 (le_n _) H Et).
  - destruct l2 as [|[a2 b2] [|[a2' b2'] m2]]; [congruence| |].
    + destruct (otail1 Z Z.ltb Z.eqb _ f _ a2 b2 out la) as [[o1 l1]|] eqn:Et; [|discriminate].
      cbn [option_map fst snd] in E. injection E as <- <- _ _.
      apply (otail1_P f s1 s2 a2 b2 _ _ out la o1 l1 (le_n _) H Et).
    + cbn [length] in Hone. lia.
Qed.

Lemma oisect_P (f : V -> V -> V) s1 s2 out la r1 r2 :
  dsorted s1 -> dsorted s2 -> s1 <> [] -> s2 <> [] -> oisect f s1 s2 = Some (out, la, r1, r2) -> PostP s1 s2 la.
Proof.
  intros S1 S2 N1 N2 E.
  assert (E1 : exists p1 v1 q1, s1 = (p1, v1) :: q1) by (destruct s1 as [|[p1 v1] q1]; [congruence|eauto]).
  assert (E2 : exists p2 v2 q2, s2 = (p2, v2) :: q2) by (destruct s2 as [|[p2 v2] q2]; [congruence|eauto]).
  destruct E1 as (p1 & v1 & q1 & E1). destruct E2 as (p2 & v2 & q2 & E2).
  pose proof (minv_init f s1 s2 p1 v1 q1 p2 v2 q2 S1 S2 E1 E2) as H0.
  destruct (omain_correct f s1 s2 (length s1 + length s2 + 2) s1 s2 [] _ ltac:(lia) H0)
    as (l1 & l2 & out0 & la0 & Erun & H & Hone).
  rewrite (oisect_unfold f s1 s2 _ _ _ _ _ _ E1 E2) in E.
  apply (ofinish_P f s1 s2 l1 l2 out0 la0 out la r1 r2 H Hone).
  exact (eq_trans (eq_sym (f_equal (fun o => match o with None => None | Some st => ofinish Z Z.ltb Z.eqb f st end) Erun)) E).
Qed.

Lemma oadd_last_lastT (out : dsig) a v : (forall b w, In (b, w) out -> b <= a) ->
  oadd_last Z Z.ltb out (Some (a, v)) <> [] /\ lastT (oadd_last Z Z.ltb out (Some (a, v))) = a.
Proof.
  intros Hle. unfold oadd_last. destruct (rev out) as [|[tr wr] q] eqn:E; [split; [discriminate|reflexivity]|].
  apply rev_eq_cons in E. cbn [fst]. destruct (tr <? a) eqn:Et.
  - split; [destruct out; discriminate|]. rewrite lastT_app by discriminate. reflexivity.
  - assert (Hin : In (tr, wr) out) by (rewrite E; apply in_or_app; right; left; reflexivity).
    pose proof (Hle tr wr Hin). split; [rewrite E; destruct (rev q); discriminate|].
    rewrite E, lastT_app by discriminate. unfold lastT. cbn [last fst]. lia.
Qed.

(* the lists returned so far reach the earlier of the two last stamps received *)
Definition ProgM (A B O : dsig) : Prop := A <> [] -> B <> [] -> O <> [] /\ lastT O = FF A B.

Lemma den_some_start (l : dsig) t : den_opt l t <> None -> start l <= t.
Proof.
  destruct l as [|[p v] r]; [intros H; exfalso; apply H; reflexivity|]. intros H. cbn [start].
  destruct (Z.le_gt_cases p t) as [Hle|Hgt]; [exact Hle|]. exfalso. apply H. apply den_before. exact Hgt.
Qed.

Lemma bin_update_prog (f : V -> V -> V) A B st O b1 b2 c1 c2 st' o :
  RInv f A B st O -> dsorted (A ++ b1) -> dsorted (B ++ b2) -> batch_of A b1 c1 -> batch_of B b2 c2 ->
  (A ++ b1 <> [] -> start (A ++ b1) = 0) -> (B ++ b2 <> [] -> start (B ++ b2) = 0) ->
  ProgM A B O -> bin_update f st c1 c2 = Some (st', o) -> ProgM (A ++ b1) (B ++ b2) (O ++ o).
Proof.
  intros R SA SB H1 H2 ZA ZB HP E NA' NB'. unfold bin_update, bin_update_g in E.
  rewrite (obuf_add_batch A (lbuf st) b1 c1 SA (ri_suf1 _ _ _ _ _ R) (ri_ne1 _ _ _ _ _ R) H1) in E.
  rewrite (obuf_add_batch B (rbuf st) b2 c2 SB (ri_suf2 _ _ _ _ _ R) (ri_ne2 _ _ _ _ _ R) H2) in E.
  destruct (buf_step A (lbuf st) b1 SA (ri_suf1 _ _ _ _ _ R) (ri_ne1 _ _ _ _ _ R)) as (El & SufL & SL).
  destruct (buf_step B (rbuf st) b2 SB (ri_suf2 _ _ _ _ _ R) (ri_ne2 _ _ _ _ _ R)) as (Er & SufR & SR).
  rewrite El, Er in E. set (l := lbuf st ++ b1) in *. set (r := rbuf st ++ b2) in *.
  (* the buffers are not empty and end where the inputs end *)
  assert (Nl : l <> []).
  { unfold l. destruct A as [|x A0]; [|pose proof (ri_ne1 _ _ _ _ _ R ltac:(discriminate)); destruct (lbuf st); [congruence|discriminate]].
    destruct (ri_suf1 _ _ _ _ _ R) as [pre Ep]. symmetry in Ep. apply app_eq_nil in Ep as [_ ->]. exact NA'. }
  assert (Nr : r <> []).
  { unfold r. destruct B as [|x B0]; [|pose proof (ri_ne2 _ _ _ _ _ R ltac:(discriminate)); destruct (rbuf st); [congruence|discriminate]].
    destruct (ri_suf2 _ _ _ _ _ R) as [pre Ep]. symmetry in Ep. apply app_eq_nil in Ep as [_ ->]. exact NB'. }
  assert (Ll : lastT l = lastT (A ++ b1)) by (destruct SufL as [pre ->]; symmetry; apply lastT_app; exact Nl).
  assert (Lr : lastT r = lastT (B ++ b2)) by (destruct SufR as [pre ->]; symmetry; apply lastT_app; exact Nr).
  assert (EF : FF l r = FF (A ++ b1) (B ++ b2)) by (unfold FF; rewrite Ll, Lr; reflexivity).
  pose proof (dsorted_nonneg _ SA ZA) as PA. pose proof (dsorted_nonneg _ SB ZB) as PB.
  (* both buffers start before the front *)
  assert (Sl : start l <= FF (A ++ b1) (B ++ b2)).
  { destruct A as [|xa A0] eqn:EA.
    - destruct (ri_suf1 _ _ _ _ _ R) as [pre Ep]. symmetry in Ep. apply app_eq_nil in Ep as [_ Ep].
      unfold l. rewrite Ep. cbn [app] in *. rewrite (ZA NA'). unfold FF. lia.
    - rewrite <- EA in *. assert (NA : A <> []) by (rewrite EA; discriminate).
      destruct B as [|xb B0] eqn:EB.
      + destruct (ri_empty _ _ _ _ _ R (or_intror eq_refl)) as (_ & ElA & _). unfold l. rewrite ElA. rewrite (ZA NA'). unfold FF. lia.
      + rewrite <- EB in *. assert (NB : B <> []) by (rewrite EB; discriminate).
        unfold l. rewrite start_app by (apply (ri_ne1 _ _ _ _ _ R NA)).
        assert (ZA0 : start A = 0) by (rewrite <- (start_app A b1 NA); apply ZA; exact NA').
        assert (ZB0 : start B = 0) by (rewrite <- (start_app B b2 NB); apply ZB; exact NB').
        assert (F0 : 0 <= FF A B).
        { unfold FF. pose proof (dsorted_nonneg A (dsorted_app_l _ _ SA) (fun _ => ZA0)). pose proof (dsorted_nonneg B (dsorted_app_l _ _ SB) (fun _ => ZB0)). lia. }
        assert (Hs : start (lbuf st) <= FF A B).
        { apply den_some_start. rewrite (ri_den1 _ _ _ _ _ R NA NB (FF A B) ltac:(lia)).
          destruct A as [|[pa va] ra]; [congruence|]. cbn [start] in ZA0. subst pa. apply den_from_start. exact F0. }
        pose proof (lastT_app_ge A b1 SA NA). pose proof (lastT_app_ge B b2 SB NB). unfold FF in *. lia. }
  assert (Sr : start r <= FF (A ++ b1) (B ++ b2)).
  { destruct B as [|xb B0] eqn:EB.
    - destruct (ri_suf2 _ _ _ _ _ R) as [pre Ep]. symmetry in Ep. apply app_eq_nil in Ep as [_ Ep].
      unfold r. rewrite Ep. cbn [app] in *. rewrite (ZB NB'). unfold FF. lia.
    - rewrite <- EB in *. assert (NB : B <> []) by (rewrite EB; discriminate).
      destruct A as [|xa A0] eqn:EA.
      + destruct (ri_empty _ _ _ _ _ R (or_introl eq_refl)) as (_ & _ & ErB). unfold r. rewrite ErB. rewrite (ZB NB'). unfold FF. lia.
      + rewrite <- EA in *. assert (NA : A <> []) by (rewrite EA; discriminate).
        unfold r. rewrite start_app by (apply (ri_ne2 _ _ _ _ _ R NB)).
        assert (ZA0 : start A = 0) by (rewrite <- (start_app A b1 NA); apply ZA; exact NA').
        assert (ZB0 : start B = 0) by (rewrite <- (start_app B b2 NB); apply ZB; exact NB').
        assert (F0 : 0 <= FF A B).
        { unfold FF. pose proof (dsorted_nonneg A (dsorted_app_l _ _ SA) (fun _ => ZA0)). pose proof (dsorted_nonneg B (dsorted_app_l _ _ SB) (fun _ => ZB0)). lia. }
        assert (Hs : start (rbuf st) <= FF A B).
        { apply den_some_start. rewrite (ri_den2 _ _ _ _ _ R NA NB (FF A B) ltac:(lia)).
          destruct B as [|[pb vb] rb]; [congruence|]. cbn [start] in ZB0. subst pb. apply den_from_start. exact F0. }
        pose proof (lastT_app_ge A b1 SA NA). pose proof (lastT_app_ge B b2 SB NB). unfold FF in *. lia. }
  destruct (oisect_correct_full f l r SL SR Nl Nr) as (out & la & r1 & r2 & Eo & _ & Hin & _).
  pose proof (oisect_P f l r out la r1 r2 SL SR Nl Nr Eo) as HPo.
  unfold oisect in Eo. rewrite Eo in E. injection E as _ <-.
  destruct la as [[a v]|]; cbn [PostP] in HPo; [|unfold TT0 in HPo; lia].
  assert (Hle : forall b w, In (b, w) out -> b <= a).
  { intros b w Hb. pose proof (Hin b w ltac:(unfold olist; apply in_or_app; left; exact Hb)). lia. }
  destruct (oadd_last_lastT out a v Hle) as [Nres Lres]. set (res := oadd_last Z Z.ltb out (Some (a, v))) in *.
  destruct (odrop_first_cases (lout st) res) as [->|(x & Ex & Elo)].
  - split; [intros E0; apply app_eq_nil in E0 as [_ E0]; exact (Nres E0)|]. rewrite lastT_app by exact Nres. lia.
  - destruct (odrop_first Z Z.eqb (lout st) res) as [|y q] eqn:Ed.
    + (* the only sample is the one already returned *)
      rewrite app_nil_r. rewrite (ri_lout _ _ _ _ _ R) in Elo. unfold last_opt in Elo.
      destruct (rev O) as [|z q] eqn:Erev; [discriminate|]. injection Elo as ->. apply rev_eq_cons in Erev.
      split; [rewrite Erev; destruct (rev q); discriminate|]. rewrite Erev, lastT_app by discriminate.
      rewrite Ex in Lres. unfold lastT in *. cbn [last fst] in *. lia.
    + split; [intros E0; apply app_eq_nil in E0 as [_ E0]; discriminate|]. rewrite lastT_app by discriminate.
      rewrite Ex in Lres. rewrite lastT_cons in Lres. lia.
Qed.

Section Runs.
Variable f : V -> V -> V.
Variables S1 S2 : dsig.
Hypothesis D1 : dsorted S1.
Hypothesis D2 : dsorted S2.
Hypothesis Z1 : S1 <> [] -> start S1 = 0.
Hypothesis Z2 : S2 <> [] -> start S2 = 0.

Lemma bin_run_last : forall xs ys A B st O st' outs, length xs = length ys ->
  feedsI A xs S1 -> feedsI B ys S2 -> RInv f A B st O -> ProgM A B O ->
  bin_run f st (combine xs ys) = Some (st', outs) ->
  RInv f S1 S2 st' (O ++ concat outs) /\ ProgM S1 S2 (O ++ concat outs).
Proof.
  induction xs as [|c1 xs IH]; intros [|c2 ys] A B st O st' outs Hl H1 H2 R HP E; cbn [length] in Hl; try discriminate.
  - cbn [feedsI] in H1, H2. subst A B. unfold bin_run in E. cbn [combine bin_run_g] in E. injection E as <- <-.
    cbn [concat]. rewrite app_nil_r. split; assumption.
  - destruct H1 as (b1 & Hb1 & H1). destruct H2 as (b2 & Hb2 & H2).
    destruct (feedsI_prefix _ _ _ H1) as [q1 E1]. destruct (feedsI_prefix _ _ _ H2) as [q2 E2].
    assert (SA : dsorted (A ++ b1)) by (apply (dsorted_app_l _ q1); rewrite <- E1; exact D1).
    assert (SB : dsorted (B ++ b2)) by (apply (dsorted_app_l _ q2); rewrite <- E2; exact D2).
    assert (ZA' : A ++ b1 <> [] -> start (A ++ b1) = 0) by (intros N; apply (prefix_start0 _ q1); [rewrite <- E1; exact Z1|exact N]).
    assert (ZB' : B ++ b2 <> [] -> start (B ++ b2) = 0) by (intros N; apply (prefix_start0 _ q2); [rewrite <- E2; exact Z2|exact N]).
    destruct (bin_update_step_rep f A B st O b1 b2 c1 c2 R SA SB (batch_id_of _ _ _ Hb1) (batch_id_of _ _ _ Hb2)) as (st1 & o & Eu & R1).
    pose proof (bin_update_prog f A B st O b1 b2 c1 c2 st1 o R SA SB (batch_id_of _ _ _ Hb1) (batch_id_of _ _ _ Hb2) ZA' ZB' HP Eu) as HP1.
    unfold bin_run in E. cbn [combine bin_run_g] in E. unfold bin_update in Eu. rewrite Eu in E.
    destruct (bin_run_g Z Z.ltb Z.eqb f st1 (combine xs ys)) as [[st2 os2]|] eqn:Er; [|discriminate]. injection E as <- <-.
    cbn [concat]. rewrite app_assoc. apply (IH ys (A ++ b1) (B ++ b2) st1 (O ++ o) st2 os2 ltac:(lia) H1 H2 R1 HP1 Er).
Qed.

Lemma rinv_prog_last st O S : RInv f S1 S2 st O -> ProgM S1 S2 O -> same O S -> lastT S = Z.min (lastT S1) (lastT S2).
Proof.
  intros R HP HS. assert (EL : lastT S = lastT O) by (rewrite <- !lastS_stamp, (sm_last _ _ HS); reflexivity).
  assert (Hdec : (S1 = [] \/ S2 = []) \/ (S1 <> [] /\ S2 <> [])).
  { destruct S1; [left; left; reflexivity|]. destruct S2; [left; right; reflexivity|]. right. split; discriminate. }
  destruct Hdec as [Hemp|[N1 N2]].
  - destruct (ri_empty _ _ _ _ _ R Hemp) as (-> & _). rewrite EL. change (lastT (@nil (Z * V))) with 0.
    pose proof (dsorted_nonneg _ D1 Z1). pose proof (dsorted_nonneg _ D2 Z2).
    destruct Hemp as [-> | ->]; change (lastT (@nil (Z * V))) with 0 in *; lia.
  - destruct (HP N1 N2) as [_ L]. rewrite EL, L. reflexivity.
Qed.

Lemma progm_init : ProgM [] [] ([] : dsig).
Proof. intros N. congruence. Qed.

(* and_operation.update *)
Lemma bin_stream_last xs ys st outs S : length xs = length ys -> feedsI [] xs S1 -> feedsI [] ys S2 ->
  bin_run f ostate0 (combine xs ys) = Some (st, outs) -> feedsI [] outs S -> dsorted S ->
  lastT S = Z.min (lastT S1) (lastT S2).
Proof.
  intros Hl H1 H2 E Hf DS.
  destruct (bin_run_last xs ys [] [] ostate0 [] st outs Hl H1 H2 (rinv_init f) progm_init E) as [R HP]. cbn [app] in R, HP.
  apply (rinv_prog_last st (concat outs) S R HP (feedsI_concat outs S Hf DS)).
Qed.

(* multiplication_operation.update: the same lists, except for a first sample that is a copy of the last one returned *)
Definition LastEq (M O : dsig) : Prop := (O = [] -> M = []) /\ (O <> [] -> M <> [] /\ lastS M = lastS O).

Lemma mul_run_last : forall xs ys A B st stm O M stm' outs, length xs = length ys ->
  feedsI A xs S1 -> feedsI B ys S2 -> RInv f A B st O -> lbuf stm = lbuf st -> rbuf stm = rbuf st ->
  ProgM A B O -> LastEq M O ->
  run_g (mul_upd2 f) stm (combine xs ys) = Some (stm', outs) ->
  exists st' O', RInv f S1 S2 st' O' /\ ProgM S1 S2 O' /\ LastEq (M ++ concat outs) O'.
Proof.
  induction xs as [|c1 xs IH]; intros [|c2 ys] A B st stm O M stm' outs Hl H1 H2 R El Er HP HL E; cbn [length] in Hl; try discriminate.
  - cbn [feedsI] in H1, H2. subst A B. cbn [combine run_g] in E. injection E as <- <-. exists st, O. cbn [concat]. rewrite app_nil_r.
    split; [exact R|]. split; assumption.
  - destruct H1 as (b1 & Hb1 & H1). destruct H2 as (b2 & Hb2 & H2).
    destruct (feedsI_prefix _ _ _ H1) as [q1 E1]. destruct (feedsI_prefix _ _ _ H2) as [q2 E2].
    assert (SA : dsorted (A ++ b1)) by (apply (dsorted_app_l _ q1); rewrite <- E1; exact D1).
    assert (SB : dsorted (B ++ b2)) by (apply (dsorted_app_l _ q2); rewrite <- E2; exact D2).
    assert (ZA' : A ++ b1 <> [] -> start (A ++ b1) = 0) by (intros N; apply (prefix_start0 _ q1); [rewrite <- E1; exact Z1|exact N]).
    assert (ZB' : B ++ b2 <> [] -> start (B ++ b2) = 0) by (intros N; apply (prefix_start0 _ q2); [rewrite <- E2; exact Z2|exact N]).
    destruct (bin_update_step_rep f A B st O b1 b2 c1 c2 R SA SB (batch_id_of _ _ _ Hb1) (batch_id_of _ _ _ Hb2)) as (st1 & o & Eu & R1).
    pose proof (bin_update_prog f A B st O b1 b2 c1 c2 st1 o R SA SB (batch_id_of _ _ _ Hb1) (batch_id_of _ _ _ Hb2) ZA' ZB' HP Eu) as HP1.
    destruct (mul_vs_bin f st stm c1 c2 st1 o El Er Eu) as (stm1 & m & Em & El1 & Er1 & Hm).
    cbn [combine run_g] in E. unfold mul_upd2 at 1 in E. cbn [fst snd] in E. rewrite Em in E.
    destruct (run_g (mul_upd2 f) stm1 (combine xs ys)) as [[stm2 os2]|] eqn:Erun; [|discriminate]. injection E as <- <-.
    assert (HL1 : LastEq (M ++ m) (O ++ o)).
    { destruct HL as [HL0 HL1]. destruct Hm as [->|(x & Elo & ->)].
      - destruct o as [|y o']; [rewrite !app_nil_r; split; assumption|]. split; [intros E0; apply app_eq_nil in E0 as [_ E0]; discriminate|].
        intros _. split; [intros E0; apply app_eq_nil in E0 as [_ E0]; discriminate|]. rewrite !lastS_app by discriminate. reflexivity.
      - rewrite (ri_lout _ _ _ _ _ R) in Elo. destruct (last_opt_lastS O x Elo) as [NO Ex].
        split; [intros E0; apply app_eq_nil in E0 as [E0 _]; congruence|]. intros _.
        split; [intros E0; apply app_eq_nil in E0 as [_ E0]; discriminate|]. rewrite (lastS_app M) by discriminate.
        destruct o as [|y o']; [rewrite app_nil_r; rewrite Ex; reflexivity|]. rewrite lastS_app by discriminate. unfold lastS. reflexivity. }
    cbn [concat]. rewrite app_assoc.
    apply (IH ys (A ++ b1) (B ++ b2) st1 stm1 (O ++ o) (M ++ m) stm2 os2 ltac:(lia) H1 H2 R1 El1 Er1 HP1 HL1 Erun).
Qed.

Lemma mul_stream_last xs ys st outs S : length xs = length ys -> feedsI [] xs S1 -> feedsI [] ys S2 ->
  run_g (mul_upd2 f) ostate0 (combine xs ys) = Some (st, outs) -> feedsI [] outs S -> dsorted S ->
  lastT S = Z.min (lastT S1) (lastT S2).
Proof.
  intros Hl H1 H2 E Hf DS.
  destruct (mul_run_last xs ys [] [] ostate0 ostate0 [] [] st outs Hl H1 H2 (rinv_init f) eq_refl eq_refl progm_init
              ltac:(split; [reflexivity|congruence]) E) as (st' & O' & R & HP & [HL0 HL1]). cbn [app] in HL0, HL1.
  pose proof (feedsI_concat outs S Hf DS) as HS.
  assert (EL : lastT S = lastT (concat outs)) by (rewrite <- !lastS_stamp, (sm_last _ _ HS); reflexivity).
  assert (Hdec : (S1 = [] \/ S2 = []) \/ (S1 <> [] /\ S2 <> [])).
  { destruct S1; [left; left; reflexivity|]. destruct S2; [left; right; reflexivity|]. right. split; discriminate. }
  destruct Hdec as [Hemp|[N1 N2]].
  - destruct (ri_empty _ _ _ _ _ R Hemp) as (EO & _). rewrite EL, (HL0 EO). change (lastT (@nil (Z * V))) with 0.
    pose proof (dsorted_nonneg _ D1 Z1). pose proof (dsorted_nonneg _ D2 Z2).
    destruct Hemp as [-> | ->]; change (lastT (@nil (Z * V))) with 0 in *; lia.
  - destruct (HP N1 N2) as [NO L]. destruct (HL1 NO) as [_ EqL]. rewrite EL, <- lastS_stamp, EqL, lastS_stamp, L. reflexivity.
Qed.

End Runs.

End MergeProg.

(* ================================================================== *)
(* PART H2: progress of once[b,e] / historically[b,e] (0 < e): every    *)
(* update returns a list that ends at the last stamp received            *)
(* ================================================================== *)
Section WinProg.
Context {VS : Val}.

Lemma in_oadd_last (out : dsig) la x : In x out -> In x (oadd_last Z Z.ltb out la).
Proof.
  intros H. unfold oadd_last. destruct la as [l|]; [|exact H]. destruct (rev out) as [|[tr wr] q] eqn:E.
  - apply (f_equal (@rev _)) in E. rewrite rev_involutive in E. subst out. destruct H.
  - destruct (tr <? fst l); [apply in_or_app; left; exact H|exact H].
Qed.

Lemma add_last_lastT (res : dsig) z v : (forall a w, In (a, w) (add_last res (Some (z, v))) -> a <= z) ->
  add_last res (Some (z, v)) <> [] /\ lastT (add_last res (Some (z, v))) = z.
Proof.
  intros H. rewrite add_last_eq in *. apply oadd_last_lastT. intros b w Hb. apply (H b w). apply in_oadd_last. exact Hb.
Qed.

Definition ProgW (A O : dsig) : Prop := A <> [] -> O <> [] /\ lastT O = lastT A.

Section BE.
Variables b e : Z.
Hypothesis Hb : 0 <= b.
Hypothesis Hbe : b <= e.
Hypothesis He : 0 < e.

Lemma once_update_last A st O bn c st' o :
  DenseOnlineWinCorrect.Inv b e A st O -> dsorted (A ++ bn) -> start (A ++ bn) = 0 -> batch_of A bn c ->
  once_timed_update st c = Some (st', o) -> A ++ bn <> [] -> o <> [] /\ lastT o = lastT (A ++ bn).
Proof.
  intros I Hs H0 Hc E0 NAb. pose proof (drop_repeat_batch b e A st O bn c I Hs Hc) as Ed.
  destruct I as (Eb & Ee & I).
  assert (Hcase : bn = [] \/ bn <> []) by (destruct bn; [left; reflexivity|right; discriminate]).
  destruct Hcase as [->|Nbn].
  - rewrite app_nil_r in *. destruct I as [(-> & Ep & Es & ->)|(Hne & Es & Er & W & WO & HinO & HdO)]; [congruence|].
    pose proof (lastT_nonneg A Hs Hne H0) as Hz.
    destruct (scan_finish (w_prev st) (lastT A) (lastT A) (lastT A + e) (FA b e A) W ltac:(lia) ltac:(lia))
      as (res & np & E & W' & Do & Hino & Hdo).
    rewrite (once_update_eq st c [] (rev (w_prev st)) res (Some (lastT A, FA b e A (lastT A))) np Ed) in E0;
      [|reflexivity|rewrite rev_involutive; cbn [new_rs rev]; rewrite Er; exact E].
    injection E0 as _ <-. apply add_last_lastT. intros a w Ha. apply (Hino a w Ha).
  - set (z' := lastT bn).
    assert (Ez' : lastT (A ++ bn) = z') by (apply lastT_app; exact Nbn).
    assert (Hsb : dsorted bn) by (apply (dsorted_app_r A); exact Hs).
    assert (Enr : new_rs (w_rs st) bn = RFin z') by (apply new_rs_last; exact Nbn).
    assert (Hpush : exists lo s v r,
      push_all ltb (add_pad bot (w_started st) (extend_last (rev (w_prev st)) bn (w_end st)) bn (w_begin st))
                   (win_pieces bn (w_begin st) (w_end st)) = Some ((s, T (z' + e), v) :: r) /\
      s <= z' + e /\ stk ((s, TInf, v) :: r) lo TInf (FA b e (A ++ bn)) /\ lo <= z').
    { rewrite Eb, Ee. destruct I as [(-> & Ep & Es & ->)|(Hne & Es & Er & W & WO & HinO & HdO)].
      - cbn [app] in *. rewrite Ep, Es. destruct (push_first b e Hb Hbe bn Hsb Nbn H0) as (s & v & r & E & Hsz & S).
        exists 0, s, v, r. split; [exact E|]. split; [exact Hsz|]. split; [exact S|].
        apply (lastT_nonneg bn Hsb Nbn H0).
      - rewrite Es. rewrite start_app in H0 by exact Hne.
        destruct (push_later b e Hb Hbe A (w_prev st) bn Hs Hne Nbn H0 W) as (s & v & r & E & Hsz & S).
        pose proof (dsorted_app_lt A bn Hs Hne Nbn) as Hlt.
        assert (Hsz' : start bn <= z').
        { destruct bn as [|[t0 v0] r0]; [congruence|]. apply (dsorted_le_last _ Hsb t0 v0). left. reflexivity. }
        exists (lastT A), s, v, r. split; [exact E|]. split; [exact Hsz|]. split; [exact S|]. lia. }
    destruct Hpush as (lo & s & v & r & Ep & Hsz & S & Hloz).
    pose proof (stk_wchain s v r lo (z' + e) _ S Hsz) as W.
    destruct (scan_finish _ lo z' (z' + e) _ W Hloz ltac:(lia)) as (res & np & E & W' & Do & Hino & Hdo).
    rewrite (once_update_eq st c bn _ res (Some (z', FA b e (A ++ bn) z')) np Ed Ep) in E0 by (rewrite Enr; exact E).
    injection E0 as _ <-. rewrite Ez'. apply add_last_lastT. intros a w Ha. apply (Hino a w Ha).
Qed.

Variable S : dsig.
Hypothesis DS : dsorted S.
Hypothesis ZS : S <> [] -> start S = 0.

Lemma once_run_last : forall xs A st O st' outs,
  feedsI A xs S -> DenseOnlineWinCorrect.Inv b e A st O -> ProgW A O ->
  once_timed_run st xs = Some (st', outs) -> ProgW S (O ++ concat outs).
Proof.
  induction xs as [|c xs IH]; intros A st O st' outs H R HP E.
  - cbn [feedsI] in H. subst A. unfold once_timed_run in E. cbn [win_run] in E. injection E as <- <-. cbn [concat]. rewrite app_nil_r. exact HP.
  - destruct H as (bn & Hb' & H). destruct (feedsI_prefix _ _ _ H) as [q Eq].
    assert (SA : dsorted (A ++ bn)) by (apply (dsorted_app_l _ q); rewrite <- Eq; exact DS).
    assert (ZA' : A ++ bn <> [] -> start (A ++ bn) = 0) by (intros N; apply (prefix_start0 _ q); [rewrite <- Eq; exact ZS|exact N]).
    assert (H0 : start (A ++ bn) = 0) by (destruct (A ++ bn) eqn:EA; [reflexivity|apply ZA'; discriminate]).
    destruct (once_update_step b e Hb Hbe He A st O bn c R SA H0 (batch_id_of _ _ _ Hb')) as (st1 & o & Eo & R1).
    unfold once_timed_run in E. cbn [win_run] in E. unfold once_timed_update in Eo. rewrite Eo in E.
    destruct (win_run ltb bot st1 xs) as [[st2 os2]|] eqn:Er; [|discriminate]. injection E as <- <-.
    cbn [concat]. rewrite app_assoc. apply (IH (A ++ bn) st1 (O ++ o) st2 os2 H R1); [|exact Er].
    intros NAb. destruct (once_update_last A st O bn c st1 o R SA H0 (batch_id_of _ _ _ Hb') Eo NAb) as [No Lo].
    split; [intros E0; apply app_eq_nil in E0 as [_ E0]; exact (No E0)|]. rewrite lastT_app by exact No. exact Lo.
Qed.

End BE.

Lemma once_stream_last rs0 b e xs S st outs S' : 0 <= b -> b <= e -> 0 < e ->
  feedsI [] xs S -> dsorted S -> (S <> [] -> start S = 0) ->
  once_timed_run (win_init rs0 b e) xs = Some (st, outs) -> feedsI [] outs S' -> dsorted S' ->
  S <> [] -> lastT S' = lastT S.
Proof.
  intros Hb Hbe He H DS ZS E Hf DS' NS.
  pose proof (once_run_last b e Hb Hbe He S DS ZS xs [] (win_init rs0 b e) [] st outs H (inv_init b e rs0) ltac:(intros N; congruence) E) as HP.
  cbn [app] in HP. destruct (HP NS) as [_ L]. pose proof (feedsI_concat outs S' Hf DS') as HS.
  rewrite <- L, <- !lastS_stamp, (sm_last _ _ HS). reflexivity.
Qed.

Lemma hist_stream_last b e xs S st outs S' : 0 <= b -> b <= e -> 0 < e ->
  feedsI [] xs S -> dsorted S -> (S <> [] -> start S = 0) ->
  hist_timed_run (hwin_init b e) xs = Some (st, outs) -> feedsI [] outs S' -> dsorted S' ->
  S <> [] -> lastT S' = lastT S.
Proof.
  intros Hb Hbe He H DS ZS E Hf DS' NS.
  pose proof (hist_once_run xs (hwin_init b e)) as Hd. rewrite E in Hd. cbn [option_map fst snd] in Hd.
  change (negst (hwin_init b e)) with (win_init RPosInf b e) in Hd.
  change (map (dmap neg) xs) with (map (gmap neg) xs) in Hd. change (map (dmap neg) outs) with (map (gmap neg) outs) in Hd.
  rewrite <- (lastT_gmap neg S'), <- (lastT_gmap neg S).
  apply (once_stream_last RPosInf b e (map (gmap neg) xs) (gmap neg S) (negst st) (map (gmap neg) outs) (gmap neg S') Hb Hbe He).
  - apply (feedsI_gmap neg xs [] S H).
  - apply (dsorted_same_stamps _ S (gmap_stamps neg S) DS).
  - intros N. rewrite start_gmap. apply ZS. intros E0. apply N. rewrite E0. reflexivity.
  - exact Hd.
  - apply (feedsI_gmap neg outs [] S' Hf).
  - apply (dsorted_same_stamps _ S' (gmap_stamps neg S') DS').
  - intros E0. apply NS. apply (gmap_nil neg). exact E0.
Qed.

End WinProg.
(* ================================================================== *)
(* PART C: streams of closed sub-formulas                              *)
(* ================================================================== *)
(* The stream ys of lists with stamps in tz returned by a sub-formula without variable: for every N large enough,
   reading +inf as N gives a stream of Z-stamped lists that delivers a signal S denoting F up to its last stamp;
   pr = true: moreover S reaches N (the stream reaches +inf). *)
Section Closed.
Context {VS : Val}.

Definition CGs (pr : bool) (ys : list esig) (F : Z -> V) : Prop :=
  exists N0, forall N, N0 <= N ->
    exists zs S, Forall2 (rlN N) ys zs /\ GoodS zs S F /\ (pr = true -> ys <> [] -> lastT S = N).

Lemma Forall2_length {A B} (R : A -> B -> Prop) l l' : Forall2 R l l' -> length l = length l'.
Proof. induction 1; cbn [length]; congruence. Qed.

Lemma CGs_ext pr ys F G : CGs pr ys F -> (forall t, F t = G t) -> CGs pr ys G.
Proof.
  intros [N0 H] E. exists N0. intros N HN. destruct (H N HN) as (zs & S & Hr & Go & Hp). exists zs, S. split; [exact Hr|].
  split; [|exact Hp]. apply (goodS_ext _ _ _ _ Go). intros t _ _. apply E.
Qed.

Lemma CGs_weaken pr pr' ys F : (pr' = true -> pr = true) -> CGs pr ys F -> CGs pr' ys F.
Proof.
  intros Hw [N0 H]. exists N0. intros N HN. destruct (H N HN) as (zs & S & Hr & Go & Hp). exists zs, S. split; [exact Hr|].
  split; [exact Go|]. intros P. apply Hp. apply Hw. exact P.
Qed.

Lemma goodS_nil_stream S F : GoodS [] S F -> S = [].
Proof. intros (H & _). cbn [feedsI] in H. symmetry. exact H. Qed.

Section Bin2.
Variables StE StZ : Type.
Variable RS : Z -> StE -> StZ -> Prop.
Variable updE : StE -> esig * esig -> option (StE * esig).
Variable updZ : StZ -> dsig * dsig -> option (StZ * dsig).
Variables (s0E : StE) (s0Z : StZ).
Hypothesis RS0 : forall N, RS N s0E s0Z.
Hypothesis Hrel : forall N st st' b b', RS N st st' -> rpair N b b' ->
  rel_res StE StZ esig dsig (RS N) (rlN N) (updE st b) (updZ st' b').
Variable Fo : (Z -> V) -> (Z -> V) -> Z -> V.
Variable prog : bool.          (* the operation returns everything up to the earlier of the two last stamps *)
Hypothesis HZ : forall xs ys S1 S2 F1 F2, length xs = length ys -> GoodS xs S1 F1 -> GoodS ys S2 F2 ->
  exists st outs S, run_g updZ s0Z (combine xs ys) = Some (st, outs) /\ length outs = length xs /\
                    GoodS outs S (Fo F1 F2) /\ lastT S <= Z.min (lastT S1) (lastT S2) /\
                    (prog = true -> lastT S = Z.min (lastT S1) (lastT S2)).

Lemma run2_rel N bs1 bs1' bs2 bs2' : Forall2 (rlN N) bs1 bs1' -> Forall2 (rlN N) bs2 bs2' ->
  rel_run StE StZ esig dsig (RS N) (rlN N) (run_g updE s0E (combine bs1 bs2)) (run_g updZ s0Z (combine bs1' bs2')).
Proof.
  intros H1 H2. apply (run_rel_g StE StZ (esig * esig)%type (dsig * dsig)%type esig dsig (RS N) (rpair N) (rlN N) updE updZ (Hrel N));
    [apply RS0|]. apply (Forall2_combine (rlN N) (rlN N) _ _ _ _ H1 H2).
Qed.

(* an open operand on the left, a closed one on the right *)
Lemma oc_r pr xs S1 F1 ys F2 : GoodS xs S1 F1 -> CGs pr ys F2 -> length ys = length xs ->
  exists st os S, run_g updE s0E (combine (map lift xs) ys) = Some (st, map lift os) /\
                  length os = length xs /\ GoodS os S (Fo F1 F2) /\ lastT S <= lastT S1 /\
                  (prog = true -> pr = true -> lastT S = lastT S1).
Proof.
  intros G1 [N0 HC] Hl. set (N := Z.max N0 (lastT S1 + 1)).
  destruct (HC N ltac:(unfold N; lia)) as (zs & S2 & Hr & G2 & Hp).
  pose proof (Forall2_length _ _ _ Hr) as Lz.
  destruct (HZ xs zs S1 S2 F1 F2 ltac:(congruence) G1 G2) as (st' & os & S & Er & Hlo & Go & Rg & Pg).
  pose proof (run2_rel N _ _ _ _ (lift_rel N F1 xs S1 G1 ltac:(unfold N; lia)) Hr) as Hrun.
  rewrite Er in Hrun. unfold rel_run in Hrun.
  destruct (run_g updE s0E (combine (map lift xs) ys)) as [[st ose]|]; [|contradiction].
  destruct Hrun as [_ Hos]. exists st, os, S. split; [|split; [exact Hlo|split; [exact Go|split; [lia|]]]].
  - f_equal. f_equal. apply (Forall2_lift_eq N ose os Hos). intros o a v Ho Hin.
    pose proof (goodS_stamps os S _ Go o a v Ho Hin). unfold N. lia.
  - intros P1 P2. destruct xs as [|x0 xs'] eqn:Exs.
    + destruct os; [|discriminate]. rewrite (goodS_nil_stream _ _ Go), (goodS_nil_stream _ _ G1). reflexivity.
    + rewrite (Pg P1), (Hp P2) by (destruct ys; [discriminate|discriminate]). unfold N. lia.
Qed.

Lemma oc_l pr ys S2 F2 xs F1 : GoodS ys S2 F2 -> CGs pr xs F1 -> length xs = length ys ->
  exists st os S, run_g updE s0E (combine xs (map lift ys)) = Some (st, map lift os) /\
                  length os = length ys /\ GoodS os S (Fo F1 F2) /\ lastT S <= lastT S2 /\
                  (prog = true -> pr = true -> lastT S = lastT S2).
Proof.
  intros G2 [N0 HC] Hl. set (N := Z.max N0 (lastT S2 + 1)).
  destruct (HC N ltac:(unfold N; lia)) as (zs & S1 & Hr & G1 & Hp).
  pose proof (Forall2_length _ _ _ Hr) as Lz.
  destruct (HZ zs ys S1 S2 F1 F2 ltac:(congruence) G1 G2) as (st' & os & S & Er & Hlo & Go & Rg & Pg).
  pose proof (run2_rel N _ _ _ _ Hr (lift_rel N F2 ys S2 G2 ltac:(unfold N; lia))) as Hrun.
  rewrite Er in Hrun. unfold rel_run in Hrun.
  destruct (run_g updE s0E (combine xs (map lift ys))) as [[st ose]|]; [|contradiction].
  destruct Hrun as [_ Hos]. exists st, os, S. split; [|split; [congruence|split; [exact Go|split; [lia|]]]].
  - f_equal. f_equal. apply (Forall2_lift_eq N ose os Hos). intros o a v Ho Hin.
    pose proof (goodS_stamps os S _ Go o a v Ho Hin). unfold N. lia.
  - intros P1 P2. destruct ys as [|y0 ys'] eqn:Eys.
    + destruct zs; [|destruct xs; discriminate]. destruct os; [|discriminate].
      rewrite (goodS_nil_stream _ _ Go), (goodS_nil_stream _ _ G2). reflexivity.
    + rewrite (Pg P1), (Hp P2) by (destruct xs; [discriminate|discriminate]). unfold N. lia.
Qed.

(* two open operands run on the tz instance *)
Lemma oo_e xs ys S1 S2 F1 F2 : GoodS xs S1 F1 -> GoodS ys S2 F2 -> length xs = length ys ->
  exists st os S, run_g updE s0E (combine (map lift xs) (map lift ys)) = Some (st, map lift os) /\
                  length os = length xs /\ GoodS os S (Fo F1 F2) /\ lastT S <= Z.min (lastT S1) (lastT S2).
Proof.
  intros G1 G2 Hl. set (N := Z.max (lastT S1) (lastT S2) + 1).
  destruct (HZ xs ys S1 S2 F1 F2 Hl G1 G2) as (st' & os & S & Er & Hlo & Go & Rg & _).
  pose proof (run2_rel N _ _ _ _ (lift_rel N F1 xs S1 G1 ltac:(unfold N; lia)) (lift_rel N F2 ys S2 G2 ltac:(unfold N; lia))) as Hrun.
  rewrite Er in Hrun. unfold rel_run in Hrun.
  destruct (run_g updE s0E (combine (map lift xs) (map lift ys))) as [[st ose]|]; [|contradiction].
  destruct Hrun as [_ Hos]. exists st, os, S. split; [|split; [exact Hlo|split; [exact Go|exact Rg]]].
  f_equal. f_equal. apply (Forall2_lift_eq N ose os Hos). intros o a v Ho Hin.
  pose proof (goodS_stamps os S _ Go o a v Ho Hin). unfold N. lia.
Qed.

(* two closed operands *)
Lemma cc pr1 pr2 ys1 ys2 F1 F2 : CGs pr1 ys1 F1 -> CGs pr2 ys2 F2 -> length ys1 = length ys2 ->
  exists st ys, run_g updE s0E (combine ys1 ys2) = Some (st, ys) /\ length ys = length ys1 /\
                CGs (prog && pr1 && pr2) ys (Fo F1 F2).
Proof.
  intros [N1 H1] [N2 H2] Hl.
  assert (Hall : forall N, Z.max N1 N2 <= N -> exists st' os S zs1 zs2,
            Forall2 (rlN N) ys1 zs1 /\ Forall2 (rlN N) ys2 zs2 /\
            run_g updZ s0Z (combine zs1 zs2) = Some (st', os) /\ GoodS os S (Fo F1 F2) /\
            (prog && pr1 && pr2 = true -> ys1 <> [] -> lastT S = N)).
  { intros N HN. destruct (H1 N ltac:(lia)) as (zs1 & S1 & Hr1 & G1 & P1). destruct (H2 N ltac:(lia)) as (zs2 & S2 & Hr2 & G2 & P2).
    pose proof (Forall2_length _ _ _ Hr1). pose proof (Forall2_length _ _ _ Hr2).
    destruct (HZ zs1 zs2 S1 S2 F1 F2 ltac:(congruence) G1 G2) as (st' & os & S & Er & _ & Go & _ & Pg).
    exists st', os, S, zs1, zs2. split; [exact Hr1|]. split; [exact Hr2|]. split; [exact Er|]. split; [exact Go|].
    intros Hp Ny. apply andb_prop in Hp as [Hp Hp2]. apply andb_prop in Hp as [Hp0 Hp1].
    rewrite (Pg Hp0), (P1 Hp1 Ny), (P2 Hp2) by (destruct ys1; [congruence|destruct ys2; discriminate]). lia. }
  destruct (Hall (Z.max N1 N2) ltac:(lia)) as (st0 & os0 & S0 & zs1 & zs2 & Hr1 & Hr2 & Er0 & _).
  pose proof (run2_rel _ _ _ _ _ Hr1 Hr2) as Hrun. rewrite Er0 in Hrun. unfold rel_run in Hrun.
  destruct (run_g updE s0E (combine ys1 ys2)) as [[st ys]|] eqn:Ee; [|contradiction].
  assert (Ely : length ys = length ys1).
  { rewrite (run_g_length _ _ _ _ _ _ _ _ Ee), combine_length, <- Hl. apply Nat.min_id. }
  exists st, ys. split; [reflexivity|]. split; [exact Ely|].
  exists (Z.max N1 N2). intros N HN. destruct (Hall N HN) as (st' & os & S & zs1' & zs2' & Hr1' & Hr2' & Er & Go & Pg).
  pose proof (run2_rel _ _ _ _ _ Hr1' Hr2') as Hrun'. rewrite Er, Ee in Hrun'. destruct Hrun' as [_ Hos].
  exists os, S. split; [exact Hos|]. split; [exact Go|]. intros Hp Ny. apply (Pg Hp).
  intros E. apply Ny. destruct ys; [reflexivity|]. rewrite E in Ely. discriminate.
Qed.

End Bin2.

Section Un1.
Variables StE StZ : Type.
Variable RS : Z -> StE -> StZ -> Prop.
Variable updE : StE -> esig -> option (StE * esig).
Variable updZ : StZ -> dsig -> option (StZ * dsig).
Variables (s0E : StE) (s0Z : StZ).
Hypothesis RS0 : forall N, RS N s0E s0Z.
Hypothesis Hrel : forall N st st' b b', RS N st st' -> rlN N b b' ->
  rel_res StE StZ esig dsig (RS N) (rlN N) (updE st b) (updZ st' b').
Variable Pre : Z -> (Z -> V) -> Prop.      (* what the operation needs of its operand up to a stamp *)
Variable Fo : (Z -> V) -> Z -> V.
Hypothesis HZ : forall xs S F, Pre (lastT S) F -> GoodS xs S F ->
  exists st outs S', run_g updZ s0Z xs = Some (st, outs) /\ length outs = length xs /\ GoodS outs S' (Fo F) /\
                     lastT S' = lastT S.

Lemma c1 pr ys F : (forall K, Pre K F) -> CGs pr ys F ->
  exists st ys', run_g updE s0E ys = Some (st, ys') /\ length ys' = length ys /\ CGs pr ys' (Fo F).
Proof.
  intros HP [N0 H].
  assert (Hall : forall N, N0 <= N -> exists st' os S zs, Forall2 (rlN N) ys zs /\
            run_g updZ s0Z zs = Some (st', os) /\ GoodS os S (Fo F) /\ (pr = true -> ys <> [] -> lastT S = N)).
  { intros N HN. destruct (H N HN) as (zs & S & Hr & G & Hp).
    destruct (HZ zs S F (HP _) G) as (st' & os & S' & Er & _ & Go & EL). exists st', os, S', zs.
    split; [exact Hr|]. split; [exact Er|]. split; [exact Go|]. intros P Ny. rewrite EL. apply Hp; assumption. }
  destruct (Hall N0 ltac:(lia)) as (st0 & os0 & S0 & zs & Hr & Er0 & _).
  pose proof (run_rel_g StE StZ esig dsig esig dsig (RS N0) (rlN N0) (rlN N0) updE updZ (Hrel N0) _ _ _ _ (RS0 N0) Hr) as Hrun.
  rewrite Er0 in Hrun. unfold rel_run in Hrun.
  destruct (run_g updE s0E ys) as [[st ys']|] eqn:Ee; [|contradiction].
  pose proof (run_g_length _ _ _ _ _ _ _ _ Ee) as Ely.
  exists st, ys'. split; [reflexivity|]. split; [exact Ely|].
  exists N0. intros N HN. destruct (Hall N HN) as (st' & os & S & zs' & Hr' & Er & Go & Pg).
  pose proof (run_rel_g StE StZ esig dsig esig dsig (RS N) (rlN N) (rlN N) updE updZ (Hrel N) _ _ _ _ (RS0 N) Hr') as Hrun'.
  rewrite Er, Ee in Hrun'. destruct Hrun' as [_ Hos]. exists os, S. split; [exact Hos|]. split; [exact Go|].
  intros P Ny. apply (Pg P). intros E. apply Ny. destruct ys'; [reflexivity|]. rewrite E in Ely. discriminate.
Qed.

End Un1.

End Closed.

(* ================================================================== *)
(* PART D: every operation in the two forms the monitor theorem uses   *)
(* ================================================================== *)
Section Ops.
Context {VS : Val} (AR : Arith VS).
Hypothesis SubNeg : forall l r, neg (a2 AR Sub l r) = a2 AR Sub r l.

Notation RSo := (fun N : Z => rst tz Z (Rn N)).

(* "the merge returns everything up to the earlier of the two last stamps" is claimed (PART H1) *)
Definition PROGM : bool := true.
Definition zlast (updZ : @ostate VS Z -> dsig * dsig -> option (@ostate VS Z * dsig)) : Prop :=
  forall S1 S2, dsorted S1 -> dsorted S2 -> (S1 <> [] -> start S1 = 0) -> (S2 <> [] -> start S2 = 0) ->
  forall xs ys st outs S, length xs = length ys -> feedsI [] xs S1 -> feedsI [] ys S2 ->
  run_g updZ ostate0 (combine xs ys) = Some (st, outs) -> feedsI [] outs S -> dsorted S ->
  lastT S = Z.min (lastT S1) (lastT S2).
Lemma zlast_bin fo : zlast (bin_upd2 fo).
Proof.
  intros S1 S2 D1 D2 Z1 Z2 xs ys st outs S Hl H1 H2 E Hf DS. rewrite <- bin_run_as_run_g in E.
  apply (bin_stream_last fo S1 S2 D1 D2 Z1 Z2 xs ys st outs S Hl H1 H2 E Hf DS).
Qed.
Lemma zlast_mul fo : zlast (mul_upd2 fo).
Proof.
  intros S1 S2 D1 D2 Z1 Z2 xs ys st outs S Hl H1 H2 E Hf DS.
  apply (mul_stream_last fo S1 S2 D1 D2 Z1 Z2 xs ys st outs S Hl H1 H2 E Hf DS).
Qed.

(* ---------------- through intersection() ---------------- *)
Lemma gz_of_zstream fo updZ : zstream fo updZ -> zlast updZ ->
  forall xs ys S1 S2 F1 F2, length xs = length ys -> GoodS xs S1 F1 -> GoodS ys S2 F2 ->
  exists st outs S, run_g updZ ostate0 (combine xs ys) = Some (st, outs) /\ length outs = length xs /\
                    GoodS outs S (fun t => fo (F1 t) (F2 t)) /\ lastT S <= Z.min (lastT S1) (lastT S2) /\
                    (PROGM = true -> lastT S = Z.min (lastT S1) (lastT S2)).
Proof.
  intros HZ HL xs ys S1 S2 F1 F2 Hl G1 G2. pose proof G1 as (Hf1 & D1 & Z1 & _). pose proof G2 as (Hf2 & D2 & Z2 & _).
  destruct (HZ S1 S2 D1 D2 Z1 Z2 xs ys F1 F2 Hl G1 G2) as (st & os & S & Er & Hlo & Go & Rg).
  exists st, os, S. split; [exact Er|]. split; [exact Hlo|]. split; [exact Go|]. split;
    [|intros _; destruct Go as (Hfo & DSo & _); apply (HL S1 S2 D1 D2 Z1 Z2 xs ys st os S Hl Hf1 Hf2 Er Hfo DSo)].
  destruct S as [|x l] eqn:ES; [|apply Rg; discriminate].
  pose proof (goodS_nonneg _ _ _ G1). pose proof (goodS_nonneg _ _ _ G2). change (lastT (@nil (Z * V))) with 0. lia.
Qed.

Lemma rel_of_rupd updE updZ : rupd updE updZ ->
  forall N st st' b b', rst tz Z (Rn N) st st' -> rpair N b b' ->
  rel_res (@ostate VS tz) (@ostate VS Z) esig dsig (rst tz Z (Rn N)) (rlN N) (updE st b) (updZ st' b').
Proof. intros H N st st' b b' Hs Hb. exact (H N st st' b b' Hs Hb). Qed.

(* ---------------- the predicate, every kind ---------------- *)
(* what is returned for a sample d of the difference *)
Definition pval (k : pkind) (c : cmp) (d : V) : V :=
  match k with
  | PStd => pred_of_diff AR c d
  | PBool => if sat_online AR c d then top else bot
  | PVac => azero AR
  end.
Definition ia_out (T : Type) (k : pkind) (c : cmp) (il : list (T * V)) : list (T * V) :=
  match k with
  | PStd => map (fun i => (fst i, pval PStd c (snd i))) il
  | _ => kscan (pred_of_diff AR c) (pval k c) T None il
  end.

Lemma sat_scan_kscan T c (g : bool -> V) : forall il prev,
  map (fun q : T * bool => (fst q, g (snd q))) (sat_scan AR T c prev il) =
  kscan (pred_of_diff AR c) (fun x => g (sat_online AR c x)) T prev il.
Proof.
  induction il as [|[t x] rest IH]; intros prev; [reflexivity|]. cbn [sat_scan kscan]. rewrite map_app, IH.
  destruct (_ || _); reflexivity.
Qed.

Lemma pred_ia_eq T lt eq k c st l r :
  pred_update_ia AR T lt eq k c st l r =
  match bin_update_g T lt eq (a2 AR Sub) (p_sub st) l r with
  | None => None
  | Some (sub', il) => Some ({| p_sub := sub'; p_subout := il |}, ia_out T k c il)
  end.
Proof.
  unfold pred_update_ia, pred_update_g. destruct (bin_update_g T lt eq (a2 AR Sub) (p_sub st) l r) as [[sub' il]|]; [|reflexivity].
  cbn [p_subout]. destruct k; cbn [ia_out].
  - reflexivity.
  - rewrite (sat_scan_kscan T c (fun b : bool => if b then top else bot)). reflexivity.
  - rewrite (sat_scan_kscan T c (fun _ : bool => azero AR)). reflexivity.
Qed.

Definition predZ k c (s : @pstate VS Z) (xy : dsig * dsig) := pred_update_ia AR Z Z.ltb Z.eqb k c s (fst xy) (snd xy).
Definition predE k c (s : @pstate VS tz) (xy : esig * esig) := pred_update_ia AR tz tlt teq k c s (fst xy) (snd xy).

Lemma pred_run_k k c : forall bs st so st' os,
  bin_run (a2 AR Sub) st bs = Some (st', os) ->
  exists so', run_g (predZ k c) {| p_sub := st; p_subout := so |} bs =
              Some ({| p_sub := st'; p_subout := so' |}, map (ia_out Z k c) os).
Proof.
  unfold bin_run. induction bs as [|[b1 b2] bs IH]; intros st so st' os H; cbn [bin_run_g run_g] in *.
  - injection H as <- <-. exists so. reflexivity.
  - unfold predZ at 1. rewrite pred_ia_eq. cbn [fst snd p_sub].
    destruct (bin_update_g Z Z.ltb Z.eqb (a2 AR Sub) st b1 b2) as [[st1 o]|]; [|discriminate].
    destruct (bin_run_g Z Z.ltb Z.eqb (a2 AR Sub) st1 bs) as [[st2 os2]|] eqn:E; [|discriminate]. injection H as <- <-.
    destruct (IH st1 o st2 os2 E) as (so' & E'). rewrite E'. exists so'. reflexivity.
Qed.

Lemma sat_online_rob (DL : DiffLaws AR) c d : sat_online AR c d = sat_of_rob AR c (pred_of_diff AR c d).
Proof.
  rewrite <- (sat_rob AR DL). destruct c; cbn [sat_online sat_of_diff]; try reflexivity.
  unfold ltb. rewrite <- (dl_abs_zero AR DL d). unfold veqb. rewrite (dl_abs_nonneg AR DL), andb_true_r. reflexivity.
Qed.

Lemma pval_key k c (HD : k = PStd \/ DiffLaws AR) x y : pred_of_diff AR c x = pred_of_diff AR c y -> pval k c x = pval k c y.
Proof.
  intros E. destruct k; cbn [pval]; [exact E| |reflexivity]. destruct HD as [HD|DL]; [discriminate|].
  rewrite !(sat_online_rob DL), E. reflexivity.
Qed.

Lemma pval_sem k c (HD : k = PStd \/ DiffLaws AR) l r : pval k c (a2 AR Sub l r) = pred_val AR k c l r.
Proof.
  destruct k; cbn [pval pred_val]; [apply (pred_of_diff_sub AR SubNeg)| |reflexivity].
  destruct HD as [HD|DL]; [discriminate|].
  assert (E : sat_online AR c (a2 AR Sub l r) = pred_sat c l r); [|rewrite E; reflexivity].
  destruct c; cbn [sat_online pred_sat]; unfold ltb, veqb;
    rewrite ?(dl_sub_le AR DL), ?(dl_sub_ge AR DL); reflexivity.
Qed.

Lemma pred_gz k c (HD : k = PStd \/ DiffLaws AR) : forall xs ys S1 S2 F1 F2, length xs = length ys -> GoodS xs S1 F1 -> GoodS ys S2 F2 ->
  exists st outs S, run_g (predZ k c) pred_init (combine xs ys) = Some (st, outs) /\ length outs = length xs /\
                    GoodS outs S (fun t => pval k c (a2 AR Sub (F1 t) (F2 t))) /\ lastT S <= Z.min (lastT S1) (lastT S2) /\
                    (PROGM = true -> lastT S = Z.min (lastT S1) (lastT S2)).
Proof.
  intros xs ys S1 S2 F1 F2 Hl G1 G2.
  destruct (gz_of_zstream (a2 AR Sub) _ (zstream_bin _) (zlast_bin _) xs ys S1 S2 F1 F2 Hl G1 G2) as (st & os & S & Er & Hlo & Go & Rg & Pg).
  rewrite <- bin_run_as_run_g in Er. destruct (pred_run_k k c _ ostate0 [] st os Er) as (so' & Ep).
  assert (Hk : exists S', GoodS (map (ia_out Z k c) os) S' (fun t => pval k c (a2 AR Sub (F1 t) (F2 t))) /\ lastT S' = lastT S).
  { destruct k.
    - exists (gmap (pval PStd c) S). split; [apply (goodS_gmap (pval PStd c) os S _ Go)|apply lastT_gmap].
    - apply (kscan_good (pred_of_diff AR c) (pval PBool c) (pval_key PBool c HD) os S _ Go).
    - apply (kscan_good (pred_of_diff AR c) (pval PVac c) (pval_key PVac c HD) os S _ Go). }
  destruct Hk as (S' & Gk & EL). eexists. exists (map (ia_out Z k c) os), S'.
  split; [exact Ep|]. split; [rewrite map_length; exact Hlo|]. split; [exact Gk|]. split; [lia|].
  intros P. rewrite EL. apply Pg. exact P.
Qed.

Definition rsP (N : Z) (s : @pstate VS tz) (s' : @pstate VS Z) : Prop := rst tz Z (Rn N) (p_sub s) (p_sub s').

Lemma pred_rel k c N st st' b b' : rsP N st st' -> rpair N b b' ->
  rel_res _ _ esig dsig (rsP N) (rlN N) (predE k c st b) (predZ k c st' b').
Proof.
  intros Hs [H1 H2]. unfold predE, predZ. rewrite !pred_ia_eq.
  pose proof (bin_update_rel tz Z tlt teq Z.ltb Z.eqb (Rn N) (Rn_lt N) (Rn_eq N) (a2 AR Sub) _ _ _ _ _ _ Hs H1 H2) as Hb.
  destruct (bin_update_g tz tlt teq (a2 AR Sub) (p_sub st) (fst b) (snd b)) as [[s1 o]|];
  destruct (bin_update_g Z Z.ltb Z.eqb (a2 AR Sub) (p_sub st') (fst b') (snd b')) as [[s1' o']|]; try contradiction; [|exact I].
  destruct Hb as [Hs1 Ho]. cbn [rel_res]. split; [exact Hs1|].
  destruct k; cbn [ia_out]; [apply map_rel; exact Ho|apply kscan_rel; exact Ho|apply kscan_rel; exact Ho].
Qed.

(* ---------------- since ---------------- *)
Definition rsS (N : Z) : @sstate VS tz -> @sstate VS Z -> Prop := rsst tz Z (Rn N).

Lemma since_gz : forall xs ys S1 S2 F1 F2, length xs = length ys -> GoodS xs S1 F1 -> GoodS ys S2 F2 ->
  exists st outs S, run_g since_upd since_init (combine xs ys) = Some (st, outs) /\ length outs = length xs /\
                    GoodS outs S (fun t => Sv F1 F2 0 t) /\ lastT S <= Z.min (lastT S1) (lastT S2) /\
                    (false = true -> lastT S = Z.min (lastT S1) (lastT S2)).
Proof.
  intros xs ys S1 S2 F1 F2 Hl G1 G2. destruct (since_stream xs ys S1 S2 F1 F2 Hl G1 G2) as (st & os & S & A1 & A2 & A3 & A4).
  exists st, os, S. split; [exact A1|]. split; [exact A2|]. split; [exact A3|]. split; [exact A4|discriminate].
Qed.

Lemma since_rel N st st' b b' : rsS N st st' -> rpair N b b' ->
  rel_res _ _ esig dsig (rsS N) (rlN N) (since_upd_e st b) (since_upd st' b').
Proof.
  intros Hs [H1 H2]. destruct b as [b1 b2], b' as [b1' b2']. cbn [fst snd] in *. unfold since_upd_e, since_upd.
  exact (since_update_rel tz Z tlt Z.ltb (Rn N) (Rn_lt N) st st' b1 b1' b2 b2' Hs H1 H2).
Qed.

Lemma rsS0 N : rsS N since_init since_init.
Proof. split; [constructor|]. split; [constructor|]. split; [reflexivity|exact I]. Qed.
Lemma rsP0 N : rsP N pred_init pred_init.
Proof. apply rst0. Qed.

(* ---------------- point-wise unary operations ---------------- *)
Definition rsU (N : Z) (_ _ : unit) : Prop := True.

Lemma unary_rel f N st st' b b' : rsU N st st' -> rlN N b b' ->
  rel_res _ _ esig dsig (rsU N) (rlN N) (unary_upd_e f st b) (unary_upd f st' b').
Proof.
  intros _ Hb. unfold unary_upd_e, unary_upd, unary_update.
  pose proof (unary_loop_rel tz Z (Rn N) f b b' Hb) as H.
  destruct (unary_loop tz f b) as [o|]; destruct (unary_loop Z f b') as [o'|]; try contradiction; [|exact I].
  split; [exact I|exact H].
Qed.

Lemma goodS_values os S F : GoodS os S F -> forall a v, In (a, v) S -> 0 <= a <= lastT S /\ v = F a.
Proof.
  intros (_ & DS & ZS & HV) a v Hin. assert (NS : S <> []) by (intros E; rewrite E in Hin; destruct Hin).
  pose proof (dsorted_le_last S DS a v Hin) as Hle. pose proof (start_le_in S a v DS Hin) as Hge. rewrite (ZS NS) in Hge.
  split; [lia|]. pose proof (HV a NS ltac:(lia)) as E.
  assert (E2 : den_opt S a = Some v); [|congruence].
  clear - DS Hin. induction S as [|[b w] r IH]; [destruct Hin|]. rewrite den_opt_cons. destruct Hin as [E|Hin].
  - injection E as -> ->. rewrite Z.leb_refl. rewrite den_opt_before; [reflexivity|].
    intros a' v' Hin'. pose proof (dsorted_lb _ _ _ DS a' v' Hin'). lia.
  - pose proof (dsorted_lb _ _ _ DS a v Hin). destruct (Z.leb_spec b a); [|lia]. rewrite (IH (dsorted_tl _ _ DS) Hin). reflexivity.
Qed.

Lemma unary_gz f g xs S F : (forall t, 0 <= t <= lastT S -> f (F t) = Some (g (F t))) -> GoodS xs S F ->
  exists st outs S', run_g (unary_upd f) tt xs = Some (st, outs) /\ length outs = length xs /\
                     GoodS outs S' (fun t => g (F t)) /\ lastT S' = lastT S.
Proof.
  intros Hf G. exists tt, (map (gmap g) xs), (gmap g S). split; [|split; [apply map_length|split; [apply goodS_gmap; exact G|apply lastT_gmap]]].
  apply (unary_run_total f g xs). intros a v Hin. apply in_concat in Hin as (c & Hc & Hin).
  pose proof G as (Hfe & _). pose proof (feedsI_in xs [] S Hfe c (a, v) Hc Hin) as HS.
  destruct (goodS_values xs S F G a v HS) as [Hr ->]. apply Hf. exact Hr.
Qed.

(* ---------------- once / historically ---------------- *)
Definition rsF (N : Z) (s s' : @fstate VS) : Prop := s = s'.

Lemma fold_rel g N st st' b b' : rsF N st st' -> rlN N b b' ->
  rel_res _ _ esig dsig (rsF N) (rlN N) (fold_update tz g st b) (fold_update Z g st' b').
Proof.
  intros <- Hb. unfold fold_update. destruct (fold_loop_rel tz Z (Rn N) g b b' Hb (fprev st)) as [E Ho].
  destruct (fold_loop tz g (fprev st) b) as [p1 o1]. destruct (fold_loop Z g (fprev st) b') as [p2 o2]. cbn [fst snd] in *.
  subst p2. split; [reflexivity|exact Ho].
Qed.

End Ops.

(* ================================================================== *)
(* PART D2: once[b,e] / historically[b,e] of a constant                *)
(* ================================================================== *)
Section WinConst.
Context {VS : Val}.
Variable lt : V -> V -> bool.
Variables (pad c : V).
Hypothesis Hlt : lt c c = false.

Lemma push1 b : 0 < b -> push_piece_e lt [(T 0, T b, pad)] (T b, TInf, c) = Some [(T b, TInf, c); (T 0, T b, pad)].
Proof.
  intros Hb. cbn [push_piece_e pop_dominated_e eps epe epv fst snd tlt].
  replace (b <? 0) with false by lia. rewrite andb_false_r.
  unfold intersects_e, tle. cbn [tlt eps epe epv fst snd negb andb]. rewrite Z.ltb_irrefl. cbn [negb andb].
  replace (0 <? b) with true by lia. cbn [app]. destruct (negb (lt pad c)); reflexivity.
Qed.

Lemma push2 s r : push_piece_e lt ((T s, TInf, c) :: r) (TInf, TInf, c) = Some ((TInf, TInf, c) :: (T s, TInf, c) :: r).
Proof.
  cbn [push_piece_e pop_dominated_e eps epe epv fst snd tlt]. rewrite andb_false_r.
  unfold intersects_e, tle. cbn [tlt eps epe epv fst snd negb andb]. rewrite Hlt. reflexivity.
Qed.

Lemma push0 (x : epiece) : push_piece_e lt [] x = Some [x].
Proof. reflexivity. Qed.

(* what the first update returns; nothing afterwards *)
Definition wfirst (b : Z) : esig :=
  if 0 <? b then (T 0, pad) :: (if veq c pad then [] else [(T b, c)]) ++ [(TInf, c)] else [(T 0, c); (TInf, c)].
Definition wfirstZ (b N : Z) : dsig :=
  if 0 <? b then (0, pad) :: (if veq c pad then [] else [(b, c)]) ++ [(N, c)] else [(0, c); (N, c)].
Definition wst (b e : Z) : @wstate_e VS := {| we_prev := []; we_rs := ET TInf; we_started := true; we_begin := b; we_end := e |}.

Lemma veq_refl (x : V) : veq x x = true.
Proof. unfold veq. destruct (Online.v_eq_dec x x); congruence. Qed.

Lemma win_e_first rs0 b e : 0 <= b ->
  win_update_e lt pad (win_init_e rs0 b e) [(T 0, c); (TInf, c)] = Some (wst b e, wfirst b).
Proof.
  intros Hb. unfold win_update_e.
  cbn [we_begin we_end we_prev we_rs we_started win_init_e drop_repeat_e andb new_rs_e rev app extend_last_e add_pad_e teq Z.eqb negb win_pieces_e tadd].
  rewrite Z.add_0_l. unfold push_all_e, wfirst. destruct (0 <? b) eqn:E0.
  - cbn [andb fold_left obind]. rewrite push1 by lia. cbn [obind]. rewrite (push2 b [(T 0, T b, pad)]).
    cbn [rev app scan_e ers_geb epe epv eps fst snd]. unfold tle. cbn [tlt negb orb]. rewrite veq_refl. cbn [negb orb].
    destruct (veq c pad); cbn [negb app add_last_e rev fst snd tlt orb]; reflexivity.
  - assert (b = 0) by lia. subst b. cbn [andb fold_left obind]. rewrite push0. cbn [obind].
    match goal with |- context [push_piece_e lt ?l ?x] => rewrite (push2 0 [] : push_piece_e lt l x = _) end.
    cbn [rev app scan_e ers_geb epe epv eps fst snd]. unfold tle. cbn [tlt negb orb]. rewrite veq_refl. cbn [negb orb app add_last_e rev fst snd tlt].
    reflexivity.
Qed.

Lemma win_e_later b e : win_update_e lt pad (wst b e) [] = Some (wst b e, []).
Proof. reflexivity. Qed.

Definition wstream_e (b : Z) (n : nat) : list esig := match n with O => [] | S m => wfirst b :: repeat [] m end.
Definition wstream_z (b N : Z) (n : nat) : list dsig := match n with O => [] | S m => wfirstZ b N :: repeat [] m end.

Lemma win_e_run rs0 b e n : 0 <= b ->
  exists st, run_g (win_update_e lt pad) (win_init_e rs0 b e) (cstream_e c n) = Some (st, wstream_e b n).
Proof.
  intros Hb. destruct n as [|m]; [eexists; reflexivity|]. cbn [cstream_e run_g wstream_e]. rewrite (win_e_first rs0 b e Hb).
  exists (wst b e). assert (E : run_g (win_update_e lt pad) (wst b e) (repeat [] m) = Some (wst b e, repeat [] m)).
  { induction m as [|m IH]; [reflexivity|]. cbn [repeat run_g]. rewrite win_e_later, IH. reflexivity. }
  rewrite E. reflexivity.
Qed.

Lemma wstream_rel b N n : 0 <= b < N -> Forall2 (rlN N) (wstream_e b n) (wstream_z b N n).
Proof.
  intros HN. destruct n as [|m]; [constructor|]. cbn [wstream_e wstream_z]. constructor.
  - unfold wfirst, wfirstZ. destruct (0 <? b) eqn:E0.
    + constructor; [split; [cbn [fst Rn]; lia|reflexivity]|]. destruct (veq c pad); cbn [app].
      * constructor; [split; reflexivity|constructor].
      * constructor; [split; [cbn [fst Rn]; lia|reflexivity]|]. constructor; [split; reflexivity|constructor].
    + constructor; [split; [cbn [fst Rn]; lia|reflexivity]|]. constructor; [split; reflexivity|constructor].
  - induction m as [|m IH]; cbn [repeat]; constructor; [constructor|exact IH].
Qed.

Lemma goodS_oneshot (S : dsig) m F : dsorted S -> (S <> [] -> start S = 0) ->
  (forall t, S <> [] -> 0 <= t <= lastT S -> den_opt S t = Some (F t)) -> GoodS (S :: repeat [] m) S F.
Proof.
  intros D Z0 HV. split; [|split; [exact D|split; [exact Z0|exact HV]]].
  cbn [feedsI]. exists S. split; [constructor|]. cbn [app].
  induction m as [|m IH]; [reflexivity|]. cbn [repeat feedsI]. exists []. split; [constructor|]. rewrite app_nil_r. exact IH.
Qed.

(* the signal denoted: pad before b, c from b on *)
Lemma wfirstZ_good b N m : 0 <= b < N ->
  GoodS (wstream_z b N (S m)) (wfirstZ b N) (fun t => if t - b <? 0 then pad else c) /\ lastT (wfirstZ b N) = N.
Proof.
  intros HN. unfold wstream_z, wfirstZ. destruct (0 <? b) eqn:E0.
  - destruct (veq c pad) eqn:Ev; cbn [app].
    + apply veq_true in Ev. subst pad. split; [|reflexivity]. apply goodS_oneshot.
      * cbn [dsorted]. repeat split; lia.
      * reflexivity.
      * intros t _ Ht. change (lastT [(0, c); (N, c)]) with N in Ht. rewrite !den_opt_cons. cbn [den_opt].
        destruct (0 <=? t) eqn:E1; [|lia]. destruct (t - b <? 0); destruct (N <=? t); reflexivity.
    + split; [|reflexivity]. apply goodS_oneshot.
      * cbn [dsorted]. repeat split; lia.
      * reflexivity.
      * intros t _ Ht. change (lastT [(0, pad); (b, c); (N, c)]) with N in Ht. rewrite !den_opt_cons. cbn [den_opt].
        destruct (0 <=? t) eqn:E1; [|lia]. destruct (b <=? t) eqn:E2.
        -- replace (t - b <? 0) with false by lia. destruct (N <=? t); reflexivity.
        -- replace (t - b <? 0) with true by lia. reflexivity.
  - split; [|reflexivity]. apply goodS_oneshot.
    + cbn [dsorted]. repeat split; lia.
    + reflexivity.
    + intros t _ Ht. change (lastT [(0, c); (N, c)]) with N in Ht. rewrite !den_opt_cons. cbn [den_opt].
      destruct (0 <=? t) eqn:E1; [|lia]. replace (t - b <? 0) with false by lia. destruct (N <=? t); reflexivity.
Qed.

End WinConst.

(* ================================================================== *)
(* PART D3: the bounded operations of the tz instance on finite lists  *)
(* ================================================================== *)
(* win_update_e on a list of finite stamps does what win_update does (when the latter does not raise) *)
Section WinLift.
Context {VS : Val}.

Definition lp (p : piece) : epiece := (T (ps p), pe p, pv p).
Definition lrs (r : rstamp) : erstamp := match r with RNegInf => ENeg | RFin z => ET (T z) | RPosInf => ET TInf end.
Definition lst (s : @wstate VS) : @wstate_e VS :=
  {| we_prev := map lp (w_prev s); we_rs := lrs (w_rs s); we_started := w_started s; we_begin := w_begin s; we_end := w_end s |}.
Definition lsm (x : Z * V) : tz * V := (T (fst x), snd x).

Lemma lift_cons a v (s : dsig) : lift ((a, v) :: s) = (T a, v) :: lift s.
Proof. reflexivity. Qed.
Lemma lift_rev (s : dsig) : rev (lift s) = lift (rev s).
Proof. unfold lift. symmetry. apply map_rev. Qed.
Lemma lift_app (a b : dsig) : lift (a ++ b) = lift a ++ lift b.
Proof. unfold lift. apply map_app. Qed.

Lemma drop_repeat_lift st (x : dsig) : drop_repeat_e (lst st) (lift x) = lift (drop_repeat st x).
Proof.
  destruct x as [|[t0 v0] rest]; [reflexivity|]. rewrite lift_cons. cbn [drop_repeat_e drop_repeat lst we_started we_rs].
  assert (E : ers_eqb (T t0) (lrs (w_rs st)) = rs_eqb t0 (w_rs st)) by (destruct (w_rs st); reflexivity).
  rewrite E. destruct (w_started st && rs_eqb t0 (w_rs st)); reflexivity.
Qed.

Lemma new_rs_lift old (s : dsig) : new_rs_e (lrs old) (lift s) = lrs (new_rs old s).
Proof.
  unfold new_rs_e, new_rs. rewrite lift_rev. destruct (rev s) as [|[tn vn] q]; reflexivity.
Qed.

Lemma extend_last_lift out (s : dsig) e : extend_last_e (map lp out) (lift s) e = map lp (extend_last out s e).
Proof. destruct s as [|[t0 v0] rest]; [destruct out; reflexivity|]. destruct out as [|q r]; reflexivity. Qed.

Lemma add_pad_lift pad started out (s : dsig) b : add_pad_e pad started (map lp out) (lift s) b = map lp (add_pad pad started out s b).
Proof.
  destruct s as [|[t0 v0] rest]; [reflexivity|]. rewrite lift_cons. cbn [add_pad_e add_pad teq].
  destruct ((t0 =? 0) && (0 <? b) && negb started); reflexivity.
Qed.

Lemma win_pieces_lift : forall (s : dsig) b e, win_pieces_e (lift s) b e = map lp (win_pieces s b e).
Proof.
  induction s as [|[t v] r IH]; intros b e; [reflexivity|]. rewrite lift_cons. cbn [win_pieces_e win_pieces map].
  rewrite IH. f_equal. destruct r as [|[t' v'] r']; reflexivity.
Qed.

Lemma pop_dominated_lift lt : forall out b, pop_dominated_e lt (map lp out) (lp b) = option_map (map lp) (pop_dominated lt out b).
Proof.
  induction out as [|a r IH]; intros b; [reflexivity|]. cbn [map pop_dominated_e pop_dominated].
  change (epv (lp a)) with (pv a). change (epv (lp b)) with (pv b). change (tlt (eps (lp b)) (eps (lp a))) with (ps b <? ps a).
  destruct (lt (pv a) (pv b) && (ps b <? ps a)); [apply IH|reflexivity].
Qed.

Lemma push_piece_lift lt out b out' : push_piece lt out b = Some out' -> push_piece_e lt (map lp out) (lp b) = Some (map lp out').
Proof.
  destruct out as [|a0 r0]; [intros H; injection H as <-; reflexivity|].
  unfold push_piece, push_piece_e. change (map lp (a0 :: r0)) with (lp a0 :: map lp r0).
  change (lp a0 :: map lp r0) with (map lp (a0 :: r0)). rewrite pop_dominated_lift.
  destruct (pop_dominated lt (a0 :: r0) b) as [[|a r]|]; cbn [option_map map]; try discriminate.
  change (intersects_e (eps (lp a)) (epe (lp a)) (eps (lp b)) (epe (lp b))) with (intersects (ps a) (pe a) (ps b) (pe b)).
  change (epv (lp a)) with (pv a). change (epv (lp b)) with (pv b).
  destruct (negb (intersects (ps a) (pe a) (ps b) (pe b))); [intros H; injection H as <-; reflexivity|].
  destruct (negb (lt (pv a) (pv b))).
  - change (epe (lp a)) with (pe a). destruct (pe a) as [ae|]; [|discriminate]. intros H. injection H as <-. reflexivity.
  - intros H. injection H as <-. change (tlt (eps (lp a)) (eps (lp b))) with (ps a <? ps b).
    cbn [map]. rewrite map_app. destruct (ps a <? ps b); reflexivity.
Qed.

Lemma push_all_e_none lt : forall l, fold_left (fun acc p => obind acc (fun out => push_piece_e lt out p)) l None = None.
Proof. induction l as [|p l IH]; [reflexivity|]. cbn [fold_left obind]. exact IH. Qed.
Lemma push_all_none lt : forall l, fold_left (fun acc p => obind acc (fun out => push_piece lt out p)) l None = None.
Proof. induction l as [|p l IH]; [reflexivity|]. cbn [fold_left obind]. exact IH. Qed.

Lemma push_all_lift lt : forall l init out, push_all lt init l = Some out -> push_all_e lt (map lp init) (map lp l) = Some (map lp out).
Proof.
  unfold push_all, push_all_e. induction l as [|p l IH]; intros init out H; cbn [fold_left map obind] in *.
  - injection H as <-. reflexivity.
  - destruct (push_piece lt init p) as [o1|] eqn:E1; [|rewrite push_all_none in H; discriminate].
    rewrite (push_piece_lift lt init p o1 E1). apply IH. exact H.
Qed.

Definition lla (x : option (Z * V)) : option (tz * V) := option_map lsm x.

Lemma rs_geb_lift rs x : ers_geb (lrs rs) x = rs_geb rs x.
Proof. destruct rs as [|z|]; destruct x as [y|]; cbn [ers_geb lrs rs_geb]; unfold tle; cbn [tlt negb]; try reflexivity. lia. Qed.
Lemma rs_in_lift rs lo hi : ers_in (lrs rs) (T lo) hi = rs_in rs lo hi.
Proof. destruct rs as [|z|]; cbn [ers_in lrs rs_in]; unfold tle; cbn [tlt negb]; try reflexivity. f_equal. lia. Qed.

Lemma scan_lift rs : forall l pv0,
  scan_e (lrs rs) (map lp l) pv0 = let '(res, last, np) := scan rs l pv0 in (lift res, lla last, map lp np).
Proof.
  induction l as [|b l' IH]; intros pv0; [reflexivity|]. cbn [map scan_e scan].
  change (epv (lp b)) with (pv b). change (epe (lp b)) with (pe b). change (eps (lp b)) with (T (ps b)). rewrite (IH (Some (pv b))).
  assert (El : match map lp l' with [] => true | _ => false end = match l' with [] => true | _ => false end) by (destruct l'; reflexivity).
  rewrite El, rs_geb_lift, rs_in_lift.
  destruct (scan rs l' (Some (pv b))) as [[res' last'] np'].
  set (emit := (match pv0 with Some p => negb (veq (pv b) p) | None => true end) || match l' with [] => true | _ => false end).
  destruct (rs_geb rs (pe b)) eqn:E1.
  - rewrite lift_app. destruct emit; destruct last'; reflexivity.
  - destruct (rs_in rs (ps b) (pe b)) eqn:E2; [|reflexivity].
    destruct rs as [|z|]; cbn [lrs]; try (cbn [rs_in] in E2; discriminate).
    assert (E3 : rs_geb (RFin z) (T (ps b)) = true) by (cbn [rs_in rs_geb] in *; lia). rewrite E3.
    rewrite lift_app. destruct emit; destruct last'; reflexivity.
Qed.

Lemma add_last_lift res last : add_last_e (lift res) (lla last) = lift (add_last res last).
Proof.
  unfold add_last_e, add_last. destruct last as [[tl vl]|]; [|reflexivity]. cbn [lla option_map lsm fst snd].
  rewrite lift_rev. destruct (rev res) as [|[tr vr] q]; [reflexivity|]. rewrite lift_cons. cbn [tlt fst].
  destruct (tr <? tl); [|reflexivity]. rewrite lift_app. reflexivity.
Qed.

Lemma win_e_lift lt pad st x st' o :
  win_update lt pad st x = Some (st', o) -> win_update_e lt pad (lst st) (lift x) = Some (lst st', lift o).
Proof.
  unfold win_update, win_update_e. change (we_begin (lst st)) with (w_begin st). change (we_end (lst st)) with (w_end st).
  change (we_rs (lst st)) with (lrs (w_rs st)). change (we_started (lst st)) with (w_started st).
  change (we_prev (lst st)) with (map lp (w_prev st)).
  rewrite drop_repeat_lift, new_rs_lift, <- map_rev, extend_last_lift, add_pad_lift, win_pieces_lift.
  destruct (push_all lt _ _) as [out|] eqn:Ep; [|discriminate].
  rewrite (push_all_lift lt _ _ _ Ep). rewrite <- map_rev, scan_lift.
  destruct (scan (new_rs (w_rs st) (drop_repeat st x)) (rev out) None) as [[res last] np].
  intros H. injection H as <- <-. rewrite add_last_lift. f_equal. f_equal. unfold lst. cbn [w_prev w_rs w_started w_begin w_end].
  f_equal. destruct (drop_repeat st x); reflexivity.
Qed.

Lemma win_e_lift_run lt pad : forall xs st st' os,
  run_g (win_update lt pad) st xs = Some (st', os) ->
  run_g (win_update_e lt pad) (lst st) (map lift xs) = Some (lst st', map lift os).
Proof.
  induction xs as [|x xs IH]; intros st st' os H; cbn [run_g map] in *.
  - injection H as <- <-. reflexivity.
  - destruct (win_update lt pad st x) as [[st1 o]|] eqn:E1; [|discriminate].
    destruct (run_g (win_update lt pad) st1 xs) as [[st2 os2]|] eqn:E2; [|discriminate]. injection H as <- <-.
    rewrite (win_e_lift lt pad st x st1 o E1), (IH st1 st2 os2 E2). reflexivity.
Qed.

End WinLift.

(* since[b,e]: a run of the operation is the composition of the runs of its four parts (any stamp type) *)
Section StComp.
Context {VS : Val}.
Variable T : Type.
Variables lt eq : T -> T -> bool.
Variable WS : Type.
Variables wonce whist : WS -> list (T * V) -> option (WS * list (T * V)).

Definition stg_step (st : @ststate VS T WS) (xy : list (T * V) * list (T * V)) :=
  since_timed_update_g T lt eq WS wonce whist st (fst xy) (snd xy).
Definition bing_step (f : V -> V -> V) (st : @ostate VS T) (xy : list (T * V) * list (T * V)) :=
  bin_update_g T lt eq f st (fst xy) (snd xy).

Lemma st_run_comp : forall (xs ys : list (list (T * V))) lb rb sst hst ost ast ost' out1s sst' out2s hst' out3s ast' res,
  length xs = length ys ->
  run_g wonce ost ys = Some (ost', out1s) ->
  run_g (since_update T lt) sst (combine xs ys) = Some (sst', out2s) ->
  run_g whist hst out2s = Some (hst', out3s) ->
  run_g (bing_step vmin) ast (combine out1s out3s) = Some (ast', res) ->
  exists st', run_g stg_step {| st_lbuf := lb; st_rbuf := rb; st_since := sst; st_hist := hst; st_once := ost; st_and := ast |}
                (combine xs ys) = Some (st', res).
Proof.
  induction xs as [|x xs IH]; intros [|y ys] lb rb sst hst ost ast ost' out1s sst' out2s hst' out3s ast' res Hl E1 E2 E3 E4;
    cbn [length] in Hl; try discriminate.
  - cbn [combine run_g] in *. injection E1 as <- <-. injection E2 as <- <-. cbn [run_g] in E3. injection E3 as <- <-.
    cbn [combine run_g] in E4. injection E4 as <- <-. eexists. reflexivity.
  - cbn [combine run_g] in *.
    destruct (wonce ost y) as [[ost1 o1]|] eqn:U1; [|discriminate].
    destruct (run_g wonce ost1 ys) as [[ost2 o1s]|] eqn:R1; [|discriminate]. injection E1 as <- <-.
    destruct (since_update T lt sst (x, y)) as [[sst1 o2]|] eqn:U2; [|discriminate].
    destruct (run_g (since_update T lt) sst1 (combine xs ys)) as [[sst2 o2s]|] eqn:R2; [|discriminate]. injection E2 as <- <-.
    cbn [run_g] in E3. destruct (whist hst o2) as [[hst1 o3]|] eqn:U3; [|discriminate].
    destruct (run_g whist hst1 o2s) as [[hst2 o3s]|] eqn:R3; [|discriminate]. injection E3 as <- <-.
    cbn [combine run_g] in E4. unfold bing_step at 1 in E4. cbn [fst snd] in E4.
    destruct (bin_update_g T lt eq vmin ast o1 o3) as [[ast1 r1]|] eqn:U4; [|discriminate].
    destruct (run_g (bing_step vmin) ast1 (combine o1s o3s)) as [[ast2 rs]|] eqn:R4; [|discriminate]. injection E4 as <- <-.
    destruct (IH ys (lb ++ x) (rb ++ y) sst1 hst1 ost1 ast1 ost2 o1s sst2 o2s hst2 o3s ast2 rs ltac:(lia) R1 R2 R3 R4) as (st' & E').
    exists st'. unfold stg_step at 1, since_timed_update_g. cbn [fst snd st_once st_since st_hist st_and st_lbuf st_rbuf].
    rewrite U1, U2, U3, U4. rewrite E'. reflexivity.
Qed.

End StComp.

(* ================================================================== *)
(* PART E: the monitor on the larger fragment                          *)
(* ================================================================== *)
Section Main2.
Context {VS : Val} (AR : Arith VS).
Variable pk : formula -> formula -> pkind.
(* the IA kinds need the sign laws of the difference (as the offline IA visitors, DenseIA.v / DenseEvalMain.v) *)
Hypothesis HDL : (forall f g, pk f g = PStd) \/ DiffLaws AR.
Hypothesis SubNeg : forall l r, neg (a2 AR Sub l r) = a2 AR Sub r l.
Variable W : list dsig.                 (* the complete input signals, by variable index *)
Variable tend : Z.
Variable envs : list (list dsig).       (* the data sets of the successive updates *)
Hypothesis Hfeed : forall x, feedsI [] (map (fun env => nth x env []) envs) (nth x W []).
Hypothesis HWs : forall x, dsorted (nth x W []).
Hypothesis HW0 : forall x, nth x W [] <> [] -> start (nth x W []) = 0.

Notation RZ := (rhoZ AR pk W tend).
Notation trun := (trun AR pk envs).

(* ---------------- the fragment ---------------- *)
(* COpen: in the fragment, with a variable; CClosed: in the fragment, without variable *)
Inductive cls := CBad | COpen | CClosed.
Definition join (a b : cls) : cls :=
  match a, b with
  | CBad, _ | _, CBad => CBad
  | CClosed, CClosed => CClosed
  | _, _ => COpen
  end.
Definition guard (b : bool) (c : cls) : cls := if b then c else CBad.

Fixpoint cl (p : formula) : cls :=
  match p with
  | Var _ => COpen
  | Const _ => CClosed
  | A1 _ f | Not f | Once f | Hist f => cl f
  | A2 _ f g | Pred _ f g | And f g | Or f g | Implies f g | Iff f g | Xor f g | Since f g => join (cl f) (cl g)
  | OnceT b e f | HistT b e f =>
      guard (b <=? e)%nat (match cl f with COpen => COpen | CClosed => guard (isconst f) CClosed | CBad => CBad end)
  | SinceT b e f g =>
      guard (b <=? e)%nat
        (match cl f, cl g with
         | COpen, COpen => COpen
         | COpen, CClosed => guard (isconst g) COpen
         | CClosed, COpen => guard (isconst f) COpen
         | _, _ => CBad
         end)
  | _ => CBad
  end.
Definition frag2 (p : formula) : bool := match cl p with CBad => false | _ => true end.

Lemma cl_closed p : (cl p = COpen -> closed p = false) /\ (cl p = CClosed -> closed p = true).
Proof.
  induction p; cbn [cl closed]; try (split; [reflexivity|discriminate]); try (split; [discriminate|reflexivity]);
  try (split; discriminate); try exact IHp;
  try (destruct IHp1 as [A1 A2], IHp2 as [B1 B2]; destruct (cl p1), (cl p2); cbn [join]; split; intros H; try discriminate;
       rewrite ?A1, ?A2, ?B1, ?B2 by reflexivity; reflexivity).
  - destruct IHp as [A1 A2]. destruct (b <=? e)%nat; cbn [guard]; [|split; discriminate].
    destruct (cl p); [split; discriminate|split; [intros _; apply A1; reflexivity|discriminate]|].
    destruct (isconst p); cbn [guard]; [|split; discriminate]. split; [discriminate|intros _; apply A2; reflexivity].
  - destruct IHp as [A1 A2]. destruct (b <=? e)%nat; cbn [guard]; [|split; discriminate].
    destruct (cl p); [split; discriminate|split; [intros _; apply A1; reflexivity|discriminate]|].
    destruct (isconst p); cbn [guard]; [|split; discriminate]. split; [discriminate|intros _; apply A2; reflexivity].
  - destruct IHp1 as [A1 A2], IHp2 as [B1 B2]. destruct (b <=? e)%nat; cbn [guard]; [|split; discriminate].
    destruct (cl p1), (cl p2); try (split; discriminate).
    + split; [intros _; rewrite A1 by reflexivity; reflexivity|discriminate].
    + destruct (isconst p2); cbn [guard]; [|split; discriminate]. split; [intros _; rewrite A1 by reflexivity; reflexivity|discriminate].
    + destruct (isconst p1); cbn [guard]; [|split; discriminate]. split; [intros _; rewrite B1 by reflexivity; apply andb_false_r|discriminate].
Qed.

Lemma closed_fvars p : closed p = true -> fvars p = [].
Proof.
  induction p; cbn [closed fvars]; intros H; try discriminate; try reflexivity; try (apply IHp; exact H);
  apply andb_prop in H as [H1 H2]; rewrite (IHp1 H1), (IHp2 H2); reflexivity.
Qed.

(* progress is claimed for the formulas of this class *)
Definition PROGW : bool := true.
Fixpoint pg (p : formula) : bool :=
  match p with
  | Var _ | Const _ => true
  | A1 _ f | Not f | Once f | Hist f => pg f
  | A2 _ f g | Pred _ f g | And f g | Or f g | Implies f g | Iff f g | Xor f g => PROGM && pg f && pg g
  | OnceT _ e f | HistT _ e f => PROGW && (0 <? e)%nat && pg f
  | _ => false
  end.

(* sqrt and ln never receive a value on which they raise: t ranges over the ticks up to the last sample of the
   variables of the operand (all ticks for an operand without variable) *)
Definition in_horizon (f : formula) (t : Z) : Prop := 0 <= t /\ forall x, In x (fvars f) -> t <= lastT (nth x W []).
Fixpoint safe (p : formula) : Prop :=
  match p with
  | A1 o f => safe f /\ (total1 o = false -> forall t, in_horizon f t -> fn1 AR o (RZ f t) <> None)
  | Not f | Once f | Hist f | OnceT _ _ f | HistT _ _ f => safe f
  | A2 _ f g | Pred _ f g | And f g | Or f g | Implies f g | Iff f g | Xor f g | Since f g | SinceT _ _ f g => safe f /\ safe g
  | _ => True
  end.

Lemma fn1_some o v : fn1 AR o v <> None -> fn1 AR o v = Some (a1 AR o v).
Proof.
  destruct o; cbn [fn1]; unfold total_fn, sqrt_fn, partial_fn; intros H; try reflexivity.
  - destruct (ltb v (azero AR)); [congruence|reflexivity].
  - destruct (ltb (azero AR) v); [reflexivity|congruence].
Qed.

(* ---------------- the invariants ---------------- *)
Definition Reach (q : formula) (S : dsig) : Prop := exists x, In x (fvars q) /\ lastT (nth x W []) <= lastT S.
Definition OG (q : formula) : Prop :=
  exists xs S, trun q = Some (map lift xs) /\ length xs = length envs /\ GoodS xs S (RZ q) /\ Bound W q S /\
               (pg q = true -> Reach q S).
Definition CG (q : formula) : Prop :=
  exists ys, trun q = Some ys /\ length ys = length envs /\ CGs (pg q) ys (RZ q).
Definition IQ (q : formula) : Prop := match cl q with COpen => OG q | CClosed => CG q | CBad => True end.

Lemma reach_un p f S S' : fvars p = fvars f -> Reach f S -> lastT S' = lastT S -> Reach p S'.
Proof. intros E [x [Hx Hl]] EL. exists x. rewrite E, EL. split; assumption. Qed.

Lemma reach_bi p f g S1 S2 S : fvars p = fvars f ++ fvars g -> Reach f S1 -> Reach g S2 ->
  lastT S = Z.min (lastT S1) (lastT S2) -> Reach p S.
Proof.
  intros E [x [Hx Hl]] [y [Hy Hl']] EL. destruct (Z.le_ge_cases (lastT S1) (lastT S2)).
  - exists x. rewrite E. split; [apply in_or_app; left; exact Hx|lia].
  - exists y. rewrite E. split; [apply in_or_app; right; exact Hy|lia].
Qed.

Lemma trun_const2 c : trun (Const c) = Some (cstream_e c (length envs)).
Proof.
  rewrite trun_shape. cbn [shape op_init].
  assert (Hlater : forall (l : list (list dsig)) st, c_first st = false ->
            run_g (cstep) (SConst st) (map (fun _ => tt) l) = Some (SConst st, repeat [] (length l))).
  { induction l as [|x l IH]; intros st Hst; [reflexivity|]. cbn [map run_g cstep length repeat].
    unfold const_update. rewrite Hst. rewrite (IH st Hst). reflexivity. }
  clear Hfeed. destruct envs as [|e0 l]; [reflexivity|]. cbn [map run_g cstep length]. unfold const_update at 1, const_init. cbn [c_first c_val].
  rewrite Hlater by reflexivity. reflexivity.
Qed.

Lemma cstream_e_nil c n : cstream_e c n <> [] -> exists m, n = S m.
Proof. destruct n; [intros H; exfalso; apply H; reflexivity|]. intros _. exists n. reflexivity. Qed.

Lemma CGs_cstream c n : CGs true (cstream_e c n) (fun _ => c).
Proof.
  exists 1. intros N HN. exists (cstream_z N c n). destruct n as [|m].
  - exists []. split; [constructor|]. split; [apply (goodS_nils 0)|]. intros _ Ny. exfalso. apply Ny. reflexivity.
  - exists [(0, c); (N, c)]. split; [apply cstream_rel; lia|]. split; [apply cstream_good; lia|]. intros _ _. reflexivity.
Qed.

Lemma CG_const c : CG (Const c).
Proof.
  exists (cstream_e c (length envs)). split; [apply trun_const2|]. split; [apply cstream_length_e|]. apply CGs_cstream.
Qed.

(* ---------------- a node with two operands ---------------- *)
Section NodeBin.
Variables StZ StE : Type.
Variables (wrapZ : StZ -> opst) (wrapE : StE -> opst).
Variables (s0Z : StZ) (s0E : StE).
Variable updZ : StZ -> dsig * dsig -> option (StZ * dsig).
Variable updE : StE -> esig * esig -> option (StE * esig).
Variable RS : Z -> StE -> StZ -> Prop.
Variable Fo : (Z -> V) -> (Z -> V) -> Z -> V.
Variable prog : bool.
Variables p f g : formula.
Hypothesis Sh : shape p = HBi f g.
Hypothesis Ev : fvars p = fvars f ++ fvars g.
Hypothesis E0 : op_init p = (if closed f || closed g then wrapE s0E else wrapZ s0Z).
Hypothesis HsZ : forall s x y, bstep AR pk p (wrapZ s) (lift x) (lift y) =
     match updZ s (x, y) with Some (s1, o) => Some (wrapZ s1, lift o) | None => None end.
Hypothesis HsE : forall s b, bstep2 AR pk p (wrapE s) b = match updE s b with Some (s1, o) => Some (wrapE s1, o) | None => None end.
Hypothesis RS0 : forall N, RS N s0E s0Z.
Hypothesis Hrel : forall N st st' b b', RS N st st' -> rpair N b b' ->
  rel_res StE StZ esig dsig (RS N) (rlN N) (updE st b) (updZ st' b').
Hypothesis HZ : forall xs ys S1 S2 F1 F2, length xs = length ys -> GoodS xs S1 F1 -> GoodS ys S2 F2 ->
  exists st outs S, run_g updZ s0Z (combine xs ys) = Some (st, outs) /\ length outs = length xs /\
                    GoodS outs S (Fo F1 F2) /\ lastT S <= Z.min (lastT S1) (lastT S2) /\
                    (prog = true -> lastT S = Z.min (lastT S1) (lastT S2)).
Hypothesis Hsem : forall t, RZ p t = Fo (RZ f) (RZ g) t.
Hypothesis Hcl : cl p = join (cl f) (cl g).
Hypothesis Hpg : pg p = true -> prog = true /\ pg f = true /\ pg g = true.

Lemma node_bin2 : IQ f -> IQ g -> IQ p.
Proof.
  unfold IQ. rewrite Hcl. destruct (cl_closed f) as [Fo1 Fc1]. destruct (cl_closed g) as [Go1 Gc1].
  destruct (cl f) eqn:Cf; destruct (cl g) eqn:Cg; cbn [join]; intros IHf IHg; try exact I.
  - (* two open operands *)
    destruct IHf as (xs & S1 & Ef & L1 & G1 & B1 & R1). destruct IHg as (ys & S2 & Eg & L2 & G2 & B2 & R2).
    destruct (HZ xs ys S1 S2 _ _ ltac:(congruence) G1 G2) as (st & os & S & Er & Hl & Go & Rg & Pg).
    exists os, S. split; [|split; [congruence|split; [|split]]].
    + apply (node_bi AR pk envs p f g updZ wrapZ s0Z xs ys st os Sh Ef Eg); [|exact HsZ|exact Er].
      rewrite E0, (Fo1 eq_refl), (Go1 eq_refl). reflexivity.
    + apply (goodS_ext _ _ _ _ Go). intros t _ _. symmetry. apply Hsem.
    + apply (Bound_bi W p f g S1 S2 S Ev B1 B2 Rg).
    + intros P. destruct (Hpg P) as (P0 & P1 & P2). apply (reach_bi p f g S1 S2 S Ev (R1 P1) (R2 P2) (Pg P0)).
  - (* the right operand is closed *)
    destruct IHf as (xs & S1 & Ef & L1 & G1 & B1 & R1). destruct IHg as (ys & Eg & L2 & C2).
    destruct (oc_r StE StZ RS updE updZ s0E s0Z RS0 Hrel Fo prog HZ (pg g) xs S1 _ ys _ G1 C2 ltac:(congruence))
      as (st & os & S & Er & Hl & Go & Rg & Pg).
    assert (Ev' : fvars p = fvars f) by (rewrite Ev, (closed_fvars g (Gc1 eq_refl)); apply app_nil_r).
    exists os, S. split; [|split; [congruence|split; [|split]]].
    + rewrite trun_shape, Sh, Ef, Eg, E0, (Gc1 eq_refl), orb_true_r.
      rewrite (run_wrap updE (bstep2 AR pk p) wrapE HsE _ _ _ _ Er). reflexivity.
    + apply (goodS_ext _ _ _ _ Go). intros t _ _. symmetry. apply Hsem.
    + apply (Bound_un W p f S1 S Ev' B1 Rg).
    + intros P. destruct (Hpg P) as (P0 & P1 & P2). apply (reach_un p f S1 S Ev' (R1 P1) (Pg P0 P2)).
  - (* the left operand is closed *)
    destruct IHg as (ys & S2 & Eg & L2 & G2 & B2 & R2). destruct IHf as (xs & Ef & L1 & C1).
    destruct (oc_l StE StZ RS updE updZ s0E s0Z RS0 Hrel Fo prog HZ (pg f) ys S2 _ xs _ G2 C1 ltac:(congruence))
      as (st & os & S & Er & Hl & Go & Rg & Pg).
    assert (Ev' : fvars p = fvars g) by (rewrite Ev, (closed_fvars f (Fc1 eq_refl)); reflexivity).
    exists os, S. split; [|split; [congruence|split; [|split]]].
    + rewrite trun_shape, Sh, Ef, Eg, E0, (Fc1 eq_refl). cbn [orb].
      rewrite (run_wrap updE (bstep2 AR pk p) wrapE HsE _ _ _ _ Er). reflexivity.
    + apply (goodS_ext _ _ _ _ Go). intros t _ _. symmetry. apply Hsem.
    + apply (Bound_un W p g S2 S Ev' B2 Rg).
    + intros P. destruct (Hpg P) as (P0 & P1 & P2). apply (reach_un p g S2 S Ev' (R2 P2) (Pg P0 P1)).
  - (* both operands are closed *)
    destruct IHf as (xs & Ef & L1 & C1). destruct IHg as (ys & Eg & L2 & C2).
    destruct (cc StE StZ RS updE updZ s0E s0Z RS0 Hrel Fo prog HZ (pg f) (pg g) xs ys _ _ C1 C2 ltac:(congruence))
      as (st & zs & Er & Hl & C).
    exists zs. split; [|split; [congruence|]].
    + rewrite trun_shape, Sh, Ef, Eg, E0, (Fc1 eq_refl). cbn [orb].
      rewrite (run_wrap updE (bstep2 AR pk p) wrapE HsE _ _ _ _ Er). reflexivity.
    + apply (CGs_ext (pg p) zs (Fo (RZ f) (RZ g))); [|intros t; symmetry; apply Hsem].
      apply (CGs_weaken (prog && pg f && pg g)); [|exact C]. intros P. destruct (Hpg P) as (-> & -> & ->). reflexivity.
Qed.

End NodeBin.

(* ---------------- a node with one operand (point-wise, once, historically) ---------------- *)
Section NodeUn.
Variables StZ StE : Type.
Variables (wrapZ : StZ -> opst) (wrapE : StE -> opst).
Variables (s0Z : StZ) (s0E : StE).
Variable updZ : StZ -> dsig -> option (StZ * dsig).
Variable updE : StE -> esig -> option (StE * esig).
Variable RS : Z -> StE -> StZ -> Prop.
Variable Pre : Z -> (Z -> V) -> Prop.
Variable Fo : (Z -> V) -> Z -> V.
Variables p f : formula.
Hypothesis Sh : shape p = HUn f.
Hypothesis Ev : fvars p = fvars f.
Hypothesis E0Z : closed f = false -> op_init p = wrapZ s0Z.
Hypothesis E0E : closed f = true -> op_init p = wrapE s0E.
Hypothesis HsZ : closed f = false -> forall s x, ustep AR p (wrapZ s) (lift x) =
     match updZ s x with Some (s1, o) => Some (wrapZ s1, lift o) | None => None end.
Hypothesis HsE : closed f = true -> forall s b, ustep AR p (wrapE s) b =
     match updE s b with Some (s1, o) => Some (wrapE s1, o) | None => None end.
Hypothesis RS0 : forall N, RS N s0E s0Z.
Hypothesis Hrel : forall N st st' b b', RS N st st' -> rlN N b b' ->
  rel_res StE StZ esig dsig (RS N) (rlN N) (updE st b) (updZ st' b').
Hypothesis HZ : forall xs S F, Pre (lastT S) F -> GoodS xs S F ->
  exists st outs S', run_g updZ s0Z xs = Some (st, outs) /\ length outs = length xs /\ GoodS outs S' (Fo F) /\
                     lastT S' = lastT S.
Hypothesis HP : forall K, (forall x, In x (fvars f) -> K <= lastT (nth x W [])) -> Pre K (RZ f).
Hypothesis Hsem : forall t, RZ p t = Fo (RZ f) t.
Hypothesis Hcl : cl p = cl f.
Hypothesis Hpg : pg p = pg f.

Lemma node_un2 : IQ f -> IQ p.
Proof.
  unfold IQ. rewrite Hcl. destruct (cl_closed f) as [Fo1 Fc1]. destruct (cl f) eqn:Cf; intros IHf; [exact I| |].
  - destruct IHf as (xs & S & Ef & L & G & B & R).
    destruct (HZ xs S (RZ f) (HP (lastT S) B) G) as (st & os & S' & Er & Hl & Go & EL).
    exists os, S'. split; [|split; [congruence|split; [|split]]].
    + apply (node_un AR pk envs p f updZ wrapZ s0Z xs st os Sh Ef (E0Z (Fo1 eq_refl)) (HsZ (Fo1 eq_refl)) Er).
    + apply (goodS_ext _ _ _ _ Go). intros t _ _. symmetry. apply Hsem.
    + apply (Bound_un W p f S S' Ev B). lia.
    + rewrite Hpg. intros P. apply (reach_un p f S S' Ev (R P) EL).
  - destruct IHf as (ys & Ef & L & C).
    destruct (c1 StE StZ RS updE updZ s0E s0Z RS0 Hrel Pre Fo HZ (pg f) ys (RZ f)) as (st & ys' & Er & Hl & C'); [|exact C|].
    { intros K. apply HP. intros x Hx. rewrite (closed_fvars f (Fc1 eq_refl)) in Hx. destruct Hx. }
    exists ys'. split; [|split; [congruence|]].
    + rewrite trun_shape, Sh, Ef, (E0E (Fc1 eq_refl)).
      rewrite (run_wrap updE (ustep AR p) wrapE (HsE (Fc1 eq_refl)) _ _ _ _ Er). reflexivity.
    + rewrite Hpg. apply (CGs_ext _ _ _ _ C'). intros t. symmetry. apply Hsem.
Qed.

End NodeUn.

(* and, or, ->, <->, xor, + - / pow log: and_operation.update on the function of the node *)
Lemma node_merge p f g fo :
  shape p = HBi f g -> fvars p = fvars f ++ fvars g ->
  op_init p = (if closed f || closed g then SBinE ostate0 else SBinZ ostate0) ->
  (forall s x y, bstep AR pk p (SBinZ s) x y = option_map (fun r => (SBinZ (fst r), snd r)) (viaZ2 (bin_update fo) s x y)) ->
  (forall s x y, bstep AR pk p (SBinE s) x y = option_map (fun r => (SBinE (fst r), snd r)) (bin_update_e fo s x y)) ->
  (forall t, RZ p t = fo (RZ f t) (RZ g t)) -> cl p = join (cl f) (cl g) -> pg p = PROGM && pg f && pg g ->
  IQ f -> IQ g -> IQ p.
Proof.
  intros Sh Ev E0 HZs HEs Hsem Hcl Hpg.
  apply (node_bin2 _ _ SBinZ SBinE ostate0 ostate0 (bin_upd2 fo) (bin_e2 fo) (fun N => rst tz Z (Rn N))
           (fun F1 F2 t => fo (F1 t) (F2 t)) PROGM p f g Sh Ev E0).
  - apply (stepZ_bin AR pk p fo HZs).
  - apply (stepE_bin AR pk p fo HEs).
  - apply rst0.
  - apply (rel_of_rupd _ _ (rupd_bin fo)).
  - apply (gz_of_zstream fo _ (zstream_bin fo) (zlast_bin fo)).
  - exact Hsem.
  - exact Hcl.
  - rewrite Hpg. intros P. apply andb_prop in P as [P P2]. apply andb_prop in P as [P0 P1]. auto.
Qed.

Lemma zmin_single (F : Z -> V) t : zmin F t t = F t.
Proof. rewrite zmin_snoc' by lia. rewrite zmin_empty. apply vmin_top_r. Qed.
Lemma zmax_const c lo hi : lo <= hi -> zmax (fun _ => c) lo hi = c.
Proof. intros H. rewrite (zmax_tail_const (fun _ => c) lo lo hi) by (try lia; reflexivity). apply zmax_single. Qed.
Lemma zmin_const c lo hi : lo <= hi -> zmin (fun _ => c) lo hi = c.
Proof. intros H. rewrite (zmin_tail_const (fun _ => c) lo lo hi) by (try lia; reflexivity). apply zmin_single. Qed.

(* ---------------- once[b,e] / historically[b,e] of a constant ---------------- *)
Lemma ltb_irrefl (x : V) : ltb x x = false.
Proof. unfold ltb. rewrite leb_refl. reflexivity. Qed.

Lemma CGs_wstream lt pad c b n : lt c c = false -> 0 <= b ->
  CGs true (wstream_e pad c b n) (fun t => if t - b <? 0 then pad else c).
Proof.
  intros Hlt Hb. exists (b + 1). intros N HN. exists (wstream_z pad c b N n). destruct n as [|m].
  - exists []. split; [constructor|]. split; [apply (goodS_nils 0)|]. intros _ Ny. exfalso. apply Ny. reflexivity.
  - destruct (wfirstZ_good lt pad c Hlt b N m ltac:(lia)) as [G EL]. exists (wfirstZ pad c b N).
    split; [apply (wstream_rel lt pad c Hlt); lia|]. split; [exact G|intros _ _; exact EL].
Qed.

Lemma wstream_length pad c b n : length (wstream_e pad c b n) = n.
Proof. destruct n; [reflexivity|]. cbn [wstream_e length]. rewrite repeat_length. reflexivity. Qed.

Lemma win_const_CG (p : formula) lt pad c b e rs0 :
  lt c c = false -> (b <= e)%nat -> shape p = HUn (Const c) ->
  op_init p = SWinE (win_init_e rs0 (zb b) (zb e)) ->
  (forall st x, ustep AR p (SWinE st) x = match win_update_e lt pad st x with Some (st', o) => Some (SWinE st', o) | None => None end) ->
  (forall t, RZ p t = if t - zb b <? 0 then pad else c) ->
  CG p.
Proof.
  intros Hlt Hbe Sh E0 Hstep Hsem.
  destruct (win_e_run lt pad c Hlt rs0 (zb b) (zb e) (length envs) ltac:(unfold zb; lia)) as [st Er].
  exists (wstream_e pad c (zb b) (length envs)). split; [|split].
  - rewrite trun_shape, Sh, trun_const2, E0.
    rewrite (run_wrap (win_update_e lt pad) (ustep AR p) SWinE Hstep _ _ _ _ Er). reflexivity.
  - apply wstream_length.
  - apply (CGs_weaken true); [reflexivity|].
    apply (CGs_ext _ _ _ _ (CGs_wstream lt pad c (zb b) (length envs) Hlt ltac:(unfold zb; lia))). intros t. symmetry. apply Hsem.
Qed.

Lemma once_const b e c : (b <= e)%nat -> CG (OnceT b e (Const c)).
Proof.
  intros Hbe. apply (win_const_CG (OnceT b e (Const c)) ltb bot c b e ENeg (ltb_irrefl c) Hbe eq_refl eq_refl).
  - intros st x. cbn [ustep]. unfold once_timed_update_e. destruct (win_update_e ltb bot st x) as [[s1 o1]|]; reflexivity.
  - intros t. cbn [rhoZ dstart]. destruct (t - zb b <? 0) eqn:E; [reflexivity|].
    etransitivity; [apply (zmax_ext _ (fun _ => c)); intros; reflexivity|]. apply zmax_const. unfold zb in *. lia.
Qed.

Lemma hist_const b e c : (b <= e)%nat -> CG (HistT b e (Const c)).
Proof.
  intros Hbe. apply (win_const_CG (HistT b e (Const c)) (fun x y => ltb y x) top c b e (ET TInf) (ltb_irrefl c) Hbe eq_refl eq_refl).
  - intros st x. cbn [ustep]. unfold hist_timed_update_e. destruct (win_update_e (fun x0 y => ltb y x0) top st x) as [[s1 o1]|]; reflexivity.
  - intros t. cbn [rhoZ dstart]. destruct (t - zb b <? 0) eqn:E; [reflexivity|].
    etransitivity; [apply (zmin_ext _ (fun _ => c)); intros; reflexivity|]. apply zmin_const. unfold zb in *. lia.
Qed.

(* ---------------- since[b,e] with a constant operand ---------------- *)
Definition Fonce (b e : Z) (F2 : Z -> V) (t : Z) : V := if t - b <? 0 then bot else zmax F2 (Z.max (t - e) 0) (t - b).
Definition Fhist (b : Z) (F1 F2 : Z -> V) (t : Z) : V :=
  if t - 0 <? 0 then top else zmin (fun u => Sv F1 F2 0 u) (Z.max (t - b) 0) (t - 0).

Lemma since_timed_sem F1 F2 b e t : 0 <= b -> b <= e -> 0 <= t ->
  vmin (Fonce b e F2 t) (Fhist b F1 F2 t) =
  (if t - b <? 0 then bot else zmax (fun t' => vmin (F2 t') (zmin F1 t' t)) (Z.max (t - e) 0) (t - b)).
Proof.
  intros Hb Hbe Ht. unfold Fonce, Fhist. destruct (t - b <? 0) eqn:Eb; [apply vmin_bot_l|]. rewrite Z.sub_0_r.
  destruct (t <? 0) eqn:Et; [lia|]. rewrite (since_decomp F1 F2 b e t Hb Hbe) by lia.
  replace (Z.max (t - b) 0) with (t - b) by lia. reflexivity.
Qed.

Lemma since_timed_tail b e f g xs_e ys_e ost o1s sst os2 S2 (q : formula) Sq :
  (b <= e)%nat -> closed f || closed g = true ->
  trun f = Some xs_e -> trun g = Some ys_e -> length xs_e = length envs -> length ys_e = length envs ->
  run_g once_timed_update_e (owin_init_e (zb b) (zb e)) ys_e = Some (ost, o1s) ->
  ((exists pr, CGs pr o1s (Fonce (zb b) (zb e) (RZ g))) \/
   (exists os1 S1, o1s = map lift os1 /\ GoodS os1 S1 (Fonce (zb b) (zb e) (RZ g)))) ->
  run_g since_upd_e since_init (combine xs_e ys_e) = Some (sst, map lift os2) ->
  GoodS os2 S2 (fun t => Sv (RZ f) (RZ g) 0 t) -> lastT S2 <= lastT Sq -> Bound W q Sq ->
  fvars (SinceT b e f g) = fvars q ->
  OG (SinceT b e f g).
Proof.
  intros Hbe Hc Ef Eg Lx Ly E1 H1 E2 G2 R2 Bq Ev.
  assert (Hb : 0 <= zb b) by (unfold zb; lia). assert (Hbe' : zb b <= zb e) by (unfold zb; lia).
  assert (L1 : length o1s = length envs) by (rewrite (run_g_length _ _ _ _ _ _ _ _ E1); exact Ly).
  assert (L2 : length os2 = length envs).
  { pose proof (run_g_length _ _ _ _ _ _ _ _ E2) as H. rewrite map_length, combine_length, Lx, Ly, Nat.min_id in H. exact H. }
  destruct (hist_stream 0 (zb b) os2 S2 _ ltac:(lia) Hb G2) as (hst & os3 & S3 & E3 & L3 & G3 & R3).
  unfold hist_timed_run in E3. rewrite win_run_as_run_g in E3.
  pose proof (win_e_lift_run (fun x y => ltb y x) top os2 (hwin_init 0 (zb b)) hst os3 E3) as E3'.
  change (lst (hwin_init 0 (zb b))) with (hwin_init_e 0 (zb b)) in E3'.
  assert (H4 : exists ast os S, run_g (bin_e2 vmin) ostate0 (combine o1s (map lift os3)) = Some (ast, map lift os) /\
             length os = length envs /\ GoodS os S (fun t => vmin (Fonce (zb b) (zb e) (RZ g) t) (Fhist (zb b) (RZ f) (RZ g) t)) /\
             lastT S <= lastT S3).
  { destruct H1 as [[pr C1]|(os1 & S1 & -> & G1)].
    - destruct (oc_l _ _ (fun N => rst tz Z (Rn N)) (bin_e2 vmin) (bin_upd2 vmin) ostate0 ostate0 rst0
                  (rel_of_rupd _ _ (rupd_bin vmin)) (fun F1 F2 t => vmin (F1 t) (F2 t)) PROGM
                  (gz_of_zstream vmin _ (zstream_bin vmin) (zlast_bin vmin)) pr os3 S3 _ o1s _ G3 C1 ltac:(congruence))
        as (ast & os & S & E4 & L4 & G4 & R4 & _).
      exists ast, os, S. split; [exact E4|]. split; [congruence|]. split; [exact G4|exact R4].
    - rewrite map_length in L1.
      destruct (oo_e _ _ (fun N => rst tz Z (Rn N)) (bin_e2 vmin) (bin_upd2 vmin) ostate0 ostate0 rst0
                  (rel_of_rupd _ _ (rupd_bin vmin)) (fun F1 F2 t => vmin (F1 t) (F2 t)) PROGM
                  (gz_of_zstream vmin _ (zstream_bin vmin) (zlast_bin vmin)) os1 os3 S1 S3 _ _ G1 G3 ltac:(congruence))
        as (ast & os & S & E4 & L4 & G4 & R4).
      exists ast, os, S. split; [exact E4|]. split; [congruence|]. split; [exact G4|lia]. }
  destruct H4 as (ast & os & S & E4 & L4 & G4 & R4).
  destruct (st_run_comp tz tlt teq (@wstate_e VS) once_timed_update_e hist_timed_update_e xs_e ys_e [] [] since_init
              (hwin_init_e 0 (zb b)) (owin_init_e (zb b) (zb e)) ostate0 _ _ _ _ _ _ _ _ (eq_trans Lx (eq_sym Ly)) E1 E2 E3' E4) as (st' & Ec).
  exists os, S. split; [|split; [exact L4|split; [|split]]].
  - rewrite trun_shape. cbn [shape]. rewrite Ef, Eg. cbn [op_init]. rewrite Hc.
    rewrite (run_wrap (stg_step tz tlt teq (@wstate_e VS) once_timed_update_e hist_timed_update_e) (bstep2 AR pk (SinceT b e f g)) SStE) with (st' := st') (os := map lift os).
    + reflexivity.
    + intros s [x y]. unfold bstep2, stg_step. cbn [fst snd bstep]. unfold since_timed_E.
      destruct (since_timed_update_g tz tlt teq wstate_e once_timed_update_e hist_timed_update_e s x y) as [[s1 o1]|]; reflexivity.
    + exact Ec.
  - apply (goodS_ext _ _ _ _ G4). intros t _ Ht. rewrite (since_timed_sem (RZ f) (RZ g) (zb b) (zb e) t Hb Hbe' ltac:(lia)).
    cbn [rhoZ]. rewrite (dstart0 W HW0). reflexivity.
  - apply (Bound_un W _ q Sq S Ev Bq). lia.
  - cbn [pg]. discriminate.
Qed.

Lemma since_timed_const b e f g : (b <= e)%nat ->
  (cl f = COpen /\ isconst g = true) \/ (isconst f = true /\ cl g = COpen) -> IQ f -> IQ g -> OG (SinceT b e f g).
Proof.
  intros Hbe [[Cf Ig]|[If Cg]] IHf IHg.
  - (* the right operand is a constant *)
    destruct g; cbn [isconst] in Ig; try discriminate. unfold IQ in IHf. rewrite Cf in IHf.
    destruct IHf as (xs & S1 & Ef & L1 & G1 & B1 & _).
    destruct (win_e_run ltb bot c (ltb_irrefl c) ENeg (zb b) (zb e) (length envs) ltac:(unfold zb; lia)) as [ost E1].
    destruct (oc_r _ _ rsS since_upd_e since_upd since_init since_init rsS0 since_rel (fun F1 F2 t => Sv F1 F2 0 t) false since_gz
                true xs S1 _ (cstream_e c (length envs)) _ G1 (CGs_cstream c (length envs)) ltac:(rewrite cstream_length_e; congruence))
      as (sst & os2 & S2 & E2 & L2 & G2 & R2 & _).
    apply (since_timed_tail b e f (Const c) (map lift xs) (cstream_e c (length envs)) ost (wstream_e bot c (zb b) (length envs)) sst os2 S2 f S1 Hbe); try assumption.
    + cbn [closed]. apply orb_true_r.
    + apply trun_const2.
    + rewrite map_length. exact L1.
    + apply cstream_length_e.
    + left. exists true. apply (CGs_ext _ _ _ _ (CGs_wstream ltb bot c (zb b) (length envs) (ltb_irrefl c) ltac:(unfold zb; lia))).
      intros t. unfold Fonce. destruct (t - zb b <? 0) eqn:E; [reflexivity|]. symmetry.
      etransitivity; [apply (zmax_ext _ (fun _ => c)); intros; reflexivity|]. apply zmax_const. unfold zb in *. lia.
    + cbn [fvars]. apply app_nil_r.
  - (* the left operand is a constant *)
    destruct f; cbn [isconst] in If; try discriminate. unfold IQ in IHg. rewrite Cg in IHg.
    destruct IHg as (ys & S2 & Eg & L2 & G2 & B2 & _).
    destruct (once_stream RNegInf (zb b) (zb e) ys S2 _ ltac:(unfold zb; lia) ltac:(unfold zb; lia) G2) as (ost & os1 & S1' & E1 & L1 & Go1 & R1).
    unfold once_timed_run in E1. rewrite win_run_as_run_g in E1.
    pose proof (win_e_lift_run ltb bot ys (win_init RNegInf (zb b) (zb e)) ost os1 E1) as E1'.
    change (lst (win_init RNegInf (zb b) (zb e))) with (owin_init_e (zb b) (zb e)) in E1'.
    destruct (oc_l _ _ rsS since_upd_e since_upd since_init since_init rsS0 since_rel (fun F1 F2 t => Sv F1 F2 0 t) false since_gz
                true ys S2 _ (cstream_e c (length envs)) _ G2 (CGs_cstream c (length envs)) ltac:(rewrite cstream_length_e; congruence))
      as (sst & os2 & S2' & E2 & L2' & G2' & R2 & _).
    apply (since_timed_tail b e (Const c) g (cstream_e c (length envs)) (map lift ys) (lst ost) (map lift os1) sst os2 S2' g S2 Hbe); try assumption.
    + apply trun_const2.
    + apply cstream_length_e.
    + rewrite map_length. exact L2.
    + right. exists os1, S1'. split; [reflexivity|exact Go1].
    + reflexivity.
Qed.

Theorem frag2_tree p : safe p -> IQ p.
Proof.
  induction p; intros Hs; cbn [safe] in Hs; try (unfold IQ; cbn [cl]; exact I).
  - (* Var *)
    unfold IQ. cbn [cl]. exists (map (fun env => nth x env []) envs), (nth x W []).
    split; [|split; [apply map_length|split; [|split; [intros y [<-|[]]; lia|intros _; exists x; split; [left; reflexivity|lia]]]]].
    + rewrite trun_shape. cbn [shape]. rewrite map_map. reflexivity.
    + split; [apply Hfeed|]. split; [apply HWs|]. split; [apply HW0|]. intros t N Ht. cbn [rhoZ]. unfold den.
      pose proof (HW0 x N) as H0. destruct (nth x W []) as [|[a v] r]; [congruence|]. cbn [start] in H0. subst a.
      pose proof (den_from_start 0 v r t ltac:(lia)) as Hn. destruct (den_opt ((0, v) :: r) t); [reflexivity|congruence].
  - (* Const *)
    unfold IQ. cbn [cl]. apply CG_const.
  - (* A1 *)
    destruct Hs as [Hs1 Hs2].
    apply (node_un2 unit unit (fun _ => SNone) (fun _ => SNone) tt tt (unary_upd (fn1 AR o)) (unary_upd_e (fn1 AR o)) rsU
             (fun K F => forall t, 0 <= t <= K -> fn1 AR o (F t) = Some (a1 AR o (F t))) (fun F t => a1 AR o (F t))
             (A1 o p) p eq_refl eq_refl); try reflexivity; try (apply IHp; exact Hs1).
    + intros Hc [] x. cbn [ustep]. rewrite Hc. unfold viaZ. rewrite unlift_lift.
      destruct (unary_upd (fn1 AR o) tt x) as [[s1 o1]|]; reflexivity.
    + intros Hc [] b. cbn [ustep]. rewrite Hc. destruct (unary_upd_e (fn1 AR o) tt b) as [[s1 o1]|]; reflexivity.
    + intros N st st' b b'. apply unary_rel.
    + intros xs S F HPre G. apply (unary_gz (fn1 AR o) (a1 AR o) xs S F HPre G).
    + intros K HK t Ht. destruct (total1 o) eqn:Et; [apply fn1_total; exact Et|]. apply fn1_some. apply (Hs2 eq_refl).
      split; [lia|]. intros x Hx. specialize (HK x Hx). lia.
  - (* A2 *)
    destruct Hs as [Hs1 Hs2]. specialize (IHp1 Hs1). specialize (IHp2 Hs2). destruct o.
    + apply (node_merge (A2 Add p1 p2) p1 p2 (a2 AR Add)); try reflexivity; assumption.
    + apply (node_merge (A2 Sub p1 p2) p1 p2 (a2 AR Sub)); try reflexivity; assumption.
    + apply (node_bin2 _ _ SBinZ SBinE ostate0 ostate0 (mul_upd2 (a2 AR Mul)) (mul_e2 (a2 AR Mul)) (fun N => rst tz Z (Rn N))
               (fun F1 F2 t => a2 AR Mul (F1 t) (F2 t)) PROGM (A2 Mul p1 p2) p1 p2 eq_refl eq_refl eq_refl); try assumption; try reflexivity.
      * intros s x y. cbn [bstep]. unfold viaZ2, mul_upd2. rewrite !unlift_lift. cbn [fst snd fn2].
        destruct (mul_update_g Z Z.ltb Z.eqb (a2 AR Mul) s x y) as [[s1 o1]|]; reflexivity.
      * intros s [x y]. unfold bstep2, mul_e2. cbn [fst snd bstep fn2].
        destruct (mul_update_g tz tlt teq (a2 AR Mul) s x y) as [[s1 o1]|]; reflexivity.
      * apply rst0.
      * apply (rel_of_rupd _ _ (rupd_mul (a2 AR Mul))).
      * apply (gz_of_zstream (a2 AR Mul) _ (zstream_mul (a2 AR Mul)) (zlast_mul (a2 AR Mul))).
      * cbn [pg]. intros P. apply andb_prop in P as [P P2]. apply andb_prop in P as [P0 P1]. auto.
    + apply (node_merge (A2 Div p1 p2) p1 p2 (a2 AR Div)); try reflexivity; assumption.
    + apply (node_merge (A2 Pow p1 p2) p1 p2 (a2 AR Pow)); try reflexivity; assumption.
    + apply (node_merge (A2 Log p1 p2) p1 p2 (a2 AR Log)); try reflexivity; assumption.
  - (* Pred *)
    destruct Hs as [Hs1 Hs2]. specialize (IHp1 Hs1). specialize (IHp2 Hs2).
    apply (node_bin2 _ _ SPredZ SPredE pred_init pred_init (predZ AR (pk p1 p2) c) (predE AR (pk p1 p2) c) rsP
             (fun F1 F2 t => pval AR (pk p1 p2) c (a2 AR Sub (F1 t) (F2 t))) PROGM (Pred c p1 p2) p1 p2 eq_refl eq_refl eq_refl);
      try assumption; try reflexivity.
    + intros s x y. cbn [bstep]. unfold viaZ2, predZ. rewrite !unlift_lift. cbn [fst snd].
      destruct (pred_update_ia AR Z Z.ltb Z.eqb (pk p1 p2) c s x y) as [[s1 o1]|]; reflexivity.
    + intros s [x y]. unfold bstep2, predE. cbn [fst snd bstep].
      destruct (pred_update_ia AR tz tlt teq (pk p1 p2) c s x y) as [[s1 o1]|]; reflexivity.
    + apply rsP0.
    + intros N st st' b b'. apply pred_rel.
    + apply (pred_gz AR (pk p1 p2) c). destruct HDL as [H|H]; [left; apply H|right; exact H].
    + intros t. cbn [rhoZ]. symmetry. apply (pval_sem AR SubNeg). destruct HDL as [H|H]; [left; apply H|right; exact H].
    + cbn [pg]. intros P. apply andb_prop in P as [P P2]. apply andb_prop in P as [P0 P1]. auto.
  - (* Not *)
    apply (node_un2 unit unit (fun _ => SNone) (fun _ => SNone) tt tt (unary_upd not_fn) (unary_upd_e not_fn) rsU
             (fun K F => forall t, 0 <= t <= K -> not_fn (F t) = Some (neg (F t))) (fun F t => neg (F t))
             (Not p) p eq_refl eq_refl); try reflexivity; try (apply IHp; exact Hs).
    + intros Hc [] x. cbn [ustep]. rewrite Hc. unfold viaZ. rewrite unlift_lift.
      destruct (unary_upd not_fn tt x) as [[s1 o1]|]; reflexivity.
    + intros Hc [] b. cbn [ustep]. rewrite Hc. destruct (unary_upd_e not_fn tt b) as [[s1 o1]|]; reflexivity.
    + intros N st st' b b'. apply unary_rel.
    + intros xs S F HPre G. apply (unary_gz not_fn neg xs S F HPre G).
  - (* And *)
    destruct Hs as [Hs1 Hs2]. apply (node_merge (And p1 p2) p1 p2 vmin); try reflexivity; [apply IHp1|apply IHp2]; assumption.
  - (* Or *)
    destruct Hs as [Hs1 Hs2]. apply (node_merge (Or p1 p2) p1 p2 vmax); try reflexivity; [apply IHp1|apply IHp2]; assumption.
  - (* Implies *)
    destruct Hs as [Hs1 Hs2]. apply (node_merge (Implies p1 p2) p1 p2 (fun l r => vmax (neg l) r)); try reflexivity; [apply IHp1|apply IHp2]; assumption.
  - (* Iff *)
    destruct Hs as [Hs1 Hs2]. apply (node_merge (Iff p1 p2) p1 p2 (fun l r => neg (a1 AR Abs (a2 AR Sub l r)))); try reflexivity; [apply IHp1|apply IHp2]; assumption.
  - (* Xor *)
    destruct Hs as [Hs1 Hs2]. apply (node_merge (Xor p1 p2) p1 p2 (fun l r => a1 AR Abs (a2 AR Sub l r))); try reflexivity; [apply IHp1|apply IHp2]; assumption.
  - (* Once *)
    apply (node_un2 _ _ SFold SFold once_init once_init once_upd once_upd_e rsF (fun _ _ => True) (fun F t => zmax F 0 t)
             (Once p) p eq_refl eq_refl); try reflexivity; try (apply IHp; exact Hs).
    + intros Hc s x. cbn [ustep]. rewrite Hc. unfold viaZ. rewrite unlift_lift. destruct (once_upd s x) as [[s1 o1]|]; reflexivity.
    + intros Hc s b. cbn [ustep]. rewrite Hc. destruct (once_upd_e s b) as [[s1 o1]|]; reflexivity.
    + intros N st st' b b'. apply (fold_rel vmax).
    + intros xs S F _ G.
      destruct (fold_stream vmax ltac:(intros v q; ord) zmax zmax_snoc' (fun G lo A B => zmax_tail_const G lo A B) zmax_ext bot
                  (fun G => zmax_empty G 0) xs S _ G) as (st & os & Er & Hl & Go).
      exists st, os, (snd (fold_loop Z vmax bot S)). split; [exact Er|]. split; [exact Hl|]. split; [exact Go|apply fold_lastT].
    + intros t. cbn [rhoZ]. rewrite (dstart0 W HW0). reflexivity.
  - (* Hist *)
    apply (node_un2 _ _ SFold SFold hist_init hist_init hist_upd hist_upd_e rsF (fun _ _ => True) (fun F t => zmin F 0 t)
             (Hist p) p eq_refl eq_refl); try reflexivity; try (apply IHp; exact Hs).
    + intros Hc s x. cbn [ustep]. rewrite Hc. unfold viaZ. rewrite unlift_lift. destruct (hist_upd s x) as [[s1 o1]|]; reflexivity.
    + intros Hc s b. cbn [ustep]. rewrite Hc. destruct (hist_upd_e s b) as [[s1 o1]|]; reflexivity.
    + intros N st st' b b'. apply (fold_rel vmin).
    + intros xs S F _ G.
      destruct (fold_stream vmin ltac:(intros v q; ord) zmin zmin_snoc' (fun G lo A B => zmin_tail_const G lo A B) zmin_ext top
                  (fun G => zmin_empty G 0) xs S _ G) as (st & os & Er & Hl & Go).
      exists st, os, (snd (fold_loop Z vmin top S)). split; [exact Er|]. split; [exact Hl|]. split; [exact Go|apply fold_lastT].
    + intros t. cbn [rhoZ]. rewrite (dstart0 W HW0). reflexivity.
  - (* Since *)
    destruct Hs as [Hs1 Hs2]. specialize (IHp1 Hs1). specialize (IHp2 Hs2).
    apply (node_bin2 _ _ SSinZ SSinE since_init since_init since_upd since_upd_e rsS
             (fun F1 F2 t => Sv F1 F2 0 t) false (Since p1 p2) p1 p2 eq_refl eq_refl eq_refl);
      try assumption; try reflexivity.
    + intros s x y. cbn [bstep]. unfold viaZ2. rewrite !unlift_lift. destruct (since_upd s (x, y)) as [[s1 o1]|]; reflexivity.
    + intros s [x y]. unfold bstep2. cbn [fst snd bstep]. destruct (since_upd_e s (x, y)) as [[s1 o1]|]; reflexivity.
    + apply rsS0.
    + intros N st st' b b'. apply since_rel.
    + apply since_gz.
    + intros t. cbn [rhoZ]. rewrite (dstart0 W HW0). reflexivity.
    + cbn [pg]. discriminate.
  - (* OnceT *)
    unfold IQ. cbn [cl]. destruct (b <=? e)%nat eqn:Ebe; cbn [guard]; [|exact I]. apply Nat.leb_le in Ebe.
    specialize (IHp Hs). unfold IQ in IHp. destruct (cl_closed p) as [Fo1 Fc1]. destruct (cl p) eqn:Cp; [exact I| |].
    + destruct IHp as (xs & S & Ef & L & G & B & R). pose proof (Fo1 eq_refl) as Hc.
      destruct (once_stream RNegInf (zb b) (zb e) xs S _ ltac:(unfold zb; lia) ltac:(unfold zb; lia) G) as (st & os & S' & Er & Hl & Go & Rg).
      exists os, S'. split; [|split; [congruence|split; [|split; [apply (Bound_un W _ p S S' eq_refl B Rg)|]]]].
      * unfold once_timed_run in Er. rewrite win_run_as_run_g in Er.
        apply (node_un AR pk envs (OnceT b e p) p once_timed_update SWinZ (owin_init (zb b) (zb e)) xs st os eq_refl Ef); [cbn [op_init]; rewrite Hc; reflexivity| |exact Er].
        intros s x. cbn [ustep]. unfold viaZ. rewrite unlift_lift. destruct (once_timed_update s x) as [[s1 o1]|]; reflexivity.
      * apply (goodS_ext _ _ _ _ Go). intros t _ _. cbn [rhoZ]. rewrite (dstart0 W HW0). reflexivity.
      * cbn [pg]. intros P. apply andb_prop in P as [P P2]. apply andb_prop in P as [_ Pe]. apply Nat.ltb_lt in Pe.
        apply (reach_un _ p S S' eq_refl (R P2)). destruct S as [|x0 S0] eqn:ES.
        -- pose proof (goodS_nonneg _ _ _ Go). change (lastT (@nil (Z * V))) with 0 in *. lia.
        -- rewrite <- ES in *. destruct G as (Hf & DS & ZS & _). destruct Go as (Hfo & DSo & _).
           apply (once_stream_last RNegInf (zb b) (zb e) xs S st os S'); try assumption; try (unfold zb; lia). rewrite ES. discriminate.
    + destruct p; cbn [isconst guard]; try exact I. apply once_const. exact Ebe.
  - (* HistT *)
    unfold IQ. cbn [cl]. destruct (b <=? e)%nat eqn:Ebe; cbn [guard]; [|exact I]. apply Nat.leb_le in Ebe.
    specialize (IHp Hs). unfold IQ in IHp. destruct (cl_closed p) as [Fo1 Fc1]. destruct (cl p) eqn:Cp; [exact I| |].
    + destruct IHp as (xs & S & Ef & L & G & B & R). pose proof (Fo1 eq_refl) as Hc.
      destruct (hist_stream (zb b) (zb e) xs S _ ltac:(unfold zb; lia) ltac:(unfold zb; lia) G) as (st & os & S' & Er & Hl & Go & Rg).
      exists os, S'. split; [|split; [congruence|split; [|split; [apply (Bound_un W _ p S S' eq_refl B Rg)|]]]].
      * unfold hist_timed_run in Er. rewrite win_run_as_run_g in Er.
        apply (node_un AR pk envs (HistT b e p) p hist_timed_update SWinZ (hwin_init (zb b) (zb e)) xs st os eq_refl Ef); [cbn [op_init]; rewrite Hc; reflexivity| |exact Er].
        intros s x. cbn [ustep]. unfold viaZ. rewrite unlift_lift. destruct (hist_timed_update s x) as [[s1 o1]|]; reflexivity.
      * apply (goodS_ext _ _ _ _ Go). intros t _ _. cbn [rhoZ]. rewrite (dstart0 W HW0). reflexivity.
      * cbn [pg]. intros P. apply andb_prop in P as [P P2]. apply andb_prop in P as [_ Pe]. apply Nat.ltb_lt in Pe.
        apply (reach_un _ p S S' eq_refl (R P2)). destruct S as [|x0 S0] eqn:ES.
        -- pose proof (goodS_nonneg _ _ _ Go). change (lastT (@nil (Z * V))) with 0 in *. lia.
        -- rewrite <- ES in *. destruct G as (Hf & DS & ZS & _). destruct Go as (Hfo & DSo & _).
           apply (hist_stream_last (zb b) (zb e) xs S st os S'); try assumption; try (unfold zb; lia). rewrite ES. discriminate.
    + destruct p; cbn [isconst guard]; try exact I. apply hist_const. exact Ebe.
  - (* SinceT *)
    destruct Hs as [Hs1 Hs2]. specialize (IHp1 Hs1). specialize (IHp2 Hs2).
    unfold IQ. cbn [cl]. destruct (b <=? e)%nat eqn:Ebe; cbn [guard]; [|exact I]. apply Nat.leb_le in Ebe.
    destruct (cl p1) eqn:C1; [exact I| |]; destruct (cl p2) eqn:C2; try exact I.
    + (* two open operands *)
      unfold IQ in IHp1, IHp2. rewrite C1 in IHp1. rewrite C2 in IHp2.
      destruct IHp1 as (xs & S1 & Ef & L1 & G1 & B1 & R1). destruct IHp2 as (ys & S2 & Eg & L2 & G2 & B2 & R2).
      assert (Hc : closed p1 || closed p2 = false).
      { rewrite (proj1 (cl_closed p1) C1), (proj1 (cl_closed p2) C2). reflexivity. }
      destruct (since_timed_stream (zb b) (zb e) xs ys S1 S2 _ _ ltac:(unfold zb; lia) ltac:(unfold zb; lia) ltac:(congruence) G1 G2)
        as (st & os & S & Er & Hl & Go & Rg).
      exists os, S. split; [|split; [exact (eq_trans Hl L1)|split; [|split; [apply (Bound_bi W (SinceT b e p1 p2) p1 p2 S1 S2 S eq_refl B1 B2 Rg)|]]]].
      * apply (node_bi AR pk envs (SinceT b e p1 p2) p1 p2 st_step SStZ (st_init (hwin_init 0 (zb b)) (owin_init (zb b) (zb e))) xs ys st os eq_refl Ef Eg); [cbn [op_init]; rewrite Hc; reflexivity| |exact Er].
        intros s x y. cbn [bstep]. unfold viaZ2, st_step. rewrite !unlift_lift. cbn [fst snd].
        destruct (since_timed_Z s x y) as [[s1 o1]|]; reflexivity.
      * apply (goodS_ext _ _ _ _ Go). intros t _ _. cbn [rhoZ]. rewrite (dstart0 W HW0). reflexivity.
      * cbn [pg]. discriminate.
    + destruct (isconst p2) eqn:Ic; cbn [guard]; [|exact I].
      apply (since_timed_const b e p1 p2 Ebe); [left; split; assumption|exact IHp1|exact IHp2].
    + destruct (isconst p1) eqn:Ic; cbn [guard]; [|exact I].
      apply (since_timed_const b e p1 p2 Ebe); [right; split; assumption|exact IHp1|exact IHp2].
Qed.

End Main2.

(* ================================================================== *)
(* PART F: sqrt / ln on a value of their raising set: the update raises *)
(* ================================================================== *)
Section Raises.
Context {VS : Val} (AR : Arith VS).
Variable pk : formula -> formula -> pkind.
Variable envs : list (list dsig).

Lemma subs_size : forall sz (p a : formula), (size p <= sz)%nat -> In a (subs p) -> (size a <= size p)%nat.
Proof.
  induction sz as [|sz IH]; intros p a Hsz Ha.
  { destruct p; cbn [size] in Hsz; lia. }
  rewrite subs_shape in Ha. destruct Ha as [<-|Ha]; [lia|].
  destruct (shape p) eqn:Sh; try (destruct Ha; fail).
  - pose proof (shape_un_size _ _ Sh) as Hs. pose proof (IH f a ltac:(lia) Ha). lia.
  - pose proof (shape_bi_size _ _ _ Sh) as [Hs1 Hs2]. apply in_app_or in Ha as [Ha|Ha].
    + pose proof (IH f a ltac:(lia) Ha). lia.
    + pose proof (IH g a ltac:(lia) Ha). lia.
Qed.

Lemma unary_loop_none T (f : V -> option V) : forall (x : list (T * V)) a v, In (a, v) x -> f v = None -> unary_loop T f x = None.
Proof.
  induction x as [|[t w] r IH]; intros a v Hin Hf; [destruct Hin|]. cbn [unary_loop]. destruct Hin as [E|Hin].
  - injection E as -> ->. rewrite Hf. reflexivity.
  - destruct (f w); [|reflexivity]. rewrite (IH a v Hin Hf). reflexivity.
Qed.

Lemma unlift_in : forall (x : esig) s, unlift x = Some s -> forall a v, In (a, v) x -> exists z, a = T z /\ In (z, v) s.
Proof.
  induction x as [|[t w] r IH]; intros s H a v Hin; [destruct Hin|]. cbn [unlift] in H. destruct t as [z|]; [|discriminate].
  destruct (unlift r) as [r'|] eqn:E; [|discriminate]. injection H as <-. destruct Hin as [E1|Hin].
  - injection E1 as <- <-. exists z. split; [reflexivity|left; reflexivity].
  - destruct (IH r' eq_refl a v Hin) as (z' & -> & Hz). exists z'. split; [reflexivity|right; exact Hz].
Qed.

(* whatever its state, the operation of [A1 o f] raises on a list that holds a value outside the domain of o *)
Lemma ustep_raises o f st (x : esig) a v : In (a, v) x -> fn1 AR o v = None -> ustep AR (A1 o f) st x = None.
Proof.
  intros Hin Hf. cbn [ustep]. destruct st; try reflexivity. destruct (closed f).
  - unfold unary_upd_e, unary_update. rewrite (unary_loop_none tz _ x a v Hin Hf). reflexivity.
  - unfold viaZ. destruct (unlift x) as [s|] eqn:E; [|reflexivity].
    destruct (unlift_in x s E a v Hin) as (z & -> & Hz). unfold unary_upd, unary_update.
    rewrite (unary_loop_none Z _ s z v Hz Hf). reflexivity.
Qed.

Variables (o : aop1) (f : formula).
Hypothesis Hroot : trun AR pk envs f <> None.
Let p := A1 o f.

Definition bad_at (k : nat) : Prop := exists a v, In (a, v) (cout AR pk envs f k) /\ fn1 AR o v = None.

Lemma update_un d env : mon_update AR pk p d env =
  match mon_update AR pk f d env with
  | None => None
  | Some (d1, x) => match ustep AR p (d1 p) x with None => None | Some (s', out) => Some (upd d1 p s', out) end
  end.
Proof.
  unfold mon_update. rewrite (visit_shape AR pk env p). cbn [shape p lookup]. unfold visit_un.
  destruct (visit AR pk env f d []) as [[[d1 m1] x]|]; [|reflexivity].
  destruct (ustep AR p (d1 p) x) as [[s' out]|]; reflexivity.
Qed.

Lemma raise_from : forall rest pre d, envs = pre ++ rest -> Ready AR pk envs f (length pre) d ->
  (exists k, (length pre <= k < length envs)%nat /\ bad_at k) -> mon_run AR pk p d rest = None.
Proof.
  induction rest as [|env rest IH]; intros pre d E HR (k & Hk & Hbad).
  - rewrite app_nil_r in E. subst pre. lia.
  - assert (Hlt : (length pre < length envs)%nat) by (rewrite E, app_length; cbn [length]; lia).
    assert (En : nth (length pre) envs [] = env) by (rewrite E, app_nth2, Nat.sub_diag by lia; reflexivity).
    destruct (update_ok AR pk envs f Hroot (length pre) d Hlt HR) as (d1 & E1 & HR1). rewrite En in E1.
    unfold mon_run. cbn [run_g]. rewrite update_un, E1.
    destruct (Nat.eq_dec k (length pre)) as [->|Hne].
    + destruct Hbad as (a & v & Hin & Hf). pose proof (ustep_raises o f (d1 p) _ a v Hin Hf) as Hu. fold p in Hu. rewrite Hu. reflexivity.
    + destruct (ustep AR p (d1 p) (cout AR pk envs f (length pre))) as [[s' out]|]; [|reflexivity].
      assert (HR2 : Ready AR pk envs f (length (pre ++ [env])) (upd d1 p s')).
      { rewrite app_length. cbn [length]. rewrite Nat.add_1_r. intros b Hb. rewrite upd_ne; [apply HR1; exact Hb|].
        intros ->. pose proof (subs_size (size f) f p (le_n _) Hb) as Hs. unfold p in Hs. cbn [size] in Hs. lia. }
      pose proof (IH (pre ++ [env]) (upd d1 p s') ltac:(rewrite <- app_assoc; exact E) HR2) as IH'.
      unfold mon_run in IH'. rewrite IH'; [reflexivity|]. exists k. split; [|exact Hbad].
      rewrite app_length. cbn [length]. lia.
Qed.

(* If the tree run of the operand is defined and one of the lists it returns holds a value on which o raises
   (sqrt: v < 0, ln: not 0 < v), the monitor of [A1 o f] raises: some update() call ends with an exception. *)
Theorem partial_op_raises :
  (exists k, (k < length envs)%nat /\ bad_at k) -> mon_run AR pk p (mon_init p) envs = None.
Proof.
  intros (k & Hk & Hbad). apply (raise_from envs [] (mon_init p) eq_refl).
  - intros a Ha. symmetry. apply (cst_0 AR pk envs f Hroot a Ha).
  - exists k. split; [cbn [length]; lia|exact Hbad].
Qed.

End Raises.

(* ================================================================== *)
(* PART G: the theorems                                                *)
(* ================================================================== *)
Section Final2.
Context {VS : Val} (AR : Arith VS).
Variable pk : formula -> formula -> pkind.                                     (* any predicate kinds: STL and IA-STL monitors *)
Hypothesis HDL : (forall f g, pk f g = PStd) \/ DiffLaws AR.                  (* IA kinds: as for the offline IA visitors *)
Hypothesis SubNeg : forall l r, neg (a2 AR Sub l r) = a2 AR Sub r l.          (* -(l - r) = r - l *)

(* value of a list with stamps in tz at a finite time *)
Fixpoint eden_opt (s : esig) (t : Z) : option V :=
  match s with
  | [] => None
  | (ti, vi) :: r => if tle ti (T t) then match eden_opt r t with Some v => Some v | None => Some vi end else None
  end.

Lemma eden_rel N s z t : rlN N s z -> t < N -> eden_opt s t = den_opt z t.
Proof.
  induction 1 as [|[a v] [a' v'] l l' [Ha Ev] Hl IH]; intros Ht; [reflexivity|]. cbn [fst snd] in *. subst v'.
  cbn [eden_opt den_opt]. rewrite (IH Ht).
  assert (E : tle a (T t) = (a' <=? t)).
  { destruct a as [x|]; cbn [Rn] in Ha; unfold tle; cbn [tlt negb]; lia. }
  rewrite E. reflexivity.
Qed.

Lemma rl_concat N : forall ys zs, Forall2 (rlN N) ys zs -> rlN N (concat ys) (concat zs).
Proof. induction 1; cbn [concat]; [constructor|]. apply (rl_app tz Z (Rn N)); assumption. Qed.

Lemma rl_in N s z : rlN N s z -> forall a v, In (a, v) s -> exists a', In (a', v) z /\ Rn N a a'.
Proof.
  induction 1 as [|[a0 v0] [a0' v0'] l l' [Ha Ev] Hl IH]; intros a v Hin; [destruct Hin|]. cbn [fst snd] in *. subst v0'.
  destruct Hin as [E|Hin].
  - injection E as <- <-. exists a0'. split; [left; reflexivity|exact Ha].
  - destruct (IH a v Hin) as (a' & Hin' & Hr). exists a'. split; [right; exact Hin'|exact Hr].
Qed.

(* THE MAIN THEOREM, formulas with a variable.  As DenseOnlineMonCorrect.mon_online_correct, for the fragment [cl p = COpen],
   any predicate kinds, under [safe] (no sqrt / ln ever receives a value on which it raises); moreover, for the formulas
   of class [pg], the last stamp returned IS the earliest of the last samples of the variables of p. *)
Theorem mon_online_correct_pk (p : formula) (W : list dsig) (tend : Z) (envs : list (list dsig)) :
  cl p = COpen ->
  (forall x, feedsI [] (map (fun env => nth x env []) envs) (nth x W [])) ->
  (forall x, dsorted (nth x W [])) ->
  (forall x, nth x W [] <> [] -> start (nth x W []) = 0) ->
  safe AR pk W tend p ->
  exists d outs S,
    mon_run AR pk p (mon_init p) envs = Some (d, map lift outs) /\
    mon_run_fin AR pk p (mon_init p) envs = Some (d, outs) /\
    length outs = length envs /\
    feedsI [] outs S /\ dsorted S /\
    wsorted (concat outs) /\
    (forall a v, In (a, v) (concat outs) -> 0 <= a <= lastT (concat outs)) /\
    (forall t, concat outs <> [] -> 0 <= t <= lastT (concat outs) ->
               den_opt (concat outs) t = Some (rhoZ AR pk W tend p t)) /\
    (forall x, In x (fvars p) -> lastT (concat outs) <= lastT (nth x W [])) /\
    (pg p = true -> exists x, In x (fvars p) /\ lastT (concat outs) = lastT (nth x W [])).
Proof.
  intros Hc Hfeed HWs HW0 Hsafe.
  pose proof (frag2_tree AR pk HDL SubNeg W tend envs Hfeed HWs HW0 p Hsafe) as H. unfold IQ in H. rewrite Hc in H.
  destruct H as (outs & S & Et & Hl & G & HB & HR).
  destruct (mon_run_tree AR pk p envs _ Et) as (d & Er).
  pose proof G as (Hfe & DS & ZS & HV). pose proof (feedsI_concat outs S Hfe DS) as HS.
  assert (EL : lastT (concat outs) = lastT S) by (rewrite <- !lastS_stamp, (sm_last _ _ HS); reflexivity).
  exists d, outs, S. split; [exact Er|]. split; [apply (run_fin AR pk); exact Er|]. split; [exact Hl|].
  split; [exact Hfe|]. split; [exact DS|]. split; [exact (sm_ws _ _ HS)|]. split; [|split; [|split]].
  - intros a v Hin. split; [|apply (wsorted_le_last _ (sm_ws _ _ HS) a v Hin)].
    apply (sm_in _ _ HS) in Hin. assert (NS : S <> []) by (intros E; rewrite E in Hin; destruct Hin).
    specialize (ZS NS). pose proof (start_le_in S a v DS Hin). lia.
  - intros t N Ht. assert (NS : S <> []) by (intros E; apply N; apply (sm_nil _ _ HS); exact E).
    rewrite (sm_den _ _ HS). apply (HV t NS). rewrite <- EL. exact Ht.
  - intros x Hx. rewrite EL. apply (HB x Hx).
  - intros P. destruct (HR P) as (x & Hx & Hle). exists x. split; [exact Hx|]. rewrite EL. pose proof (HB x Hx). lia.
Qed.

(* two sequences of updates that deliver the same inputs never disagree where both have produced output *)
Corollary mon_online_chunking_pk (p : formula) (W : list dsig) (tend : Z) (envs envs' : list (list dsig)) :
  cl p = COpen ->
  (forall x, feedsI [] (map (fun env => nth x env []) envs) (nth x W [])) ->
  (forall x, feedsI [] (map (fun env => nth x env []) envs') (nth x W [])) ->
  (forall x, dsorted (nth x W [])) ->
  (forall x, nth x W [] <> [] -> start (nth x W []) = 0) ->
  safe AR pk W tend p ->
  exists d outs d' outs',
    mon_run_fin AR pk p (mon_init p) envs = Some (d, outs) /\
    mon_run_fin AR pk p (mon_init p) envs' = Some (d', outs') /\
    forall t, concat outs <> [] -> concat outs' <> [] ->
              0 <= t <= Z.min (lastT (concat outs)) (lastT (concat outs')) ->
              den_opt (concat outs) t = den_opt (concat outs') t.
Proof.
  intros Hc H1 H2 HWs HW0 Hs.
  destruct (mon_online_correct_pk p W tend envs Hc H1 HWs HW0 Hs) as (d & outs & S & _ & E & _ & _ & _ & _ & _ & Hv & _).
  destruct (mon_online_correct_pk p W tend envs' Hc H2 HWs HW0 Hs) as (d' & outs' & S' & _ & E' & _ & _ & _ & _ & _ & Hv' & _).
  exists d, outs, d', outs'. split; [exact E|]. split; [exact E'|].
  intros t N N' Ht. rewrite (Hv t N), (Hv' t N') by lia. reflexivity.
Qed.

(* the fragment of DenseOnlineMonCorrect.v is in the new one, and [safe] holds on it *)
Lemma frag_cl p : frag p = true -> cl p = COpen.
Proof.
  assert (Hop : forall f g, (frag f = true -> cl f = COpen) -> (frag g = true -> cl g = COpen) ->
            (frag f && frag g) || (frag f && isconst g) || (isconst f && frag g) = true -> join (cl f) (cl g) = COpen).
  { intros f g Hf Hg H. apply orb_prop in H as [H|H]; [apply orb_prop in H as [H|H]|]; apply andb_prop in H as [H1 H2].
    - rewrite (Hf H1), (Hg H2). reflexivity.
    - rewrite (Hf H1). destruct g; cbn [isconst] in H2; try discriminate. reflexivity.
    - rewrite (Hg H2). destruct f; cbn [isconst] in H1; try discriminate. reflexivity. }
  induction p; cbn [frag cl]; intros H; try discriminate; try reflexivity;
  try (apply (Hop p1 p2 IHp1 IHp2); exact H);
  repeat match goal with H : _ && _ = true |- _ => apply andb_prop in H; destruct H end;
  try (apply IHp; assumption).
  - rewrite IHp1, IHp2 by assumption. reflexivity.
  - match goal with H : (b <=? e)%nat = true |- _ => rewrite H end. cbn [guard]. rewrite IHp by assumption. reflexivity.
  - match goal with H : (b <=? e)%nat = true |- _ => rewrite H end. cbn [guard]. rewrite IHp by assumption. reflexivity.
  - match goal with H : (b <=? e)%nat = true |- _ => rewrite H end. cbn [guard]. rewrite IHp1, IHp2 by assumption. reflexivity.
Qed.

Lemma frag_safe W tend p : frag p = true -> safe AR pk W tend p.
Proof.
  assert (Hop : forall f g, (frag f = true -> safe AR pk W tend f) -> (frag g = true -> safe AR pk W tend g) ->
            (frag f && frag g) || (frag f && isconst g) || (isconst f && frag g) = true -> safe AR pk W tend f /\ safe AR pk W tend g).
  { intros f g Hf Hg H. apply orb_prop in H as [H|H]; [apply orb_prop in H as [H|H]|]; apply andb_prop in H as [H1 H2].
    - split; [apply Hf|apply Hg]; assumption.
    - split; [apply Hf; assumption|]. destruct g; cbn [isconst] in H2; try discriminate. exact I.
    - split; [|apply Hg; assumption]. destruct f; cbn [isconst] in H1; try discriminate. exact I. }
  induction p; cbn [frag safe]; intros H; try discriminate; try exact I;
  try (apply (Hop p1 p2 IHp1 IHp2); exact H);
  repeat match goal with H : _ && _ = true |- _ => apply andb_prop in H; destruct H end;
  try (apply IHp; assumption); try (split; [apply IHp1|apply IHp2]; assumption).
  split; [apply IHp; assumption|]. intros E. congruence.
Qed.

(* mon_online_correct of DenseOnlineMonCorrect.v without the hypothesis [forall f g, pk f g = PStd] *)
Corollary mon_online_correct_frag_pk (p : formula) (W : list dsig) (tend : Z) (envs : list (list dsig)) :
  frag p = true ->
  (forall x, feedsI [] (map (fun env => nth x env []) envs) (nth x W [])) ->
  (forall x, dsorted (nth x W [])) ->
  (forall x, nth x W [] <> [] -> start (nth x W []) = 0) ->
  exists d outs S,
    mon_run AR pk p (mon_init p) envs = Some (d, map lift outs) /\
    mon_run_fin AR pk p (mon_init p) envs = Some (d, outs) /\
    length outs = length envs /\
    feedsI [] outs S /\ dsorted S /\
    wsorted (concat outs) /\
    (forall a v, In (a, v) (concat outs) -> 0 <= a <= lastT (concat outs)) /\
    (forall t, concat outs <> [] -> 0 <= t <= lastT (concat outs) ->
               den_opt (concat outs) t = Some (rhoZ AR pk W tend p t)) /\
    (forall x, In x (fvars p) -> lastT (concat outs) <= lastT (nth x W [])) /\
    (pg p = true -> exists x, In x (fvars p) /\ lastT (concat outs) = lastT (nth x W [])).
Proof.
  intros Hf Hfeed HWs HW0. apply (mon_online_correct_pk p W tend envs (frag_cl p Hf) Hfeed HWs HW0 (frag_safe W tend p Hf)).
Qed.

(* formulas without variable (the inputs play no role, but the updates still come with their data sets): no update
   raises, and at every tick t the returned lists cover (a stamp >= t, possibly +inf, has been returned) they denote rhoZ *)
Theorem mon_online_closed (p : formula) (W : list dsig) (tend : Z) (envs : list (list dsig)) :
  cl p = CClosed ->
  (forall x, feedsI [] (map (fun env => nth x env []) envs) (nth x W [])) ->
  (forall x, dsorted (nth x W [])) ->
  (forall x, nth x W [] <> [] -> start (nth x W []) = 0) ->
  safe AR pk W tend p ->
  exists d ys,
    mon_run AR pk p (mon_init p) envs = Some (d, ys) /\ length ys = length envs /\
    forall t, 0 <= t -> (exists a v, In (a, v) (concat ys) /\ tle (T t) a = true) ->
              eden_opt (concat ys) t = Some (rhoZ AR pk W tend p t).
Proof.
  intros Hc Hfeed HWs HW0 Hsafe.
  pose proof (frag2_tree AR pk HDL SubNeg W tend envs Hfeed HWs HW0 p Hsafe) as H. unfold IQ in H. rewrite Hc in H.
  destruct H as (ys & Et & Hl & [N0 HC]). destruct (mon_run_tree AR pk p envs _ Et) as (d & Er).
  exists d, ys. split; [exact Er|]. split; [exact Hl|]. intros t Ht (a & v & Hin & Hle).
  destruct (HC (Z.max N0 (t + 1)) ltac:(lia)) as (zs & S & Hr & Go & _). set (N := Z.max N0 (t + 1)) in *.
  pose proof (rl_concat N ys zs Hr) as Hrc. rewrite (eden_rel N _ _ t Hrc ltac:(unfold N; lia)).
  pose proof Go as (Hfe & DS & ZS & HV). pose proof (feedsI_concat zs S Hfe DS) as HS.
  destruct (rl_in N _ _ Hrc a v Hin) as (a' & Hin' & Ha).
  assert (Hta : t <= a').
  { destruct a as [x|]; cbn [Rn] in Ha; [|unfold N in *; lia]. unfold tle in Hle. cbn [tlt] in Hle. lia. }
  apply (sm_in _ _ HS) in Hin'. assert (NS : S <> []) by (intros E; rewrite E in Hin'; destruct Hin').
  pose proof (dsorted_le_last S DS a' v Hin'). rewrite (sm_den _ _ HS). apply (HV t NS). lia.
Qed.

(* sqrt / ln: the converse of [safe].  f in the fragment, its monitor returns the lists outs; if one of them holds a value
   on which o raises (sqrt: v < 0; ln: not 0 < v), the monitor of [A1 o f] raises during some update *)
Theorem partial_op_raises_frag (o : aop1) (f : formula) (W : list dsig) (tend : Z) (envs : list (list dsig)) :
  frag2 f = true ->
  (forall x, feedsI [] (map (fun env => nth x env []) envs) (nth x W [])) ->
  (forall x, dsorted (nth x W [])) ->
  (forall x, nth x W [] <> [] -> start (nth x W []) = 0) ->
  safe AR pk W tend f ->
  exists d outs,
    mon_run AR pk f (mon_init f) envs = Some (d, outs) /\
    ((exists k a v, In (a, v) (nth k outs []) /\ fn1 AR o v = None) ->
     mon_run AR pk (A1 o f) (mon_init (A1 o f)) envs = None).
Proof.
  intros Hc Hfeed HWs HW0 Hsafe.
  pose proof (frag2_tree AR pk HDL SubNeg W tend envs Hfeed HWs HW0 f Hsafe) as H. unfold IQ in H. unfold frag2 in Hc.
  assert (Ht : exists outs, trun AR pk envs f = Some outs /\ length outs = length envs).
  { destruct (cl f); [discriminate| |].
    - destruct H as (xs & S & Et & Hl & _). exists (map lift xs). split; [exact Et|rewrite map_length; exact Hl].
    - destruct H as (ys & Et & Hl & _). exists ys. split; [exact Et|exact Hl]. }
  destruct Ht as (outs & Et & Hl). destruct (mon_run_tree AR pk f envs _ Et) as (d & Er).
  exists d, outs. split; [exact Er|]. intros (k & a & v & Hin & Hf).
  apply (partial_op_raises AR pk envs o f ltac:(congruence)). exists k. split.
  - destruct (Nat.lt_ge_cases k (length outs)) as [Hlt|Hge]; [lia|]. rewrite nth_overflow in Hin by exact Hge. destruct Hin.
  - exists a, v. split; [|exact Hf]. unfold cout, outs_of. rewrite Et. exact Hin.
Qed.

End Final2.
