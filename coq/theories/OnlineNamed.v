(* OnlineNamed.v — the discrete-time online monitor as the code has it: ONE
   operation object per node NAME (online_operator_dict[node.name]) and a
   per-update memo keyed by the name (visited[node.name]), over the syntax
   nodes of NodeName.v.  Online.v is the same monitor keyed by the formula;
   OnlineNamedCorrect.v shows that the two return the same values, because
   names are injective (NodeNameCorrect.v).  The operations themselves
   (op_init / ustep / bstep) are those of Online.v, applied at the formula the
   node denotes ([sem]: leaves as columns / values, bounds as sample counts). *)
From Coq Require Import List Bool Arith ZArith String.
From RV Require Import Val Syntax Rho Offline Online Units NodeName.
Import ListNotations.

Section OnlineNamed.
Context {VS : Val} (AR : Arith VS).
Variable pk : formula -> formula -> pkind.
Variable vidx : string -> string -> nat.        (* the column of a variable / field *)
Variable cval : string -> V.                    (* float(text) *)
Variable bnd : bound -> bound -> nat * nat.     (* time_unit_transformer (where it raises, set_ast raises and there is no monitor) *)

(* what the interpreters read off a node *)
Fixpoint sem (n : node) : formula :=
  match n with
  | NVar v f => Var (vidx v f)
  | NConst t => Const (cval t)
  | NUn o c => un_formula o (sem c)
  | NTUn o b e c => tun_formula o (fst (bnd b e)) (snd (bnd b e)) (sem c)
  | NFn2 o c1 c2 => fn2_formula o (sem c1) (sem c2)
  | NBin o c1 c2 => bin_formula o (sem c1) (sem c2)
  | NTBin o b e c1 c2 => tbin_formula o (fst (bnd b e)) (snd (bnd b e)) (sem c1) (sem c2)
  end.

Definition ndict := string -> opstate.
Definition nmemo := list (string * V).
Fixpoint nlookup (m : nmemo) (k : string) : option V :=
  match m with
  | [] => None
  | (k', v) :: m' => if String.eqb k k' then Some v else nlookup m' k
  end.
Definition nupd (d : ndict) (k : string) (s : opstate) : ndict :=
  fun k' => if String.eqb k' k then s else d k'.

(* StlDiscreteTimeOnlineAstVisitor: visitChildren, then online_operator_dict[node.name] = XOperation(...);
   a later node with the same name replaces the object *)
Fixpoint nbuild (n : node) (d : ndict) : ndict :=
  let d' := match n with
            | NVar _ _ | NConst _ => d
            | NUn _ c | NTUn _ _ _ c => nbuild c d
            | NFn2 _ c1 c2 | NBin _ c1 c2 | NTBin _ _ _ c1 c2 => nbuild c2 (nbuild c1 d)
            end in
  nupd d' (nname n) (op_init (sem n)).
Definition ndict_init (roots : list node) : ndict :=
  fold_left (fun d n => nbuild n d) roots (fun _ => StNone).

(* which node classes the online monitor implements *)
Definition un_past (o : un) : bool :=
  match o with u_ev | u_alw | u_next | u_snext => false | _ => true end.
Definition tun_past (o : tun) : bool := match o with t_once | t_hist => true | _ => false end.
Definition bin_past (o : bin) : bool := match o with b_until => false | _ => true end.
Definition tbin_past (o : tbin) : bool := match o with tb_until => false | _ => true end.

Definition nvisit_un (n : node) (r : ndict * nmemo * V) : ndict * nmemo * V :=
  let '(d1, m1, v) := r in
  let '(s', out) := ustep AR (sem n) (d1 (nname n)) v in
  (nupd d1 (nname n) s', (nname n, out) :: m1, out).
Definition nvisit_bi (n : node) (vf vg : ndict -> nmemo -> ndict * nmemo * V) (d : ndict) (m : nmemo)
  : ndict * nmemo * V :=
  let '(d1, m1, v1) := vf d m in
  let '(d2, m2, v2) := vg d1 m1 in
  let '(s', out) := bstep AR pk (sem n) (d2 (nname n)) v1 v2 in
  (nupd d2 (nname n) s', (nname n, out) :: m2, out).

(* AbstractOnlineUpdateVisitor.visitUnary / visitBinary / visitLeaf: if node.name in self.visited: reuse *)
Fixpoint nvisit (env : nat -> V) (n : node) (d : ndict) (m : nmemo) {struct n} : ndict * nmemo * V :=
  match n with
  | NVar v f => (d, m, env (vidx v f))
  | NConst t => (d, m, cval t)
  | _ =>
    match nlookup m (nname n) with
    | Some v => (d, m, v)
    | None =>
      match n with
      | NUn o c => if un_past o then nvisit_un n (nvisit env c d m) else (d, m, bot)
      | NTUn o _ _ c => if tun_past o then nvisit_un n (nvisit env c d m) else (d, m, bot)
      | NFn2 _ c1 c2 => nvisit_bi n (nvisit env c1) (nvisit env c2) d m
      | NBin o c1 c2 => if bin_past o then nvisit_bi n (nvisit env c1) (nvisit env c2) d m else (d, m, bot)
      | NTBin o _ _ c1 c2 => if tbin_past o then nvisit_bi n (nvisit env c1) (nvisit env c2) d m else (d, m, bot)
      | _ => (d, m, bot)
      end
    end
  end.

Fixpoint nvisit_forest (env : nat -> V) (F : list node) (d : ndict) (m : nmemo) : ndict * list V :=
  match F with
  | [] => (d, [])
  | p :: F' =>
      let '(d1, m1, v) := nvisit env p d m in
      let '(d2, vs) := nvisit_forest env F' d1 m1 in
      (d2, v :: vs)
  end.

Definition nmon_step (F : list node) (d : ndict) (env : nat -> V) : ndict * V :=
  let '(d', vs) := nvisit_forest env F d [] in (d', last vs bot).

Fixpoint nmon_run (F : list node) (d : ndict) (w : trace) (k0 len : nat) : ndict * list V :=
  match len with
  | 0 => (d, [])
  | S len' =>
      let '(d1, v) := nmon_step F d (row w k0) in
      let '(d2, vs) := nmon_run F d1 w (S k0) len' in
      (d2, v :: vs)
  end.

End OnlineNamed.

(* the bounds as the discrete-time interpreters compute them (Units.to_samples); where that raises there is no monitor *)
Definition bnd_of (du : tunit) (p : Z) (pu : tunit) (b e : bound) : nat * nat :=
  match to_samples du p pu (itv_of b e) with Ok x => x | _ => (0, 0) end.
